import DeeprobModel.Model.Learn
import DeeprobModel.Lemmas.LearnSlices
import Mathlib.Data.List.Basic
import Mathlib.Data.List.Perm.Basic
import Mathlib.Tactic.Common
/-
The invariant of the LearnSPN work-queue machine (front re-queue) and its preservation by `step`.
-/
namespace Deeprob.Learn
open List

/-! ### node table -/

theorem getN_append_left (tbl ys : List Node) (i : Nat) (h : i < tbl.length) :
    getN (tbl ++ ys) i = getN tbl i := by
  unfold getN; rw [getD_eq_getElem?_getD, getD_eq_getElem?_getD, getElem?_append_left h]

theorem getN_append_len (tbl : List Node) (x : Node) (ys : List Node) :
    getN (tbl ++ x :: ys) tbl.length = x := by
  unfold getN; rw [getD_eq_getElem?_getD, getElem?_append_right (Nat.le_refl _)]; simp

theorem getN_append_len1 (tbl : List Node) (x y : Node) (ys : List Node) :
    getN (tbl ++ x :: y :: ys) (tbl.length + 1) = y := by
  unfold getN; rw [getD_eq_getElem?_getD, getElem?_append_right (by omega)]; simp

theorem length_addChild (tbl : List Node) (p c : Nat) : (addChild tbl p c).length = tbl.length := by
  simp [addChild]

theorem getN_addChild_ne (tbl : List Node) (p c i : Nat) (h : i ≠ p) :
    getN (addChild tbl p c) i = getN tbl i := by
  unfold addChild getN
  simp only [getD_eq_getElem?_getD]
  rw [getElem?_set_ne (fun e => h e.symm)]

theorem getN_addChild_self (tbl : List Node) (p c : Nat) (h : p < tbl.length) :
    getN (addChild tbl p c) p = { getN tbl p with children := (getN tbl p).children ++ [c] } := by
  unfold addChild
  show (List.set _ _ _).getD p default = _
  rw [getD_eq_getElem?_getD, getElem?_set_self (by simpa using h)]
  rfl

/-! ### pending tasks and the per-node item lists -/

/-- the tasks of the deque whose parent is node `p`, in deque order -/
def pend (q : List Task) (p : Nat) : List Task := q.filter (fun t => t.parent == p)

/-- a projection of the children attached so far, then of the pending tasks (deque order) -/
def itemsG (fN : Node → List Nat) (fT : Task → List Nat) (s : St) (i : Nat) : List (List Nat) :=
  (s.node i).children.map (fun c => fN (s.node c)) ++ (pend s.queue i).map fT

/-- row sets of the children attached so far, then of the pending tasks (deque order) -/
def rowItems (s : St) (i : Nat) : List (List Nat) := itemsG Node.rows Task.rows s i

/-- scopes of the children attached so far, then of the pending tasks (deque order) -/
def scopeItems (s : St) (i : Nat) : List (List Nat) := itemsG Node.scope Task.scope s i

/-- what is fixed when a sum node is created: its slices are the label classes of the splitter's answer, in
`np.unique` order, and its weights are `|slice| / |rows|` in that order -/
def SumStatic (x : Node) : Prop :=
  ∃ labels : List Int, labels.length = x.rows.length ∧ x.parts = slicesOf labels x.rows ∧
    x.weights = weightsOf x.parts x.rows.length

/-- what is fixed when a product node is created: non-empty scope slices that partition its scope -/
def ProdStatic (x : Node) : Prop := x.parts.flatten.Perm x.scope ∧ ∀ p ∈ x.parts, p ≠ []

structure NodeInv (s : St) (i : Nat) : Prop where
  ch_lt : ∀ c ∈ (s.node i).children, i < c ∧ c < s.size
  rows_ne : (s.node i).rows ≠ []
  scope_ne : (s.node i).scope ≠ []
  sum : (s.node i).kind = .sum →
    rowItems s i = (s.node i).parts ∧ (∀ sc ∈ scopeItems s i, sc = (s.node i).scope) ∧ SumStatic (s.node i)
  prod : (s.node i).kind = .prod →
    scopeItems s i = (s.node i).parts ∧ (∀ r ∈ rowItems s i, r = (s.node i).rows) ∧ ProdStatic (s.node i)
  leafy : (s.node i).kind = .leaf ∨ (s.node i).kind = .naive → (s.node i).children = []

/-- THE INVARIANT of the machine (any oracle script, front re-queue) -/
structure Inv (s : St) : Prop where
  size_pos : 0 < s.size
  root_prod : (s.node 0).kind = .prod
  tasks : ∀ t ∈ s.queue, t.parent < s.size ∧ t.rows ≠ [] ∧ t.scope ≠ [] ∧
    ((s.node t.parent).kind = .sum ∨ (s.node t.parent).kind = .prod)
  nodes : ∀ i, i < s.size → NodeInv s i

/-- two table cells that differ at most in their `children` -/
def SameStatic (x y : Node) : Prop :=
  x.kind = y.kind ∧ x.scope = y.scope ∧ x.rows = y.rows ∧ x.parts = y.parts ∧ x.weights = y.weights

theorem SameStatic.sumStatic {x y : Node} (h : SameStatic x y) (hs : SumStatic y) : SumStatic x := by
  obtain ⟨_, _, h3, h4, h5⟩ := h
  obtain ⟨l, a, b, c⟩ := hs
  exact ⟨l, by rw [h3]; exact a, by rw [h3, h4]; exact b, by rw [h3, h4, h5]; exact c⟩

theorem SameStatic.prodStatic {x y : Node} (h : SameStatic x y) (hs : ProdStatic y) : ProdStatic x := by
  obtain ⟨_, h2, _, h4, _⟩ := h
  unfold ProdStatic; rw [h2, h4]; exact hs

/-- transfer of a node's invariant to a state in which the node kept its static fields and its item lists -/
theorem NodeInv.transfer {s s' : St} {i : Nat} (h : NodeInv s i) (hst : SameStatic (s'.node i) (s.node i))
    (hch : ∀ c ∈ (s'.node i).children, i < c ∧ c < s'.size)
    (hr : rowItems s' i = rowItems s i) (hsc : scopeItems s' i = scopeItems s i)
    (hleaf : (s.node i).kind = .leaf ∨ (s.node i).kind = .naive → (s'.node i).children = []) :
    NodeInv s' i := by
  obtain ⟨k1, k2, k3, k4, k5⟩ := hst
  refine ⟨hch, by rw [k3]; exact h.rows_ne, by rw [k2]; exact h.scope_ne, ?_, ?_, ?_⟩
  · intro hk
    obtain ⟨a, b, c⟩ := h.sum (k1 ▸ hk)
    refine ⟨by rw [hr, k4]; exact a, by rw [hsc, k2]; exact b, SameStatic.sumStatic ⟨k1, k2, k3, k4, k5⟩ c⟩
  · intro hk
    obtain ⟨a, b, c⟩ := h.prod (k1 ▸ hk)
    refine ⟨by rw [hsc, k4]; exact a, by rw [hr, k3]; exact b, SameStatic.prodStatic ⟨k1, k2, k3, k4, k5⟩ c⟩
  · intro hk; exact hleaf (k1 ▸ hk)

/-! ### facts about `attach` -/

section attach
variable (s : St) (t : Task) (q : List Task) (sc : List Ans) (x : Node) (extra : Option Node) (nt : List Task)

theorem attach_size : (attach s t q sc x extra nt).size = s.size + 1 + extra.toList.length := by
  simp [attach, St.size, length_addChild]; omega

theorem attach_node_old (i : Nat) (hi : i < s.size) (hne : i ≠ t.parent) :
    (attach s t q sc x extra nt).node i = s.node i := by
  unfold attach St.node
  simp only
  rw [getN_addChild_ne _ _ _ _ hne, getN_append_left _ _ _ hi]

theorem attach_node_parent (hp : t.parent < s.size) :
    (attach s t q sc x extra nt).node t.parent
      = { s.node t.parent with children := (s.node t.parent).children ++ [s.size] } := by
  unfold attach St.node
  simp only
  rw [getN_addChild_self _ _ _ (by simp [St.size] at hp ⊢; omega), getN_append_left _ _ _ hp]

theorem attach_node_new (hp : t.parent < s.size) : (attach s t q sc x extra nt).node s.size = x := by
  unfold attach St.node
  simp only
  rw [getN_addChild_ne _ _ _ _ (by omega)]
  exact getN_append_len _ _ _

theorem attach_node_extra (hp : t.parent < s.size) (y : Node) :
    (attach s t q sc x (some y) nt).node (s.size + 1) = y := by
  unfold attach St.node
  simp only
  rw [getN_addChild_ne _ _ _ _ (by omega)]
  exact getN_append_len1 _ _ _ _

/-- old cells keep their static fields -/
theorem attach_sameStatic (i : Nat) (hi : i < s.size) (hp : t.parent < s.size) :
    SameStatic ((attach s t q sc x extra nt).node i) (s.node i) := by
  by_cases hne : i = t.parent
  · subst hne; rw [attach_node_parent _ _ _ _ _ _ _ hp]; exact ⟨rfl, rfl, rfl, rfl, rfl⟩
  · rw [attach_node_old _ _ _ _ _ _ _ i hi hne]; exact ⟨rfl, rfl, rfl, rfl, rfl⟩

theorem attach_children (i : Nat) (hi : i < s.size) (hp : t.parent < s.size) :
    ((attach s t q sc x extra nt).node i).children
      = (s.node i).children ++ (if i = t.parent then [s.size] else []) := by
  by_cases hne : i = t.parent
  · subst hne; rw [attach_node_parent _ _ _ _ _ _ _ hp]; simp
  · rw [attach_node_old _ _ _ _ _ _ _ i hi hne]; simp [hne]

end attach

theorem pend_append (q r : List Task) (p : Nat) : pend (q ++ r) p = pend q p ++ pend r p := by
  simp [pend]

theorem pend_cons (t : Task) (q : List Task) (p : Nat) :
    pend (t :: q) p = if t.parent = p then t :: pend q p else pend q p := by
  unfold pend
  by_cases h : t.parent = p
  · rw [filter_cons_of_pos (by simp [h]), if_pos h]
  · rw [filter_cons_of_neg (by simp [h]), if_neg h]

theorem pend_nil_of (r : List Task) (p : Nat) (h : ∀ u ∈ r, u.parent ≠ p) : pend r p = [] := by
  unfold pend
  rw [filter_eq_nil_iff]
  intro u hu; simp [h u hu]

theorem pend_self_of (r : List Task) (p : Nat) (h : ∀ u ∈ r, u.parent = p) : pend r p = r := by
  unfold pend
  rw [filter_eq_self]
  intro u hu; simp [h u hu]

/-- the item lists of the old nodes do not change when the head task is replaced by a node -/
theorem items_attach (fN : Node → List Nat) (fT : Task → List Nat)
    (s : St) (t : Task) (q : List Task) (sc : List Ans) (x : Node) (extra : Option Node) (nt : List Task)
    (hI : Inv s) (hq : s.queue = t :: q) (hx : fN x = fT t)
    (hfN : ∀ a b : Node, SameStatic a b → fN a = fN b)
    (hnt : ∀ u ∈ nt, u.parent = s.size) (i : Nat) (hi : i < s.size) :
    itemsG fN fT (attach s t q sc x extra nt) i = itemsG fN fT s i := by
  have hp : t.parent < s.size := (hI.tasks t (hq ▸ mem_cons_self ..)).1
  unfold itemsG
  rw [attach_children _ _ _ _ _ _ _ i hi hp, map_append]
  have hold : (s.node i).children.map (fun c => fN ((attach s t q sc x extra nt).node c))
      = (s.node i).children.map (fun c => fN (s.node c)) := by
    apply map_congr_left
    intro c hc
    exact hfN _ _ (attach_sameStatic _ _ _ _ _ _ _ c ((hI.nodes i hi).ch_lt c hc).2 hp)
  have hpend : pend (attach s t q sc x extra nt).queue i = pend q i := by
    show pend (q ++ nt) i = pend q i
    rw [pend_append, pend_nil_of nt i (fun u hu => by rw [hnt u hu]; omega), append_nil]
  rw [hold, hpend, hq, pend_cons]
  by_cases he : i = t.parent
  · subst he
    rw [if_pos rfl, if_pos rfl]
    simp only [map_cons, map_nil, append_assoc, singleton_append]
    rw [attach_node_new _ _ _ _ _ _ _ hp, hx]
  · rw [if_neg he, if_neg (fun e => he e.symm)]
    simp

theorem sameStatic_rows (a b : Node) (h : SameStatic a b) : a.rows = b.rows := h.2.2.1
theorem sameStatic_scope (a b : Node) (h : SameStatic a b) : a.scope = b.scope := h.2.1

/-- PRESERVATION by every node-creating operation -/
theorem inv_attach (s : St) (t : Task) (q : List Task) (sc : List Ans) (x : Node) (extra : Option Node)
    (nt : List Task) (hI : Inv s) (hq : s.queue = t :: q)
    (hx_rows : x.rows = t.rows) (hx_scope : x.scope = t.scope)
    (hnt : ∀ u ∈ nt, u.parent = s.size ∧ u.rows ≠ [] ∧ u.scope ≠ [])
    (hkind : nt ≠ [] → x.kind = .sum ∨ x.kind = .prod)
    (hxch : x.children = extra.toList.map (fun _ => s.size + 1))
    (hextra : ∀ y, extra = some y → (y.kind = .leaf ∨ y.kind = .naive) ∧ y.children = [] ∧ y.rows ≠ [] ∧ y.scope ≠ [])
    (hsum : x.kind = .sum → extra = none ∧ nt.map (·.rows) = x.parts ∧ (∀ u ∈ nt, u.scope = x.scope) ∧ SumStatic x)
    (hprod : x.kind = .prod → extra.toList.map (·.scope) ++ nt.map (·.scope) = x.parts ∧
        (∀ y, extra = some y → y.rows = x.rows) ∧ (∀ u ∈ nt, u.rows = x.rows) ∧ ProdStatic x)
    (hleaf : x.kind = .leaf ∨ x.kind = .naive → extra = none ∧ nt = []) :
    Inv (attach s t q sc x extra nt) := by
  have ht := hI.tasks t (hq ▸ mem_cons_self ..)
  have hp : t.parent < s.size := ht.1
  have hsz := attach_size s t q sc x extra nt
  have hpendq : pend q s.size = [] :=
    pend_nil_of q _ (fun u hu => by have := (hI.tasks u (hq ▸ mem_cons_of_mem _ hu)).1; omega)
  have hpendnt : pend nt s.size = nt := pend_self_of nt _ (fun u hu => (hnt u hu).1)
  have hpend_new : pend (attach s t q sc x extra nt).queue s.size = nt := by
    show pend (q ++ nt) s.size = nt
    rw [pend_append, hpendq, hpendnt, nil_append]
  refine ⟨by omega, ?_, ?_, ?_⟩
  · rw [(attach_sameStatic s t q sc x extra nt 0 hI.size_pos hp).1]; exact hI.root_prod
  · intro u hu
    rcases mem_append.1 hu with hu | hu
    · obtain ⟨a, b, c, d⟩ := hI.tasks u (hq ▸ mem_cons_of_mem _ hu)
      refine ⟨by omega, b, c, ?_⟩
      rw [(attach_sameStatic s t q sc x extra nt u.parent a hp).1]; exact d
    · obtain ⟨a, b, c⟩ := hnt u hu
      refine ⟨by omega, b, c, ?_⟩
      rw [a, attach_node_new _ _ _ _ _ _ _ hp]
      exact hkind (ne_nil_of_mem hu)
  · intro i hi
    by_cases hold : i < s.size
    · -- an old node
      refine (hI.nodes i hold).transfer (attach_sameStatic s t q sc x extra nt i hold hp) ?_ ?_ ?_ ?_
      · intro c hc
        rw [attach_children _ _ _ _ _ _ _ i hold hp, mem_append] at hc
        rcases hc with hc | hc
        · have := (hI.nodes i hold).ch_lt c hc; omega
        · split at hc
          · rw [mem_singleton] at hc; omega
          · simp at hc
      · exact items_attach Node.rows Task.rows s t q sc x extra nt hI hq hx_rows sameStatic_rows
          (fun u hu => (hnt u hu).1) i hold
      · exact items_attach Node.scope Task.scope s t q sc x extra nt hI hq hx_scope sameStatic_scope
          (fun u hu => (hnt u hu).1) i hold
      · intro hk
        have hne : i ≠ t.parent := by
          intro e; subst e
          rcases ht.2.2.2 with h | h <;> rcases hk with h' | h' <;> rw [h] at h' <;> cases h'
        rw [attach_node_old _ _ _ _ _ _ _ i hold hne]
        exact (hI.nodes i hold).leafy hk
    · by_cases hnew : i = s.size
      · -- the new node
        subst hnew
        have hnode := attach_node_new s t q sc x extra nt hp
        have hitems : ∀ (fN : Node → List Nat) (fT : Task → List Nat),
            itemsG fN fT (attach s t q sc x extra nt) s.size
              = extra.toList.map fN ++ nt.map fT := by
          intro fN fT
          unfold itemsG
          rw [hpend_new, hnode, hxch]
          congr 1
          cases extra with
          | none => rfl
          | some y =>
            simp only [Option.toList_some, map_cons, map_nil]
            rw [attach_node_extra _ _ _ _ _ _ hp]
        refine ⟨?_, by rw [hnode, hx_rows]; exact ht.2.1, by rw [hnode, hx_scope]; exact ht.2.2.1, ?_, ?_, ?_⟩
        · intro c hc
          rw [hnode, hxch] at hc
          cases extra with
          | none => simp at hc
          | some y =>
            simp at hc; subst hc
            simp at hsz; omega
        · intro hk
          rw [hnode] at hk ⊢
          obtain ⟨a, b, c, d⟩ := hsum hk
          subst a
          refine ⟨?_, ?_, d⟩
          · unfold rowItems; rw [hitems]; simpa using b
          · unfold scopeItems; rw [hitems]
            intro sc' hsc'
            simp only [Option.toList_none, map_nil, nil_append, mem_map] at hsc'
            obtain ⟨u, hu, rfl⟩ := hsc'
            exact c u hu
        · intro hk
          rw [hnode] at hk ⊢
          obtain ⟨a, b, c, d⟩ := hprod hk
          refine ⟨?_, ?_, d⟩
          · unfold scopeItems; rw [hitems]; exact a
          · unfold rowItems; rw [hitems]
            intro r hr
            rcases mem_append.1 hr with hr | hr
            · cases extra with
              | none => simp at hr
              | some y => simp at hr; subst hr; exact b y rfl
            · obtain ⟨u, hu, rfl⟩ := mem_map.1 hr
              exact c u hu
        · intro hk
          rw [hnode] at hk ⊢
          rw [hxch, (hleaf hk).1]; rfl
      · -- the naive factorisation under a REM_FEATURES product
        cases extra with
        | none => simp at hsz; omega
        | some y =>
          have hi' : i = s.size + 1 := by simp at hsz; omega
          subst hi'
          have hnode := attach_node_extra s t q sc x nt hp y
          obtain ⟨a, b, c, d⟩ := hextra y rfl
          refine ⟨by rw [hnode, b]; simp, by rw [hnode]; exact c, by rw [hnode]; exact d, ?_, ?_, ?_⟩
          · intro hk; rw [hnode] at hk; rcases a with a | a <;> rw [a] at hk <;> cases hk
          · intro hk; rw [hnode] at hk; rcases a with a | a <;> rw [a] at hk <;> cases hk
          · intro _; rw [hnode]; exact b

/-- PRESERVATION by the repaired single-slice re-queue (`tasks.appendleft`): the task keeps its place -/
theorem inv_requeue (s : St) (t t' : Task) (q : List Task) (sc : List Ans) (hI : Inv s)
    (hq : s.queue = t :: q) (h1 : t'.parent = t.parent) (h2 : t'.rows = t.rows) (h3 : t'.scope = t.scope) :
    Inv { s with queue := t' :: q, script := sc } := by
  have ht := hI.tasks t (hq ▸ mem_cons_self ..)
  have hitems : ∀ (fN : Node → List Nat) (fT : Task → List Nat), fT t' = fT t → ∀ i,
      itemsG fN fT { s with queue := t' :: q, script := sc } i = itemsG fN fT s i := by
    intro fN fT hf i
    unfold itemsG
    show _ ++ map fT (pend (t' :: q) i) = _ ++ map fT (pend s.queue i)
    rw [hq, pend_cons, pend_cons, h1]
    by_cases he : t.parent = i
    · rw [if_pos he, if_pos he, map_cons, map_cons, hf]; rfl
    · rw [if_neg he, if_neg he]; rfl
  refine ⟨hI.size_pos, hI.root_prod, ?_, ?_⟩
  · intro u hu
    rcases mem_cons.1 hu with rfl | hu
    · rw [h1, h2, h3]; exact ht
    · exact hI.tasks u (hq ▸ mem_cons_of_mem _ hu)
  · intro i hi
    exact (hI.nodes i hi).transfer ⟨rfl, rfl, rfl, rfl, rfl⟩ (hI.nodes i hi).ch_lt
      (hitems Node.rows Task.rows h2 i) (hitems Node.scope Task.scope h3 i) (hI.nodes i hi).leafy

theorem selectOp_rem (cfg : Cfg) (t : Task) (zv : List Bool) (h : selectOp cfg t zv = .remFeatures) :
    zv.all id = false ∧ zv.any id = true := by
  unfold selectOp at h
  by_cases h1 : zv.all id = true
  · rw [if_pos h1] at h; cases h
  · rw [if_neg h1] at h
    by_cases h2 : zv.any id = true
    · exact ⟨by simpa using h1, h2⟩
    · rw [if_neg h2] at h
      split at h
      · cases h
      · split at h <;> cases h

/-- PRESERVATION: one iteration of the loop with the repaired re-queue keeps the invariant, whatever the
oracle script answers -/
theorem inv_step (cfg : Cfg) (hf : cfg.front = true) (s s' : St) (hI : Inv s) (h : step cfg s = .ok s') :
    Inv s' := by
  unfold step at h
  split at h
  · cases h; exact hI
  · rename_i t q hq
    have ht := hI.tasks t (hq ▸ mem_cons_self ..)
    split at h
    · rename_i pos sc hsc
      split at h
      · cases h
      · simp only at h
        split at h
        · -- SPLIT_NAIVE
          cases h
          exact inv_attach s t q sc _ none [] hI hq rfl rfl (by simp) (by simp) rfl (by simp)
            (fun hk => by cases hk) (fun hk => by cases hk) (fun _ => ⟨rfl, rfl⟩)
        · -- REM_FEATURES
          rename_i hop
          cases h
          obtain ⟨hall, hany⟩ := selectOp_rem cfg t _ hop
          have hlen := length_zvMask pos t.scope.length
          have hrem : selectBy (zvMask pos t.scope.length) t.scope true ≠ [] :=
            selectBy_ne_nil _ _ hlen true (by
              obtain ⟨b, hb, hb'⟩ := any_eq_true.1 hany
              simp at hb'; subst hb'; exact hb)
          have hoth : selectBy (zvMask pos t.scope.length) t.scope false ≠ [] :=
            selectBy_ne_nil _ _ hlen false (by
              rw [all_eq_false] at hall
              obtain ⟨b, hb, hb'⟩ := hall
              simp at hb'; subst hb'; exact hb)
          refine inv_attach s t q sc _ (some _) _ hI hq rfl rfl ?_ (fun _ => Or.inr rfl) rfl ?_
            (fun hk => by cases hk) ?_ (fun hk => by rcases hk with hk | hk <;> cases hk)
          · intro u hu
            rw [mem_singleton] at hu; subst hu
            exact ⟨rfl, ht.2.1, hoth⟩
          · intro y hy
            cases hy
            exact ⟨Or.inr rfl, rfl, ht.2.1, hrem⟩
          · intro _
            refine ⟨rfl, ?_, ?_, ?_, ?_⟩
            · intro y hy; cases hy; rfl
            · intro u hu; rw [mem_singleton] at hu; subst hu; rfl
            · show ([_, _] : List (List Nat)).flatten.Perm t.scope
              simpa using selectBy_perm _ t.scope hlen
            · intro p hp
              rcases mem_cons.1 hp with rfl | hp
              · exact hrem
              · rw [mem_singleton] at hp; subst hp; exact hoth
        · -- CREATE_LEAF
          cases h
          exact inv_attach s t q sc _ none [] hI hq rfl rfl (by simp) (by simp) rfl (by simp)
            (fun hk => by cases hk) (fun hk => by cases hk) (fun _ => ⟨rfl, rfl⟩)
        · -- SPLIT_ROWS
          split at h
          · rename_i labels sc'
            split at h
            · cases h
            · rename_i hlen
              have hlen' : labels.length = t.rows.length := by simpa using hlen
              split at h
              · -- single slice: re-queue
                cases h
                unfold requeue; rw [hf]
                exact inv_requeue s t _ q sc' hI hq rfl rfl rfl
              · cases h
                refine inv_attach s t q sc' _ none _ hI hq rfl rfl ?_ (fun _ => Or.inl rfl) rfl (by simp)
                  ?_ (fun hk => by cases hk) (fun hk => by rcases hk with hk | hk <;> cases hk)
                · intro u hu
                  obtain ⟨r, hr, rfl⟩ := mem_map.1 hu
                  exact ⟨rfl, slicesOf_ne_nil labels t.rows hlen' r hr, ht.2.2.1⟩
                · intro _
                  refine ⟨rfl, ?_, ?_, ⟨labels, hlen', rfl, rfl⟩⟩
                  · rw [map_map]; exact map_id' _
                  · intro u hu
                    obtain ⟨r, _, rfl⟩ := mem_map.1 hu
                    rfl
          · cases h
        · -- SPLIT_COLS
          split at h
          · rename_i labels sc'
            split at h
            · cases h
            · rename_i hlen
              have hlen' : labels.length = t.scope.length := by simpa using hlen
              split at h
              · cases h
                unfold requeue; rw [hf]
                exact inv_requeue s t _ q sc' hI hq rfl rfl rfl
              · cases h
                refine inv_attach s t q sc' _ none _ hI hq rfl rfl ?_ (fun _ => Or.inr rfl) rfl (by simp)
                  (fun hk => by cases hk) ?_ (fun hk => by rcases hk with hk | hk <;> cases hk)
                · intro u hu
                  obtain ⟨c, hc, rfl⟩ := mem_map.1 hu
                  exact ⟨rfl, ht.2.1, slicesOf_ne_nil labels t.scope hlen' c hc⟩
                · intro _
                  refine ⟨?_, by simp, ?_, ⟨slicesOf_perm labels t.scope hlen', slicesOf_ne_nil labels t.scope hlen'⟩⟩
                  · simp only [Option.toList_none, map_nil, nil_append, map_map]; exact map_id' _
                  · intro u hu
                    obtain ⟨c, _, rfl⟩ := mem_map.1 hu
                    rfl
          · cases h
    · cases h

theorem inv_run (cfg : Cfg) (hf : cfg.front = true) (fuel : Nat) (s s' : St) (hI : Inv s)
    (h : run cfg fuel s = .ok s') : Inv s' := by
  induction fuel generalizing s with
  | zero => simp [run] at h; subst h; exact hI
  | succ f ih =>
    unfold run at h
    split at h
    · cases h; exact hI
    · split at h
      · rename_i s1 hs1
        exact ih s1 (inv_step cfg hf s s1 hI (by rw [← hs1])) h
      · cases h

/-- the initial state satisfies the invariant -/
theorem inv_initOn (rows scope : List Nat) (script : List Ans) (hr : rows ≠ []) (hs : scope ≠ []) :
    Inv (initOn rows scope script) := by
  have hnode : (initOn rows scope script).node 0 = { kind := .prod, scope := scope, rows := rows, parts := [scope] } := rfl
  refine ⟨by simp [initOn, St.size], by rw [hnode], ?_, ?_⟩
  · intro t ht
    simp [initOn] at ht; subst ht
    exact ⟨by simp [initOn, St.size], hr, hs, Or.inr (by rw [hnode])⟩
  · intro i hi
    have : i = 0 := by simp [initOn, St.size] at hi; exact hi
    subst this
    refine ⟨by rw [hnode]; simp, by rw [hnode]; exact hr, by rw [hnode]; exact hs, ?_, ?_, ?_⟩
    · intro hk; rw [hnode] at hk; cases hk
    · intro _
      have hsi : scopeItems (initOn rows scope script) 0 = [scope] := rfl
      have hri : rowItems (initOn rows scope script) 0 = [rows] := rfl
      refine ⟨?_, ?_, ?_⟩
      · rw [hnode, hsi]
      · intro r hr'
        rw [hri, mem_singleton] at hr'
        rw [hnode]; exact hr'
      · rw [hnode]; exact ⟨by simp, by simp [hs]⟩
    · intro hk; rw [hnode] at hk; rcases hk with hk | hk <;> cases hk

end Deeprob.Learn
