import DeeprobModel.Lemmas.TensorLemmas
import DeeprobModel.Props.CircMarg
/-
Unrolling lemmas for C16 / C17: the layered RAT-SPN / DGC-SPN networks, written as tables of
tree circuits, are valid (smooth, decomposable) circuits.
-/
set_option linter.unusedSimpArgs false
set_option linter.unusedVariables false
set_option linter.unusedSectionVars false

namespace Deeprob
namespace Tensor

section scopes
variable {α : Type}
@[simp] theorem scope_leaf (s : List Nat) (f : Ev → α) : (Circ.leaf s f).scope = s := rfl
@[simp] theorem scope_sum (s : List Nat) (ws : List α) (cs : List (Circ α)) : (Circ.sum s ws cs).scope = s := rfl
@[simp] theorem scope_prod (s : List Nat) (cs : List (Circ α)) : (Circ.prod s cs).scope = s := rfl

end scopes

section generic
variable {α : Type} [CommSemiring α]

/-- the constant-one leaf with empty scope is a distribution over no variable -/
theorem constOne_ok (dom : Nat → Nat) : LeafOK (α := α) dom [] (fun _ => 1) where
  local_ := by intro a b _; rfl
  marg := by intro e; rfl

theorem valid_leaf_iff (dom : Nat → Nat) (s : List Nat) (f : Ev → α) :
    Circ.Valid dom (.leaf s f) ↔ LeafOK dom s f := by
  unfold Circ.Valid; exact Iff.rfl

theorem valid_sum_iff (dom : Nat → Nat) (s : List Nat) (ws : List α) (cs : List (Circ α)) :
    Circ.Valid dom (.sum s ws cs) ↔
      (cs ≠ [] ∧ ws.length = cs.length ∧ (∀ c ∈ cs, scopeEq (Circ.scope c) s) ∧ ∀ c ∈ cs, Circ.Valid dom c) := by
  conv => lhs; unfold Circ.Valid

theorem valid_prod_iff (dom : Nat → Nat) (s : List Nat) (cs : List (Circ α)) :
    Circ.Valid dom (.prod s cs) ↔
      ((cs.map Circ.scope).flatten.Nodup ∧ scopeEq (cs.map Circ.scope).flatten s ∧ ∀ c ∈ cs, Circ.Valid dom c) := by
  conv => lhs; unfold Circ.Valid

theorem normW_sum_iff (s : List Nat) (ws : List α) (cs : List (Circ α)) :
    Circ.NormW (.sum s ws cs) ↔ (tsum ws = 1 ∧ ∀ c ∈ cs, Circ.NormW c) := by
  conv => lhs; unfold Circ.NormW

theorem normW_prod_iff (s : List Nat) (cs : List (Circ α)) :
    Circ.NormW (.prod s cs) ↔ (∀ c ∈ cs, Circ.NormW c) := by
  conv => lhs; unfold Circ.NormW

theorem normW_leaf (s : List Nat) (f : Ev → α) : Circ.NormW (.leaf s f) := by
  unfold Circ.NormW; trivial

theorem leafNorm_sum_iff (dom : Nat → Nat) (s : List Nat) (ws : List α) (cs : List (Circ α)) :
    Circ.LeafNorm dom (.sum s ws cs) ↔ (∀ c ∈ cs, Circ.LeafNorm dom c) := by
  conv => lhs; unfold Circ.LeafNorm

theorem leafNorm_prod_iff (dom : Nat → Nat) (s : List Nat) (cs : List (Circ α)) :
    Circ.LeafNorm dom (.prod s cs) ↔ (∀ c ∈ cs, Circ.LeafNorm dom c) := by
  conv => lhs; unfold Circ.LeafNorm

theorem leafNorm_leaf_iff (dom : Nat → Nat) (s : List Nat) (f : Ev → α) :
    Circ.LeafNorm dom (.leaf s f) ↔ f (fun _ => none) = 1 := by
  conv => lhs; unfold Circ.LeafNorm

end generic
end Tensor
open Tensor


namespace RatSpn

/-! ### tagged levels = concatenation over the repetitions -/

theorem taggedLevel_eq (ρ : Nat → List Nat → List Nat) (n reps : Nat) : ∀ k,
    taggedLevel ρ n reps k = (List.range reps).flatMap (fun t => (regionLevel (ρ t) n k).map (fun r => (t, r)))
  | 0 => by simp [taggedLevel, regionLevel, List.flatMap_def, List.map_map]
           ; induction (List.range reps) with
             | nil => rfl
             | cons a l ih => simp [ih]
  | k + 1 => by
      rw [taggedLevel, taggedLevel_eq ρ n reps k, taggedNext, List.flatMap_assoc]
      apply List.flatMap_congr
      intro t _
      simp only [regionLevel, nextRegions, List.flatMap_map, List.map_flatMap, List.map_cons, List.map_nil]

theorem taggedLevel_untag (ρ : Nat → List Nat → List Nat) (n reps k : Nat) :
    (taggedLevel ρ n reps k).map Prod.snd = (List.range reps).flatMap (fun t => regionLevel (ρ t) n k) := by
  rw [taggedLevel_eq, List.map_flatMap]
  apply List.flatMap_congr
  intro t _
  simp [List.map_map, Function.comp_def]

theorem mem_taggedLevel (ρ : Nat → List Nat → List Nat) (n reps k : Nat) (q : Nat × List Nat)
    (h : q ∈ taggedLevel ρ n reps k) : q.1 < reps ∧ q.2 ∈ regionLevel (ρ q.1) n k := by
  rw [taggedLevel_eq, List.mem_flatMap] at h
  obtain ⟨t, ht, hq⟩ := h
  obtain ⟨r, hr, rfl⟩ := List.mem_map.1 hq
  exact ⟨List.mem_range.1 ht, hr⟩

theorem taggedNext_snd (ρ : Nat → List Nat → List Nat) (parents : List (Nat × List Nat)) :
    (taggedNext ρ parents).map Prod.snd =
      parents.flatMap (fun q => [(splitRegion (ρ q.1) q.2).1, (splitRegion (ρ q.1) q.2).2]) := by
  simp [taggedNext, List.map_flatMap]

theorem flatMap_pair_length {γ β : Type} (f g : γ → β) (l : List γ) :
    (l.flatMap (fun q => [f q, g q])).length = 2 * l.length := by
  induction l with
  | nil => rfl
  | cons q l ih => simp only [List.flatMap_cons, List.length_append, List.length_cons, List.length_nil, ih]; omega

theorem flatMap_pair_getD {γ β : Type} (f g : γ → β) (d : β) : ∀ (l : List γ) (j : Nat) (hj : j < l.length),
    (l.flatMap (fun q => [f q, g q])).getD (2 * j) d = f l[j] ∧
    (l.flatMap (fun q => [f q, g q])).getD (2 * j + 1) d = g l[j]
  | [], j, h => by simp at h
  | q :: l, 0, _ => by simp
  | q :: l, j + 1, h => by
      have ih := flatMap_pair_getD f g d l j (by simpa using h)
      have e1 : 2 * (j + 1) = (2 * j + 1) + 1 := by omega
      have e2 : 2 * (j + 1) + 1 = (2 * j + 1 + 1) + 1 := by omega
      simp only [List.flatMap_cons, List.cons_append, List.nil_append, List.getElem_cons_succ, List.getD_cons_succ]
      exact ih

theorem getD_map_of_lt {γ β : Type} (f : γ → β) (l : List γ) (i : Nat) (h : i < l.length) (d : β) (d' : γ) :
    (l.map f).getD i d = f (l.getD i d') := by
  simp [List.getD_eq_getElem?_getD, List.getElem?_eq_getElem h]

section tables
variable {α : Type} [CommSemiring α]

/-- a table is aligned with a list of regions: every node of group `i` is a valid circuit whose scope
is (as a duplicate-free list) the `i`-th region -/
def TInv (dom : Nat → Nat) (regs : List (List Nat)) (m : Nat) (T : Table α) : Prop :=
  T.groups = regs.length ∧ T.nodes = m ∧
  ∀ i, i < regs.length → ∀ t,
    (∀ v, v ∈ (T.at_ i t).scope ↔ v ∈ regs.getD i []) ∧ (T.at_ i t).scope.Nodup ∧ Circ.Valid dom (T.at_ i t)

/-- **product layer**: pairs the two halves of one parent region — decomposable because the halves are
disjoint, and the product covers the parent -/
theorem prod_step (dom : Nat → Nat) (ρ : Nat → List Nat → List Nat) (hρ : ∀ t r, (ρ t r).Perm r)
    (parents : List (Nat × List Nat)) (hnd : ∀ q ∈ parents, q.2.Nodup) (m : Nat) (T : Table α)
    (h : TInv dom ((taggedNext ρ parents).map Prod.snd) m T) :
    TInv dom (parents.map Prod.snd) (m * m) (prodTable T) := by
  obtain ⟨hg, hnodes, hall⟩ := h
  rw [taggedNext_snd] at hg hall
  rw [flatMap_pair_length] at hg hall
  refine ⟨?_, ?_, ?_⟩
  · simp only [prodTable, hg, List.length_map]; omega
  · simp only [prodTable, hnodes]
  · intro j hj t
    rw [List.length_map] at hj
    have hq := flatMap_pair_getD (fun q : Nat × List Nat => (splitRegion (ρ q.1) q.2).1)
      (fun q => (splitRegion (ρ q.1) q.2).2) [] parents j hj
    obtain ⟨ha1, ha2, ha3⟩ := hall (2 * j) (by omega) (t / T.nodes)
    obtain ⟨hb1, hb2, hb3⟩ := hall (2 * j + 1) (by omega) (t % T.nodes)
    rw [hq.1] at ha1
    rw [hq.2] at hb1
    have hmem : parents[j] ∈ parents := List.getElem_mem hj
    have hperm := split_perm (ρ parents[j].1) parents[j].2 (hρ _ _)
    have hnd2 := List.nodup_append.1 (split_nodup (ρ parents[j].1) parents[j].2 (hρ _ _) (hnd _ hmem))
    have hreg : (parents.map Prod.snd).getD j [] = parents[j].2 := by
      simp [List.getD_eq_getElem?_getD, List.getElem?_eq_getElem hj]
    simp only [prodTable, scope_prod]
    refine ⟨?_, ?_, ?_⟩
    · intro v
      rw [hreg, List.mem_append, ha1, hb1, ← hperm.mem_iff, List.mem_append]
    · rw [List.nodup_append]
      refine ⟨ha2, hb2, ?_⟩
      intro a haa b hbb hab
      subst hab
      exact hnd2.2.2 a ((ha1 a).1 haa) a ((hb1 a).1 hbb) rfl
    · rw [valid_prod_iff]
      simp only [List.map_cons, List.map_nil, List.flatten_cons, List.flatten_nil, List.append_nil]
      refine ⟨?_, ?_, ?_⟩
      · rw [List.nodup_append]
        refine ⟨ha2, hb2, ?_⟩
        intro a haa b hbb hab
        subst hab
        exact hnd2.2.2 a ((ha1 a).1 haa) a ((hb1 a).1 hbb) rfl
      · intro v; exact Iff.rfl
      · intro c hc
        simp only [List.mem_cons, List.not_mem_nil, or_false] at hc
        rcases hc with rfl | rfl
        · exact ha3
        · exact hb3

/-- **sum layer**: mixes nodes over the same region — smooth -/
theorem sum_step (dom : Nat → Nat) (regs : List (List Nat)) (m outNodes : Nat) (hm : 0 < m) (T : Table α)
    (w : Nat → Nat → List α) (hw : ∀ j o, (w j o).length = m) (h : TInv dom regs m T) :
    TInv dom regs outNodes (sumTable w outNodes T) := by
  obtain ⟨hg, hnodes, hall⟩ := h
  refine ⟨hg, rfl, ?_⟩
  intro j hj o
  obtain ⟨h01, h02, h03⟩ := hall j hj 0
  simp only [sumTable, scope_sum]
  refine ⟨h01, h02, ?_⟩
  rw [valid_sum_iff]
  refine ⟨?_, ?_, ?_, ?_⟩
  · rw [hnodes]
    intro hnil
    have := congrArg List.length hnil
    simp at this; omega
  · simp [hw, hnodes]
  · intro c hc v
    obtain ⟨t, _, rfl⟩ := List.mem_map.1 hc
    rw [(hall j hj t).1 v, h01 v]
  · intro c hc
    obtain ⟨t, _, rfl⟩ := List.mem_map.1 hc
    exact (hall j hj t).2.2

/-! ### the base layer -/

theorem range_map_zip {β : Type} (A : List Nat) (B : List Bool) (hlen : A.length = B.length) (F : Nat → Bool → β) :
    (List.range A.length).map (fun k => F (A.getD k 0) (B.getD k false)) = (A.zip B).map (fun p => F p.1 p.2) := by
  apply List.ext_getElem
  · simp [hlen]
  · intro i h1 h2
    simp only [List.length_map, List.length_range] at h1
    have hb : i < B.length := by omega
    simp [List.getD_eq_getElem?_getD, List.getElem?_eq_getElem h1, List.getElem?_eq_getElem hb]

theorem flatten_select (Z : List (Nat × Bool)) :
    (Z.map (fun p => if p.2 then ([] : List Nat) else [p.1])).flatten = (Z.filter (fun p => !p.2)).map (fun p => p.1) := by
  induction Z with
  | nil => rfl
  | cons p Z ih =>
    obtain ⟨a, b⟩ := p
    cases b <;> simp [ih]

/-- the scopes of the children of a base node (empty for dummies) concatenate to the region itself -/
theorem base_scopes_flatten (dim : Nat) (r : List Nat) (h : r.length ≤ dim) :
    ((List.range (maskRow dim r).length).map (fun k =>
      if (padMaskRow dim r).getD k false then ([] : List Nat) else [(maskRow dim r).getD k 0])).flatten = r := by
  have hlen : (maskRow dim r).length = (padMaskRow dim r).length := by
    rw [maskRow_length dim r h, padMaskRow_length]
  rw [range_map_zip (maskRow dim r) (padMaskRow dim r) hlen (fun a b => if b then ([] : List Nat) else [a]),
    flatten_select]
  have := select_nonpad dim [r] (by simpa using h)
  simpa using this

theorem padMaskRow_getD (dim : Nat) (r : List Nat) (h : r.length ≤ dim) (k : Nat) (hk : k < dim) :
    (padMaskRow dim r).getD k false = decide (r.length ≤ k) := by
  have e : dim - (dim - r.length) = r.length := by omega
  simp only [padMaskRow, e, List.getD_eq_getElem?_getD]
  by_cases hkr : k < r.length
  · rw [List.getElem?_append_left (by simpa using hkr)]
    simp [List.getElem?_replicate, hkr]
  · rw [List.getElem?_append_right (by simpa using hkr)]
    simp only [List.length_replicate, List.getElem?_replicate]
    have : k - r.length < dim - r.length := by omega
    simp [this]; omega

theorem maskRow_getD_lt (dim : Nat) (r : List Nat) (k : Nat) (hk : k < r.length) :
    (maskRow dim r).getD k 0 = r.getD k 0 := by
  simp only [maskRow, List.getD_eq_getElem?_getD]
  rw [List.getElem?_append_left hk]

/-- base node of a region `r` with leaves that are distributions over its variables -/
theorem baseNode_valid (dom : Nat → Nat) (lf : Nat → Nat → Nat → Ev → α) (dim : Nat) (r : List Nat)
    (h : r.length ≤ dim) (hnd : r.Nodup) (i c : Nat)
    (hleaf : ∀ k, k < r.length → LeafOK dom [r.getD k 0] (lf i c k)) :
    Circ.Valid dom (baseNode lf (maskRow dim r) (padMaskRow dim r) r i c) := by
  unfold baseNode
  rw [valid_prod_iff]
  have hsc : ((List.range (maskRow dim r).length).map (fun k =>
        if (padMaskRow dim r).getD k false = true then (dummy : Circ α)
        else Circ.leaf [(maskRow dim r).getD k 0] (lf i c k))).map Circ.scope
      = (List.range (maskRow dim r).length).map (fun k =>
          if (padMaskRow dim r).getD k false then ([] : List Nat) else [(maskRow dim r).getD k 0]) := by
    rw [List.map_map]
    apply List.map_congr_left
    intro k _
    simp only [Function.comp]
    split <;> simp [dummy]
  rw [hsc, base_scopes_flatten dim r h]
  refine ⟨hnd, fun v => Iff.rfl, ?_⟩
  intro ch hch
  obtain ⟨k, hk, rfl⟩ := List.mem_map.1 hch
  rw [List.mem_range, maskRow_length dim r h] at hk
  rw [padMaskRow_getD dim r h k hk]
  by_cases hkr : r.length ≤ k
  · simp only [hkr, decide_true, if_true, dummy]
    rw [valid_leaf_iff]; exact constOne_ok dom
  · simp only [hkr, decide_false, Bool.false_eq_true, if_false]
    rw [valid_leaf_iff, maskRow_getD_lt dim r k (by omega)]
    exact hleaf k (by omega)

theorem base_inv (dom : Nat → Nat) (ρ : Nat → List Nat → List Nat) (hρ : ∀ t r, (ρ t r).Perm r)
    (n d reps batch : Nat) (hd : 0 < d) (lf : Nat → Nat → Nat → Ev → α)
    (hleaf : ∀ i c k, k < ((leafRegions ρ n d reps).getD i []).length →
      LeafOK dom [((leafRegions ρ n d reps).getD i []).getD k 0] (lf i c k)) :
    TInv dom (leafRegions ρ n d reps) batch (baseTable lf n d (leafRegions ρ n d reps) batch) := by
  refine ⟨rfl, rfl, ?_⟩
  intro i hi c
  have hr : (leafRegions ρ n d reps).getD i [] ∈ leafRegions ρ n d reps := by
    rw [List.getD_eq_getElem?_getD, List.getElem?_eq_getElem hi]; exact List.getElem_mem hi
  obtain ⟨t, ht, hrt⟩ := (mem_leafRegions ρ hd).1 hr
  have hle := all_leaf_le_dim ρ hρ n d reps hd _ hr
  have hnd := level_region_nodup (ρ t) (hρ t) n d _ hrt
  simp only [baseTable]
  rw [maskBuf_eq ρ hρ n d reps hd, padMaskBuf_eq ρ hρ n d reps hd,
    getD_map_of_lt _ _ i hi [] [], getD_map_of_lt _ _ i hi [] []]
  refine ⟨?_, ?_, baseNode_valid dom lf _ _ hle hnd i c (hleaf i c)⟩
  · intro v; simp [baseNode]
  · simpa [baseNode] using hnd


/-! ### the inner layers and the root -/

theorem tagged_nodup (ρ : Nat → List Nat → List Nat) (hρ : ∀ t r, (ρ t r).Perm r) (n reps k : Nat) :
    ∀ q ∈ taggedLevel ρ n reps k, q.2.Nodup := by
  intro q hq
  obtain ⟨_, h⟩ := mem_taggedLevel ρ n reps k q hq
  exact level_region_nodup (ρ q.1) (hρ q.1) n k q.2 h

theorem inner_inv (dom : Nat → Nat) (ρ : Nat → List Nat → List Nat) (hρ : ∀ t r, (ρ t r).Perm r)
    (n reps rgSum : Nat) (hs : 0 < rgSum) (w : Nat → Nat → Nat → List α) :
    ∀ (k l m : Nat) (T : Table α), 0 < m →
      TInv dom ((taggedLevel ρ n reps (k + 1)).map Prod.snd) m T →
      (∀ j o, (w l j o).length = m * m) → (∀ l', l < l' → ∀ j o, (w l' j o).length = rgSum * rgSum) →
      TInv dom ((taggedLevel ρ n reps 0).map Prod.snd) (if k = 0 then m * m else rgSum * rgSum)
        (innerTables w rgSum (k + 1) l T)
  | 0, l, m, T, hm, hT, hw, hw' => by
      simp only [innerTables, if_true]
      exact prod_step dom ρ hρ _ (tagged_nodup ρ hρ n reps 0) m T hT
  | k + 1, l, m, T, hm, hT, hw, hw' => by
      simp only [innerTables]
      have h1 := prod_step dom ρ hρ _ (tagged_nodup ρ hρ n reps (k + 1)) m T hT
      have h2 := sum_step dom _ (m * m) rgSum (Nat.mul_pos hm hm) _ (w l) hw h1
      have h3 := inner_inv dom ρ hρ n reps rgSum hs w k (l + 1) rgSum _ hs h2
        (hw' (l + 1) (by omega)) (fun l' hl' => hw' l' (by omega))
      have e : (if k + 1 = 0 then m * m else rgSum * rgSum) = (if k = 0 then rgSum * rgSum else rgSum * rgSum) := by
        simp
      rw [e]; exact h3

theorem children_length (T : Table α) :
    ((List.range T.groups).flatMap (fun g => (List.range T.nodes).map (fun t => T.at_ g t))).length
      = T.groups * T.nodes :=
  flatMap_range_length _ _ (fun g => by simp) _

theorem root_valid (dom : Nat → Nat) (n reps m : Nat) (hreps : 0 < reps) (hm : 0 < m) (T : Table α)
    (regs : List (List Nat)) (hregs : regs.length = reps) (hroot : ∀ i, i < reps → regs.getD i [] = List.range n)
    (hT : TInv dom regs m T) (wroot : List α) (hw : wroot.length = reps * m) :
    Circ.Valid dom (rootNode wroot n T) := by
  obtain ⟨hg, hnodes, hall⟩ := hT
  unfold rootNode
  rw [valid_sum_iff]
  have hlen := children_length T
  refine ⟨?_, ?_, ?_, ?_⟩
  · intro hnil
    rw [hnil, hg, hnodes, hregs] at hlen
    have := Nat.mul_pos hreps hm
    simp at hlen; omega
  · rw [hlen, hw, hg, hnodes, hregs]
  · intro c hc v
    obtain ⟨g, hg', hc⟩ := List.mem_flatMap.1 hc
    obtain ⟨t, _, rfl⟩ := List.mem_map.1 hc
    rw [List.mem_range, hg] at hg'
    rw [(hall g hg' t).1 v, hroot g (by omega)]
  · intro c hc
    obtain ⟨g, hg', hc⟩ := List.mem_flatMap.1 hc
    obtain ⟨t, _, rfl⟩ := List.mem_map.1 hc
    rw [List.mem_range, hg] at hg'
    exact (hall g hg' t).2.2

theorem level0_regs (ρ : Nat → List Nat → List Nat) (n reps : Nat) :
    ((taggedLevel ρ n reps 0).map Prod.snd).length = reps ∧
    ∀ i, i < reps → ((taggedLevel ρ n reps 0).map Prod.snd).getD i [] = List.range n := by
  simp only [taggedLevel, List.map_map, List.length_map, List.length_range, true_and]
  intro i hi
  simp [List.getD_eq_getElem?_getD, hi]

/-- **unroll_valid** (lemma form) -/
theorem unroll_valid_aux (dom : Nat → Nat) (ρ : Nat → List Nat → List Nat) (hρ : ∀ t r, (ρ t r).Perm r)
    (n depth reps batch rgSum : Nat) (hd : 0 < depth) (hreps : 0 < reps) (hb : 0 < batch) (hs : 0 < rgSum)
    (lf : Nat → Nat → Nat → Ev → α)
    (hleaf : ∀ i c k, k < ((leafRegions ρ n depth reps).getD i []).length →
      LeafOK dom [((leafRegions ρ n depth reps).getD i []).getD k 0] (lf i c k))
    (w : Nat → Nat → Nat → List α)
    (hw : ∀ l j o, (w l j o).length = if l = 0 then batch * batch else rgSum * rgSum)
    (wroot : List α)
    (hroot : wroot.length = reps * (if depth = 1 then batch * batch else rgSum * rgSum)) :
    Circ.Valid dom (unroll ρ n depth reps batch rgSum lf w wroot) := by
  obtain ⟨k, rfl⟩ : ∃ k, depth = k + 1 := ⟨depth - 1, by omega⟩
  unfold unroll
  have hbase := base_inv dom ρ hρ n (k + 1) reps batch hd lf hleaf
  have hregs : leafRegions ρ n (k + 1) reps = (taggedLevel ρ n reps (k + 1)).map Prod.snd := by
    rw [taggedLevel_untag, leafRegions_eq ρ n (k + 1) reps hd]
  rw [hregs] at hbase
  have hin := inner_inv dom ρ hρ n reps rgSum hs w k 0 batch _ hb hbase
    (fun j o => by simpa using hw 0 j o)
    (fun l' hl' j o => by have := hw l' j o; rwa [if_neg (by omega)] at this)
  obtain ⟨h0a, h0b⟩ := level0_regs ρ n reps
  have hm : 0 < (if k = 0 then batch * batch else rgSum * rgSum) := by
    split
    · exact Nat.mul_pos hb hb
    · exact Nat.mul_pos hs hs
  rw [← hregs] at hin
  refine root_valid dom n reps _ hreps hm _ _ h0a h0b hin wroot ?_
  rw [hroot]
  congr 1
  by_cases hk : k = 0 <;> simp [hk]

/-! ### normalised weights and leaves -/

theorem baseNode_normW (lf : Nat → Nat → Nat → Ev → α) (mrow : List Nat) (prow : List Bool) (r : List Nat) (i c : Nat) :
    Circ.NormW (baseNode lf mrow prow r i c) := by
  unfold baseNode
  rw [normW_prod_iff]
  intro ch hch
  obtain ⟨k, _, rfl⟩ := List.mem_map.1 hch
  split <;> exact normW_leaf _ _

theorem baseNode_leafNorm (dom : Nat → Nat) (lf : Nat → Nat → Nat → Ev → α) (mrow : List Nat) (prow : List Bool)
    (r : List Nat) (i c : Nat) (h : ∀ k, lf i c k (fun _ => none) = 1) :
    Circ.LeafNorm dom (baseNode lf mrow prow r i c) := by
  unfold baseNode
  rw [leafNorm_prod_iff]
  intro ch hch
  obtain ⟨k, _, rfl⟩ := List.mem_map.1 hch
  split
  · unfold dummy; rw [leafNorm_leaf_iff]
  · rw [leafNorm_leaf_iff]; exact h k

theorem inner_normW (w : Nat → Nat → Nat → List α) (rgSum : Nat) (hw1 : ∀ l j o, tsum (w l j o) = 1) :
    ∀ (k l : Nat) (T : Table α), (∀ i t, Circ.NormW (T.at_ i t)) →
      ∀ i t, Circ.NormW ((innerTables w rgSum k l T).at_ i t)
  | 0, _, T, h => by simpa [innerTables] using h
  | 1, _, T, h => by
      intro i t
      simp only [innerTables, prodTable]
      rw [normW_prod_iff]
      intro c hc
      simp only [List.mem_cons, List.not_mem_nil, or_false] at hc
      rcases hc with rfl | rfl <;> exact h _ _
  | k + 2, l, T, h => by
      simp only [innerTables]
      apply inner_normW w rgSum hw1 (k + 1) (l + 1)
      intro i t
      simp only [sumTable]
      rw [normW_sum_iff]
      refine ⟨hw1 l i t, ?_⟩
      intro c hc
      obtain ⟨t', _, rfl⟩ := List.mem_map.1 hc
      simp only [prodTable]
      rw [normW_prod_iff]
      intro c hc
      simp only [List.mem_cons, List.not_mem_nil, or_false] at hc
      rcases hc with rfl | rfl <;> exact h _ _

theorem inner_leafNorm (dom : Nat → Nat) (w : Nat → Nat → Nat → List α) (rgSum : Nat) :
    ∀ (k l : Nat) (T : Table α), (∀ i t, Circ.LeafNorm dom (T.at_ i t)) →
      ∀ i t, Circ.LeafNorm dom ((innerTables w rgSum k l T).at_ i t)
  | 0, _, T, h => by simpa [innerTables] using h
  | 1, _, T, h => by
      intro i t
      simp only [innerTables, prodTable]
      rw [leafNorm_prod_iff]
      intro c hc
      simp only [List.mem_cons, List.not_mem_nil, or_false] at hc
      rcases hc with rfl | rfl <;> exact h _ _
  | k + 2, l, T, h => by
      simp only [innerTables]
      apply inner_leafNorm dom w rgSum (k + 1) (l + 1)
      intro i t
      simp only [sumTable]
      rw [leafNorm_sum_iff]
      intro c hc
      obtain ⟨t', _, rfl⟩ := List.mem_map.1 hc
      simp only [prodTable]
      rw [leafNorm_prod_iff]
      intro c hc
      simp only [List.mem_cons, List.not_mem_nil, or_false] at hc
      rcases hc with rfl | rfl <;> exact h _ _

theorem unroll_normW (ρ : Nat → List Nat → List Nat) (n depth reps batch rgSum : Nat)
    (lf : Nat → Nat → Nat → Ev → α) (w : Nat → Nat → Nat → List α) (wroot : List α)
    (hw1 : ∀ l j o, tsum (w l j o) = 1) (hroot1 : tsum wroot = 1) :
    Circ.NormW (unroll ρ n depth reps batch rgSum lf w wroot) := by
  unfold unroll rootNode
  rw [normW_sum_iff]
  refine ⟨hroot1, ?_⟩
  intro c hc
  obtain ⟨g, _, hc⟩ := List.mem_flatMap.1 hc
  obtain ⟨t, _, rfl⟩ := List.mem_map.1 hc
  apply inner_normW w rgSum hw1
  intro i t
  exact baseNode_normW _ _ _ _ _ _

theorem unroll_leafNorm (dom : Nat → Nat) (ρ : Nat → List Nat → List Nat) (n depth reps batch rgSum : Nat)
    (lf : Nat → Nat → Nat → Ev → α) (w : Nat → Nat → Nat → List α) (wroot : List α)
    (hl1 : ∀ i c k, lf i c k (fun _ => none) = 1) :
    Circ.LeafNorm dom (unroll ρ n depth reps batch rgSum lf w wroot) := by
  unfold unroll rootNode
  rw [leafNorm_sum_iff]
  intro c hc
  obtain ⟨g, _, hc⟩ := List.mem_flatMap.1 hc
  obtain ⟨t, _, rfl⟩ := List.mem_map.1 hc
  apply inner_leafNorm dom w rgSum
  intro i t
  exact baseNode_leafNorm dom _ _ _ _ _ _ (hl1 i t)

/-! ### padding dummies are constant-one factors -/

theorem lprod_append (xs ys : List α) : lprod (xs ++ ys) = lprod xs * lprod ys := by
  induction xs with
  | nil => simp [lprod]
  | cons x xs ih => simp [lprod, ih, mul_assoc]

/-- the value of a base node does not depend on the dummies: it is the product of the leaf values over
the real positions of the region only -/
theorem baseNode_eval (lf : Nat → Nat → Nat → Ev → α) (dim : Nat) (r : List Nat) (h : r.length ≤ dim)
    (i c : Nat) (e : Ev) :
    Circ.eval e (baseNode lf (maskRow dim r) (padMaskRow dim r) r i c)
      = lprod ((List.range r.length).map (fun k => lf i c k e)) := by
  unfold baseNode
  simp only [Circ.eval, List.map_map]
  rw [maskRow_length dim r h]
  have hsplit : List.range dim = List.range r.length ++ List.range' r.length (dim - r.length) := by
    have : dim = r.length + (dim - r.length) := by omega
    conv => lhs; rw [this]
    rw [List.range_add]
    congr 1
    rw [List.range_eq_range', List.map_add_range']
    simp
  rw [hsplit, List.map_append, lprod_append]
  have h1 : (List.range r.length).map (Circ.eval e ∘ fun k =>
      if (padMaskRow dim r).getD k false = true then (dummy : Circ α)
      else Circ.leaf [(maskRow dim r).getD k 0] (lf i c k)) = (List.range r.length).map (fun k => lf i c k e) := by
    apply List.map_congr_left
    intro k hk
    rw [List.mem_range] at hk
    simp only [Function.comp]
    rw [padMaskRow_getD dim r h k (by omega)]
    simp [Nat.not_le.2 hk, Circ.eval]
  have h2 : lprod ((List.range' r.length (dim - r.length)).map (Circ.eval e ∘ fun k =>
      if (padMaskRow dim r).getD k false = true then (dummy : Circ α)
      else Circ.leaf [(maskRow dim r).getD k 0] (lf i c k))) = 1 := by
    apply Circ.lprod_ones
    intro x hx
    obtain ⟨k, hk, rfl⟩ := List.mem_map.1 hx
    rw [List.mem_range'_1] at hk
    simp only [Function.comp]
    rw [padMaskRow_getD dim r h k (by omega)]
    simp [hk.1, dummy, Circ.eval]
  rw [h1, h2, mul_one]

end tables
end RatSpn


namespace DgcSpn

/-! ### pixels -/

theorem pix_eq (D ch x y : Nat) : pix D ch x y = D * (D * ch + x) + y := by
  unfold pix
  rw [Nat.mul_add, Nat.mul_comm D (D * ch), Nat.mul_comm D ch, Nat.mul_comm D x]

theorem pix_inj (D : Nat) {ch x y ch' x' y' : Nat} (hx : x < D) (hy : y < D) (hx' : x' < D) (hy' : y' < D)
    (h : pix D ch x y = pix D ch' x' y') : ch = ch' ∧ x = x' ∧ y = y' := by
  rw [pix_eq, pix_eq] at h
  have hD : 0 < D := by omega
  have h1 := congrArg (· % D) h
  have h2 := congrArg (· / D) h
  simp only [Nat.mul_add_mod, Nat.mod_eq_of_lt hy, Nat.mod_eq_of_lt hy'] at h1
  simp only [Nat.mul_add_div hD, Nat.div_eq_of_lt hy, Nat.div_eq_of_lt hy', Nat.add_zero] at h2
  have h3 := congrArg (· % D) h2
  have h4 := congrArg (· / D) h2
  simp only [Nat.mul_add_mod, Nat.mod_eq_of_lt hx, Nat.mod_eq_of_lt hx'] at h3
  simp only [Nat.mul_add_div hD, Nat.div_eq_of_lt hx, Nat.div_eq_of_lt hx', Nat.add_zero] at h4
  exact ⟨h4, h3, h1⟩

theorem mem_pixels {C D : Nat} {R S : List Nat} {v : Nat} :
    v ∈ pixels C D R S ↔ ∃ ch, ch < C ∧ ∃ x, x ∈ R ∧ ∃ y, y ∈ S ∧ v = pix D ch x y := by
  simp only [pixels, List.mem_flatMap, List.mem_map, List.mem_range]
  constructor
  · rintro ⟨ch, hch, x, hx, y, hy, rfl⟩; exact ⟨ch, hch, x, hx, y, hy, rfl⟩
  · rintro ⟨ch, hch, x, hx, y, hy, rfl⟩; exact ⟨ch, hch, x, hx, y, hy, rfl⟩

theorem not_mem_pixels_nil_left {C D : Nat} {S : List Nat} {v : Nat} : v ∉ pixels C D [] S := by
  rw [mem_pixels]; rintro ⟨_, _, x, hx, _⟩; simp at hx

theorem not_mem_pixels_nil_right {C D : Nat} {R : List Nat} {v : Nat} : v ∉ pixels C D R [] := by
  rw [mem_pixels]; rintro ⟨_, _, x, _, y, hy, _⟩; simp at hy

theorem mem_pixels_append {C D : Nat} {R1 R2 S1 S2 : List Nat} {v : Nat} :
    v ∈ pixels C D (R1 ++ R2) (S1 ++ S2) ↔
      v ∈ pixels C D R1 S1 ∨ v ∈ pixels C D R1 S2 ∨ v ∈ pixels C D R2 S1 ∨ v ∈ pixels C D R2 S2 := by
  simp only [mem_pixels, List.mem_append]
  constructor
  · rintro ⟨ch, hch, x, hx, y, hy, rfl⟩
    rcases hx with hx | hx <;> rcases hy with hy | hy
    · exact Or.inl ⟨ch, hch, x, hx, y, hy, rfl⟩
    · exact Or.inr (Or.inl ⟨ch, hch, x, hx, y, hy, rfl⟩)
    · exact Or.inr (Or.inr (Or.inl ⟨ch, hch, x, hx, y, hy, rfl⟩))
    · exact Or.inr (Or.inr (Or.inr ⟨ch, hch, x, hx, y, hy, rfl⟩))
  · rintro (⟨ch, hch, x, hx, y, hy, rfl⟩ | ⟨ch, hch, x, hx, y, hy, rfl⟩ | ⟨ch, hch, x, hx, y, hy, rfl⟩ |
      ⟨ch, hch, x, hx, y, hy, rfl⟩)
    · exact ⟨ch, hch, x, Or.inl hx, y, Or.inl hy, rfl⟩
    · exact ⟨ch, hch, x, Or.inl hx, y, Or.inr hy, rfl⟩
    · exact ⟨ch, hch, x, Or.inr hx, y, Or.inl hy, rfl⟩
    · exact ⟨ch, hch, x, Or.inr hx, y, Or.inr hy, rfl⟩

/-- 2-D decomposability: two rectangles `R1 × S1`, `R2 × S2` of in-range coordinates are disjoint as
pixel sets as soon as their row sets or their column sets are disjoint -/
theorem pixels_disjoint {C D : Nat} {R1 R2 S1 S2 : List Nat}
    (hR1 : ∀ x ∈ R1, x < D) (hR2 : ∀ x ∈ R2, x < D) (hS1 : ∀ y ∈ S1, y < D) (hS2 : ∀ y ∈ S2, y < D)
    (hdis : (∀ x, x ∈ R1 → x ∉ R2) ∨ (∀ y, y ∈ S1 → y ∉ S2)) {v : Nat}
    (h1 : v ∈ pixels C D R1 S1) : v ∉ pixels C D R2 S2 := by
  intro h2
  obtain ⟨ch, _, x, hx, y, hy, rfl⟩ := mem_pixels.1 h1
  obtain ⟨ch', _, x', hx', y', hy', he⟩ := mem_pixels.1 h2
  obtain ⟨_, rfl, rfl⟩ := pix_inj D (hR1 x hx) (hS1 y hy) (hR2 x' hx') (hS2 y' hy') he
  rcases hdis with hd | hd
  · exact hd x hx hx'
  · exact hd y hy hy'

theorem nodup_append4 {A B C' D' : List Nat} (hA : A.Nodup) (hB : B.Nodup) (hC : C'.Nodup) (hD : D'.Nodup)
    (hAB : ∀ v, v ∈ A → v ∉ B) (hAC : ∀ v, v ∈ A → v ∉ C') (hAD : ∀ v, v ∈ A → v ∉ D')
    (hBC : ∀ v, v ∈ B → v ∉ C') (hBD : ∀ v, v ∈ B → v ∉ D') (hCD : ∀ v, v ∈ C' → v ∉ D') :
    (A ++ (B ++ (C' ++ D'))).Nodup := by
  rw [List.nodup_append, List.nodup_append, List.nodup_append]
  refine ⟨hA, ⟨hB, ⟨hC, hD, ?_⟩, ?_⟩, ?_⟩
  · intro a ha b hb hab; subst hab; exact hCD a ha hb
  · intro a ha b hb hab; subst hab
    rcases List.mem_append.1 hb with hb | hb
    · exact hBC a ha hb
    · exact hBD a ha hb
  · intro a ha b hb hab; subst hab
    rcases List.mem_append.1 hb with hb | hb
    · exact hAB a ha hb
    · rcases List.mem_append.1 hb with hb | hb
      · exact hAC a ha hb
      · exact hAD a ha hb

section grids
variable {α : Type} [CommSemiring α]

/-- a grid is aligned with a list of 1-D scopes: cell `(ch, r, c)` is a valid circuit whose scope is
(as a duplicate-free list) the pixel rectangle `S[r] × S[c]` over all input channels -/
def GInv (dom : Nat → Nat) (C D : Nat) (S : List (List Nat)) (G : Grid α) : Prop :=
  G.size = S.length ∧ 0 < G.ch ∧
  ∀ ch r c, r < G.size → c < G.size →
    (∀ v, v ∈ (G.at_ ch r c).scope ↔ v ∈ pixels C D (S.getD r []) (S.getD c [])) ∧
    (G.at_ ch r c).scope.Nodup ∧ Circ.Valid dom (G.at_ ch r c)

theorem getD_nil_of_le (S : List (List Nat)) (i : Nat) (h : S.length ≤ i) : S.getD i [] = [] := by
  rw [List.getD_eq_getElem?_getD, List.getElem?_eq_none h]; rfl

/-- reads of the padded input: real cells keep their rectangle, padding cells are constant one -/
theorem padAt_inv (dom : Nat → Nat) (C D : Nat) (S : List (List Nat)) (G : Grid α) (hG : GInv dom C D S G)
    (pl : Nat) (pr : Int) (hpr : 0 ≤ pr) (ch i j : Nat) :
    (∀ v, v ∈ (padAt G pl ch i j).scope ↔
        v ∈ pixels C D ((padded pl pr S).getD i []) ((padded pl pr S).getD j [])) ∧
    (padAt G pl ch i j).scope.Nodup ∧ Circ.Valid dom (padAt G pl ch i j) := by
  obtain ⟨hsz, _, hall⟩ := hG
  rw [padded_getD pl pr hpr, padded_getD pl pr hpr]
  unfold padAt
  split
  · rename_i hc
    obtain ⟨h1, h2, h3, h4⟩ := hc
    rw [if_pos h1, if_pos h3]
    exact hall ch (i - pl) (j - pl) h2 h4
  · rename_i hc
    refine ⟨?_, by simp [one], by unfold one; rw [valid_leaf_iff]; exact constOne_ok dom⟩
    intro v
    simp only [one, scope_leaf, List.not_mem_nil, false_iff]
    by_cases h1 : pl ≤ i
    · by_cases h2 : i - pl < G.size
      · by_cases h3 : pl ≤ j
        · have h4 : ¬ j - pl < G.size := fun h4 => hc ⟨h1, h2, h3, h4⟩
          rw [if_pos h3, getD_nil_of_le S (j - pl) (by omega)]
          exact not_mem_pixels_nil_right
        · rw [if_neg h3]; exact not_mem_pixels_nil_right
      · rw [if_pos h1, getD_nil_of_le S (i - pl) (by omega)]
        exact not_mem_pixels_nil_left
    · rw [if_neg h1]; exact not_mem_pixels_nil_left

/-- **product layer** on grids: the four kernel taps of an output cell have pairwise disjoint pixel
rectangles (because the two 1-D taps are disjoint), so the product is decomposable and covers the
rectangle of the union -/
theorem prodGrid_inv (dom : Nat → Nat) (C D : Nat) (S : List (List Nat)) (G : Grid α) (hG : GInv dom C D S G)
    (cfg : ProdCfg) (hpr : 0 ≤ (pads cfg S.length).2)
    (hlt : ∀ j x, (x ∈ tap0 cfg S j ∨ x ∈ tap1 cfg S j) → x < D)
    (hdis : ∀ j x, x ∈ tap0 cfg S j → x ∉ tap1 cfg S j) :
    GInv dom C D (prodScopes cfg S) (prodGrid cfg G) := by
  have hsz := hG.1
  refine ⟨?_, ?_, ?_⟩
  · simp only [prodGrid, prodScopes_length, hsz]
  · simp only [prodGrid, outChannels]
    split
    · exact hG.2.1
    · exact Nat.pow_pos hG.2.1
  · intro o r c hr hc
    simp only [prodGrid] at hr hc
    rw [hsz] at hr hc
    simp only [prodGrid, scope_prod]
    rw [hsz]
    set pl := (pads cfg S.length).1 with hpl
    set pr := (pads cfg S.length).2 with hprd
    have k00 := padAt_inv dom C D S G hG pl pr hpr (tapChannel cfg G.ch o 0) (r * cfg.stride) (c * cfg.stride)
    have k01 := padAt_inv dom C D S G hG pl pr hpr (tapChannel cfg G.ch o 1) (r * cfg.stride)
      (c * cfg.stride + cfg.dilation)
    have k10 := padAt_inv dom C D S G hG pl pr hpr (tapChannel cfg G.ch o 2) (r * cfg.stride + cfg.dilation)
      (c * cfg.stride)
    have k11 := padAt_inv dom C D S G hG pl pr hpr (tapChannel cfg G.ch o 3) (r * cfg.stride + cfg.dilation)
      (c * cfg.stride + cfg.dilation)
    have e0 : ∀ j, (padded pl pr S).getD (j * cfg.stride) [] = tap0 cfg S j := fun j => rfl
    have e1 : ∀ j, (padded pl pr S).getD (j * cfg.stride + cfg.dilation) [] = tap1 cfg S j := fun j => rfl
    rw [e0, e0] at k00
    rw [e0, e1] at k01
    rw [e1, e0] at k10
    rw [e1, e1] at k11
    have l0 : ∀ j x, x ∈ tap0 cfg S j → x < D := fun j x h => hlt j x (Or.inl h)
    have l1 : ∀ j x, x ∈ tap1 cfg S j → x < D := fun j x h => hlt j x (Or.inr h)
    have hdis' : ∀ j x, x ∈ tap1 cfg S j → x ∉ tap0 cfg S j := fun j x h1 h0 => hdis j x h0 h1
    -- pairwise disjointness of the four rectangles
    have d01 : ∀ v, v ∈ (padAt G pl (tapChannel cfg G.ch o 0) (r * cfg.stride) (c * cfg.stride)).scope →
        v ∉ (padAt G pl (tapChannel cfg G.ch o 1) (r * cfg.stride) (c * cfg.stride + cfg.dilation)).scope := by
      intro v h; rw [k00.1] at h; rw [k01.1]
      exact pixels_disjoint (l0 r) (l0 r) (l0 c) (l1 c) (Or.inr (hdis c)) h
    have d02 : ∀ v, v ∈ (padAt G pl (tapChannel cfg G.ch o 0) (r * cfg.stride) (c * cfg.stride)).scope →
        v ∉ (padAt G pl (tapChannel cfg G.ch o 2) (r * cfg.stride + cfg.dilation) (c * cfg.stride)).scope := by
      intro v h; rw [k00.1] at h; rw [k10.1]
      exact pixels_disjoint (l0 r) (l1 r) (l0 c) (l0 c) (Or.inl (hdis r)) h
    have d03 : ∀ v, v ∈ (padAt G pl (tapChannel cfg G.ch o 0) (r * cfg.stride) (c * cfg.stride)).scope →
        v ∉ (padAt G pl (tapChannel cfg G.ch o 3) (r * cfg.stride + cfg.dilation)
          (c * cfg.stride + cfg.dilation)).scope := by
      intro v h; rw [k00.1] at h; rw [k11.1]
      exact pixels_disjoint (l0 r) (l1 r) (l0 c) (l1 c) (Or.inl (hdis r)) h
    have d12 : ∀ v, v ∈ (padAt G pl (tapChannel cfg G.ch o 1) (r * cfg.stride) (c * cfg.stride + cfg.dilation)).scope →
        v ∉ (padAt G pl (tapChannel cfg G.ch o 2) (r * cfg.stride + cfg.dilation) (c * cfg.stride)).scope := by
      intro v h; rw [k01.1] at h; rw [k10.1]
      exact pixels_disjoint (l0 r) (l1 r) (l1 c) (l0 c) (Or.inl (hdis r)) h
    have d13 : ∀ v, v ∈ (padAt G pl (tapChannel cfg G.ch o 1) (r * cfg.stride) (c * cfg.stride + cfg.dilation)).scope →
        v ∉ (padAt G pl (tapChannel cfg G.ch o 3) (r * cfg.stride + cfg.dilation)
          (c * cfg.stride + cfg.dilation)).scope := by
      intro v h; rw [k01.1] at h; rw [k11.1]
      exact pixels_disjoint (l0 r) (l1 r) (l1 c) (l1 c) (Or.inl (hdis r)) h
    have d23 : ∀ v, v ∈ (padAt G pl (tapChannel cfg G.ch o 2) (r * cfg.stride + cfg.dilation) (c * cfg.stride)).scope →
        v ∉ (padAt G pl (tapChannel cfg G.ch o 3) (r * cfg.stride + cfg.dilation)
          (c * cfg.stride + cfg.dilation)).scope := by
      intro v h; rw [k10.1] at h; rw [k11.1]
      exact pixels_disjoint (l1 r) (l1 r) (l0 c) (l1 c) (Or.inr (hdis c)) h
    have hnd := nodup_append4 k00.2.1 k01.2.1 k10.2.1 k11.2.1 d01 d02 d03 d12 d13 d23
    refine ⟨?_, hnd, ?_⟩
    · intro v
      rw [prodScopes_getD, if_pos hr, prodScopes_getD, if_pos hc, mem_pixels_append]
      simp only [List.mem_append]
      rw [k00.1, k01.1, k10.1, k11.1]
    · rw [valid_prod_iff]
      simp only [List.map_cons, List.map_nil, List.flatten_cons, List.flatten_nil, List.append_nil]
      refine ⟨hnd, fun v => Iff.rfl, ?_⟩
      intro k hk
      simp only [List.mem_cons, List.not_mem_nil, or_false] at hk
      rcases hk with rfl | rfl | rfl | rfl
      · exact k00.2.2
      · exact k01.2.2
      · exact k10.2.2
      · exact k11.2.2

/-- **sum layer** on grids: per-cell mixture over the channels — all children have the cell's rectangle -/
theorem sumGrid_inv (dom : Nat → Nat) (C D : Nat) (S : List (List Nat)) (G : Grid α) (hG : GInv dom C D S G)
    (w : Nat → Nat → Nat → List α) (hw : ∀ o r c, (w o r c).length = G.ch) (outCh : Nat) (ho : 0 < outCh) :
    GInv dom C D S (sumGrid w outCh G) := by
  obtain ⟨hsz, hch, hall⟩ := hG
  refine ⟨hsz, ho, ?_⟩
  intro o r c hr hc
  simp only [sumGrid] at hr hc
  obtain ⟨h1, h2, h3⟩ := hall 0 r c hr hc
  simp only [sumGrid, scope_sum]
  refine ⟨h1, h2, ?_⟩
  rw [valid_sum_iff]
  refine ⟨?_, ?_, ?_, ?_⟩
  · intro hnil
    have := congrArg List.length hnil
    simp at this; omega
  · simp [hw]
  · intro k hk v
    obtain ⟨ch, _, rfl⟩ := List.mem_map.1 hk
    rw [(hall ch r c hr hc).1 v, h1 v]
  · intro k hk
    obtain ⟨ch, _, rfl⟩ := List.mem_map.1 hk
    exact (hall ch r c hr hc).2.2

/-- base layer: cell `(b, r, c)` is the product over the input channels of the leaves of pixel `(r, c)` -/
theorem baseGrid_inv (dom : Nat → Nat) (C D batch : Nat) (hb : 0 < batch)
    (lf : Nat → Nat → Nat → Nat → Ev → α)
    (hleaf : ∀ b ch r c, r < D → c < D → LeafOK dom [pix D ch r c] (lf b ch r c)) :
    GInv dom C D (baseScopes D) (baseGrid lf C D batch) := by
  have hflat : ∀ r c, ((List.range C).map (fun ch => [pix D ch r c])).flatten = pixels C D [r] [c] := by
    intro r c
    simp [pixels, List.flatMap_def]
  have hnd : ∀ r c, r < D → c < D → (pixels C D [r] [c]).Nodup := by
    intro r c hr hc
    rw [← hflat]
    have : ((List.range C).map (fun ch => [pix D ch r c])).flatten = (List.range C).map (fun ch => pix D ch r c) := by
      induction (List.range C) with
      | nil => rfl
      | cons a l ih => simp [ih]
    rw [this]
    apply List.Nodup.map_on _ List.nodup_range
    intro a _ b _ hab
    exact (pix_inj D hr hc hr hc hab).1
  refine ⟨by simp [baseGrid, baseScopes], hb, ?_⟩
  intro b r c hr hc
  simp only [baseGrid] at hr hc
  simp only [baseGrid, scope_prod]
  rw [baseScopes_getD, if_pos hr, baseScopes_getD, if_pos hc]
  refine ⟨fun v => Iff.rfl, hnd r c hr hc, ?_⟩
  rw [valid_prod_iff]
  have hsc : ((List.range C).map (fun ch => Circ.leaf [pix D ch r c] (lf b ch r c))).map Circ.scope
      = (List.range C).map (fun ch => [pix D ch r c]) := by
    rw [List.map_map]; rfl
  rw [hsc, hflat]
  refine ⟨hnd r c hr hc, fun v => Iff.rfl, ?_⟩
  intro k hk
  obtain ⟨ch, _, rfl⟩ := List.mem_map.1 hk
  rw [valid_leaf_iff]
  exact hleaf b ch r c hr hc


end grids

/-! ### every layer of the schedule satisfies the side conditions of `prodGrid_inv` -/

theorem lt_of_div_lt_div {x D m : Nat} (h : x / m < D / m) : x < D := by
  by_contra hc
  have := Nat.div_le_div_right (c := m) (Nat.le_of_not_lt hc)
  omega

theorem div_lt_div_iff_of_dvd {x D m : Nat} (hm : 0 < m) (hd : m ∣ D) : x / m < D / m ↔ x < D := by
  obtain ⟨q, rfl⟩ := hd
  rw [Nat.mul_div_cancel_left _ hm, Nat.div_lt_iff_lt_mul hm, Nat.mul_comm]

/-- every pixel coordinate occurring in a scope is in range -/
theorem stage_lt (D p : Nat) (dw : Nat → Bool) (hp : p ≤ clog2 D) (i : Nat) (hi : i ≤ clog2 D) :
    ∀ j x, x ∈ (stage D p dw i).getD j [] → x < D := by
  intro j x hx
  by_cases hip : i ≤ p
  · rw [(stage_pool D p dw i hip).2.1] at hx
    obtain ⟨h1, h2⟩ := hx
    rw [← h2] at h1
    exact lt_of_div_lt_div h1
  · have e : i = p + (i - p) := by omega
    rw [e, (stage_full D p dw hp (i - p) (by omega)).2.1] at hx
    exact lt_of_div_lt_div hx.1

theorem layer_ok (D p : Nat) (dw : Nat → Bool) (hp : p ≤ clog2 D) (i : Nat) (hi : i ≤ clog2 D) :
    0 ≤ (pads (cfgAt D p dw i) (stage D p dw i).length).2 ∧
    (∀ j x, (x ∈ tap0 (cfgAt D p dw i) (stage D p dw i) j ∨ x ∈ tap1 (cfgAt D p dw i) (stage D p dw i) j) → x < D) ∧
    (∀ j x, x ∈ tap0 (cfgAt D p dw i) (stage D p dw i) j → x ∉ tap1 (cfgAt D p dw i) (stage D p dw i) j) := by
  have hlt := stage_lt D p dw hp i hi
  by_cases hip : i < p
  · -- pooling layer
    rw [cfgAt_pool D p dw i hip]
    obtain ⟨_, hm, _⟩ := stage_pool D p dw i (by omega)
    refine ⟨by simp [pads, poolCfg], ?_, ?_⟩
    · intro j x hx
      rw [pool_tap0, pool_tap1] at hx
      rcases hx with hx | hx <;> exact hlt _ x hx
    · intro j x h0 h1
      rw [pool_tap0, hm] at h0
      rw [pool_tap1, hm] at h1
      omega
  · have e : i = p + (i - p) := by omega
    obtain ⟨hl, hm, _⟩ := stage_full D p dw hp (i - p) (by omega)
    rw [← e] at hl hm
    have hδ := RatSpn.two_pow_pos (i - p)
    by_cases hid : i = clog2 D
    · -- final layer
      subst hid
      rw [cfgAt_final D p dw hp]
      have hmle : D / 2 ^ p ≤ 2 ^ (clog2 D - p) := by
        apply Nat.div_le_of_le_mul
        rw [← Nat.pow_add, ← e]
        exact (clog2_spec D).1
      have hlen2 : (stage D p dw (clog2 D)).length ≤ 2 * 2 ^ (clog2 D - p) := by rw [hl]; omega
      refine ⟨?_, ?_, ?_⟩
      · simp only [pads, finalCfg, keff]; omega
      · intro j x hx
        rw [final_tap0 _ _ _ hlen2, final_tap1 _ _ _ hlen2] at hx
        rcases hx with hx | hx <;> exact hlt _ x hx
      · intro j x h0 h1
        rw [final_tap0 _ _ _ hlen2, hm] at h0
        rw [final_tap1 _ _ _ hlen2, hm] at h1
        generalize x / 2 ^ p = c at h0 h1
        omega
    · -- full (dilated) layer
      rw [cfgAt_full D p dw i (by omega) hid]
      refine ⟨?_, ?_, ?_⟩
      · simp only [pads, fullCfg, keff]; omega
      · intro j x hx
        rw [full_tap0, full_tap1] at hx
        rcases hx with hx | hx
        · split at hx
          · exact hlt _ x hx
          · simp at hx
        · exact hlt _ x hx
      · intro j x h0 h1
        rw [full_tap0] at h0
        rw [full_tap1, hm] at h1
        split at h0
        · rw [hm] at h0
          generalize x / 2 ^ p = c at h0 h1
          omega
        · simp at h0

section grids2
variable {α : Type} [CommSemiring α]

theorem inner_ginv (dom : Nat → Nat) (C D p : Nat) (dw : Nat → Bool) (batch sumCh : Nat) (hs : 0 < sumCh)
    (hp : p ≤ clog2 D) (w : Nat → Nat → Nat → Nat → List α)
    (hw : ∀ i o r c, (w i o r c).length = outChannels (cfgAt D p dw i) (if i = 0 then batch else sumCh)) :
    ∀ (len i : Nat) (G : Grid α), i + len ≤ clog2 D + 1 → GInv dom C D (stage D p dw i) G →
      G.ch = (if i = 0 then batch else sumCh) →
      GInv dom C D (stage D p dw (i + len))
        (innerGrids w sumCh ((List.range' i len).map (cfgAt D p dw)) i G) ∧
      (0 < len → (innerGrids w sumCh ((List.range' i len).map (cfgAt D p dw)) i G).ch =
        outChannels (cfgAt D p dw (i + len - 1)) (if i + len - 1 = 0 then batch else sumCh))
  | 0, i, G, _, hG, _ => by
      simp only [List.range'_zero, List.map_nil, innerGrids, Nat.add_zero]
      exact ⟨hG, fun h => by omega⟩
  | 1, i, G, hi, hG, hch => by
      obtain ⟨h1, h2, h3⟩ := layer_ok D p dw hp i (by omega)
      have e : (List.range' i 1).map (cfgAt D p dw) = [cfgAt D p dw i] := by simp [List.range'_succ]
      rw [e]
      simp only [innerGrids]
      refine ⟨prodGrid_inv dom C D _ G hG _ h1 h2 h3, ?_⟩
      intro _
      simp only [prodGrid, Nat.add_sub_cancel, hch]
  | len + 2, i, G, hi, hG, hch => by
      obtain ⟨h1, h2, h3⟩ := layer_ok D p dw hp i (by omega)
      have e : (List.range' i (len + 2)).map (cfgAt D p dw)
          = cfgAt D p dw i :: cfgAt D p dw (i + 1) :: (List.range' (i + 2) len).map (cfgAt D p dw) := by
        simp [List.range'_succ]
      have e' : (List.range' (i + 1) (len + 1)).map (cfgAt D p dw)
          = cfgAt D p dw (i + 1) :: (List.range' (i + 2) len).map (cfgAt D p dw) := by
        simp [List.range'_succ]
      rw [e]
      simp only [innerGrids]
      rw [← e']
      have hP := prodGrid_inv dom C D _ G hG _ h1 h2 h3
      have hS := sumGrid_inv dom C D _ _ hP (w i) (by
        intro o r c; rw [hw]; simp only [prodGrid, hch]) sumCh hs
      have ih := inner_ginv dom C D p dw batch sumCh hs hp w hw (len + 1) (i + 1)
        (sumGrid (w i) sumCh (prodGrid (cfgAt D p dw i) G)) (by omega) hS (by simp [sumGrid])
      have e2 : i + 1 + (len + 1) = i + (len + 2) := by omega
      rw [e2] at ih
      refine ⟨ih.1, ?_⟩
      intro _
      exact ih.2 (by omega)

theorem grid_children_length (G : Grid α) :
    ((List.range G.ch).flatMap (fun ch => (List.range G.size).flatMap (fun r =>
      (List.range G.size).map (fun c => G.at_ ch r c)))).length = G.ch * (G.size * G.size) := by
  apply RatSpn.flatMap_range_length
  intro ch
  apply RatSpn.flatMap_range_length
  intro r
  simp

theorem dgc_root_valid (dom : Nat → Nat) (C D : Nat) (S : List (List Nat)) (G : Grid α) (hG : GInv dom C D S G)
    (hsize : 0 < S.length) (hfull : ∀ j, j < S.length → ∀ x, x ∈ S.getD j [] ↔ x < D)
    (wroot : List α) (hw : wroot.length = G.ch * (G.size * G.size)) :
    Circ.Valid dom (rootNode wroot C D G) := by
  obtain ⟨hsz, hch, hall⟩ := hG
  unfold rootNode
  rw [valid_sum_iff]
  have hlen := grid_children_length G
  refine ⟨?_, ?_, ?_, ?_⟩
  · intro hnil
    rw [hnil] at hlen
    have : 0 < G.ch * (G.size * G.size) := Nat.mul_pos hch (Nat.mul_pos (by omega) (by omega))
    simp at hlen; omega
  · rw [hlen, hw]
  · intro k hk v
    obtain ⟨ch, _, hk⟩ := List.mem_flatMap.1 hk
    obtain ⟨r, hr, hk⟩ := List.mem_flatMap.1 hk
    obtain ⟨c, hc, rfl⟩ := List.mem_map.1 hk
    rw [List.mem_range] at hr hc
    rw [(hall ch r c hr hc).1 v, mem_pixels, mem_pixels]
    constructor
    · rintro ⟨ch', h1, x, hx, y, hy, rfl⟩
      exact ⟨ch', h1, x, List.mem_range.2 ((hfull r (by omega) x).1 hx), y,
        List.mem_range.2 ((hfull c (by omega) y).1 hy), rfl⟩
    · rintro ⟨ch', h1, x, hx, y, hy, rfl⟩
      exact ⟨ch', h1, x, (hfull r (by omega) x).2 (List.mem_range.1 hx), y,
        (hfull c (by omega) y).2 (List.mem_range.1 hy), rfl⟩
  · intro k hk
    obtain ⟨ch, _, hk⟩ := List.mem_flatMap.1 hk
    obtain ⟨r, hr, hk⟩ := List.mem_flatMap.1 hk
    obtain ⟨c, hc, rfl⟩ := List.mem_map.1 hk
    rw [List.mem_range] at hr hc
    exact (hall ch r c hr hc).2.2

/-- **dgc_valid** (lemma form) -/
theorem dgc_valid_aux (dom : Nat → Nat) (C D p : Nat) (dw : Nat → Bool) (batch sumCh : Nat)
    (hb : 0 < batch) (hs : 0 < sumCh) (hp : p ≤ clog2 D) (hdiv : 2 ^ p ∣ D)
    (lf : Nat → Nat → Nat → Nat → Ev → α)
    (hleaf : ∀ b ch r c, r < D → c < D → LeafOK dom [pix D ch r c] (lf b ch r c))
    (w : Nat → Nat → Nat → Nat → List α)
    (hw : ∀ i o r c, (w i o r c).length = outChannels (cfgAt D p dw i) (if i = 0 then batch else sumCh))
    (wroot : List α)
    (hroot : wroot.length = lastCh D p dw batch sumCh * (2 ^ (clog2 D - p) * 2 ^ (clog2 D - p))) :
    Circ.Valid dom (unroll C D p batch sumCh dw lf w wroot) := by
  unfold unroll schedule
  rw [List.range_eq_range']
  have hbase := baseGrid_inv dom C D batch hb lf hleaf
  obtain ⟨hG, hch⟩ := inner_ginv dom C D p dw batch sumCh hs hp w hw (clog2 D + 1) 0 _ (by omega) hbase
    (by simp [baseGrid])
  rw [Nat.zero_add] at hG hch
  obtain ⟨hl, hm, _⟩ := stage_final D p dw hp
  have hδ := RatSpn.two_pow_pos (clog2 D - p)
  refine dgc_root_valid dom C D _ _ hG (by rw [hl]; exact hδ) ?_ wroot ?_
  · intro j hj x
    rw [hl] at hj
    rw [hm j x hj, div_lt_div_iff_of_dvd (RatSpn.two_pow_pos p) hdiv]
  · rw [hch (by omega), hG.1, hl, hroot]
    simp [lastCh]

/-! normalised weights / leaves -/

theorem padAt_normW (G : Grid α) (h : ∀ ch r c, Circ.NormW (G.at_ ch r c)) (pl ch r c : Nat) :
    Circ.NormW (padAt G pl ch r c) := by
  unfold padAt; split
  · exact h _ _ _
  · exact normW_leaf _ _

theorem padAt_leafNorm (dom : Nat → Nat) (G : Grid α) (h : ∀ ch r c, Circ.LeafNorm dom (G.at_ ch r c))
    (pl ch r c : Nat) : Circ.LeafNorm dom (padAt G pl ch r c) := by
  unfold padAt; split
  · exact h _ _ _
  · unfold one; rw [leafNorm_leaf_iff]

theorem prodGrid_normW (cfg : ProdCfg) (G : Grid α) (h : ∀ ch r c, Circ.NormW (G.at_ ch r c)) :
    ∀ ch r c, Circ.NormW ((prodGrid cfg G).at_ ch r c) := by
  intro ch r c
  simp only [prodGrid]
  rw [normW_prod_iff]
  intro k hk
  simp only [List.mem_cons, List.not_mem_nil, or_false] at hk
  rcases hk with rfl | rfl | rfl | rfl <;> exact padAt_normW G h _ _ _ _

theorem prodGrid_leafNorm (dom : Nat → Nat) (cfg : ProdCfg) (G : Grid α)
    (h : ∀ ch r c, Circ.LeafNorm dom (G.at_ ch r c)) :
    ∀ ch r c, Circ.LeafNorm dom ((prodGrid cfg G).at_ ch r c) := by
  intro ch r c
  simp only [prodGrid]
  rw [leafNorm_prod_iff]
  intro k hk
  simp only [List.mem_cons, List.not_mem_nil, or_false] at hk
  rcases hk with rfl | rfl | rfl | rfl <;> exact padAt_leafNorm dom G h _ _ _ _

theorem innerGrids_normW (w : Nat → Nat → Nat → Nat → List α) (sumCh : Nat)
    (hw1 : ∀ i o r c, tsum (w i o r c) = 1) :
    ∀ (cfgs : List ProdCfg) (l : Nat) (G : Grid α), (∀ ch r c, Circ.NormW (G.at_ ch r c)) →
      ∀ ch r c, Circ.NormW ((innerGrids w sumCh cfgs l G).at_ ch r c)
  | [], _, G, h => by simpa [innerGrids] using h
  | [cfg], _, G, h => by simpa [innerGrids] using prodGrid_normW cfg G h
  | cfg :: cfg' :: rest, l, G, h => by
      simp only [innerGrids]
      apply innerGrids_normW w sumCh hw1 (cfg' :: rest) (l + 1)
      intro ch r c
      simp only [sumGrid]
      rw [normW_sum_iff]
      refine ⟨hw1 _ _ _ _, ?_⟩
      intro k hk
      obtain ⟨ch', _, rfl⟩ := List.mem_map.1 hk
      exact prodGrid_normW cfg G h _ _ _

theorem innerGrids_leafNorm (dom : Nat → Nat) (w : Nat → Nat → Nat → Nat → List α) (sumCh : Nat) :
    ∀ (cfgs : List ProdCfg) (l : Nat) (G : Grid α), (∀ ch r c, Circ.LeafNorm dom (G.at_ ch r c)) →
      ∀ ch r c, Circ.LeafNorm dom ((innerGrids w sumCh cfgs l G).at_ ch r c)
  | [], _, G, h => by simpa [innerGrids] using h
  | [cfg], _, G, h => by simpa [innerGrids] using prodGrid_leafNorm dom cfg G h
  | cfg :: cfg' :: rest, l, G, h => by
      simp only [innerGrids]
      apply innerGrids_leafNorm dom w sumCh (cfg' :: rest) (l + 1)
      intro ch r c
      simp only [sumGrid]
      rw [leafNorm_sum_iff]
      intro k hk
      obtain ⟨ch', _, rfl⟩ := List.mem_map.1 hk
      exact prodGrid_leafNorm dom cfg G h _ _ _

theorem dgc_normW (C D p batch sumCh : Nat) (dw : Nat → Bool) (lf : Nat → Nat → Nat → Nat → Ev → α)
    (w : Nat → Nat → Nat → Nat → List α) (wroot : List α)
    (hw1 : ∀ i o r c, tsum (w i o r c) = 1) (hroot1 : tsum wroot = 1) :
    Circ.NormW (unroll C D p batch sumCh dw lf w wroot) := by
  unfold unroll rootNode
  rw [normW_sum_iff]
  refine ⟨hroot1, ?_⟩
  intro k hk
  obtain ⟨ch, _, hk⟩ := List.mem_flatMap.1 hk
  obtain ⟨r, _, hk⟩ := List.mem_flatMap.1 hk
  obtain ⟨c, _, rfl⟩ := List.mem_map.1 hk
  apply innerGrids_normW w sumCh hw1
  intro b r c
  simp only [baseGrid]
  rw [normW_prod_iff]
  intro k hk
  obtain ⟨ch, _, rfl⟩ := List.mem_map.1 hk
  exact normW_leaf _ _

theorem dgc_leafNorm (dom : Nat → Nat) (C D p batch sumCh : Nat) (dw : Nat → Bool)
    (lf : Nat → Nat → Nat → Nat → Ev → α) (w : Nat → Nat → Nat → Nat → List α) (wroot : List α)
    (hl1 : ∀ b ch r c, lf b ch r c (fun _ => none) = 1) :
    Circ.LeafNorm dom (unroll C D p batch sumCh dw lf w wroot) := by
  unfold unroll rootNode
  rw [leafNorm_sum_iff]
  intro k hk
  obtain ⟨ch, _, hk⟩ := List.mem_flatMap.1 hk
  obtain ⟨r, _, hk⟩ := List.mem_flatMap.1 hk
  obtain ⟨c, _, rfl⟩ := List.mem_map.1 hk
  apply innerGrids_leafNorm dom w sumCh
  intro b r c
  simp only [baseGrid]
  rw [leafNorm_prod_iff]
  intro k hk
  obtain ⟨ch, _, rfl⟩ := List.mem_map.1 hk
  rw [leafNorm_leaf_iff]
  exact hl1 b ch r c

end grids2
end DgcSpn

end Deeprob
