import DeeprobModel.Model.Learn
import DeeprobModel.Model.LearnTerm
import DeeprobModel.Lemmas.LearnSlices
import DeeprobModel.Lemmas.LearnInv
import Mathlib.Data.List.Basic
import Mathlib.Data.List.Perm.Basic
import Mathlib.Tactic.Common
/-
Termination of the LearnSPN work-queue machine (`Model/Learn.lean`, `step` / `run`): the measure of
`Model/LearnTerm.lean` strictly decreases in every successful iteration; proper oracle answers are exactly
those on which an iteration does not stop with `.error`; hence the loop halts within `measure` iterations.
-/
namespace Deeprob.LearnTerm
open Deeprob.Learn List

/-! ### arithmetic of the measure -/

theorem area_pos (t : Task) : 1 ≤ area t := by
  unfold area; exact Nat.mul_pos (by omega) (by omega)

theorem phase_le (t : Task) : phase t ≤ 2 := by
  unfold phase; split
  · omega
  · split <;> omega

theorem weight_pos (t : Task) : 1 ≤ weight t := by
  have := area_pos t; unfold weight; omega

@[simp] theorem qmeasure_nil : qmeasure [] = 0 := rfl

@[simp] theorem qmeasure_cons (t : Task) (q : List Task) : qmeasure (t :: q) = weight t + qmeasure q := by
  simp [qmeasure]

@[simp] theorem qmeasure_append (q r : List Task) : qmeasure (q ++ r) = qmeasure q + qmeasure r := by
  simp [qmeasure]

/-- the re-queue discipline (`appendleft` / `append`) is irrelevant for the measure -/
theorem qmeasure_requeue (f : Bool) (q : List Task) (t : Task) :
    qmeasure (requeue f q t) = weight t + qmeasure q := by
  unfold requeue; split
  · simp
  · simp; omega

theorem qmeasure_eq_zero (q : List Task) : qmeasure q = 0 ↔ q = [] := by
  cases q with
  | nil => simp
  | cons t q => have := weight_pos t; simp; omega

theorem measure_eq_zero (s : St) : measure s = 0 ↔ s.queue = [] := qmeasure_eq_zero s.queue

theorem measure_attach (s : St) (t : Task) (q : List Task) (sc : List Ans) (x : Node) (extra : Option Node)
    (nt : List Task) : measure (Learn.attach s t q sc x extra nt) = qmeasure q + qmeasure nt := by
  unfold measure Learn.attach; exact qmeasure_append q nt

theorem measure_init (nRows nCols : Nat) (script : List Ans) (cfg : Cfg) :
    measure (init nRows nCols script) = B nRows nCols cfg := by
  have : 1 ≤ max nRows 1 * max nCols 1 := Nat.mul_pos (by omega) (by omega)
  simp [measure, init, initOn, weight, area, phase, B]
  omega

/-! ### slices -/

theorem sum_length_slicesOf {β : Type} (labels : List Int) (items : List β)
    (h : labels.length = items.length) : ((slicesOf labels items).map length).sum = items.length := by
  have := (slicesOf_perm labels items h).length_eq
  rw [length_flatten] at this
  exact this

/-- `Σ (5·|sl|·C − 2) + 2·k = 5·(Σ|sl|)·C` for `k` non-empty slices -/
theorem sum_weights_slices {β : Type} (L : List (List β)) (C : Nat) (hC : 1 ≤ C) (hne : ∀ sl ∈ L, sl ≠ []) :
    (L.map (fun sl => 5 * (sl.length * C) - 2)).sum + 2 * L.length = 5 * ((L.map length).sum * C) := by
  induction L with
  | nil => simp
  | cons a L ih =>
    have ih' := ih (fun sl h => hne sl (mem_cons_of_mem _ h))
    have h1 : 1 ≤ a.length := length_pos_iff.2 (hne a (mem_cons_self ..))
    have h2 : 1 ≤ a.length * C := Nat.mul_pos h1 hC
    simp only [map_cons, sum_cons, length_cons, Nat.add_mul]
    generalize a.length * C = X at *
    generalize (L.map length).sum * C = Y at *
    generalize (L.map (fun sl => 5 * (sl.length * C) - 2)).sum = Z at *
    omega

/-- a split into `k ≠ 1` non-empty parts of total size `n`: the fresh sub-tasks weigh at most
`5·n·C − 4` together (and nothing when `k = 0`) -/
theorem sum_weights_split {β : Type} (L : List (List β)) (C n : Nat) (hC : 1 ≤ C)
    (hne : ∀ sl ∈ L, sl ≠ []) (hsum : (L.map length).sum = n) (hk : L.length ≠ 1) :
    (L.map (fun sl => 5 * (sl.length * C) - 2)).sum + 4 ≤ 5 * (max n 1 * C) := by
  have key := sum_weights_slices L C hC hne
  rw [hsum] at key
  have hmax : n * C ≤ max n 1 * C := Nat.mul_le_mul_right _ (by omega)
  have hpos : 1 ≤ max n 1 * C := Nat.mul_pos (by omega) hC
  cases L with
  | nil => simp; omega
  | cons a L =>
    cases L with
    | nil => simp at hk
    | cons b L =>
      simp only [length_cons] at key
      generalize ((a :: b :: L).map (fun sl => 5 * (sl.length * C) - 2)).sum = Z at *
      generalize n * C = X at *
      generalize max n 1 * C = Y at *
      omega

theorem weight_fresh_rows (p : Nat) (r sc : List Nat) (hr : r ≠ []) :
    weight { parent := p, rows := r, scope := sc } = 5 * (r.length * max sc.length 1) - 2 := by
  have h1 : 1 ≤ r.length := length_pos_iff.2 hr
  have h2 : 1 ≤ r.length * max sc.length 1 := Nat.mul_pos h1 (by omega)
  have hm : max r.length 1 = r.length := by omega
  simp only [weight, area, phase, hm]
  simp
  generalize r.length * max sc.length 1 = X at *
  omega

theorem weight_fresh_cols (p : Nat) (r c : List Nat) (hc : c ≠ []) :
    weight { parent := p, rows := r, scope := c } = 5 * (c.length * max r.length 1) - 2 := by
  have h1 : 1 ≤ c.length := length_pos_iff.2 hc
  have h2 : 1 ≤ c.length * max r.length 1 := Nat.mul_pos h1 (by omega)
  have hm : max c.length 1 = c.length := by omega
  simp only [weight, area, phase, hm]
  simp
  rw [Nat.mul_comm (max r.length 1)]
  generalize c.length * max r.length 1 = X at *
  omega

theorem qmeasure_row_tasks (p : Nat) (sc : List Nat) (sl : List (List Nat)) (hne : ∀ r ∈ sl, r ≠ []) :
    qmeasure (sl.map (fun r => ({ parent := p, rows := r, scope := sc } : Task)))
      = (sl.map (fun r => 5 * (r.length * max sc.length 1) - 2)).sum := by
  unfold qmeasure
  rw [map_map]
  congr 1
  apply map_congr_left
  intro r hr
  exact weight_fresh_rows p r sc (hne r hr)

theorem qmeasure_col_tasks (p : Nat) (rows : List Nat) (sl : List (List Nat)) (hne : ∀ c ∈ sl, c ≠ []) :
    qmeasure (sl.map (fun c => ({ parent := p, rows := rows, scope := c } : Task)))
      = (sl.map (fun c => 5 * (c.length * max rows.length 1) - 2)).sum := by
  unfold qmeasure
  rw [map_map]
  congr 1
  apply map_congr_left
  intro c hc
  exact weight_fresh_cols p rows c (hne c hc)

/-! ### the selection cascade and the flags -/

theorem selectOp_rows (cfg : Cfg) (t : Task) (zv : List Bool) (h : selectOp cfg t zv = .splitRows) :
    phase t = 1 := by
  unfold selectOp at h
  split at h
  · cases h
  · split at h
    · cases h
    · split at h
      · cases h
      · rename_i h3
        split at h
        · rename_i h4
          unfold phase
          have : t.noRowsSplit = false := by
            cases hb : t.noRowsSplit
            · rfl
            · simp [hb] at h3
          simp [this, h4]
        · cases h

theorem selectOp_cols (cfg : Cfg) (t : Task) (zv : List Bool) (h : selectOp cfg t zv = .splitCols) :
    phase t = 2 := by
  unfold selectOp at h
  split at h
  · cases h
  · split at h
    · cases h
    · split at h
      · cases h
      · rename_i h3
        split at h
        · cases h
        · rename_i h4
          unfold phase
          have : t.noRowsSplit = false := by
            cases hb : t.noRowsSplit
            · rfl
            · simp [hb] at h3
          simp [this, h4]

/-- a failed row split: same slice, `no_rows_split=True` -/
theorem weight_requeue_rows (t : Task) (h : phase t = 1) :
    weight { parent := t.parent, rows := t.rows, scope := t.scope, noColsSplit := false, noRowsSplit := true }
      < weight t := by
  have ha := area_pos t
  rcases t with ⟨p, r, sc, nc, nr, f⟩
  simp only [weight, area, phase] at *
  cases nr <;> cases nc <;> cases f <;> simp at h ⊢

/-- a failed column split: same slice, `no_cols_split=True` -/
theorem weight_requeue_cols (t : Task) (h : phase t = 2) :
    weight { parent := t.parent, rows := t.rows, scope := t.scope, noColsSplit := true, noRowsSplit := false }
      < weight t := by
  have ha := area_pos t
  rcases t with ⟨p, r, sc, nc, nr, f⟩
  simp only [weight, area, phase] at *
  cases nr <;> cases nc <;> cases f <;> simp at h ⊢

/-- REM_FEATURES: fewer (but still some) columns, same rows; the flags are reset -/
theorem weight_lt_of_scope_lt (t u : Task) (hr : u.rows = t.rows) (h1 : 1 ≤ u.scope.length)
    (h2 : u.scope.length < t.scope.length) : weight u < weight t := by
  have hu := phase_le u
  unfold weight area
  rw [hr]
  have hm1 : max u.scope.length 1 = u.scope.length := by omega
  have hm2 : max t.scope.length 1 = t.scope.length := by omega
  rw [hm1, hm2]
  have hR : 1 ≤ max t.rows.length 1 := by omega
  have h3 : max t.rows.length 1 * (u.scope.length + 1) ≤ max t.rows.length 1 * t.scope.length :=
    Nat.mul_le_mul_left _ h2
  rw [Nat.mul_succ] at h3
  have h4 : 1 ≤ max t.rows.length 1 * u.scope.length := Nat.mul_pos hR h1
  generalize max t.rows.length 1 * u.scope.length = X at *
  generalize max t.rows.length 1 * t.scope.length = Y at *
  generalize max t.rows.length 1 = R at *
  omega

theorem rem_lengths (zv : List Bool) (scope : List Nat) (hl : zv.length = scope.length)
    (h : zv.all id = false ∧ zv.any id = true) :
    1 ≤ (selectBy zv scope false).length ∧ (selectBy zv scope false).length < scope.length := by
  have ht : true ∈ zv := by
    obtain ⟨b, hb, hb'⟩ := any_eq_true.1 h.2
    cases b
    · simp at hb'
    · exact hb
  have hf : false ∈ zv := by
    have : ¬ (zv.all id = true) := by rw [h.1]; simp
    rw [all_eq_true] at this
    push Not at this
    obtain ⟨b, hb, hb'⟩ := this
    cases b
    · exact hb
    · simp at hb'
  have h1 := length_pos_iff.2 (selectBy_ne_nil zv scope hl true ht)
  have h2 := length_pos_iff.2 (selectBy_ne_nil zv scope hl false hf)
  have h3 := (selectBy_perm zv scope hl).length_eq
  rw [length_append] at h3
  omega

/-! ### the decrease -/

/-- **`step_decreases`.** Every successful iteration from a state with a non-empty deque strictly decreases
the measure — whatever the oracle answered and whatever the hyper-parameters and the re-queue discipline. -/
theorem step_decreases (cfg : Cfg) (s s' : St) (hq : s.queue ≠ []) (h : step cfg s = .ok s') :
    measure s' < measure s := by
  unfold step at h
  split at h
  · rename_i hq'; exact absurd hq' hq
  · rename_i t q hq'
    have hm : measure s = weight t + qmeasure q := by unfold measure; rw [hq']; simp
    have hw := weight_pos t
    split at h
    · rename_i pos sc hsc
      split at h
      · cases h
      · simp only at h
        split at h
        · -- SPLIT_NAIVE
          cases h; rw [measure_attach, hm]; simp; omega
        · -- REM_FEATURES
          rename_i hop
          cases h
          rw [measure_attach, hm]
          have hl := rem_lengths (zvMask pos t.scope.length) t.scope (length_zvMask _ _)
            (selectOp_rem cfg t _ hop)
          have := weight_lt_of_scope_lt t
            { parent := s.size, rows := t.rows, scope := selectBy (zvMask pos t.scope.length) t.scope false,
              isFirst := t.isFirst && q.isEmpty } rfl hl.1 hl.2
          simp only [qmeasure_cons, qmeasure_nil]
          omega
        · -- CREATE_LEAF
          cases h; rw [measure_attach, hm]; simp; omega
        · -- SPLIT_ROWS
          rename_i hop
          have hph := selectOp_rows cfg t _ hop
          split at h
          · rename_i labels sc'
            split at h
            · cases h
            · rename_i hlen
              have hlen' : labels.length = t.rows.length := by simpa using hlen
              split at h
              · cases h
                have := weight_requeue_rows t hph
                simp only [measure, qmeasure_requeue]
                rw [hq'] ; simp only [qmeasure_cons]
                omega
              · rename_i hk
                cases h
                rw [measure_attach, hm, qmeasure_row_tasks _ _ _ (slicesOf_ne_nil labels t.rows hlen')]
                have := sum_weights_split (slicesOf labels t.rows) (max t.scope.length 1) t.rows.length
                  (by omega) (slicesOf_ne_nil labels t.rows hlen') (sum_length_slicesOf labels t.rows hlen') hk
                unfold weight area
                rw [hph]
                omega
          · cases h
        · -- SPLIT_COLS
          rename_i hop
          have hph := selectOp_cols cfg t _ hop
          split at h
          · rename_i labels sc'
            split at h
            · cases h
            · rename_i hlen
              have hlen' : labels.length = t.scope.length := by simpa using hlen
              split at h
              · cases h
                have := weight_requeue_cols t hph
                simp only [measure, qmeasure_requeue]
                rw [hq'] ; simp only [qmeasure_cons]
                omega
              · rename_i hk
                cases h
                rw [measure_attach, hm, qmeasure_col_tasks _ _ _ (slicesOf_ne_nil labels t.scope hlen')]
                have := sum_weights_split (slicesOf labels t.scope) (max t.rows.length 1) t.scope.length
                  (by omega) (slicesOf_ne_nil labels t.scope hlen') (sum_length_slicesOf labels t.scope hlen') hk
                unfold weight area
                rw [hph, Nat.mul_comm (max t.rows.length 1)]
                omega
          · cases h
    · cases h

/-! ### proper oracle answers -/

/-- **`ProperAns t a`**: `a` is an answer a splitter / the variance test may legitimately give for the task
`t`: zero-variance positions index columns of the slice, a row splitter returns one label per row, a column
splitter one label per column. (Whether a split "succeeds" is then decided by `step` exactly as the code
does: `len(slices) == 1`, i.e. a single distinct label, is a failure — see `splitFails_iff`.) -/
def ProperAns (t : Task) : Ans → Prop
  | .zeroVar pos => ∀ i ∈ pos, i < t.scope.length
  | .rows labels => labels.length = t.rows.length
  | .cols labels => labels.length = t.scope.length

instance (t : Task) (a : Ans) : Decidable (ProperAns t a) := by
  cases a <;> unfold ProperAns <;> infer_instance

/-- the verdict of `step` on a label array: single cluster ⇔ failure -/
def splitFails (labels : List Int) : Bool := (uniqSorted labels).length == 1

theorem splitFails_iff {β : Type} (labels : List Int) (items : List β) :
    (slicesOf labels items).length = 1 ↔ splitFails labels = true := by
  simp [slicesOf, splitFails]

/-- for a non-empty label array "not a single cluster" means at least two distinct labels -/
theorem two_labels_of_not_fails (labels : List Int) (hne : labels ≠ []) (h : splitFails labels = false) :
    2 ≤ (uniqSorted labels).length := by
  have h0 : uniqSorted labels ≠ [] := by
    obtain ⟨x, hx⟩ := exists_mem_of_ne_nil labels hne
    exact ne_nil_of_mem ((mem_uniqSorted x labels).2 hx)
  have := length_pos_iff.2 h0
  simp [splitFails] at h
  omega

/-- what `step` reads AFTER the zero-variance answer, given the selected operation -/
def ProperNext (t : Task) : Op → List Ans → Prop
  | .splitRows, sc => match sc with
    | .rows l :: _ => ProperAns t (.rows l)
    | _ => False
  | .splitCols, sc => match sc with
    | .cols l :: _ => ProperAns t (.cols l)
    | _ => False
  | _, _ => True

instance (t : Task) (op : Op) (sc : List Ans) : Decidable (ProperNext t op sc) := by
  cases op <;> simp only [ProperNext] <;> (try split) <;> infer_instance

/-- **`ProperHead cfg t script`**: the script answers the one or two questions the iteration on task `t`
asks (`np.var` first, then — only if the cascade selects a split — the splitter), each with an answer of the
right kind that is proper for `t`. -/
def ProperHead (cfg : Cfg) (t : Task) : List Ans → Prop
  | .zeroVar pos :: sc =>
      ProperAns t (.zeroVar pos) ∧ ProperNext t (selectOp cfg t (zvMask pos t.scope.length)) sc
  | _ => False

instance (cfg : Cfg) (t : Task) (sc : List Ans) : Decidable (ProperHead cfg t sc) := by
  unfold ProperHead; split <;> infer_instance

/-- the number of script entries one iteration consumes -/
def consumed (cfg : Cfg) (t : Task) : List Ans → Nat
  | .zeroVar pos :: _ =>
      match selectOp cfg t (zvMask pos t.scope.length) with
      | .splitRows => 2
      | .splitCols => 2
      | _ => 1
  | _ => 0

theorem not_any_of_proper (t : Task) (pos : List Nat) (h : ProperAns t (.zeroVar pos)) :
    (pos.any fun i => decide (t.scope.length ≤ i)) = false := by
  rw [any_eq_false]
  intro i hi
  have := h i hi
  simp; omega

/-- an iteration on a proper head succeeds and drops exactly the consumed entries -/
theorem step_ok_of_proper (cfg : Cfg) (s : St) (t : Task) (q : List Task) (hq : s.queue = t :: q)
    (hp : ProperHead cfg t s.script) :
    ∃ s', step cfg s = .ok s' ∧ s'.script = s.script.drop (consumed cfg t s.script) := by
  unfold step
  rw [hq]
  simp only
  cases hsc : s.script with
  | nil => rw [hsc] at hp; simp [ProperHead] at hp
  | cons a sc =>
    rw [hsc] at hp
    cases a with
    | rows l => simp [ProperHead] at hp
    | cols l => simp [ProperHead] at hp
    | zeroVar pos =>
      simp only [ProperHead] at hp
      obtain ⟨hp1, hp2⟩ := hp
      simp only [not_any_of_proper t pos hp1, Bool.false_eq_true, if_false, consumed]
      cases hop : selectOp cfg t (zvMask pos t.scope.length) with
      | remFeatures => exact ⟨_, rfl, by simp [Learn.attach]⟩
      | createLeaf => exact ⟨_, rfl, by simp [Learn.attach]⟩
      | splitNaive => exact ⟨_, rfl, by simp [Learn.attach]⟩
      | splitRows =>
        rw [hop] at hp2
        simp only [ProperNext] at hp2
        cases sc with
        | nil => simp at hp2
        | cons b sc' =>
          cases b with
          | zeroVar p => simp at hp2
          | cols l => simp at hp2
          | rows l =>
            simp only [ProperAns] at hp2
            simp only [hp2, ne_eq, not_true_eq_false, if_false]
            split
            · exact ⟨_, rfl, by simp⟩
            · exact ⟨_, rfl, by simp [Learn.attach]⟩
      | splitCols =>
        rw [hop] at hp2
        simp only [ProperNext] at hp2
        cases sc with
        | nil => simp at hp2
        | cons b sc' =>
          cases b with
          | zeroVar p => simp at hp2
          | rows l => simp at hp2
          | cols l =>
            simp only [ProperAns] at hp2
            simp only [hp2, ne_eq, not_true_eq_false, if_false]
            split
            · exact ⟨_, rfl, by simp⟩
            · exact ⟨_, rfl, by simp [Learn.attach]⟩

/-- conversely: the iteration succeeds ONLY on a proper head — `ProperHead` is exactly "the machine does not
stop with `.error`", nothing more is assumed of the oracle -/
theorem proper_of_step_ok (cfg : Cfg) (s s' : St) (t : Task) (q : List Task) (hq : s.queue = t :: q)
    (h : step cfg s = .ok s') : ProperHead cfg t s.script := by
  unfold step at h
  rw [hq] at h
  simp only at h
  split at h
  · rename_i pos sc hsc
    rw [hsc]
    split at h
    · cases h
    · rename_i hany
      have hp1 : ProperAns t (.zeroVar pos) := by
        intro i hi
        have h' : ∀ x ∈ pos, x < t.scope.length := by simpa using hany
        exact h' i hi
      refine ⟨hp1, ?_⟩
      split at h
      · rename_i hop; rw [hop]; trivial
      · rename_i hop; rw [hop]; trivial
      · rename_i hop; rw [hop]; trivial
      · rename_i hop
        rw [hop]
        split at h
        · rename_i labels sc'
          split at h
          · cases h
          · rename_i hlen
            simp only [ProperNext, ProperAns]
            simpa using hlen
        · cases h
      · rename_i hop
        rw [hop]
        split at h
        · rename_i labels sc'
          split at h
          · cases h
          · rename_i hlen
            simp only [ProperNext, ProperAns]
            simpa using hlen
        · cases h
  · cases h

/-- every successful iteration consumes at least one script entry -/
theorem step_script_lt (cfg : Cfg) (s s' : St) (hq : s.queue ≠ []) (h : step cfg s = .ok s') :
    s'.script.length < s.script.length := by
  cases hq' : s.queue with
  | nil => exact absurd hq' hq
  | cons t q =>
    have hp := proper_of_step_ok cfg s s' t q hq' h
    obtain ⟨s1, h1, h2⟩ := step_ok_of_proper cfg s t q hq' hp
    rw [h] at h1
    cases h1
    rw [h2, length_drop]
    cases hsc : s.script with
    | nil => rw [hsc] at hp; simp [ProperHead] at hp
    | cons a sc =>
      rw [hsc] at hp
      cases a with
      | rows l => simp [ProperHead] at hp
      | cols l => simp [ProperHead] at hp
      | zeroVar pos =>
        simp only [consumed, length_cons]
        split <;> omega

/-! ### runs -/

/-- **`ProperRun cfg n s`**: during the first `n` iterations from `s`, every consultation of the script is
answered (the script has not run out) by proper answers of the kind asked for. -/
def ProperRun (cfg : Cfg) : Nat → St → Prop
  | 0, _ => True
  | n+1, s =>
    match s.queue with
    | [] => True
    | t :: _ => ProperHead cfg t s.script ∧ ∀ s', step cfg s = .ok s' → ProperRun cfg n s'

instance properRunDec (cfg : Cfg) : (n : Nat) → (s : St) → Decidable (ProperRun cfg n s)
  | 0, _ => isTrue trivial
  | n+1, s =>
    match hq : s.queue with
    | [] => isTrue (by unfold ProperRun; rw [hq]; trivial)
    | t :: q =>
      if hp : ProperHead cfg t s.script then
        match hs : step cfg s with
        | .ok s' =>
          match properRunDec cfg n s' with
          | isTrue h => isTrue (by
              unfold ProperRun; rw [hq]
              refine ⟨hp, ?_⟩
              intro s'' h''; rw [hs] at h''; cases h''; exact h)
          | isFalse h => isFalse (by
              unfold ProperRun; rw [hq]
              intro hh; exact h (hh.2 s' hs))
        | .error e => isFalse (by
            intro _
            obtain ⟨s1, h1, _⟩ := step_ok_of_proper cfg s t q hq hp
            rw [hs] at h1; cases h1)
      else isFalse (by unfold ProperRun; rw [hq]; intro hh; exact hp hh.1)

theorem run_queue_nil (cfg : Cfg) (n : Nat) (s : St) (hq : s.queue = []) : run cfg n s = .ok s := by
  cases n with
  | zero => rfl
  | succ n => unfold run; rw [hq]

/-- more fuel does not change a finished run -/
theorem run_mono (cfg : Cfg) : ∀ (n : Nat) (s s' : St), run cfg n s = .ok s' → s'.queue = [] →
    ∀ m, n ≤ m → run cfg m s = .ok s'
  | 0, s, s', h, hq, m, _ => by
    simp [run] at h; subst h; exact run_queue_nil cfg m s hq
  | n+1, s, s', h, hq, m, hm => by
    obtain ⟨m', rfl⟩ : ∃ m', m = m' + 1 := ⟨m - 1, by omega⟩
    unfold run at h ⊢
    split at h
    · exact h
    · rename_i t q hq'
      split at h
      · rename_i s1 hs1
        exact run_mono cfg n s1 s' h hq m' (by omega)
      · cases h

theorem runCount_run (cfg : Cfg) : ∀ (n : Nat) (s s' : St) (k : Nat), runCount cfg n s = .ok (s', k) →
    run cfg n s = .ok s'
  | 0, s, s', k, h => by simp [runCount] at h; simp [run, h.1]
  | n+1, s, s', k, h => by
    unfold runCount at h
    unfold run
    split at h
    · rename_i hq; rw [hq]; simp at h; simp [h.1]
    · rename_i t q hq
      rw [hq]
      simp only
      split at h
      · rename_i s1 hs1
        rw [hs1]
        simp only
        split at h
        · rename_i s2 k2 h2
          simp at h
          rw [← h.1]
          exact runCount_run cfg n s1 s2 k2 h2
        · cases h
      · cases h

theorem runCount_queue_nil (cfg : Cfg) (n : Nat) (s : St) (hq : s.queue = []) :
    runCount cfg n s = .ok (s, 0) := by
  cases n with
  | zero => rfl
  | succ n => unfold runCount; rw [hq]

/-- more fuel changes neither a finished run nor its iteration count -/
theorem runCount_mono (cfg : Cfg) : ∀ (n : Nat) (s s' : St) (k : Nat), runCount cfg n s = .ok (s', k) →
    s'.queue = [] → ∀ m, n ≤ m → runCount cfg m s = .ok (s', k)
  | 0, s, s', k, h, hq, m, _ => by
    simp [runCount] at h
    obtain ⟨rfl, rfl⟩ := h
    exact runCount_queue_nil cfg m s hq
  | n+1, s, s', k, h, hq, m, hm => by
    obtain ⟨m', rfl⟩ : ∃ m', m = m' + 1 := ⟨m - 1, by omega⟩
    unfold runCount at h ⊢
    split at h
    · exact h
    · rename_i t q hq'
      split at h
      · rename_i s1 hs1
        split at h
        · rename_i s2 k2 h2
          simp at h
          obtain ⟨rfl, rfl⟩ := h
          rw [runCount_mono cfg n s1 s2 k2 h2 hq m' (by omega)]
        · cases h
      · cases h

/-- the counted iterations are paid for by the measure -/
theorem runCount_le (cfg : Cfg) : ∀ (n : Nat) (s s' : St) (k : Nat), runCount cfg n s = .ok (s', k) →
    k + measure s' ≤ measure s
  | 0, s, s', k, h => by simp [runCount] at h; rw [← h.1, ← h.2]; omega
  | n+1, s, s', k, h => by
    unfold runCount at h
    split at h
    · simp at h; rw [← h.1, ← h.2]; omega
    · rename_i t q hq
      split at h
      · rename_i s1 hs1
        split at h
        · rename_i s2 k2 h2
          simp at h
          have ih := runCount_le cfg n s1 s2 k2 h2
          have hd := step_decreases cfg s s1 (by rw [hq]; simp) hs1
          rw [← h.1, ← h.2]
          omega
        · cases h
      · cases h

/-- **termination of the machine**: if the first `n` iterations are answered properly and `n` is at least the
measure, the run halts with an empty deque after `k ≤ measure s` iterations — never "script exhausted", never
an error. -/
theorem run_terminates (cfg : Cfg) : ∀ (n : Nat) (s : St), ProperRun cfg n s → measure s ≤ n →
    ∃ s' k, runCount cfg n s = .ok (s', k) ∧ s'.queue = [] ∧ k ≤ measure s
  | 0, s, _, hm => by
    have hq : s.queue = [] := (measure_eq_zero s).1 (by omega)
    exact ⟨s, 0, rfl, hq, by omega⟩
  | n+1, s, hp, hm => by
    unfold runCount
    cases hq : s.queue with
    | nil => exact ⟨s, 0, rfl, hq, by omega⟩
    | cons t q =>
      unfold ProperRun at hp
      rw [hq] at hp
      simp only at hp ⊢
      obtain ⟨s1, hs1, _⟩ := step_ok_of_proper cfg s t q hq hp.1
      have hd := step_decreases cfg s s1 (by rw [hq]; simp) hs1
      obtain ⟨s2, k2, h2, hq2, hk2⟩ := run_terminates cfg n s1 (hp.2 s1 hs1) (by omega)
      rw [hs1]
      simp only [h2]
      exact ⟨s2, k2 + 1, rfl, hq2, by omega⟩

theorem properRun_mono (cfg : Cfg) : ∀ (n : Nat) (s : St), ProperRun cfg (n+1) s → ProperRun cfg n s
  | 0, _, _ => trivial
  | n+1, s, h => by
    unfold ProperRun at h ⊢
    split
    · trivial
    · rename_i t q hq
      rw [hq] at h
      exact ⟨h.1, fun s' hs' => properRun_mono cfg n s' (h.2 s' hs')⟩

theorem properRun_le (cfg : Cfg) (n m : Nat) (s : St) (h : ProperRun cfg m s) (hnm : n ≤ m) :
    ProperRun cfg n s := by
  induction m with
  | zero => have : n = 0 := by omega
            subst this; exact h
  | succ m ih =>
    by_cases e : n = m + 1
    · subst e; exact h
    · exact ih (properRun_mono cfg m s h) (by omega)

/-- a run that does not fail was answered properly all along -/
theorem properRun_of_run_ok (cfg : Cfg) : ∀ (n : Nat) (s s' : St), run cfg n s = .ok s' → s'.queue = [] →
    ProperRun cfg n s
  | 0, _, _, _, _ => trivial
  | n+1, s, s', h, hq' => by
    unfold run at h
    unfold ProperRun
    split at h
    · rename_i hq; rw [hq]; trivial
    · rename_i t q hq
      rw [hq]
      simp only
      split at h
      · rename_i s1 hs1
        refine ⟨proper_of_step_ok cfg s s1 t q hq hs1, ?_⟩
        intro s2 hs2
        rw [hs1] at hs2; cases hs2
        exact properRun_of_run_ok cfg n s1 s' h hq'
      · cases h

/-- a finished run is also what `learn` (fuel `script.length + 1`) computes -/
theorem run_script_fuel (cfg : Cfg) : ∀ (n : Nat) (s s' : St), run cfg n s = .ok s' → s'.queue = [] →
    run cfg (s.script.length + 1) s = .ok s'
  | 0, s, s', h, hq => by
    simp [run] at h; subst h; exact run_queue_nil cfg _ s hq
  | n+1, s, s', h, hq => by
    unfold run at h ⊢
    split at h
    · exact h
    · rename_i t q hq'
      split at h
      · rename_i s1 hs1
        have ih := run_script_fuel cfg n s1 s' h hq
        have hl := step_script_lt cfg s s1 (by rw [hq']; simp) hs1
        exact run_mono cfg _ s1 s' ih hq _ (by omega)
      · cases h

/-! ### the machine only looks at the head of the script -/

theorem step_append (cfg : Cfg) (s s' : St) (extra : List Ans) (h : step cfg s = .ok s') :
    step cfg { s with script := s.script ++ extra } = .ok { s' with script := s'.script ++ extra } := by
  cases hq : s.queue with
  | nil =>
    unfold step at h ⊢
    simp only [hq] at h ⊢
    cases h; simp [hq]
  | cons t q =>
    cases hsc : s.script with
    | nil => unfold step at h; simp only [hq, hsc] at h; cases h
    | cons a sc =>
      cases a with
      | rows l => unfold step at h; simp only [hq, hsc] at h; cases h
      | cols l => unfold step at h; simp only [hq, hsc] at h; cases h
      | zeroVar pos =>
        unfold step at h ⊢
        simp only [hq, hsc, cons_append] at h ⊢
        split at h
        · cases h
        · rename_i hany
          rw [if_neg hany]
          cases hop : selectOp cfg t (zvMask pos t.scope.length) with
          | splitNaive => simp only [hop] at h ⊢; cases h; simp [Learn.attach, St.size]
          | remFeatures => simp only [hop] at h ⊢; cases h; simp [Learn.attach, St.size]
          | createLeaf => simp only [hop] at h ⊢; cases h; simp [Learn.attach, St.size]
          | splitRows =>
            simp only [hop] at h ⊢
            split at h
            · rename_i labels sc'
              simp only [cons_append]
              split at h
              · cases h
              · rename_i hlen
                rw [if_neg hlen]
                split at h
                · rename_i hk; rw [if_pos hk]; cases h; rfl
                · rename_i hk; rw [if_neg hk]; cases h; simp [Learn.attach, St.size]
            · cases h
          | splitCols =>
            simp only [hop] at h ⊢
            split at h
            · rename_i labels sc'
              simp only [cons_append]
              split at h
              · cases h
              · rename_i hlen
                rw [if_neg hlen]
                split at h
                · rename_i hk; rw [if_pos hk]; cases h; rfl
                · rename_i hk; rw [if_neg hk]; cases h; simp [Learn.attach, St.size]
            · cases h

theorem properHead_append (cfg : Cfg) (t : Task) (sc extra : List Ans) (h : ProperHead cfg t sc) :
    ProperHead cfg t (sc ++ extra) := by
  cases sc with
  | nil => simp [ProperHead] at h
  | cons a sc =>
    cases a with
    | rows l => simp [ProperHead] at h
    | cols l => simp [ProperHead] at h
    | zeroVar pos =>
      simp only [ProperHead, cons_append] at h ⊢
      refine ⟨h.1, ?_⟩
      have h2 := h.2
      cases hop : selectOp cfg t (zvMask pos t.scope.length) <;> rw [hop] at h2 <;>
        simp only [ProperNext] at h2 ⊢
      · cases sc with
        | nil => simp at h2
        | cons b sc' => cases b <;> simp_all
      · cases sc with
        | nil => simp at h2
        | cons b sc' => cases b <;> simp_all

theorem properRun_append (cfg : Cfg) (extra : List Ans) : ∀ (n : Nat) (s : St), ProperRun cfg n s →
    ProperRun cfg n { s with script := s.script ++ extra }
  | 0, _, _ => trivial
  | n+1, s, h => by
    unfold ProperRun at h ⊢
    simp only
    cases hq : s.queue with
    | nil => trivial
    | cons t q =>
      rw [hq] at h
      simp only at h ⊢
      refine ⟨properHead_append cfg t _ extra h.1, ?_⟩
      intro s2 hs2
      obtain ⟨s1, hs1, _⟩ := step_ok_of_proper cfg s t q hq h.1
      have := step_append cfg s s1 extra hs1
      rw [hq] at this
      rw [this] at hs2
      cases hs2
      exact properRun_append cfg extra n s1 (h.2 s1 hs1)

/-! ### "proper as far as the script goes" + "long enough" ⇒ `ProperRun` -/

/-- like `ProperHead`, but a script that has run out is not blamed: every entry that IS consulted has the
right kind and is proper -/
def ProperHeadE (cfg : Cfg) (t : Task) : List Ans → Prop
  | [] => True
  | .zeroVar pos :: sc =>
      ProperAns t (.zeroVar pos) ∧ (sc = [] ∨ ProperNext t (selectOp cfg t (zvMask pos t.scope.length)) sc)
  | _ => False

/-- every entry of the script that the first `n` iterations consult is of the kind asked for and proper -/
def ProperRunE (cfg : Cfg) : Nat → St → Prop
  | 0, _ => True
  | n+1, s =>
    match s.queue with
    | [] => True
    | t :: _ => ProperHeadE cfg t s.script ∧ ∀ s', step cfg s = .ok s' → ProperRunE cfg n s'

theorem properHead_of_E (cfg : Cfg) (t : Task) (sc : List Ans) (h : ProperHeadE cfg t sc)
    (hl : 2 ≤ sc.length) : ProperHead cfg t sc := by
  cases sc with
  | nil => simp at hl
  | cons a sc =>
    cases a with
    | rows l => simp [ProperHeadE] at h
    | cols l => simp [ProperHeadE] at h
    | zeroVar pos =>
      simp only [ProperHeadE] at h
      refine ⟨h.1, ?_⟩
      rcases h.2 with h2 | h2
      · subst h2; simp at hl
      · exact h2

theorem consumed_le (cfg : Cfg) (t : Task) (sc : List Ans) : consumed cfg t sc ≤ 2 := by
  unfold consumed; split
  · split <;> omega
  · omega

theorem properRun_of_E (cfg : Cfg) : ∀ (n : Nat) (s : St), ProperRunE cfg n s → 2 * n ≤ s.script.length →
    ProperRun cfg n s
  | 0, _, _, _ => trivial
  | n+1, s, h, hl => by
    unfold ProperRunE at h
    unfold ProperRun
    cases hq : s.queue with
    | nil => trivial
    | cons t q =>
      rw [hq] at h
      simp only at h ⊢
      have hp := properHead_of_E cfg t s.script h.1 (by omega)
      refine ⟨hp, ?_⟩
      intro s1 hs1
      obtain ⟨s2, hs2, hdrop⟩ := step_ok_of_proper cfg s t q hq hp
      rw [hs1] at hs2; cases hs2
      refine properRun_of_E cfg n s1 (h.2 s1 hs1) ?_
      rw [hdrop, length_drop]
      have := consumed_le cfg t s.script
      omega

/-! ### oracles -/

/-- the first `L` answers of an infinite oracle -/
def pre (o : Nat → Ans) (L : Nat) : List Ans := (List.range L).map o

/-- **`ProperOracle`**: an infinite oracle `o : ℕ → Ans` (the `j`-th consultation is answered by `o j`) that
is proper at every step it is consulted: for every `n`, the first `n` iterations (which consult at most `2n`
answers) are all answered properly. -/
def ProperOracle (cfg : Cfg) (nRows nCols : Nat) (o : Nat → Ans) : Prop :=
  ∀ n, ProperRun cfg n (init nRows nCols (pre o (2 * n)))

theorem pre_getD (S : List Ans) (d : Ans) (L : Nat) (h : S.length ≤ L) :
    pre (fun j => S.getD j d) L = S ++ List.replicate (L - S.length) d := by
  apply List.ext_getElem
  · simp [pre]; omega
  · intro i h1 h2
    simp only [pre, getElem_map, getElem_range]
    by_cases hi : i < S.length
    · rw [getElem_append_left hi]; simp [List.getD, hi]
    · rw [getElem_append_right (by omega)]; simp [List.getD]
      rw [getElem?_eq_none (by omega)]; rfl

/-- a finite script on which the machine finishes within `N` iterations, padded with anything, is a proper
infinite oracle (the finitely many short prefixes are checked separately — by evaluation on instances) -/
theorem properOracle_of_script (cfg : Cfg) (nRows nCols : Nat) (S : List Ans) (d : Ans) (N : Nat)
    (hfin : ∃ s', run cfg N (init nRows nCols S) = .ok s' ∧ s'.queue = []) (hlen : S.length ≤ 2 * N)
    (hsmall : ∀ n, n < N → ProperRun cfg n (init nRows nCols (pre (fun j => S.getD j d) (2 * n)))) :
    ProperOracle cfg nRows nCols (fun j => S.getD j d) := by
  intro n
  by_cases hn : n < N
  · exact hsmall n hn
  · obtain ⟨s', h1, h2⟩ := hfin
    rw [pre_getD S d (2 * n) (by omega)]
    have hr := run_mono cfg N _ s' h1 h2 n (by omega)
    exact properRun_append cfg _ n (init nRows nCols S) (properRun_of_run_ok cfg n _ s' hr h2)

/-- a SPLITTER-LEVEL oracle: what the variance test, the row splitter and the column splitter return when
they are called in loop iteration `k` on the slice of task `t` (any dependence on the iteration index, e.g.
through the shared `random_state`, is allowed) -/
structure Oracle where
  zv : Nat → Task → List Nat
  rows : Nat → Task → List Int
  cols : Nat → Task → List Int

/-- every answer has the right shape for the slice it is asked about — nothing else is assumed -/
def Oracle.Proper (O : Oracle) : Prop :=
  ∀ k t, ProperAns t (.zeroVar (O.zv k t)) ∧ ProperAns t (.rows (O.rows k t)) ∧ ProperAns t (.cols (O.cols k t))

/-- the consultations of iteration `k` on task `t`, in the order the code makes them -/
def Oracle.answers (cfg : Cfg) (O : Oracle) (k : Nat) (t : Task) : List Ans :=
  match selectOp cfg t (zvMask (O.zv k t) t.scope.length) with
  | .splitRows => [.zeroVar (O.zv k t), .rows (O.rows k t)]
  | .splitCols => [.zeroVar (O.zv k t), .cols (O.cols k t)]
  | _ => [.zeroVar (O.zv k t)]

/-- the script the oracle produces during `n` iterations from state `s`, starting at iteration index `k` -/
def Oracle.transcript (cfg : Cfg) (O : Oracle) : Nat → Nat → St → List Ans
  | 0, _, _ => []
  | n+1, k, s =>
    match s.queue with
    | [] => []
    | t :: _ =>
      match step cfg { s with script := O.answers cfg k t } with
      | .ok s' => O.answers cfg k t ++ Oracle.transcript cfg O n (k+1) s'
      | .error _ => O.answers cfg k t

theorem Oracle.answers_proper (cfg : Cfg) (O : Oracle) (hO : O.Proper) (k : Nat) (t : Task) :
    ProperHead cfg t (O.answers cfg k t) ∧ consumed cfg t (O.answers cfg k t) = (O.answers cfg k t).length := by
  obtain ⟨h1, h2, h3⟩ := hO k t
  unfold Oracle.answers
  cases hop : selectOp cfg t (zvMask (O.zv k t) t.scope.length) <;>
    simp only [ProperHead, consumed, hop, ProperNext, h1, h2, h3, and_self, length_cons, length_nil]

/-- **the machine fed by a proper splitter-level oracle halts**: after at most `measure s` iterations the
deque is empty and the transcript is consumed exactly. -/
theorem Oracle.transcript_run (cfg : Cfg) (O : Oracle) (hO : O.Proper) : ∀ (n k : Nat) (s : St),
    measure s ≤ n →
    ∃ s' j, runCount cfg n { s with script := O.transcript cfg n k s } = .ok (s', j) ∧ s'.queue = [] ∧
      s'.script = [] ∧ j ≤ measure s
  | 0, k, s, hm => by
    have hq : s.queue = [] := (measure_eq_zero s).1 (by omega)
    exact ⟨_, 0, rfl, hq, rfl, by omega⟩
  | n+1, k, ⟨nodes, [], script⟩, hm => ⟨_, 0, rfl, rfl, rfl, by omega⟩
  | n+1, k, ⟨nodes, t :: q, script⟩, hm => by
    unfold Oracle.transcript runCount
    simp only
    obtain ⟨hp, hc⟩ := O.answers_proper cfg hO k t
    obtain ⟨s1, hs1, hdrop⟩ := step_ok_of_proper cfg ⟨nodes, t :: q, O.answers cfg k t⟩ t q rfl hp
    have hs1' : s1.script = [] := by rw [hdrop]; simp only; rw [hc]; simp
    rw [hs1]
    simp only
    have hd : measure s1 < measure ⟨nodes, t :: q, script⟩ :=
      step_decreases cfg ⟨nodes, t :: q, O.answers cfg k t⟩ s1 (by simp) hs1
    have happ := step_append cfg ⟨nodes, t :: q, O.answers cfg k t⟩ s1
      (Oracle.transcript cfg O n (k+1) s1) hs1
    simp only [hs1', nil_append] at happ
    rw [happ]
    simp only
    obtain ⟨s2, j, h2, hq2, hsc2, hj⟩ := Oracle.transcript_run cfg O hO n (k+1) s1 (by omega)
    rw [h2]
    exact ⟨s2, j + 1, rfl, hq2, hsc2, by omega⟩

end Deeprob.LearnTerm
