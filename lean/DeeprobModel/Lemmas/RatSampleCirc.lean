import DeeprobModel.Model.RatSample
import DeeprobModel.Lemmas.TensorCirc
import DeeprobModel.Lemmas.LeafTopDown
set_option linter.unusedSimpArgs false
set_option linter.unusedVariables false
set_option linter.unusedSectionVars false
/-
C16 (sampling / MPE clause), part 1: the `TCirc` unrolling of `Model/RatSample.lean` is the circuit
`RatSpn.unroll` with top-down data; the layer-wise forward tables are the values of its nodes.
-/
namespace Deeprob
namespace RatSample
open RatSpn TCirc Tensor

section rel
variable {α : Type} [Zero α] [One α] [Add α] [Mul α] [LT α] [DecidableLT α]

/-- a table of `TCirc`s forgets to a table of `Circ`s -/
def Rel (TT : Tab (TCirc α)) (T : Table α) : Prop :=
  TT.groups = T.groups ∧ TT.nodes = T.nodes ∧ ∀ i t, (TT.at_ i t).toCirc = T.at_ i t

theorem toCirc_dummyT : (dummyT : TCirc α).toCirc = dummy := by simp [dummyT, toCirc, dummy]

theorem toCirc_baseNodeT (lf : Nat → Nat → Nat → Ev → α) (tbl : Nat → List α) (mrow : List Nat)
    (prow : List Bool) (r : List Nat) (i c : Nat)
    (hlf : ∀ k, lf i c k = Circ.catLeafFn (mrow.getD k 0) (tbl k)) :
    (baseNodeT tbl mrow prow r).toCirc = baseNode lf mrow prow r i c := by
  unfold baseNodeT baseNode
  simp only [toCirc, List.map_map]
  congr 1
  apply List.map_congr_left
  intro k _
  simp only [Function.comp]
  split
  · exact toCirc_dummyT
  · simp [bernT, toCirc, hlf k]

theorem rel_base (S : Spec α) :
    Rel (baseT S) (baseTable (lfOf S) S.n S.depth S.regs S.batch) := by
  refine ⟨rfl, rfl, ?_⟩
  intro i c
  exact toCirc_baseNodeT (lfOf S) (S.tbl i c) (S.mrow i) (S.prow i) _ i c (fun k => rfl)

theorem rel_prod {TT : Tab (TCirc α)} {T : Table α} (h : Rel TT T) : Rel (prodT TT) (prodTable T) := by
  obtain ⟨hg, hn, hat⟩ := h
  refine ⟨by simp [prodT, prodTable, hg], by simp [prodT, prodTable, hn], ?_⟩
  intro j t
  simp only [prodT, prodTable, toCirc, List.map_cons, List.map_nil, hn, hat]
  rw [← hat, ← hat, scope_toCirc, scope_toCirc]

theorem rel_sum {TT : Tab (TCirc α)} {T : Table α} (w : Nat → Nat → List α) (out : Nat) (h : Rel TT T) :
    Rel (sumT w out TT) (sumTable w out T) := by
  obtain ⟨hg, hn, hat⟩ := h
  refine ⟨by simp [sumT, sumTable, hg], rfl, ?_⟩
  intro j o
  simp only [sumT, sumTable, toCirc, List.map_map, hn]
  rw [← hat j 0, scope_toCirc]
  congr 1
  apply List.map_congr_left
  intro t _
  exact hat j t

theorem rel_inner (w : Nat → Nat → Nat → List α) (rgSum : Nat) :
    ∀ (k l : Nat) (TT : Tab (TCirc α)) (T : Table α), Rel TT T →
      Rel (innerT w rgSum k l TT) (innerTables w rgSum k l T)
  | 0, _, _, _, h => by simpa [innerT, innerTables] using h
  | 1, _, _, _, h => by simpa [innerT, innerTables] using rel_prod h
  | k + 2, l, TT, T, h => by
      simp only [innerT, innerTables]
      exact rel_inner w rgSum (k + 1) (l + 1) _ _ (rel_sum (w l) rgSum (rel_prod h))

theorem toCirc_rootT (wroot : List α) (n : Nat) {TT : Tab (TCirc α)} {T : Table α} (h : Rel TT T) :
    (rootT wroot n TT).toCirc = rootNode wroot n T := by
  obtain ⟨hg, hn, hat⟩ := h
  unfold rootT rootNode flat
  simp only [toCirc, List.map_flatMap, List.map_map, hg, hn]
  congr 1
  apply List.flatMap_congr
  intro g _
  apply List.map_congr_left
  intro t _
  exact hat g t

/-- **the `TCirc` unrolling forgets to `RatSpn.unroll`** -/
theorem unrollT_toCirc (S : Spec α) (y : Nat) : (unrollT S y).toCirc = circ S y := by
  unfold unrollT circ unroll
  exact toCirc_rootT _ _ (rel_inner S.w S.rgSum S.depth 0 _ _ (rel_base S))

theorem unrollT_scope (S : Spec α) (y : Nat) : (unrollT S y).scope = List.range S.n := rfl

end rel

/-! ### the forward tables are the node values -/
section aligned
variable {α : Type} [CommSemiring α] [LT α] [DecidableLT α]

/-- the value table `V` holds the values of the nodes of `TT` under evidence `e` -/
def Aligned (e : Ev) (TT : Tab (TCirc α)) (V : Tab α) : Prop :=
  TT.groups = V.groups ∧ TT.nodes = V.nodes ∧ ∀ g t, TCirc.eval e (TT.at_ g t) = V.at_ g t

theorem eval_dummyT (e : Ev) : TCirc.eval e (dummyT : TCirc α) = 1 := by
  unfold dummyT; rw [TCirc.eval_leaf]

theorem eval_bernT (e : Ev) (v : Nat) (tbl : List α) : TCirc.eval e (bernT v tbl) = Circ.catLeafFn v tbl e := by
  unfold bernT; rw [TCirc.eval_leaf]

theorem aligned_base (S : Spec α) (e : Ev) : Aligned e (baseT S) (baseVal S e) := by
  refine ⟨rfl, rfl, ?_⟩
  intro i c
  simp only [baseT, baseVal, baseNodeT]
  rw [TCirc.eval_prod, List.map_map]
  congr 1
  apply List.map_congr_left
  intro k _
  simp only [Function.comp]
  split
  · exact eval_dummyT e
  · exact eval_bernT e _ _

theorem aligned_prod {e : Ev} {TT : Tab (TCirc α)} {V : Tab α} (h : Aligned e TT V) :
    Aligned e (prodT TT) (prodVal V) := by
  obtain ⟨hg, hn, hat⟩ := h
  refine ⟨by simp [prodT, prodVal, hg], by simp [prodT, prodVal, hn], ?_⟩
  intro j t
  simp only [prodT, prodVal]
  rw [TCirc.eval_prod]
  simp [lprod, hat, hn]

theorem aligned_sum {e : Ev} {TT : Tab (TCirc α)} {V : Tab α} (w : Nat → Nat → List α) (out : Nat)
    (h : Aligned e TT V) : Aligned e (sumT w out TT) (sumVal w out V) := by
  obtain ⟨hg, hn, hat⟩ := h
  refine ⟨by simp [sumT, sumVal, hg], rfl, ?_⟩
  intro j o
  simp only [sumT, sumVal]
  rw [TCirc.eval_sum, List.map_map, hn]
  congr 1
  apply List.map_congr_left
  intro t _
  exact hat j t

theorem aligned_inner (e : Ev) (w : Nat → Nat → Nat → List α) (rgSum : Nat) :
    ∀ (k l : Nat) (TT : Tab (TCirc α)) (V : Tab α), Aligned e TT V →
      Aligned e (innerT w rgSum k l TT) (innerVal w rgSum k l V)
  | 0, _, _, _, h => by simpa [innerT, innerVal] using h
  | 1, _, _, _, h => by simpa [innerT, innerVal] using aligned_prod h
  | k + 2, l, TT, V, h => by
      simp only [innerT, innerVal]
      exact aligned_inner e w rgSum (k + 1) (l + 1) _ _ (aligned_sum (w l) rgSum (aligned_prod h))

theorem flat_map_eval {e : Ev} {TT : Tab (TCirc α)} {V : Tab α} (h : Aligned e TT V) :
    (flat TT).map (TCirc.eval e) = flat V := by
  obtain ⟨hg, hn, hat⟩ := h
  unfold flat
  rw [List.map_flatMap, hg, hn]
  apply List.flatMap_congr
  intro g _
  rw [List.map_map]
  apply List.map_congr_left
  intro t _
  exact hat g t

theorem aligned_top (S : Spec α) (e : Ev) :
    Aligned e (innerT S.w S.rgSum S.depth 0 (baseT S)) (topVal S e) :=
  aligned_inner e S.w S.rgSum S.depth 0 _ _ (aligned_base S e)

/-- the layer-wise forward pass computes the value of the unrolled circuit -/
theorem forward_eq_eval (S : Spec α) (y : Nat) (e : Ev) : forward S y e = TCirc.eval e (unrollT S y) := by
  unfold forward rootVal unrollT rootT
  rw [TCirc.eval_sum, flat_map_eval (aligned_top S e)]

end aligned

end RatSample
end Deeprob
