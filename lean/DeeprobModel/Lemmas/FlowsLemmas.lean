import DeeprobModel.Spec.FlowSpec
import DeeprobModel.Lemmas.SumLemmas
import Mathlib.Tactic.Ring
import Mathlib.Tactic.Linarith
import Mathlib.Tactic.FieldSimp
import Mathlib.Tactic.LinearCombination
import Mathlib.Data.List.Basic
import Mathlib.Data.List.GetD
import Mathlib.Data.List.Nodup
import Mathlib.Data.List.Range
import Mathlib.Data.List.Perm.Basic
import Mathlib.Algebra.Ring.Defs
import Mathlib.Algebra.Field.Basic
import Mathlib.Algebra.Order.Field.Basic
/-
Helper lemmas for property C15 (normalizing flows).
-/
namespace Deeprob.Flows

/-! ### 1. MADE masks -/

theorem entry_map (d1 d2 : List Nat) (p : Nat → Nat → Bool) (o i : Nat) :
    entry (d2.map (fun b => d1.map (fun a => p a b))) o i = true →
    i < d1.length ∧ o < d2.length ∧ p (d1.getD i 0) (d2.getD o 0) = true := by
  intro h
  unfold entry at h
  by_cases ho : o < d2.length
  · by_cases hi : i < d1.length
    · refine ⟨hi, ho, ?_⟩
      simpa [List.getD, ho, hi] using h
    · simp [List.getD, ho, hi] at h
  · simp [List.getD, ho] at h

theorem entry_maskLE {d1 d2 : List Nat} {o i : Nat} (h : entry (maskLE d1 d2) o i = true) :
    i < d1.length ∧ o < d2.length ∧ d1.getD i 0 ≤ d2.getD o 0 := by
  have := entry_map d1 d2 (fun a b => decide (a ≤ b)) o i h
  simpa using this

theorem entry_maskLT {d1 d2 : List Nat} {o i : Nat} (h : entry (maskLT d1 d2) o i = true) :
    i < d1.length ∧ o < d2.length ∧ d1.getD i 0 < d2.getD o 0 := by
  have := entry_map d1 d2 (fun a b => decide (a < b)) o i h
  simpa using this

theorem reach_chain (d0 : List Nat) (i : Nat) : ∀ (rest : List (List Nat)) (d : List Nat) (j : Nat),
    Reach (List.zipWith maskLE (d :: rest) rest ++ [maskLT ((d :: rest).getLastD []) d0]) j i →
    j < d.length ∧ i < d0.length ∧ d.getD j 0 < d0.getD i 0 := by
  intro rest
  induction rest with
  | nil =>
    intro d j h
    simp only [List.zipWith_nil_right, List.nil_append, Reach] at h
    obtain ⟨k, hk, rfl⟩ := h
    have := entry_maskLT hk
    simpa using this
  | cons e rest ih =>
    intro d j h
    simp only [List.zipWith_cons_cons, List.cons_append, Reach] at h
    obtain ⟨k, hk, hr⟩ := h
    have h1 := entry_maskLE hk
    have hl : (d :: e :: rest).getLastD [] = (e :: rest).getLastD [] := by simp
    rw [hl] at hr
    have h2 := ih e k hr
    exact ⟨h1.1, h2.2.1, lt_of_le_of_lt h1.2.2 h2.2.2⟩

theorem entry_lt_length {M : List (List Bool)} {o i : Nat} (h : entry M o i = true) : o < M.length := by
  unfold entry at h
  by_contra ho
  simp [List.getD, ho] at h

theorem reachB_iff : ∀ (Ms : List (List (List Bool))) (j i : Nat), reachB Ms j i = true ↔ Reach Ms j i := by
  intro Ms
  induction Ms with
  | nil => intro j i; simp [reachB, Reach]
  | cons M Ms ih =>
    intro j i
    simp only [reachB, Reach, List.any_eq_true, List.mem_range, Bool.and_eq_true]
    constructor
    · rintro ⟨k, _, hk, hr⟩; exact ⟨k, hk, (ih k i).1 hr⟩
    · rintro ⟨k, hk, hr⟩; exact ⟨k, entry_lt_length hk, hk, (ih k i).2 hr⟩

/-- Dependency through a stack of layers respecting their masks. -/
theorem chainLayers_depends {α : Type} :
    ∀ (fs : List ((Nat → α) → (Nat → α))) (Ms : List (List (List Bool))),
      List.Forall₂ RespectsMask fs Ms →
      ∀ (x x' : Nat → α) (i : Nat), (∀ j, Reach Ms j i → x j = x' j) →
        chainLayers fs x i = chainLayers fs x' i := by
  intro fs Ms h
  induction h with
  | nil => intro x x' i hx; exact hx i rfl
  | @cons f M fs Ms hf _ ih =>
    intro x x' i hx
    show chainLayers fs (f x) i = chainLayers fs (f x') i
    apply ih
    intro k hk
    apply hf
    intro j hj
    exact hx j ⟨k, hj, hk⟩

theorem sumVar_congr' {α : Type} [Zero α] [Add α] (n : Nat) (f g : Nat → α) (h : ∀ k, k < n → f k = g k) :
    sumVar n f = sumVar n g := by
  unfold sumVar
  have : ∀ l : List Nat, (∀ k ∈ l, f k = g k) →
      l.foldr (fun k acc => f k + acc) 0 = l.foldr (fun k acc => g k + acc) 0 := by
    intro l
    induction l with
    | nil => intro _; rfl
    | cons a l ih =>
      intro hl
      simp only [List.foldr_cons]
      rw [hl a (by simp), ih (fun k hk => hl k (by simp [hk]))]
  exact this _ (fun k hk => h k (List.mem_range.1 hk))

theorem maskedLinear_respects {α : Type} [MulZeroClass α] [Add α] (M : List (List Bool)) (nin : Nat)
    (W : Nat → Nat → α) (b : Nat → α) : RespectsMask (maskedLinear M nin W b) M := by
  intro x x' o h
  unfold maskedLinear
  congr 1
  apply sumVar_congr'
  intro i _
  by_cases hm : entry M o i = true
  · simp [hm, h i hm]
  · simp [hm]

theorem respects_activation {α : Type} (act : α → α) (f : (Nat → α) → (Nat → α)) (M : List (List Bool))
    (h : RespectsMask f M) : RespectsMask (fun x o => act (f x o)) M := by
  intro x x' o hx
  show act (f x o) = act (f x' o)
  rw [h x x' o hx]

theorem entry_tile (M : List (List Bool)) (o j : Nat) (h : entry (tileMask M) o j = true) :
    entry M (if o < M.length then o else o - M.length) j = true := by
  unfold entry tileMask at *
  by_cases ho : o < M.length
  · simp only [ho, if_true]
    rwa [List.getD_append _ _ _ _ ho] at h
  · simp only [ho, if_false]
    rwa [List.getD_append_right _ _ _ _ (Nat.le_of_not_lt ho)] at h

theorem reach_tile (M : List (List Bool)) (o : Nat) : ∀ (Hs : List (List (List Bool))) (j : Nat),
    Reach (Hs ++ [tileMask M]) j o → Reach (Hs ++ [M]) j (if o < M.length then o else o - M.length) := by
  intro Hs
  induction Hs with
  | nil =>
    intro j h
    simp only [List.nil_append, Reach] at h ⊢
    obtain ⟨k, hk, rfl⟩ := h
    exact ⟨_, entry_tile M k j hk, rfl⟩
  | cons H Hs ih =>
    intro j h
    simp only [List.cons_append, Reach] at h ⊢
    obtain ⟨k, hk, hr⟩ := h
    exact ⟨k, hk, ih k hr⟩


/-- Masks theorem on `buildMasks`. -/
theorem reach_buildMasks (d0 : List Nat) (rest : List (List Nat)) (j i : Nat)
    (h : Reach (buildMasks (d0 :: rest)) j i) :
    j < d0.length ∧ i < d0.length ∧ d0.getD j 0 < d0.getD i 0 := by
  unfold buildMasks at h
  simp only [List.tail_cons, List.headD_cons] at h
  exact reach_chain d0 i rest d0 j h

theorem maskLT_length (a b : List Nat) : (maskLT a b).length = b.length := by simp [maskLT]

theorem conditioner_heads_autoregressive {α : Type} (d0 : List Nat) (rest : List (List Nat))
    (fs : List ((Nat → α) → (Nat → α)))
    (hfs : List.Forall₂ RespectsMask fs (conditionerMasks (d0 :: rest))) :
    Autoregressive d0.length (fun j => d0.getD j 0) (fun x i => chainLayers fs x i) ∧
    Autoregressive d0.length (fun j => d0.getD j 0) (fun x i => chainLayers fs x (d0.length + i)) := by
  have key : ∀ o j, Reach (conditionerMasks (d0 :: rest)) j o →
      Reach (buildMasks (d0 :: rest)) j (if o < d0.length then o else o - d0.length) := by
    intro o j h
    have := reach_tile (maskLT ((d0 :: rest).getLastD []) d0) o _ j h
    rw [maskLT_length] at this
    exact this
  constructor
  · intro i hi x x' hx
    apply chainLayers_depends fs _ hfs
    intro j hj
    have := reach_buildMasks d0 rest j _ (key i j hj)
    simp only [hi, if_true] at this
    exact hx j this.1 this.2.2
  · intro i hi x x' hx
    apply chainLayers_depends fs _ hfs
    intro j hj
    have := reach_buildMasks d0 rest j _ (key (d0.length + i) j hj)
    have hn : ¬ (d0.length + i < d0.length) := by omega
    simp only [hn, if_false, Nat.add_sub_cancel_left] at this
    exact hx j this.1 this.2.2

/-! ### invOrdering -/

theorem invOrdering_props (ordering : List Nat) (n : Nat) (hp : ordering.Perm (List.range n)) :
    (invOrdering ordering).Nodup ∧
    (∀ i, i ∈ invOrdering ordering ↔ i < n) ∧
    (invOrdering ordering).Pairwise (fun a b => ordering.getD a 0 ≤ ordering.getD b 0) := by
  have hlen : ordering.length = n := by simpa using hp.length_eq
  have hnd : ordering.Nodup := hp.nodup_iff.2 List.nodup_range
  have hmem : ∀ k, k ∈ ordering ↔ k < n := fun k => by rw [hp.mem_iff, List.mem_range]
  have hget : ∀ k, k < n → ∃ h : ordering.idxOf k < ordering.length, ordering[ordering.idxOf k] = k := by
    intro k hk
    have h := List.idxOf_lt_length_iff.2 ((hmem k).2 hk)
    exact ⟨h, List.getElem_idxOf h⟩
  have hdeg : ∀ k, k < n → ordering.getD (ordering.idxOf k) 0 = k := by
    intro k hk
    obtain ⟨h, e⟩ := hget k hk
    simp [List.getD, h, e]
  unfold invOrdering
  rw [hlen]
  refine ⟨?_, ?_, ?_⟩
  · apply List.Nodup.map_on _ List.nodup_range
    intro a ha b hb hab
    rw [List.mem_range] at ha hb
    have := hdeg a ha
    rw [hab, hdeg b hb] at this
    exact this.symm
  · intro i
    simp only [List.mem_map, List.mem_range]
    constructor
    · rintro ⟨k, hk, rfl⟩
      obtain ⟨h, _⟩ := hget k hk
      omega
    · intro hi
      have hi' : i < ordering.length := by omega
      refine ⟨ordering[i], (hmem _).1 (List.getElem_mem hi'), ?_⟩
      exact hnd.idxOf_getElem i hi'
  · rw [List.pairwise_map]
    apply List.Pairwise.imp_of_mem _ List.pairwise_lt_range
    intro a b ha hb hab
    rw [List.mem_range] at ha hb
    rw [hdeg a ha, hdeg b hb]
    omega

/-! ### 2. MAF -/
section MafLoop
variable {α : Type} [Add α] [Mul α]

theorem mafLoop_spec (g : α → α) (deg : Nat → Nat) (n : Nat) (t s : (Nat → α) → Nat → α)
    (ht : Autoregressive n deg t) (hs : Autoregressive n deg s) (u : Nat → α) :
    ∀ (order : List Nat) (x0 l0 : Nat → α), order.Nodup →
      order.Pairwise (fun a b => deg a ≤ deg b) → (∀ i ∈ order, i < n) →
      (∀ i ∈ order, (mafLoop g t s u order (x0, l0)).1 i
            = u i * g (s (mafLoop g t s u order (x0, l0)).1 i) + t (mafLoop g t s u order (x0, l0)).1 i
          ∧ (mafLoop g t s u order (x0, l0)).2 i = s (mafLoop g t s u order (x0, l0)).1 i) ∧
      (∀ i, i ∉ order → (mafLoop g t s u order (x0, l0)).1 i = x0 i ∧
          (mafLoop g t s u order (x0, l0)).2 i = l0 i) := by
  intro order
  induction order with
  | nil => intro x0 l0 _ _ _; simp [mafLoop]
  | cons i rest ih =>
    intro x0 l0 hnd hpw hn
    rw [List.nodup_cons] at hnd
    rw [List.pairwise_cons] at hpw
    have hin : i < n := hn i (by simp)
    simp only [mafLoop]
    obtain ⟨ih1, ih2⟩ := ih (upd x0 i (u i * g (s x0 i) + t x0 i)) (upd l0 i (s x0 i)) hnd.2 hpw.2
      (fun k hk => hn k (by simp [hk]))
    generalize mafLoop g t s u rest (upd x0 i (u i * g (s x0 i) + t x0 i), upd l0 i (s x0 i)) = r at ih1 ih2
    have hagree : ∀ j, j < n → deg j < deg i → r.1 j = x0 j := by
      intro j _ hdj
      have hji : j ≠ i := by rintro rfl; exact lt_irrefl _ hdj
      have hjr : j ∉ rest := fun hj => absurd (hpw.1 j hj) (by omega)
      rw [(ih2 j hjr).1]
      simp [upd, hji]
    have es : s r.1 i = s x0 i := hs i hin _ _ hagree
    have et : t r.1 i = t x0 i := ht i hin _ _ hagree
    constructor
    · intro k hk
      rcases List.mem_cons.1 hk with rfl | hk
      · obtain ⟨a, b⟩ := ih2 k hnd.1
        rw [a, b, es, et]
        simp [upd]
      · exact ih1 k hk
    · intro k hk
      rw [List.mem_cons, not_or] at hk
      obtain ⟨a, b⟩ := ih2 k hk.2
      rw [a, b]
      simp [upd, hk.1]

theorem maf_fixpoint_unique (g : α → α) (deg : Nat → Nat) (n : Nat) (t s : (Nat → α) → Nat → α)
    (ht : Autoregressive n deg t) (hs : Autoregressive n deg s) (u x y : Nat → α)
    (hx : ∀ i, i < n → x i = u i * g (s x i) + t x i)
    (hy : ∀ i, i < n → y i = u i * g (s y i) + t y i) : ∀ i, i < n → x i = y i := by
  have : ∀ d i, i < n → deg i = d → x i = y i := by
    intro d
    induction d using Nat.strong_induction_on with
    | _ d ih =>
      intro i hi hd
      have hag : ∀ j, j < n → deg j < deg i → x j = y j := fun j hj hdj => ih (deg j) (hd ▸ hdj) j hj rfl
      rw [hx i hi, hy i hi, hs i hi x y hag, ht i hi x y hag]
  exact fun i hi => this (deg i) i hi rfl

end MafLoop

section MafField
variable {F : Type} [Field F] [LinearOrder F] (E : ExpLog F)

theorem exp_mul_exp_neg (a : F) : E.exp a * E.exp (-a) = 1 := by
  rw [← E.exp_add, add_neg_cancel, E.exp_zero]

theorem exp_neg_mul_exp (a : F) : E.exp (-a) * E.exp a = 1 := by
  rw [mul_comm, exp_mul_exp_neg]

theorem exp_ne_zero (a : F) : E.exp a ≠ 0 := fun h => by
  have := exp_mul_exp_neg E a
  rw [h, zero_mul] at this
  exact zero_ne_one this

end MafField

section MafMain
variable {F : Type} [Field F] [LinearOrder F] (E : ExpLog F)
variable (deg : Nat → Nat) (n : Nat) (t s : (Nat → F) → Nat → F)
variable (ht : Autoregressive n deg t) (hs : Autoregressive n deg s)
variable (order : List Nat) (hnd : order.Nodup) (hpw : order.Pairwise (fun a b => deg a ≤ deg b))
variable (hmem : ∀ i, i ∈ order ↔ i < n)
include ht hs hnd hpw hmem

/-- The sequential loop of `apply_forward` ends in a solution of `x = u ⊙ exp(s(x)) + t(x)`. -/
theorem mafForward_fixpoint (u : Nat → F) (i : Nat) (hi : i < n) :
    (mafForward E.exp n order t s u).1 i
      = u i * E.exp (s (mafForward E.exp n order t s u).1 i) + t (mafForward E.exp n order t s u).1 i := by
  have := (mafLoop_spec E.exp deg n t s ht hs u order (fun _ => 0) (fun _ => 0) hnd hpw
    (fun i hi => (hmem i).1 hi)).1 i ((hmem i).2 hi)
  exact this.1

theorem mafForward_ldj (u : Nat → F) :
    (mafForward E.exp n order t s u).2 = sumVar n (s (mafForward E.exp n order t s u).1) := by
  show sumVar n _ = _
  apply sumVar_congr'
  intro i hi
  exact ((mafLoop_spec E.exp deg n t s ht hs u order (fun _ => 0) (fun _ => 0) hnd hpw
    (fun i hi => (hmem i).1 hi)).1 i ((hmem i).2 hi)).2

/-- `apply_backward (apply_forward u) = u`. -/
theorem maf_backward_forward' (u : Nat → F) (i : Nat) (hi : i < n) :
    (mafBackward E.exp n t s (mafForward E.exp n order t s u).1).1 i = u i := by
  show ((mafForward E.exp n order t s u).1 i - _) * _ = _
  rw [mafForward_fixpoint E deg n t s ht hs order hnd hpw hmem u i hi]
  generalize (mafForward E.exp n order t s u).1 = x
  rw [add_sub_cancel_right, mul_assoc, exp_mul_exp_neg, mul_one]

/-- `apply_forward (apply_backward x) = x`. -/
theorem maf_forward_backward' (x : Nat → F) (i : Nat) (hi : i < n) :
    (mafForward E.exp n order t s (mafBackward E.exp n t s x).1).1 i = x i := by
  apply maf_fixpoint_unique E.exp deg n t s ht hs (mafBackward E.exp n t s x).1 _ x _ _ i hi
  · intro k hk
    exact mafForward_fixpoint E deg n t s ht hs order hnd hpw hmem _ k hk
  · intro k _
    show x k = (x k - t x k) * E.exp (-(s x k)) * E.exp (s x k) + t x k
    rw [mul_assoc, exp_neg_mul_exp, mul_one, sub_add_cancel]

/-- Reported log-dets: backward at the forward image is the negative of forward. -/
theorem maf_ldj_antisymm_fwd (u : Nat → F) :
    (mafBackward E.exp n t s (mafForward E.exp n order t s u).1).2
      = -(mafForward E.exp n order t s u).2 := by
  rw [mafForward_ldj E deg n t s ht hs order hnd hpw hmem u]
  rfl

/-- Reported log-dets: forward at the backward image is the negative of backward. -/
theorem maf_ldj_antisymm_bwd (x : Nat → F) :
    (mafForward E.exp n order t s (mafBackward E.exp n t s x).1).2
      = -(mafBackward E.exp n t s x).2 := by
  rw [mafForward_ldj E deg n t s ht hs order hnd hpw hmem]
  show _ = - -(sumVar n (s x))
  rw [neg_neg]
  apply sumVar_congr'
  intro i hi
  apply hs i hi
  intro j hj _
  exact maf_forward_backward' E deg n t s ht hs order hnd hpw hmem x j hj

end MafMain

/-! ### 3. coupling -/
section MaskVal
variable {F : Type} [Field F]

theorem maskVal_true {m : Nat → Bool} {k : Nat} (h : m k = true) : (maskVal m k : F) = 1 := by
  simp [maskVal, h]
theorem maskVal_false {m : Nat → Bool} {k : Nat} (h : m k = false) : (maskVal m k : F) = 0 := by
  simp [maskVal, h]
theorem invMaskVal_true {m : Nat → Bool} {k : Nat} (h : m k = true) : (invMaskVal m k : F) = 0 := by
  simp [invMaskVal, maskVal, h]
theorem invMaskVal_false {m : Nat → Bool} {k : Nat} (h : m k = false) : (invMaskVal m k : F) = 1 := by
  simp [invMaskVal, maskVal, h]

/-- `mask * inv_mask = 0`, `mask + inv_mask = 1`: the two buffers are complementary 0/1 vectors. -/
theorem maskVal_complementary (m : Nat → Bool) (k : Nat) :
    (maskVal m k : F) * invMaskVal m k = 0 ∧ (maskVal m k : F) + invMaskVal m k = 1 ∧
    ((maskVal m k : F) = 0 ∨ (maskVal m k : F) = 1) := by
  cases h : m k <;> simp [invMaskVal, maskVal, h]

end MaskVal

section Coupling
variable {F : Type} [Field F] [LinearOrder F] (E : ExpLog F)

theorem exp_neg_zero : E.exp (-0) = 1 := by rw [neg_zero, E.exp_zero]

/-- The conditioner sees the same masked input before and after the backward transformation. -/
theorem coupling_masked_bwd (affine : Bool) (n : Nat) (m : Nat → Bool) (T S : (Nat → F) → Nat → F)
    (x : Nat → F) :
    (fun k => maskVal m k * (couplingBackward E.exp affine n m T S x).1 k) = fun k => maskVal m k * x k := by
  funext k
  cases affine <;> cases h : m k <;>
    simp [couplingBackward, maskVal_true, maskVal_false, invMaskVal_true, invMaskVal_false, h, E.exp_zero]

theorem coupling_masked_fwd (affine : Bool) (n : Nat) (m : Nat → Bool) (T S : (Nat → F) → Nat → F)
    (u : Nat → F) :
    (fun k => maskVal m k * (couplingForward E.exp affine n m T S u).1 k) = fun k => maskVal m k * u k := by
  funext k
  cases affine <;> cases h : m k <;>
    simp [couplingForward, maskVal_true, maskVal_false, invMaskVal_true, invMaskVal_false, h, E.exp_zero]

theorem coupling_forward_backward' (affine : Bool) (n : Nat) (m : Nat → Bool)
    (T S : (Nat → F) → Nat → F) (x : Nat → F) :
    (couplingForward E.exp affine n m T S (couplingBackward E.exp affine n m T S x).1).1 = x := by
  have hm := coupling_masked_bwd E affine n m T S x
  funext k
  cases affine
  · simp only [couplingForward, Bool.false_eq_true, if_false]
    rw [hm]
    simp [couplingBackward]
  · simp only [couplingForward, if_true]
    rw [hm]
    simp only [couplingBackward, if_true]
    rw [mul_assoc, exp_neg_mul_exp, mul_one, sub_add_cancel]

theorem coupling_backward_forward' (affine : Bool) (n : Nat) (m : Nat → Bool)
    (T S : (Nat → F) → Nat → F) (u : Nat → F) :
    (couplingBackward E.exp affine n m T S (couplingForward E.exp affine n m T S u).1).1 = u := by
  have hm := coupling_masked_fwd E affine n m T S u
  funext k
  cases affine
  · simp only [couplingBackward, Bool.false_eq_true, if_false]
    rw [hm]
    simp [couplingForward]
  · simp only [couplingBackward, if_true]
    rw [hm]
    simp only [couplingForward, if_true]
    rw [add_sub_cancel_right, mul_assoc, exp_mul_exp_neg, mul_one]

theorem coupling_ldj_antisymm_fwd (affine : Bool) (n : Nat) (m : Nat → Bool)
    (T S : (Nat → F) → Nat → F) (u : Nat → F) :
    (couplingBackward E.exp affine n m T S (couplingForward E.exp affine n m T S u).1).2
      = -(couplingForward E.exp affine n m T S u).2 := by
  have hm := coupling_masked_fwd E affine n m T S u
  cases affine
  · simp [couplingBackward, couplingForward]
  · simp only [couplingBackward, if_true]
    rw [hm]
    simp [couplingForward]

theorem coupling_ldj_antisymm_bwd (affine : Bool) (n : Nat) (m : Nat → Bool)
    (T S : (Nat → F) → Nat → F) (x : Nat → F) :
    (couplingForward E.exp affine n m T S (couplingBackward E.exp affine n m T S x).1).2
      = -(couplingBackward E.exp affine n m T S x).2 := by
  have hm := coupling_masked_bwd E affine n m T S x
  cases affine
  · simp [couplingBackward, couplingForward]
  · simp only [couplingForward, if_true]
    rw [hm]
    simp [couplingBackward]

end Coupling
section Chunk
variable {α : Type} [Zero α]

theorem chunkFst_cat2 (half : Nat) (a z : Nat → α) :
    chunkFst half (cat2 half a z) = chunkFst half a := by
  funext k; by_cases h : k < half <;> simp [chunkFst, cat2, h]

omit [Zero α] in
theorem chunkSnd_cat2 (half : Nat) (a z : Nat → α) : chunkSnd half (cat2 half a z) = z := by
  funext k; simp [chunkSnd, cat2]

theorem chunkFst_idem (half : Nat) (x : Nat → α) : chunkFst half (chunkFst half x) = chunkFst half x := by
  funext k; by_cases h : k < half <;> simp [chunkFst, h]

/-- `cat(chunk(x)) = x`. -/
theorem cat2_chunk (half : Nat) (x : Nat → α) : cat2 half (chunkFst half x) (chunkSnd half x) = x := by
  funext k
  by_cases h : k < half
  · simp [cat2, chunkFst, h]
  · have h3 : half + (k - half) = k := by omega
    simp [cat2, chunkSnd, h, h3]

/-- Only the first `half` entries of the first argument of `cat` matter. -/
theorem cat2_chunkFst (half : Nat) (a z : Nat → α) : cat2 half (chunkFst half a) z = cat2 half a z := by
  funext k; by_cases h : k < half <;> simp [cat2, chunkFst, h]

end Chunk

section Chan
variable {F : Type} [Field F] [LinearOrder F] (E : ExpLog F)

theorem chan_forward_backward' (affine reverse : Bool) (half : Nat) (T S : (Nat → F) → Nat → F)
    (x : Nat → F) :
    (chanForward E.exp affine reverse half T S (chanBackward E.exp affine reverse half T S x).1).1 = x := by
  funext k
  by_cases h : k < half
  · cases affine <;> cases reverse <;>
      simp [chanForward, chanBackward, chunkFst_cat2, chunkSnd_cat2, chunkFst_idem,
        cat2, h, chunkFst, mul_assoc, exp_neg_mul_exp]
  · have h3 : half + (k - half) = k := by omega
    cases affine <;> cases reverse <;>
      simp [chanForward, chanBackward, chunkFst_cat2, chunkSnd_cat2, chunkFst_idem,
        cat2, h, mul_assoc, exp_neg_mul_exp, chunkSnd, h3]

theorem chan_backward_forward' (affine reverse : Bool) (half : Nat) (T S : (Nat → F) → Nat → F)
    (u : Nat → F) :
    (chanBackward E.exp affine reverse half T S (chanForward E.exp affine reverse half T S u).1).1 = u := by
  funext k
  by_cases h : k < half
  · cases affine <;> cases reverse <;>
      simp [chanForward, chanBackward, chunkFst_cat2, chunkSnd_cat2, chunkFst_idem,
        cat2, h, chunkFst, mul_assoc, exp_mul_exp_neg]
  · have h3 : half + (k - half) = k := by omega
    cases affine <;> cases reverse <;>
      simp [chanForward, chanBackward, chunkFst_cat2, chunkSnd_cat2, chunkFst_idem,
        cat2, h, mul_assoc, exp_mul_exp_neg, chunkSnd, h3]

theorem chan_ldj_antisymm_fwd (affine reverse : Bool) (half : Nat) (T S : (Nat → F) → Nat → F)
    (u : Nat → F) :
    (chanBackward E.exp affine reverse half T S (chanForward E.exp affine reverse half T S u).1).2
      = -(chanForward E.exp affine reverse half T S u).2 := by
  cases affine <;> cases reverse <;>
    simp [chanForward, chanBackward, chunkFst_cat2, chunkSnd_cat2, chunkFst_idem]

theorem chan_ldj_antisymm_bwd (affine reverse : Bool) (half : Nat) (T S : (Nat → F) → Nat → F)
    (x : Nat → F) :
    (chanForward E.exp affine reverse half T S (chanBackward E.exp affine reverse half T S x).1).2
      = -(chanBackward E.exp affine reverse half T S x).2 := by
  cases affine <;> cases reverse <;>
    simp [chanForward, chanBackward, chunkFst_cat2, chunkSnd_cat2, chunkFst_idem]

end Chan
/-! ### 5. squeeze / unsqueeze -/

theorem mul_add_div' (a s b : Nat) (h : b < s) : (a * s + b) / s = a := by
  have hs : 0 < s := by omega
  rw [Nat.add_comm, Nat.add_mul_div_right _ _ hs, Nat.div_eq_of_lt h, Nat.zero_add]

theorem mul_add_mod' (a s b : Nat) (h : b < s) : (a * s + b) % s = b := by
  rw [Nat.add_comm, Nat.add_mul_mod_self_right, Nat.mod_eq_of_lt h]

theorem enc5_dec5 (s2 s3 s4 s5 d : Nat) : enc5 s2 s3 s4 s5 (dec5 s2 s3 s4 s5 d) = d := by
  simp only [enc5, dec5]
  rw [Nat.div_add_mod', Nat.div_add_mod', Nat.div_add_mod', Nat.div_add_mod']

theorem dec5_enc5 (s2 s3 s4 s5 i1 i2 i3 i4 i5 : Nat) (h2 : i2 < s2) (h3 : i3 < s3) (h4 : i4 < s4)
    (h5 : i5 < s5) : dec5 s2 s3 s4 s5 (enc5 s2 s3 s4 s5 (i1, i2, i3, i4, i5)) = (i1, i2, i3, i4, i5) := by
  simp only [enc5, dec5]
  simp only [mul_add_div' _ _ _ h5, mul_add_mod' _ _ _ h5, mul_add_div' _ _ _ h4, mul_add_mod' _ _ _ h4,
    mul_add_div' _ _ _ h3, mul_add_mod' _ _ _ h3, mul_add_div' _ _ _ h2, mul_add_mod' _ _ _ h2]

/-- Range facts of `dec5`. -/
theorem dec5_lt (s1 s2 s3 s4 s5 d : Nat) (hd : d < s1 * s2 * s3 * s4 * s5) :
    (dec5 s2 s3 s4 s5 d).1 < s1 ∧ (dec5 s2 s3 s4 s5 d).2.1 < s2 ∧ (dec5 s2 s3 s4 s5 d).2.2.1 < s3 ∧
    (dec5 s2 s3 s4 s5 d).2.2.2.1 < s4 ∧ (dec5 s2 s3 s4 s5 d).2.2.2.2 < s5 := by
  have p5 : 0 < s5 := Nat.pos_of_ne_zero (by rintro rfl; simp at hd)
  have p4 : 0 < s4 := Nat.pos_of_ne_zero (by rintro rfl; simp at hd)
  have p3 : 0 < s3 := Nat.pos_of_ne_zero (by rintro rfl; simp at hd)
  have p2 : 0 < s2 := Nat.pos_of_ne_zero (by rintro rfl; simp at hd)
  simp only [dec5]
  refine ⟨?_, Nat.mod_lt _ p2, Nat.mod_lt _ p3, Nat.mod_lt _ p4, Nat.mod_lt _ p5⟩
  rw [Nat.div_lt_iff_lt_mul p2, Nat.div_lt_iff_lt_mul p3, Nat.div_lt_iff_lt_mul p4, Nat.div_lt_iff_lt_mul p5]
  exact hd

theorem enc5_lt (s1 s2 s3 s4 s5 i1 i2 i3 i4 i5 : Nat) (h1 : i1 < s1) (h2 : i2 < s2) (h3 : i3 < s3)
    (h4 : i4 < s4) (h5 : i5 < s5) : enc5 s2 s3 s4 s5 (i1, i2, i3, i4, i5) < s1 * s2 * s3 * s4 * s5 := by
  simp only [enc5]
  have a2 : i1 * s2 + i2 + 1 ≤ s1 * s2 := by nlinarith
  have a3 : (i1 * s2 + i2) * s3 + i3 + 1 ≤ s1 * s2 * s3 := by nlinarith
  have a4 : ((i1 * s2 + i2) * s3 + i3) * s4 + i4 + 1 ≤ s1 * s2 * s3 * s4 := by nlinarith
  nlinarith

theorem dec5_lt' (s2 s3 s4 s5 d : Nat) (p2 : 0 < s2) (p3 : 0 < s3) (p4 : 0 < s4) (p5 : 0 < s5) :
    (dec5 s2 s3 s4 s5 d).2.1 < s2 ∧ (dec5 s2 s3 s4 s5 d).2.2.1 < s3 ∧
    (dec5 s2 s3 s4 s5 d).2.2.2.1 < s4 ∧ (dec5 s2 s3 s4 s5 d).2.2.2.2 < s5 := by
  simp only [dec5]
  exact ⟨Nat.mod_lt _ p2, Nat.mod_lt _ p3, Nat.mod_lt _ p4, Nat.mod_lt _ p5⟩

/-- `squeezeSrc ∘ unsqueezeSrc = id` (spatial extents of the squeezed tensor positive). -/
theorem squeezeSrc_unsqueezeSrc (h w d : Nat) (hh : 0 < h / 2) (hw : 0 < w / 2) :
    squeezeSrc h w (unsqueezeSrc (h / 2) (w / 2) d) = d := by
  have p2 : (0:Nat) < 2 := by omega
  simp only [squeezeSrc, unsqueezeSrc]
  obtain ⟨b2, b3, b4, b5⟩ := dec5_lt' (h / 2) 2 (w / 2) 2 d hh p2 hw p2
  rw [dec5_enc5 _ _ _ _ _ _ _ _ _ b3 b5 b2 b4]
  exact enc5_dec5 (h / 2) 2 (w / 2) 2 d

/-- `unsqueezeSrc ∘ squeezeSrc = id`. -/
theorem unsqueezeSrc_squeezeSrc (h w d : Nat) (hh : 0 < h / 2) (hw : 0 < w / 2) :
    unsqueezeSrc (h / 2) (w / 2) (squeezeSrc h w d) = d := by
  have p2 : (0:Nat) < 2 := by omega
  simp only [squeezeSrc, unsqueezeSrc]
  obtain ⟨b2, b3, b4, b5⟩ := dec5_lt' 2 2 (h / 2) (w / 2) d p2 p2 hh hw
  rw [dec5_enc5 _ _ _ _ _ _ _ _ _ b4 b2 b5 b3]
  exact enc5_dec5 2 2 (h / 2) (w / 2) d

theorem squeezeSrc_lt (c h w d : Nat) (hh : h % 2 = 0) (hw : w % 2 = 0)
    (hd : d < 4 * c * (h / 2) * (w / 2)) : squeezeSrc h w d < c * h * w := by
  have hd' : d < c * 2 * 2 * (h / 2) * (w / 2) := by
    have : c * 2 * 2 = 4 * c := by ring
    rw [this]; exact hd
  obtain ⟨b1, b2, b3, b4, b5⟩ := dec5_lt c 2 2 (h / 2) (w / 2) d hd'
  have := enc5_lt c (h / 2) 2 (w / 2) 2 _ _ _ _ _ b1 b4 b2 b5 b3
  have e : c * (h / 2) * 2 * (w / 2) * 2 = c * h * w := by
    have h1 : h / 2 * 2 = h := by omega
    have h2 : w / 2 * 2 = w := by omega
    calc c * (h / 2) * 2 * (w / 2) * 2 = c * (h / 2 * 2) * (w / 2 * 2) := by ring
      _ = c * h * w := by rw [h1, h2]
  rw [e] at this
  exact this

theorem unsqueezeSrc_lt (c h w d : Nat) (hh : h % 2 = 0) (hw : w % 2 = 0)
    (hd : d < c * h * w) : unsqueezeSrc (h / 2) (w / 2) d < 4 * c * (h / 2) * (w / 2) := by
  have e : c * (h / 2) * 2 * (w / 2) * 2 = c * h * w := by
    have h1 : h / 2 * 2 = h := by omega
    have h2 : w / 2 * 2 = w := by omega
    calc c * (h / 2) * 2 * (w / 2) * 2 = c * (h / 2 * 2) * (w / 2 * 2) := by ring
      _ = c * h * w := by rw [h1, h2]
  rw [← e] at hd
  obtain ⟨b1, b2, b3, b4, b5⟩ := dec5_lt c (h / 2) 2 (w / 2) 2 d hd
  have := enc5_lt c 2 2 (h / 2) (w / 2) _ _ _ _ _ b1 b3 b5 b2 b4
  have e2 : c * 2 * 2 = 4 * c := by ring
  rw [e2] at this
  exact this

/-! ### 8. composition -/
section Chain
variable {X F : Type} [AddCommGroup F]

theorem chainRun_foldl_acc (ls : List (X → X × F)) (y : X) (a : F) :
    ls.foldl (fun st l => ((l st.1).1, st.2 + (l st.1).2)) (y, a)
      = ((chainRun ls y).1, a + (chainRun ls y).2) := by
  induction ls generalizing y a with
  | nil => simp [chainRun]
  | cons l ls ih =>
    simp only [chainRun, List.foldl_cons]
    rw [ih, ih (a := 0 + (l y).2)]
    simp [add_assoc]

theorem chainRun_nil (x : X) : chainRun ([] : List (X → X × F)) x = (x, 0) := rfl

theorem chainRun_cons (l : X → X × F) (ls : List (X → X × F)) (x : X) :
    chainRun (l :: ls) x = ((chainRun ls (l x).1).1, (l x).2 + (chainRun ls (l x).1).2) := by
  simp only [chainRun, List.foldl_cons]
  rw [chainRun_foldl_acc]
  simp [chainRun]

theorem chainRun_append (ls ms : List (X → X × F)) (x : X) :
    chainRun (ls ++ ms) x
      = ((chainRun ms (chainRun ls x).1).1, (chainRun ls x).2 + (chainRun ms (chainRun ls x).1).2) := by
  induction ls generalizing x with
  | nil => simp [chainRun_nil]
  | cons l ls ih =>
    rw [List.cons_append, chainRun_cons, ih, chainRun_cons]
    simp [add_assoc]

/-- Identity bijector. -/
def Bij.id : Bij X F where
  fwd x := (x, 0)
  bwd x := (x, 0)
  fwd_bwd _ := rfl
  bwd_fwd _ := rfl
  ldj_antisymm _ := by simp

/-- Composite bijector: `bwd` runs `a` then `b`; `fwd` runs `b` then `a` (reversed order). -/
def Bij.comp (a b : Bij X F) : Bij X F where
  bwd x := ((b.bwd (a.bwd x).1).1, (a.bwd x).2 + (b.bwd (a.bwd x).1).2)
  fwd u := ((a.fwd (b.fwd u).1).1, (b.fwd u).2 + (a.fwd (b.fwd u).1).2)
  fwd_bwd x := by simp [b.fwd_bwd, a.fwd_bwd]
  bwd_fwd u := by simp [b.bwd_fwd, a.bwd_fwd]
  ldj_antisymm u := by
    simp only [a.bwd_fwd, a.ldj_antisymm, b.ldj_antisymm]
    rw [neg_add_rev]

/-- A bijector with zero log-det from a pair of mutually inverse maps (squeeze, permutation…). -/
def Bij.ofInverse (f g : X → X) (h1 : ∀ x, f (g x) = x) (h2 : ∀ x, g (f x) = x) : Bij X F where
  fwd u := (f u, 0)
  bwd x := (g x, 0)
  fwd_bwd := h1
  bwd_fwd := h2
  ldj_antisymm _ := by simp

/-- The other antisymmetry is a consequence of the laws. -/
theorem Bij.ldj_antisymm' (b : Bij X F) (x : X) : (b.fwd (b.bwd x).1).2 = -(b.bwd x).2 := by
  have := b.ldj_antisymm (b.bwd x).1
  rw [b.fwd_bwd] at this
  rw [this, neg_neg]

/-- The whole stack of layers as one bijector. -/
def Bij.chain : List (Bij X F) → Bij X F
  | [] => Bij.id
  | l :: ls => Bij.comp l (Bij.chain ls)

theorem chain_bwd_eq (ls : List (Bij X F)) (x : X) :
    chainRun (ls.map Bij.bwd) x = (Bij.chain ls).bwd x := by
  induction ls generalizing x with
  | nil => rfl
  | cons l ls ih => rw [List.map_cons, chainRun_cons, ih]; rfl

theorem chain_fwd_eq (ls : List (Bij X F)) (u : X) :
    chainRun ((ls.map Bij.fwd).reverse) u = (Bij.chain ls).fwd u := by
  induction ls generalizing u with
  | nil => rfl
  | cons l ls ih =>
    rw [List.map_cons, List.reverse_cons, chainRun_append, ih]
    simp [chainRun_cons, chainRun_nil, Bij.chain, Bij.comp]

/-- Reported log-dets collected along the chain. -/
def ldjTrace : List (X → X × F) → X → List F
  | [], _ => []
  | l :: ls, x => (l x).2 :: ldjTrace ls (l x).1

theorem chainRun_ldj_sum (ls : List (X → X × F)) (x : X) :
    (chainRun ls x).2 = tsum (ldjTrace ls x) := by
  induction ls generalizing x with
  | nil => rfl
  | cons l ls ih => rw [chainRun_cons, ldjTrace, tsum, ih]

end Chain
/-! ### 7. batch-norm, logit -/
section BnScalar
variable {F : Type} [Field F]

theorem bn_scalar_fwd_bwd (x m q e e' b : F) (hq : q ≠ 0) (he : e * e' = 1) :
    ((x - m) / q * e + b - b) * e' * q + m = x := by
  have h2 : (x - m) / q * q = x - m := div_mul_cancel₀ _ hq
  linear_combination ((x - m) / q * q) * he + h2

theorem bn_scalar_bwd_fwd (u m q e e' b : F) (hq : q ≠ 0) (he : e' * e = 1) :
    ((u - b) * e' * q + m - m) / q * e + b = u := by
  have h2 : (u - b) * e' * q / q = (u - b) * e' := mul_div_cancel_right₀ _ hq
  rw [add_sub_cancel_right, h2]
  linear_combination (u - b) * he

theorem sumVar_neg (n : Nat) (f : Nat → F) : sumVar n (fun k => -(f k)) = -(sumVar n f) := by
  have h := sumVar_mul n (-1 : F) f
  simp only [neg_one_mul] at h
  exact h

end BnScalar

section Bn
variable {F : Type} [Field F] [LinearOrder F] (E : ExpLog F)

theorem sqrt_ne_zero {a : F} (ha : 0 < a) : E.sqrt a ≠ 0 := by
  intro h
  have := E.sqrt_sq a (le_of_lt ha)
  rw [h, zero_mul] at this
  exact absurd this (ne_of_lt ha)

variable (half eps : F) (n : Nat) (w b mean var : Nat → F)

theorem bn1d_forward_backward' (hv : ∀ k, 0 < var k + eps) (x : Nat → F) :
    (bn1dForward E.exp E.log E.sqrt half eps n w b mean var
      (bn1dBackward E.exp E.log E.sqrt half eps n w b mean var x).1).1 = x := by
  funext k
  exact bn_scalar_fwd_bwd _ _ _ _ _ _ (sqrt_ne_zero E (hv k)) (exp_mul_exp_neg E _)

theorem bn1d_backward_forward' (hv : ∀ k, 0 < var k + eps) (u : Nat → F) :
    (bn1dBackward E.exp E.log E.sqrt half eps n w b mean var
      (bn1dForward E.exp E.log E.sqrt half eps n w b mean var u).1).1 = u := by
  funext k
  exact bn_scalar_bwd_fwd _ _ _ _ _ _ (sqrt_ne_zero E (hv k)) (exp_neg_mul_exp E _)

/-- The log-det reported by batch-norm does not depend on the input: antisymmetry is an identity of
the two constants. -/
theorem bn1d_ldj_antisymm' (x u : Nat → F) :
    (bn1dBackward E.exp E.log E.sqrt half eps n w b mean var x).2
      = -(bn1dForward E.exp E.log E.sqrt half eps n w b mean var u).2 := by
  show sumVar n _ = -(sumVar n _)
  rw [← sumVar_neg]
  apply sumVar_congr
  intro k; ring

variable (C grid : Nat) (gridA : F)

theorem bn2d_forward_backward' (hv : ∀ c, 0 < var c + eps) (x : Nat → F) :
    (bn2dForward E.exp E.log E.sqrt half eps C grid gridA w b mean var
      (bn2dBackward E.exp E.log E.sqrt half eps C grid gridA w b mean var x).1).1 = x := by
  funext k
  exact bn_scalar_fwd_bwd _ _ _ _ _ _ (sqrt_ne_zero E (hv _)) (exp_mul_exp_neg E _)

theorem bn2d_backward_forward' (hv : ∀ c, 0 < var c + eps) (u : Nat → F) :
    (bn2dBackward E.exp E.log E.sqrt half eps C grid gridA w b mean var
      (bn2dForward E.exp E.log E.sqrt half eps C grid gridA w b mean var u).1).1 = u := by
  funext k
  exact bn_scalar_bwd_fwd _ _ _ _ _ _ (sqrt_ne_zero E (hv _)) (exp_neg_mul_exp E _)

theorem bn2d_ldj_antisymm' (x u : Nat → F) :
    (bn2dBackward E.exp E.log E.sqrt half eps C grid gridA w b mean var x).2
      = -(bn2dForward E.exp E.log E.sqrt half eps C grid gridA w b mean var u).2 := by
  show sumVar C _ * gridA = -(sumVar C _ * gridA)
  rw [← neg_mul, ← sumVar_neg]
  congr 1
  apply sumVar_congr
  intro k; ring

end Bn

section LogLaws
variable {F : Type} [Field F] [LinearOrder F] (E : ExpLog F)

theorem log_one : E.log 1 = 0 := by
  have := E.log_exp 0
  rwa [E.exp_zero] at this

theorem log_mul {a b : F} (ha : 0 < a) (hb : 0 < b) : E.log (a * b) = E.log a + E.log b := by
  conv_lhs => rw [← E.exp_log a ha, ← E.exp_log b hb, ← E.exp_add]
  exact E.log_exp _

theorem exp_neg_eq_inv (a : F) : E.exp (-a) = (E.exp a)⁻¹ :=
  eq_inv_of_mul_eq_one_right (exp_mul_exp_neg E a)

end LogLaws

section Logit
variable {F : Type} [Field F] [LinearOrder F] [IsStrictOrderedRing F] (E : ExpLogSig F)

theorem sigmoid_pos (u : F) : 0 < E.sigmoid u := by
  rw [E.sigmoid_def]
  have := E.exp_pos (-u)
  positivity

theorem one_sub_sigmoid (u : F) : 1 - E.sigmoid u = E.exp (-u) * E.sigmoid u := by
  rw [E.sigmoid_def]
  have : 1 + E.exp (-u) ≠ 0 := ne_of_gt (by have := E.exp_pos (-u); positivity)
  field_simp
  ring

/-- `logit (sigmoid u) = u`. -/
theorem logit_sigmoid (u : F) : E.log (E.sigmoid u) - E.log (1 - E.sigmoid u) = u := by
  rw [one_sub_sigmoid, log_mul E.toExpLog (E.exp_pos _) (sigmoid_pos E u), E.log_exp]
  ring

/-- `sigmoid (logit a) = a` on `(0, 1)`. -/
theorem sigmoid_logit {a : F} (h0 : 0 < a) (h1 : a < 1) : E.sigmoid (E.log a - E.log (1 - a)) = a := by
  have h1' : 0 < 1 - a := sub_pos.2 h1
  rw [E.sigmoid_def, neg_sub, sub_eq_add_neg, E.exp_add, exp_neg_eq_inv E.toExpLog, E.exp_log _ h0, E.exp_log _ h1']
  have : a ≠ 0 := ne_of_gt h0
  field_simp
  ring

variable (alpha dimsA : F) (n : Nat)

theorem logit_forward_backward' (hα : 1 - (1 + 1) * alpha ≠ 0) (x : Nat → F)
    (hx : ∀ k, 0 < alpha + (1 - (1 + 1) * alpha) * x k ∧ alpha + (1 - (1 + 1) * alpha) * x k < 1) :
    (logitForward E.log E.sigmoid alpha dimsA n (logitBackward E.log alpha dimsA n x).1).1 = x := by
  funext k
  show (E.sigmoid (E.log _ - E.log (1 - _)) - alpha) / _ = _
  rw [sigmoid_logit E (hx k).1 (hx k).2]
  generalize 1 - (1 + 1) * alpha = c at hα
  rw [add_sub_cancel_left, mul_div_cancel_left₀ _ hα]

theorem logit_affine_cancel {F : Type} [Field F] (alpha c p : F) (hc : c ≠ 0) :
    alpha + c * ((p - alpha) / c) = p := by
  rw [mul_div_cancel₀ _ hc]; ring

theorem logit_backward_forward' (hα : 1 - (1 + 1) * alpha ≠ 0) (u : Nat → F) :
    (logitBackward E.log alpha dimsA n (logitForward E.log E.sigmoid alpha dimsA n u).1).1 = u := by
  funext k
  have e : alpha + (1 - (1 + 1) * alpha) * ((E.sigmoid (u k) - alpha) / (1 - (1 + 1) * alpha))
      = E.sigmoid (u k) := logit_affine_cancel _ _ _ hα
  show E.log (alpha + _ * ((E.sigmoid (u k) - alpha) / _)) - E.log (1 - (alpha + _ * (_ / _))) = _
  rw [e]
  exact logit_sigmoid E (u k)

omit [IsStrictOrderedRing F] in
theorem logit_ldj_antisymm_fwd (hα : 1 - (1 + 1) * alpha ≠ 0) (u : Nat → F) :
    (logitBackward E.log alpha dimsA n (logitForward E.log E.sigmoid alpha dimsA n u).1).2
      = -(logitForward E.log E.sigmoid alpha dimsA n u).2 := by
  have e : ∀ k, alpha + (1 - (1 + 1) * alpha) * ((E.sigmoid (u k) - alpha) / (1 - (1 + 1) * alpha))
      = E.sigmoid (u k) := fun k => logit_affine_cancel _ _ _ hα
  show -(sumVar n (fun k => E.log (alpha + _ * ((E.sigmoid (u k) - alpha) / _))
      + E.log (1 - (alpha + _ * ((E.sigmoid (u k) - alpha) / _)))) + _) = -(sumVar n _ + _)
  simp only [e]

theorem logit_ldj_antisymm_bwd (x : Nat → F)
    (hx : ∀ k, 0 < alpha + (1 - (1 + 1) * alpha) * x k ∧ alpha + (1 - (1 + 1) * alpha) * x k < 1) :
    (logitForward E.log E.sigmoid alpha dimsA n (logitBackward E.log alpha dimsA n x).1).2
      = -(logitBackward E.log alpha dimsA n x).2 := by
  show sumVar n (fun k => E.log (E.sigmoid (E.log _ - E.log (1 - _))) + E.log (1 - E.sigmoid (E.log _ - E.log (1 - _)))) + _
    = - -(sumVar n _ + _)
  rw [neg_neg]
  congr 1
  apply sumVar_congr
  intro k
  rw [sigmoid_logit E (hx k).1 (hx k).2]

end Logit
/-! ### 6. permutation matrix of RealNVP2d -/

section SumSingle
variable {α : Type} [AddCommMonoid α]

theorem sumVar_succ (n : Nat) (f : Nat → α) : sumVar (n + 1) f = sumVar n f + f n := by
  unfold sumVar
  rw [List.range_succ, List.foldr_append]
  simp only [List.foldr_cons, List.foldr_nil, add_zero]
  generalize List.range n = l
  induction l with
  | nil => simp
  | cons a l ih => simp only [List.foldr_cons]; rw [ih, add_assoc]

theorem sumVar_eq_zero (n : Nat) (f : Nat → α) (h : ∀ k, k < n → f k = 0) : sumVar n f = 0 := by
  rw [sumVar_congr' n f (fun _ => 0) h]
  clear h
  induction n with
  | zero => rfl
  | succ n ih => rw [sumVar_succ, ih, add_zero]

/-- A finite sum with a single non-zero term. -/
theorem sumVar_single (n i0 : Nat) (f : Nat → α) (hi : i0 < n) (hz : ∀ k, k < n → k ≠ i0 → f k = 0) :
    sumVar n f = f i0 := by
  induction n with
  | zero => omega
  | succ n ih =>
    rw [sumVar_succ]
    by_cases h : i0 = n
    · subst h
      rw [sumVar_eq_zero _ f (fun k hk => hz k (by omega) (by omega)), zero_add]
    · rw [ih (by omega) (fun k hk hne => hz k (by omega) hne), hz n (by omega) (fun e => h e.symm), add_zero]

end SumSingle

theorem quarterPos_lt (q : Nat) : (quarterPos q).1 < 2 ∧ (quarterPos q).2 < 2 := by
  unfold quarterPos; split <;> simp

theorem orderingBit_iff (q a b : Nat) (hq : q < 4) :
    orderingBit q a b = true ↔ a = (quarterPos q).1 ∧ b = (quarterPos q).2 := by
  have : q = 0 ∨ q = 1 ∨ q = 2 ∨ q = 3 := by omega
  rcases this with rfl | rfl | rfl | rfl <;> simp [orderingBit, quarterPos]

theorem quarterPos_posQuarter (a b : Nat) (ha : a < 2) (hb : b < 2) : quarterPos (posQuarter a b) = (a, b) := by
  have : a = 0 ∨ a = 1 := by omega
  have : b = 0 ∨ b = 1 := by omega
  rcases ‹a = 0 ∨ a = 1› with rfl | rfl <;> rcases ‹b = 0 ∨ b = 1› with rfl | rfl <;> rfl

theorem posQuarter_quarterPos (q : Nat) (hq : q < 4) : posQuarter (quarterPos q).1 (quarterPos q).2 = q := by
  have : q = 0 ∨ q = 1 ∨ q = 2 ∨ q = 3 := by omega
  rcases this with rfl | rfl | rfl | rfl <;> rfl

theorem posQuarter_lt (a b : Nat) : posQuarter a b < 4 := by
  unfold posQuarter; split <;> split <;> omega

/-- Entry characterisation of `build_permutation_matrix`. -/
theorem permWeight_iff (c o ci a b : Nat) (ho : o < 4 * c) :
    permWeight c o ci a b = true ↔ (ci, a, b) = permSrc c o := by
  have hc : 0 < c := by omega
  have hq : o / c < 4 := by rw [Nat.div_lt_iff_lt_mul hc]; omega
  have hm : o % c < c := Nat.mod_lt _ hc
  have e1 : (4 * (o % c) + o / c) / 4 = o % c := by
    generalize o / c = q at hq; generalize o % c = m; omega
  have e2 : (4 * (o % c) + o / c) % 4 = o / c := by
    generalize o / c = q at hq; generalize o % c = m; omega
  simp only [permWeight, preWeight, permIndex, permSrc, e1, e2, Bool.and_eq_true, beq_iff_eq,
    orderingBit_iff _ _ _ hq, Prod.mk.injEq]

theorem permSrc_lt (c o : Nat) (hc : 0 < c) :
    (permSrc c o).1 < c ∧ (permSrc c o).2.1 < 2 ∧ (permSrc c o).2.2 < 2 :=
  ⟨Nat.mod_lt _ hc, (quarterPos_lt _).1, (quarterPos_lt _).2⟩

/-- Column characterisation: the unique row `o` carrying a 1 in column `(ci, a, b)`. -/
theorem permWeight_col (c o ci a b : Nat) (ho : o < 4 * c) (hci : ci < c) (ha : a < 2) (hb : b < 2) :
    permWeight c o ci a b = true ↔ o = posQuarter a b * c + ci := by
  have hc : 0 < c := by omega
  have hq : o / c < 4 := by rw [Nat.div_lt_iff_lt_mul hc]; omega
  rw [permWeight_iff c o ci a b ho]
  simp only [permSrc, Prod.mk.injEq]
  constructor
  · rintro ⟨h1, h2, h3⟩
    have : posQuarter a b = o / c := by rw [h2, h3]; exact posQuarter_quarterPos _ hq
    rw [this, h1]
    exact (Nat.div_add_mod' o c).symm
  · rintro rfl
    rw [mul_add_div' _ _ _ hci, mul_add_mod' _ _ _ hci, quarterPos_posQuarter a b ha hb]
    exact ⟨rfl, rfl, rfl⟩

section ConvGather
variable {α : Type} [CommSemiring α]

/-- The strided convolution with the permutation matrix is a gather. -/
theorem convPerm_eq_gather (c h w : Nat) (x : Nat → α) (d : Nat) (hd : d < 4 * c * (h / 2) * (w / 2)) :
    convPerm c h w x d = x (convPermSrc c h w d) := by
  have hw2 : 0 < w / 2 := Nat.pos_of_ne_zero (by rintro e; simp [e] at hd)
  have hh2 : 0 < h / 2 := Nat.pos_of_ne_zero (by rintro e; simp [e] at hd)
  have ho : d / (w / 2) / (h / 2) < 4 * c := by
    rw [Nat.div_lt_iff_lt_mul hh2, Nat.div_lt_iff_lt_mul hw2]; exact hd
  have hc : 0 < c := Nat.pos_of_ne_zero (by rintro rfl; simp at hd)
  obtain ⟨b1, b2, b3⟩ := permSrc_lt c (d / (w / 2) / (h / 2)) hc
  simp only [convPerm, convPermSrc]
  generalize d / (w / 2) / (h / 2) = o at ho b1 b2 b3
  have hz : ∀ ci a b, (ci, a, b) ≠ permSrc c o →
      (if permWeight c o ci a b = true then (1:α) else 0)
        * x ((ci * h + (2 * (d / (w / 2) % (h / 2)) + a)) * w + (2 * (d % (w / 2)) + b)) = 0 := by
    intro ci a b hne
    have : ¬ permWeight c o ci a b = true := fun hp => hne ((permWeight_iff c o ci a b ho).1 hp)
    simp [this]
  rw [sumVar_single c (permSrc c o).1 _ b1]
  · rw [sumVar_single 2 (permSrc c o).2.1 _ b2]
    · rw [sumVar_single 2 (permSrc c o).2.2 _ b3]
      · have : permWeight c o (permSrc c o).1 (permSrc c o).2.1 (permSrc c o).2.2 = true :=
          (permWeight_iff c o _ _ _ ho).2 rfl
        simp [this]
      · intro b _ hb
        apply hz
        intro e; apply hb; rw [← e]
    · intro a _ ha
      apply sumVar_eq_zero
      intro b _
      apply hz
      intro e; apply ha; rw [← e]
  · intro ci _ hci
    apply sumVar_eq_zero
    intro a _
    apply sumVar_eq_zero
    intro b _
    apply hz
    intro e; apply hci; rw [← e]

/-- The transposed strided convolution with the permutation matrix is a gather. -/
theorem convTPerm_eq_gather (c h w : Nat) (x : Nat → α) (d : Nat) (hd : d < c * h * w) :
    convTPerm c h w x d = x (convTPermSrc c h w d) := by
  have hw : 0 < w := Nat.pos_of_ne_zero (by rintro e; simp [e] at hd)
  have hh : 0 < h := Nat.pos_of_ne_zero (by rintro e; simp [e] at hd)
  have hci : d / w / h < c := by
    rw [Nat.div_lt_iff_lt_mul hh, Nat.div_lt_iff_lt_mul hw]; exact hd
  simp only [convTPerm, convTPermSrc]
  generalize d / w / h = ci at hci
  have ha : d / w % h % 2 < 2 := Nat.mod_lt _ (by omega)
  have hb : d % w % 2 < 2 := Nat.mod_lt _ (by omega)
  generalize d / w % h % 2 = a at ha
  generalize d % w % 2 = b at hb
  have hq := posQuarter_lt a b
  have ho : posQuarter a b * c + ci < 4 * c := by nlinarith
  rw [sumVar_single (4 * c) (posQuarter a b * c + ci) _ ho]
  · have : permWeight c (posQuarter a b * c + ci) ci a b = true :=
      (permWeight_col c _ ci a b ho hci ha hb).2 rfl
    simp [this]
  · intro o ho' hne
    have : ¬ permWeight c o ci a b = true := fun hp => hne ((permWeight_col c o ci a b ho' hci ha hb).1 hp)
    simp [this]

end ConvGather

theorem convPermSrc_convTPermSrc (c h w e : Nat) (hh : h % 2 = 0) (hw : w % 2 = 0) (he : e < c * h * w) :
    convPermSrc c h w (convTPermSrc c h w e) = e := by
  have hw0 : 0 < w := Nat.pos_of_ne_zero (by rintro rfl; simp at he)
  have hh0 : 0 < h := Nat.pos_of_ne_zero (by rintro rfl; simp at he)
  have hci : e / w / h < c := by
    rw [Nat.div_lt_iff_lt_mul hh0, Nat.div_lt_iff_lt_mul hw0]; exact he
  have hX : e % w < w := Nat.mod_lt _ hw0
  have hY : e / w % h < h := Nat.mod_lt _ hh0
  have hX2 : e % w / 2 < w / 2 := by omega
  have hY2 : e / w % h / 2 < h / 2 := by omega
  have e1 : e = (e / w / h * h + e / w % h) * w + e % w := by
    rw [Nat.div_add_mod', Nat.div_add_mod']
  simp only [convPermSrc, convTPermSrc]
  generalize e / w / h = ci at *
  generalize e / w % h = Y at *
  generalize e % w = X at *
  have ha : Y % 2 < 2 := Nat.mod_lt _ (by omega)
  have hb : X % 2 < 2 := Nat.mod_lt _ (by omega)
  rw [mul_add_mod' _ _ _ hX2, mul_add_div' _ _ _ hX2, mul_add_mod' _ _ _ hY2, mul_add_div' _ _ _ hY2]
  simp only [permSrc, mul_add_mod' _ _ _ hci, mul_add_div' _ _ _ hci, quarterPos_posQuarter _ _ ha hb]
  have : 2 * (Y / 2) + Y % 2 = Y := by omega
  rw [this]
  have : 2 * (X / 2) + X % 2 = X := by omega
  rw [this]
  exact e1.symm

theorem convTPermSrc_convPermSrc (c h w d : Nat) (hh : h % 2 = 0) (hw : w % 2 = 0)
    (hd : d < 4 * c * (h / 2) * (w / 2)) :
    convTPermSrc c h w (convPermSrc c h w d) = d := by
  have hw2 : 0 < w / 2 := Nat.pos_of_ne_zero (by rintro e; simp [e] at hd)
  have hh2 : 0 < h / 2 := Nat.pos_of_ne_zero (by rintro e; simp [e] at hd)
  have hc : 0 < c := Nat.pos_of_ne_zero (by rintro rfl; simp at hd)
  have ho : d / (w / 2) / (h / 2) < 4 * c := by
    rw [Nat.div_lt_iff_lt_mul hh2, Nat.div_lt_iff_lt_mul hw2]; exact hd
  have hx : d % (w / 2) < w / 2 := Nat.mod_lt _ hw2
  have hy : d / (w / 2) % (h / 2) < h / 2 := Nat.mod_lt _ hh2
  have e1 : d = (d / (w / 2) / (h / 2) * (h / 2) + d / (w / 2) % (h / 2)) * (w / 2) + d % (w / 2) := by
    rw [Nat.div_add_mod', Nat.div_add_mod']
  obtain ⟨b1, b2, b3⟩ := permSrc_lt c (d / (w / 2) / (h / 2)) hc
  have hq : d / (w / 2) / (h / 2) / c < 4 := by rw [Nat.div_lt_iff_lt_mul hc]; omega
  have e2 : d / (w / 2) / (h / 2) = d / (w / 2) / (h / 2) / c * c + d / (w / 2) / (h / 2) % c :=
    (Nat.div_add_mod' _ _).symm
  simp only [convPermSrc, convTPermSrc]
  generalize d / (w / 2) / (h / 2) = o at *
  generalize d / (w / 2) % (h / 2) = y at *
  generalize d % (w / 2) = xx at *
  have hX : 2 * xx + (permSrc c o).2.2 < w := by omega
  have hY : 2 * y + (permSrc c o).2.1 < h := by omega
  rw [mul_add_mod' _ _ _ hX, mul_add_div' _ _ _ hX, mul_add_mod' _ _ _ hY, mul_add_div' _ _ _ hY]
  have : (2 * y + (permSrc c o).2.1) % 2 = (permSrc c o).2.1 := by omega
  rw [this]
  have : (2 * xx + (permSrc c o).2.2) % 2 = (permSrc c o).2.2 := by omega
  rw [this]
  have : (2 * y + (permSrc c o).2.1) / 2 = y := by omega
  rw [this]
  have : (2 * xx + (permSrc c o).2.2) / 2 = xx := by omega
  rw [this]
  simp only [permSrc]
  rw [posQuarter_quarterPos _ hq, ← e2]
  exact e1.symm

theorem convPermSrc_lt (c h w d : Nat) (hh : h % 2 = 0) (hw : w % 2 = 0)
    (hd : d < 4 * c * (h / 2) * (w / 2)) : convPermSrc c h w d < c * h * w := by
  have hw2 : 0 < w / 2 := Nat.pos_of_ne_zero (by rintro e; simp [e] at hd)
  have hh2 : 0 < h / 2 := Nat.pos_of_ne_zero (by rintro e; simp [e] at hd)
  have hc : 0 < c := Nat.pos_of_ne_zero (by rintro rfl; simp at hd)
  have hx : d % (w / 2) < w / 2 := Nat.mod_lt _ hw2
  have hy : d / (w / 2) % (h / 2) < h / 2 := Nat.mod_lt _ hh2
  obtain ⟨b1, b2, b3⟩ := permSrc_lt c (d / (w / 2) / (h / 2)) hc
  simp only [convPermSrc]
  generalize permSrc c (d / (w / 2) / (h / 2)) = s at *
  have hX : 2 * (d % (w / 2)) + s.2.2 + 1 ≤ w := by omega
  have hY : 2 * (d / (w / 2) % (h / 2)) + s.2.1 + 1 ≤ h := by omega
  generalize 2 * (d % (w / 2)) + s.2.2 = X at *
  generalize 2 * (d / (w / 2) % (h / 2)) + s.2.1 = Y at *
  have : s.1 * h + Y + 1 ≤ c * h := by nlinarith
  nlinarith

theorem convTPermSrc_lt (c h w e : Nat) (hh : h % 2 = 0) (hw : w % 2 = 0) (he : e < c * h * w) :
    convTPermSrc c h w e < 4 * c * (h / 2) * (w / 2) := by
  have hw0 : 0 < w := Nat.pos_of_ne_zero (by rintro rfl; simp at he)
  have hh0 : 0 < h := Nat.pos_of_ne_zero (by rintro rfl; simp at he)
  have hci : e / w / h < c := by
    rw [Nat.div_lt_iff_lt_mul hh0, Nat.div_lt_iff_lt_mul hw0]; exact he
  have hX : e % w < w := Nat.mod_lt _ hw0
  have hY : e / w % h < h := Nat.mod_lt _ hh0
  have hX2 : e % w / 2 + 1 ≤ w / 2 := by omega
  have hY2 : e / w % h / 2 + 1 ≤ h / 2 := by omega
  simp only [convTPermSrc]
  have hq := posQuarter_lt (e / w % h % 2) (e % w % 2)
  generalize posQuarter (e / w % h % 2) (e % w % 2) = q at hq
  generalize e / w / h = ci at *
  generalize e / w % h / 2 = y at *
  generalize e % w / 2 = xx at *
  have h1 : q * c + ci + 1 ≤ 4 * c := by nlinarith
  have h2 : (q * c + ci) * (h / 2) + y + 1 ≤ 4 * c * (h / 2) := by nlinarith
  nlinarith

/-! ### multi-scale architecture of RealNVP2d -/
section MultiScale
variable {X Z F : Type} [AddCommGroup F]

/-- Down/up-scaling and split/concatenation of one scale, with the bookkeeping laws. -/
structure ScaleOps (X Z : Type) where
  down : X → X
  up : X → X
  split : X → X × Z
  join : X × Z → X
  up_down : ∀ x, up (down x) = x
  down_up : ∀ x, down (up x) = x
  join_split : ∀ x, join (split x) = x
  split_join : ∀ p, split (join p) = p

/-- One scale of `RealNVP2d.apply_backward / apply_forward`:
backward = block, `conv2d`, `chunk`, recurse on the first half, `cat`, `conv_transpose2d`. -/
def Bij.scale (L : Bij X F) (o : ScaleOps X Z) (inner : Bij X F) : Bij X F where
  bwd x := (o.up (o.join ((inner.bwd (o.split (o.down (L.bwd x).1)).1).1, (o.split (o.down (L.bwd x).1)).2)),
            (L.bwd x).2 + (inner.bwd (o.split (o.down (L.bwd x).1)).1).2)
  fwd u := ((L.fwd (o.up (o.join ((inner.fwd (o.split (o.down u)).1).1, (o.split (o.down u)).2)))).1,
            (inner.fwd (o.split (o.down u)).1).2
              + (L.fwd (o.up (o.join ((inner.fwd (o.split (o.down u)).1).1, (o.split (o.down u)).2)))).2)
  fwd_bwd x := by
    simp only [o.down_up, o.split_join, inner.fwd_bwd]
    rw [Prod.mk.eta, o.join_split, o.up_down, L.fwd_bwd]
  bwd_fwd u := by
    simp only [L.bwd_fwd, o.down_up, o.split_join, inner.bwd_fwd]
    rw [Prod.mk.eta, o.join_split, o.up_down]
  ldj_antisymm u := by
    simp only [L.bwd_fwd, L.ldj_antisymm, o.down_up, o.split_join, inner.ldj_antisymm]
    rw [neg_add_rev]

/-- The whole multi-scale model: blocks with their scale operations, then the last block. -/
def Bij.multiScale : List (Bij X F × ScaleOps X Z) → Bij X F → Bij X F
  | [], last => last
  | (L, o) :: rest, last => Bij.scale L o (Bij.multiScale rest last)

/-- The operations of a scale as plain functions (what the loops of the code use). -/
def toFns (p : Bij X F × ScaleOps X Z) : ScaleFns X Z F :=
  { bwd := p.1.bwd, fwd := p.1.fwd, down := p.2.down, up := p.2.up, split := p.2.split, join := p.2.join }

theorem msBwd_loop (last : Bij X F) : ∀ (ps : List (Bij X F × ScaleOps X Z)) (x : X) (a : F) (zs : List Z)
    (pre : List (ScaleFns X Z F)),
    msUp ((ps.map toFns).reverse ++ pre) (last.bwd (msBwdDown (ps.map toFns) x a zs).1).1
        (msBwdDown (ps.map toFns) x a zs).2.2
      = msUp pre ((Bij.multiScale ps last).bwd x).1 zs ∧
    (msBwdDown (ps.map toFns) x a zs).2.1 + (last.bwd (msBwdDown (ps.map toFns) x a zs).1).2
      = a + ((Bij.multiScale ps last).bwd x).2 := by
  intro ps
  induction ps with
  | nil => intro x a zs pre; simp [msBwdDown, Bij.multiScale]
  | cons p ps ih =>
    intro x a zs pre
    obtain ⟨L, o⟩ := p
    simp only [List.map_cons, msBwdDown, List.reverse_cons, List.append_assoc, List.singleton_append]
    obtain ⟨h1, h2⟩ := ih (o.split (o.down (L.bwd x).1)).1 (a + (L.bwd x).2)
      ((o.split (o.down (L.bwd x).1)).2 :: zs) (toFns (L, o) :: pre)
    constructor
    · exact h1
    · rw [show (toFns (L, o)).bwd = L.bwd from rfl, show (toFns (L, o)).split = o.split from rfl,
        show (toFns (L, o)).down = o.down from rfl] 
      rw [h2, add_assoc]
      rfl

/-- The two loops of `RealNVP2d.apply_backward` compute the recursive multi-scale bijector. -/
theorem msBackward_eq (ps : List (Bij X F × ScaleOps X Z)) (last : Bij X F) (x : X) :
    msBackward (ps.map toFns) last.bwd x = (Bij.multiScale ps last).bwd x := by
  obtain ⟨h1, h2⟩ := msBwd_loop last ps x 0 [] []
  simp only [List.append_nil] at h1
  unfold msBackward
  rw [Prod.ext_iff]
  refine ⟨?_, ?_⟩
  · simp only []
    rw [h1]
    cases ps <;> rfl
  · simp only []
    rw [h2, zero_add]

theorem msFwd_loop (last : Bij X F) : ∀ (ps : List (Bij X F × ScaleOps X Z)) (u : X) (zs : List Z)
    (pre : List (ScaleFns X Z F)) (a : F),
    msFwdUp ((ps.map toFns).reverse ++ pre) (last.fwd (msFwdDown (ps.map toFns) u zs).1).1
        (a + (last.fwd (msFwdDown (ps.map toFns) u zs).1).2) (msFwdDown (ps.map toFns) u zs).2
      = msFwdUp pre ((Bij.multiScale ps last).fwd u).1 (a + ((Bij.multiScale ps last).fwd u).2) zs := by
  intro ps
  induction ps with
  | nil => intro u zs pre a; simp [msFwdDown, Bij.multiScale]
  | cons p ps ih =>
    intro u zs pre a
    obtain ⟨L, o⟩ := p
    simp only [List.map_cons, msFwdDown, List.reverse_cons, List.append_assoc, List.singleton_append]
    rw [show (toFns (L, o)).split = o.split from rfl, show (toFns (L, o)).down = o.down from rfl]
    rw [ih (o.split (o.down u)).1 ((o.split (o.down u)).2 :: zs) (toFns (L, o) :: pre) a]
    simp only [msFwdUp, add_assoc]
    rfl

/-- The two loops of `RealNVP2d.apply_forward` compute the recursive multi-scale bijector. -/
theorem msForward_eq (ps : List (Bij X F × ScaleOps X Z)) (last : Bij X F) (u : X) :
    msForward (ps.map toFns) last.fwd u = (Bij.multiScale ps last).fwd u := by
  have h := msFwd_loop last ps u [] [] 0
  simp only [List.append_nil] at h
  unfold msForward
  simp only []
  rw [h]
  cases ps <;> simp [msFwdUp]

end MultiScale
theorem invOrdering_getD (ordering : List Nat) (n : Nat) (hp : ordering.Perm (List.range n)) (k : Nat)
    (hk : k < n) : ordering.getD ((invOrdering ordering).getD k 0) 0 = k := by
  have hlen : ordering.length = n := by simpa using hp.length_eq
  have hmem : k ∈ ordering := by rw [hp.mem_iff, List.mem_range]; exact hk
  have h := List.idxOf_lt_length_iff.2 hmem
  have e : (invOrdering ordering).getD k 0 = ordering.idxOf k := by
    unfold invOrdering
    rw [hlen]
    simp [List.getD, hk]
  rw [e]
  simp [List.getD, h]

theorem sumVar_invMask {F : Type} [Field F] (n : Nat) (m : Nat → Bool) (f : Nat → F) :
    sumVar n (fun k => invMaskVal m k * f k) = sumVar n (fun k => if m k then 0 else f k) := by
  apply sumVar_congr
  intro k
  cases h : m k <;> simp [invMaskVal, maskVal, h]

/-! ### concrete layers as instances of the abstract bijector interface -/
section Instances
variable {F : Type} [Field F] [LinearOrder F] (E : ExpLog F)

/-- `CouplingLayer1d` / checkerboard `CouplingLayer2d` as a bijector. -/
def couplingBij (affine : Bool) (n : Nat) (m : Nat → Bool) (T S : (Nat → F) → Nat → F) :
    Bij (Nat → F) F where
  fwd := couplingForward E.exp affine n m T S
  bwd := couplingBackward E.exp affine n m T S
  fwd_bwd := coupling_forward_backward' E affine n m T S
  bwd_fwd := coupling_backward_forward' E affine n m T S
  ldj_antisymm := coupling_ldj_antisymm_fwd E affine n m T S

/-- Channel-wise `CouplingLayer2d` as a bijector. -/
def chanBij (affine reverse : Bool) (half : Nat) (T S : (Nat → F) → Nat → F) : Bij (Nat → F) F where
  fwd := chanForward E.exp affine reverse half T S
  bwd := chanBackward E.exp affine reverse half T S
  fwd_bwd := chan_forward_backward' E affine reverse half T S
  bwd_fwd := chan_backward_forward' E affine reverse half T S
  ldj_antisymm := chan_ldj_antisymm_fwd E affine reverse half T S

/-- `BatchNormLayer1d` (eval mode) as a bijector. -/
def bn1dBij (half eps : F) (n : Nat) (w b mean var : Nat → F) (hv : ∀ k, 0 < var k + eps) :
    Bij (Nat → F) F where
  fwd := bn1dForward E.exp E.log E.sqrt half eps n w b mean var
  bwd := bn1dBackward E.exp E.log E.sqrt half eps n w b mean var
  fwd_bwd := bn1d_forward_backward' E half eps n w b mean var hv
  bwd_fwd := bn1d_backward_forward' E half eps n w b mean var hv
  ldj_antisymm := fun u => bn1d_ldj_antisymm' E half eps n w b mean var _ u

/-- `BatchNormLayer2d` (eval mode) as a bijector. -/
def bn2dBij (half eps : F) (C grid : Nat) (gridA : F) (w b mean var : Nat → F)
    (hv : ∀ c, 0 < var c + eps) : Bij (Nat → F) F where
  fwd := bn2dForward E.exp E.log E.sqrt half eps C grid gridA w b mean var
  bwd := bn2dBackward E.exp E.log E.sqrt half eps C grid gridA w b mean var
  fwd_bwd := bn2d_forward_backward' E half eps w b mean var C grid gridA hv
  bwd_fwd := bn2d_backward_forward' E half eps w b mean var C grid gridA hv
  ldj_antisymm := fun u => bn2d_ldj_antisymm' E half eps w b mean var C grid gridA _ u

end Instances

section SqueezeInst
variable {α F : Type} [AddCommGroup F]

theorem unsqueeze_squeeze' (h w : Nat) (hh : 0 < h / 2) (hw : 0 < w / 2) (x : Nat → α) :
    unsqueeze (h / 2) (w / 2) (squeeze h w x) = x := by
  funext d
  show x (squeezeSrc h w (unsqueezeSrc (h / 2) (w / 2) d)) = x d
  rw [squeezeSrc_unsqueezeSrc h w d hh hw]

theorem squeeze_unsqueeze' (h w : Nat) (hh : 0 < h / 2) (hw : 0 < w / 2) (y : Nat → α) :
    squeeze h w (unsqueeze (h / 2) (w / 2) y) = y := by
  funext d
  show y (unsqueezeSrc (h / 2) (w / 2) (squeezeSrc h w d)) = y d
  rw [unsqueezeSrc_squeezeSrc h w d hh hw]

/-- The squeeze stage inside `CouplingBlock2d.apply_backward` (`bwd = squeeze_depth2d`,
`fwd = unsqueeze_depth2d`), log-det 0. -/
def squeezeBij (h w : Nat) (hh : 0 < h / 2) (hw : 0 < w / 2) : Bij (Nat → α) F :=
  Bij.ofInverse (unsqueeze (h / 2) (w / 2)) (squeeze h w) (unsqueeze_squeeze' h w hh hw)
    (squeeze_unsqueeze' h w hh hw)

/-- The un-squeeze stage at the end of `CouplingBlock2d.apply_backward`. -/
def unsqueezeBij (h w : Nat) (hh : 0 < h / 2) (hw : 0 < w / 2) : Bij (Nat → α) F :=
  Bij.ofInverse (squeeze h w) (unsqueeze (h / 2) (w / 2)) (squeeze_unsqueeze' h w hh hw)
    (unsqueeze_squeeze' h w hh hw)

end SqueezeInst

section MafBij
variable {F : Type} [Field F] [LinearOrder F] (E : ExpLog F)

omit [LinearOrder F] in
theorem mafLoop_congr_u (g : F → F) (t s : (Nat → F) → Nat → F) (u u' : Nat → F) :
    ∀ (order : List Nat) (st : (Nat → F) × (Nat → F)), (∀ i ∈ order, u i = u' i) →
      mafLoop g t s u order st = mafLoop g t s u' order st := by
  intro order
  induction order with
  | nil => intro st _; rfl
  | cons i rest ih =>
    intro st h
    obtain ⟨x, l⟩ := st
    simp only [mafLoop]
    rw [h i (by simp)]
    exact ih _ (fun k hk => h k (by simp [hk]))

/-- Zero-extension of an `n`-vector to a flat tensor and restriction back. -/
def ext0 {n : Nat} (x : Fin n → F) : Nat → F := fun k => if h : k < n then x ⟨k, h⟩ else 0
def res {n : Nat} (y : Nat → F) : Fin n → F := fun i => y i.val

omit [LinearOrder F] in
theorem res_ext0 {n : Nat} (x : Fin n → F) : res (ext0 x) = x := by
  funext i; simp [res, ext0, i.isLt]

omit [LinearOrder F] in
theorem ext0_res_of_zero {n : Nat} (y : Nat → F) (h : ∀ k, n ≤ k → y k = 0) : ext0 (res (n := n) y) = y := by
  funext k
  by_cases hk : k < n
  · simp [ext0, res, hk]
  · simp [ext0, hk, h k (by omega)]

variable (deg : Nat → Nat) (n : Nat) (t s : (Nat → F) → Nat → F)
variable (ht : Autoregressive n deg t) (hs : Autoregressive n deg s)
variable (order : List Nat) (hnd : order.Nodup) (hpw : order.Pairwise (fun a b => deg a ≤ deg b))
variable (hmem : ∀ i, i ∈ order ↔ i < n)

include ht hs hnd hpw hmem in
theorem mafForward_zero_outside (u : Nat → F) (k : Nat) (hk : n ≤ k) :
    (mafForward E.exp n order t s u).1 k = 0 := by
  have := (mafLoop_spec E.exp deg n t s ht hs u order (fun _ => 0) (fun _ => 0) hnd hpw
    (fun i hi => (hmem i).1 hi)).2 k (fun h => by have := (hmem k).1 h; omega)
  exact this.1

include hmem in
theorem mafForward_congr_u (u u' : Nat → F) (h : ∀ i, i < n → u i = u' i) :
    mafForward E.exp n order t s u = mafForward E.exp n order t s u' := by
  unfold mafForward
  rw [mafLoop_congr_u E.exp t s u u' order _ (fun i hi => h i ((hmem i).1 hi))]

/-- The autoregressive layer as a bijector on `n`-vectors. -/
def mafBij : Bij (Fin n → F) F where
  fwd u := (res (mafForward E.exp n order t s (ext0 u)).1, (mafForward E.exp n order t s (ext0 u)).2)
  bwd x := (res (mafBackward E.exp n t s (ext0 x)).1, (mafBackward E.exp n t s (ext0 x)).2)
  fwd_bwd x := by
    funext i
    show (mafForward E.exp n order t s (ext0 (res (mafBackward E.exp n t s (ext0 x)).1))).1 i.val = x i
    rw [mafForward_congr_u E n t s order hmem _ (mafBackward E.exp n t s (ext0 x)).1
      (fun k hk => by simp [ext0, res, hk])]
    rw [maf_forward_backward' E deg n t s ht hs order hnd hpw hmem (ext0 x) i.val i.isLt]
    simp [ext0, i.isLt]
  bwd_fwd u := by
    funext i
    show (mafBackward E.exp n t s (ext0 (res (mafForward E.exp n order t s (ext0 u)).1))).1 i.val = u i
    rw [ext0_res_of_zero _ (mafForward_zero_outside E deg n t s ht hs order hnd hpw hmem (ext0 u))]
    rw [maf_backward_forward' E deg n t s ht hs order hnd hpw hmem (ext0 u) i.val i.isLt]
    simp [ext0, i.isLt]
  ldj_antisymm u := by
    show (mafBackward E.exp n t s (ext0 (res (mafForward E.exp n order t s (ext0 u)).1))).2 = _
    rw [ext0_res_of_zero _ (mafForward_zero_outside E deg n t s ht hs order hnd hpw hmem (ext0 u))]
    exact maf_ldj_antisymm_fwd E deg n t s ht hs order hnd hpw hmem (ext0 u)

end MafBij
end Deeprob.Flows
