import DeeprobModel.Lemmas.NetLemmas
set_option linter.unusedSimpArgs false
set_option linter.unusedVariables false
set_option linter.unusedSectionVars false

namespace Deeprob
variable {α : Type} [CommSemiring α]

def scopeOf (net : Net α) (c : Nat) : List Nat := match net[c]? with | some y => y.scope | none => []

/-- S-layer local condition of one stored node (scopes compared as sets) -/
def NodeOK (dom : Nat → Nat) (net : Net α) (dens : List α) (i : Nat) (x : NNode α) : Prop :=
  match x.kind with
  | .sum => x.ch ≠ [] ∧ x.ws.length = x.ch.length ∧ ∀ c ∈ x.ch, scopeEq (scopeOf net c) x.scope
  | .prod => (x.ch.map (scopeOf net)).flatten.Nodup ∧ scopeEq (x.ch.map (scopeOf net)).flatten x.scope
  | .leaf => LeafOK dom x.scope (x.leaf.fn x.scope (dens.getD i 0))

theorem scope_toTree (net : Net α) (dens : List α) (fuel c : Nat) (hc : c < net.length) :
    Circ.scope (toTree net dens (fuel+1) c) = scopeOf net c := by
  have hn : net[c]? = some net[c] := by simp [hc]
  simp only [toTree, scopeOf, hn]
  cases (net[c]).kind <;> simp [Circ.scope]

theorem map_scope_toTree (net : Net α) (dens : List α) (fuel : Nat) (ch : List Nat) (h : ∀ c ∈ ch, c < net.length) :
    (ch.map (toTree net dens (fuel+1))).map Circ.scope = ch.map (scopeOf net) := by
  rw [List.map_map]; apply List.map_congr_left; intro c hc
  simp only [Function.comp]; exact scope_toTree net dens fuel c (h c hc)

/-- **stored-table validity ⇒ tree validity** of every node's unfolding -/
theorem valid_toTree (dom : Nat → Nat) (net : Net α) (dens : List α) (hw : WellOrdered net)
    (hok : ∀ i (x : NNode α), net[i]? = some x → NodeOK dom net dens i x) :
    ∀ i, i < net.length → Circ.Valid dom (toTree net dens (i+1) i) := by
  intro i
  induction i using Nat.strong_induction_on with
  | _ i ih =>
    intro hi
    have hn : net[i]? = some net[i] := by simp [hi]
    have hc := hw i net[i] hn
    have hx := hok i net[i] hn
    have hlt : ∀ c ∈ (net[i]).ch, c < net.length := fun c hcm => by have := hc c hcm; omega
    cases i with
    | zero =>
      -- no children possible
      have hnil : (net[0]).ch = [] := by
        cases hch : (net[0]).ch with
        | nil => rfl
        | cons c cs => have := hc c (by rw [hch]; exact List.mem_cons_self); omega
      unfold NodeOK at hx
      simp only [toTree, hn]
      cases hk : (net[0]).kind
      · rw [hk] at hx; exact absurd hnil hx.1
      · rw [hk] at hx; simp only [hnil, List.map_nil]; unfold Circ.Valid
        simp only [hnil, List.map_nil, List.flatten_nil] at hx
        exact ⟨by simp, by simpa using hx.2, by simp⟩
      · rw [hk] at hx; unfold Circ.Valid; exact hx
    | succ k =>
      unfold NodeOK at hx
      rw [toTree]; simp only [hn]
      have hsub : ∀ c ∈ (net[k+1]).ch, Circ.Valid dom (toTree net dens (k+1) c) := by
        intro c hcm
        have hck := hc c hcm
        rw [toTree_fuel net dens hw c (k+1) hck]
        exact ih c hck (hlt c hcm)
      cases hk : (net[k+1]).kind
      · rw [hk] at hx
        obtain ⟨hne, hlen, hsc⟩ := hx
        unfold Circ.Valid
        refine ⟨by simpa using hne, by simpa using hlen, ?_, ?_⟩
        · intro t ht
          simp only [List.mem_map] at ht
          obtain ⟨c, hcm, rfl⟩ := ht
          rw [scope_toTree net dens k c (hlt c hcm)]; exact hsc c hcm
        · intro t ht
          simp only [List.mem_map] at ht
          obtain ⟨c, hcm, rfl⟩ := ht
          exact hsub c hcm
      · rw [hk] at hx
        obtain ⟨hnd, hsc⟩ := hx
        unfold Circ.Valid
        rw [map_scope_toTree net dens k _ hlt]
        refine ⟨hnd, hsc, ?_⟩
        intro t ht
        simp only [List.mem_map] at ht
        obtain ⟨c, hcm, rfl⟩ := ht
        exact hsub c hcm
      · rw [hk] at hx; unfold Circ.Valid; exact hx

/-- weights of every stored sum node sum to one -/
def NetNormW (net : Net α) : Prop := ∀ (i : Nat) (x : NNode α), net[i]? = some x → x.kind = .sum → tsum x.ws = 1

/-- every stored leaf reports one when nothing is observed -/
def NetLeafNorm (net : Net α) (dens : List α) : Prop :=
  ∀ (i : Nat) (x : NNode α), net[i]? = some x → x.kind = .leaf → x.leaf.fn x.scope (dens.getD i 0) (fun _ => none) = 1

theorem normW_toTree (net : Net α) (dens : List α) (hw : WellOrdered net) (hn : NetNormW net) :
    ∀ i, i < net.length → Circ.NormW (toTree net dens (i+1) i) := by
  intro i
  induction i using Nat.strong_induction_on with
  | _ i ih =>
    intro hi
    have hni : net[i]? = some net[i] := by simp [hi]
    have hc := hw i net[i] hni
    rw [toTree]; simp only [hni]
    have hsub : ∀ t ∈ (net[i]).ch.map (toTree net dens i), Circ.NormW t := by
      intro t ht
      simp only [List.mem_map] at ht
      obtain ⟨c, hcm, rfl⟩ := ht
      have hck := hc c hcm
      rw [toTree_fuel net dens hw c i hck]
      exact ih c hck (by omega)
    cases hk : (net[i]).kind
    · unfold Circ.NormW; exact ⟨hn i net[i] hni hk, hsub⟩
    · unfold Circ.NormW; exact hsub
    · unfold Circ.NormW; trivial

theorem leafNorm_toTree (dom : Nat → Nat) (net : Net α) (dens : List α) (hw : WellOrdered net) (hn : NetLeafNorm net dens) :
    ∀ i, i < net.length → Circ.LeafNorm dom (toTree net dens (i+1) i) := by
  intro i
  induction i using Nat.strong_induction_on with
  | _ i ih =>
    intro hi
    have hni : net[i]? = some net[i] := by simp [hi]
    have hc := hw i net[i] hni
    rw [toTree]; simp only [hni]
    have hsub : ∀ t ∈ (net[i]).ch.map (toTree net dens i), Circ.LeafNorm dom t := by
      intro t ht
      simp only [List.mem_map] at ht
      obtain ⟨c, hcm, rfl⟩ := ht
      have hck := hc c hcm
      rw [toTree_fuel net dens hw c i hck]
      exact ih c hck (by omega)
    cases hk : (net[i]).kind
    · unfold Circ.LeafNorm; exact hsub
    · unfold Circ.LeafNorm; exact hsub
    · unfold Circ.LeafNorm; exact hn i net[i] hni hk

end Deeprob
