import DeeprobModel.Lemmas.TopDownNetLemmas
set_option linter.unusedSimpArgs false
set_option linter.unusedVariables false
set_option linter.unusedSectionVars false
/-
`mpeNet` (mask propagation over the stored table, sharing visible) = `mpeDescent` of the unfolded tree.
-/
namespace Deeprob
open TCirc

theorem disjoint_of_nodup_flatten_map {β : Type} (f : β → List Nat) (l : List β) (h : (l.map f).flatten.Nodup)
    (a b : β) (ha : a ∈ l) (hb : b ∈ l) (hab : a ≠ b) : List.Disjoint (f a) (f b) := by
  induction l with
  | nil => simp at ha
  | cons c l ih =>
    simp only [List.map_cons, List.flatten_cons] at h
    rw [List.nodup_append] at h
    obtain ⟨_, h2, hd⟩ := h
    rcases List.mem_cons.1 ha with rfl | ha'
    · rcases List.mem_cons.1 hb with rfl | hb'
      · exact absurd rfl hab
      · intro v hva hvb
        exact hd v hva v (List.mem_flatten.2 ⟨f b, List.mem_map_of_mem hb', hvb⟩) rfl
    · rcases List.mem_cons.1 hb with rfl | hb'
      · intro v hva hvb
        exact hd v hvb v (List.mem_flatten.2 ⟨f a, List.mem_map_of_mem ha', hva⟩) rfl
      · exact ih h2 ha' hb'

section
variable {α : Type} [CommSemiring α] [LinearOrder α]

theorem toTTree_fuel (net : Net α) (dens : List α) (isBern : Nat → Bool) (hw : WellOrdered net) :
    ∀ i fuel, i < fuel → toTTree net dens isBern fuel i = toTTree net dens isBern (i+1) i := by
  intro i
  induction i using Nat.strong_induction_on with
  | _ i ih =>
    intro fuel hlt
    obtain ⟨f, rfl⟩ : ∃ f, fuel = f + 1 := ⟨fuel - 1, by omega⟩
    simp only [toTTree]
    cases hn : net[i]? with
    | none => rfl
    | some x =>
      simp only
      have hc := hw i x hn
      have key : x.ch.map (toTTree net dens isBern f) = x.ch.map (toTTree net dens isBern i) := by
        apply List.map_congr_left; intro c hcm
        have hci := hc c hcm
        rw [ih c hci f (by omega), ih c hci i hci]
      split <;> simp [key]

theorem fillLocal_toTTree (net : Net α) (dens : List α) (isBern : Nat → Bool) :
    ∀ fuel i, FillLocal mpeFill (toTTree net dens isBern fuel i) := by
  intro fuel
  induction fuel with
  | zero => intro i; simp only [toTTree]; unfold FillLocal; intro p q a b hab v hv; simp at hv
  | succ f ih =>
    intro i
    simp only [toTTree]
    cases hn : net[i]? with
    | none => simp only; unfold FillLocal; intro p q a b hab v hv; simp at hv
    | some x =>
      simp only
      cases x.kind with
      | leaf =>
        simp only; unfold FillLocal
        intro p q a b hab v hv
        exact LeafP.mode_local _ _ x.scope a b hab v hv
      | sum =>
        simp only; unfold FillLocal
        intro c hc; simp only [List.mem_map] at hc
        obtain ⟨j, _, rfl⟩ := hc; exact ih j
      | prod =>
        simp only; unfold FillLocal
        intro c hc; simp only [List.mem_map] at hc
        obtain ⟨j, _, rfl⟩ := hc; exact ih j

variable (dom : Nat → Nat) (net : Net α) (dens : List α) (isBern : Nat → Bool) (e : Ev)
variable (hw : WellOrdered net) (hok : ∀ i (x : NNode α), net[i]? = some x → NodeOK dom net dens i x)

/-- unfolding of node `i` with exactly enough fuel -/
abbrev TT (i : Nat) : TCirc α := toTTree net dens isBern (i+1) i

include hw hok in
theorem TT_valid (i : Nat) (hi : i < net.length) : Circ.Valid dom (TT net dens isBern i).toCirc := by
  rw [TT, toCirc_toTTree]; exact valid_toTree dom net dens hw hok i hi

theorem TT_scope (i : Nat) (hi : i < net.length) : (TT net dens isBern i).scope = scopeOf net i := by
  rw [← scope_toCirc, TT, toCirc_toTTree]; exact scope_toTree net dens i i hi

include hw in
theorem eval_child (k c : Nat) (hck : c < k) (hk : k < net.length) :
    TCirc.eval e (toTTree net dens isBern k c) = (evalNet e dens net).getD c 0 := by
  unfold TCirc.eval
  rw [toCirc_toTTree, toTree_fuel net dens hw c k hck, evalNet_refines e dens net hw c (by omega)]

include hw in
/-- the tree-level arg-max at the unfolding of a stored sum node is the net-level one -/
theorem mpeBr_eq_sumMpeNet (k : Nat) (x : NNode α) (hn : net[k]? = some x) (p : List Nat) :
    mpeBr e p x.ws (x.ch.map (toTTree net dens isBern k)) = sumMpeNet (evalNet e dens net) x := by
  have hk : k < net.length := by
    rcases Nat.lt_or_ge k net.length with h | h
    · exact h
    · rw [List.getElem?_eq_none h] at hn; cases hn
  unfold mpeBr sumMpeNet
  congr 2
  rw [List.map_map]
  apply List.map_congr_left
  intro c hc
  exact eval_child net dens isBern e hw k c (hw k x hn c hc) hk

/-- `ord` visits every listed node once, parents before children (a topological order of the part of
the table it lists) -/
def TopoOrd (net : Net α) : List Nat → Prop
  | [] => True
  | k :: rest => k ∉ rest ∧ k < net.length ∧ (∀ c ∈ Net.chOf net k, c ∈ rest) ∧ TopoOrd net rest

/-- invariant of the table pass when the nodes `U` are still to be processed: the reached nodes of `U`
have pairwise disjoint scopes; running the tree pass of each of them on the current row gives the
target on its scope; everything else already holds the target. -/
structure Inv (target : Ev) (U : List Nat) (st : TDState) : Prop where
  disj : ∀ a b, a ∈ U → b ∈ U → st.reach a = true → st.reach b = true → a ≠ b →
    List.Disjoint (scopeOf net a) (scopeOf net b)
  on : ∀ j, j ∈ U → st.reach j = true → ∀ v ∈ scopeOf net j,
    target v = pass (mpeBr e) mpeFill [] (TT net dens isBern j) st.row v
  off : ∀ v, (∀ j, j ∈ U → st.reach j = true → v ∉ scopeOf net j) → target v = st.row v

theorem mpeBr_indep : ∀ (p q : List Nat) (ws : List α) (cs : List (TCirc α)), mpeBr e p ws cs = mpeBr e q ws cs :=
  fun _ _ _ _ => rfl

include hw hok in
theorem inv_step (target : Ev) (k : Nat) (rest : List Nat) (hknot : k ∉ rest) (hk : k < net.length)
    (hch : ∀ c ∈ (net[k]).ch, c ∈ rest) (hrest : ∀ j ∈ rest, j < net.length) (st : TDState)
    (h : Inv net dens isBern e target (k :: rest) st) :
    Inv net dens isBern e target rest (tdStep net (evalNet e dens net) isBern st k) := by
  have hn : net[k]? = some net[k] := by simp [hk]
  have hlocal := fun (c : TCirc α) (hv : Circ.Valid dom c.toCirc) (hf : FillLocal mpeFill c) =>
    pass_local (mpeBr e) mpeFill dom (mpeBr_indep e) c hv hf
  have hsck : scopeOf net k = (net[k]).scope := by simp [scopeOf, hn]
  have hne_k : ∀ j ∈ rest, j ≠ k := fun j hj hjk => hknot (hjk ▸ hj)
  have mem_tl : ∀ j ∈ rest, j ∈ k :: rest := fun j hj => List.mem_cons_of_mem _ hj
  have mem_hd : k ∈ k :: rest := List.mem_cons_self
  unfold tdStep
  rw [hn]
  simp only
  by_cases hr : st.reach k = true
  swap
  · -- not reached: nothing happens
    simp only [hr]
    refine ⟨fun a b ha hb => h.disj a b (mem_tl a ha) (mem_tl b hb), fun j hj => h.on j (mem_tl j hj), ?_⟩
    intro v hv
    apply h.off v
    intro j hj hrj
    rcases List.mem_cons.1 hj with rfl | hj'
    · exact absurd hrj hr
    · exact hv j hj' hrj
  simp only [hr, if_true]
  have hchlt : ∀ c ∈ (net[k]).ch, c < k := hw k _ hn
  have hnode := hok k _ hn
  unfold NodeOK at hnode
  have hTk : TT net dens isBern k = match (net[k]).kind with
      | .leaf => TCirc.leaf (net[k]).scope ((net[k]).leaf.fn (net[k]).scope (dens.getD k 0))
          ((net[k]).leaf.mode (isBern k)) (net[k]).leaf.cond
      | .sum => TCirc.sum (net[k]).scope (net[k]).ws ((net[k]).ch.map (toTTree net dens isBern k))
      | .prod => TCirc.prod (net[k]).scope ((net[k]).ch.map (toTTree net dens isBern k)) := by
    simp only [TT, toTTree, hn]
    cases (net[k]).kind <;> rfl
  have hchild : ∀ c ∈ (net[k]).ch, toTTree net dens isBern k c = TT net dens isBern c :=
    fun c hc => toTTree_fuel net dens isBern hw c k (hchlt c hc)
  have honk := h.on k mem_hd hr
  cases hkind : (net[k]).kind with
  | leaf =>
    rw [hkind] at hTk hnode
    simp only at hTk ⊢
    have hpass : ∀ y : Ev, pass (mpeBr e) mpeFill [] (TT net dens isBern k) y =
        writeScope (net[k]).scope ((net[k]).leaf.mode (isBern k) y) y := by
      intro y; rw [hTk]; simp [pass, mpeFill]
    refine ⟨fun a b ha hb => h.disj a b (mem_tl a ha) (mem_tl b hb), ?_, ?_⟩
    · intro j hj hrj v hv
      rw [h.on j (mem_tl j hj) hrj v hv]
      have hjn : j < net.length := hrest j hj
      apply hlocal _ (TT_valid dom net dens isBern hw hok j hjn) (fillLocal_toTTree net dens isBern _ _) [] [] _ _ _ v
        (by rw [TT_scope net dens isBern j hjn]; exact hv)
      intro w hwj
      rw [TT_scope net dens isBern j hjn] at hwj
      have hd := h.disj j k (mem_tl j hj) mem_hd hrj hr (hne_k j hj)
      dsimp only
      rw [writeScope_not_mem _ _ _ (fun hc => hd hwj (hsck ▸ hc))]
    · intro v hv
      dsimp only
      by_cases hvk : v ∈ (net[k]).scope
      · rw [honk v (hsck ▸ hvk), hpass]
      · rw [writeScope_not_mem _ _ _ hvk]
        apply h.off v
        intro j hj hrj
        rcases List.mem_cons.1 hj with rfl | hj'
        · rw [hsck]; exact hvk
        · exact hv j hj' hrj
  | prod =>
    rw [hkind] at hTk hnode
    simp only at hTk ⊢
    obtain ⟨hnd, hsc⟩ := hnode
    have hsub : ∀ c ∈ (net[k]).ch, ∀ v ∈ scopeOf net c, v ∈ scopeOf net k := by
      intro c hc v hv
      rw [hsck]; exact (hsc v).1 (List.mem_flatten.2 ⟨scopeOf net c, List.mem_map_of_mem hc, hv⟩)
    have hreach' : ∀ j, (((net[k]).ch.contains j || st.reach j) = true) → j ∈ (net[k]).ch ∨ st.reach j = true := by
      intro j hj
      simp only [Bool.or_eq_true] at hj
      rcases hj with h1 | h1
      · exact Or.inl (by simpa using h1)
      · exact Or.inr h1
    refine ⟨?_, ?_, ?_⟩
    · intro a b ha hb hra hrb hab
      rcases hreach' a hra with ha1 | ha1 <;> rcases hreach' b hrb with hb1 | hb1
      · exact disjoint_of_nodup_flatten_map (scopeOf net) _ hnd a b ha1 hb1 hab
      · intro v hva hvb
        exact h.disj k b mem_hd (mem_tl b hb) hr hb1 (hne_k b hb).symm (hsub a ha1 v hva) hvb
      · intro v hva hvb
        exact h.disj a k (mem_tl a ha) mem_hd ha1 hr (hne_k a ha) hva (hsub b hb1 v hvb)
      · exact h.disj a b (mem_tl a ha) (mem_tl b hb) ha1 hb1 hab
    · intro j hj hrj v hv
      rcases hreach' j hrj with hj1 | hj1
      · rw [honk v (hsub j hj1 v hv), hTk]
        simp only [pass]
        have hjn : j < net.length := hrest j hj
        have hmaps : ((net[k]).ch.map (toTTree net dens isBern k)).map scope = (net[k]).ch.map (scopeOf net) := by
          rw [List.map_map]; apply List.map_congr_left; intro c hc
          simp only [Function.comp]
          rw [hchild c hc]; exact TT_scope net dens isBern c (by have := hchlt c hc; omega)
        rw [← hchild j hj1]
        apply passAll_pointwise (mpeBr e) mpeFill dom (mpeBr_indep e) _ (by rw [hmaps]; exact hnd) _ _ [] [] 0 st.row
          _ (List.mem_map_of_mem hj1) v
        · rw [hchild j hj1, TT_scope net dens isBern j hjn]; exact hv
        · intro c hc; simp only [List.mem_map] at hc
          obtain ⟨i, hi, rfl⟩ := hc
          rw [hchild i hi]; exact TT_valid dom net dens isBern hw hok i (by have := hchlt i hi; omega)
        · intro c hc; simp only [List.mem_map] at hc
          obtain ⟨i, hi, rfl⟩ := hc
          exact fillLocal_toTTree net dens isBern _ _
      · exact h.on j (mem_tl j hj) hj1 v hv
    · intro v hv
      apply h.off v
      intro j hj hrj
      rcases List.mem_cons.1 hj with rfl | hj'
      · intro hvk
        rw [hsck] at hvk
        obtain ⟨s, hs, hvs⟩ := List.mem_flatten.1 ((hsc v).2 hvk)
        simp only [List.mem_map] at hs
        obtain ⟨c, hc, rfl⟩ := hs
        exact hv c (hch c hc) (by simp [hc]) hvs
      · exact hv j hj' (by simp [hrj])
  | sum =>
    rw [hkind] at hTk hnode
    simp only at hTk ⊢
    obtain ⟨hne, hlen, hsc⟩ := hnode
    -- the branch
    have hbr := mpeBr_eq_sumMpeNet net dens isBern e hw k _ hn
    have hblt : sumMpeNet (evalNet e dens net) net[k] < (net[k]).ch.length := by
      unfold sumMpeNet
      have hl : (List.zipWith (· * ·) (net[k]).ws ((net[k]).ch.map (fun c => (evalNet e dens net).getD c 0))).length
          = (net[k]).ch.length := by simp [hlen]
      have hne' : List.zipWith (· * ·) (net[k]).ws ((net[k]).ch.map (fun c => (evalNet e dens net).getD c 0)) ≠ [] := by
        intro h0; rw [h0] at hl; simp at hl; exact hne (List.eq_nil_of_length_eq_zero hl.symm)
      have := argmax_lt_length _ hne'
      rw [hl] at this; exact this
    generalize hb : sumMpeNet (evalNet e dens net) net[k] = b at hblt hbr ⊢
    have hcb : (net[k]).ch[b]? = some (net[k]).ch[b] := by simp [hblt]
    have hcmem : (net[k]).ch[b] ∈ (net[k]).ch := List.getElem_mem hblt
    generalize hcdef : (net[k]).ch[b] = c at hcb hcmem
    have hck : c < k := hchlt c hcmem
    have hcn : c < net.length := by omega
    have hcrest : c ∈ rest := hch c hcmem
    have hsceq : ∀ v, v ∈ scopeOf net c ↔ v ∈ scopeOf net k := by
      intro v; rw [hsck]; exact hsc c hcmem v
    have hpass : ∀ y : Ev, ∀ v ∈ scopeOf net c, pass (mpeBr e) mpeFill [] (TT net dens isBern k) y v
        = pass (mpeBr e) mpeFill [] (TT net dens isBern c) y v := by
      intro y v hv
      rw [hTk]
      simp only [pass, passAt_eq, hbr, List.getElem?_map, hcb, Option.map_some]
      rw [hchild c hcmem]
      exact hlocal _ (TT_valid dom net dens isBern hw hok c hcn) (fillLocal_toTTree net dens isBern _ _) _ _ y y
        (fun _ _ => rfl) v (by rw [TT_scope net dens isBern c hcn]; exact hv)
    have hreach' : ∀ j, ((((net[k]).ch[b]? == some j) || st.reach j) = true) → j = c ∨ st.reach j = true := by
      intro j hj
      simp only [Bool.or_eq_true] at hj
      rcases hj with h1 | h1
      · left; rw [hcb] at h1; have h2 : c = j := by simpa using h1
        exact h2.symm
      · exact Or.inr h1
    refine ⟨?_, ?_, ?_⟩
    · intro a b' ha hb' hra hrb hab
      rcases hreach' a hra with ha1 | ha1 <;> rcases hreach' b' hrb with hb1 | hb1
      · exact absurd (ha1.trans hb1.symm) hab
      · subst ha1; intro v hva hvb
        exact h.disj k b' mem_hd (mem_tl b' hb') hr hb1 (hne_k b' hb').symm ((hsceq v).1 hva) hvb
      · subst hb1; intro v hva hvb
        exact h.disj a k (mem_tl a ha) mem_hd ha1 hr (hne_k a ha) hva ((hsceq v).1 hvb)
      · exact h.disj a b' (mem_tl a ha) (mem_tl b' hb') ha1 hb1 hab
    · intro j hj hrj v hv
      rcases hreach' j hrj with hj1 | hj1
      · subst hj1
        rw [honk v ((hsceq v).1 hv)]; exact hpass st.row v hv
      · exact h.on j (mem_tl j hj) hj1 v hv
    · intro v hv
      apply h.off v
      intro j hj hrj
      rcases List.mem_cons.1 hj with rfl | hj'
      · intro hvk
        exact hv c hcrest (by simp [hcb]) ((hsceq v).2 hvk)
      · exact hv j hj' (by simp [hrj])

theorem TopoOrd.lt_length {net : Net α} : ∀ {ord : List Nat}, TopoOrd net ord → ∀ j ∈ ord, j < net.length
  | [], _, j, hj => by simp at hj
  | k :: rest, h, j, hj => by
      unfold TopoOrd at h
      rcases List.mem_cons.1 hj with rfl | hj'
      · exact h.2.1
      · exact TopoOrd.lt_length h.2.2.2 j hj'

include hw hok in
theorem inv_run (target : Ev) : ∀ ord : List Nat, TopoOrd net ord → ∀ st : TDState, Inv net dens isBern e target ord st →
    (ord.foldl (tdStep net (evalNet e dens net) isBern) st).row = target := by
  intro ord
  induction ord with
  | nil =>
    intro _ st h
    funext v
    simp only [List.foldl_nil]
    exact (h.off v (fun j hj => by simp at hj)).symm
  | cons k rest ih =>
    intro ht st h
    have ht' := ht
    unfold TopoOrd at ht'
    obtain ⟨hknot, hk, hch, hrest⟩ := ht'
    simp only [List.foldl_cons]
    apply ih hrest
    apply inv_step dom net dens isBern e hw hok target k rest hknot hk _ (TopoOrd.lt_length hrest) st h
    intro c hc
    apply hch c
    simp [Net.chOf, hk, hc]

include hw in
/-- reverse storage order of a children-first table is a topological order -/
theorem topoOrd_range_reverse : ∀ k, k ≤ net.length → TopoOrd net (List.range k).reverse := by
  intro k
  induction k with
  | zero => intro _; simp [TopoOrd]
  | succ k ih =>
    intro hk
    rw [List.range_succ, List.reverse_append]
    simp only [List.reverse_cons, List.reverse_nil, List.nil_append, List.cons_append]
    unfold TopoOrd
    refine ⟨by simp, by omega, ?_, ih (by omega)⟩
    intro c hc
    have hn : net[k]? = some net[k] := by simp [show k < net.length by omega]
    simp only [Net.chOf, hn] at hc
    have := hw k _ hn c hc
    simp [this]

end
end Deeprob
