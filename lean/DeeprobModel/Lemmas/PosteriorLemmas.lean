import DeeprobModel.Model.Posterior
import DeeprobModel.Spec.Softmax
import Mathlib.Algebra.Order.Field.Basic
import Mathlib.Tactic.Ring
import Mathlib.Tactic.Linarith
import Mathlib.Tactic.FieldSimp
set_option linter.unusedSimpArgs false
set_option linter.unusedVariables false
set_option linter.unusedSectionVars false
/-
Helper lemmas for C20: sums of quotients, `exp`/`log` algebra from the `ExpLog` laws, `np.argmax` under
strictly increasing maps.
-/
namespace Deeprob.C20
open Deeprob

section field
variable {F : Type} [Field F]

theorem tsum_map_div (xs : List F) (d : F) : tsum (xs.map (fun s => s / d)) = tsum xs / d := by
  induction xs with
  | nil => simp [tsum]
  | cons x xs ih => simp only [List.map_cons, tsum, ih]; ring

theorem tsum_zipWith_mul (w xs : List F) : tsum (List.zipWith (fun a b => a * b) w xs) = wsum w xs := by
  induction w generalizing xs with
  | nil => simp [tsum, wsum]
  | cons a w ih =>
    cases xs with
    | nil => simp [tsum, wsum]
    | cons x xs => simp only [List.zipWith_cons_cons, tsum, wsum, ih]

end field

section ordered
variable {F : Type} [Field F] [LinearOrder F] [IsStrictOrderedRing F]

theorem exp_sub (E : ExpLog F) (a b : F) : E.exp (a - b) = E.exp a / E.exp b := by
  have h := E.exp_add (a - b) b
  rw [sub_add_cancel] at h
  rw [h, mul_div_assoc, div_self (ne_of_gt (E.exp_pos b)), mul_one]

theorem tsum_exp_pos (E : ExpLog F) (zs : List F) (h : zs ≠ []) : 0 < tsum (zs.map E.exp) := by
  induction zs with
  | nil => exact absurd rfl h
  | cons z zs ih =>
    simp only [List.map_cons, tsum]
    cases zs with
    | nil => simpa [tsum] using E.exp_pos z
    | cons y ys => have := ih (by simp); have := E.exp_pos z; linarith

/-- `exp(log w_k + log l_k) = w_k·l_k` entry-wise -/
theorem classLL_exp (E : ExpLog F) (w ls : List F) (hw : ∀ x ∈ w, 0 < x) (hl : ∀ x ∈ ls, 0 < x) :
    (classLL E w (ls.map E.log)).map E.exp = List.zipWith (fun a b => a * b) w ls := by
  unfold classLL
  induction w generalizing ls with
  | nil => simp
  | cons a w ih =>
    cases ls with
    | nil => simp
    | cons l ls =>
      simp only [List.map_cons, List.zipWith_cons_cons]
      rw [ih ls (fun x hx => hw x (List.mem_cons_of_mem _ hx)) (fun x hx => hl x (List.mem_cons_of_mem _ hx)),
        E.exp_add, E.exp_log a (hw a List.mem_cons_self), E.exp_log l (hl l List.mem_cons_self)]

/-- exponentiating a log-soft-max divides the exponentials by their sum -/
theorem exp_logSoftmax (E : ExpLog F) (zs : List F) :
    (logSoftmax E zs).map E.exp = (zs.map E.exp).map (fun s => s / tsum (zs.map E.exp)) := by
  unfold logSoftmax
  rw [List.map_map, List.map_map]
  apply List.map_congr_left
  intro z hz
  have hne : zs ≠ [] := List.ne_nil_of_mem hz
  simp only [Function.comp]
  rw [exp_sub, E.exp_log _ (tsum_exp_pos E zs hne)]

theorem postArgmaxAux_map (f : F → F) (hf : ∀ a b, a < b ↔ f a < f b) (xs : List F) (i : Nat) (b : F) (bi : Nat) :
    postArgmaxAux (xs.map f) i (f b) bi = postArgmaxAux xs i b bi := by
  induction xs generalizing i b bi with
  | nil => rfl
  | cons x xs ih =>
    simp only [List.map_cons, postArgmaxAux]
    by_cases h : b < x
    · rw [if_pos h, if_pos ((hf b x).1 h)]; exact ih _ _ _
    · rw [if_neg h, if_neg (fun h' => h ((hf b x).2 h'))]; exact ih _ _ _

/-- a strictly increasing map does not change `np.argmax` (ties included: the first maximum stays first) -/
theorem argmaxL_map (f : F → F) (hf : ∀ a b, a < b ↔ f a < f b) (xs : List F) :
    argmaxL (xs.map f) = argmaxL xs := by
  cases xs with
  | nil => rfl
  | cons x xs => simp only [List.map_cons, argmaxL]; exact postArgmaxAux_map f hf xs 1 x 0

theorem exp_lt_iff (E : ExpLogMono F) (a b : F) : a < b ↔ E.exp a < E.exp b := by
  constructor
  · exact E.exp_lt a b
  · intro h
    by_contra hn
    rcases lt_or_eq_of_le (not_lt.1 hn) with h1 | h1
    · exact absurd (E.exp_lt b a h1) (not_lt.2 (le_of_lt h))
    · rw [h1] at h; exact lt_irrefl _ h

end ordered
end Deeprob.C20
