import DeeprobModel.Lemmas.XpcLemmas
import DeeprobModel.Spec.Structured
set_option linter.unusedSimpArgs false
set_option linter.unusedVariables false
/-
Structured decomposability of XPCs learned with `sd = True` (xpc.py: `learn_xpc`, `build_trees_dict`).

`scopes = conj_vars_l + [free_vars]`, `trees[k]` = spanning tree over `scopes[k]`.  The FAMILY of admissible
scopes (`InFamily`) consists of the column sets `colsAt scopes d` of the depths `d` and of the variable
sets of the sub-trees of the block trees.  Part I: any two members are nested or disjoint.  Part II: every
product scope of `buildXpc p` is in the family when `p` follows the sd discipline (`sdAtB`).  Part III
(`chain_*`): so is every scope `get_scopes()` reports for a Chow-Liu leaf whose tree comes from
`trees_dict`.
-/
namespace Deeprob
open List XC

namespace Xpc

/-- the block tree unfolded (`build_tree_structure`) -/
def blockTree (t : List Int) : RTree :=
  match Clt.rootOf t with
  | some r => Clt.build t t.length r
  | none => .node 0 []

/-- the admissible scopes under the sd discipline -/
def InFamily (trees : List (List Int)) (scopes : List (List Nat)) (s : List Nat) : Prop :=
  (∃ d, scopeEq s (colsAt scopes d)) ∨
  (∃ k, k < scopes.length ∧ ∃ u ∈ (blockTree (trees.getD k [])).subtrees,
    scopeEq s (Clt.lab (scopes.getD k []) u))

/-- what `blocksOkB` decides -/
structure BlocksOk (trees : List (List Int)) (scopes : List (List Nat)) : Prop where
  len : trees.length = scopes.length
  nodup : scopes.flatten.Nodup
  tree : ∀ k, k < scopes.length → Clt.isTree (trees.getD k []) = true ∧
    (trees.getD k []).length = (scopes.getD k []).length

theorem blocksOkB_imp {trees : List (List Int)} {scopes : List (List Nat)} (h : blocksOkB trees scopes = true) :
    BlocksOk trees scopes := by
  simp only [blocksOkB, Bool.and_eq_true, beq_iff_eq, nodupB_iff, List.all_eq_true] at h
  obtain ⟨⟨h1, h2⟩, h3⟩ := h
  refine ⟨h1, h2, ?_⟩
  intro k hk
  have hk' : k < trees.length := h1 ▸ hk
  have hm : (trees[k], scopes[k]) ∈ trees.zip scopes := by
    rw [List.mem_iff_getElem]
    exact ⟨k, by simp [hk, hk'], by simp⟩
  have := h3 _ hm
  simp only [Bool.and_eq_true, beq_iff_eq] at this
  simpa [List.getD_eq_getElem?_getD, hk, hk'] using this

section family
variable {trees : List (List Int)} {scopes : List (List Nat)}

theorem block_lab_perm (hb : BlocksOk trees scopes) {k : Nat} (hk : k < scopes.length) :
    (Clt.lab (scopes.getD k []) (blockTree (trees.getD k []))).Perm (scopes.getD k []) := by
  obtain ⟨ht, hl⟩ := hb.tree k hk
  obtain ⟨r, hr, hperm⟩ := Clt.isTree_perm ht
  unfold blockTree
  rw [hr]
  exact Clt.lab_build_perm _ hl.symm hperm

theorem colsAt_mono {d d' : Nat} (h : d ≤ d') : ∀ v ∈ colsAt scopes d', v ∈ colsAt scopes d := by
  intro v hv
  unfold colsAt at hv ⊢
  obtain ⟨l, hl, hvl⟩ := List.mem_flatten.1 hv
  have : scopes.drop d' = (scopes.drop d).drop (d' - d) := by
    rw [List.drop_drop]; congr 1; omega
  rw [this] at hl
  exact List.mem_flatten.2 ⟨l, List.mem_of_mem_drop hl, hvl⟩

theorem block_sub_colsAt {k d : Nat} (hk : k < scopes.length) (hdk : d ≤ k) :
    ∀ v ∈ scopes.getD k [], v ∈ colsAt scopes d := by
  intro v hv
  unfold colsAt
  refine List.mem_flatten.2 ⟨scopes.getD k [], ?_, hv⟩
  rw [List.mem_iff_getElem]
  refine ⟨k - d, by simp; omega, ?_⟩
  simp [List.getD_eq_getElem?_getD, hk]
  congr 1; omega

theorem block_disj_colsAt (hnd : scopes.flatten.Nodup) {k d : Nat} (hk : k < scopes.length) (hkd : k < d) :
    ∀ v, ¬ (v ∈ scopes.getD k [] ∧ v ∈ colsAt scopes d) := by
  rintro v ⟨hv1, hv2⟩
  have hsplit : scopes.flatten = (scopes.take d).flatten ++ (scopes.drop d).flatten := by
    rw [← List.flatten_append, List.take_append_drop]
  rw [hsplit, List.nodup_append] at hnd
  refine hnd.2.2 v ?_ v hv2 rfl
  refine List.mem_flatten.2 ⟨scopes.getD k [], ?_, hv1⟩
  rw [List.mem_iff_getElem]
  refine ⟨k, by simp; omega, ?_⟩
  simp [List.getD_eq_getElem?_getD, hk]

theorem blocks_disj (hnd : scopes.flatten.Nodup) {k k' : Nat} (hk : k < scopes.length) (hk' : k' < scopes.length)
    (hne : k ≠ k') : ∀ v, ¬ (v ∈ scopes.getD k [] ∧ v ∈ scopes.getD k' []) := by
  wlog hlt : k < k' generalizing k k'
  · intro v hv
    exact this hk' hk (Ne.symm hne) (by omega) v ⟨hv.2, hv.1⟩
  intro v hv
  exact block_disj_colsAt hnd hk (show k < k' from hlt) v ⟨hv.1, block_sub_colsAt hk' (le_refl _) v hv.2⟩

theorem subtree_sub_block (hb : BlocksOk trees scopes) {k : Nat} (hk : k < scopes.length) {u : RTree}
    (hu : u ∈ (blockTree (trees.getD k [])).subtrees) :
    ∀ v ∈ Clt.lab (scopes.getD k []) u, v ∈ scopes.getD k [] := fun v hv =>
  (block_lab_perm hb hk).mem_iff.1 (Clt.subtree_lab_sub _ _ u hu v hv)

/-- **Part I** — two admissible scopes are nested or disjoint -/
theorem inFamily_laminar (hb : BlocksOk trees scopes) {a b : List Nat} (ha : InFamily trees scopes a)
    (hB : InFamily trees scopes b) :
    (∀ v ∈ a, v ∈ b) ∨ (∀ v ∈ b, v ∈ a) ∨ (∀ v, ¬ (v ∈ a ∧ v ∈ b)) := by
  -- a column set against a sub-tree set
  have mixed : ∀ {x y : List Nat} {d k : Nat} {u : RTree}, scopeEq x (colsAt scopes d) → k < scopes.length →
      u ∈ (blockTree (trees.getD k [])).subtrees → scopeEq y (Clt.lab (scopes.getD k []) u) →
      (∀ v ∈ y, v ∈ x) ∨ (∀ v, ¬ (v ∈ x ∧ v ∈ y)) := by
    intro x y d k u hx hk hu hy
    by_cases hdk : d ≤ k
    · left
      intro v hv
      exact (hx v).2 (block_sub_colsAt hk hdk v (subtree_sub_block hb hk hu v ((hy v).1 hv)))
    · right
      rintro v ⟨hv1, hv2⟩
      exact block_disj_colsAt hb.nodup hk (by omega) v
        ⟨subtree_sub_block hb hk hu v ((hy v).1 hv2), (hx v).1 hv1⟩
  rcases ha with ⟨d, hd⟩ | ⟨k, hk, u, hu, hau⟩ <;> rcases hB with ⟨d', hd'⟩ | ⟨k', hk', u', hu', hbu⟩
  · rcases Nat.le_total d d' with h | h
    · exact Or.inr (Or.inl (fun v hv => (hd v).2 (colsAt_mono h v ((hd' v).1 hv))))
    · exact Or.inl (fun v hv => (hd' v).2 (colsAt_mono h v ((hd v).1 hv)))
  · rcases mixed hd hk' hu' hbu with h | h
    · exact Or.inr (Or.inl h)
    · exact Or.inr (Or.inr h)
  · rcases mixed hd' hk hu hau with h | h
    · exact Or.inl h
    · exact Or.inr (Or.inr (fun v hv => h v ⟨hv.2, hv.1⟩))
  · by_cases hkk : k = k'
    · subst hkk
      have hnd : (Clt.lab (scopes.getD k []) (blockTree (trees.getD k []))).Nodup := by
        rw [(block_lab_perm hb hk).nodup_iff]
        have := hb.nodup
        rw [List.nodup_flatten] at this
        refine this.1 _ ?_
        rw [List.mem_iff_getElem]
        exact ⟨k, hk, by simp [List.getD_eq_getElem?_getD, hk]⟩
      rcases Clt.subtrees_laminar _ _ hnd u hu u' hu' with h | h | h
      · exact Or.inl (fun v hv => (hbu v).2 (h v ((hau v).1 hv)))
      · exact Or.inr (Or.inl (fun v hv => (hau v).2 (h v ((hbu v).1 hv))))
      · exact Or.inr (Or.inr (fun v hv => h v ⟨(hau v).1 hv.1, (hbu v).1 hv.2⟩))
    · refine Or.inr (Or.inr ?_)
      rintro v ⟨hv1, hv2⟩
      exact blocks_disj hb.nodup hk hk' hkk v
        ⟨subtree_sub_block hb hk hu v ((hau v).1 hv1), subtree_sub_block hb hk' hu' v ((hbu v).1 hv2)⟩

theorem laminar_of_family (hb : BlocksOk trees scopes) (F : List (List Nat))
    (h : ∀ s ∈ F, InFamily trees scopes s) : Laminar F := by
  unfold Laminar
  induction F with
  | nil => exact List.Pairwise.nil
  | cons a F ih =>
    refine List.Pairwise.cons ?_ (ih (fun s hs => h s (List.mem_cons_of_mem _ hs)))
    intro b hb'
    exact inFamily_laminar hb (h a List.mem_cons_self) (h b (List.mem_cons_of_mem _ hb'))

theorem inFamily_of_scopeEq {a b : List Nat} (h : scopeEq a b) (hb : InFamily trees scopes b) :
    InFamily trees scopes a := by
  rcases hb with ⟨d, hd⟩ | ⟨k, hk, u, hu, hbu⟩
  · exact Or.inl ⟨d, h.trans hd⟩
  · exact Or.inr ⟨k, hk, u, hu, h.trans hbu⟩

/-- a whole block is in the family (the root sub-tree of its tree) -/
theorem inFamily_block (hb : BlocksOk trees scopes) {k : Nat} (hk : k < scopes.length) {s : List Nat}
    (hs : scopeEq s (scopes.getD k [])) : InFamily trees scopes s :=
  Or.inr ⟨k, hk, _, Clt.subtrees_self _, hs.trans (scopeEq_of_perm (block_lab_perm hb hk)).symm⟩

end family
end Xpc

/-! ### Part II — the scopes of the built circuit -/

section scopes
variable {α : Type} [CommSemiring α]

theorem prodScopes_mkProd (cs : List (XC α)) :
    (mkProd cs).prodScopes = (mkProd cs).scope :: (cs.map prodScopes).flatten := by
  unfold mkProd; rw [prodScopes, prodScopesL_eq]; rfl

theorem prodScopes_mkSum (ws : List α) (cs : List (XC α)) :
    (mkSum ws cs).prodScopes = (cs.map prodScopes).flatten := by
  unfold mkSum; rw [prodScopes, prodScopesL_eq]

theorem cltScopes_mkProd (cs : List (XC α)) : (mkProd cs).cltScopes = (cs.map cltScopes).flatten := by
  unfold mkProd; rw [cltScopes, cltScopesL_eq]

theorem cltScopes_mkSum (ws : List α) (cs : List (XC α)) : (mkSum ws cs).cltScopes = (cs.map cltScopes).flatten := by
  unfold mkSum; rw [cltScopes, cltScopesL_eq]

theorem prodScopes_ind (v k : Nat) : (XC.ind (α := α) v k).prodScopes = [] := by
  unfold XC.ind; split <;> simp [prodScopes]

theorem cltScopes_ind (v k : Nat) : (XC.ind (α := α) v k).cltScopes = [] := by
  unfold XC.ind; split <;> simp [cltScopes]

theorem flatten_map_nil {β γ : Type} (f : β → List γ) (l : List β) (h : ∀ x ∈ l, f x = []) :
    (l.map f).flatten = [] := by
  induction l with
  | nil => rfl
  | cons a l ih =>
    simp only [List.map_cons, List.flatten_cons, h a List.mem_cons_self, List.nil_append]
    exact ih (fun x hx => h x (List.mem_cons_of_mem _ hx))

theorem conjProd_scopes (cols a : List Nat) :
    (conjProd (α := α) cols a).prodScopes = [(conjProd (α := α) cols a).scope] ∧
    (conjProd (α := α) cols a).cltScopes = [] := by
  unfold conjProd
  rw [prodScopes_mkProd, cltScopes_mkProd]
  constructor
  · rw [flatten_map_nil]
    intro x hx
    obtain ⟨v, _, k, _, rfl⟩ := mem_zipWith_left _ _ _ _ hx
    exact prodScopes_ind v k
  · apply flatten_map_nil
    intro x hx
    obtain ⟨v, _, k, _, rfl⟩ := mem_zipWith_left _ _ _ _ hx
    exact cltScopes_ind v k

/-- product scopes and CLT scopes of a leaf: the only product scope a non-CLT leaf can contain is its own
column list; only the Chow-Liu branch contributes `get_scopes()` -/
theorem buildLeaf_scopes (useClt det : Bool) (cols : List Nat) (isConj isNaive : Bool)
    (disc : List (List Nat)) (par : LeafPar α) (hi : LeafInv useClt det cols isConj isNaive disc par) :
    (∀ s ∈ (buildLeaf useClt det cols isConj isNaive disc par).prodScopes, s = cols) ∧
    (buildLeaf useClt det cols isConj isNaive disc par).cltScopes =
      if Xpc.isCltLeaf useClt isConj isNaive then cltGetScopes par.cltScope par.cltPred else [] := by
  have hconj : ∀ a : List Nat, a.length = cols.length → (conjProd (α := α) cols a).scope = cols := fun a ha =>
    zipWith_scope (α := α) XC.ind (fun v k => by unfold XC.ind; split <;> rfl) cols a ha
  unfold buildLeaf Xpc.isCltLeaf
  unfold LeafInv at hi
  by_cases h1 : isConj = true
  · simp only [h1, if_true] at hi ⊢
    obtain ⟨hp, hc⟩ := conjProd_scopes (α := α) cols par.row0
    rw [hp, hc, hconj _ hi]
    simp
  · simp only [h1, if_false, Bool.false_eq_true] at hi ⊢
    by_cases h2 : (isNaive || !useClt) = true
    · simp only [h2, if_true] at hi ⊢
      by_cases h3 : mleBranch det disc = true
      · simp only [h3, if_true] at hi ⊢
        unfold learnMle
        split
        · simp [prodScopes, cltScopes]
        · rw [prodScopes, cltScopes, prodScopesL_eq, cltScopesL_eq, flatten_map_nil, flatten_map_nil]
          · simp
          · intro x hx
            obtain ⟨v, _, q, _, rfl⟩ := mem_zipWith_left _ _ _ _ hx
            simp [cltScopes]
          · intro x hx
            obtain ⟨v, _, q, _, rfl⟩ := mem_zipWith_left _ _ _ _ hx
            simp [prodScopes]
      · simp only [h3, if_false, Bool.false_eq_true] at hi ⊢
        obtain ⟨hdne, hlen, hw⟩ := hi
        unfold buildDisjunction
        simp only [List.length_map]
        split
        · rw [prodScopes_mkSum, cltScopes_mkSum]
          constructor
          · intro s hs
            obtain ⟨l, hl, hsl⟩ := List.mem_flatten.1 hs
            obtain ⟨x, hx, rfl⟩ := List.mem_map.1 hl
            obtain ⟨a, ha, rfl⟩ := List.mem_map.1 hx
            rw [(conjProd_scopes (α := α) cols a).1, hconj a (hlen a ha)] at hsl
            simpa using hsl
          · simp only [Bool.not_true, Bool.false_and, Bool.false_eq_true, if_false, h2, Bool.not_true,
              Bool.and_false]
            apply flatten_map_nil
            intro x hx
            obtain ⟨a, ha, rfl⟩ := List.mem_map.1 hx
            exact (conjProd_scopes (α := α) cols a).2
        · cases disc with
          | nil => exact absurd rfl hdne
          | cons a0 rest =>
            simp only [List.map_cons, List.headD_cons]
            rw [(conjProd_scopes (α := α) cols a0).1, (conjProd_scopes (α := α) cols a0).2,
              hconj a0 (hlen a0 List.mem_cons_self)]
            simp [h2]
    · simp only [h2, if_false, Bool.false_eq_true] at hi ⊢
      simp [prodScopes, cltScopes, h1, h2]

theorem flattenChild_prodScopes : (x : XC α) → ∀ f ∈ flattenChild x, ∀ s ∈ f.prodScopes, s ∈ x.prodScopes
  | XC.bern v q0 q1, f, hf, s, hs => by simp only [flattenChild, List.mem_singleton] at hf; exact hf ▸ hs
  | XC.clt _ _ _, f, hf, s, hs => by simp only [flattenChild, List.mem_singleton] at hf; exact hf ▸ hs
  | XC.prod sc cs, f, hf, s, hs => by
    simp only [flattenChild] at hf
    rw [prodScopes, prodScopesL_eq]
    exact List.mem_cons_of_mem _ (List.mem_flatten.2 ⟨_, List.mem_map_of_mem hf, hs⟩)
  | XC.sum sc ws cs, f, hf, s, hs => by
    simp only [flattenChild] at hf
    split at hf
    · rw [prodScopes, prodScopesL_eq]
      exact List.mem_flatten.2 ⟨_, List.mem_map_of_mem hf, hs⟩
    · simp only [List.mem_singleton] at hf; exact hf ▸ hs

theorem flattenChild_cltScopes : (x : XC α) → ∀ f ∈ flattenChild x, ∀ s ∈ f.cltScopes, s ∈ x.cltScopes
  | XC.bern v q0 q1, f, hf, s, hs => by simp only [flattenChild, List.mem_singleton] at hf; exact hf ▸ hs
  | XC.clt _ _ _, f, hf, s, hs => by simp only [flattenChild, List.mem_singleton] at hf; exact hf ▸ hs
  | XC.prod sc cs, f, hf, s, hs => by
    simp only [flattenChild] at hf
    rw [cltScopes, cltScopesL_eq]
    exact List.mem_flatten.2 ⟨_, List.mem_map_of_mem hf, hs⟩
  | XC.sum sc ws cs, f, hf, s, hs => by
    simp only [flattenChild] at hf
    split at hf
    · rw [cltScopes, cltScopesL_eq]
      exact List.mem_flatten.2 ⟨_, List.mem_map_of_mem hf, hs⟩
    · simp only [List.mem_singleton] at hf; exact hf ▸ hs

end scopes

namespace Xpc
variable {α : Type}

theorem sdAllB_iff (useClt : Bool) (dict : List (List Int × List Nat)) (scopes : List (List Nat))
    (l : List (Part α)) (d : Nat) :
    sdAllB useClt dict scopes l d = true ↔ ∀ s ∈ l, sdAtB useClt dict scopes s d = true := by
  induction l with
  | nil => simp [sdAllB]
  | cons a l ih => simp [sdAllB, ih]

theorem dictLookup_mem {d : List (List Int × List Nat)} {n : Nat} {e : List Int × List Nat}
    (h : dictLookup d n = some e) : e ∈ d := by
  unfold dictLookup at h
  exact List.mem_reverse.1 (List.mem_of_find?_eq_some h)


/-! ### Part II, the induction -/

section induction
variable {α : Type} [Field α] [LinearOrder α] [IsStrictOrderedRing α]
variable {trees : List (List Int)} {scopes : List (List Nat)}

/-- product scopes and CLT scopes of the circuit built for `p` are admissible -/
def ScopesIn (trees : List (List Int)) (scopes : List (List Nat)) (x : XC α) : Prop :=
  (∀ s ∈ x.prodScopes, InFamily trees scopes s) ∧ (∀ s ∈ x.cltScopes, InFamily trees scopes s)

theorem scopesIn_flatProd (cs : List (XC α)) (hsc : InFamily trees scopes (mkProd (cs.flatMap flattenChild)).scope)
    (h : ∀ c ∈ cs, ScopesIn trees scopes c) : ScopesIn trees scopes (mkProd (cs.flatMap flattenChild)) := by
  constructor
  · intro s hs
    rw [prodScopes_mkProd] at hs
    rcases List.mem_cons.1 hs with rfl | hs
    · exact hsc
    · obtain ⟨l, hl, hsl⟩ := List.mem_flatten.1 hs
      obtain ⟨f, hf, rfl⟩ := List.mem_map.1 hl
      obtain ⟨c, hc, hfc⟩ := List.mem_flatMap.1 hf
      exact (h c hc).1 s (flattenChild_prodScopes c f hfc s hsl)
  · intro s hs
    rw [cltScopes_mkProd] at hs
    obtain ⟨l, hl, hsl⟩ := List.mem_flatten.1 hs
    obtain ⟨f, hf, rfl⟩ := List.mem_map.1 hl
    obtain ⟨c, hc, hfc⟩ := List.mem_flatMap.1 hf
    exact (h c hc).2 s (flattenChild_cltScopes c f hfc s hsl)

theorem scopesIn_leaf (hb : BlocksOk trees scopes) (useClt det : Bool)
    (hchain : ∀ e ∈ treesDict trees scopes, ∀ s ∈ cltGetScopes e.2 e.1, InFamily trees scopes s)
    (cols : List Nat) (isConj isNaive : Bool) (disc : List (List Nat)) (par : LeafPar α)
    (hi : LeafInv useClt det cols isConj isNaive disc par) (hcols : InFamily trees scopes cols)
    (hclt : isCltLeaf useClt isConj isNaive = true →
      dictLookup (treesDict trees scopes) cols.length = some (par.cltPred, par.cltScope)) :
    ScopesIn trees scopes (buildLeaf useClt det cols isConj isNaive disc par) := by
  obtain ⟨h1, h2⟩ := buildLeaf_scopes useClt det cols isConj isNaive disc par hi
  refine ⟨fun s hs => (h1 s hs) ▸ hcols, ?_⟩
  rw [h2]
  split
  · rename_i hc
    intro s hs
    exact hchain _ (dictLookup_mem (hclt hc)) s hs
  · intro s hs; simp at hs

theorem sd_scopes_inFamily (hb : BlocksOk trees scopes) (useClt det : Bool)
    (hchain : ∀ e ∈ treesDict trees scopes, ∀ s ∈ cltGetScopes e.2 e.1, InFamily trees scopes s) :
    (p : Part α) → (d : Nat) → PartInv useClt det p → ParOK useClt det p →
      sdAtB useClt (treesDict trees scopes) scopes p d = true →
      ScopesIn trees scopes (buildXpc useClt det p)
  | .leaf rows cols isConj isNaive disc par, d, hi, hp, hsd => by
    unfold PartInv at hi
    unfold buildXpc
    simp only [sdAtB, Bool.and_eq_true, sameSetB_iff, Bool.or_eq_true, Bool.not_eq_true', beq_iff_eq] at hsd
    refine scopesIn_leaf hb useClt det hchain cols isConj isNaive disc par hi.2.2.2.2 (Or.inl ⟨d, hsd.1⟩) ?_
    intro hc
    rcases hsd.2 with h | h
    · rw [hc] at h; cases h
    · exact h
  | .horiz rows cols subs, d, hi, hp, hsd => by
    unfold PartInv at hi
    unfold ParOK at hp
    simp only [sdAtB, Bool.and_eq_true, sameSetB_iff, sdAllB_iff] at hsd
    have ih : ∀ s ∈ subs, ScopesIn trees scopes (buildXpc useClt det s) := fun s hs =>
      sd_scopes_inFamily hb useClt det hchain s d (hi.2.2.2.2.2.2 s hs).2.2 (hp s hs) (hsd.2 s hs)
    unfold buildXpc
    rw [buildXpcL_eq]
    constructor
    · intro s hs
      rw [prodScopes_mkSum] at hs
      obtain ⟨l, hl, hsl⟩ := List.mem_flatten.1 hs
      obtain ⟨c, hc, rfl⟩ := List.mem_map.1 hl
      obtain ⟨q, hq, rfl⟩ := List.mem_map.1 hc
      exact (ih q hq).1 s hsl
    · intro s hs
      rw [cltScopes_mkSum] at hs
      obtain ⟨l, hl, hsl⟩ := List.mem_flatten.1 hs
      obtain ⟨c, hc, rfl⟩ := List.mem_map.1 hl
      obtain ⟨q, hq, rfl⟩ := List.mem_map.1 hc
      exact (ih q hq).2 s hsl
  | .vert rows cols subs, d, hi, hp, hsd => by
    have hbuilt := buildXpc_built (fun _ => 2) (fun _ => rfl) useClt det _ hi hp
    unfold PartInv at hi
    unfold ParOK at hp
    simp only [sdAtB, Bool.and_eq_true, sameSetB_iff] at hsd
    obtain ⟨hcols, hv⟩ := hsd
    have ih : ∀ s ∈ subs, ∀ d', PartInv useClt det s → ParOK useClt det s →
        sdAtB useClt (treesDict trees scopes) scopes s d' = true → ScopesIn trees scopes (buildXpc useClt det s) :=
      fun s hs d' h1 h2 h3 => sd_scopes_inFamily hb useClt det hchain s d' h1 h2 h3
    have hsub : ∀ s ∈ subs, ScopesIn trees scopes (buildXpc useClt det s) := by
      match subs, hv with
      | [a], hv =>
        simp only [sdVertB] at hv
        intro s hs
        simp only [List.mem_singleton] at hs
        subst hs
        exact ih s (by simp) d (hi.2.2.2.2.2 s (by simp)).2 (hp s (by simp)) hv
      | [a, b], hv =>
        simp only [sdVertB, Bool.and_eq_true] at hv
        intro s hs
        simp only [List.mem_cons, List.mem_nil_iff, or_false] at hs
        rcases hs with rfl | rfl
        · -- the block leaf
          have hia := (hi.2.2.2.2.2 s (by simp)).2
          match s, hv.1, hia with
          | .leaf r c isConj isNaive disc par, hbl, hia =>
            simp only [blockLeafB, Bool.and_eq_true, sameSetB_iff, Bool.or_eq_true] at hbl
            unfold PartInv at hia
            unfold buildXpc
            have hdlt : d < scopes.length := by
              by_contra hge
              have : scopes.getD d [] = [] := by
                rw [List.getD_eq_getElem?_getD, List.getElem?_eq_none (by omega)]; rfl
              rw [this] at hbl
              cases c with
              | nil => exact hia.2.2.1 rfl
              | cons v c => exact absurd ((hbl.1 v).1 List.mem_cons_self) (by simp)
            refine scopesIn_leaf hb useClt det hchain c isConj isNaive disc par hia.2.2.2.2
              (inFamily_block hb hdlt hbl.1) ?_
            intro hc
            unfold isCltLeaf at hc
            rcases hbl.2 with h | h <;> simp [h] at hc
        · exact ih s (by simp) (d + 1) (hi.2.2.2.2.2 s (by simp)).2 (hp s (by simp)) hv.2
    unfold buildXpc
    rw [buildXpcL_eq]
    apply scopesIn_flatProd
    · have := hbuilt.scope
      unfold buildXpc at this
      rw [buildXpcL_eq] at this
      exact Or.inl ⟨d, this.trans hcols⟩
    · intro c hc
      obtain ⟨q, hq, rfl⟩ := List.mem_map.1 hc
      exact hsub q hq

end induction

end Xpc
end Deeprob
