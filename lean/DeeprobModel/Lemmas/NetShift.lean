import DeeprobModel.Model.RewriteNetClt
import DeeprobModel.Lemmas.RewriteNetLemmas
import DeeprobModel.Lemmas.CheckLemmas
set_option linter.unusedSectionVars false
set_option linter.unusedSimpArgs false
set_option linter.unusedVariables false
/-
Evaluation of a table stored behind another one (`shiftNet`), and independence of the supplied densities.
-/
namespace Deeprob
open Net
variable {α : Type} [CommSemiring α]

theorem evalNode_shift (e : Ev) (dens densT : List α) (va vT : List α) (x : NNode α)
    (hd : dens.getD (va.length + vT.length) 0 = densT.getD vT.length 0) :
    evalNode e dens (va ++ vT) (shiftNode va.length x) = evalNode e densT vT x := by
  unfold evalNode shiftNode
  simp only [List.length_append, hd]
  have : (x.ch.map (fun c => c + va.length)).map (fun c => (va ++ vT).getD c 0) = x.ch.map (fun c => vT.getD c 0) := by
    rw [List.map_map]; apply List.map_congr_left; intro c _
    simp only [Function.comp, List.getD_eq_getElem?_getD]
    rw [List.getElem?_append_right (by omega)]
    congr 2; omega
  rw [this]

/-- a table stored behind `a`, children shifted by `|a|`, evaluates as it does on its own -/
theorem evalNet_append_shift (e : Ev) (dens densT : List α) (a T : Net α)
    (hd : ∀ j, dens.getD (a.length + j) 0 = densT.getD j 0) :
    evalNet e dens (a ++ shiftNet a.length T) = evalNet e dens a ++ evalNet e densT T := by
  rw [evalNet_append]
  have hl : (evalNet e dens a).length = a.length := evalNet_length e dens a
  generalize evalNet e dens a = va at hl
  have key : ∀ (S : Net α) (vT : List α),
      (shiftNet a.length S).foldl (fun vals x => vals ++ [evalNode e dens vals x]) (va ++ vT)
        = va ++ S.foldl (fun vals x => vals ++ [evalNode e densT vals x]) vT := by
    intro S
    induction S with
    | nil => intro vT; rfl
    | cons x S ih =>
      intro vT
      simp only [shiftNet, List.map_cons, List.foldl_cons]
      have := evalNode_shift e dens densT va vT x (by rw [hl]; exact hd _)
      rw [hl] at this
      rw [this, List.append_assoc]
      exact ih _
  have := key T []
  simpa [evalNet] using this

theorem nval_append_shift (e : Ev) (dens densT : List α) (a T : Net α)
    (hd : ∀ j, dens.getD (a.length + j) 0 = densT.getD j 0) (j : Nat) (hj : j < T.length) :
    nval e dens (a ++ shiftNet a.length T) (a.length + j) = nval e densT T j := by
  unfold nval
  rw [evalNet_append_shift e dens densT a T hd, List.getD_eq_getElem?_getD, List.getD_eq_getElem?_getD,
    List.getElem?_append_right (by rw [evalNet_length]; omega), evalNet_length]
  congr 2; omega

/-- tables without continuous / Chow-Liu leaves do not read the supplied densities -/
def NoDens (T : Net α) : Prop := ∀ x ∈ T, x.kind = .leaf → ∃ v tbl, x.leaf = .cat v tbl

theorem evalNet_noDens (e : Ev) (d1 d2 : List α) (T : Net α) (h : NoDens T) : evalNet e d1 T = evalNet e d2 T := by
  unfold evalNet
  suffices key : ∀ v0 : List α, T.foldl (fun vals x => vals ++ [evalNode e d1 vals x]) v0
      = T.foldl (fun vals x => vals ++ [evalNode e d2 vals x]) v0 from key []
  induction T with
  | nil => intro v0; rfl
  | cons x T ih =>
    intro v0
    simp only [List.foldl_cons]
    have hx : evalNode e d1 v0 x = evalNode e d2 v0 x := by
      unfold evalNode
      cases hk : x.kind with
      | leaf =>
        obtain ⟨v, tbl, hl⟩ := h x List.mem_cons_self hk
        simp only [hl, LeafP.fn]
      | sum => rfl
      | prod => rfl
    rw [hx]
    exact ih (fun y hy => h y (List.mem_cons_of_mem _ hy)) _

/-- the values of a table depend on the supplied densities only at the table's own indices -/
theorem evalNet_dens_congr (e : Ev) (d1 d2 : List α) (T : Net α) (h : ∀ j, j < T.length → d1.getD j 0 = d2.getD j 0) :
    evalNet e d1 T = evalNet e d2 T := by
  induction T using List.reverseRecOn with
  | nil => rfl
  | append_singleton T x ih =>
    rw [evalNet_append_one, evalNet_append_one, ih (fun j hj => h j (by simp; omega))]
    congr 2
    unfold evalNode
    rw [evalNet_length, h T.length (by simp)]

end Deeprob
