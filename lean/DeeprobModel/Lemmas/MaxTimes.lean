import DeeprobModel.Model.Sum
import Mathlib.Algebra.Order.Ring.Defs
import Mathlib.Algebra.Order.Ring.Unbundled.Basic
import Mathlib.Algebra.Order.Field.Basic
import Mathlib.Order.Lattice
/-
The max-times (Viterbi) carrier: non-negative elements of a linearly ordered commutative semiring with
`+ := max`, `* := *`.  It is a commutative semiring, so every theorem proved for an arbitrary
`CommSemiring` (marginalisation of circuits, message passing on Chow-Liu trees) holds at it:
"sum over completions" becomes "max over completions".
-/
namespace Deeprob

structure MaxTimes (α : Type) [CommSemiring α] [LinearOrder α] [IsStrictOrderedRing α] where
  val : α
  nonneg : 0 ≤ val

namespace MaxTimes
variable {α : Type} [CommSemiring α] [LinearOrder α] [IsStrictOrderedRing α]

@[ext] theorem ext {a b : MaxTimes α} (h : a.val = b.val) : a = b := by
  cases a; cases b; simp only at h; subst h; rfl

instance : Zero (MaxTimes α) := ⟨⟨0, le_refl 0⟩⟩
instance : One (MaxTimes α) := ⟨⟨1, zero_le_one⟩⟩
instance : Add (MaxTimes α) := ⟨fun a b => ⟨max a.val b.val, le_max_of_le_left a.nonneg⟩⟩
instance : Mul (MaxTimes α) := ⟨fun a b => ⟨a.val * b.val, mul_nonneg a.nonneg b.nonneg⟩⟩

@[simp] theorem val_zero : (0 : MaxTimes α).val = 0 := rfl
@[simp] theorem val_one : (1 : MaxTimes α).val = 1 := rfl
@[simp] theorem val_add (a b : MaxTimes α) : (a + b).val = max a.val b.val := rfl
@[simp] theorem val_mul (a b : MaxTimes α) : (a * b).val = a.val * b.val := rfl

instance : CommSemiring (MaxTimes α) where
  add_assoc a b c := ext (by simp [max_assoc])
  zero_add a := ext (by simp [a.nonneg])
  add_zero a := ext (by simp [a.nonneg])
  add_comm a b := ext (by simp [max_comm])
  mul_assoc a b c := ext (by simp [mul_assoc])
  one_mul a := ext (by simp)
  mul_one a := ext (by simp)
  zero_mul a := ext (by simp)
  mul_zero a := ext (by simp)
  mul_comm a b := ext (by simp [mul_comm])
  left_distrib a b c := ext (by simp [mul_max_of_nonneg _ _ a.nonneg])
  right_distrib a b c := ext (by simp [max_mul_of_nonneg _ _ c.nonneg])
  nsmul := nsmulRec

/-- total embedding (negative values are clipped; the identity on non-negative values) -/
def ofVal (a : α) : MaxTimes α := ⟨max a 0, le_max_right a 0⟩

theorem val_ofVal {a : α} (h : 0 ≤ a) : (ofVal a).val = a := max_eq_left h

@[simp] theorem ofVal_zero : ofVal (0 : α) = 0 := ext (by simp [ofVal])

end MaxTimes
end Deeprob
