import DeeprobModel.Lemmas.MpeLemmas
import DeeprobModel.Props.CircMarg
import Mathlib.Algebra.Order.Field.Basic
import Mathlib.Tactic.FieldSimp
set_option linter.unusedSimpArgs false
set_option linter.unusedVariables false
set_option linter.unusedSectionVars false
/-
Algebra of the sampler's law (`topDownPmf`).
-/
namespace Deeprob
open TD

theorem Completes.mono {S T : List Nat} {e x : Ev} (h : Completes S e x) (hT : ∀ v ∈ T, v ∈ S) : Completes T e x :=
  ⟨h.1, fun v hv => h.2 v (hT v hv)⟩

/-- `sumOver` enumerates completions only: two summands that agree on completions give equal sums -/
theorem sumOver_congr_completes {α : Type} [CommSemiring α] (dom : Nat → Nat) (S : List Nat) (e : Ev) (f g : Ev → α)
    (h : ∀ x, Completes S e x → f x = g x) : sumOver dom S e f = sumOver dom S e g := by
  induction S generalizing e with
  | nil => simp only [sumOver]; exact h e ⟨fun _ _ => rfl, by simp⟩
  | cons v vs ih =>
    simp only [sumOver]
    split
    · rename_i k hk
      apply ih; intro x hx; apply h
      refine ⟨hx.1, ?_⟩
      intro w hw
      rcases List.mem_cons.1 hw with rfl | hw
      · rw [hx.1 w (by simp [hk]), hk]; simp
      · exact hx.2 w hw
    · rename_i hnone
      apply sumVar_congr; intro k; apply ih; intro x hx; apply h
      constructor
      · intro w hw
        have hwv : w ≠ v := fun hc => hw (hc ▸ hnone)
        rw [hx.1 w (by rw [Ev.set_ne _ _ hwv]; exact hw), Ev.set_ne _ _ hwv]
      · intro w hw
        rcases List.mem_cons.1 hw with rfl | hw
        · rw [hx.1 w (by simp)]; simp
        · exact hx.2 w hw

section field
variable {α : Type} [Field α] [LinearOrder α] [IsStrictOrderedRing α]

theorem wsum_zero_transfer {β : Type} (ws : List α) (cs : List β) (fL fX : β → α)
    (hw : ∀ w ∈ ws, 0 ≤ w) (hL : ∀ c ∈ cs, 0 ≤ fL c) (h0 : ∀ c ∈ cs, fL c = 0 → fX c = 0)
    (h : wsum ws (cs.map fL) = 0) : wsum ws (cs.map fX) = 0 := by
  induction ws generalizing cs with
  | nil => simp [wsum]
  | cons w ws ih =>
    cases cs with
    | nil => simp [wsum]
    | cons c cs =>
      simp only [List.map_cons, wsum] at h ⊢
      have hw0 := hw w List.mem_cons_self
      have hws : ∀ a ∈ ws, 0 ≤ a := fun a ha => hw a (List.mem_cons_of_mem _ ha)
      have hLs : ∀ d ∈ cs, 0 ≤ fL d := fun d hd => hL d (List.mem_cons_of_mem _ hd)
      have hrest : 0 ≤ wsum ws (cs.map fL) := by
        apply wsum_nonneg _ _ hws; intro z hz; simp only [List.mem_map] at hz
        obtain ⟨d, hd, rfl⟩ := hz; exact hLs d hd
      have hhead : 0 ≤ w * fL c := mul_nonneg hw0 (hL c List.mem_cons_self)
      obtain ⟨h1, h2⟩ := (add_eq_zero_iff_of_nonneg hhead hrest).1 h
      rw [ih cs hws hLs (fun d hd => h0 d (List.mem_cons_of_mem _ hd)) h2, add_zero]
      rcases mul_eq_zero.1 h1 with hz | hz
      · rw [hz, zero_mul]
      · rw [h0 c List.mem_cons_self hz, mul_zero]

theorem lprod_zero_transfer {β : Type} (cs : List β) (fL fX : β → α)
    (h0 : ∀ c ∈ cs, fL c = 0 → fX c = 0) (h : lprod (cs.map fL) = 0) : lprod (cs.map fX) = 0 := by
  induction cs with
  | nil => simp [lprod] at h
  | cons c cs ih =>
    simp only [List.map_cons, lprod] at h ⊢
    rcases mul_eq_zero.1 h with hz | hz
    · rw [h0 c List.mem_cons_self hz, zero_mul]
    · rw [ih (fun d hd => h0 d (List.mem_cons_of_mem _ hd)) hz, mul_zero]

theorem wsum_branchPmf_mul {β : Type} (L : α) (hL : L ≠ 0) (ws : List α) (cs : List β) (fL fP fX : β → α)
    (h : ∀ c ∈ cs, fP c * fL c = fX c) :
    wsum (TCirc.branchPmf L ws (cs.map fL)) (cs.map fP) * L = wsum ws (cs.map fX) := by
  induction ws generalizing cs with
  | nil => simp [TCirc.branchPmf, wsum]
  | cons w ws ih =>
    cases cs with
    | nil => simp [TCirc.branchPmf, wsum]
    | cons c cs =>
      have ih' := ih cs (fun d hd => h d (List.mem_cons_of_mem _ hd))
      simp only [TCirc.branchPmf, List.map_cons, List.zipWith_cons_cons, wsum] at ih' ⊢
      rw [add_mul, ih', ← h c List.mem_cons_self]
      congr 1
      field_simp

theorem lprod_mul_map {β : Type} (cs : List β) (fL fP fX : β → α) (h : ∀ c ∈ cs, fP c * fL c = fX c) :
    lprod (cs.map fP) * lprod (cs.map fL) = lprod (cs.map fX) := by
  induction cs with
  | nil => simp [lprod]
  | cons c cs ih =>
    simp only [List.map_cons, lprod]
    rw [← ih (fun d hd => h d (List.mem_cons_of_mem _ hd)), ← h c List.mem_cons_self]; ring

end field

namespace TCirc
variable {α : Type} [Field α] [LinearOrder α] [IsStrictOrderedRing α]

theorem topDownPmf_sum (e x : Ev) (s : List Nat) (ws : List α) (cs : List (TCirc α)) :
    topDownPmf e x (.sum s ws cs) =
      wsum (branchPmf (wsum ws (cs.map (eval e))) ws (cs.map (eval e))) (cs.map (topDownPmf e x)) := by
  simp [topDownPmf]; rfl

theorem topDownPmf_prod (e x : Ev) (s : List Nat) (cs : List (TCirc α)) :
    topDownPmf e x (.prod s cs) = lprod (cs.map (topDownPmf e x)) := by
  simp [topDownPmf]

/-- a sub-circuit that has value zero under the evidence has value zero under every completion -/
theorem eval_zero_of_completes (dom : Nat → Nat) : ∀ (c : TCirc α), Circ.Valid dom c.toCirc → NonNeg c → LeafExact c →
    ∀ e x : Ev, Completes c.scope e x → eval e c = 0 → eval x c = 0 := by
  intro c
  induction c using TCirc.ind with
  | hl s f m cd =>
    intro _ _ hle e x hc h0
    unfold LeafExact at hle
    rw [eval_leaf] at h0 ⊢
    rw [← hle e x hc, h0, mul_zero]
  | hs s ws cs ih =>
    intro hval hnn hle e x hc h0
    obtain ⟨_, _, hsc, hvc⟩ := valid_sum.1 hval
    unfold NonNeg at hnn; unfold LeafExact at hle
    rw [eval_sum] at h0 ⊢
    exact wsum_zero_transfer ws cs (eval e) (eval x) hnn.1 (fun c hcm => eval_nonneg c (hnn.2 c hcm) e)
      (fun c hcm => ih c hcm (hvc c hcm) (hnn.2 c hcm) (hle c hcm) e x
        (hc.mono (fun v hv => (hsc c hcm v).1 hv))) h0
  | hp s cs ih =>
    intro hval hnn hle e x hc h0
    obtain ⟨_, hsc, hvc⟩ := valid_prod.1 hval
    unfold NonNeg at hnn; unfold LeafExact at hle
    rw [eval_prod] at h0 ⊢
    exact lprod_zero_transfer cs (eval e) (eval x)
      (fun c hcm => ih c hcm (hvc c hcm) (hnn c hcm) (hle c hcm) e x
        (hc.mono (fun v hv => (hsc v).1 (List.mem_flatten.2 ⟨c.scope, List.mem_map_of_mem hcm, hv⟩)))) h0

/-- core of `topDownPmf_exact` -/
theorem pmf_exact (dom : Nat → Nat) : ∀ (c : TCirc α), Circ.Valid dom c.toCirc → NonNeg c → LeafExact c →
    ∀ e x : Ev, Completes c.scope e x → topDownPmf e x c * eval e c = eval x c := by
  intro c
  induction c using TCirc.ind with
  | hl s f m cd =>
    intro _ _ hle e x hc
    unfold LeafExact at hle
    rw [eval_leaf, eval_leaf]
    simp only [topDownPmf]; exact hle e x hc
  | hs s ws cs ih =>
    intro hval hnn hle e x hc
    by_cases hL : eval e (.sum s ws cs) = 0
    · rw [hL, mul_zero, eval_zero_of_completes dom _ hval hnn hle e x hc hL]
    · obtain ⟨_, _, hsc, hvc⟩ := valid_sum.1 hval
      unfold NonNeg at hnn; unfold LeafExact at hle
      rw [eval_sum] at hL
      rw [topDownPmf_sum, eval_sum, eval_sum]
      exact wsum_branchPmf_mul _ hL ws cs (eval e) (topDownPmf e x) (eval x)
        (fun c hcm => ih c hcm (hvc c hcm) (hnn.2 c hcm) (hle c hcm) e x (hc.mono (fun v hv => (hsc c hcm v).1 hv)))
  | hp s cs ih =>
    intro hval hnn hle e x hc
    obtain ⟨_, hsc, hvc⟩ := valid_prod.1 hval
    unfold NonNeg at hnn; unfold LeafExact at hle
    rw [topDownPmf_prod, eval_prod, eval_prod]
    exact lprod_mul_map cs (eval e) (topDownPmf e x) (eval x)
      (fun c hcm => ih c hcm (hvc c hcm) (hnn c hcm) (hle c hcm) e x
        (hc.mono (fun v hv => (hsc v).1 (List.mem_flatten.2 ⟨c.scope, List.mem_map_of_mem hcm, hv⟩))))

end TCirc
end Deeprob
