import DeeprobModel.Lemmas.CltIoGraph
import DeeprobModel.Lemmas.F32Lemmas
import Mathlib.Logic.Relation
set_option linter.unusedSimpArgs false
set_option linter.unusedVariables false
/-
C13 for binary Chow-Liu trees, part 2: `digraph_to_binary_clt` on the canonical graph of a well-formed tree
passes `is_arborescence`, finds the root, and its breadth-first filling loop rebuilds `scope`, `tree`, `params`.
-/
namespace Deeprob.GraphIo
open Deeprob Deeprob.Clt Deeprob.CltFit

/-! ### 1. lookups in the canonical graph -/

theorem nodeIds_Gn (n : Nat) (a : Nat → Option CAttr) (s : Nat → List Nat) : nodeIds (Gn n a s) = List.range n := by
  unfold nodeIds Gn
  rw [List.map_map]
  simp [Function.comp_def]

theorem find_Gn (n : Nat) (a : Nat → Option CAttr) (s : Nat → List Nat) {u : Nat} (hu : u < n) :
    (Gn n a s).find? (fun x => x.id == u) = some { id := u, attr := a u, succ := s u } := by
  unfold Gn
  rw [List.find?_map]
  have : (List.range n).find? ((fun x : GNode => x.id == u) ∘ fun i => { id := i, attr := a i, succ := s i }) = some u := by
    rw [List.find?_range_eq_some]
    refine ⟨by simp, List.mem_range.2 hu, fun j hj => ?_⟩
    simp only [Function.comp, Bool.not_eq_true', beq_eq_false_iff_ne, ne_eq]
    omega
  rw [this]; rfl

theorem find_Gn_none (n : Nat) (a : Nat → Option CAttr) (s : Nat → List Nat) {u : Nat} (hu : n ≤ u) :
    (Gn n a s).find? (fun x => x.id == u) = none := by
  rw [List.find?_eq_none]
  intro x hx
  unfold Gn at hx
  rw [List.mem_map] at hx
  obtain ⟨i, hi, rfl⟩ := hx
  have := List.mem_range.1 hi
  simp only [beq_iff_eq]
  omega

theorem succOf_Gn (n : Nat) (a : Nat → Option CAttr) (s : Nat → List Nat) {u : Nat} (hu : u < n) :
    succOf (Gn n a s) u = s u := by
  unfold succOf; rw [find_Gn n a s hu]

theorem attrOf_Gn (n : Nat) (a : Nat → Option CAttr) (s : Nat → List Nat) {u : Nat} (hu : u < n) :
    attrOf (Gn n a s) u = a u := by
  unfold attrOf; rw [find_Gn n a s hu]

section wf
variable {o : CltObj} {r : Nat} (h : WF o.tree r)
include h

theorem WF.succOf_canon : succOf (canon o) = Clt.childrenOf o.tree := by
  funext u
  by_cases hu : u < o.tree.length
  · exact succOf_Gn _ _ _ hu
  · unfold succOf canon
    rw [find_Gn_none _ _ _ (Nat.le_of_not_lt hu), h.children_of_big (Nat.le_of_not_lt hu)]

/-! ### 2. the levels again: the children of all nodes, in breadth-first order, are the order without the root -/

theorem WF.levels_flatMap_children :
    ((List.range o.tree.length).flatMap (level o.tree r)).flatMap (Clt.childrenOf o.tree) =
      ((List.range o.tree.length).flatMap (level o.tree r)).tail := by
  obtain ⟨m, hm⟩ : ∃ m, o.tree.length = m + 1 := ⟨o.tree.length - 1, by have := h.pos; omega⟩
  rw [List.flatMap_assoc]
  have h1 : (fun k => (level o.tree r k).flatMap (Clt.childrenOf o.tree)) = fun k => level o.tree r (k + 1) := rfl
  rw [h1]
  conv_rhs => rw [hm, List.range_succ_eq_map, List.flatMap_cons, List.flatMap_map]
  have h0 : level o.tree r 0 = [r] := rfl
  rw [h0]
  simp only [List.singleton_append, List.tail_cons, Nat.succ_eq_add_one]
  rw [hm, List.range_succ, List.flatMap_append]
  simp only [List.flatMap_cons, List.flatMap_nil, List.append_nil]
  rw [h.level_big (by omega), List.append_nil]

theorem WF.levels_tail_perm :
    ((List.range o.tree.length).flatMap (level o.tree r)).tail.Perm ((List.range o.tree.length).erase r) := by
  have := h.code_order_perm
  exact (List.reverse_perm _).symm.trans this

theorem WF.docEdges_snd_perm : ((docEdges o.tree).map (·.2)).Perm ((List.range o.tree.length).erase r) := by
  have h1 : (docEdges o.tree).map (·.2) = (List.range o.tree.length).flatMap (Clt.childrenOf o.tree) := by
    unfold docEdges
    rw [List.map_flatMap]
    congr 1
    funext p
    rw [List.map_map]
    simp [Function.comp_def]
  rw [h1]
  refine (List.Perm.flatMap_right _ h.levels_perm.symm).trans ?_
  rw [h.levels_flatMap_children]
  exact h.levels_tail_perm

theorem WF.inDegree_canon (v : Nat) :
    inDegree (canon o) v = if v < o.tree.length ∧ v ≠ r then 1 else 0 := by
  unfold inDegree
  rw [edgesOf_canon, ← List.countP_eq_length_filter]
  have : List.countP (fun e : Nat × Nat => e.2 == v) (docEdges o.tree) = ((docEdges o.tree).map (·.2)).count v := by
    rw [List.count_eq_countP, List.countP_map]; rfl
  rw [this, h.docEdges_snd_perm.count_eq]
  have hnd : ((List.range o.tree.length).erase r).Nodup := List.nodup_range.erase r
  split
  · rename_i hv
    exact List.count_eq_one_of_mem hnd
      ((List.Nodup.mem_erase_iff List.nodup_range).2 ⟨hv.2, List.mem_range.2 hv.1⟩)
  · rename_i hv
    apply List.count_eq_zero_of_not_mem
    intro hm
    obtain ⟨h1, h2⟩ := (List.Nodup.mem_erase_iff List.nodup_range).1 hm
    exact hv ⟨List.mem_range.1 h2, h1⟩

theorem WF.edges_count : (edgesOf (canon o)).length + 1 = o.tree.length := by
  rw [edgesOf_canon]
  have := h.docEdges_snd_perm.length_eq
  rw [List.length_map, List.length_erase_of_mem (List.mem_range.2 h.r_lt), List.length_range] at this
  have := h.pos
  omega

end wf

/-! ### 3. weak connectivity -/

theorem subset_expand (g : DiGraph) (S : List Nat) : ∀ x ∈ S, x ∈ expand g S := by
  intro x hx; unfold expand; exact List.mem_append_left _ hx

theorem mem_expand {g : DiGraph} {S : List Nat} {u v : Nat} (hu : u ∈ S) (hv : v ∈ nodeIds g)
    (hadj : (succOf g u).contains v = true ∨ (succOf g v).contains u = true) : v ∈ expand g S := by
  by_cases hvS : v ∈ S
  · exact subset_expand g S v hvS
  · unfold expand
    apply List.mem_append_right
    rw [List.mem_filter]
    refine ⟨hv, ?_⟩
    rw [Bool.and_eq_true]
    refine ⟨by simpa using hvS, ?_⟩
    rw [List.any_eq_true]
    refine ⟨u, hu, ?_⟩
    rcases hadj with h1 | h1
    · simp only [List.contains_iff_mem, decide_eq_true_eq] at h1; simp [h1]
    · simp only [List.contains_iff_mem, decide_eq_true_eq] at h1; simp [h1]

theorem rounds_mono (g : DiGraph) : ∀ (k : Nat) (S : List Nat), ∀ x ∈ S, x ∈ rounds g k S
  | 0, S, x, hx => hx
  | k + 1, S, x, hx => rounds_mono g k _ x (subset_expand g S x hx)

theorem rounds_add (g : DiGraph) : ∀ (a b : Nat) (S : List Nat), rounds g (a + b) S = rounds g b (rounds g a S)
  | 0, b, S => by simp [rounds]
  | a + 1, b, S => by
    rw [show a + 1 + b = (a + b) + 1 from by omega]
    simp only [rounds]
    exact rounds_add g a b _

theorem rounds_succ' (g : DiGraph) (k : Nat) (S : List Nat) : rounds g (k + 1) S = expand g (rounds g k S) := by
  rw [rounds_add g k 1 S]; rfl

section wf2
variable {o : CltObj} {r : Nat} (h : WF o.tree r)
include h

theorem WF.adj_canon {i p : Nat} (hi : i < o.tree.length) (hp : parent o.tree i = some p) :
    (succOf (canon o) p).contains i = true := by
  rw [h.succOf_canon]
  simpa using h.mem_children.2 ⟨hi, hp⟩

theorem WF.climb : ∀ (f i : Nat) (T : List Nat), i < o.tree.length → i ∈ T →
    CltFit.reaches o.tree r f i = true → r ∈ rounds (canon o) f T
  | 0, i, T, _, hiT, hre => by
    simp only [CltFit.reaches, beq_iff_eq] at hre
    subst hre; exact hiT
  | f + 1, i, T, hi, hiT, hre => by
    simp only [CltFit.reaches, Bool.or_eq_true, beq_iff_eq] at hre
    rcases hre with hre | hre
    · subst hre; exact rounds_mono _ _ _ _ hiT
    · cases hp : parent o.tree i with
      | none => rw [hp] at hre; cases hre
      | some p =>
        rw [hp] at hre
        have hpl : p < o.tree.length := (parent_some hp).2
        have hpe : p ∈ expand (canon o) T :=
          mem_expand hiT (by unfold canon; rw [nodeIds_Gn]; exact List.mem_range.2 hpl) (Or.inr (h.adj_canon hi hp))
        exact WF.climb f p _ hpl hpe hre

theorem WF.descend {T : List Nat} (hr : r ∈ T) : ∀ (k x : Nat), x < o.tree.length → depthOf o.tree x ≤ k →
    x ∈ rounds (canon o) k T
  | 0, x, hx, hd => by
    have : x = r := h.depth_zero hx (by omega)
    subst this; exact hr
  | k + 1, x, hx, hd => by
    by_cases hxr : x = r
    · subst hxr; exact rounds_mono _ _ _ _ hr
    · obtain ⟨p, hp, _, hpl, _⟩ := h.parent_ne hx hxr
      have hdp := h.depth_child hx hp
      have hpk := WF.descend hr k p hpl (by omega)
      rw [rounds_succ']
      exact mem_expand hpk (by unfold canon; rw [nodeIds_Gn]; exact List.mem_range.2 hx) (Or.inl (h.adj_canon hx hp))

theorem WF.weaklyConnected_canon : weaklyConnected (canon o) = true := by
  obtain ⟨m, hm⟩ : ∃ m, o.tree.length = m + 1 := ⟨o.tree.length - 1, by have := h.pos; omega⟩
  have hcomp : component (canon o) = rounds (canon o) (2 * o.tree.length) [0] := by
    have hc : canon o = { id := 0, attr := some (nodeAttr o 0), succ := Clt.childrenOf o.tree 0 } ::
        ((List.range m).map Nat.succ).map (fun i => { id := i, attr := some (nodeAttr o i), succ := Clt.childrenOf o.tree i }) := by
      unfold canon Gn; rw [hm, List.range_succ_eq_map]; rfl
    have hl : (canon o).length = o.tree.length := Gn_length _ _ _
    unfold component
    rw [← hl]
    generalize hg : canon o = g at hc
    rw [hc]
  unfold weaklyConnected
  rw [List.all_eq_true]
  intro v hv
  unfold canon at hv
  rw [nodeIds_Gn] at hv
  have hvl := List.mem_range.1 hv
  rw [hcomp]
  simp only [List.contains_iff_mem, decide_eq_true_eq]
  have h0 : (0 : Nat) < o.tree.length := h.pos
  have h1 : r ∈ rounds (canon o) (o.tree.length - 1) [0] :=
    h.climb _ 0 [0] h0 (by simp) (h.reaches h0)
  have h2 : v ∈ rounds (canon o) (o.tree.length - 1) (rounds (canon o) (o.tree.length - 1) [0]) :=
    h.descend h1 _ v hvl (h.depth_le hvl)
  rw [← rounds_add] at h2
  have : 2 * o.tree.length = (o.tree.length - 1 + (o.tree.length - 1)) + 2 := by omega
  rw [this, rounds_add]
  exact rounds_mono _ _ _ _ h2

theorem WF.isArborescence_canon : isArborescence (canon o) = true := by
  unfold isArborescence
  have hl : (canon o).length = o.tree.length := Gn_length _ _ _
  have h1 : (canon o).isEmpty = false := by
    rw [List.isEmpty_eq_false_iff]
    intro hh; rw [hh] at hl; have := h.pos; simp at hl; omega
  have h2 : ((edgesOf (canon o)).length + 1 == (canon o).length) = true := by
    rw [hl, h.edges_count]; simp
  have h4 : (nodeIds (canon o)).all (fun v => decide (inDegree (canon o) v ≤ 1)) = true := by
    rw [List.all_eq_true]
    intro v _
    rw [h.inDegree_canon v]
    split <;> simp
  rw [h1, h2, h.weaklyConnected_canon, h4]; rfl

theorem WF.find_root : (nodeIds (canon o)).find? (fun v => inDegree (canon o) v == 0) = some r := by
  unfold canon
  rw [nodeIds_Gn, List.find?_range_eq_some]
  refine ⟨?_, List.mem_range.2 h.r_lt, fun j hj => ?_⟩
  · have := h.inDegree_canon r
    unfold canon at this
    rw [this]; simp
  · have := h.inDegree_canon j
    unfold canon at this
    rw [this]
    have hjl : j < o.tree.length := Nat.lt_trans hj h.r_lt
    have : j ≠ r := by omega
    simp [hjl, this]

end wf2

/-! ### 4. `bfs_predecessors` -/

/-- the search without the `seen` set -/
def bfsP (g : DiGraph) : Nat → List Nat → List (Nat × Nat)
  | 0, _ => []
  | _, [] => []
  | fuel+1, q :: qs => (succOf g q).map (fun c => (c, q)) ++ bfsP g fuel (qs ++ succOf g q)

/-- on a graph where the search never meets a node twice the `seen` set changes nothing -/
theorem bfsPreds_eq_bfsP (g : DiGraph) : ∀ (f : Nat) (q seen : List Nat),
    (seen ++ (bfsP g f q).map (·.1)).Nodup → bfsPreds g f q seen = bfsP g f q
  | 0, _, _, _ => rfl
  | f + 1, [], _, _ => rfl
  | f + 1, q :: qs, seen, hnd => by
    simp only [bfsP, List.map_append, List.map_map] at hnd
    have hmap : (succOf g q).map ((fun x : Nat × Nat => x.1) ∘ fun c => (c, q)) = succOf g q := by
      simp [Function.comp_def]
    rw [hmap, ← List.append_assoc] at hnd
    have hdis : ∀ c ∈ succOf g q, c ∉ seen := by
      intro c hc hs
      have := (List.nodup_append.1 (List.nodup_append.1 hnd).1).2.2 c hs c hc
      exact this rfl
    have hnew : (succOf g q).filter (fun c => !seen.contains c) = succOf g q := by
      rw [List.filter_eq_self]
      intro c hc
      simpa using hdis c hc
    simp only [bfsPreds, bfsP, hnew]
    rw [bfsPreds_eq_bfsP g f _ _ hnd]

theorem bfsP_fst (g : DiGraph) (ch : List (List Nat)) (hch : ∀ q, succOf g q = ch.getD q []) :
    ∀ (f : Nat) (q : List Nat), (bfsP g f q).map (·.1) = (bfsLoop ch f q).flatMap (fun q => ch.getD q [])
  | 0, _ => rfl
  | f + 1, [] => rfl
  | f + 1, q :: qs => by
    simp only [bfsP, bfsLoop, List.map_append, List.map_map, List.flatMap_cons]
    rw [bfsP_fst g ch hch f, hch q]
    simp [Function.comp_def]

theorem bfsP_snd (g : DiGraph) : ∀ (f : Nat) (q : List Nat), ∀ cp ∈ bfsP g f q, cp.1 ∈ succOf g cp.2
  | 0, _, cp, hcp => by simp [bfsP] at hcp
  | f + 1, [], cp, hcp => by simp [bfsP] at hcp
  | f + 1, q :: qs, cp, hcp => by
    simp only [bfsP, List.mem_append, List.mem_map] at hcp
    rcases hcp with ⟨c, hc, rfl⟩ | hcp
    · exact hc
    · exact bfsP_snd g f _ cp hcp

section wf3
variable {o : CltObj} {r : Nat} (h : WF o.tree r)
include h

theorem WF.bfsLoop_eq : bfsLoop ((List.range o.tree.length).map (Clt.childrenOf o.tree)) o.tree.length [r] =
    (List.range o.tree.length).flatMap (level o.tree r) := by
  have := h.bfs_eq
  unfold computeBfsOrdering buildTreeStructure at this
  rw [h.root, h.childLists_eq] at this
  simpa using this

/-- the pairs `bfs_predecessors` yields: every non-root node once, in breadth-first order, with its parent -/
theorem WF.bfsPreds_canon :
    ∃ P : List (Nat × Nat), bfsPreds (canon o) o.tree.length [r] [r] = P ∧
      r :: P.map (·.1) = (List.range o.tree.length).flatMap (level o.tree r) ∧
      ∀ cp ∈ P, cp.1 < o.tree.length ∧ o.tree.getD cp.1 (-1) = (cp.2 : Int) := by
  have hch : ∀ q, succOf (canon o) q = ((List.range o.tree.length).map (Clt.childrenOf o.tree)).getD q [] := by
    intro q; rw [h.succOf_canon]; exact (congrFun h.getD_children q).symm
  have hfst := bfsP_fst (canon o) _ hch o.tree.length [r]
  rw [h.bfsLoop_eq, h.getD_children, h.levels_flatMap_children] at hfst
  obtain ⟨rest, hrest⟩ := h.levels_head
  have hB : r :: (bfsP (canon o) o.tree.length [r]).map (·.1) = (List.range o.tree.length).flatMap (level o.tree r) := by
    rw [hfst, hrest]; rfl
  refine ⟨bfsP (canon o) o.tree.length [r], ?_, hB, ?_⟩
  · apply bfsPreds_eq_bfsP
    rw [List.singleton_append, hB]
    exact h.levels_nodup
  · intro cp hcp
    have := bfsP_snd (canon o) _ _ cp hcp
    rw [h.succOf_canon] at this
    exact mem_childrenOf_iff.1 this

end wf3

/-! ### 5. filling the arrays -/

/-- `a[c] = v c` for every `c` of the list -/
def setAll {β : Type} (v : Nat → β) (cs : List Nat) (A : List (Option β)) : List (Option β) :=
  cs.foldl (fun a c => a.set c (some (v c))) A

theorem setAll_length {β : Type} (v : Nat → β) : ∀ (cs : List Nat) (A : List (Option β)),
    (setAll v cs A).length = A.length
  | [], A => rfl
  | c :: cs, A => by
    unfold setAll; rw [List.foldl_cons]
    have := setAll_length v cs (A.set c (some (v c)))
    unfold setAll at this
    rw [this, List.length_set]

theorem setAll_get {β : Type} (v : Nat → β) : ∀ (cs : List Nat) (A : List (Option β)) (i : Nat), i < A.length →
    (setAll v cs A)[i]? = if i ∈ cs then some (some (v i)) else A[i]?
  | [], A, i, _ => by simp [setAll]
  | c :: cs, A, i, hi => by
    unfold setAll; rw [List.foldl_cons]
    have := setAll_get v cs (A.set c (some (v c))) i (by rw [List.length_set]; exact hi)
    unfold setAll at this
    rw [this, List.getElem?_set]
    by_cases hic : i ∈ cs
    · simp [hic]
    · by_cases hci : c = i
      · subst hci; simp [hic, hi]
      · have : ¬ (i = c) := fun hh => hci hh.symm
        simp [hic, hci, this]

theorem setAll_all {β : Type} (v : Nat → β) (n : Nat) (cs : List Nat) (hcs : ∀ i, i < n → i ∈ cs) :
    setAll v cs (List.replicate n none) = (List.range n).map (fun i => some (v i)) := by
  apply List.ext_getElem?
  intro i
  by_cases hi : i < n
  · rw [setAll_get v cs _ i (by simpa using hi), if_pos (hcs i hi)]
    simp [hi]
  · have h1 : (setAll v cs (List.replicate n none)).length ≤ i := by
      rw [setAll_length]; simpa using Nat.le_of_not_lt hi
    rw [List.getElem?_eq_none h1, List.getElem?_eq_none (by simpa using Nat.le_of_not_lt hi)]

theorem allSomeL_map_some {β : Type} : ∀ (l : List β), allSomeL (l.map some) = some l
  | [] => rfl
  | x :: xs => by simp [allSomeL, allSomeL_map_some xs]

/-- the filling loop on a graph whose nodes `0..n-1` all carry attributes -/
theorem fill_fold (n : Nat) (a : Nat → CAttr) (s : Nat → List Nat) (tv : Nat → Int) :
    ∀ (ps : List (Nat × Int)) (sc : List (Option Nat)) (tr : List (Option Int)) (pa : List (Option (List (List Rat)))),
    sc.length = n → tr.length = n → pa.length = n → (∀ cp ∈ ps, cp.1 < n ∧ cp.2 = tv cp.1) →
    ps.foldl (fillStep (Gn n (fun i => some (a i)) s)) (some (sc, tr, pa)) =
      some (setAll (fun i => (a i).scope) (ps.map (·.1)) sc, setAll tv (ps.map (·.1)) tr,
            setAll (fun i => (a i).weight) (ps.map (·.1)) pa)
  | [], sc, tr, pa, _, _, _, _ => rfl
  | (c, t) :: ps, sc, tr, pa, h1, h2, h3, hall => by
    obtain ⟨hc, ht⟩ := hall (c, t) (by simp)
    simp only at hc ht
    rw [List.foldl_cons]
    have hstep : fillStep (Gn n (fun i => some (a i)) s) (some (sc, tr, pa)) (c, t) =
        some (sc.set c (some (a c).scope), tr.set c (some (tv c)), pa.set c (some (a c).weight)) := by
      unfold fillStep
      simp only [Option.bind_some]
      rw [attrOf_Gn _ _ _ hc]
      simp [setAt, h1, h2, h3, hc, ht]
    rw [hstep, fill_fold n a s tv ps _ _ _ (by rw [List.length_set]; exact h1) (by rw [List.length_set]; exact h2)
      (by rw [List.length_set]; exact h3) (fun cp hcp => hall cp (List.mem_cons_of_mem _ hcp))]
    rfl

theorem map_getD_range' {β : Type} (l : List β) (d : β) : (List.range l.length).map (fun i => l.getD i d) = l := by
  apply List.ext_getElem
  · simp
  · intro i h1 h2
    simp [List.getD_eq_getElem?_getD, h2]

/-! ### 6. the constructor and the whole reload -/

theorem shapeOK_map (n : Nat) (f : Rat → Rat) (ps : List (List (List Rat))) :
    shapeOK n (ps.map (fun t => t.map (fun row => row.map f))) = shapeOK n ps := by
  unfold shapeOK
  simp [List.all_map, Function.comp_def]

/-- what a reload holds: the same scope and tree, every parameter rounded and stored -/
def reloadWith (store : Rat → Rat) (o : CltObj) : CltObj :=
  { o with params := o.params.map (fun t => t.map (fun row => row.map (fun x => store (round8 x)))) }

theorem digraphToClt_canon (store : Rat → Rat) {o : CltObj} {r : Nat} (h : WF o.tree r)
    (hs : o.scope.length = o.tree.length) (hnd : o.scope.Nodup) (hp : shapeOK o.tree.length o.params = true) :
    digraphToClt store (canon o) = some (reloadWith store o) := by
  obtain ⟨P, hP, hB, hPall⟩ := h.bfsPreds_canon
  have hl : (canon o).length = o.tree.length := Gn_length _ _ _
  unfold digraphToClt
  rw [h.isArborescence_canon, h.find_root]
  simp only [Bool.not_true, Bool.false_eq_true, if_false, hl, hP]
  -- the filling loop
  have hfill := fill_fold o.tree.length (nodeAttr o) (Clt.childrenOf o.tree) (fun i => o.tree.getD i (-1))
    ((r, (-1 : Int)) :: P.map (fun cp => (cp.1, (cp.2 : Int))))
    (List.replicate o.tree.length none) (List.replicate o.tree.length none) (List.replicate o.tree.length none)
    (by simp) (by simp) (by simp) (by
      intro cp hcp
      rcases List.mem_cons.1 hcp with rfl | hcp
      · exact ⟨h.r_lt, (h.root_entry (-1)).symm⟩
      · rw [List.mem_map] at hcp
        obtain ⟨x, hx, rfl⟩ := hcp
        exact ⟨(hPall x hx).1, (hPall x hx).2.symm⟩)
  have hfst : ((r, (-1 : Int)) :: P.map (fun cp => (cp.1, (cp.2 : Int)))).map (·.1) =
      (List.range o.tree.length).flatMap (level o.tree r) := by
    rw [List.map_cons, List.map_map, ← hB]
    simp [Function.comp_def]
  have hcov : ∀ i, i < o.tree.length → i ∈ (List.range o.tree.length).flatMap (level o.tree r) :=
    fun i hi => (h.mem_levels i).2 hi
  rw [hfst, setAll_all _ _ _ hcov, setAll_all _ _ _ hcov, setAll_all _ _ _ hcov] at hfill
  have hcanon : canon o = Gn o.tree.length (fun i => some (nodeAttr o i)) (Clt.childrenOf o.tree) := rfl
  rw [hcanon, hfill]
  simp only
  have e1 : (List.range o.tree.length).map (fun i => some (nodeAttr o i).scope) = o.scope.map some := by
    have := map_getD_range' o.scope 0
    rw [hs] at this
    conv_rhs => rw [← this]
    rw [List.map_map]; rfl
  have e2 : (List.range o.tree.length).map (fun i => some (o.tree.getD i (-1))) = o.tree.map some := by
    have := map_getD_range' o.tree (-1)
    conv_rhs => rw [← this]
    rw [List.map_map]; rfl
  have hpl : o.params.length = o.tree.length := by
    unfold shapeOK at hp
    rw [Bool.and_eq_true] at hp
    simpa using hp.1
  have e3 : (List.range o.tree.length).map (fun i => some (nodeAttr o i).weight) = (o.params.map roundTable).map some := by
    have := map_getD_range' o.params []
    rw [hpl] at this
    conv_rhs => rw [← this]
    rw [List.map_map, List.map_map]; rfl
  rw [e1, e2, e3, allSomeL_map_some, allSomeL_map_some, allSomeL_map_some]
  simp only
  -- the constructor
  unfold mkClt
  have hne : o.scope.isEmpty = false := by
    rw [List.isEmpty_eq_false_iff]
    intro hh; rw [hh] at hs; have := h.pos; simp at hs; omega
  rw [hne]
  simp only [hnd, decide_true, Bool.not_true, Bool.or_self, Bool.false_eq_true, if_false, hs, bne_self_eq_false]
  rw [h.root, h.bfs_eq]
  simp only
  have hshape : shapeOK o.tree.length (o.params.map roundTable) = true := by
    have := shapeOK_map o.tree.length round8 o.params
    unfold roundTable
    rw [this]; exact hp
  rw [if_pos hshape]
  unfold reloadWith roundTable
  simp [List.map_map, Function.comp_def]

/-! ### 7. what the Boolean `isArborescence` means -/

/-- undirected adjacency in the edge list -/
def Adj (g : DiGraph) (u v : Nat) : Prop := (u, v) ∈ edgesOf g ∨ (v, u) ∈ edgesOf g

/-- **the property `networkx.is_arborescence` decides**: the graph is not empty, has `n - 1` edges, its underlying
undirected graph is connected (every node is joined to the first one by a path of edges, direction ignored), and
no node has two incoming edges -/
structure IsArborescence (g : DiGraph) : Prop where
  nonempty : g ≠ []
  edges : (edgesOf g).length + 1 = g.length
  connected : ∀ x rest, g = x :: rest → ∀ v ∈ nodeIds g, Relation.ReflTransGen (Adj g) x.id v
  indeg : ∀ v ∈ nodeIds g, inDegree g v ≤ 1

theorem mem_succOf_edge {g : DiGraph} {u v : Nat} (h : v ∈ succOf g u) : (u, v) ∈ edgesOf g := by
  unfold succOf at h
  cases hf : g.find? (fun x => x.id == u) with
  | none => rw [hf] at h; simp at h
  | some x =>
    rw [hf] at h
    have hx : x ∈ g := List.mem_of_find?_eq_some hf
    have hid : x.id = u := by simpa using List.find?_some hf
    unfold edgesOf
    rw [List.mem_flatMap]
    exact ⟨x, hx, by rw [List.mem_map]; exact ⟨v, h, by rw [hid]⟩⟩

theorem reach_rounds (g : DiGraph) (a : Nat) : ∀ (k : Nat) (S : List Nat),
    (∀ s ∈ S, Relation.ReflTransGen (Adj g) a s) → ∀ v ∈ rounds g k S, Relation.ReflTransGen (Adj g) a v
  | 0, S, hS, v, hv => hS v hv
  | k + 1, S, hS, v, hv => by
    apply reach_rounds g a k (expand g S) _ v hv
    intro s hs
    unfold expand at hs
    rcases List.mem_append.1 hs with hs | hs
    · exact hS s hs
    · rw [List.mem_filter, Bool.and_eq_true, List.any_eq_true] at hs
      obtain ⟨_, _, u, hu, hadj⟩ := hs
      refine (hS u hu).tail ?_
      simp only [Bool.or_eq_true, List.contains_iff_mem, decide_eq_true_eq] at hadj
      rcases hadj with hadj | hadj
      · exact Or.inl (mem_succOf_edge hadj)
      · exact Or.inr (mem_succOf_edge hadj)

/-- soundness of the decision procedure -/
theorem isArborescence_sound {g : DiGraph} (h : isArborescence g = true) : IsArborescence g := by
  unfold isArborescence at h
  simp only [Bool.and_eq_true, Bool.not_eq_true', beq_iff_eq, List.all_eq_true, decide_eq_true_eq] at h
  obtain ⟨⟨⟨h1, h2⟩, h3⟩, h4⟩ := h
  refine ⟨by intro hh; rw [hh] at h1; simp at h1, h2, ?_, h4⟩
  intro x rest hg v hv
  unfold weaklyConnected at h3
  rw [List.all_eq_true] at h3
  have := h3 v hv
  simp only [List.contains_iff_mem, decide_eq_true_eq] at this
  have hc : component g = rounds g (2 * g.length) [x.id] := by
    unfold component; rw [hg]
  rw [hc] at this
  exact reach_rounds g x.id _ [x.id] (fun s hs => by
    have : s = x.id := by simpa using hs
    rw [this]) v this

theorem mkClt_some {store : Rat → Rat} {scope : List Nat} {tree : List Int} {params : List (List (List Rat))}
    {o : CltObj} (h : mkClt store scope tree params = some o) :
    o.scope = scope ∧ o.tree = tree ∧ scope.Nodup ∧ tree.length = scope.length ∧
    (∃ r bfs, rootIdx tree = some r ∧ computeBfsOrdering tree = some bfs) := by
  unfold mkClt at h
  split at h
  · cases h
  · rename_i h1
    split at h
    · cases h
    · rename_i h2
      split at h
      · rename_i r bfs hr hb
        split at h
        · cases h
          simp only [Bool.or_eq_true, Bool.not_eq_true', decide_eq_false_iff_not, not_or, Bool.not_eq_true,
            Decidable.not_not] at h1
          refine ⟨rfl, rfl, h1.2, by simpa using h2, r, bfs, hr, hb⟩
        · cases h
      · cases h

theorem digraphToClt_some {store : Rat → Rat} {g : DiGraph} {o : CltObj} (h : digraphToClt store g = some o) :
    isArborescence g = true ∧ ∃ scope tree params, mkClt store scope tree params = some o := by
  unfold digraphToClt at h
  split at h
  · cases h
  · rename_i harb
    refine ⟨by simpa using harb, ?_⟩
    split at h
    · cases h
    · simp only at h
      split at h
      · cases h
      · split at h
        · rename_i scope tree params _ _ _
          exact ⟨scope, tree, params, h⟩
        · cases h

end Deeprob.GraphIo
