import DeeprobModel.Model.F32
import DeeprobModel.Lemmas.RoundLemmas
import DeeprobModel.Lemmas.IoLemmas
import Mathlib.Algebra.Order.Field.Power
import Mathlib.Algebra.Order.Field.Rat
import Mathlib.Data.Nat.Log
import Mathlib.Tactic.Linarith
import Mathlib.Tactic.NormNum
import Mathlib.Tactic.FieldSimp
import Mathlib.Tactic.Ring
import Mathlib.Tactic.Positivity
set_option linter.unusedSimpArgs false
set_option linter.unusedVariables false
/-
Facts about `Model/F32.lean`: `ilog2` is `⌊log₂|q|⌋`, `fpr p emin` is odd, idempotent, monotone, nearest.
-/
namespace Deeprob.Io32
open Deeprob

theorem pow2_eq (e : ℤ) : pow2 e = (2 : ℚ) ^ e := by
  unfold pow2
  split
  · rename_i h
    conv_rhs => rw [← Int.toNat_of_nonneg h]
    rw [zpow_natCast]
  · rename_i h
    have h' : 0 ≤ -e := by omega
    have : e = -((-e).toNat : ℤ) := by rw [Int.toNat_of_nonneg h']; ring
    conv_rhs => rw [this]
    rw [zpow_neg, zpow_natCast, one_div]

theorem absQ_eq (q : ℚ) : absQ q = |q| := by
  unfold absQ
  split
  · rename_i h; rw [abs_of_neg h]
  · rename_i h; rw [abs_of_nonneg (not_lt.1 h)]

theorem two_zpow_pos (e : ℤ) : (0 : ℚ) < (2 : ℚ) ^ e := by positivity

theorem two_zpow_le {a b : ℤ} (h : a ≤ b) : (2 : ℚ) ^ a ≤ (2 : ℚ) ^ b :=
  zpow_le_zpow_right₀ (by norm_num) h

theorem two_zpow_lt {a b : ℤ} (h : a < b) : (2 : ℚ) ^ a < (2 : ℚ) ^ b :=
  zpow_lt_zpow_right₀ (by norm_num) h

theorem two_zpow_succ (e : ℤ) : (2 : ℚ) ^ (e + 1) = 2 * (2 : ℚ) ^ e := by
  rw [zpow_add₀ (by norm_num : (2 : ℚ) ≠ 0), zpow_one]; ring

theorem two_zpow_pred (e : ℤ) : (2 : ℚ) ^ (e - 1) = (2 : ℚ) ^ e / 2 := by
  have := two_zpow_succ (e - 1)
  rw [sub_add_cancel] at this
  linarith

/-- `|q| = |num| / den` -/
theorem abs_eq_natAbs_div (q : ℚ) : |q| = (q.num.natAbs : ℚ) / (q.den : ℚ) := by
  conv_lhs => rw [← Rat.num_div_den q]
  rw [abs_div, Nat.abs_cast, Nat.cast_natAbs, Int.cast_abs]

/-- `ilog2 q = ⌊log₂ |q|⌋` -/
theorem ilog2_spec (q : ℚ) (h : q ≠ 0) : (2 : ℚ) ^ (ilog2 q) ≤ |q| ∧ |q| < (2 : ℚ) ^ (ilog2 q + 1) := by
  have hn : q.num.natAbs ≠ 0 := by
    intro h0; apply h; rw [← Rat.num_eq_zero]; exact Int.natAbs_eq_zero.1 h0
  have hd : q.den ≠ 0 := q.den_nz
  have hdpos : (0 : ℚ) < (q.den : ℚ) := by exact_mod_cast Nat.pos_of_ne_zero hd
  have a1 : ((2 : ℕ) ^ q.num.natAbs.log2 : ℕ) ≤ q.num.natAbs := Nat.log2_self_le hn
  have a2 : q.num.natAbs < 2 ^ (q.num.natAbs.log2 + 1) := Nat.lt_log2_self
  have b1 : ((2 : ℕ) ^ q.den.log2 : ℕ) ≤ q.den := Nat.log2_self_le hd
  have b2 : q.den < 2 ^ (q.den.log2 + 1) := Nat.lt_log2_self
  have a1' : (2 : ℚ) ^ (q.num.natAbs.log2 : ℤ) ≤ (q.num.natAbs : ℚ) := by
    rw [zpow_natCast]; exact_mod_cast a1
  have a2' : (q.num.natAbs : ℚ) < 2 * (2 : ℚ) ^ (q.num.natAbs.log2 : ℤ) := by
    rw [zpow_natCast]; have : (q.num.natAbs : ℚ) < ((2 ^ (q.num.natAbs.log2 + 1) : ℕ) : ℚ) := by exact_mod_cast a2
    rw [pow_succ] at this; push_cast at this; linarith
  have b1' : (2 : ℚ) ^ (q.den.log2 : ℤ) ≤ (q.den : ℚ) := by
    rw [zpow_natCast]; exact_mod_cast b1
  have b2' : (q.den : ℚ) < 2 * (2 : ℚ) ^ (q.den.log2 : ℤ) := by
    rw [zpow_natCast]; have : (q.den : ℚ) < ((2 ^ (q.den.log2 + 1) : ℕ) : ℚ) := by exact_mod_cast b2
    rw [pow_succ] at this; push_cast at this; linarith
  set A : ℤ := (q.num.natAbs.log2 : ℤ) with hA
  set B : ℤ := (q.den.log2 : ℤ) with hB
  have hAB : (2 : ℚ) ^ (A - B) = (2 : ℚ) ^ A / (2 : ℚ) ^ B := zpow_sub₀ (by norm_num) A B
  have pA := two_zpow_pos A
  have pB := two_zpow_pos B
  have habs := abs_eq_natAbs_div q
  -- 2^(A-B-1) < |q| < 2^(A-B+1)
  have lo : (2 : ℚ) ^ (A - B - 1) < |q| := by
    rw [two_zpow_pred, hAB, habs, div_div, div_lt_div_iff₀ (by positivity) hdpos]
    nlinarith
  have hi : |q| < (2 : ℚ) ^ (A - B + 1) := by
    rw [two_zpow_succ, hAB, habs, ← mul_div_assoc, div_lt_div_iff₀ hdpos pB]
    nlinarith
  unfold ilog2
  simp only [← hA, ← hB, pow2_eq, absQ_eq]
  split
  · rename_i hc; exact ⟨hc, hi⟩
  · rename_i hc
    refine ⟨le_of_lt lo, ?_⟩
    rw [sub_add_cancel]; exact not_le.1 hc

theorem ilog2_unique {q : ℚ} {e : ℤ} (h1 : (2 : ℚ) ^ e ≤ |q|) (h2 : |q| < (2 : ℚ) ^ (e + 1)) : ilog2 q = e := by
  have hq : q ≠ 0 := by
    intro h0; rw [h0, abs_zero] at h1; exact absurd h1 (not_le.2 (two_zpow_pos e))
  obtain ⟨s1, s2⟩ := ilog2_spec q hq
  by_contra hne
  rcases lt_or_gt_of_ne hne with hlt | hgt
  · have : (2 : ℚ) ^ (ilog2 q + 1) ≤ (2 : ℚ) ^ e := two_zpow_le (by omega)
    linarith
  · have : (2 : ℚ) ^ (e + 1) ≤ (2 : ℚ) ^ (ilog2 q) := two_zpow_le (by omega)
    linarith

theorem le_ilog2 {q : ℚ} {j : ℤ} (h : (2 : ℚ) ^ j ≤ |q|) : j ≤ ilog2 q := by
  have hq : q ≠ 0 := by
    intro h0; rw [h0, abs_zero] at h; exact absurd h (not_le.2 (two_zpow_pos j))
  obtain ⟨s1, s2⟩ := ilog2_spec q hq
  by_contra hn
  have : (2 : ℚ) ^ (ilog2 q + 1) ≤ (2 : ℚ) ^ j := two_zpow_le (by omega)
  linarith

theorem ilog2_lt {q : ℚ} {j : ℤ} (hq : q ≠ 0) (h : |q| < (2 : ℚ) ^ j) : ilog2 q < j := by
  obtain ⟨s1, s2⟩ := ilog2_spec q hq
  by_contra hn
  have : (2 : ℚ) ^ j ≤ (2 : ℚ) ^ (ilog2 q) := two_zpow_le (by omega)
  linarith

theorem ilog2_mono {a b : ℚ} (ha : a ≠ 0) (h : |a| ≤ |b|) : ilog2 a ≤ ilog2 b :=
  le_ilog2 (le_trans (ilog2_spec a ha).1 h)

theorem ilog2_neg (q : ℚ) : ilog2 (-q) = ilog2 q := by
  unfold ilog2
  simp only [Rat.neg_num, Rat.neg_den, Int.natAbs_neg, absQ_eq, abs_neg]

/-! ### `roundHalfEven`: characterisation, oddness -/

theorem rhe_abs_err (y : ℚ) : |(roundHalfEven y : ℚ) - y| ≤ 1 / 2 := by
  have := roundHalfEven_spec y
  rw [abs_le]; constructor <;> linarith [this.1, this.2]

/-- on a tie the even neighbour is chosen -/
theorem rhe_tie_even (y : ℚ) (h : |(roundHalfEven y : ℚ) - y| = 1 / 2) : roundHalfEven y % 2 = 0 := by
  have h1 := floor_le' y
  have h2 := lt_floor_add_one' y
  unfold roundHalfEven at h ⊢
  simp only at h ⊢
  split
  · rename_i hc
    rw [if_pos hc] at h
    rw [abs_sub_comm, abs_of_nonneg (by linarith)] at h
    linarith
  · rename_i hc
    rw [if_neg hc] at h
    split
    · rename_i hc'
      rw [if_pos hc'] at h
      push_cast at h
      rw [abs_of_nonneg (by linarith)] at h
      linarith
    · rename_i hc'
      split
      · rename_i he; exact he
      · rename_i he; omega

/-- the rounding is the unique integer within ½ that is even on a tie -/
theorem rhe_unique_char (y : ℚ) (n : ℤ) (h1 : |(n : ℚ) - y| ≤ 1 / 2) (h2 : |(n : ℚ) - y| = 1 / 2 → n % 2 = 0) :
    roundHalfEven y = n := by
  have e1 := rhe_abs_err y
  have t1 := rhe_tie_even y
  set m := roundHalfEven y with hm
  rw [abs_le] at h1 e1
  by_contra hne
  rcases lt_or_gt_of_ne hne with hlt | hgt
  · have hq : (m : ℚ) + 1 ≤ (n : ℚ) := by exact_mod_cast (show m + 1 ≤ n by omega)
    have a : (n : ℚ) - y = 1 / 2 := by linarith [h1.2, e1.1]
    have b : (m : ℚ) - y = -(1 / 2) := by linarith [h1.2, e1.1]
    have hn := h2 (by rw [a]; norm_num)
    have hm' := t1 (by rw [b]; norm_num)
    have : (n : ℚ) = (m : ℚ) + 1 := by linarith
    have : n = m + 1 := by exact_mod_cast this
    omega
  · have hq : (n : ℚ) + 1 ≤ (m : ℚ) := by exact_mod_cast (show n + 1 ≤ m by omega)
    have a : (n : ℚ) - y = -(1 / 2) := by linarith [h1.1, e1.2]
    have b : (m : ℚ) - y = 1 / 2 := by linarith [h1.1, e1.2]
    have hn := h2 (by rw [a]; norm_num)
    have hm' := t1 (by rw [b]; norm_num)
    have : (m : ℚ) = (n : ℚ) + 1 := by linarith
    have : m = n + 1 := by exact_mod_cast this
    omega

theorem rhe_of_close (y : ℚ) (n : ℤ) (h : |y - (n : ℚ)| < 1 / 2) : roundHalfEven y = n := by
  apply rhe_unique_char
  · rw [abs_sub_comm]; exact le_of_lt h
  · intro he; rw [abs_sub_comm] at he; linarith

theorem rhe_neg (y : ℚ) : roundHalfEven (-y) = -roundHalfEven y := by
  apply rhe_unique_char
  · have := rhe_abs_err y
    have e : ((-roundHalfEven y : ℤ) : ℚ) - -y = -((roundHalfEven y : ℚ) - y) := by push_cast; ring
    rw [e, abs_neg]; exact this
  · intro h
    have e : ((-roundHalfEven y : ℤ) : ℚ) - -y = -((roundHalfEven y : ℚ) - y) := by push_cast; ring
    rw [e, abs_neg] at h
    have := rhe_tie_even y h
    omega

theorem roundN_neg (d : Nat) (q : ℚ) : roundN d (-q) = -roundN d q := by
  unfold roundN
  rw [neg_mul, rhe_neg]; push_cast; ring

theorem round8_neg (q : ℚ) : round8 (-q) = -round8 q := roundN_neg 8 q

/-- a grid point within less than ½·10⁻⁸ is the rounding -/
theorem round8_of_close (y : ℚ) (n : ℤ) (h : |y - (n : ℚ) / 10 ^ 8| < 1 / (2 * 10 ^ 8)) :
    round8 y = (n : ℚ) / 10 ^ 8 := by
  unfold round8 roundN
  rw [rhe_of_close (y * 10 ^ 8) n]
  have e : y * 10 ^ 8 - (n : ℚ) = (y - (n : ℚ) / 10 ^ 8) * 10 ^ 8 := by ring
  rw [e, abs_mul, abs_of_pos (by norm_num : (0 : ℚ) < 10 ^ 8)]
  have : |y - (n : ℚ) / 10 ^ 8| * 10 ^ 8 < 1 / (2 * 10 ^ 8) * 10 ^ 8 :=
    mul_lt_mul_of_pos_right h (by norm_num)
  calc _ < 1 / (2 * 10 ^ 8) * 10 ^ 8 := this
    _ = 1 / 2 := by norm_num

theorem round8_is_grid (q : ℚ) : ∃ n : ℤ, round8 q = (n : ℚ) / 10 ^ 8 := ⟨roundHalfEven (q * 10 ^ 8), rfl⟩

theorem round8_nonneg {q : ℚ} (h : 0 ≤ q) : 0 ≤ round8 q := by
  have := round8_mono h; rwa [round8_zero] at this

/-! ### `fpr` -/

theorem two_zpow_add (a b : ℤ) : (2 : ℚ) ^ (a + b) = (2 : ℚ) ^ a * (2 : ℚ) ^ b :=
  zpow_add₀ (by norm_num) a b

theorem two_zpow_sub (a b : ℤ) : (2 : ℚ) ^ (a - b) = (2 : ℚ) ^ a / (2 : ℚ) ^ b :=
  zpow_sub₀ (by norm_num) a b

/-- a non-negative power of two is an integer -/
theorem two_zpow_int {j : ℤ} (h : 0 ≤ j) : (2 : ℚ) ^ j = (((2 : ℤ) ^ j.toNat : ℤ) : ℚ) := by
  conv_lhs => rw [← Int.toNat_of_nonneg h]
  rw [zpow_natCast]; push_cast; rfl

theorem fpr_eq (p : ℕ) (emin : ℤ) (q : ℚ) :
    fpr p emin q = (roundHalfEven (q / (2 : ℚ) ^ (qexp p emin q)) : ℚ) * (2 : ℚ) ^ (qexp p emin q) := by
  unfold fpr; rw [pow2_eq]

theorem qexp_neg (p : ℕ) (emin : ℤ) (q : ℚ) : qexp p emin (-q) = qexp p emin q := by
  unfold qexp; rw [ilog2_neg]

theorem emin_le_qexp (p : ℕ) (emin : ℤ) (q : ℚ) : emin ≤ qexp p emin q := le_max_right _ _

theorem fpr_neg (p : ℕ) (emin : ℤ) (q : ℚ) : fpr p emin (-q) = -fpr p emin q := by
  rw [fpr_eq, fpr_eq, qexp_neg, neg_div, rhe_neg]; push_cast; ring

theorem fpr_zero (p : ℕ) (emin : ℤ) : fpr p emin 0 = 0 := by
  rw [fpr_eq, zero_div]
  have : roundHalfEven (0 : ℚ) = 0 := by simpa using roundHalfEven_intCast 0
  rw [this]; simp

/-- **nearest**: the error is at most half the quantum -/
theorem fpr_err (p : ℕ) (emin : ℤ) (q : ℚ) :
    |fpr p emin q - q| ≤ (2 : ℚ) ^ (qexp p emin q) / 2 := by
  rw [fpr_eq]
  set U := (2 : ℚ) ^ (qexp p emin q) with hU
  have hUpos : 0 < U := two_zpow_pos _
  have e : (roundHalfEven (q / U) : ℚ) * U - q = ((roundHalfEven (q / U) : ℚ) - q / U) * U := by
    field_simp
  rw [e, abs_mul, abs_of_pos hUpos]
  have := rhe_abs_err (q / U)
  nlinarith

/-- a value whose quotient by its own quantum is an integer is a fixed point -/
theorem fpr_fixed_of_int (p : ℕ) (emin : ℤ) (q : ℚ) (n : ℤ)
    (h : q / (2 : ℚ) ^ (qexp p emin q) = (n : ℚ)) : fpr p emin q = q := by
  rw [fpr_eq, h, roundHalfEven_intCast, ← h]
  field_simp

/-- **representable ⇒ fixed**: `m·2^k` with `|m| < 2^p`, `k ≥ emin` -/
theorem fpr_fixed (p : ℕ) (emin : ℤ) (m k : ℤ) (hm : |m| < 2 ^ p) (hk : emin ≤ k) :
    fpr p emin ((m : ℚ) * (2 : ℚ) ^ k) = (m : ℚ) * (2 : ℚ) ^ k := by
  by_cases hm0 : m = 0
  · subst hm0; simp [fpr_zero]
  set q : ℚ := (m : ℚ) * (2 : ℚ) ^ k with hq
  have hq0 : q ≠ 0 := by
    rw [hq]; exact mul_ne_zero (by exact_mod_cast hm0) (ne_of_gt (two_zpow_pos k))
  have habs : |q| = (|m| : ℤ) * (2 : ℚ) ^ k := by
    rw [hq, abs_mul, abs_of_pos (two_zpow_pos k)]; push_cast; rfl
  have hlt : |q| < (2 : ℚ) ^ ((p : ℤ) + k) := by
    rw [habs, two_zpow_add, zpow_natCast]
    apply mul_lt_mul_of_pos_right _ (two_zpow_pos k)
    exact_mod_cast hm
  have hl := ilog2_lt hq0 hlt
  have hK : qexp p emin q ≤ k := by unfold qexp; exact max_le (by omega) hk
  set K := qexp p emin q with hKdef
  have hnn : 0 ≤ k - K := by omega
  apply fpr_fixed_of_int p emin q (m * 2 ^ (k - K).toNat)
  rw [← hKdef, hq, mul_div_assoc, ← two_zpow_sub, two_zpow_int hnn]; push_cast; rfl

/-- **range of the result**: `fpr q = m·2^k` with `|m| < 2^p`, `k ≥ emin` -/
theorem fpr_repr (p : ℕ) (hp : 1 ≤ p) (emin : ℤ) (q : ℚ) :
    ∃ m k : ℤ, fpr p emin q = (m : ℚ) * (2 : ℚ) ^ k ∧ |m| < 2 ^ p ∧ emin ≤ k := by
  by_cases hq0 : q = 0
  · exact ⟨0, emin, by rw [hq0, fpr_zero]; simp, by simp, le_refl _⟩
  set K := qexp p emin q with hK
  have hKge : ilog2 q - ((p : ℤ) - 1) ≤ K := le_max_left _ _
  have hKmin : emin ≤ K := le_max_right _ _
  set U := (2 : ℚ) ^ K with hU
  have hUpos : 0 < U := two_zpow_pos _
  obtain ⟨s1, s2⟩ := ilog2_spec q hq0
  -- |q / U| < 2^p
  have hb : |q / U| ≤ ((2 ^ p : ℤ) : ℚ) := by
    rw [abs_div, abs_of_pos hUpos, div_le_iff₀ hUpos]
    have : (2 : ℚ) ^ (ilog2 q + 1) ≤ (2 : ℚ) ^ ((p : ℤ) + K) := two_zpow_le (by omega)
    have h2 := two_zpow_add (p : ℤ) K
    rw [zpow_natCast] at h2
    rw [h2] at this
    push_cast; linarith
  rw [abs_le] at hb
  have hm1 : roundHalfEven (q / U) ≤ 2 ^ p := by
    have := roundHalfEven_mono hb.2; rwa [roundHalfEven_intCast] at this
  have hm2 : -(2 ^ p : ℤ) ≤ roundHalfEven (q / U) := by
    have := roundHalfEven_mono hb.1
    rw [show (-(((2 ^ p : ℤ)) : ℚ)) = ((-(2 ^ p : ℤ) : ℤ) : ℚ) by push_cast; rfl, roundHalfEven_intCast] at this
    exact this
  set m0 := roundHalfEven (q / U) with hm0
  have hfe : fpr p emin q = (m0 : ℚ) * U := by rw [fpr_eq]
  have hpow : (2 : ℤ) ^ p = 2 * 2 ^ (p - 1) := by
    conv_lhs => rw [show p = (p - 1) + 1 by omega, pow_succ]
    ring
  have hpos : (0 : ℤ) < 2 ^ (p - 1) := by positivity
  by_cases hA : m0 = 2 ^ p
  · refine ⟨2 ^ (p - 1), K + 1, ?_, ?_, by omega⟩
    · rw [hfe, hA, two_zpow_succ, hpow]; push_cast; ring
    · rw [abs_of_pos hpos, hpow]; omega
  by_cases hB : m0 = -(2 ^ p)
  · refine ⟨-(2 ^ (p - 1)), K + 1, ?_, ?_, by omega⟩
    · rw [hfe, hB, two_zpow_succ, hpow]; push_cast; ring
    · rw [abs_neg, abs_of_pos hpos, hpow]; omega
  · refine ⟨m0, K, hfe, ?_, hKmin⟩
    rw [abs_lt]; constructor <;> omega

/-- **idempotent** -/
theorem fpr_idem (p : ℕ) (hp : 1 ≤ p) (emin : ℤ) (q : ℚ) : fpr p emin (fpr p emin q) = fpr p emin q := by
  obtain ⟨m, k, h, hm, hk⟩ := fpr_repr p hp emin q
  rw [h]; exact fpr_fixed p emin m k hm hk

theorem fpr_nonneg (p : ℕ) (emin : ℤ) {q : ℚ} (h : 0 ≤ q) : 0 ≤ fpr p emin q := by
  rw [fpr_eq]
  apply mul_nonneg _ (le_of_lt (two_zpow_pos _))
  have : (0 : ℚ) ≤ q / (2 : ℚ) ^ (qexp p emin q) := div_nonneg h (le_of_lt (two_zpow_pos _))
  have := roundHalfEven_mono this
  rw [show (0 : ℚ) = ((0 : ℤ) : ℚ) by simp, roundHalfEven_intCast] at this
  exact_mod_cast this

/-- a power of two on the grid of `q` that bounds `q` bounds the rounding -/
theorem fpr_le_pow (p : ℕ) (emin : ℤ) (q : ℚ) (j : ℤ) (hj : qexp p emin q ≤ j) (h : q ≤ (2 : ℚ) ^ j) :
    fpr p emin q ≤ (2 : ℚ) ^ j := by
  rw [fpr_eq]
  set K := qexp p emin q with hK
  have hU : 0 < (2 : ℚ) ^ K := two_zpow_pos _
  have hnn : 0 ≤ j - K := by omega
  have h1 : q / (2 : ℚ) ^ K ≤ (2 : ℚ) ^ j / (2 : ℚ) ^ K := div_le_div_of_nonneg_right h (le_of_lt hU)
  rw [← two_zpow_sub, two_zpow_int hnn] at h1
  have := roundHalfEven_mono h1
  rw [roundHalfEven_intCast] at this
  have h2 : (roundHalfEven (q / (2 : ℚ) ^ K) : ℚ) ≤ (((2 : ℤ) ^ (j - K).toNat : ℤ) : ℚ) := by exact_mod_cast this
  rw [← two_zpow_int hnn, two_zpow_sub, le_div_iff₀ hU] at h2
  exact h2

theorem pow_le_fpr (p : ℕ) (emin : ℤ) (q : ℚ) (j : ℤ) (hj : qexp p emin q ≤ j) (h : (2 : ℚ) ^ j ≤ q) :
    (2 : ℚ) ^ j ≤ fpr p emin q := by
  rw [fpr_eq]
  set K := qexp p emin q with hK
  have hU : 0 < (2 : ℚ) ^ K := two_zpow_pos _
  have hnn : 0 ≤ j - K := by omega
  have h1 : (2 : ℚ) ^ j / (2 : ℚ) ^ K ≤ q / (2 : ℚ) ^ K := div_le_div_of_nonneg_right h (le_of_lt hU)
  rw [← two_zpow_sub, two_zpow_int hnn] at h1
  have := roundHalfEven_mono h1
  rw [roundHalfEven_intCast] at this
  have h2 : (((2 : ℤ) ^ (j - K).toNat : ℤ) : ℚ) ≤ (roundHalfEven (q / (2 : ℚ) ^ K) : ℚ) := by exact_mod_cast this
  rw [← two_zpow_int hnn, two_zpow_sub, div_le_iff₀ hU] at h2
  exact h2

theorem fpr_mono_pos (p : ℕ) (hp : 1 ≤ p) (emin : ℤ) {a b : ℚ} (ha : 0 < a) (h : a ≤ b) :
    fpr p emin a ≤ fpr p emin b := by
  have hb : 0 < b := lt_of_lt_of_le ha h
  have ha0 : a ≠ 0 := ne_of_gt ha
  have hb0 : b ≠ 0 := ne_of_gt hb
  have he : ilog2 a ≤ ilog2 b := ilog2_mono ha0 (by rw [abs_of_pos ha, abs_of_pos hb]; exact h)
  have hKab : qexp p emin a ≤ qexp p emin b := by unfold qexp; exact max_le_max (by omega) (le_refl _)
  rcases eq_or_lt_of_le hKab with heq | hlt
  · rw [fpr_eq, fpr_eq, heq]
    have hU : 0 < (2 : ℚ) ^ (qexp p emin b) := two_zpow_pos _
    apply mul_le_mul_of_nonneg_right _ (le_of_lt hU)
    exact_mod_cast roundHalfEven_mono (div_le_div_of_nonneg_right h (le_of_lt hU))
  · -- different quanta: the power of two `2^(ilog2 b)` separates the results
    have hmin : emin ≤ qexp p emin a := le_max_right _ _
    have hKa : ilog2 a - ((p : ℤ) - 1) ≤ qexp p emin a := le_max_left _ _
    have hKb : qexp p emin b = ilog2 b - ((p : ℤ) - 1) := by
      unfold qexp at hlt ⊢
      rcases max_cases (ilog2 b - ((p : ℤ) - 1)) emin with ⟨h1, _⟩ | ⟨h1, _⟩
      · exact h1
      · rw [h1] at hlt; omega
    obtain ⟨sa1, sa2⟩ := ilog2_spec a ha0
    obtain ⟨sb1, sb2⟩ := ilog2_spec b hb0
    rw [abs_of_pos ha] at sa1 sa2
    rw [abs_of_pos hb] at sb1 sb2
    have hlt' : ilog2 a + 1 ≤ ilog2 b := by omega
    have h1 : fpr p emin a ≤ (2 : ℚ) ^ (ilog2 b) :=
      fpr_le_pow p emin a (ilog2 b) (by omega) (le_trans (le_of_lt sa2) (two_zpow_le hlt'))
    have h2 : (2 : ℚ) ^ (ilog2 b) ≤ fpr p emin b :=
      pow_le_fpr p emin b (ilog2 b) (by omega) sb1
    exact le_trans h1 h2

/-- **monotone** -/
theorem fpr_mono (p : ℕ) (hp : 1 ≤ p) (emin : ℤ) {a b : ℚ} (h : a ≤ b) : fpr p emin a ≤ fpr p emin b := by
  rcases lt_trichotomy 0 a with ha | ha | ha
  · exact fpr_mono_pos p hp emin ha h
  · rw [← ha, fpr_zero]; exact fpr_nonneg p emin (by rw [← ha] at h; exact h)
  · rcases le_or_gt 0 b with hb | hb
    · have h1 : 0 ≤ fpr p emin (-a) := fpr_nonneg p emin (by linarith)
      rw [fpr_neg] at h1
      have h2 := fpr_nonneg p emin hb
      linarith
    · have := fpr_mono_pos p hp emin (show 0 < -b by linarith) (show -b ≤ -a by linarith)
      rw [fpr_neg, fpr_neg] at this
      linarith

/-- a representable bound is kept by the rounding -/
theorem fpr_ge_of_repr (p : ℕ) (hp : 1 ≤ p) (emin : ℤ) {g q : ℚ} (hg : fpr p emin g = g) (h : g ≤ q) :
    g ≤ fpr p emin q := by
  have := fpr_mono p hp emin h; rwa [hg] at this

theorem fpr_le_of_repr (p : ℕ) (hp : 1 ≤ p) (emin : ℤ) {g q : ℚ} (hg : fpr p emin g = g) (h : q ≤ g) :
    fpr p emin q ≤ g := by
  have := fpr_mono p hp emin h; rwa [hg] at this

theorem fpr_pow_fixed (p : ℕ) (hp : 1 ≤ p) (emin : ℤ) (j : ℤ) (hj : emin ≤ j) :
    fpr p emin ((2 : ℚ) ^ j) = (2 : ℚ) ^ j := by
  have := fpr_fixed p emin 1 j (by
    rw [abs_one]; exact one_lt_pow₀ (by norm_num) (by omega)) hj
  simpa using this

theorem two_zpow_p (p : ℕ) : (2 : ℚ) ^ (p : ℤ) = (((2 : ℤ) ^ p : ℤ) : ℚ) := by
  rw [zpow_natCast]; push_cast; rfl

theorem two_zpow_pm1 (p : ℕ) (hp : 1 ≤ p) : (2 : ℚ) ^ ((p : ℤ) - 1) = (((2 : ℤ) ^ (p - 1) : ℤ) : ℚ) := by
  have : (p : ℤ) - 1 = ((p - 1 : ℕ) : ℤ) := by omega
  rw [this, zpow_natCast]; push_cast; rfl

/-- **capture**: a normal representable `g = m·2^k` attracts every `x` of its own binade that is closer than
half a quantum -/
theorem fpr_capture (p : ℕ) (hp : 1 ≤ p) (emin : ℤ) (m k : ℤ) (hm1 : 2 ^ (p - 1) ≤ m) (hm2 : m < 2 ^ p)
    (hk : emin ≤ k) (x : ℚ) (hx : (2 : ℚ) ^ ((p : ℤ) - 1 + k) ≤ x)
    (hc : |x - (m : ℚ) * (2 : ℚ) ^ k| < (2 : ℚ) ^ k / 2) : fpr p emin x = (m : ℚ) * (2 : ℚ) ^ k := by
  set U := (2 : ℚ) ^ k with hU
  have hUpos : 0 < U := two_zpow_pos k
  have hxpos : 0 < x := lt_of_lt_of_le (two_zpow_pos _) hx
  have hmq : (m : ℚ) + 1 ≤ (((2 : ℤ) ^ p : ℤ) : ℚ) := by exact_mod_cast (show m + 1 ≤ 2 ^ p by omega)
  rw [abs_lt] at hc
  have hup : x < (2 : ℚ) ^ ((p : ℤ) - 1 + k + 1) := by
    have e : (p : ℤ) - 1 + k + 1 = (p : ℤ) + k := by ring
    rw [e, two_zpow_add, two_zpow_p, ← hU]
    nlinarith [hc.2]
  have hil : ilog2 x = (p : ℤ) - 1 + k := ilog2_unique (by rw [abs_of_pos hxpos]; exact hx) (by rw [abs_of_pos hxpos]; exact hup)
  have hK : qexp p emin x = k := by
    unfold qexp; rw [hil]
    have : (p : ℤ) - 1 + k - ((p : ℤ) - 1) = k := by ring
    rw [this]; exact max_eq_left hk
  rw [fpr_eq, hK, ← hU, rhe_of_close (x / U) m]
  have e : x / U - (m : ℚ) = (x - (m : ℚ) * U) / U := by field_simp
  rw [e, abs_div, abs_of_pos hUpos, div_lt_iff₀ hUpos, abs_lt]
  constructor <;> linarith [hc.1, hc.2]

/-- **normal results**: above `2^j` (normal range) the rounding is `m·2^k` with a full significand -/
theorem fpr_normal_repr (p : ℕ) (hp : 1 ≤ p) (emin : ℤ) (x : ℚ) (j : ℤ) (hj : emin ≤ j - ((p : ℤ) - 1))
    (hx : (2 : ℚ) ^ j ≤ x) :
    ∃ m k : ℤ, fpr p emin x = (m : ℚ) * (2 : ℚ) ^ k ∧ 2 ^ (p - 1) ≤ m ∧ m < 2 ^ p ∧ j - ((p : ℤ) - 1) ≤ k := by
  have hxpos : 0 < x := lt_of_lt_of_le (two_zpow_pos _) hx
  have hx0 : x ≠ 0 := ne_of_gt hxpos
  have hje : j ≤ ilog2 x := le_ilog2 (by rw [abs_of_pos hxpos]; exact hx)
  obtain ⟨s1, s2⟩ := ilog2_spec x hx0
  rw [abs_of_pos hxpos] at s1 s2
  have hK : qexp p emin x = ilog2 x - ((p : ℤ) - 1) := by unfold qexp; exact max_eq_left (by omega)
  set K := qexp p emin x with hKdef
  set U := (2 : ℚ) ^ K with hU
  have hUpos : 0 < U := two_zpow_pos K
  have e1 : (2 : ℚ) ^ (ilog2 x) = (2 : ℚ) ^ ((p : ℤ) - 1) * U := by
    rw [hU, ← two_zpow_add]; congr 1; omega
  have e2 : (2 : ℚ) ^ (ilog2 x + 1) = (2 : ℚ) ^ (p : ℤ) * U := by
    rw [hU, ← two_zpow_add]; congr 1; omega
  have lo : (((2 : ℤ) ^ (p - 1) : ℤ) : ℚ) ≤ x / U := by
    rw [le_div_iff₀ hUpos, ← two_zpow_pm1 p hp, ← e1]; exact s1
  have hi : x / U ≤ (((2 : ℤ) ^ p : ℤ) : ℚ) := by
    rw [div_le_iff₀ hUpos, ← two_zpow_p, ← e2]; exact le_of_lt s2
  have hm1 := roundHalfEven_mono lo
  have hm2 := roundHalfEven_mono hi
  rw [roundHalfEven_intCast] at hm1 hm2
  set m0 := roundHalfEven (x / U) with hm0
  have hfe : fpr p emin x = (m0 : ℚ) * U := by rw [fpr_eq]
  have hpow : (2 : ℤ) ^ p = 2 * 2 ^ (p - 1) := by
    conv_lhs => rw [show p = (p - 1) + 1 by omega, pow_succ]
    ring
  have hpos : (0 : ℤ) < 2 ^ (p - 1) := by positivity
  by_cases hA : m0 = 2 ^ p
  · refine ⟨2 ^ (p - 1), K + 1, ?_, le_refl _, by omega, by omega⟩
    rw [hfe, hA, two_zpow_succ, hpow]; push_cast; ring
  · exact ⟨m0, K, hfe, hm1, by omega, by omega⟩

/-- below `2^j` the error is at most half the quantum of the binade under `2^j` -/
theorem fpr_err_small (p : ℕ) (hp : 1 ≤ p) (emin : ℤ) (x : ℚ) (j : ℤ) (hj : emin ≤ j - (p : ℤ))
    (h0 : 0 ≤ x) (h1 : x ≤ (2 : ℚ) ^ j) : |fpr p emin x - x| ≤ (2 : ℚ) ^ (j - (p : ℤ)) / 2 := by
  have hpos : (0 : ℚ) ≤ (2 : ℚ) ^ (j - (p : ℤ)) / 2 := by positivity
  rcases eq_or_lt_of_le h0 with hx0 | hxpos
  · rw [← hx0, fpr_zero]; simpa using hpos
  rcases eq_or_lt_of_le h1 with hxe | hxlt
  · rw [hxe, fpr_pow_fixed p hp emin j (by omega)]; simpa using hpos
  have hl : ilog2 x < j := ilog2_lt (ne_of_gt hxpos) (by rw [abs_of_pos hxpos]; exact hxlt)
  have hK : qexp p emin x ≤ j - (p : ℤ) := by unfold qexp; exact max_le (by omega) hj
  have := fpr_err p emin x
  have h2 := two_zpow_le (a := qexp p emin x) (b := j - (p : ℤ)) hK
  linarith

/-- **relative error** in the normal range: `|fpr q − q| ≤ 2^(−p)·|q|` -/
theorem fpr_rel_err (p : ℕ) (hp : 1 ≤ p) (emin : ℤ) (q : ℚ) (hq : (2 : ℚ) ^ (emin + (p : ℤ) - 1) ≤ |q|) :
    |fpr p emin q - q| ≤ (2 : ℚ) ^ (-(p : ℤ)) * |q| := by
  have hq0 : q ≠ 0 := by
    intro h0; rw [h0, abs_zero] at hq; exact absurd hq (not_le.2 (two_zpow_pos _))
  have hje := le_ilog2 hq
  obtain ⟨s1, _⟩ := ilog2_spec q hq0
  have hK : qexp p emin q = ilog2 q - ((p : ℤ) - 1) := by unfold qexp; exact max_eq_left (by omega)
  have := fpr_err p emin q
  rw [hK] at this
  have e : (2 : ℚ) ^ (ilog2 q - ((p : ℤ) - 1)) / 2 = (2 : ℚ) ^ (-(p : ℤ)) * (2 : ℚ) ^ (ilog2 q) := by
    rw [← two_zpow_pred, ← two_zpow_add]; congr 1; ring
  rw [e] at this
  have h2 : (2 : ℚ) ^ (-(p : ℤ)) * (2 : ℚ) ^ (ilog2 q) ≤ (2 : ℚ) ^ (-(p : ℤ)) * |q| :=
    mul_le_mul_of_nonneg_left s1 (le_of_lt (two_zpow_pos _))
  linarith


/-! ### nearest among ALL representable numbers -/

theorem rhe_nearest_int (t : ℚ) (n : ℤ) : |(roundHalfEven t : ℚ) - t| ≤ |(n : ℚ) - t| := by
  by_cases h : n = roundHalfEven t
  · rw [h]
  · have e := rhe_abs_err t
    have h1 : (1 : ℚ) ≤ |(n : ℚ) - (roundHalfEven t : ℚ)| := by
      have : (1 : ℤ) ≤ |n - roundHalfEven t| := Int.one_le_abs (by omega)
      exact_mod_cast this
    have h2 : |(n : ℚ) - (roundHalfEven t : ℚ)| ≤ |(n : ℚ) - t| + |t - (roundHalfEven t : ℚ)| := abs_sub_le _ _ _
    rw [abs_sub_comm t] at h2
    linarith

theorem fpr_nearest_pos (p : ℕ) (hp : 1 ≤ p) (emin : ℤ) (q : ℚ) (hq : 0 < q) (g : ℚ) (hg : fpr p emin g = g) :
    |fpr p emin q - q| ≤ |g - q| := by
  set K := qexp p emin q with hK
  set U := (2 : ℚ) ^ K with hU
  have hUpos : 0 < U := two_zpow_pos K
  -- multiples of the quantum are never closer than the rounding
  have key : ∀ n : ℤ, |fpr p emin q - q| ≤ |(n : ℚ) * U - q| := by
    intro n
    rw [fpr_eq, ← hK, ← hU]
    have e1 : (roundHalfEven (q / U) : ℚ) * U - q = ((roundHalfEven (q / U) : ℚ) - q / U) * U := by field_simp
    have e2 : (n : ℚ) * U - q = ((n : ℚ) - q / U) * U := by field_simp
    rw [e1, e2, abs_mul, abs_mul, abs_of_pos hUpos]
    exact mul_le_mul_of_nonneg_right (rhe_nearest_int _ n) (le_of_lt hUpos)
  obtain ⟨m', k', hrep, hm', hk'⟩ := fpr_repr p hp emin g
  rw [hg] at hrep
  rcases le_or_gt K k' with hkk | hkk
  · -- g is a multiple of the quantum
    have hnn : 0 ≤ k' - K := by omega
    have : g = ((m' * 2 ^ (k' - K).toNat : ℤ) : ℚ) * U := by
      rw [hrep, hU]; push_cast
      have := two_zpow_int hnn
      push_cast at this
      rw [mul_assoc, ← this, ← two_zpow_add]; congr 2; ring
    rw [this]; exact key _
  · -- g lies in a lower binade: the binade's lower end `2^e` is between g and q
    have hKmin : emin < K := by omega
    have hKe : K = ilog2 q - ((p : ℤ) - 1) := by
      rw [hK]; unfold qexp
      rcases max_cases (ilog2 q - ((p : ℤ) - 1)) emin with ⟨h1, _⟩ | ⟨h1, _⟩
      · exact h1
      · rw [hK] at hKmin; unfold qexp at hKmin; rw [h1] at hKmin; omega
    obtain ⟨s1, _⟩ := ilog2_spec q (ne_of_gt hq)
    rw [abs_of_pos hq] at s1
    have hglt : g < (2 : ℚ) ^ (ilog2 q) := by
      have h1 : g ≤ |g| := le_abs_self g
      have h2 : |g| = ((|m'| : ℤ) : ℚ) * (2 : ℚ) ^ k' := by
        rw [hrep, abs_mul, abs_of_pos (two_zpow_pos k')]; push_cast; rfl
      have h3 : ((|m'| : ℤ) : ℚ) < (2 : ℚ) ^ (p : ℤ) := by rw [two_zpow_p]; exact_mod_cast hm'
      have h4 : ((|m'| : ℤ) : ℚ) * (2 : ℚ) ^ k' < (2 : ℚ) ^ (p : ℤ) * (2 : ℚ) ^ k' :=
        mul_lt_mul_of_pos_right h3 (two_zpow_pos k')
      rw [← two_zpow_add] at h4
      have h5 : (2 : ℚ) ^ ((p : ℤ) + k') ≤ (2 : ℚ) ^ (ilog2 q) := two_zpow_le (by omega)
      linarith
    have hpow : (2 : ℚ) ^ (ilog2 q) = (((2 : ℤ) ^ (p - 1) : ℤ) : ℚ) * U := by
      rw [← two_zpow_pm1 p hp, hU, ← two_zpow_add]; congr 1; omega
    have := key ((2 : ℤ) ^ (p - 1))
    rw [← hpow] at this
    have h6 : |(2 : ℚ) ^ (ilog2 q) - q| = q - (2 : ℚ) ^ (ilog2 q) := by
      rw [abs_sub_comm, abs_of_nonneg (by linarith)]
    have h7 : |g - q| = q - g := by rw [abs_sub_comm, abs_of_nonneg (by linarith)]
    rw [h6] at this
    rw [h7]; linarith

/-- **nearest**: no representable number is closer to `q` than `fpr q` -/
theorem fpr_nearest_repr (p : ℕ) (hp : 1 ≤ p) (emin : ℤ) (q g : ℚ) (hg : fpr p emin g = g) :
    |fpr p emin q - q| ≤ |g - q| := by
  rcases lt_trichotomy 0 q with h | h | h
  · exact fpr_nearest_pos p hp emin q h g hg
  · rw [← h, fpr_zero]; simp
  · have := fpr_nearest_pos p hp emin (-q) (by linarith) (-g) (by rw [fpr_neg, hg])
    rw [fpr_neg] at this
    have e1 : -fpr p emin q - -q = -(fpr p emin q - q) := by ring
    have e2 : -g - -q = -(g - q) := by ring
    rwa [e1, e2, abs_neg, abs_neg] at this

/-! ### one stored number across save / load generations -/

/-- powers of two from `2⁻³` upwards lie on the `10⁻⁸` grid -/
theorem pow_on_grid (J : ℤ) (h : -3 ≤ J) : ∃ n : ℤ, (2 : ℚ) ^ J = (n : ℚ) / 10 ^ 8 := by
  refine ⟨2 ^ (J + 3).toNat * 12500000, ?_⟩
  have hnn : 0 ≤ J + 3 := by omega
  have e : (2 : ℚ) ^ J = (2 : ℚ) ^ (J + 3) * (2 : ℚ) ^ (-3 : ℤ) := by
    rw [← two_zpow_add]; congr 1; ring
  rw [e, two_zpow_int hnn]; push_cast; norm_num
  ring

theorem round8_pow_fixed (J : ℤ) (h : -3 ≤ J) : round8 ((2 : ℚ) ^ J) = (2 : ℚ) ^ J := by
  obtain ⟨n, hn⟩ := pow_on_grid J h
  rw [hn]; exact round8_grid n

theorem round8_abs_err (q : ℚ) : |round8 q - q| ≤ 1 / (2 * 10 ^ 8) := round8_err q

/-- what the writer does to a normal value `y = m·2^k` whose quantum is at least `2⁻²⁶` and whose binade starts on
the decimal grid: the document number stays in the binade and within `½·10⁻⁸ < 2^k/2` -/
theorem round8_of_normal (p : ℕ) (hp : 1 ≤ p) (m k : ℤ) (hm1 : 2 ^ (p - 1) ≤ m) (hm2 : m < 2 ^ p)
    (hk : -26 ≤ k) (hgrid : -3 ≤ (p : ℤ) - 1 + k) :
    (2 : ℚ) ^ ((p : ℤ) - 1 + k) ≤ round8 ((m : ℚ) * (2 : ℚ) ^ k) ∧
    round8 ((m : ℚ) * (2 : ℚ) ^ k) < (2 : ℚ) ^ ((p : ℤ) + k) ∧
    |round8 ((m : ℚ) * (2 : ℚ) ^ k) - (m : ℚ) * (2 : ℚ) ^ k| ≤ 1 / (2 * 10 ^ 8) ∧
    (1 : ℚ) / (2 * 10 ^ 8) + (2 : ℚ) ^ k / 2 ^ 30 < (2 : ℚ) ^ k / 2 := by
  set U := (2 : ℚ) ^ k with hU
  have hUge : (2 : ℚ) ^ (-26 : ℤ) ≤ U := two_zpow_le hk
  have h26 : (2 : ℚ) ^ (-26 : ℤ) = 1 / 67108864 := by norm_num
  rw [h26] at hUge
  have hlow : (2 : ℚ) ^ ((p : ℤ) - 1 + k) ≤ (m : ℚ) * U := by
    rw [two_zpow_add, two_zpow_pm1 p hp, ← hU]
    apply mul_le_mul_of_nonneg_right _ (by linarith)
    exact_mod_cast hm1
  have hmq : (m : ℚ) + 1 ≤ (((2 : ℤ) ^ p : ℤ) : ℚ) := by exact_mod_cast (show m + 1 ≤ 2 ^ p by omega)
  have herr := round8_abs_err ((m : ℚ) * U)
  refine ⟨?_, ?_, herr, by linarith⟩
  · have := round8_mono hlow
    rwa [round8_pow_fixed _ hgrid] at this
  · rw [two_zpow_add, two_zpow_p, ← hU]
    rw [abs_le] at herr
    nlinarith [herr.2]

/-- a normal binary64 value with quantum `≥ 2⁻²⁶` survives save ∘ load -/
theorem load64_round8_normal (m k : ℤ) (hm1 : 2 ^ 52 ≤ m) (hm2 : m < 2 ^ 53) (hk : -26 ≤ k) :
    load64 (round8 ((m : ℚ) * (2 : ℚ) ^ k)) = (m : ℚ) * (2 : ℚ) ^ k := by
  unfold load64 f64
  obtain ⟨r1, r2, r3, r4⟩ := round8_of_normal 53 (by norm_num) m k hm1 hm2 hk (by norm_num; omega)
  apply fpr_capture 53 (by norm_num) (-1074) m k hm1 hm2 (by omega) _ r1
  have : (0 : ℚ) < (2 : ℚ) ^ k / 2 ^ 30 := by positivity
  linarith

/-- a binary64 value `≥ 2²⁶` is `m·2^k` with a full significand and `k ≥ −26` -/
theorem f64_normal_of_big (y : ℚ) (h : (2 : ℚ) ^ (26 : ℤ) ≤ y) (hy : f64 y = y) :
    ∃ m k : ℤ, y = (m : ℚ) * (2 : ℚ) ^ k ∧ 2 ^ 52 ≤ m ∧ m < 2 ^ 53 ∧ -26 ≤ k := by
  unfold f64 at hy
  obtain ⟨m, k, hy', hm1, hm2, hk⟩ := fpr_normal_repr 53 (by norm_num) (-1074) y 26 (by norm_num) h
  rw [hy] at hy'
  exact ⟨m, k, hy', hm1, hm2, by norm_num at hk; omega⟩

/-- binary64 storage, large regime: once loaded, a value `≥ 2²⁶` is reproduced by save ∘ load -/
theorem load64_big (d : ℚ) (h : (2 : ℚ) ^ (26 : ℤ) ≤ d) : load64 (round8 (load64 d)) = load64 d := by
  have h1 : (2 : ℚ) ^ (26 : ℤ) ≤ load64 d :=
    fpr_ge_of_repr 53 (by norm_num) (-1074) (fpr_pow_fixed 53 (by norm_num) (-1074) 26 (by norm_num)) h
  obtain ⟨m, k, hy, hm1, hm2, hk⟩ := f64_normal_of_big (load64 d) h1 (fpr_idem 53 (by norm_num) (-1074) d)
  rw [hy]; exact load64_round8_normal m k hm1 hm2 hk

/-- binary64 storage, small regime: below `2²⁶` the stored value is within less than `½·10⁻⁸` of the document -/
theorem load64_small (d : ℚ) (h0 : 0 ≤ d) (h1 : d < (2 : ℚ) ^ (26 : ℤ)) : |load64 d - d| < 1 / (2 * 10 ^ 8) := by
  unfold load64 f64
  have := fpr_err_small 53 (by norm_num) (-1074) d 26 (by norm_num) h0 (le_of_lt h1)
  have e : (2 : ℚ) ^ ((26 : ℤ) - ((53 : ℕ) : ℤ)) / 2 = 1 / 268435456 := by norm_num
  rw [e] at this
  calc _ ≤ (1 : ℚ) / 268435456 := this
    _ < 1 / (2 * 10 ^ 8) := by norm_num

/-- binary32 storage (through the binary64 the parser produced), small regime: below `1/8` the stored value is
within `2⁻²⁸ + 2⁻⁵⁷ < ½·10⁻⁸` of the document number -/
theorem load32_small (d : ℚ) (h0 : 0 ≤ d) (h1 : d < (2 : ℚ) ^ (-3 : ℤ)) : |load32 d - d| < 1 / (2 * 10 ^ 8) := by
  unfold load32 f32 f64
  set x := fpr 53 (-1074) d with hx
  have e1 := fpr_err_small 53 (by norm_num) (-1074) d (-3) (by norm_num) h0 (le_of_lt h1)
  have hx0 : 0 ≤ x := fpr_nonneg 53 (-1074) h0
  have hx1 : x ≤ (2 : ℚ) ^ (-3 : ℤ) :=
    fpr_le_of_repr 53 (by norm_num) (-1074) (fpr_pow_fixed 53 (by norm_num) (-1074) (-3) (by norm_num)) (le_of_lt h1)
  have e2 := fpr_err_small 24 (by norm_num) (-149) x (-3) (by norm_num) hx0 hx1
  have c1 : (2 : ℚ) ^ ((-3 : ℤ) - ((53 : ℕ) : ℤ)) / 2 = 1 / 144115188075855872 := by norm_num
  have c2 : (2 : ℚ) ^ ((-3 : ℤ) - ((24 : ℕ) : ℤ)) / 2 = 1 / 268435456 := by norm_num
  rw [c1] at e1
  rw [c2] at e2
  have : fpr 24 (-149) x - d = (fpr 24 (-149) x - x) + (x - d) := by ring
  rw [this]
  calc _ ≤ |fpr 24 (-149) x - x| + |x - d| := abs_add_le _ _
    _ ≤ 1 / 268435456 + 1 / 144115188075855872 := add_le_add e2 e1
    _ < 1 / (2 * 10 ^ 8) := by norm_num

/-- a normal binary32 value with quantum `≥ 2⁻²⁶` survives save ∘ parse ∘ cast -/
theorem load32_round8_normal (m k : ℤ) (hm1 : 2 ^ 23 ≤ m) (hm2 : m < 2 ^ 24) (hk : -26 ≤ k) :
    load32 (round8 ((m : ℚ) * (2 : ℚ) ^ k)) = (m : ℚ) * (2 : ℚ) ^ k := by
  unfold load32 f32 f64
  obtain ⟨r1, r2, r3, r4⟩ := round8_of_normal 24 (by norm_num) m k hm1 hm2 hk (by norm_num; omega)
  set d' := round8 ((m : ℚ) * (2 : ℚ) ^ k) with hd'
  have hd'pos : 0 < d' := lt_of_lt_of_le (two_zpow_pos _) r1
  -- the binary64 the parser produces stays in the binade and within 2^(k-30) of d'
  have hx2 : (2 : ℚ) ^ (((24 : ℕ) : ℤ) - 1 + k) ≤ fpr 53 (-1074) d' :=
    fpr_ge_of_repr 53 (by norm_num) (-1074) (fpr_pow_fixed 53 (by norm_num) (-1074) _ (by norm_num; omega)) r1
  have hil : ilog2 d' < ((24 : ℕ) : ℤ) + k := ilog2_lt (ne_of_gt hd'pos) (by rw [abs_of_pos hd'pos]; exact r2)
  have hK : qexp 53 (-1074) d' ≤ k - 29 := by
    unfold qexp; apply max_le <;> (norm_num at hil ⊢; omega)
  have e1 := fpr_err 53 (-1074) d'
  have e2 : (2 : ℚ) ^ (qexp 53 (-1074) d') ≤ (2 : ℚ) ^ (k - 29) := two_zpow_le hK
  have e3 : (2 : ℚ) ^ (k - 29) = (2 : ℚ) ^ k / 2 ^ 29 := by
    rw [two_zpow_sub]; norm_num
  apply fpr_capture 24 (by norm_num) (-149) m k hm1 hm2 (by omega) _ hx2
  have : fpr 53 (-1074) d' - (m : ℚ) * (2 : ℚ) ^ k = (fpr 53 (-1074) d' - d') + (d' - (m : ℚ) * (2 : ℚ) ^ k) := by ring
  rw [this]
  have hU : (0 : ℚ) < (2 : ℚ) ^ k := two_zpow_pos k
  calc _ ≤ |fpr 53 (-1074) d' - d'| + |d' - (m : ℚ) * (2 : ℚ) ^ k| := abs_add_le _ _
    _ ≤ (2 : ℚ) ^ k / 2 ^ 29 / 2 + 1 / (2 * 10 ^ 8) := by
        apply add_le_add _ r3
        calc _ ≤ (2 : ℚ) ^ (qexp 53 (-1074) d') / 2 := e1
          _ ≤ (2 : ℚ) ^ k / 2 ^ 29 / 2 := by rw [← e3]; linarith
    _ < (2 : ℚ) ^ k / 2 := by
        have : (2 : ℚ) ^ k / 2 ^ 29 / 2 = (2 : ℚ) ^ k / 2 ^ 30 := by ring
        rw [this]; linarith

/-- a binary32 value `≥ 1/8` is `m·2^k` with a full significand and `k ≥ −26` -/
theorem f32_normal_of_big (y : ℚ) (h : (2 : ℚ) ^ (-3 : ℤ) ≤ y) (hy : f32 y = y) :
    ∃ m k : ℤ, y = (m : ℚ) * (2 : ℚ) ^ k ∧ 2 ^ 23 ≤ m ∧ m < 2 ^ 24 ∧ -26 ≤ k := by
  unfold f32 at hy
  obtain ⟨m, k, hy', hm1, hm2, hk⟩ := fpr_normal_repr 24 (by norm_num) (-149) y (-3) (by norm_num) h
  rw [hy] at hy'
  exact ⟨m, k, hy', hm1, hm2, by norm_num at hk; omega⟩

/-- binary32 storage, large regime: once loaded, a value `≥ 1/8` is reproduced by save ∘ load -/
theorem load32_big (d : ℚ) (h : (2 : ℚ) ^ (-3 : ℤ) ≤ d) : load32 (round8 (load32 d)) = load32 d := by
  have p3_64 := fpr_pow_fixed 53 (by norm_num) (-1074) (-3) (by norm_num)
  have p3_32 := fpr_pow_fixed 24 (by norm_num) (-149) (-3) (by norm_num)
  have hx1 : (2 : ℚ) ^ (-3 : ℤ) ≤ f64 d := fpr_ge_of_repr 53 (by norm_num) (-1074) p3_64 h
  have h1 : (2 : ℚ) ^ (-3 : ℤ) ≤ load32 d := fpr_ge_of_repr 24 (by norm_num) (-149) p3_32 hx1
  obtain ⟨m, k, hy, hm1, hm2, hk⟩ := f32_normal_of_big (load32 d) h1 (fpr_idem 24 (by norm_num) (-149) _)
  rw [hy]; exact load32_round8_normal m k hm1 hm2 hk

theorem load32_neg (d : ℚ) : load32 (-d) = -load32 d := by
  unfold load32 f32 f64; rw [fpr_neg, fpr_neg]

theorem load64_neg (d : ℚ) : load64 (-d) = -load64 d := by
  unfold load64 f64; rw [fpr_neg]

/-- the abstract two-regime argument: a loader that (small) moves grid numbers below `T` by less than half a grid
step and (big) reproduces its own outputs through save ∘ load above `T` is stable from the second generation on -/
theorem gen_stable_nonneg (load : ℚ → ℚ) (T : ℚ)
    (small : ∀ d, 0 ≤ d → d < T → |load d - d| < 1 / (2 * 10 ^ 8))
    (big : ∀ d, T ≤ d → load (round8 (load d)) = load d)
    (y : ℚ) (hy : 0 ≤ y) :
    load (round8 (load (round8 y))) = load (round8 y) := by
  have hd : 0 ≤ round8 y := round8_nonneg hy
  rcases lt_or_ge (round8 y) T with hlt | hge
  · obtain ⟨n, hn⟩ := round8_is_grid y
    have hs := small _ hd hlt
    rw [hn] at hs
    have := round8_of_close (load ((n : ℚ) / 10 ^ 8)) n hs
    rw [hn, this]
  · exact big _ hge

theorem gen_stable_any (load : ℚ → ℚ) (T : ℚ)
    (odd : ∀ d, load (-d) = -load d)
    (small : ∀ d, 0 ≤ d → d < T → |load d - d| < 1 / (2 * 10 ^ 8))
    (big : ∀ d, T ≤ d → load (round8 (load d)) = load d)
    (y : ℚ) : load (round8 (load (round8 y))) = load (round8 y) := by
  rcases le_or_gt 0 y with hy | hy
  · exact gen_stable_nonneg load T small big y hy
  · have := gen_stable_nonneg load T small big (-y) (by linarith)
    rw [round8_neg, odd, round8_neg, odd] at this
    linarith

/-- memory is a fixed point of save ∘ load after ONE reload — binary32 parameters, every rational start value -/
theorem load32_save_load32 (y : ℚ) : load32 (save (load32 (save y))) = load32 (save y) :=
  gen_stable_any load32 ((2 : ℚ) ^ (-3 : ℤ)) load32_neg load32_small load32_big y

/-- the same for binary64 parameters -/
theorem load64_save_load64 (y : ℚ) : load64 (save (load64 (save y))) = load64 (save y) :=
  gen_stable_any load64 ((2 : ℚ) ^ (26 : ℤ)) load64_neg load64_small load64_big y

/-- documents are already stable from the FIRST generation when the start value is representable in the storage
format: abstract argument -/
theorem gen1_doc_stable_nonneg (load : ℚ → ℚ) (j : ℤ) (hj : -3 ≤ j)
    (small : ∀ d, 0 ≤ d → d < (2 : ℚ) ^ j → |load d - d| < 1 / (2 * 10 ^ 8))
    (fixT : load ((2 : ℚ) ^ j) = (2 : ℚ) ^ j)
    (y : ℚ) (hy : 0 ≤ y) (normal : (2 : ℚ) ^ j ≤ y → load (round8 y) = y) :
    round8 (load (round8 y)) = round8 y := by
  have hd : 0 ≤ round8 y := round8_nonneg hy
  rcases lt_or_ge (round8 y) ((2 : ℚ) ^ j) with hlt | hge
  · obtain ⟨n, hn⟩ := round8_is_grid y
    have hs := small _ hd hlt
    rw [hn] at hs
    rw [hn]; exact round8_of_close _ n hs
  · rcases le_or_gt ((2 : ℚ) ^ j) y with hy1 | hy1
    · rw [normal hy1]
    · have h1 : round8 y ≤ (2 : ℚ) ^ j := by
        have := round8_mono (le_of_lt hy1); rwa [round8_pow_fixed j hj] at this
      have he : round8 y = (2 : ℚ) ^ j := le_antisymm h1 hge
      rw [he, fixT, round8_pow_fixed j hj]

theorem gen1_doc_stable32 (y : ℚ) (hy : f32 y = y) : save (load32 (save y)) = save y := by
  have fixT : load32 ((2 : ℚ) ^ (-3 : ℤ)) = (2 : ℚ) ^ (-3 : ℤ) := by
    unfold load32 f32 f64
    rw [fpr_pow_fixed 53 (by norm_num) (-1074) (-3) (by norm_num),
        fpr_pow_fixed 24 (by norm_num) (-149) (-3) (by norm_num)]
  have key : ∀ z : ℚ, 0 ≤ z → f32 z = z → round8 (load32 (round8 z)) = round8 z := by
    intro z hz hfz
    apply gen1_doc_stable_nonneg load32 (-3) (by norm_num) load32_small fixT z hz
    intro hbig
    obtain ⟨m, k, hzr, hm1, hm2, hk⟩ := f32_normal_of_big z hbig hfz
    rw [hzr]; exact load32_round8_normal m k hm1 hm2 hk
  unfold save
  rcases le_or_gt 0 y with h0 | h0
  · exact key y h0 hy
  · have := key (-y) (by linarith) (by unfold f32 at hy ⊢; rw [fpr_neg, hy])
    rw [round8_neg, load32_neg, round8_neg] at this
    linarith

theorem gen1_doc_stable64 (y : ℚ) (hy : f64 y = y) : save (load64 (save y)) = save y := by
  have fixT : load64 ((2 : ℚ) ^ (26 : ℤ)) = (2 : ℚ) ^ (26 : ℤ) := by
    unfold load64 f64
    rw [fpr_pow_fixed 53 (by norm_num) (-1074) 26 (by norm_num)]
  have key : ∀ z : ℚ, 0 ≤ z → f64 z = z → round8 (load64 (round8 z)) = round8 z := by
    intro z hz hfz
    apply gen1_doc_stable_nonneg load64 26 (by norm_num) load64_small fixT z hz
    intro hbig
    obtain ⟨m, k, hzr, hm1, hm2, hk⟩ := f64_normal_of_big z hbig hfz
    rw [hzr]; exact load64_round8_normal m k hm1 hm2 hk
  unfold save
  rcases le_or_gt 0 y with h0 | h0
  · exact key y h0 hy
  · have := key (-y) (by linarith) (by unfold f64 at hy ⊢; rw [fpr_neg, hy])
    rw [round8_neg, load64_neg, round8_neg] at this
    linarith

/-- the product `x·10⁸` of a binary32 value is exact in binary64 (24 + 19 significant bits) -/
theorem f64_mul_1e8_exact (x : ℚ) (hx : f32 x = x) : f64 (x * 10 ^ 8) = x * 10 ^ 8 := by
  unfold f32 at hx
  obtain ⟨m, k, hrep, hm, hk⟩ := fpr_repr 24 (by norm_num) (-149) x
  rw [hx] at hrep
  have e : x * 10 ^ 8 = ((m * 390625 : ℤ) : ℚ) * (2 : ℚ) ^ (k + 8) := by
    rw [hrep, two_zpow_add]; push_cast; norm_num; ring
  rw [e]; unfold f64
  apply fpr_fixed 53 (-1074) _ _ _ (by omega)
  rw [abs_mul]
  have : |(390625 : ℤ)| = 390625 := by norm_num
  rw [this]
  have h24 : (2 : ℤ) ^ 24 = 16777216 := by norm_num
  have h53 : (2 : ℤ) ^ 53 = 9007199254740992 := by norm_num
  rw [h24] at hm
  rw [h53]
  omega

/-- **the array writer is the scalar writer on float32 arrays**: NumPy's binary64 `np.around(x, 8)` of a binary32
value is the binary64 nearest to the correctly rounded decimal -/
theorem around64_eq_save_of_f32 (x : ℚ) (hx : f32 x = x) : around64 x = f64 (save x) := by
  unfold around64 save round8 roundN
  rw [f64_mul_1e8_exact x hx]

/-! ### whole models -/

/-- what one save + load does to a node in memory -/
def reloadNode (n : MNode) : MNode := storeNode (roundNode n)

theorem map_load32_stable (l : List ℚ) :
    (((l.map round8).map load32).map round8).map load32 = (l.map round8).map load32 := by
  simp only [List.map_map]
  apply List.map_congr_left
  intro y _
  exact load32_save_load32 y

theorem map_load64_stable (l : List ℚ) :
    (((l.map round8).map load64).map round8).map load64 = (l.map round8).map load64 := by
  simp only [List.map_map]
  apply List.map_congr_left
  intro y _
  exact load64_save_load64 y

/-- **a reloaded node is a fixed point of save + load** -/
theorem reloadNode_idem (n : MNode) : reloadNode (reloadNode n) = reloadNode n := by
  cases n with
  | mk id cls scope ws ps ch =>
    simp only [reloadNode, storeNode, roundNode]
    by_cases hc : paramsAreF32 cls = true
    · simp only [hc, if_true, map_load32_stable]
    · have hc' : paramsAreF32 cls = false := by simpa using hc
      simp only [hc', Bool.false_eq_true, if_false, map_load32_stable, map_load64_stable]

theorem reloadNode_shape (n : MNode) :
    (reloadNode n).id = n.id ∧ (reloadNode n).cls = n.cls ∧ (reloadNode n).scope = n.scope ∧ (reloadNode n).ch = n.ch :=
  ⟨rfl, rfl, rfl, rfl⟩

theorem noRepeat_reload (m : Model) (h : NoRepeat m) : NoRepeat (m.map reloadNode) := by
  refine ⟨?_, ?_⟩
  · have : (m.map reloadNode).map (·.id) = m.map (·.id) := by
      rw [List.map_map]; apply List.map_congr_left; intro n _; rfl
    rw [this]; exact h.ids
  · intro n hn
    simp only [List.mem_map] at hn
    obtain ⟨n0, hn0, rfl⟩ := hn
    exact h.children n0 hn0

/-- loading what was saved succeeds and yields the node-wise reload -/
theorem loadDoc_encode (m : Model) (h : NoRepeat m) : loadDoc (encode m) = some (m.map reloadNode) := by
  unfold loadDoc
  have := decode_perm_encode m h (encode m).edges (List.Perm.refl _)
  have e : ({ nodes := (encode m).nodes, edges := (encode m).edges } : Doc) = encode m := rfl
  rw [e] at this
  rw [this, Option.map_some, List.map_map]
  rfl

theorem loadModel_encode (m : Model) (h : NoRepeat m) : loadModel (encode m) = m.map reloadNode := by
  unfold loadModel; rw [loadDoc_encode m h]; rfl

theorem reload_reload (m : Model) : (m.map reloadNode).map reloadNode = m.map reloadNode := by
  rw [List.map_map]; apply List.map_congr_left; intro n _; exact reloadNode_idem n
end Deeprob.Io32
