import DeeprobModel.Lemmas.RewriteNetLemmas
import DeeprobModel.Lemmas.CheckLemmas
set_option linter.unusedSectionVars false
set_option linter.unusedSimpArgs false
set_option linter.unusedVariables false
/-
Structural theory of the net-level `prune` pass (`Model/RewriteNet.lean`), part 1:

* `pruneStep_cases`   — the five outcomes of one iteration of `for node in reversed(nodes)`;
* `pruneStep_congr`   — one iteration reads `nodes_map` only at the children of the node and at the
                        children of their replacements, and the table only at those replacements;
* `prunePass_sol`     — the pass in storage order is THE solution of the local equations
                        `(t[k], rep[k]) = pruneStep b t rep k net[k]` (`Sol`), together with the basic facts
                        `Basic` (a replacement is an earlier fixed point, children of stored nodes precede
                        them, children of a fixed inner node are fixed points);
* `sol_closed`        — a set of nodes closed under the children of the input table is closed under
                        replacement and under the children of the rewritten table.

Everything here needs `WellOrdered` only (no hypothesis on weights, scopes or ids).
-/
namespace Deeprob
open Net
variable {α : Type} [CommSemiring α]

/-! ### small list facts -/

theorem single?_none {l : List Nat} (h : single? l = none) : l.length ≠ 1 := by
  match l, h with
  | [], _ => simp
  | [a], h => simp [single?] at h
  | a :: b :: r, _ => simp

theorem single?_of_length_ne {l : List Nat} (h : l.length ≠ 1) : single? l = none := by
  match l, h with
  | [], _ => rfl
  | [a], h => simp at h
  | a :: b :: r, _ => rfl

theorem singleKey?_none_iff {l : List (Nat × α)} : singleKey? l = none ↔ l.length ≠ 1 := by
  match l with
  | [] => simp [singleKey?]
  | [a] => simp [singleKey?]
  | a :: b :: r => simp [singleKey?]

theorem getD_take_lt {β : Type} (l : List β) (k i : Nat) (d : β) (h : i < k) : (l.take k).getD i d = l.getD i d := by
  rw [List.getD_eq_getElem?_getD, List.getD_eq_getElem?_getD, List.getElem?_take_of_lt h]

theorem getElem?_take_lt' {β : Type} (l : List β) (k i : Nat) (h : i < k) : (l.take k)[i]? = l[i]? :=
  List.getElem?_take_of_lt h

/-! ### the five outcomes of one step -/

theorem pruneStep_cases (b : Bool) (t : Net α) (rep : List Nat) (k : Nat) (x : NNode α) :
    (x.kind = .leaf ∧ pruneStep b t rep k x = (x, k)) ∨
    (x.kind ≠ .leaf ∧ ∃ c, x.ch.map (fun c => rep.getD c c) = [c] ∧ pruneStep b t rep k x = (x, c)) ∨
    (x.kind = .prod ∧ (x.ch.map (fun c => rep.getD c c)).length ≠ 1 ∧
      pruneStep b t rep k x = ({ x with ch := prodItems t rep (x.ch.map (fun c => rep.getD c c)) }, k)) ∨
    (x.kind = .sum ∧ (x.ch.map (fun c => rep.getD c c)).length ≠ 1 ∧ b = true ∧
      ∃ p, sumAcc t rep x = [p] ∧ pruneStep b t rep k x = (x, p.1)) ∨
    (x.kind = .sum ∧ (x.ch.map (fun c => rep.getD c c)).length ≠ 1 ∧ (b = true → (sumAcc t rep x).length ≠ 1) ∧
      pruneStep b t rep k x
        = ({ x with ch := (sumAcc t rep x).map Prod.fst, ws := (sumAcc t rep x).map Prod.snd }, k)) := by
  have h3 : x.kind = .leaf ∨ x.kind = .prod ∨ x.kind = .sum := by cases x.kind <;> simp
  rcases h3 with hkind | hkind | hkind
  · left; exact ⟨hkind, pruneStep_leaf b t rep k x hkind⟩
  · cases hsing : single? (x.ch.map (fun c => rep.getD c c)) with
    | some c =>
      right; left
      exact ⟨by simp [hkind], c, single?_some hsing, pruneStep_prod_single b t rep k x hkind c hsing⟩
    | none =>
      right; right; left
      exact ⟨hkind, single?_none hsing, pruneStep_prod_multi b t rep k x hkind hsing⟩
  · cases hsing : single? (x.ch.map (fun c => rep.getD c c)) with
    | some c =>
      right; left
      exact ⟨by simp [hkind], c, single?_some hsing, pruneStep_sum_single b t rep k x hkind c hsing⟩
    | none =>
      cases hcol : (if b then singleKey? (sumAcc t rep x) else none) with
      | some g =>
        right; right; right; left
        have hb : b = true := by
          cases b with
          | true => rfl
          | false => simp at hcol
        have hk : singleKey? (sumAcc t rep x) = some g := by rw [hb] at hcol; simpa using hcol
        obtain ⟨p, hp, hpg⟩ := singleKey?_some hk
        refine ⟨hkind, single?_none hsing, hb, p, hp, ?_⟩
        rw [hpg]; exact pruneStep_sum_collapse b t rep k x hkind hsing g hcol
      | none =>
        right; right; right; right
        refine ⟨hkind, single?_none hsing, ?_, pruneStep_sum_multi b t rep k x hkind hsing hcol⟩
        intro hb; rw [hb] at hcol
        exact singleKey?_none_iff.1 (by simpa using hcol)

/-! ### locality of one step -/

theorem sumItems_congr (t t' : Net α) (rep rep' : List Nat) (cn : List Nat) (ws : List α)
    (h : ∀ c ∈ cn, t[c]? = t'[c]? ∧ ∀ g ∈ chOf t c, rep.getD g g = rep'.getD g g) :
    sumItems t rep cn ws = sumItems t' rep' cn ws := by
  unfold sumItems
  congr 1
  apply List.map_congr_left
  intro p hp
  obtain ⟨h1, h2⟩ := h p.1 (List.of_mem_zip hp).1
  have hk : kindOf t p.1 = kindOf t' p.1 := by unfold kindOf; rw [h1]
  have hc : chOf t p.1 = chOf t' p.1 := by unfold chOf; rw [h1]
  have hw : wsOf t p.1 = wsOf t' p.1 := by unfold wsOf; rw [h1]
  have hm : (chOf t p.1).map (fun g => rep.getD g g) = (chOf t' p.1).map (fun g => rep'.getD g g) := by
    rw [← hc]; exact List.map_congr_left h2
  rw [hk, hw, hm]

theorem prodItems_congr (t t' : Net α) (rep rep' : List Nat) (cn : List Nat)
    (h : ∀ c ∈ cn, t[c]? = t'[c]? ∧ ∀ g ∈ chOf t c, rep.getD g g = rep'.getD g g) :
    prodItems t rep cn = prodItems t' rep' cn := by
  unfold prodItems
  congr 1
  apply List.map_congr_left
  intro c hcm
  obtain ⟨h1, h2⟩ := h c hcm
  have hk : kindOf t c = kindOf t' c := by unfold kindOf; rw [h1]
  have hc : chOf t c = chOf t' c := by unfold chOf; rw [h1]
  have hm : (chOf t c).map (fun g => rep.getD g g) = (chOf t' c).map (fun g => rep'.getD g g) := by
    rw [← hc]; exact List.map_congr_left h2
  rw [hk, hm]

/-- **locality**: one iteration of `prune` reads `nodes_map` at the children of the node and at the children of
their replacements, and node objects only at those replacements -/
theorem pruneStep_congr (b : Bool) (t t' : Net α) (rep rep' : List Nat) (k : Nat) (x : NNode α)
    (h1 : ∀ c ∈ x.ch, rep.getD c c = rep'.getD c c)
    (h2 : ∀ c ∈ x.ch.map (fun c => rep.getD c c),
      t[c]? = t'[c]? ∧ ∀ g ∈ chOf t c, rep.getD g g = rep'.getD g g) :
    pruneStep b t rep k x = pruneStep b t' rep' k x := by
  have hcn : x.ch.map (fun c => rep.getD c c) = x.ch.map (fun c => rep'.getD c c) := List.map_congr_left h1
  have hp := prodItems_congr t t' rep rep' _ h2
  have hs : sumAcc t rep x = sumAcc t' rep' x := by
    unfold sumAcc; rw [sumItems_congr t t' rep rep' _ x.ws h2, hcn]
  unfold pruneStep
  rw [hs, hp, hcn]

/-! ### the pass as the solution of local equations -/

/-- basic facts about node `k` of the state `(t, rep)` -/
structure Basic (t : Net α) (rep : List Nat) (k : Nat) : Prop where
  rep_le : rep.getD k k ≤ k
  rep_fix : rep.getD (rep.getD k k) (rep.getD k k) = rep.getD k k
  ch_lt : ∀ c ∈ chOf t k, c < k
  ch_fix : kindOf t k ≠ .leaf → rep.getD k k = k → ∀ c ∈ chOf t k, rep.getD c c = c

/-- `(t, rep)` solves the local equations of the pass on the table `net` -/
structure Sol (b : Bool) (net t : Net α) (rep : List Nat) : Prop where
  lt : t.length = net.length
  lr : rep.length = net.length
  eq : ∀ (k : Nat) (x : NNode α), net[k]? = some x →
    t[k]? = some (pruneStep b t rep k x).1 ∧ rep.getD k k = (pruneStep b t rep k x).2
  basic : ∀ k, k < net.length → Basic t rep k

theorem prunePass_length (b : Bool) (net : Net α) :
    (prunePass b net).1.length = net.length ∧ (prunePass b net).2.length = net.length := by
  induction net using List.reverseRecOn with
  | nil => simp [prunePass]
  | append_singleton a x ih => rw [prunePass_snoc]; simp [ih.1, ih.2]

theorem prunePass_take (b : Bool) (net : Net α) (k : Nat) :
    (prunePass b (net.take k)).1 = (prunePass b net).1.take k ∧
    (prunePass b (net.take k)).2 = (prunePass b net).2.take k := by
  induction net using List.reverseRecOn with
  | nil => simp [prunePass]
  | append_singleton a x ih =>
    rcases Nat.lt_or_ge k (a.length + 1) with h | h
    · have h1 : (a ++ [x]).take k = a.take k := by
        rw [List.take_append_of_le_length (by omega)]
      have hl := prunePass_length b a
      rw [h1, prunePass_snoc]
      simp only
      rw [List.take_append_of_le_length (by omega), List.take_append_of_le_length (by omega)]
      exact ih
    · have h1 : (a ++ [x]).take k = a ++ [x] := List.take_of_length_le (by simp; omega)
      have hl := prunePass_length b (a ++ [x])
      rw [h1, List.take_of_length_le (by rw [hl.1]; simp; omega), List.take_of_length_le (by rw [hl.2]; simp; omega)]
      exact ⟨rfl, rfl⟩

/-- the raw recursion of the pass: node `k` is computed from the first `k` entries of the final state -/
theorem prunePass_rec (b : Bool) (net : Net α) (k : Nat) (x : NNode α) (hx : net[k]? = some x) :
    (prunePass b net).1[k]? =
        some (pruneStep b ((prunePass b net).1.take k) ((prunePass b net).2.take k) k x).1 ∧
    (prunePass b net).2[k]? =
        some (pruneStep b ((prunePass b net).1.take k) ((prunePass b net).2.take k) k x).2 := by
  have hk : k < net.length := (List.getElem?_eq_some_iff.1 hx).1
  have h1 := prunePass_take b net (k+1)
  have h0 := prunePass_take b net k
  have hl0 := prunePass_length b (net.take k)
  have hlk : (net.take k).length = k := by simp; omega
  rw [take_succ_snoc net k x hx, prunePass_snoc] at h1
  simp only at h1
  rw [hl0.1, hlk, h0.1, h0.2] at h1
  obtain ⟨e1, e2⟩ := h1
  constructor
  · have : ((prunePass b net).1.take (k+1))[k]? = (prunePass b net).1[k]? := List.getElem?_take_of_lt (by omega)
    rw [← this, ← e1, List.getElem?_append_right (by simp)]
    simp [(prunePass_length b net).1, Nat.min_eq_left (Nat.le_of_lt hk)]
  · have : ((prunePass b net).2.take (k+1))[k]? = (prunePass b net).2[k]? := List.getElem?_take_of_lt (by omega)
    rw [← this, ← e2, List.getElem?_append_right (by simp)]
    simp [(prunePass_length b net).2, Nat.min_eq_left (Nat.le_of_lt hk)]

/-! ### what a rebuilt node takes over, once the replacements of grandchildren are known to be fixed points -/

/-- `prodItems` without the (idle) look-up of grandchildren in `nodes_map` -/
def prodItems' (t : Net α) (cn : List Nat) : List Nat :=
  (cn.map (fun c => if kindOf t c = .prod then chOf t c else [c])).flatten

/-- `sumItems` without the (idle) look-up of grandchildren in `nodes_map` -/
def sumItems' (t : Net α) (cn : List Nat) (ws : List α) : List (Nat × α) :=
  ((cn.zip ws).map (fun (p : Nat × α) =>
    if kindOf t p.1 = .sum then ((chOf t p.1).zip (wsOf t p.1)).map (fun (q : Nat × α) => (q.1, p.2 * q.2))
    else [(p.1, p.2)])).flatten

theorem map_getD_id (rep : List Nat) (l : List Nat) (h : ∀ g ∈ l, rep.getD g g = g) :
    l.map (fun g => rep.getD g g) = l := by
  conv => rhs; rw [← List.map_id l]
  exact List.map_congr_left h

theorem prodItems_eq (t : Net α) (rep : List Nat) (cn : List Nat)
    (hfix : ∀ c ∈ cn, kindOf t c ≠ .leaf → ∀ g ∈ chOf t c, rep.getD g g = g) :
    prodItems t rep cn = prodItems' t cn := by
  unfold prodItems prodItems'
  congr 1
  apply List.map_congr_left
  intro c hc
  by_cases hk : kindOf t c = .prod
  · simp only [hk, if_true]
    exact map_getD_id rep _ (hfix c hc (by rw [hk]; simp))
  · simp only [hk, if_false]

theorem sumItems_eq (t : Net α) (rep : List Nat) (cn : List Nat) (ws : List α)
    (hfix : ∀ c ∈ cn, kindOf t c ≠ .leaf → ∀ g ∈ chOf t c, rep.getD g g = g) :
    sumItems t rep cn ws = sumItems' t cn ws := by
  unfold sumItems sumItems'
  congr 1
  apply List.map_congr_left
  intro p hp
  by_cases hk : kindOf t p.1 = .sum
  · simp only [hk, if_true]
    rw [map_getD_id rep _ (hfix p.1 (List.of_mem_zip hp).1 (by rw [hk]; simp))]
  · simp only [hk, if_false]

theorem mem_prodItems' (t : Net α) (cn : List Nat) (g : Nat) :
    g ∈ prodItems' t cn ↔ ∃ c ∈ cn, (g = c ∧ kindOf t c ≠ .prod) ∨ (kindOf t c = .prod ∧ g ∈ chOf t c) := by
  simp only [prodItems', List.mem_flatten, List.mem_map]
  constructor
  · rintro ⟨l, ⟨c, hc, rfl⟩, hin⟩
    refine ⟨c, hc, ?_⟩
    by_cases hk : kindOf t c = .prod
    · right; simp only [hk, if_true] at hin; exact ⟨hk, hin⟩
    · left; simp only [hk, if_false, List.mem_singleton] at hin; exact ⟨hin, hk⟩
  · rintro ⟨c, hc, h | h⟩
    · exact ⟨_, ⟨c, hc, rfl⟩, by simp [h.2, h.1]⟩
    · exact ⟨_, ⟨c, hc, rfl⟩, by simp [h.1, h.2]⟩

theorem keys_sumItems' (t : Net α) (cn : List Nat) (ws : List α) (g : Nat)
    (h : g ∈ (sumItems' t cn ws).map Prod.fst) :
    ∃ c ∈ cn, (g = c ∧ kindOf t c ≠ .sum) ∨ (kindOf t c = .sum ∧ g ∈ chOf t c) := by
  simp only [sumItems', List.mem_map, List.mem_flatten] at h
  obtain ⟨⟨k', w'⟩, ⟨l, ⟨p, hp, rfl⟩, hin⟩, rfl⟩ := h
  refine ⟨p.1, (List.of_mem_zip hp).1, ?_⟩
  by_cases hk : kindOf t p.1 = .sum
  · right
    simp only [hk, if_true, List.mem_map] at hin
    obtain ⟨q, hq, hqe⟩ := hin
    refine ⟨hk, ?_⟩
    have := (List.of_mem_zip hq).1
    simp only [Prod.mk.injEq] at hqe
    rw [← hqe.1]; exact this
  · left
    simp only [hk, if_false, List.mem_singleton, Prod.mk.injEq] at hin
    exact ⟨hin.1, hk⟩

theorem keys_accAdd_rev (a : List (Nat × α)) (k k' : Nat) (w : α) (h : k ∈ a.map Prod.fst ∨ k = k') :
    k ∈ (accAdd a k' w).map Prod.fst := by
  induction a with
  | nil => rcases h with h | h
           · simp at h
           · simp [accAdd, h]
  | cons p r ih =>
    obtain ⟨k2, w2⟩ := p
    unfold accAdd
    by_cases hk : k2 = k'
    · simp only [hk, if_true, List.map_cons, List.mem_cons]
      rcases h with h | h
      · simp only [List.map_cons, List.mem_cons] at h
        rcases h with h | h
        · left; rw [h, hk]
        · right; exact h
      · left; exact h
    · simp only [hk, if_false, List.map_cons, List.mem_cons]
      rcases h with h | h
      · simp only [List.map_cons, List.mem_cons] at h
        rcases h with h | h
        · left; exact h
        · right; exact ih (Or.inl h)
      · right; exact ih (Or.inr h)

theorem keys_foldl_rev (items a0 : List (Nat × α)) (k : Nat)
    (h : k ∈ a0.map Prod.fst ∨ k ∈ items.map Prod.fst) :
    k ∈ (items.foldl (fun a (p : Nat × α) => accAdd a p.1 p.2) a0).map Prod.fst := by
  induction items generalizing a0 with
  | nil => rcases h with h | h
           · exact h
           · simp at h
  | cons p r ih =>
    simp only [List.foldl_cons]
    apply ih
    rcases h with h | h
    · left; exact keys_accAdd_rev a0 k p.1 p.2 (Or.inl h)
    · simp only [List.map_cons, List.mem_cons] at h
      rcases h with h | h
      · left; exact keys_accAdd_rev a0 k p.1 p.2 (Or.inr h)
      · right; exact h

/-- the keys of `children_weights` are the objects of the contributions -/
theorem mem_sumAcc_keys (t : Net α) (rep : List Nat) (x : NNode α) (g : Nat) :
    g ∈ (sumAcc t rep x).map Prod.fst ↔
      g ∈ (sumItems t rep (x.ch.map (fun c => rep.getD c c)) x.ws).map Prod.fst := by
  unfold sumAcc
  constructor
  · intro h
    rcases keys_foldl _ _ g h with h | h
    · simp at h
    · exact h
  · intro h; exact keys_foldl_rev _ _ g (Or.inr h)

/-- facts about what node `k` reads, from the basic facts of the earlier nodes -/
theorem reads_facts (t : Net α) (rep : List Nat) (k : Nat) (x : NNode α) (hch : ∀ c ∈ x.ch, c < k)
    (IH : ∀ j, j < k → Basic t rep j) :
    (∀ c ∈ x.ch.map (fun c => rep.getD c c), c < k ∧ rep.getD c c = c) ∧
    (∀ c ∈ x.ch.map (fun c => rep.getD c c), kindOf t c ≠ .leaf → ∀ g ∈ chOf t c, rep.getD g g = g) ∧
    (∀ c ∈ x.ch.map (fun c => rep.getD c c), ∀ g ∈ chOf t c, g < c) := by
  have h1 : ∀ c ∈ x.ch.map (fun c => rep.getD c c), c < k ∧ rep.getD c c = c := by
    intro c hc
    simp only [List.mem_map] at hc
    obtain ⟨c0, hc0, rfl⟩ := hc
    have := hch c0 hc0
    have B := IH c0 this
    exact ⟨by have := B.rep_le; omega, B.rep_fix⟩
  refine ⟨h1, ?_, ?_⟩
  · intro c hc hnl g hg
    exact (IH c (h1 c hc).1).ch_fix hnl (h1 c hc).2 g hg
  · intro c hc g hg
    exact (IH c (h1 c hc).1).ch_lt g hg

/-- transfer of a predicate to everything a rebuilt node takes over -/
theorem items_all (t : Net α) (cn : List Nat) (Q : Nat → Prop)
    (h1 : ∀ c ∈ cn, Q c) (h2 : ∀ c ∈ cn, kindOf t c ≠ .leaf → ∀ g ∈ chOf t c, Q g) :
    (∀ g ∈ prodItems' t cn, Q g) ∧ (∀ ws : List α, ∀ g ∈ (sumItems' t cn ws).map Prod.fst, Q g) := by
  constructor
  · intro g hg
    obtain ⟨c, hc, h | h⟩ := (mem_prodItems' t cn g).1 hg
    · rw [h.1]; exact h1 c hc
    · exact h2 c hc (by rw [h.1]; simp) g h.2
  · intro ws g hg
    obtain ⟨c, hc, h | h⟩ := keys_sumItems' t cn ws g hg
    · rw [h.1]; exact h1 c hc
    · exact h2 c hc (by rw [h.1]; simp) g h.2

theorem kindOf_eq_of (t : Net α) (k : Nat) (y : NNode α) (h : t[k]? = some y) : kindOf t k = y.kind := kindOf_some t k y h

/-- the basic facts propagate through one solved step -/
theorem basic_step (b : Bool) (t : Net α) (rep : List Nat) (k : Nat) (x : NNode α) (hch : ∀ c ∈ x.ch, c < k)
    (IH : ∀ j, j < k → Basic t rep j)
    (e1 : t[k]? = some (pruneStep b t rep k x).1) (e2 : rep.getD k k = (pruneStep b t rep k x).2) :
    Basic t rep k := by
  obtain ⟨R1, R2, R3⟩ := reads_facts t rep k x hch IH
  have hP := prodItems_eq t rep _ R2
  have hS := sumItems_eq t rep _ x.ws R2
  have hall := items_all (α := α) t (x.ch.map (fun c => rep.getD c c)) (fun g => g < k ∧ rep.getD g g = g) R1
    (by intro c hc hnl g hg
        exact ⟨by have := R3 c hc g hg; have := (R1 c hc).1; omega, R2 c hc hnl g hg⟩)
  have hkeys : ∀ g ∈ (sumAcc t rep x).map Prod.fst, g < k ∧ rep.getD g g = g := by
    intro g hg
    rw [mem_sumAcc_keys, hS] at hg
    exact hall.2 x.ws g hg
  rcases pruneStep_cases b t rep k x with ⟨hk, hst⟩ | ⟨hk, c, hc, hst⟩ | ⟨hk, hlen, hst⟩ | ⟨hk, hlen, hb, p, hp, hst⟩ |
      ⟨hk, hlen, hb, hst⟩
  · rw [hst] at e1 e2
    simp only at e1 e2
    refine ⟨by omega, by rw [e2]; exact e2, ?_, ?_⟩
    · rw [chOf_some t k x e1]; exact hch
    · rw [kindOf_some t k x e1, hk]; intro h; exact absurd rfl h
  · rw [hst] at e1 e2
    simp only at e1 e2
    have hcf := R1 c (by rw [hc]; simp)
    refine ⟨by omega, by rw [e2]; exact hcf.2, ?_, ?_⟩
    · rw [chOf_some t k x e1]; exact hch
    · intro _ h; omega
  · rw [hst, hP] at e1
    rw [hst] at e2
    simp only at e1 e2
    refine ⟨by omega, by rw [e2]; exact e2, ?_, ?_⟩
    · rw [chOf_some t k _ e1]; intro g hg; exact (hall.1 g hg).1
    · rw [chOf_some t k _ e1]; intro _ _ g hg; exact (hall.1 g hg).2
  · rw [hst] at e1 e2
    simp only at e1 e2
    have hcf := hkeys p.1 (by rw [hp]; simp)
    refine ⟨by omega, by rw [e2]; exact hcf.2, ?_, ?_⟩
    · rw [chOf_some t k x e1]; exact hch
    · intro _ h; omega
  · rw [hst] at e1 e2
    simp only at e1 e2
    refine ⟨by omega, by rw [e2]; exact e2, ?_, ?_⟩
    · rw [chOf_some t k _ e1]; intro g hg; exact (hkeys g hg).1
    · rw [chOf_some t k _ e1]; intro _ _ g hg; exact (hkeys g hg).2

/-- **the pass in storage order solves the local equations** -/
theorem prunePass_sol (b : Bool) (net : Net α) (hw : WellOrdered net) :
    Sol b net (prunePass b net).1 (prunePass b net).2 := by
  obtain ⟨hl1, hl2⟩ := prunePass_length b net
  generalize ht : (prunePass b net).1 = t at hl1
  generalize hr : (prunePass b net).2 = rep at hl2
  have key : ∀ k, k < net.length → Basic t rep k ∧
      (∀ x, net[k]? = some x → t[k]? = some (pruneStep b t rep k x).1 ∧ rep.getD k k = (pruneStep b t rep k x).2) := by
    intro k
    induction k using Nat.strong_induction_on with
    | _ k ih =>
      intro hk
      have IH : ∀ j, j < k → Basic t rep j := fun j hj => (ih j hj (by omega)).1
      have hx : net[k]? = some net[k] := List.getElem?_eq_getElem hk
      have hch := hw k net[k] hx
      obtain ⟨r1, r2⟩ := prunePass_rec b net k net[k] hx
      rw [ht, hr] at r1 r2
      obtain ⟨R1, R2, R3⟩ := reads_facts t rep k net[k] hch IH
      have hcongr : pruneStep b (t.take k) (rep.take k) k net[k] = pruneStep b t rep k net[k] := by
        have g1 : ∀ c ∈ (net[k]).ch, (rep.take k).getD c c = rep.getD c c :=
          fun c hc => getD_take_lt rep k c c (hch c hc)
        apply pruneStep_congr b _ _ _ _ k _ g1
        intro c hc
        rw [List.map_congr_left g1] at hc
        have hck := (R1 c hc).1
        have e : (t.take k)[c]? = t[c]? := List.getElem?_take_of_lt hck
        refine ⟨e, ?_⟩
        intro g hg
        have : chOf (t.take k) c = chOf t c := by unfold chOf; rw [e]
        rw [this] at hg
        exact getD_take_lt rep k g g (by have := R3 c hc g hg; omega)
      rw [hcongr] at r1 r2
      have e2 : rep.getD k k = (pruneStep b t rep k net[k]).2 := by
        rw [List.getD_eq_getElem?_getD, r2]; rfl
      refine ⟨basic_step b t rep k net[k] hch IH r1 e2, ?_⟩
      intro x hx'
      rw [hx] at hx'
      cases hx'
      exact ⟨r1, e2⟩
  exact { lt := hl1, lr := hl2, eq := fun k x hx => (key k (List.getElem?_eq_some_iff.1 hx).1).2 x hx,
          basic := fun k hk => (key k hk).1 }

/-! ### the outcome of node `k` in a solved state -/

/-- `children_weights` computed from the simplified contributions -/
def sumAcc' (t : Net α) (cn : List Nat) (ws : List α) : List (Nat × α) :=
  (sumItems' t cn ws).foldl (fun a (p : Nat × α) => accAdd a p.1 p.2) []

/-- the replaced children of node `x` -/
def repCh (rep : List Nat) (x : NNode α) : List Nat := x.ch.map (fun c => rep.getD c c)

/-- **outcome of node `k`** in a solved state, with the idle look-ups removed -/
theorem sol_outcome (b : Bool) (net t : Net α) (rep : List Nat) (hw : WellOrdered net) (S : Sol b net t rep)
    (k : Nat) (x : NNode α) (hx : net[k]? = some x) :
    (x.kind = .leaf ∧ t[k]? = some x ∧ rep.getD k k = k) ∨
    (x.kind ≠ .leaf ∧ ∃ c, repCh rep x = [c] ∧ t[k]? = some x ∧ rep.getD k k = c) ∨
    (x.kind = .prod ∧ (repCh rep x).length ≠ 1 ∧
      t[k]? = some { x with ch := prodItems' t (repCh rep x) } ∧ rep.getD k k = k) ∨
    (x.kind = .sum ∧ (repCh rep x).length ≠ 1 ∧ b = true ∧
      ∃ p, sumAcc' t (repCh rep x) x.ws = [p] ∧ t[k]? = some x ∧ rep.getD k k = p.1) ∨
    (x.kind = .sum ∧ (repCh rep x).length ≠ 1 ∧ (b = true → (sumAcc' t (repCh rep x) x.ws).length ≠ 1) ∧
      t[k]? = some { x with ch := (sumAcc' t (repCh rep x) x.ws).map Prod.fst,
                            ws := (sumAcc' t (repCh rep x) x.ws).map Prod.snd } ∧ rep.getD k k = k) := by
  have hk : k < net.length := (List.getElem?_eq_some_iff.1 hx).1
  obtain ⟨e1, e2⟩ := S.eq k x hx
  obtain ⟨R1, R2, R3⟩ := reads_facts t rep k x (hw k x hx) (fun j hj => S.basic j (by omega))
  have hP := prodItems_eq t rep _ R2
  have hS : sumAcc t rep x = sumAcc' t (repCh rep x) x.ws := by
    unfold sumAcc sumAcc' repCh; rw [sumItems_eq t rep _ x.ws R2]
  unfold repCh
  unfold repCh at hS
  rcases pruneStep_cases b t rep k x with ⟨hk, hst⟩ | ⟨hk, c, hc, hst⟩ | ⟨hk, hlen, hst⟩ | ⟨hk, hlen, hb, p, hp, hst⟩ |
      ⟨hk, hlen, hb, hst⟩
  · rw [hst] at e1 e2; exact Or.inl ⟨hk, e1, e2⟩
  · rw [hst] at e1 e2; exact Or.inr (Or.inl ⟨hk, c, hc, e1, e2⟩)
  · rw [hst] at e1 e2; rw [hP] at e1; exact Or.inr (Or.inr (Or.inl ⟨hk, hlen, e1, e2⟩))
  · rw [hst] at e1 e2; rw [hS] at hp
    exact Or.inr (Or.inr (Or.inr (Or.inl ⟨hk, hlen, hb, p, hp, e1, e2⟩)))
  · rw [hst] at e1 e2; rw [hS] at hb e1
    exact Or.inr (Or.inr (Or.inr (Or.inr ⟨hk, hlen, hb, e1, e2⟩)))

theorem mem_sumAcc'_keys (t : Net α) (cn : List Nat) (ws : List α) (g : Nat) :
    g ∈ (sumAcc' t cn ws).map Prod.fst ↔ g ∈ (sumItems' t cn ws).map Prod.fst := by
  unfold sumAcc'
  constructor
  · intro h
    rcases keys_foldl _ _ g h with h | h
    · simp at h
    · exact h
  · intro h; exact keys_foldl_rev _ _ g (Or.inr h)

/-- members of the replaced children list -/
theorem mem_repCh (rep : List Nat) (x : NNode α) (c : Nat) : c ∈ repCh rep x ↔ ∃ c0 ∈ x.ch, rep.getD c0 c0 = c := by
  unfold repCh; simp [List.mem_map]

/-- the rewritten node keeps everything but its children and weights -/
theorem sol_same (b : Bool) (net t : Net α) (rep : List Nat) (hw : WellOrdered net) (S : Sol b net t rep)
    (k : Nat) (x : NNode α) (hx : net[k]? = some x) :
    ∃ y, t[k]? = some y ∧ y.kind = x.kind ∧ y.scope = x.scope ∧ y.id = x.id ∧ y.leaf = x.leaf := by
  rcases sol_outcome b net t rep hw S k x hx with ⟨_, e, _⟩ | ⟨_, c, _, e, _⟩ | ⟨_, _, e, _⟩ | ⟨_, _, _, p, _, e, _⟩ |
      ⟨_, _, _, e, _⟩
  all_goals exact ⟨_, e, rfl, rfl, rfl, rfl⟩

theorem sol_kindOf (b : Bool) (net t : Net α) (rep : List Nat) (hw : WellOrdered net) (S : Sol b net t rep)
    (k : Nat) : kindOf t k = kindOf net k := by
  cases hx : net[k]? with
  | none =>
    have : t[k]? = none := by
      rw [List.getElem?_eq_none_iff] at hx ⊢; rw [S.lt]; exact hx
    simp [kindOf, hx, this]
  | some x =>
    obtain ⟨y, hy, h1, _⟩ := sol_same b net t rep hw S k x hx
    simp [kindOf, hx, hy, h1]

theorem sol_scopeAt (b : Bool) (net t : Net α) (rep : List Nat) (hw : WellOrdered net) (S : Sol b net t rep)
    (k : Nat) : scopeAt t k = scopeAt net k := by
  cases hx : net[k]? with
  | none =>
    have : t[k]? = none := by
      rw [List.getElem?_eq_none_iff] at hx ⊢; rw [S.lt]; exact hx
    simp [scopeAt, hx, this]
  | some x =>
    obtain ⟨y, hy, _, h2, _⟩ := sol_same b net t rep hw S k x hx
    simp [scopeAt, hx, hy, h2]

/-- **closure**: a set of nodes closed under the children of the input table is closed under replacement and
under the children of the rewritten table -/
theorem sol_closed (b : Bool) (net t : Net α) (rep : List Nat) (hw : WellOrdered net) (S : Sol b net t rep)
    (P : Nat → Prop) (hP : ∀ i, P i → ∀ c ∈ chOf net i, P c) :
    ∀ k, k < net.length → P k → P (rep.getD k k) ∧ ∀ g ∈ chOf t k, P g := by
  intro k
  induction k using Nat.strong_induction_on with
  | _ k ih =>
    intro hk hPk
    have hx : net[k]? = some net[k] := List.getElem?_eq_getElem hk
    generalize net[k] = x at hx
    have hch := hw k x hx
    have hPc : ∀ c ∈ x.ch, P c := by
      intro c hc; exact hP k hPk c (by rw [chOf_some net k x hx]; exact hc)
    have hcn : ∀ c ∈ repCh rep x, c < k ∧ P c ∧ ∀ g ∈ chOf t c, P g := by
      intro c hc
      obtain ⟨c0, hc0, rfl⟩ := (mem_repCh rep x c).1 hc
      have h0 := hch c0 hc0
      have h1 := (ih c0 h0 (by omega) (hPc c0 hc0)).1
      have h2 := (S.basic c0 (by omega)).rep_le
      exact ⟨by omega, h1, (ih _ (by omega) (by omega) h1).2⟩
    have hall := items_all (α := α) t (repCh rep x) P (fun c hc => (hcn c hc).2.1)
      (fun c hc _ g hg => (hcn c hc).2.2 g hg)
    have hkeys : ∀ g ∈ (sumAcc' t (repCh rep x) x.ws).map Prod.fst, P g := by
      intro g hg; rw [mem_sumAcc'_keys] at hg; exact hall.2 x.ws g hg
    rcases sol_outcome b net t rep hw S k x hx with ⟨_, e, r⟩ | ⟨_, c, hc, e, r⟩ | ⟨_, _, e, r⟩ | ⟨_, _, _, p, hp, e, r⟩ |
        ⟨_, _, _, e, r⟩
    · rw [r, chOf_some t k _ e]; exact ⟨hPk, hPc⟩
    · rw [r, chOf_some t k _ e]; exact ⟨(hcn c (by rw [hc]; simp)).2.1, hPc⟩
    · rw [r, chOf_some t k _ e]; exact ⟨hPk, hall.1⟩
    · rw [r, chOf_some t k _ e]; exact ⟨hkeys p.1 (by rw [hp]; simp), hPc⟩
    · rw [r, chOf_some t k _ e]; exact ⟨hPk, hkeys⟩

/-! ### the normal-form invariant of the replacement map -/

/-- what `check_spn` guarantees about the shape of the nodes in `P`: sums and products have children, sums have one
weight per child; and leaves have no children (`Leaf.__init__` passes none; `check_spn` does not look) -/
def ShapeOK (net : Net α) (P : Nat → Prop) : Prop :=
  ∀ (i : Nat) (x : NNode α), P i → net[i]? = some x →
    (x.kind = .sum → x.ch ≠ [] ∧ x.ws.length = x.ch.length) ∧ (x.kind = .prod → x.ch ≠ []) ∧
    (x.kind = .leaf → x.ch = [])

/-- **the invariant of `nodes_map`**: the replacement `r` is a leaf, or an inner node with at least two children,
none of which has the node's own kind, and every child is itself the replacement of an earlier node of `P` -/
def GoodAt (t : Net α) (rep : List Nat) (P : Nat → Prop) (r : Nat) : Prop :=
  ∃ y, t[r]? = some y ∧ ((y.kind = .leaf ∧ y.ch = []) ∨ (2 ≤ y.ch.length ∧ (y.kind = .sum → y.ws.length = y.ch.length) ∧
    ∀ c ∈ y.ch, kindOf t c ≠ y.kind ∧ ∃ j, j < r ∧ P j ∧ rep.getD j j = c))

theorem length_le_flatten {β : Type} (L : List (List β)) (h : ∀ l ∈ L, 1 ≤ l.length) :
    L.length ≤ L.flatten.length := by
  induction L with
  | nil => simp
  | cons l L ih =>
    have h1 := h l List.mem_cons_self
    have h2 := ih (fun l' hl' => h l' (List.mem_cons_of_mem _ hl'))
    simp only [List.flatten_cons, List.length_append, List.length_cons]; omega

theorem foldl_accAdd_ne_nil (items : List (Nat × α)) (h : items ≠ []) :
    items.foldl (fun a (p : Nat × α) => accAdd a p.1 p.2) [] ≠ [] := by
  match items, h with
  | p :: r, _ =>
    intro h0
    have : p.1 ∈ ((p :: r).foldl (fun a (p : Nat × α) => accAdd a p.1 p.2) []).map Prod.fst :=
      keys_foldl_rev _ _ _ (Or.inr (by simp))
    rw [h0] at this; simp at this

theorem sol_good (net t : Net α) (rep : List Nat) (hw : WellOrdered net) (S : Sol true net t rep)
    (P : Nat → Prop) (hP : ∀ i, P i → ∀ c ∈ chOf net i, P c) (hsh : ShapeOK net P) :
    ∀ k, k < net.length → P k → GoodAt t rep P (rep.getD k k) := by
  intro k
  induction k using Nat.strong_induction_on with
  | _ k ih =>
    intro hk hPk
    have hx : net[k]? = some net[k] := List.getElem?_eq_getElem hk
    generalize net[k] = x at hx
    have hch := hw k x hx
    have hPc : ∀ c ∈ x.ch, P c := by
      intro c hc; exact hP k hPk c (by rw [chOf_some net k x hx]; exact hc)
    obtain ⟨hshS, hshP, hshL⟩ := hsh k x hPk hx
    have hcnlen : (repCh rep x).length = x.ch.length := by unfold repCh; simp
    -- every replaced child is good and is the replacement of an earlier node of `P`
    have hcn : ∀ c ∈ repCh rep x, c < k ∧ GoodAt t rep P c ∧ ∃ j, j < k ∧ P j ∧ rep.getD j j = c := by
      intro c hc
      obtain ⟨c0, hc0, rfl⟩ := (mem_repCh rep x c).1 hc
      have h0 := hch c0 hc0
      have h2 := (S.basic c0 (by omega)).rep_le
      exact ⟨by omega, ih c0 h0 (by omega) (hPc c0 hc0), c0, h0, hPc c0 hc0, rfl⟩
    -- children of an inner replaced child
    have hgc : ∀ c ∈ repCh rep x, kindOf t c ≠ .leaf →
        2 ≤ (chOf t c).length ∧ (kindOf t c = .sum → (wsOf t c).length = (chOf t c).length) ∧
        ∀ g ∈ chOf t c, kindOf t g ≠ kindOf t c ∧ GoodAt t rep P g ∧ ∃ j, j < k ∧ P j ∧ rep.getD j j = g := by
      intro c hc hnl
      obtain ⟨hck, ⟨y, hy, hgood⟩, _⟩ := hcn c hc
      rw [kindOf_some t c y hy] at hnl ⊢
      rw [chOf_some t c y hy, wsOf_some t c y hy]
      rcases hgood with h | ⟨h1, h2, h3⟩
      · exact absurd h.1 hnl
      · refine ⟨h1, h2, ?_⟩
        intro g hg
        obtain ⟨h4, j, hj, hPj, hjg⟩ := h3 g hg
        refine ⟨h4, ?_, j, by omega, hPj, hjg⟩
        rw [← hjg]; exact ih j (by omega) (by omega) hPj
    have hall := items_all (α := α) t (repCh rep x)
      (fun g => GoodAt t rep P g ∧ ∃ j, j < k ∧ P j ∧ rep.getD j j = g)
      (fun c hc => (hcn c hc).2) (fun c hc hnl g hg => ((hgc c hc hnl).2.2 g hg).2)
    rcases sol_outcome true net t rep hw S k x hx with ⟨hkd, e, r⟩ | ⟨_, c, hc, e, r⟩ | ⟨hkd, hlen, e, r⟩ |
        ⟨hkd, hlen, _, p, hp, e, r⟩ | ⟨hkd, hlen, hb, e, r⟩
    · rw [r]; exact ⟨x, e, Or.inl ⟨hkd, hshL hkd⟩⟩
    · rw [r]; exact (hcn c (by rw [hc]; simp)).2.1
    · rw [r]
      refine ⟨_, e, Or.inr ⟨?_, ?_, ?_⟩⟩
      · -- at least two children
        show 2 ≤ (prodItems' t (repCh rep x)).length
        have h1 : (repCh rep x).length ≤ (prodItems' t (repCh rep x)).length := by
          have := length_le_flatten ((repCh rep x).map (fun c => if kindOf t c = .prod then chOf t c else [c]))
            (by intro l hl
                simp only [List.mem_map] at hl
                obtain ⟨c, hc, rfl⟩ := hl
                by_cases hkp : kindOf t c = .prod
                · simp only [hkp, if_true]
                  have := (hgc c hc (by rw [hkp]; simp)).1; omega
                · simp [hkp])
          simpa [prodItems'] using this
        have h2 : x.ch.length ≠ 0 := by
          intro h0; exact hshP hkd (List.eq_nil_of_length_eq_zero h0)
        omega
      · intro h; simp only [hkd] at h; cases h
      · intro g hg
        show kindOf t g ≠ x.kind ∧ _
        rw [hkd]
        refine ⟨?_, (hall.1 g hg).2⟩
        obtain ⟨c, hc, h | h⟩ := (mem_prodItems' t _ g).1 hg
        · rw [h.1]; exact h.2
        · have := ((hgc c hc (by rw [h.1]; simp)).2.2 g h.2).1
          rw [h.1] at this; exact this
    · rw [r]
      have : p.1 ∈ (sumAcc' t (repCh rep x) x.ws).map Prod.fst := by rw [hp]; simp
      rw [mem_sumAcc'_keys] at this
      exact (hall.2 x.ws p.1 this).1
    · rw [r]
      refine ⟨_, e, Or.inr ⟨?_, ?_, ?_⟩⟩
      · show 2 ≤ ((sumAcc' t (repCh rep x) x.ws).map Prod.fst).length
        rw [List.length_map]
        have h1 := hb rfl
        have h0 : sumAcc' t (repCh rep x) x.ws ≠ [] := by
          apply foldl_accAdd_ne_nil
          obtain ⟨hne, hwl⟩ := hshS hkd
          -- the first contribution is not empty
          match hcs : repCh rep x, hws : x.ws with
          | [], _ => rw [hcs] at hcnlen; exact absurd (List.eq_nil_of_length_eq_zero hcnlen.symm) hne
          | c :: cs, [] => rw [hcs] at hcnlen; rw [hws] at hwl; simp at hcnlen hwl; omega
          | c :: cs, w :: ws' =>
            unfold sumItems'
            simp only [List.zip_cons_cons, List.map_cons, List.flatten_cons]
            intro h
            have h' := (List.append_eq_nil_iff.1 h).1
            by_cases hks : kindOf t c = .sum
            · simp only [hks, if_true, List.map_eq_nil_iff] at h'
              obtain ⟨g1, g2, _⟩ := hgc c (by rw [hcs]; simp) (by rw [hks]; simp)
              have g2' := g2 hks
              have : ((chOf t c).zip (wsOf t c)).length = 0 := by rw [h']; rfl
              rw [List.length_zip, g2', Nat.min_self] at this
              omega
            · simp [hks] at h'
        have : (sumAcc' t (repCh rep x) x.ws).length ≠ 0 := fun h => h0 (List.eq_nil_of_length_eq_zero h)
        omega
      · intro _; simp
      · intro g hg
        show kindOf t g ≠ x.kind ∧ _
        rw [hkd]
        have hg' : g ∈ (sumItems' t (repCh rep x) x.ws).map Prod.fst := (mem_sumAcc'_keys t _ _ g).1 hg
        refine ⟨?_, (hall.2 x.ws g hg').2⟩
        obtain ⟨c, hc, h | h⟩ := keys_sumItems' t _ _ g hg'
        · rw [h.1]; exact h.2
        · have := ((hgc c hc (by rw [h.1]; simp)).2.2 g h.2).1
          rw [h.1] at this; exact this

end Deeprob
