import DeeprobModel.Model.Xpc
import DeeprobModel.Props.CircMarg
import DeeprobModel.Lemmas.CltLemmas
import DeeprobModel.Lemmas.CltNorm
import Mathlib.Tactic.Ring
import Mathlib.Tactic.FieldSimp
import Mathlib.Tactic.Linarith
import Mathlib.Algebra.Order.Field.Basic
import Mathlib.Data.List.Perm.Basic
import Mathlib.Data.List.Nodup
set_option linter.unusedSimpArgs false
set_option linter.unusedVariables false
/-
Helper lemmas for the XPC learner (`Model/Xpc.lean`): validity of the pieces `build_xpc` assembles,
the flattening step, the row-proportion weights, `PartInv` vs its decision procedure.
-/
namespace Deeprob
open List

/-! ### generic list facts -/

theorem scopeEq_refl (a : List Nat) : scopeEq a a := fun _ => Iff.rfl
theorem scopeEq.symm {a b : List Nat} (h : scopeEq a b) : scopeEq b a := fun v => (h v).symm
theorem scopeEq.trans {a b c : List Nat} (h1 : scopeEq a b) (h2 : scopeEq b c) : scopeEq a c :=
  fun v => (h1 v).trans (h2 v)
theorem scopeEq_of_perm {a b : List Nat} (h : a.Perm b) : scopeEq a b := fun _ => h.mem_iff

/-- replacing every block of a duplicate-free concatenation by a duplicate-free list over the same set
keeps the concatenation duplicate-free and over the same set -/
theorem flatten_nodup_congr {β : Type} (f g : β → List Nat) : (cs : List β) →
    (∀ c ∈ cs, (g c).Nodup ∧ scopeEq (g c) (f c)) → (cs.map f).flatten.Nodup →
    (cs.map g).flatten.Nodup ∧ scopeEq (cs.map g).flatten (cs.map f).flatten
  | [], _, _ => ⟨by simp, scopeEq_refl _⟩
  | c :: cs, h, hnd => by
    simp only [List.map_cons, List.flatten_cons] at hnd ⊢
    rw [List.nodup_append] at hnd
    obtain ⟨_, hnd2, hdisj⟩ := hnd
    obtain ⟨ih1, ih2⟩ := flatten_nodup_congr f g cs (fun d hd => h d (List.mem_cons_of_mem _ hd)) hnd2
    obtain ⟨hc1, hc2⟩ := h c List.mem_cons_self
    refine ⟨?_, ?_⟩
    · rw [List.nodup_append]
      refine ⟨hc1, ih1, ?_⟩
      intro a ha b hb hab
      exact hdisj a ((hc2 a).1 ha) b ((ih2 b).1 hb) hab
    · intro v
      simp only [List.mem_append]
      rw [hc2 v, ih2 v]

theorem scopeEq_flatten_congr {β : Type} (f g : β → List Nat) (cs : List β)
    (h : ∀ c ∈ cs, scopeEq (g c) (f c)) : scopeEq (cs.map g).flatten (cs.map f).flatten := by
  intro v
  simp only [List.mem_flatten, List.mem_map]
  constructor
  · rintro ⟨_, ⟨c, hc, rfl⟩, hv⟩; exact ⟨_, ⟨c, hc, rfl⟩, (h c hc v).1 hv⟩
  · rintro ⟨_, ⟨c, hc, rfl⟩, hv⟩; exact ⟨_, ⟨c, hc, rfl⟩, (h c hc v).2 hv⟩

theorem flatMap_map_flatten {β γ : Type} (F : β → List γ) (sc : γ → List Nat) (cs : List β) :
    ((cs.flatMap F).map sc).flatten = (cs.map (fun c => ((F c).map sc).flatten)).flatten := by
  induction cs with
  | nil => rfl
  | cons c cs ih => simp [List.flatMap_cons, ih]

/-! ### the list helpers of the structural definitions are maps -/

theorem XC.prodScopesL_eq {α : Type} (cs : List (XC α)) : XC.prodScopesL cs = (cs.map XC.prodScopes).flatten := by
  induction cs with
  | nil => simp [XC.prodScopesL]
  | cons c cs ih => simp [XC.prodScopesL, ih]

theorem XC.cltScopesL_eq {α : Type} (cs : List (XC α)) : XC.cltScopesL cs = (cs.map XC.cltScopes).flatten := by
  induction cs with
  | nil => simp [XC.cltScopesL]
  | cons c cs ih => simp [XC.cltScopesL, ih]

theorem buildXpcL_eq {α : Type} [Zero α] [One α] [Div α] [NatCast α] (u d : Bool) (l : List (Part α)) :
    buildXpcL u d l = l.map (buildXpc u d) := by
  induction l with
  | nil => simp [buildXpcL]
  | cons a l ih => simp [buildXpcL, ih]

theorem partInvBL_iff {α : Type} (u d : Bool) (l : List (Part α)) :
    partInvBL u d l = true ↔ ∀ s ∈ l, partInvB u d s = true := by
  induction l with
  | nil => simp [partInvBL]
  | cons a l ih => simp [partInvBL, ih]

/-! ### `XC` basics -/

namespace XC
section semiring
variable {α : Type} [CommSemiring α]

@[simp] theorem scope_toCirc : (x : XC α) → Circ.scope x.toCirc = x.scope
  | bern v _ _ => by simp [toCirc, Circ.scope, scope, Circ.catLeaf]
  | clt _ _ _ => by simp [toCirc, Circ.scope, scope]
  | sum _ _ _ => by simp [toCirc, Circ.scope, scope]
  | prod _ _ => by simp [toCirc, Circ.scope, scope]

theorem map_scope_toCirc (cs : List (XC α)) : (cs.map toCirc).map Circ.scope = cs.map scope := by
  rw [List.map_map]; exact List.map_congr_left (fun c _ => scope_toCirc c)

/-- the stored scope of every node is duplicate-free (what `Node.__init__` insists on) -/
def ScopesNodup : XC α → Prop
  | bern _ _ _ => True
  | clt s _ _ => s.Nodup
  | sum s _ cs => s.Nodup ∧ ∀ c ∈ cs, ScopesNodup c
  | prod s cs => s.Nodup ∧ ∀ c ∈ cs, ScopesNodup c

theorem ScopesNodup.scope_nodup : (x : XC α) → ScopesNodup x → x.scope.Nodup
  | bern v _ _, _ => by simp [scope]
  | clt _ _ _, h => by simpa [ScopesNodup, scope] using h
  | sum _ _ _, h => by unfold ScopesNodup at h; exact h.1
  | prod _ _, h => by unfold ScopesNodup at h; exact h.1

/-- smooth, decomposable, every leaf a distribution: validity of the semantic circuit -/
def Valid (dom : Nat → Nat) (x : XC α) : Prop := Circ.Valid dom x.toCirc

/-- the properties of a built circuit that the construction carries upwards -/
structure Good (dom : Nat → Nat) (x : XC α) : Prop where
  valid : Valid dom x
  nodup : ScopesNodup x

theorem valid_bern (dom : Nat → Nat) (v : Nat) (q0 q1 : α) (hd : dom v = 2) (hs : q0 + q1 = 1) :
    Valid dom (bern v q0 q1) := by
  unfold Valid toCirc Circ.catLeaf Circ.Valid
  exact Circ.catLeaf_ok dom v [q0, q1] (by simp [hd]) (by simp [tsum, hs])

theorem good_bern (dom : Nat → Nat) (v : Nat) (q0 q1 : α) (hd : dom v = 2) (hs : q0 + q1 = 1) :
    Good dom (bern v q0 q1) := ⟨valid_bern dom v q0 q1 hd hs, by unfold ScopesNodup; trivial⟩

theorem good_ind (dom : Nat → Nat) (v k : Nat) (hd : dom v = 2) : Good dom (ind (α := α) v k) := by
  unfold ind
  split
  · exact good_bern dom v 1 0 hd (by simp)
  · exact good_bern dom v 0 1 hd (by simp)

@[simp] theorem scope_ind (v k : Nat) : (ind (α := α) v k).scope = [v] := by
  unfold ind; split <;> rfl

theorem good_clt (dom : Nat → Nat) (s : List Nat) (p : List Int) (c : List (List (List α)))
    (ht : Clt.isTree p = true) (hl : s.length = p.length) (hnd : s.Nodup) (hd : ∀ v ∈ s, dom v = 2) :
    Good dom (clt s p c) := by
  refine ⟨?_, by unfold ScopesNodup; exact hnd⟩
  unfold Valid toCirc Circ.Valid
  exact Clt.value_leafOK_lem dom s p c ht hl hnd hd

/-- a `Product` over valid children with pairwise disjoint duplicate-free scopes -/
theorem good_prod (dom : Nat → Nat) (s : List Nat) (cs : List (XC α)) (hg : ∀ c ∈ cs, Good dom c)
    (hnd : (cs.map scope).flatten.Nodup) (hs : scopeEq (cs.map scope).flatten s) (hsn : s.Nodup) :
    Good dom (prod s cs) := by
  refine ⟨?_, ?_⟩
  · unfold Valid toCirc Circ.Valid
    rw [map_scope_toCirc]
    refine ⟨hnd, hs, ?_⟩
    intro c hc
    obtain ⟨x, hx, rfl⟩ := List.mem_map.1 hc
    exact (hg x hx).valid
  · unfold ScopesNodup
    exact ⟨hsn, fun c hc => (hg c hc).nodup⟩

theorem good_mkProd (dom : Nat → Nat) (cs : List (XC α)) (hg : ∀ c ∈ cs, Good dom c)
    (hnd : (cs.map scope).flatten.Nodup) : Good dom (mkProd cs) :=
  good_prod dom _ cs hg hnd (scopeEq_refl _) hnd

/-- a `Sum` over valid children that all have the scope set of the first one -/
theorem good_mkSum (dom : Nat → Nat) (ws : List α) (cs : List (XC α)) (hne : cs ≠ [])
    (hl : ws.length = cs.length) (hg : ∀ c ∈ cs, Good dom c)
    (hs : ∀ c ∈ cs, scopeEq c.scope (cs.headD default).scope) : Good dom (mkSum ws cs) := by
  cases cs with
  | nil => exact absurd rfl hne
  | cons c0 cs =>
    refine ⟨?_, ?_⟩
    · unfold mkSum Valid toCirc Circ.Valid
      refine ⟨by simp, by simpa using hl, ?_, ?_⟩
      · intro c hc
        obtain ⟨x, hx, rfl⟩ := List.mem_map.1 hc
        rw [scope_toCirc]
        exact hs x hx
      · intro c hc
        obtain ⟨x, hx, rfl⟩ := List.mem_map.1 hc
        exact (hg x hx).valid
    · unfold mkSum ScopesNodup
      exact ⟨(hg c0 List.mem_cons_self).nodup.scope_nodup, fun c hc => (hg c hc).nodup⟩

@[simp] theorem scope_mkProd (cs : List (XC α)) : (mkProd cs).scope = (cs.map scope).flatten := rfl
@[simp] theorem scope_mkSum_cons (ws : List α) (c : XC α) (cs : List (XC α)) :
    (mkSum ws (c :: cs)).scope = c.scope := rfl

/-! ### the flattening step of the product case -/

theorem flattenChild_good (dom : Nat → Nat) : (x : XC α) → Good dom x → ∀ c ∈ flattenChild x, Good dom c
  | bern v q0 q1, h, c, hc => by simp only [flattenChild, List.mem_singleton] at hc; exact hc ▸ h
  | clt s p t, h, c, hc => by simp only [flattenChild, List.mem_singleton] at hc; exact hc ▸ h
  | prod s cs, h, c, hc => by
    simp only [flattenChild] at hc
    have hv := h.valid
    have hn := h.nodup
    unfold Valid toCirc Circ.Valid at hv
    unfold ScopesNodup at hn
    exact ⟨hv.2.2 _ (List.mem_map_of_mem hc), hn.2 c hc⟩
  | sum s ws cs, h, c, hc => by
    simp only [flattenChild] at hc
    split at hc
    · have hv := h.valid
      have hn := h.nodup
      unfold Valid toCirc Circ.Valid at hv
      unfold ScopesNodup at hn
      exact ⟨hv.2.2.2 _ (List.mem_map_of_mem hc), hn.2 c hc⟩
    · simp only [List.mem_singleton] at hc; exact hc ▸ h

/-- the scopes of the children taken over from `x` are pairwise disjoint and cover the scope of `x` -/
theorem flattenChild_scope (dom : Nat → Nat) : (x : XC α) → Good dom x →
    ((flattenChild x).map scope).flatten.Nodup ∧ scopeEq ((flattenChild x).map scope).flatten x.scope
  | bern v q0 q1, h => by simp [flattenChild, scope, scopeEq]
  | clt s p t, h => by
    have := h.nodup
    unfold ScopesNodup at this
    simp [flattenChild, scope, scopeEq, this]
  | prod s cs, h => by
    have hv := h.valid
    unfold Valid toCirc Circ.Valid at hv
    rw [map_scope_toCirc] at hv
    exact ⟨hv.1, hv.2.1⟩
  | sum s ws cs, h => by
    simp only [flattenChild]
    split
    · rename_i h1
      match cs, h1 with
      | [c], _ =>
        have hv := h.valid
        have hn := h.nodup
        unfold Valid toCirc Circ.Valid at hv
        unfold ScopesNodup at hn
        have hsc := hv.2.2.1 c.toCirc (by simp)
        rw [scope_toCirc] at hsc
        simp only [List.map_cons, List.map_nil, List.flatten_cons, List.flatten_nil, List.append_nil, scope]
        exact ⟨(hn.2 c (by simp)).scope_nodup, hsc⟩
    · have hn := h.nodup
      unfold ScopesNodup at hn
      simp only [List.map_cons, List.map_nil, List.flatten_cons, List.flatten_nil, List.append_nil, scope]
      exact ⟨hn.1, scopeEq_refl _⟩

/-- **the product node of `build_xpc`**: flattening valid children with pairwise disjoint scopes gives a
valid product over the union -/
theorem good_flatProd (dom : Nat → Nat) (cs : List (XC α)) (hg : ∀ c ∈ cs, Good dom c)
    (hnd : (cs.map scope).flatten.Nodup) :
    Good dom (mkProd (cs.flatMap flattenChild)) ∧
      scopeEq (mkProd (cs.flatMap flattenChild)).scope (cs.map scope).flatten := by
  have key := flatten_nodup_congr scope (fun c => ((flattenChild c).map scope).flatten) cs
    (fun c hc => flattenChild_scope dom c (hg c hc)) hnd
  rw [← flatMap_map_flatten] at key
  refine ⟨good_mkProd dom _ ?_ key.1, key.2⟩
  intro c hc
  obtain ⟨x, hx, hcx⟩ := List.mem_flatMap.1 hc
  exact flattenChild_good dom x (hg x hx) c hcx

end semiring
end XC


/-! ### normalisation: positive sum weights summing to one, normalised leaves -/

namespace XC
section norm
variable {α : Type}

/-- every sum node's weights are positive and sum to one; every Bernoulli table sums to one; every
Chow-Liu leaf has a well-formed tree and CPT rows summing to one -/
def Normalised [Zero α] [One α] [Add α] [LT α] : XC α → Prop
  | bern _ q0 q1 => q0 + q1 = 1
  | clt _ p c => Clt.isTree p = true ∧ ∀ i, i < p.length → ∀ l, l < 2 → Clt.cptAt c i l 0 + Clt.cptAt c i l 1 = 1
  | sum _ ws cs => tsum ws = 1 ∧ (∀ w ∈ ws, 0 < w) ∧ ∀ c ∈ cs, Normalised c
  | prod _ cs => ∀ c ∈ cs, Normalised c

variable [CommSemiring α] [LT α]

theorem Normalised.normW : (x : XC α) → Normalised x → Circ.NormW x.toCirc
  | bern _ _ _, _ => by simp [toCirc, Circ.catLeaf, Circ.NormW]
  | clt _ _ _, _ => by simp [toCirc, Circ.NormW]
  | sum _ ws cs, h => by
    unfold Normalised at h
    unfold toCirc Circ.NormW
    refine ⟨h.1, ?_⟩
    intro c hc
    obtain ⟨x, hx, rfl⟩ := List.mem_map.1 hc
    exact Normalised.normW x (h.2.2 x hx)
  | prod _ cs, h => by
    unfold Normalised at h
    unfold toCirc Circ.NormW
    intro c hc
    obtain ⟨x, hx, rfl⟩ := List.mem_map.1 hc
    exact Normalised.normW x (h x hx)

theorem Normalised.leafNorm (dom : Nat → Nat) : (x : XC α) → Normalised x → Circ.LeafNorm dom x.toCirc
  | bern _ _ _, _ => by simp [toCirc, Circ.catLeaf, Circ.LeafNorm, Circ.catLeafFn]
  | clt s p c, h => by
    unfold Normalised at h
    unfold toCirc Circ.LeafNorm
    obtain ⟨r, hr, hperm⟩ := Clt.isTree_perm h.1
    have hmem : r ∈ (Clt.build p p.length r).vars := by rw [Clt.vars_build]; exact List.mem_cons_self
    have hlt : r < p.length := List.mem_range.1 (hperm.mem_iff.1 hmem)
    exact Clt.value_none_one s p c r hr hlt h.2
  | sum _ ws cs, h => by
    unfold Normalised at h
    unfold toCirc Circ.LeafNorm
    intro c hc
    obtain ⟨x, hx, rfl⟩ := List.mem_map.1 hc
    exact Normalised.leafNorm dom x (h.2.2 x hx)
  | prod _ cs, h => by
    unfold Normalised at h
    unfold toCirc Circ.LeafNorm
    intro c hc
    obtain ⟨x, hx, rfl⟩ := List.mem_map.1 hc
    exact Normalised.leafNorm dom x (h x hx)

theorem normalised_mkProd (cs : List (XC α)) (h : ∀ c ∈ cs, Normalised c) : Normalised (mkProd cs) := by
  unfold mkProd Normalised; exact h

theorem normalised_mkSum (ws : List α) (cs : List (XC α)) (h1 : tsum ws = 1) (h2 : ∀ w ∈ ws, 0 < w)
    (h : ∀ c ∈ cs, Normalised c) : Normalised (mkSum ws cs) := by
  unfold mkSum Normalised; exact ⟨h1, h2, h⟩

theorem flattenChild_normalised : (x : XC α) → Normalised x → ∀ c ∈ flattenChild x, Normalised c
  | bern v q0 q1, h, c, hc => by simp only [flattenChild, List.mem_singleton] at hc; exact hc ▸ h
  | clt s p t, h, c, hc => by simp only [flattenChild, List.mem_singleton] at hc; exact hc ▸ h
  | prod s cs, h, c, hc => by
    simp only [flattenChild] at hc
    unfold Normalised at h
    exact h c hc
  | sum s ws cs, h, c, hc => by
    simp only [flattenChild] at hc
    split at hc
    · unfold Normalised at h
      exact h.2.2 c hc
    · simp only [List.mem_singleton] at hc; exact hc ▸ h

theorem normalised_flatProd (cs : List (XC α)) (h : ∀ c ∈ cs, Normalised c) :
    Normalised (mkProd (cs.flatMap flattenChild)) := by
  apply normalised_mkProd
  intro c hc
  obtain ⟨x, hx, hcx⟩ := List.mem_flatMap.1 hc
  exact flattenChild_normalised x (h x hx) c hcx

theorem normalised_ind (v k : Nat) : Normalised (ind (α := α) v k) := by
  unfold ind; split <;> simp [Normalised]

end norm
end XC

/-! ### leaves -/

section leaves
variable {α : Type} [CommSemiring α]
open XC

theorem zipWith_scope {β : Type} (g : Nat → β → XC α) (hg : ∀ v b, (g v b).scope = [v]) :
    (cols : List Nat) → (bs : List β) → bs.length = cols.length →
      ((List.zipWith g cols bs).map scope).flatten = cols
  | [], [], _ => rfl
  | [], _ :: _, h => by simp at h
  | _ :: _, [], h => by simp at h
  | v :: cols, b :: bs, h => by
    simp only [List.zipWith_cons_cons, List.map_cons, List.flatten_cons, hg, List.singleton_append]
    rw [zipWith_scope g hg cols bs (by simpa using h)]

theorem mem_zipWith_left {β γ : Type} (g : Nat → β → γ) : (cols : List Nat) → (bs : List β) → ∀ x,
    x ∈ List.zipWith g cols bs → ∃ v ∈ cols, ∃ b ∈ bs, x = g v b
  | [], _, x, h => by simp at h
  | _ :: _, [], x, h => by simp at h
  | v :: cols, b :: bs, x, h => by
    simp only [List.zipWith_cons_cons, List.mem_cons] at h
    rcases h with rfl | h
    · exact ⟨v, List.mem_cons_self, b, List.mem_cons_self, rfl⟩
    · obtain ⟨v', hv', b', hb', rfl⟩ := mem_zipWith_left g cols bs x h
      exact ⟨v', List.mem_cons_of_mem _ hv', b', List.mem_cons_of_mem _ hb', rfl⟩

theorem good_conjProd (dom : Nat → Nat) (cols a : List Nat) (hl : a.length = cols.length) (hnd : cols.Nodup)
    (hd : ∀ v ∈ cols, dom v = 2) :
    Good dom (conjProd (α := α) cols a) ∧ (conjProd (α := α) cols a).scope = cols := by
  have hsc := zipWith_scope (α := α) XC.ind scope_ind cols a hl
  refine ⟨?_, hsc⟩
  unfold conjProd
  apply good_mkProd
  · intro c hc
    obtain ⟨v, hv, k, _, rfl⟩ := mem_zipWith_left _ _ _ _ hc
    exact good_ind dom v k (hd v hv)
  · rw [hsc]; exact hnd

theorem good_learnMle (dom : Nat → Nat) (cols : List Nat) (tbl : List (α × α)) (hl : tbl.length = cols.length)
    (hne : cols ≠ []) (hnd : cols.Nodup) (hd : ∀ v ∈ cols, dom v = 2) (hs : ∀ q ∈ tbl, q.1 + q.2 = 1) :
    Good dom (learnMle cols tbl) ∧ (learnMle cols tbl).scope = cols := by
  have hgen : Good dom (.prod cols (List.zipWith (fun v (q : α × α) => XC.bern v q.1 q.2) cols tbl)) := by
    have hsc := zipWith_scope (α := α) (fun v (q : α × α) => XC.bern v q.1 q.2) (fun _ _ => rfl) cols tbl hl
    apply good_prod dom cols _ _ (by rw [hsc]; exact hnd) (by rw [hsc]; exact scopeEq_refl _) hnd
    intro c hc
    obtain ⟨v, hv, q, hq, rfl⟩ := mem_zipWith_left _ _ _ _ hc
    exact good_bern dom v q.1 q.2 (hd v hv) (hs q hq)
  unfold learnMle
  split
  · rename_i v q
    exact ⟨good_bern dom v q.1 q.2 (hd v (by simp)) (hs q (by simp)), rfl⟩
  · exact ⟨hgen, rfl⟩

theorem good_buildDisjunction (dom : Nat → Nat) (cols : List Nat) (assign : List (List Nat)) (ws : List α)
    (hne : assign ≠ []) (hl : ∀ a ∈ assign, a.length = cols.length) (hw : 1 < assign.length → ws.length = assign.length)
    (hnd : cols.Nodup) (hd : ∀ v ∈ cols, dom v = 2) :
    Good dom (buildDisjunction cols assign ws) ∧ (buildDisjunction cols assign ws).scope = cols := by
  unfold buildDisjunction
  simp only [List.length_map]
  cases assign with
  | nil => exact absurd rfl hne
  | cons a0 rest =>
    have h0 := good_conjProd (α := α) dom cols a0 (hl a0 List.mem_cons_self) hnd hd
    split
    · rename_i h1
      refine ⟨?_, by simp [h0.2]⟩
      apply good_mkSum dom ws _ (by simp) (by simpa using hw h1)
      · intro c hc
        obtain ⟨a, ha, rfl⟩ := List.mem_map.1 hc
        exact (good_conjProd dom cols a (hl a ha) hnd hd).1
      · intro c hc
        obtain ⟨a, ha, rfl⟩ := List.mem_map.1 hc
        simp only [List.map_cons, List.headD_cons]
        rw [(good_conjProd (α := α) dom cols a (hl a ha) hnd hd).2, h0.2]
        exact scopeEq_refl _
    · simpa using h0

end leaves

/-! ### the row-proportion weights -/

section weights
variable {α : Type} [Field α] [LinearOrder α] [IsStrictOrderedRing α]

theorem tsum_map_div (l : List Nat) (n : Nat) :
    tsum (l.map (fun k : Nat => (Nat.cast k : α) / (Nat.cast n : α))) = (Nat.cast l.sum : α) / (Nat.cast n : α) := by
  induction l with
  | nil => simp [tsum]
  | cons k l ih => simp only [List.map_cons, tsum, ih, List.sum_cons, Nat.cast_add]; ring

theorem sum_map_length {β : Type} (f : β → List Nat) (l : List β) :
    (l.map (fun s => (f s).length)).sum = (l.map f).flatten.length := by
  induction l with
  | nil => rfl
  | cons x l ih => simp [ih]

/-- the weights `len(sub.row_ids) / len(part.row_ids)` of a horizontal split sum to one -/
theorem rowWeights_sum {β : Type} (f : β → List Nat) (subs : List β) (rows : List Nat) (hne : rows ≠ [])
    (hp : (subs.map f).flatten.Perm rows) :
    tsum (subs.map (fun s => ((f s).length : α) / (rows.length : α))) = 1 := by
  have h := tsum_map_div (α := α) (subs.map (fun s => (f s).length)) rows.length
  rw [List.map_map] at h
  rw [show (fun s => ((f s).length : α) / (rows.length : α)) =
    ((fun k : Nat => (Nat.cast k : α) / (Nat.cast rows.length : α)) ∘ fun s => (f s).length) from rfl, h,
    sum_map_length, hp.length_eq]
  have : (rows.length : α) ≠ 0 := by
    have : 0 < rows.length := List.length_pos_iff.2 hne
    exact_mod_cast this.ne'
  exact div_self this

theorem rowWeight_pos (a rows : List Nat) (ha : a ≠ []) (hr : rows ≠ []) :
    0 < ((a.length : α) / (rows.length : α)) := by
  apply div_pos
  · exact_mod_cast List.length_pos_iff.2 ha
  · exact_mod_cast List.length_pos_iff.2 hr

end weights

/-! ### `PartInv` and its decision procedure -/

section decide
variable {α : Type}

theorem nodupB_iff : (l : List Nat) → (nodupB l = true ↔ l.Nodup)
  | [] => by simp [nodupB]
  | x :: xs => by simp [nodupB, nodupB_iff xs]

theorem sameSetB_iff (a b : List Nat) : sameSetB a b = true ↔ scopeEq a b := by
  simp only [sameSetB, Bool.and_eq_true, List.all_eq_true, List.contains_iff_mem, scopeEq]
  constructor
  · rintro ⟨h1, h2⟩ v; exact ⟨h1 v, h2 v⟩
  · intro h; exact ⟨fun v hv => (h v).1 hv, fun v hv => (h v).2 hv⟩

theorem leafInvB_iff (useClt det : Bool) (cols : List Nat) (isConj isNaive : Bool) (disc : List (List Nat))
    (par : LeafPar α) :
    leafInvB useClt det cols isConj isNaive disc par = true ↔ LeafInv useClt det cols isConj isNaive disc par := by
  unfold leafInvB LeafInv
  split
  · simp
  · split
    · split
      · simp
      · simp only [Bool.and_eq_true, Bool.not_eq_true', List.isEmpty_eq_false_iff, List.all_eq_true, beq_iff_eq,
          Bool.or_eq_true, decide_eq_false_iff_not, ne_eq]
        constructor
        · rintro ⟨⟨h1, h2⟩, h3⟩
          exact ⟨h1, h2, fun h => h3.resolve_left (fun hn => hn h)⟩
        · rintro ⟨h1, h2, h3⟩
          refine ⟨⟨h1, h2⟩, ?_⟩
          by_cases h : 1 < disc.length
          · exact Or.inr (h3 h)
          · exact Or.inl h
    · simp [nodupB_iff, sameSetB_iff, and_assoc]

theorem all_map_id {β : Type} (f : β → Bool) (l : List β) : (l.map f).all id = true ↔ ∀ x ∈ l, f x = true := by
  simp [List.all_eq_true]

/-- **the driver's verdict `partinv=…` decides `PartInv`** -/
theorem partInvB_iff (useClt det : Bool) : (p : Part α) → (partInvB useClt det p = true ↔ PartInv useClt det p)
  | .leaf rows cols isConj isNaive disc par => by
    simp only [partInvB, PartInv, Bool.and_eq_true, Bool.not_eq_true', List.isEmpty_eq_false_iff, nodupB_iff,
      leafInvB_iff, and_assoc, ne_eq]
  | .horiz rows cols subs => by
    have ih : ∀ s ∈ subs, (partInvB useClt det s = true ↔ PartInv useClt det s) :=
      fun s _ => partInvB_iff useClt det s
    simp only [partInvB, PartInv, Bool.and_eq_true, partInvBL_iff]
    simp only [Bool.and_eq_true, Bool.not_eq_true', List.isEmpty_eq_false_iff, nodupB_iff,
      and_assoc, ne_eq, List.isPerm_iff, List.all_eq_true, sameSetB_iff]
    constructor
    · rintro ⟨h1, h2, h3, h4, h5, h6, h7, h8⟩
      exact ⟨h1, h2, h3, h4, h5, h6, fun s hs => ⟨(h7 s hs).1, (h7 s hs).2, (ih s hs).1 (h8 s hs)⟩⟩
    · rintro ⟨h1, h2, h3, h4, h5, h6, h7⟩
      exact ⟨h1, h2, h3, h4, h5, h6, fun s hs => ⟨(h7 s hs).1, (h7 s hs).2.1⟩, fun s hs => (ih s hs).2 (h7 s hs).2.2⟩
  | .vert rows cols subs => by
    have ih : ∀ s ∈ subs, (partInvB useClt det s = true ↔ PartInv useClt det s) :=
      fun s _ => partInvB_iff useClt det s
    simp only [partInvB, PartInv, Bool.and_eq_true, partInvBL_iff]
    simp only [Bool.and_eq_true, Bool.not_eq_true', List.isEmpty_eq_false_iff, nodupB_iff,
      and_assoc, ne_eq, List.isPerm_iff, List.all_eq_true]
    constructor
    · rintro ⟨h1, h2, h3, h4, h5, h6, h7⟩
      exact ⟨h1, h2, h3, h4, h5, fun s hs => ⟨h6 s hs, (ih s hs).1 (h7 s hs)⟩⟩
    · rintro ⟨h1, h2, h3, h4, h5, h6⟩
      exact ⟨h1, h2, h3, h4, h5, fun s hs => (h6 s hs).1, fun s hs => (ih s hs).2 (h6 s hs).2⟩

end decide
/-! ### the induction behind all C04 theorems on `buildXpc` -/

section built
open XC
variable {α : Type} [Field α] [LinearOrder α] [IsStrictOrderedRing α]

/-- numeric hypotheses on the oracle values of one leaf, branch by branch (same cascade as `buildLeaf`) -/
def LeafParOK (useClt det isConj isNaive : Bool) (disc : List (List Nat)) (par : LeafPar α) : Prop :=
  if isConj then True
  else if isNaive || !useClt then
    if mleBranch det disc then ∀ q ∈ par.tbl, q.1 + q.2 = 1
    else 1 < disc.length → tsum par.ws = 1 ∧ ∀ w ∈ par.ws, 0 < w
  else ∀ i, i < par.cltPred.length → ∀ l, l < 2 →
    Clt.cptAt par.cltCpt i l 0 + Clt.cptAt par.cltCpt i l 1 = 1

/-- `LeafParOK` at every leaf of the partition tree -/
def ParOK (useClt det : Bool) : Part α → Prop
  | .leaf _ _ isConj isNaive disc par => LeafParOK useClt det isConj isNaive disc par
  | .horiz _ _ subs => ∀ s ∈ subs, ParOK useClt det s
  | .vert _ _ subs => ∀ s ∈ subs, ParOK useClt det s

/-- everything the construction carries upwards, in one statement (the induction of all theorems below) -/
structure Built (dom : Nat → Nat) (cols : List Nat) (x : XC α) : Prop where
  good : Good dom x
  scope : scopeEq x.scope cols
  norm : Normalised x

theorem buildLeaf_built (dom : Nat → Nat) (hdom : ∀ v, dom v = 2) (useClt det : Bool) (cols : List Nat)
    (isConj isNaive : Bool) (disc : List (List Nat)) (par : LeafPar α) (hne : cols ≠ []) (hnd : cols.Nodup)
    (hi : LeafInv useClt det cols isConj isNaive disc par) (hp : LeafParOK useClt det isConj isNaive disc par) :
    Built dom cols (buildLeaf useClt det cols isConj isNaive disc par) := by
  unfold buildLeaf
  unfold LeafInv at hi
  unfold LeafParOK at hp
  by_cases h1 : isConj = true
  · simp only [h1, if_true] at hi hp ⊢
    obtain ⟨hg, hs⟩ := good_conjProd (α := α) dom cols par.row0 hi hnd (fun v _ => hdom v)
    refine ⟨hg, by rw [hs]; exact scopeEq_refl _, ?_⟩
    unfold conjProd
    apply normalised_mkProd
    intro c hc
    obtain ⟨v, _, k, _, rfl⟩ := mem_zipWith_left _ _ _ _ hc
    exact normalised_ind v k
  · simp only [h1, if_false, Bool.false_eq_true] at hi hp ⊢
    by_cases h2 : (isNaive || !useClt) = true
    · simp only [h2, if_true] at hi hp ⊢
      by_cases h3 : mleBranch det disc = true
      · simp only [h3, if_true] at hi hp ⊢
        obtain ⟨hg, hs⟩ := good_learnMle dom cols par.tbl hi hne hnd (fun v _ => hdom v) hp
        refine ⟨hg, by rw [hs]; exact scopeEq_refl _, ?_⟩
        unfold learnMle
        split
        · rename_i v q heq; unfold Normalised; exact hp q (by rw [heq]; simp)
        · unfold Normalised
          intro c hc
          obtain ⟨v, _, q, hq, rfl⟩ := mem_zipWith_left _ _ _ _ hc
          unfold Normalised; exact hp q hq
      · simp only [h3, if_false, Bool.false_eq_true] at hi hp ⊢
        obtain ⟨hdne, hlen, hw⟩ := hi
        obtain ⟨hg, hs⟩ := good_buildDisjunction dom cols disc par.ws hdne hlen hw hnd (fun v _ => hdom v)
        refine ⟨hg, by rw [hs]; exact scopeEq_refl _, ?_⟩
        have hprod : ∀ a, Normalised (conjProd (α := α) cols a) := by
          intro a
          unfold conjProd
          apply normalised_mkProd
          intro c hc
          obtain ⟨v, _, k, _, rfl⟩ := mem_zipWith_left _ _ _ _ hc
          exact normalised_ind v k
        unfold buildDisjunction
        simp only [List.length_map]
        split
        · rename_i h4
          obtain ⟨hw1, hw2⟩ := hp h4
          apply normalised_mkSum _ _ hw1 hw2
          intro c hc
          obtain ⟨a, _, rfl⟩ := List.mem_map.1 hc
          exact hprod a
        · cases disc with
          | nil => exact absurd rfl hdne
          | cons a0 rest => simpa using hprod a0
    · simp only [h2, if_false, Bool.false_eq_true] at hi hp ⊢
      obtain ⟨ht, hl, hn, hs⟩ := hi
      refine ⟨good_clt dom _ _ _ ht hl hn (fun v _ => hdom v), hs, ?_⟩
      unfold Normalised
      exact ⟨ht, hp⟩

/-- the induction: `build_xpc` on a partition tree satisfying `PartInv` with admissible leaf parameters -/
theorem buildXpc_built (dom : Nat → Nat) (hdom : ∀ v, dom v = 2) (useClt det : Bool) :
    (p : Part α) → PartInv useClt det p → ParOK useClt det p → Built dom p.cols (buildXpc useClt det p)
  | .leaf rows cols isConj isNaive disc par, hi, hp => by
    unfold PartInv at hi
    unfold ParOK at hp
    unfold buildXpc
    exact buildLeaf_built dom hdom useClt det cols isConj isNaive disc par hi.2.2.1 hi.2.2.2.1 hi.2.2.2.2 hp
  | .horiz rows cols subs, hi, hp => by
    unfold PartInv at hi
    unfold ParOK at hp
    obtain ⟨hr, _, hc, hcn, hsne, hperm, hsub⟩ := hi
    have ih : ∀ s ∈ subs, Built dom s.cols (buildXpc useClt det s) :=
      fun s hs => buildXpc_built dom hdom useClt det s (hsub s hs).2.2 (hp s hs)
    have hsc : ∀ s ∈ subs, scopeEq (buildXpc useClt det s).scope cols :=
      fun s hs => (ih s hs).scope.trans (hsub s hs).2.1
    unfold buildXpc
    rw [buildXpcL_eq]
    cases subs with
    | nil => exact absurd rfl hsne
    | cons s0 rest =>
      refine ⟨?_, ?_, ?_⟩
      · apply good_mkSum dom _ _ (by simp) (by simp)
        · intro c hc
          obtain ⟨s, hs, rfl⟩ := List.mem_map.1 hc
          exact (ih s hs).good
        · intro c hc
          obtain ⟨s, hs, rfl⟩ := List.mem_map.1 hc
          simp only [List.map_cons, List.headD_cons]
          exact (hsc s hs).trans (hsc s0 List.mem_cons_self).symm
      · simp only [List.map_cons, scope_mkSum_cons, Part.cols]
        exact hsc s0 List.mem_cons_self
      · apply normalised_mkSum
        · exact rowWeights_sum Part.rows (s0 :: rest) rows hr hperm
        · intro w hw
          obtain ⟨s, hs, rfl⟩ := List.mem_map.1 hw
          exact rowWeight_pos s.rows rows (hsub s hs).1 hr
        · intro c hc
          obtain ⟨s, hs, rfl⟩ := List.mem_map.1 hc
          exact (ih s hs).norm
  | .vert rows cols subs, hi, hp => by
    unfold PartInv at hi
    unfold ParOK at hp
    obtain ⟨_, _, hc, hcn, hperm, hsub⟩ := hi
    have ih : ∀ s ∈ subs, Built dom s.cols (buildXpc useClt det s) :=
      fun s hs => buildXpc_built dom hdom useClt det s (hsub s hs).2 (hp s hs)
    -- the scopes of the children's circuits are duplicate-free lists over the sub-column sets
    have h1 := flatten_nodup_congr Part.cols (fun s => (buildXpc useClt det s).scope) subs
      (fun s hs => ⟨(ih s hs).good.nodup.scope_nodup, (ih s hs).scope⟩) (hperm.nodup_iff.2 hcn)
    have hmap : (subs.map (buildXpc useClt det)).map XC.scope = subs.map (fun s => (buildXpc useClt det s).scope) := by
      rw [List.map_map]; rfl
    have h2 := good_flatProd dom (subs.map (buildXpc useClt det))
      (fun c hc => by obtain ⟨s, hs, rfl⟩ := List.mem_map.1 hc; exact (ih s hs).good)
      (by rw [hmap]; exact h1.1)
    unfold buildXpc
    rw [buildXpcL_eq]
    refine ⟨h2.1, ?_, ?_⟩
    · simp only [Part.cols]
      refine h2.2.trans ?_
      rw [hmap]
      exact h1.2.trans (scopeEq_of_perm hperm)
    · apply normalised_flatProd
      intro c hc
      obtain ⟨s, hs, rfl⟩ := List.mem_map.1 hc
      exact (ih s hs).norm

end built

end Deeprob
