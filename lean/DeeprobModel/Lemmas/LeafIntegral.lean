import DeeprobModel.Lemmas.LeafLemmas
import Mathlib.MeasureTheory.Integral.IntervalIntegral.Basic
import Mathlib.Analysis.SpecialFunctions.Integrals.Basic
set_option linter.unusedSimpArgs false
set_option linter.unusedVariables false
set_option linter.unusedSectionVars false
/-
Integrals of the histogram density over `ℝ` (interval integrals of Mathlib): one induction over the bins,
`∫_{lo}^{x} g·(un-normalised height) = Σ hᵢ·∫_{bᵢ}^{min(x,bᵢ₊₁)} g` for every continuous `g`, from which the cdf
(`g = 1`), the total mass and the raw moments (`g = tᵏ`, `integral_pow`) follow.
-/
namespace Deeprob.LeafTheory
open MeasureTheory intervalIntegral Set

/-- `∫_{lo}^{x} g(t)·histRaw(t) dt` is the finite sum of interval integrals `histInt`, and the integrand is
interval integrable — any continuous `g`, any number of bins, any `x ≥ lo`. -/
theorem integral_mul_histRaw (g : ℝ → ℝ) (hg : Continuous g) :
    ∀ (hs : List ℝ) (lo : ℝ) (bs : List ℝ) (x : ℝ), Incr (lo :: bs) → lo ≤ x →
      IntervalIntegrable (fun t => g t * histRaw t hs (lo :: bs)) volume lo x ∧
      ∫ t in lo..x, g t * histRaw t hs (lo :: bs) = histInt (fun a b => ∫ t in a..b, g t) x hs (lo :: bs)
  | [], lo, bs, x, _, _ => by
      have h0 : (fun t => g t * histRaw t [] (lo :: bs)) = fun _ => (0 : ℝ) := by
        funext t; simp [histRaw]
      rw [h0]
      exact ⟨intervalIntegrable_const, by simp [histInt]⟩
  | h :: hs, lo, [], x, _, _ => by
      have h0 : (fun t => g t * histRaw t (h :: hs) [lo]) = fun _ => (0 : ℝ) := by
        funext t; simp [histRaw]
      rw [h0]
      exact ⟨intervalIntegrable_const, by simp [histInt]⟩
  | h :: hs, lo, hi :: bs, x, hb, hx => by
      have hc : Continuous (fun t => g t * h) := hg.mul continuous_const
      by_cases hlt : x < hi
      · have heq : EqOn (fun t => g t * h) (fun t => g t * histRaw t (h :: hs) (lo :: hi :: bs)) (Ioo lo x) := by
          intro t ht
          have : t < hi := lt_trans ht.2 hlt
          simp [histRaw, this]
        refine ⟨(hc.intervalIntegrable lo x).congr_uIoo (by rwa [uIoo_of_le hx]), ?_⟩
        rw [← integral_congr_Ioo_of_le hx heq, intervalIntegral.integral_mul_const]
        simp [histInt, hlt, mul_comm]
      · have hle : hi ≤ x := not_lt.1 hlt
        have hlo : lo ≤ hi := hb.1.le
        obtain ⟨ih1, ih2⟩ := integral_mul_histRaw g hg hs hi bs x hb.tail hle
        have heq1 : EqOn (fun t => g t * h) (fun t => g t * histRaw t (h :: hs) (lo :: hi :: bs)) (Ioo lo hi) := by
          intro t ht
          simp [histRaw, ht.2]
        have heq2 : EqOn (fun t => g t * histRaw t hs (hi :: bs))
            (fun t => g t * histRaw t (h :: hs) (lo :: hi :: bs)) (Ioo hi x) := by
          intro t ht
          have : ¬ t < hi := not_lt.2 ht.1.le
          simp [histRaw, this]
        have i1 : IntervalIntegrable (fun t => g t * histRaw t (h :: hs) (lo :: hi :: bs)) volume lo hi :=
          (hc.intervalIntegrable lo hi).congr_uIoo (by rwa [uIoo_of_le hlo])
        have i2 : IntervalIntegrable (fun t => g t * histRaw t (h :: hs) (lo :: hi :: bs)) volume hi x :=
          ih1.congr_uIoo (by rwa [uIoo_of_le hle])
        refine ⟨i1.trans i2, ?_⟩
        rw [← integral_add_adjacent_intervals i1 i2, ← integral_congr_Ioo_of_le hlo heq1,
          ← integral_congr_Ioo_of_le hle heq2, ih2, intervalIntegral.integral_mul_const]
        simp [histInt, hlt, mul_comm]

/-- the same against the normalised density `histPdf`, from the first break -/
theorem integral_mul_histPdf (g : ℝ → ℝ) (hg : Continuous g) (hs : List ℝ) (b0 : ℝ) (bs : List ℝ) (x : ℝ)
    (hb : Incr (b0 :: bs)) (hx : b0 ≤ x) :
    IntervalIntegrable (fun t => g t * histPdf hs (b0 :: bs) t) volume b0 x ∧
    ∫ t in b0..x, g t * histPdf hs (b0 :: bs) t =
      histInt (fun a b => ∫ t in a..b, g t) x hs (b0 :: bs) / histZ hs (b0 :: bs) := by
  obtain ⟨i, e⟩ := integral_mul_histRaw g hg hs b0 bs x hb hx
  have heq : EqOn (fun t => g t * histRaw t hs (b0 :: bs) / histZ hs (b0 :: bs))
      (fun t => g t * histPdf hs (b0 :: bs) t) (Ioo b0 x) := by
    intro t ht
    have : ¬ t < b0 := not_lt.2 ht.1.le
    simp [histPdf, this, mul_div_assoc]
  refine ⟨(i.div_const _).congr_uIoo (by rwa [uIoo_of_le hx]), ?_⟩
  rw [← integral_congr_Ioo_of_le hx heq, intervalIntegral.integral_div, e]

/-- left of the first break the density vanishes, so the integral from `b₀` to any `x < b₀` is zero -/
theorem integral_histPdf_left (hs : List ℝ) (b0 : ℝ) (bs : List ℝ) (x : ℝ) (hx : x < b0) :
    ∫ t in b0..x, histPdf hs (b0 :: bs) t = 0 := by
  have heq : EqOn (fun _ => (0 : ℝ)) (fun t => histPdf hs (b0 :: bs) t) (uIoo b0 x) := by
    intro t ht
    rw [uIoo_of_ge hx.le] at ht
    simp [histPdf, ht.2]
  rw [← integral_congr_uIoo heq]
  simp

theorem histInt_sub (x : ℝ) : ∀ (hs : List ℝ) (b : List ℝ),
    histInt (fun a b => ∫ _ in a..b, (1 : ℝ)) x hs b = histCdfRaw x hs b
  | [], _ => by simp [histInt, histCdfRaw]
  | _ :: _, [] => by simp [histInt, histCdfRaw]
  | _ :: _, [_] => by simp [histInt, histCdfRaw]
  | h :: hs, lo :: hi :: bs => by
      simp only [histInt, histCdfRaw]
      rw [histInt_sub x hs (hi :: bs)]
      simp

theorem histInt_pow_last (z : ℝ) (k : ℕ) (x : ℝ) : ∀ (hs : List ℝ) (lo : ℝ) (bs : List ℝ), Incr (lo :: bs) →
    lastB lo bs ≤ x →
    histInt (fun a b => ∫ t in a..b, t ^ k) x hs (lo :: bs) / z = histMomentZ z k hs (lo :: bs)
  | [], _, _, _, _ => by simp [histInt, histMomentZ]
  | _ :: _, _, [], _, _ => by simp [histInt, histMomentZ]
  | h :: hs, lo, hi :: bs, hb, hx => by
      have h1 : hi ≤ x := le_trans (incr_le_lastB bs hi hb.tail) (by simpa [lastB] using hx)
      simp only [histInt, histMomentZ]
      rw [if_neg (not_lt.2 h1), add_div, histInt_pow_last z k x hs hi bs hb.tail (by simpa [lastB] using hx),
        integral_pow]
      congr 1
      push_cast
      ring

end Deeprob.LeafTheory
