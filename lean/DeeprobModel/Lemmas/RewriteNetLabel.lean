import DeeprobModel.Lemmas.RewriteNetExport
import DeeprobModel.Spec.ValidSpec
set_option linter.unusedSectionVars false
set_option linter.unusedSimpArgs false
set_option linter.unusedVariables false
/-
Structural theory of the net-level `prune`, part 4: the ids written by `assign_ids` (`exportFrom`) are a
permutation of `0..n-1`, GIVEN that Kahn's order lists the reachable nodes once (`KahnFacts`; proved for every table
with in-range children in `Lemmas/KahnLemmas.lean`, theorem `kahn_spec`).
-/
namespace Deeprob
open Net
variable {α : Type} [CommSemiring α]

/-- what `exportFrom` needs from `topological_order`: every reachable node is listed exactly once -/
def KahnFacts (t : Net α) (r : Nat) : Prop :=
  ∀ ko, kahn t r = some ko → ko.Nodup ∧ ∀ v, v ∈ ko ↔ v ∈ collect t r

theorem closed_mem (t : Net α) (order : List Nat) (hcl : Closed t order) :
    ∀ i ∈ order, ∀ c ∈ chOf t i, c ∈ order := by
  intro i hi c hc
  obtain ⟨p, hp, rfl⟩ := List.getElem_of_mem hi
  exact List.mem_of_mem_take (hcl p hp c hc)

theorem inRangeTable_of_ChLt (t : Net α) (ht : ChLt t) :
    ∀ (i : Nat) (x : NNode α), t[i]? = some x → ∀ c ∈ x.ch, c < t.length :=
  fun i x hx c hc => lt_trans (ht i x hx c hc) (List.getElem?_eq_some_iff.1 hx).1

/-- the post-order lists exactly the nodes reachable from its start -/
theorem order_mem_iff_reach (t : Net α) (r : Nat) (order : List Nat) (ho : OrderOK t r order) (i : Nat) :
    i ∈ order ↔ Relation.ReflTransGen (Edge t) r i := by
  constructor
  · intro hi
    exact ho.sub (fun i => Relation.ReflTransGen (Edge t) r i)
      (fun a ha c hc => Relation.ReflTransGen.tail ha hc) Relation.ReflTransGen.refl i hi
  · intro h
    induction h with
    | refl => exact List.mem_of_getElem? ho.last
    | tail _ hbc ih => exact closed_mem t order ho.closed _ ih _ hbc

theorem posIn_getElem (order : List Nat) (hnd : order.Nodup) (p : Nat) (hp : p < order.length) :
    posIn order order[p] = p := hnd.idxOf_getElem p hp

theorem map_posIn_self (l : List Nat) (hnd : l.Nodup) : l.map (posIn l) = List.range l.length := by
  apply List.ext_getElem
  · simp
  · intro i h1 h2
    simp only [List.getElem_map, List.getElem_range]
    exact posIn_getElem l hnd i (by simpa using h1)

/-- children of an exported node, as a function of the source node -/
theorem export_chOf (t : Net α) (order : List Nat) (f : Nat → Nat) (hcl : Closed t order)
    (hlt : ∀ i ∈ order, i < t.length) (p : Nat) (hp : p < order.length) :
    chOf (exportTable t order f) p = (chOf t order[p]).map (posIn order) := by
  obtain ⟨y, hy, ho, _⟩ := export_node t order f hcl hlt p hp
  rw [chOf_some _ p _ ho, chOf_some t _ y hy]

/-- every exported node is reachable from the exported root -/
theorem export_reach (t : Net α) (r : Nat) (order : List Nat) (ho : OrderOK t r order) (f : Nat → Nat) (i : Nat)
    (h : Relation.ReflTransGen (Edge t) r i) :
    Relation.ReflTransGen (Edge (exportTable t order f)) (posIn order r) (posIn order i) := by
  induction h with
  | refl => exact Relation.ReflTransGen.refl
  | @tail b c hab hbc ih =>
    apply Relation.ReflTransGen.tail ih
    have hb : b ∈ order := (order_mem_iff_reach t r order ho b).2 hab
    have hp : posIn order b < order.length := List.idxOf_lt_length_iff.2 hb
    have hget : order[posIn order b] = b := List.getElem_idxOf hp
    unfold Edge
    rw [export_chOf t order f ho.closed ho.lt _ hp, hget]
    exact List.mem_map_of_mem hbc

theorem idOf_some (t : Net α) (k : Nat) (y : NNode α) (h : t[k]? = some y) : idOf t k = y.id := by
  simp [idOf, h]

/-- **`assign_ids` labels the exported table with a permutation of `0..n-1`** -/
theorem exportFrom_labeled (t : Net α) (ht : ChLt t) (r : Nat) (hr : r < t.length) (hK : KahnFacts t r)
    (out : Net α) (order : List Nat) (h : exportFrom t r = some (out, order)) :
    LabeledSpec out (out.length - 1) ∧ ∀ p, p < out.length → p ∈ collect out (out.length - 1) := by
  obtain ⟨ko, hk, hord, he⟩ := exportFrom_unpack t r out order h
  have ho : OrderOK t r order := by rw [hord]; exact orderOK_dfsPost t ht r hr
  obtain ⟨hkn, hkm⟩ := hK ko hk
  have hlen : out.length = order.length := by rw [he]; exact exportTable_length _ _ _
  have hne : order.length ≠ 0 := fun h0 => ho.ne (List.eq_nil_of_length_eq_zero h0)
  have hcl : ChLt out := by rw [he]; exact export_chLt t order (posIn ko) ho.closed ho.lt
  -- Kahn's order and the post-order list the same nodes
  have hperm : order.Perm ko := by
    rw [List.perm_ext_iff_of_nodup ho.nodup hkn]
    intro a
    rw [order_mem_iff_reach t r order ho a, hkm a, mem_collect_iff_reach t r (inRangeTable_of_ChLt t ht) a]
  -- the exported root
  have hlastpos : posIn order r = order.length - 1 := by
    have hp : order.length - 1 < order.length := by omega
    have h1 := ho.last
    rw [List.getElem?_eq_getElem hp] at h1
    have := posIn_getElem order ho.nodup _ hp
    rw [Option.some.inj h1] at this; exact this
  -- every entry is collected
  have hall : ∀ p, p < out.length → p ∈ collect out (out.length - 1) := by
    intro p hp
    rw [hlen] at hp
    rw [mem_collect_iff_reach out _ (inRangeTable_of_ChLt out hcl) p, hlen, ← hlastpos, he]
    have h1 := export_reach t r order ho (posIn ko) order[p]
      ((order_mem_iff_reach t r order ho _).1 (List.getElem_mem hp))
    rwa [posIn_getElem order ho.nodup p hp] at h1
  refine ⟨?_, hall⟩
  have hcperm : (collect out (out.length - 1)).Perm (List.range out.length) := by
    rw [List.perm_ext_iff_of_nodup (collect_nodup _ _) List.nodup_range]
    intro a
    rw [List.mem_range]
    constructor
    · intro ha
      have := collect_lt_of_chLt out hcl (out.length - 1) (by omega) a ha
      omega
    · exact hall a
  unfold LabeledSpec
  rw [hcperm.length_eq, List.length_range]
  apply (hcperm.map (idOf out)).trans
  have hids : (List.range out.length).map (idOf out) = order.map (posIn ko) := by
    apply List.ext_getElem
    · simp [hlen]
    · intro p h1 h2
      have hp : p < order.length := by simpa using h2
      simp only [List.getElem_map, List.getElem_range]
      obtain ⟨y, hy, hoy, _⟩ := export_node t order (posIn ko) ho.closed ho.lt p hp
      rw [he, idOf_some _ p _ hoy]
  rw [hids]
  apply (hperm.map (posIn ko)).trans
  rw [map_posIn_self ko hkn, hlen, hperm.length_eq]

end Deeprob
