import DeeprobModel.Spec.Em
import DeeprobModel.Lemmas.CircLemmas
set_option linter.unusedSimpArgs false
set_option linter.unusedVariables false
set_option linter.unusedSectionVars false
/-
Helper lemmas for C14: one EM iteration preserves the invariant (from the per-entry obligations), list surgery for
the backward-pass statement.
-/
namespace Deeprob.C14
open Deeprob Deeprob.Oblig.C14

section inv
variable {F : Type} [Field F] [LinearOrder F] [IsStrictOrderedRing F]

theorem forall_zipWith₂ {β γ δ : Type} (R : β → γ → Prop) (f : β → γ → δ) (P : δ → Prop) (as : List β) (bs : List γ)
    (hR : List.Forall₂ R as bs) (h : ∀ a b, a ∈ as → R a b → P (f a b)) : ∀ x ∈ List.zipWith f as bs, P x := by
  induction hR with
  | nil => simp
  | cons hab _ ih =>
    intro x hx
    simp only [List.zipWith_cons_cons, List.mem_cons] at hx
    rcases hx with rfl | hx
    · exact h _ _ List.mem_cons_self hab
    · exact ih (fun a b ha hr => h a b (List.mem_cons_of_mem _ ha) hr) x hx

theorem zipWith_map_eq {β γ δ ε : Type} (R : β → γ → Prop) (f : β → γ → δ) (g : δ → ε) (g' : β → ε)
    (as : List β) (bs : List γ) (hR : List.Forall₂ R as bs) (h : ∀ a b, a ∈ as → R a b → g (f a b) = g' a) :
    (List.zipWith f as bs).map g = as.map g' := by
  induction hR with
  | nil => simp
  | cons hab _ ih =>
    simp only [List.zipWith_cons_cons, List.map_cons]
    rw [h _ _ List.mem_cons_self hab, ih (fun a b ha hr => h a b (List.mem_cons_of_mem _ ha) hr)]

theorem rowOK_pos (row : List F) (h : RowOK row) : ∀ j < 2, 0 < row.getD j 0 := by
  obtain ⟨x0, x1, rfl, h0, h1, _⟩ := h
  intro j hj
  rcases j with _ | _ | j
  · simpa using h0
  · simpa using h1
  · omega

/-- one iteration preserves the invariant and the shape -/
theorem em_step_inv (sqrt : F → F) (eta : F) (h0 : 0 ≤ eta) (h1 : eta ≤ 1) (cltPreds : List (List Int))
    (p : EmParams F) (b : EmBatch F) (hp : EmInv p) (hb : BatchOK cltPreds p b) :
    EmInv (emStep genEmFns sqrt eta cltPreds p b) ∧ EmShape (emStep genEmFns sqrt eta cltPreds p b) = EmShape p := by
  constructor
  · refine ⟨?_, ?_, ?_, ?_, ?_⟩ <;> simp only [emStep]
    · refine forall_zipWith₂ _ _ (fun x => Simplex x) _ _ hb.sums ?_
      intro ws ss hws ⟨hlen, hss⟩
      obtain ⟨hne, hw, hsum⟩ := hp.sums ws hws
      obtain ⟨l, nn, _, s1⟩ := sum_em_simplex eta ws ss hlen hne hw hsum hss h0 h1
      refine ⟨?_, nn, s1⟩
      intro hnil
      have : (sumStepWith Gen.sumEmUnnorm Gen.sumEmNew eta ws ss).length = 0 := by
        simp only [genEmFns] at hnil; rw [hnil]; rfl
      rw [l] at this; exact hne (List.length_eq_zero_iff.1 this)
    · refine forall_zipWith₂ _ _ (fun q => 0 ≤ q ∧ q ≤ 1) _ _ hb.bern ?_
      intro q sd hq ⟨hs, hd⟩
      obtain ⟨a, c, _⟩ := bernoulli_em_range eta q sd.1 sd.2 hs hd (hp.berns q hq).1 (hp.berns q hq).2 h0 h1
      exact ⟨a, c⟩
    · refine forall_zipWith₂ _ _ (fun x => Simplex x) _ _ hb.cat ?_
      intro ps sd hps ⟨hlen, hs, hd⟩
      obtain ⟨hne, hw, hsum⟩ := hp.cats ps hps
      obtain ⟨l, nn, _, s1⟩ := categorical_em_simplex eta ps sd.1 sd.2 hne hlen hs hd hw hsum h0 h1
      refine ⟨?_, nn, s1⟩
      intro hnil
      have : (catStepWith Gen.catEmNew eta ps sd.1 sd.2).length = 0 := by
        simp only [genEmFns] at hnil; rw [hnil]; rfl
      rw [l] at this; exact hne (List.length_eq_zero_iff.1 this)
    · refine forall_zipWith₂ _ _ (fun ms : F × F => 1 / 100000 ≤ ms.2) _ _ hb.gauss ?_
      intro ms sd hms _
      simp only [gaussStepWith, genEmFns]
      have := hp.gauss ms hms
      have e : ∀ r, Gen.gaussEmStdOf eta ms.2 r = emMix eta ms.2 (Gen.gaussEmClamp r) := fun _ => rfl
      rw [e]
      exact emMix_ge _ _ _ _ h0 h1 this (by unfold Gen.gaussEmClamp; exact le_max_right _ _)
    · refine forall_zipWith₂ _ _ (fun tbl : List (List (List F)) => ∀ blk ∈ tbl, blk.length = 2 ∧ ∀ row ∈ blk, RowOK row) _ _ hb.clt ?_
      intro po sd hpo ⟨hlen, hs, hbin⟩
      have hmem : po.2 ∈ p.clts := (List.of_mem_zip hpo).2
      have hold : ∀ i < po.1.length, ∀ b < 2, ∀ j < 2, 0 < ((po.2.getD i []).getD b []).getD j 0 := by
        intro i hi bb hbb j hj
        rw [hlen] at hi
        have hblk : po.2.getD i [] ∈ po.2 := by
          rw [List.getD_eq_getElem?_getD, List.getElem?_eq_getElem hi]; exact List.getElem_mem hi
        obtain ⟨hl2, hrows⟩ := hp.clts po.2 hmem _ hblk
        have hrow : (po.2.getD i []).getD bb [] ∈ po.2.getD i [] := by
          rw [List.getD_eq_getElem?_getD (l := po.2.getD i []), List.getElem?_eq_getElem (by omega)]
          exact List.getElem_mem _
        exact rowOK_pos _ (hrows _ hrow) j hj
      exact (clt_em_table_ok eta po.1 po.2 sd.1 sd.2 h0 h1 hs hbin hold).2
  · unfold EmShape emStep
    simp only [Prod.mk.injEq]
    refine ⟨?_, ?_, ?_, ?_, ?_⟩
    · apply zipWith_map_eq _ _ _ _ _ _ hb.sums
      intro ws ss _ ⟨hlen, _⟩
      simp [sumStepWith, hlen]
    · rw [List.length_zipWith, hb.bern.length_eq]; simp
    · apply zipWith_map_eq _ _ _ _ _ _ hb.cat
      intro ps sd _ _
      simp [catStepWith, catStats]
    · rw [List.length_zipWith, hb.gauss.length_eq]; simp
    · have := zipWith_map_eq _ (fun (po : List Int × List (List (List F))) (sd : List F × List (List F)) =>
        cltStepWith genEmFns.clt eta po.1 po.2 sd.1 sd.2) List.length (fun po => po.2.length) _ _ hb.clt
        (by intro po sd _ ⟨hlen, _⟩; simp [cltStepWith, hlen])
      rw [this]
      have hz : (cltPreds.zip p.clts).map (fun po => po.2.length) = p.clts.map List.length := by
        have : (cltPreds.zip p.clts).map Prod.snd = p.clts := List.map_snd_zip (by rw [hb.cltLen])
        calc (cltPreds.zip p.clts).map (fun po => po.2.length)
            = ((cltPreds.zip p.clts).map Prod.snd).map List.length := by rw [List.map_map]; rfl
          _ = p.clts.map List.length := by rw [this]
      exact hz

end inv

section backward
variable {α : Type} [CommSemiring α]

theorem wsum_modify₂ {β : Type} (G : β → α) (F F0 : β → β) (d : α) :
    ∀ (cs : List β) (ws : List α) (j : Nat) (c : β), cs[j]? = some c → j < ws.length → G (F c) = G (F0 c) + d →
      wsum ws ((cs.modify j F).map G) = wsum ws ((cs.modify j F0).map G) + ws.getD j 0 * d := by
  intro cs
  induction cs with
  | nil => intro ws j c hc; simp at hc
  | cons c0 cs ih =>
    intro ws j c hc hj h
    cases ws with
    | nil => simp at hj
    | cons w ws =>
      cases j with
      | zero =>
        simp only [List.getElem?_cons_zero, Option.some.injEq] at hc; subst hc
        simp only [List.modify_cons, if_true, List.map_cons, wsum, h, List.getD_cons_zero]; ring
      | succ j =>
        simp only [List.getElem?_cons_succ] at hc
        simp only [List.modify_cons, Nat.add_one_ne_zero, if_false, Nat.add_sub_cancel, List.map_cons, wsum,
          List.getD_cons_succ]
        rw [ih ws j c hc (by simpa using hj) h]; ring

theorem lprod_modify₂ {β : Type} (G : β → α) (F F0 : β → β) (d : α) :
    ∀ (cs : List β) (j : Nat) (c : β), cs[j]? = some c → G (F c) = G (F0 c) + d →
      lprod ((cs.modify j F).map G) = lprod ((cs.modify j F0).map G) + lprod ((cs.eraseIdx j).map G) * d := by
  intro cs
  induction cs with
  | nil => intro j c hc; simp at hc
  | cons c0 cs ih =>
    intro j c hc h
    cases j with
    | zero =>
      simp only [List.getElem?_cons_zero, Option.some.injEq] at hc; subst hc
      simp only [List.modify_cons, if_true, List.map_cons, lprod, h, List.eraseIdx_cons_zero]; ring
    | succ j =>
      simp only [List.getElem?_cons_succ] at hc
      simp only [List.modify_cons, Nat.add_one_ne_zero, if_false, Nat.add_sub_cancel, List.map_cons, lprod,
        List.eraseIdx_cons_succ]
      rw [ih j c hc h]; ring

theorem map_modify_same {β γ : Type} (G : β → γ) (F : β → β) :
    ∀ (cs : List β) (j : Nat) (c : β), cs[j]? = some c → G (F c) = G c → (cs.modify j F).map G = cs.map G := by
  intro cs
  induction cs with
  | nil => intro j c hc; simp at hc
  | cons c0 cs ih =>
    intro j c hc h
    cases j with
    | zero =>
      simp only [List.getElem?_cons_zero, Option.some.injEq] at hc; subst hc
      simp [List.modify_cons, h]
    | succ j =>
      simp only [List.getElem?_cons_succ] at hc
      simp only [List.modify_cons, Nat.add_one_ne_zero, if_false, Nat.add_sub_cancel, List.map_cons]
      rw [ih j c hc h]

end backward

section resp
variable {F : Type} [Field F]

theorem wsum_map_mul_div (ws vs : List F) (g r : F) :
    wsum ws (vs.map (fun v => v * g / r)) = wsum ws vs * g / r := by
  induction ws generalizing vs with
  | nil => simp [wsum]
  | cons w ws ih =>
    cases vs with
    | nil => simp [wsum]
    | cons v vs => simp only [List.map_cons, wsum, ih]; ring

end resp
end Deeprob.C14
