import DeeprobModel.Lemmas.FlowsLemmas
import DeeprobModel.Spec.FlowRealInst
/-
Concrete objects used by the non-vacuity examples of `Props/C15.lean`.
-/
namespace Deeprob.Flows

/-- A non-trivial conditioner for the examples: 2 features, ordering `[1, 0]` (feature 0 has degree 1),
so head 0 may read `x 1`. -/
noncomputable def exT : (Nat → ℝ) → Nat → ℝ := fun x i => if i = 0 then 3 * x 1 + 1 else 2
noncomputable def exS : (Nat → ℝ) → Nat → ℝ := fun x i => if i = 0 then x 1 * x 1 else -1

theorem exT_ar : Autoregressive 2 (fun j => [1, 0].getD j 0) exT := by
  intro i hi x x' h
  rcases (by omega : i = 0 ∨ i = 1) with rfl | rfl
  · have := h 1 (by omega) (by decide); simp [exT, this]
  · simp [exT]

theorem exS_ar : Autoregressive 2 (fun j => [1, 0].getD j 0) exS := by
  intro i hi x x' h
  rcases (by omega : i = 0 ∨ i = 1) with rfl | rfl
  · have := h 1 (by omega) (by decide); simp [exS, this]
  · simp [exS]

/-- A RealNVP1d-like stack (coupling, batch-norm, reversed coupling) over ℝ. -/
noncomputable def exStack : List (Bij (Nat → ℝ) ℝ) :=
  [couplingBij realExpLog true 4 (alternatingMask false) exT exS,
   bn1dBij realExpLog (1 / 2) (1 / 100000) 4 (fun k => k) (fun _ => 1) (fun k => 2 * k) (fun k => k)
     (fun k => by positivity),
   couplingBij realExpLog false 4 (alternatingMask true) exT exS]

/-- A MAF-like stack on `Fin 2 → ℝ` (autoregressive layer with ordering `[1, 0]`, twice). -/
noncomputable def exMafStack : List (Bij (Fin 2 → ℝ) ℝ) :=
  let L := mafBij realExpLog (fun j => [1, 0].getD j 0) 2 exT exS exT_ar exS_ar (invOrdering [1, 0])
    (invOrdering_props [1, 0] 2 (by decide)).1 (invOrdering_props [1, 0] 2 (by decide)).2.2
    (invOrdering_props [1, 0] 2 (by decide)).2.1
  [L, L]

/-- A `CouplingBlock2d`-like block: checkerboard coupling, squeeze, channel-wise coupling, un-squeeze. -/
noncomputable def exBlock : Bij (Nat → ℝ) ℝ :=
  Bij.chain [couplingBij realExpLog true 16 (checkerboardMask 4 4 false) exT exS,
    squeezeBij 4 4 (by decide) (by decide),
    chanBij realExpLog true false 8 exT exS,
    unsqueezeBij 4 4 (by decide) (by decide)]

/-- A non-trivial scale: down/up-scaling by the squeeze index permutation, split/join by
de-interleaving even and odd positions (all four bookkeeping laws hold as total identities). -/
def exScale : ScaleOps (Nat → ℝ) (Nat → ℝ) where
  down := squeeze 4 4
  up := unsqueeze 2 2
  split := fun x => (fun k => x (2 * k), fun k => x (2 * k + 1))
  join := fun p k => if k % 2 = 0 then p.1 (k / 2) else p.2 (k / 2)
  up_down := unsqueeze_squeeze' 4 4 (by decide) (by decide)
  down_up := squeeze_unsqueeze' 4 4 (by decide) (by decide)
  join_split := fun x => by
    funext k
    by_cases h : k % 2 = 0
    · simp only [h, if_true]; congr 1; omega
    · simp only [h, if_false]; congr 1; omega
  split_join := fun p => by
    apply Prod.ext
    · funext k
      have h1 : 2 * k % 2 = 0 := by omega
      have h2 : 2 * k / 2 = k := by omega
      simp only [h1, if_true, h2]
    · funext k
      have h1 : ¬ ((2 * k + 1) % 2 = 0) := by omega
      have h2 : (2 * k + 1) / 2 = k := by omega
      simp only [h1, if_false, h2]

end Deeprob.Flows
