import DeeprobModel.Model.CnetLearn
import DeeprobModel.Spec.Cnet
import DeeprobModel.Spec.CnetLearn
import DeeprobModel.Lemmas.CnetLemmas
import Mathlib.Data.List.Perm.Basic
import Mathlib.Tactic.NormNum
import Mathlib.Tactic.Positivity
import Mathlib.Data.List.Nodup
import Mathlib.Algebra.Order.Field.Basic
import Mathlib.Tactic.Ring
import Mathlib.Tactic.Linarith
import Mathlib.Tactic.FieldSimp
set_option linter.unusedSimpArgs false
set_option linter.unusedVariables false
set_option linter.unusedSectionVars false
/-
Helper lemmas for Props/C18Learn.lean: the invariant of the work-queue machine of Model/CnetLearn.lean
(`Inv`, preserved by `step` / `run` for EVERY script), its transfer to the unfolded tree (`Good`), and
termination of the loop (`run_queue_empty`).
-/
namespace Deeprob.CnetLearn
open Deeprob

section
variable {α : Type} [Field α]

/-! ### table lookups -/

theorem getN_eq (tbl : List (Node α)) (i : Nat) : getN tbl i = (tbl[i]?).getD default := by
  simp [getN, List.getD_eq_getElem?_getD]

theorem getN_set_append_ne (T : List (Node α)) (i j : Nat) (x : Node α) (ys : List (Node α))
    (hj : j < T.length) (hne : j ≠ i) : getN (T.set i x ++ ys) j = getN T j := by
  rw [getN_eq, getN_eq, List.getElem?_append_left (by simpa using hj), List.getElem?_set_ne (Ne.symm hne)]

theorem getN_set_append_self (T : List (Node α)) (i : Nat) (x : Node α) (ys : List (Node α))
    (hi : i < T.length) : getN (T.set i x ++ ys) i = x := by
  rw [getN_eq, List.getElem?_append_left (by simpa using hi), List.getElem?_set_self hi]
  rfl

theorem getN_set_append_len (T : List (Node α)) (i : Nat) (x a b : Node α) :
    getN (T.set i x ++ [a, b]) T.length = a := by
  rw [getN_eq, List.getElem?_append_right (by simp)]
  simp

theorem getN_set_append_len1 (T : List (Node α)) (i : Nat) (x a b : Node α) :
    getN (T.set i x ++ [a, b]) (T.length + 1) = b := by
  rw [getN_eq, List.getElem?_append_right (by simp)]
  simp

/-! ### the invariant -/

/-- local invariant of table cell `i`: what a recorded split says about the two child cells -/
def CellOK (cfg : Cfg) (data : List (List Nat)) (tbl : List (Node α)) (i : Nat) : Prop :=
  ∀ s, (getN tbl i).split = some s →
    i < s.l ∧ s.r = s.l + 1 ∧ s.r < tbl.length ∧
    s.v ∈ (getN tbl i).scope ∧
    consults cfg (getN tbl i).rows.length (getN tbl i).scope.length = true ∧
    (getN tbl s.l).rows = side data s.v 0 (getN tbl i).rows ∧
    (getN tbl s.r).rows = side data s.v 1 (getN tbl i).rows ∧
    (getN tbl s.l).scope = (getN tbl i).scope.erase s.v ∧
    (getN tbl s.r).scope = (getN tbl i).scope.erase s.v ∧
    (getN tbl s.l).par = childPar cfg.kind (getN tbl i).par ∧
    (getN tbl s.r).par = childPar cfg.kind (getN tbl i).par ∧
    s.w0 = leftWeight cfg.kind (getN tbl i).par (side data s.v 0 (getN tbl i).rows).length (getN tbl i).rows.length ∧
    s.w1 = 1 - s.w0 ∧
    (cfg.kind ≠ .fit → side data s.v 0 (getN tbl i).rows ≠ [] ∧ side data s.v 1 (getN tbl i).rows ≠ [])

/-- invariant of the machine state (root cell fixed to rows `R`, scope `S`, parameter `p`) -/
structure Inv (cfg : Cfg) (data : List (List Nat)) (R S : List Nat) (p : α) (s : St α) : Prop where
  cells : ∀ i, i < s.nodes.length → CellOK cfg data s.nodes i
  queue : ∀ i ∈ s.queue, i < s.nodes.length
  pos : 0 < s.nodes.length
  root_rows : (getN s.nodes 0).rows = R
  root_scope : (getN s.nodes 0).scope = S
  root_par : (getN s.nodes 0).par = p

theorem inv_init (cfg : Cfg) (data : List (List Nat)) (nRows nCols : Nat) (p : α) (script : List Dec) :
    Inv cfg data (List.range nRows) (List.range nCols) p (init nRows nCols p script) := by
  refine ⟨?_, ?_, ?_, rfl, rfl, rfl⟩
  · intro i hi s hs
    simp only [init, List.length_cons, List.length_nil, Nat.zero_add, Nat.lt_one_iff] at hi
    subst hi
    simp [init, getN] at hs
  · intro i hi
    simp only [init, List.mem_singleton] at hi
    subst hi
    simp [init]
  · simp [init]

/-- rows / scope / parameter of an existing cell after the table update of a split -/
theorem getN_update_fields (T : List (Node α)) (i j : Nat) (sp : Split α) (a b : Node α)
    (hi : i < T.length) (hj : j < T.length) :
    (getN (T.set i { getN T i with split := some sp } ++ [a, b]) j).rows = (getN T j).rows ∧
    (getN (T.set i { getN T i with split := some sp } ++ [a, b]) j).scope = (getN T j).scope ∧
    (getN (T.set i { getN T i with split := some sp } ++ [a, b]) j).par = (getN T j).par := by
  by_cases h : j = i
  · subst h
    rw [getN_set_append_self _ _ _ _ hi]
    exact ⟨rfl, rfl, rfl⟩
  · rw [getN_set_append_ne _ _ _ _ _ hj h]
    exact ⟨rfl, rfl, rfl⟩

theorem step_inv (cfg : Cfg) (data : List (List Nat)) (R S : List Nat) (p : α) (s s' : St α)
    (hinv : Inv cfg data R S p s) (h : step cfg data s = .ok s') : Inv cfg data R S p s' := by
  unfold step at h
  cases hq : s.queue with
  | nil =>
    simp only [hq] at h
    cases h
    exact hinv
  | cons i q =>
    simp only [hq] at h
    have hi : i < s.nodes.length := hinv.queue i (by simp [hq])
    have hqb : ∀ j ∈ q, j < s.nodes.length := fun j hj => hinv.queue j (by simp [hq, hj])
    split at h
    · -- forced leaf
      cases h
      exact ⟨hinv.cells, hqb, hinv.pos, hinv.root_rows, hinv.root_scope, hinv.root_par⟩
    · rename_i hcons
      split at h
      · cases h
      · cases hsc : s.script with
        | nil => simp only [hsc] at h; cases h
        | cons d sc =>
          simp only [hsc] at h
          cases d with
          | stop =>
            cases h
            exact ⟨hinv.cells, hqb, hinv.pos, hinv.root_rows, hinv.root_scope, hinv.root_par⟩
          | cut v =>
            simp only at h
            split at h
            · cases h
            · rename_i hv
              split at h
              · cases h
              · rename_i hside
                cases h
                -- the split step
                set nd := getN s.nodes i with hnd
                have hvmem : v ∈ nd.scope := by
                  simpa using hv
                have hcons' : consults cfg nd.rows.length nd.scope.length = true := by
                  simpa using hcons
                refine ⟨?_, ?_, ?_, ?_, ?_, ?_⟩
                · intro j hj sp hsp
                  simp only [List.length_append, List.length_set, List.length_cons, List.length_nil] at hj
                  by_cases hjT : j < s.nodes.length
                  · by_cases hji : j = i
                    · subst hji
                      rw [getN_set_append_self _ _ _ _ hi] at hsp
                      simp only [Option.some.injEq] at hsp
                      subst hsp
                      rw [getN_set_append_self _ _ _ _ hi]
                      dsimp only
                      rw [getN_set_append_len, getN_set_append_len1]
                      refine ⟨hi, rfl, by simp, hvmem, hcons', rfl, rfl, rfl, rfl, rfl, rfl, rfl, rfl, ?_⟩
                      intro hk
                      have : ¬ ((cfg.kind != Kind.fit) = true ∧
                          ((side data v 0 nd.rows).isEmpty = true ∨ (side data v 1 nd.rows).isEmpty = true)) := by
                        simpa using hside
                      have hk' : (cfg.kind != Kind.fit) = true := by simpa using hk
                      constructor
                      · intro he; exact this ⟨hk', Or.inl (by simp [he])⟩
                      · intro he; exact this ⟨hk', Or.inr (by simp [he])⟩
                    · rw [getN_set_append_ne _ _ _ _ _ hjT hji] at hsp
                      obtain ⟨c1, c2, c3, c4, c5, c6, c7, c8, c9, c10, c11, c12, c13, c14⟩ := hinv.cells j hjT sp hsp
                      have hl : sp.l < s.nodes.length := by omega
                      have fl := getN_update_fields s.nodes i sp.l
                        { v := v, w0 := leftWeight cfg.kind nd.par (side data v 0 nd.rows).length nd.rows.length,
                          w1 := 1 - leftWeight cfg.kind nd.par (side data v 0 nd.rows).length nd.rows.length,
                          l := s.nodes.length, r := s.nodes.length + 1 }
                        { rows := side data v 0 nd.rows, scope := nd.scope.erase v, par := childPar cfg.kind nd.par }
                        { rows := side data v 1 nd.rows, scope := nd.scope.erase v, par := childPar cfg.kind nd.par } hi hl
                      have fr := getN_update_fields s.nodes i sp.r
                        { v := v, w0 := leftWeight cfg.kind nd.par (side data v 0 nd.rows).length nd.rows.length,
                          w1 := 1 - leftWeight cfg.kind nd.par (side data v 0 nd.rows).length nd.rows.length,
                          l := s.nodes.length, r := s.nodes.length + 1 }
                        { rows := side data v 0 nd.rows, scope := nd.scope.erase v, par := childPar cfg.kind nd.par }
                        { rows := side data v 1 nd.rows, scope := nd.scope.erase v, par := childPar cfg.kind nd.par } hi c3
                      rw [getN_set_append_ne _ _ _ _ _ hjT hji]
                      simp only [List.length_append, List.length_set, List.length_cons, List.length_nil]
                      refine ⟨c1, c2, by omega, c4, c5, ?_, ?_, ?_, ?_, ?_, ?_, c12, c13, c14⟩
                      · rw [← c6]; exact fl.1
                      · rw [← c7]; exact fr.1
                      · rw [← c8]; exact fl.2.1
                      · rw [← c9]; exact fr.2.1
                      · rw [← c10]; exact fl.2.2
                      · rw [← c11]; exact fr.2.2
                  · -- one of the two fresh cells: no split recorded
                    have : j = s.nodes.length ∨ j = s.nodes.length + 1 := by omega
                    rcases this with rfl | rfl
                    · rw [getN_set_append_len] at hsp; cases hsp
                    · rw [getN_set_append_len1] at hsp; cases hsp
                · intro j hj
                  simp only [List.mem_append, List.mem_cons, List.not_mem_nil, or_false] at hj
                  simp only [List.length_append, List.length_set, List.length_cons, List.length_nil]
                  rcases hj with hj | rfl | rfl
                  · have := hqb j hj; omega
                  · omega
                  · omega
                · simp only [List.length_append, List.length_set, List.length_cons, List.length_nil]; omega
                · rw [(getN_update_fields s.nodes i 0 _ _ _ hi hinv.pos).1]; exact hinv.root_rows
                · rw [(getN_update_fields s.nodes i 0 _ _ _ hi hinv.pos).2.1]; exact hinv.root_scope
                · rw [(getN_update_fields s.nodes i 0 _ _ _ hi hinv.pos).2.2]; exact hinv.root_par

theorem run_inv (cfg : Cfg) (data : List (List Nat)) (R S : List Nat) (p : α) :
    ∀ (fuel : Nat) (s s' : St α), Inv cfg data R S p s → run cfg data fuel s = .ok s' → Inv cfg data R S p s' := by
  intro fuel
  induction fuel with
  | zero => intro s s' hinv h; simp only [run] at h; cases h; exact hinv
  | succ f ih =>
    intro s s' hinv h
    unfold run at h
    cases hq : s.queue with
    | nil => simp only [hq] at h; cases h; exact hinv
    | cons i q =>
      simp only [hq] at h
      cases hs : step cfg data s with
      | error e => simp only [hs] at h; cases h
      | ok s1 =>
        simp only [hs] at h
        exact ih s1 s' (step_inv cfg data R S p s s1 hinv hs) h

/-! ### termination: the fuel of `learnSt` is enough -/

theorem step_measure (cfg : Cfg) (data : List (List Nat)) (s s' : St α) (i : Nat) (q : List Nat)
    (hq : s.queue = i :: q) (h : step cfg data s = .ok s') :
    s'.queue.length + 2 * s'.script.length + 1 ≤ s.queue.length + 2 * s.script.length := by
  unfold step at h
  simp only [hq] at h
  split at h
  · cases h; simp [hq]; omega
  · split at h
    · cases h
    · cases hsc : s.script with
      | nil => simp only [hsc] at h; cases h
      | cons d sc =>
        simp only [hsc] at h
        cases d with
        | stop => cases h; simp [hq]; omega
        | cut v =>
          simp only at h
          split at h
          · cases h
          · split at h
            · cases h
            · cases h
              simp [hq]
              omega

theorem run_queue_empty (cfg : Cfg) (data : List (List Nat)) :
    ∀ (fuel : Nat) (s s' : St α), s.queue.length + 2 * s.script.length ≤ fuel →
      run cfg data fuel s = .ok s' → s'.queue = [] := by
  intro fuel
  induction fuel with
  | zero =>
    intro s s' hm h
    simp only [run] at h
    cases h
    have : s.queue.length = 0 := by omega
    exact List.length_eq_zero_iff.1 this
  | succ f ih =>
    intro s s' hm h
    unfold run at h
    cases hq : s.queue with
    | nil => simp only [hq] at h; cases h; exact hq
    | cons i q =>
      simp only [hq] at h
      cases hs : step cfg data s with
      | error e => simp only [hs] at h; cases h
      | ok s1 =>
        simp only [hs] at h
        have := step_measure cfg data s s1 i q hq hs
        exact ih s1 s' (by omega) h

/-! ### the unfolded tree -/

/-- what the machine guarantees about a learned tree whose root carries the smoothing parameter `p` -/
def Good (cfg : Cfg) (data : List (List Nat)) : α → LTree α → Prop
  | _, .leaf _ _ => True
  | p, .or rows scope v w0 w1 c0 c1 =>
      v ∈ scope ∧ consults cfg rows.length scope.length = true ∧
      c0.rows = side data v 0 rows ∧ c1.rows = side data v 1 rows ∧
      c0.scope = scope.erase v ∧ c1.scope = scope.erase v ∧
      w0 = leftWeight cfg.kind p c0.rows.length rows.length ∧ w1 = 1 - w0 ∧
      (cfg.kind ≠ .fit → c0.rows ≠ [] ∧ c1.rows ≠ []) ∧
      Good cfg data (childPar cfg.kind p) c0 ∧ Good cfg data (childPar cfg.kind p) c1

theorem toTree_rows (tbl : List (Node α)) (fuel i : Nat) : (toTree tbl fuel i).rows = (getN tbl i).rows := by
  cases fuel with
  | zero => rfl
  | succ f =>
    unfold toTree
    simp only
    cases (getN tbl i).split <;> rfl

theorem toTree_scope (tbl : List (Node α)) (fuel i : Nat) : (toTree tbl fuel i).scope = (getN tbl i).scope := by
  cases fuel with
  | zero => rfl
  | succ f =>
    unfold toTree
    simp only
    cases (getN tbl i).split <;> rfl

theorem toTree_good (cfg : Cfg) (data : List (List Nat)) (tbl : List (Node α))
    (h : ∀ i, i < tbl.length → CellOK cfg data tbl i) :
    ∀ (fuel i : Nat), i < tbl.length → tbl.length ≤ fuel + i →
      Good cfg data (getN tbl i).par (toTree tbl fuel i) := by
  intro fuel
  induction fuel with
  | zero => intro i hi hl; omega
  | succ f ih =>
    intro i hi hl
    unfold toTree
    simp only
    cases hs : (getN tbl i).split with
    | none => simp [Good]
    | some s =>
      obtain ⟨c1, c2, c3, c4, c5, c6, c7, c8, c9, c10, c11, c12, c13, c14⟩ := h i hi s hs
      simp only [Good, toTree_rows, toTree_scope]
      refine ⟨c4, c5, c6, c7, c8, c9, ?_, c13, ?_, ?_, ?_⟩
      · rw [c6]; exact c12
      · intro hk; rw [c6, c7]; exact c14 hk
      · rw [← c10]; exact ih s.l (by omega) (by omega)
      · rw [← c11]; exact ih s.r c3 (by omega)

/-- **every script**: what `learn` returns satisfies `Good`, over all rows and all columns -/
theorem learn_good (cfg : Cfg) (data : List (List Nat)) (nCols : Nat) (p : α) (script : List Dec) (t : LTree α)
    (h : learn cfg data nCols p script = .ok t) :
    Good cfg data p t ∧ t.rows = List.range data.length ∧ t.scope = List.range nCols := by
  unfold learn at h
  cases hs : learnSt cfg data nCols p script with
  | error e => simp only [hs] at h; cases h
  | ok s =>
    simp only [hs] at h
    have hinv := run_inv cfg data _ _ p _ _ s (inv_init cfg data data.length nCols p script) hs
    split at h
    · cases h
    · split at h
      · cases h
      · cases h
        refine ⟨?_, ?_, ?_⟩
        · rw [← hinv.root_par]
          exact toTree_good cfg data s.nodes hinv.cells _ 0 hinv.pos (by omega)
        · rw [toTree_rows, hinv.root_rows]
        · rw [toTree_scope, hinv.root_scope]

/-- the fuel of `learnSt` is enough: whenever the loop does not fail, the queue is empty at the end
(so the "fuel exhausted" branch of `learn` is dead code) -/
theorem learnSt_queue_empty (cfg : Cfg) (data : List (List Nat)) (nCols : Nat) (p : α) (script : List Dec) (s : St α)
    (h : learnSt cfg data nCols p script = .ok s) : s.queue = [] := by
  unfold learnSt at h
  exact run_queue_empty cfg data _ _ s (by simp [init]; omega) h

end
section ordered
variable {α : Type} [Field α] [LinearOrder α] [IsStrictOrderedRing α]

/-! ### lemmas behind the theorems of Props/C18Learn.lean -/

theorem side_length_le (data : List (List Nat)) (v b : Nat) (rows : List Nat) :
    (side data v b rows).length ≤ rows.length := List.length_filter_le _ _

theorem side_length_add_le (data : List (List Nat)) (v : Nat) (rows : List Nat) :
    (side data v 0 rows).length + (side data v 1 rows).length ≤ rows.length := by
  induction rows with
  | nil => simp [side]
  | cons r rs ih =>
    simp only [side, List.filter_cons] at ih ⊢
    by_cases h0 : cellOf data r v = 0
    · simp [h0]; omega
    · by_cases h1 : cellOf data r v = 1
      · simp [h1]; omega
      · simp [h0, h1]; omega

/-- the denominator of the code's `left_weight` is positive as soon as the node has a row or the smoothing
parameter is positive -/
theorem leftWeight_unit (k : Kind) (p : α) (hp : 0 ≤ p) (n0 n : Nat) (h : n0 ≤ n) (hn : 0 < n ∨ 0 < p) :
    0 ≤ leftWeight k p n0 n ∧ leftWeight k p n0 n ≤ 1 := by
  have h0 : (0 : α) ≤ (n0 : α) := Nat.cast_nonneg _
  have hle : (n0 : α) ≤ (n : α) := Nat.cast_le.2 h
  have hden : (0 : α) < (n : α) + p ∧ (0 : α) < (n : α) + 2 * p := by
    rcases hn with hn | hn
    · have : (0 : α) < (n : α) := Nat.cast_pos.2 hn
      constructor <;> linarith
    · have : (0 : α) ≤ (n : α) := Nat.cast_nonneg _
      constructor <;> linarith
  cases k <;> simp only [leftWeight, Nat.cast_ofNat]
  · exact ⟨div_nonneg (by linarith) hden.2.le, (div_le_one hden.2).2 (by linarith)⟩
  · exact ⟨div_nonneg (by linarith) hden.1.le, (div_le_one hden.1).2 (by linarith)⟩
  · exact ⟨div_nonneg (by linarith) hden.2.le, (div_le_one hden.2).2 (by linarith)⟩

theorem leftWeight_pos (k : Kind) (p : α) (hp : 0 ≤ p) (n0 n : Nat) (h : n0 ≤ n) (hn : 0 < n0 ∨ 0 < p) :
    0 < leftWeight k p n0 n := by
  have h0 : (0 : α) ≤ (n0 : α) := Nat.cast_nonneg _
  have hle : (n0 : α) ≤ (n : α) := Nat.cast_le.2 h
  have hnum : (0 : α) < (n0 : α) + p / 2 ∧ (0 : α) < (n0 : α) + p := by
    rcases hn with hn | hn
    · have : (0 : α) < (n0 : α) := Nat.cast_pos.2 hn
      constructor <;> linarith [half_pos (show (0:α) < 1 from one_pos), div_nonneg hp (show (0:α) ≤ 2 by norm_num)]
    · constructor <;> linarith [half_pos hn]
  cases k <;> simp only [leftWeight, Nat.cast_ofNat]
  · exact div_pos hnum.2 (by linarith)
  · exact div_pos hnum.1 (by linarith)
  · exact div_pos hnum.2 (by linarith)

theorem leftWeight_lt_one (k : Kind) (p : α) (hp : 0 ≤ p) (n0 n : Nat) (hn : n0 < n ∨ (n0 ≤ n ∧ 0 < p)) :
    leftWeight k p n0 n < 1 := by
  have h0 : (0 : α) ≤ (n0 : α) := Nat.cast_nonneg _
  have key : (n0 : α) + p / 2 < (n : α) + p ∧ (n0 : α) + p < (n : α) + 2 * p := by
    rcases hn with hn | ⟨hn, hpp⟩
    · have : (n0 : α) < (n : α) := Nat.cast_lt.2 hn
      constructor <;> linarith [div_nonneg hp (show (0:α) ≤ 2 by norm_num), half_le_self hp]
    · have : (n0 : α) ≤ (n : α) := Nat.cast_le.2 hn
      constructor <;> linarith [half_lt_self hpp]
  cases k <;> simp only [leftWeight, Nat.cast_ofNat]
  · exact (div_lt_one (by linarith)).2 key.2
  · exact (div_lt_one (by linarith)).2 key.1
  · exact (div_lt_one (by linarith)).2 key.2

/-- a fact that follows from `Good` at one OR node (with the parameter of its depth) holds at every OR node -/
theorem Good.allOr (cfg : Cfg) (data : List (List Nat)) (p0 : α)
    (P : Nat → List Nat → List Nat → Nat → α → α → LTree α → LTree α → Prop)
    (hP : ∀ d r s v w0 w1 c0 c1, Good cfg data (parAt cfg.kind p0 d) (.or r s v w0 w1 c0 c1) → P d r s v w0 w1 c0 c1) :
    ∀ (t : LTree α) (d : Nat), Good cfg data (parAt cfg.kind p0 d) t → t.AllOr P d
  | .leaf _ _, _, _ => trivial
  | .or r s v w0 w1 c0 c1, d, h => by
      refine ⟨hP d r s v w0 w1 c0 c1 h, ?_, ?_⟩
      · exact Good.allOr cfg data p0 P hP c0 (d + 1) h.2.2.2.2.2.2.2.2.2.1
      · exact Good.allOr cfg data p0 P hP c1 (d + 1) h.2.2.2.2.2.2.2.2.2.2

theorem parAt_nonneg (k : Kind) (p : α) (hp : 0 ≤ p) : ∀ d, 0 ≤ parAt k p d
  | 0 => hp
  | d+1 => by
      have := parAt_nonneg k p hp d
      cases k <;> simp only [parAt, childPar, Nat.cast_ofNat] <;> first | exact this | exact div_nonneg this (by norm_num)

theorem parAt_pos (k : Kind) (p : α) (hp : 0 < p) : ∀ d, 0 < parAt k p d
  | 0 => hp
  | d+1 => by
      have := parAt_pos k p hp d
      cases k <;> simp only [parAt, childPar, Nat.cast_ofNat] <;> first | exact this | exact div_pos this (by norm_num)

/-- closed form of the parameter at depth `d` -/
theorem parAt_bd (p : α) (d : Nat) : parAt Kind.bd p d = p / 2 ^ d := by
  induction d with
  | zero => simp [parAt]
  | succ d ih => simp only [parAt, childPar, ih, Nat.cast_ofNat, pow_succ]; field_simp

theorem parAt_fit (p : α) (d : Nat) : parAt Kind.fit p d = p := by
  induction d with
  | zero => rfl
  | succ d ih => simpa [parAt, childPar] using ih

theorem parAt_bic (p : α) (d : Nat) : parAt Kind.bic p d = p := by
  induction d with
  | zero => rfl
  | succ d ih => simpa [parAt, childPar] using ih

theorem parAt_fit' (cfg : Cfg) (hk : cfg.kind = .fit) (p : α) (d : Nat) : parAt cfg.kind p d = p := by
  rw [hk]; exact parAt_fit p d

/-- a node that is split has at least one row (fit: `n_samples > min_n_samples ≥ 0`; score-based learners:
both sides are non-empty) -/
theorem Good.rows_pos (cfg : Cfg) (data : List (List Nat)) (p : α) (r s : List Nat) (v : Nat) (w0 w1 : α)
    (c0 c1 : LTree α) (h : Good cfg data p (.or r s v w0 w1 c0 c1)) : 0 < r.length := by
  obtain ⟨_, hc, e0, _, _, _, _, _, hne, _, _⟩ := h
  by_cases hk : cfg.kind = .fit
  · simp only [consults, hk, Bool.not_eq_true', Bool.or_eq_false_iff, decide_eq_false_iff_not] at hc
    omega
  · have := (hne hk).1
    rw [e0] at this
    rcases r with _ | ⟨a, as⟩
    · simp [side] at this
    · simp

/-- the facts about the two weights of one OR node whose smoothing parameter is `q ≥ 0` -/
theorem Good.weights_local (cfg : Cfg) (data : List (List Nat)) (q : α) (hq : 0 ≤ q) (r s : List Nat) (v : Nat)
    (w0 w1 : α) (c0 c1 : LTree α) (hG : Good cfg data q (.or r s v w0 w1 c0 c1)) :
    w0 = leftWeight cfg.kind q (side data v 0 r).length r.length ∧
    w1 = 1 - w0 ∧ w0 + w1 = 1 ∧ 0 ≤ w0 ∧ w0 ≤ 1 ∧ 0 ≤ w1 ∧ w1 ≤ 1 ∧
    ((0 < q ∨ cfg.kind ≠ .fit) → 0 < w0 ∧ w0 < 1 ∧ 0 < w1 ∧ w1 < 1) := by
  have hpos := Good.rows_pos cfg data _ r s v w0 w1 c0 c1 hG
  obtain ⟨_, _, e0, e1, _, _, hw0, hw1, hne, _, _⟩ := hG
  rw [e0] at hw0
  have hle := side_length_le data v 0 r
  have hu := leftWeight_unit cfg.kind q hq _ _ hle (Or.inl hpos)
  rw [← hw0] at hu
  refine ⟨hw0, hw1, by rw [hw1]; ring, hu.1, hu.2, by rw [hw1]; linarith [hu.2], by rw [hw1]; linarith [hu.1], ?_⟩
  intro hs
  have hstrict : 0 < w0 ∧ w0 < 1 := by
    rw [hw0]
    rcases hs with hs | hs
    · exact ⟨leftWeight_pos _ _ hq _ _ hle (Or.inr hs), leftWeight_lt_one _ _ hq _ _ (Or.inr ⟨hle, hs⟩)⟩
    · have hn := hne hs
      rw [e0, e1] at hn
      have h0 : 0 < (side data v 0 r).length := List.length_pos_iff.2 hn.1
      have h1 : 0 < (side data v 1 r).length := List.length_pos_iff.2 hn.2
      have := side_length_add_le data v r
      exact ⟨leftWeight_pos _ _ hq _ _ hle (Or.inl h0), leftWeight_lt_one _ _ hq _ _ (Or.inl (by omega))⟩
  exact ⟨hstrict.1, hstrict.2, by rw [hw1]; linarith [hstrict.2], by rw [hw1]; linarith [hstrict.1]⟩

theorem good_leaves (cfg : Cfg) (data : List (List Nat)) : ∀ (t : LTree α) (p : α), Good cfg data p t →
    ∀ x ∈ t.leaves, x.2.1 = t.rows.filter (agrees data x.1) ∧ x.2.2 = scopeAfter t.scope x.1
  | .leaf r s, _, _, x, hx => by
      simp only [LTree.leaves, List.mem_singleton] at hx
      subst hx
      have : agrees data [] = fun _ => true := by funext r; simp [agrees]
      simp [this, scopeAfter, LTree.rows, LTree.scope]
  | .or r s v w0 w1 c0 c1, p, h, x, hx => by
      obtain ⟨_, _, e0, e1, s0, s1, _, _, _, g0, g1⟩ := h
      simp only [LTree.leaves, List.mem_append, List.mem_map] at hx
      rcases hx with ⟨y, hy, rfl⟩ | ⟨y, hy, rfl⟩
      · obtain ⟨hr, hs⟩ := good_leaves cfg data c0 _ g0 y hy
        simp only [LTree.rows, LTree.scope]
        constructor
        · rw [hr, e0, side, List.filter_filter]
          apply List.filter_congr
          intro a _
          simp [agrees, Bool.and_comm]
        · rw [hs, s0]; simp [scopeAfter]
      · obtain ⟨hr, hs⟩ := good_leaves cfg data c1 _ g1 y hy
        simp only [LTree.rows, LTree.scope]
        constructor
        · rw [hr, e1, side, List.filter_filter]
          apply List.filter_congr
          intro a _
          simp [agrees, Bool.and_comm]
        · rw [hs, s1]; simp [scopeAfter]

/-- the Boolean check the driver runs on the data implies `BinaryData` -/
theorem binaryData_of_isBinaryB (data : List (List Nat)) (h : isBinaryB data = true) : BinaryData data := by
  have getD_le : ∀ (l : List Nat) (v : Nat), (∀ c ∈ l, c ≤ 1) → l.getD v 0 ≤ 1 := by
    intro l v hl
    rw [List.getD_eq_getElem?_getD]
    cases hv : l[v]? with
    | none => simp
    | some c => simpa using hl c (List.mem_of_getElem? hv)
  intro r v
  simp only [cellOf]
  apply getD_le
  rw [List.getD_eq_getElem?_getD]
  cases hr : data[r]? with
  | none => simp
  | some row =>
    simp only [Option.getD_some]
    have hm := List.mem_of_getElem? hr
    simp only [isBinaryB, List.all_eq_true, decide_eq_true_eq] at h
    exact h row hm

theorem side_perm (data : List (List Nat)) (hb : BinaryData data) (v : Nat) (rows : List Nat) :
    (side data v 0 rows ++ side data v 1 rows).Perm rows := by
  have : side data v 1 rows = rows.filter (fun r => !(cellOf data r v == 0)) := by
    apply List.filter_congr
    intro r _
    have := hb r v
    rcases hc : cellOf data r v with _ | _ | k
    · simp
    · simp
    · omega
  rw [this]
  exact List.filter_append_perm _ _

theorem good_leaves_perm (cfg : Cfg) (data : List (List Nat)) (hb : BinaryData data) :
    ∀ (t : LTree α) (p : α), Good cfg data p t → ((t.leaves.map (fun x => x.2.1)).flatten).Perm t.rows
  | .leaf r s, _, _ => by simp [LTree.leaves, LTree.rows]
  | .or r s v w0 w1 c0 c1, p, h => by
      obtain ⟨_, _, e0, e1, _, _, _, _, _, g0, g1⟩ := h
      have p0 := good_leaves_perm cfg data hb c0 _ g0
      have p1 := good_leaves_perm cfg data hb c1 _ g1
      simp only [LTree.leaves, List.map_append, List.map_map, List.flatten_append, LTree.rows]
      have : ∀ (b : Nat) (c : LTree α),
          List.map ((fun x : List (Nat × Nat) × List Nat × List Nat => x.2.1) ∘
            fun x : List (Nat × Nat) × List Nat × List Nat => ((v, b) :: x.1, x.2)) c.leaves
          = c.leaves.map (fun x => x.2.1) := fun b c => List.map_congr_left (fun _ _ => rfl)
      rw [this 0 c0, this 1 c1]
      refine (List.Perm.append p0 p1).trans ?_
      rw [e0, e1]
      exact side_perm data hb v r

theorem toCNet_scope (lf : List Nat → List Nat → Ev → α) (t : LTree α) : (toCNet lf t).scope = t.scope := by
  cases t <;> rfl

theorem leavesOK_of_leavesDist (dom : Nat → Nat) (lf : List Nat → List Nat → Ev → α) :
    ∀ t : LTree α, LeavesDist dom lf t → C18.CNet.LeavesOK dom (toCNet lf t)
  | .leaf r s, h => by
      have := h ([], r, s) (by simp [LTree.leaves])
      simpa [toCNet, C18.CNet.LeavesOK, LeafDist] using this
  | .or r s v w0 w1 c0 c1, h => by
      simp only [toCNet, C18.CNet.LeavesOK]
      constructor
      · apply leavesOK_of_leavesDist dom lf c0
        intro x hx
        exact h ((v, 0) :: x.1, x.2) (by simp only [LTree.leaves, List.mem_append, List.mem_map]; exact Or.inl ⟨x, hx, rfl⟩)
      · apply leavesOK_of_leavesDist dom lf c1
        intro x hx
        exact h ((v, 1) :: x.1, x.2) (by simp only [LTree.leaves, List.mem_append, List.mem_map]; exact Or.inr ⟨x, hx, rfl⟩)

theorem good_WF (cfg : Cfg) (data : List (List Nat)) (dom : Nat → Nat) (lf : List Nat → List Nat → Ev → α) :
    ∀ (t : LTree α) (p : α), Good cfg data p t → t.scope.Nodup → (∀ v ∈ t.scope, dom v = 2) →
      C18.CNet.LeavesOK dom (toCNet lf t) → C18.CNet.WF dom (toCNet lf t)
  | .leaf r s, _, _, _, _, hl => by
      simpa [toCNet, C18.CNet.LeavesOK, C18.CNet.WF] using hl
  | .or r s v w0 w1 c0 c1, p, h, hnd, hdom, hl => by
      obtain ⟨hv, _, _, _, s0, s1, _, hw1, _, g0, g1⟩ := h
      simp only [LTree.scope] at hnd hdom
      simp only [toCNet, C18.CNet.LeavesOK] at hl
      simp only [toCNet, C18.CNet.WF, toCNet_scope]
      refine ⟨hv, hdom v hv, by rw [hw1]; ring, ?_, ?_, ?_, ?_⟩
      · intro u; rw [s0, hnd.mem_erase_iff]; tauto
      · intro u; rw [s1, hnd.mem_erase_iff]; tauto
      · exact good_WF cfg data dom lf c0 _ g0 (by rw [s0]; exact hnd.erase v)
          (fun u hu => hdom u (by rw [s0] at hu; exact List.mem_of_mem_erase hu)) hl.1
      · exact good_WF cfg data dom lf c1 _ g1 (by rw [s1]; exact hnd.erase v)
          (fun u hu => hdom u (by rw [s1] at hu; exact List.mem_of_mem_erase hu)) hl.2

theorem cnetEval_descend (lf : List Nat → List Nat → Ev → α) (x : Ev) :
    ∀ t : LTree α, BinaryRow t.cutVars x →
      cnetEval x (toCNet lf t) = lprod (t.descend x).1 * lf (t.descend x).2.2.1 (t.descend x).2.2.2 x ∧
      ((t.descend x).2.1, (t.descend x).2.2) ∈ t.leaves ∧
      (∀ vb ∈ (t.descend x).2.1, x vb.1 = some vb.2)
  | .leaf r s, _ => by
      simp [LTree.descend, toCNet, cnetEval, lprod, LTree.leaves]
  | .or r s v w0 w1 c0 c1, hb => by
      have hb0 : BinaryRow c0.cutVars x := fun u hu => hb u (by simp [LTree.cutVars, hu])
      have hb1 : BinaryRow c1.cutVars x := fun u hu => hb u (by simp [LTree.cutVars, hu])
      obtain ⟨e0, m0, a0⟩ := cnetEval_descend lf x c0 hb0
      obtain ⟨e1, m1, a1⟩ := cnetEval_descend lf x c1 hb1
      rcases hb v (by simp [LTree.cutVars]) with hx | hx
      · simp only [LTree.descend, hx, toCNet, cnetEval, lprod, e0, LTree.leaves, List.mem_append, List.mem_map]
        refine ⟨by ring, Or.inl ⟨_, m0, rfl⟩, ?_⟩
        intro vb hvb
        rcases List.mem_cons.1 hvb with rfl | h
        · exact hx
        · exact a0 vb h
      · simp only [LTree.descend, hx, toCNet, cnetEval, lprod, e1, LTree.leaves, List.mem_append, List.mem_map]
        refine ⟨by ring, Or.inr ⟨_, m1, rfl⟩, ?_⟩
        intro vb hvb
        rcases List.mem_cons.1 hvb with rfl | h
        · exact hx
        · exact a1 vb h

theorem good_cutVars_subset (cfg : Cfg) (data : List (List Nat)) :
    ∀ (t : LTree α) (p : α), Good cfg data p t → ∀ u ∈ t.cutVars, u ∈ t.scope
  | .leaf _ _, _, _, u, hu => by simp [LTree.cutVars] at hu
  | .or r s v w0 w1 c0 c1, p, h, u, hu => by
      obtain ⟨hv, _, _, _, s0, s1, _, _, _, g0, g1⟩ := h
      simp only [LTree.cutVars, List.mem_cons, List.mem_append] at hu
      simp only [LTree.scope]
      rcases hu with rfl | hu | hu
      · exact hv
      · have := good_cutVars_subset cfg data c0 _ g0 u hu
        rw [s0] at this
        exact List.mem_of_mem_erase this
      · have := good_cutVars_subset cfg data c1 _ g1 u hu
        rw [s1] at this
        exact List.mem_of_mem_erase this

theorem nodupB_of_nodup : ∀ l : List Nat, l.Nodup → Net.nodupB l = true
  | [], _ => rfl
  | x :: xs, h => by
      rw [List.nodup_cons] at h
      simp [Net.nodupB, h.1, nodupB_of_nodup xs h.2]

section validator
variable [DecidableEq α]

theorem good_wellFormedB (cfg : Cfg) (data : List (List Nat)) (dom : Nat → Nat) (lf : List Nat → List Nat → Ev → α)
    (p0 : α) (hp : 0 ≤ p0) (hs : 0 < p0 ∨ cfg.kind ≠ .fit) :
    ∀ (t : LTree α) (d : Nat), Good cfg data (parAt cfg.kind p0 d) t → t.scope.Nodup → (∀ v ∈ t.scope, dom v = 2) →
      cnetWellFormedB dom (toCNet lf t) = true
  | .leaf _ _, _, _, _, _ => rfl
  | .or r s v w0 w1 c0 c1, d, h, hnd, hdom => by
      obtain ⟨_, _, a3, _, _, _, _, a8⟩ :=
        Good.weights_local cfg data _ (parAt_nonneg cfg.kind p0 hp d) r s v w0 w1 c0 c1 h
      have hstr := a8 (hs.imp (fun h => parAt_pos cfg.kind p0 h d) id)
      obtain ⟨hv, _, _, _, s0, s1, _, _, _, g0, g1⟩ := h
      simp only [LTree.scope] at hnd hdom
      have r0 := good_wellFormedB cfg data dom lf p0 hp hs c0 (d + 1) g0 (by rw [s0]; exact hnd.erase v)
          (fun u hu => hdom u (by rw [s0] at hu; exact List.mem_of_mem_erase hu))
      have r1 := good_wellFormedB cfg data dom lf p0 hp hs c1 (d + 1) g1 (by rw [s1]; exact hnd.erase v)
          (fun u hu => hdom u (by rw [s1] at hu; exact List.mem_of_mem_erase hu))
      simp only [toCNet, cnetWellFormedB, Bool.and_eq_true, decide_eq_true_eq, beq_iff_eq, List.contains_eq_mem,
        toCNet_scope]
      exact ⟨⟨⟨⟨⟨⟨⟨⟨⟨nodupB_of_nodup s hnd, hv⟩, hdom v hv⟩, s0⟩, s1⟩, a3⟩, hstr.1⟩, hstr.2.2.1⟩, r0⟩, r1⟩

end validator

theorem run_nil (cfg : Cfg) (data : List (List Nat)) (f : Nat) (s : St α) (h : s.queue = []) :
    run cfg data f s = .ok s := by
  cases f <;> simp [run, h]

/-- when the root is not split the loop ends after one iteration with the root cell alone -/
theorem learnSt_nosplit (cfg : Cfg) (data : List (List Nat)) (nCols : Nat) (p : α) (script : List Dec)
    (hroot : consults cfg data.length nCols = false ∨ (candCrash cfg nCols = false ∧ script.head? = some .stop)) :
    ∃ sc, learnSt cfg data nCols p script =
      .ok { nodes := [{ rows := List.range data.length, scope := List.range nCols, par := p }], queue := [], script := sc } := by
  unfold learnSt
  rw [show 2 * script.length + 1 = (2 * script.length) + 1 from rfl]
  unfold run
  simp only [init]
  by_cases hc : consults cfg data.length nCols = false
  · refine ⟨script, ?_⟩
    simp only [step, getN, List.getD_cons_zero, List.length_range, hc, Bool.not_false, if_true]
    exact run_nil cfg data _ _ rfl
  · rcases hroot with hroot | ⟨hcr, hst⟩
    · exact absurd hroot hc
    · have hc' : consults cfg data.length nCols = true := by simpa using hc
      cases script with
      | nil => simp at hst
      | cons d sc =>
        simp only [List.head?_cons, Option.some.injEq] at hst
        subst hst
        refine ⟨sc, ?_⟩
        simp only [step, getN, List.getD_cons_zero, List.length_range, hc', hcr, Bool.not_true, Bool.false_eq_true,
          if_false]
        exact run_nil cfg data _ _ rfl

end ordered

end Deeprob.CnetLearn
