import DeeprobModel.Spec.Moments
import DeeprobModel.Props.CircMarg
set_option linter.unusedSimpArgs false
set_option linter.unusedVariables false
set_option linter.unusedSectionVars false

namespace Deeprob
variable {α : Type} [CommSemiring α]

theorem gPow_congr (k v : Nat) (a b : Ev) (h : a v = b v) : gPow (α := α) k v a = gPow k v b := by
  simp [gPow, valC, h]

/-- like `sumOver_congr`, the summand only matters on rows that are observed on `S` -/
theorem sumOver_congr_obs (dom : Nat → Nat) (S : List Nat) (e : Ev) (f g : Ev → α)
    (h : ∀ e', (∀ v, v ∉ S → e' v = e v) → (∀ v ∈ S, e' v ≠ none) → f e' = g e') :
    sumOver dom S e f = sumOver dom S e g := by
  induction S generalizing e with
  | nil => simp [sumOver]; exact h e (fun _ _ => rfl) (by simp)
  | cons v vs ih =>
    simp only [sumOver]
    split
    · rename_i k hk
      apply ih; intro e' he' hobs; apply h
      · intro w hw; apply he'; intro hc; exact hw (List.mem_cons_of_mem _ hc)
      · intro w hw
        rcases List.mem_cons.1 hw with rfl | hw'
        · by_cases hin : w ∈ vs
          · exact hobs w hin
          · rw [he' w hin, hk]; simp
        · exact hobs w hw'
    · apply sumVar_congr; intro k; apply ih; intro e' he' hobs; apply h
      · intro w hw
        have hw1 : w ≠ v := fun hc => hw (hc ▸ List.mem_cons_self)
        have hw2 : w ∉ vs := fun hc => hw (List.mem_cons_of_mem _ hc)
        rw [he' w hw2, Ev.set_ne _ _ hw1]
      · intro w hw
        rcases List.mem_cons.1 hw with rfl | hw'
        · by_cases hin : w ∈ vs
          · exact hobs w hin
          · rw [he' w hin]; simp
        · exact hobs w hw'

theorem mul_wsum (a : α) (ws xs : List α) : a * wsum ws xs = wsum ws (xs.map (fun x => a * x)) := by
  induction ws generalizing xs with
  | nil => simp [wsum]
  | cons w ws ih =>
    cases xs with
    | nil => simp [wsum]
    | cons x xs => simp only [wsum, List.map_cons]; rw [← ih]; ring

theorem wsum_sumOver_gen {β : Type} (dom : Nat → Nat) (S : List Nat) (e : Ev) (ws : List α) (cs : List β) (F : β → Ev → α) :
    sumOver dom S e (fun x => wsum ws (cs.map (fun c => F c x))) = wsum ws (cs.map (fun c => sumOver dom S e (F c))) := by
  induction ws generalizing cs with
  | nil => simp only [wsum]; exact sumOver_zero dom S e
  | cons w ws ih =>
    cases cs with
    | nil => simp only [List.map_nil, wsum]; exact sumOver_zero dom S e
    | cons c cs =>
      simp only [List.map_cons, wsum]
      rw [sumOver_add, sumOver_mul, ih]

namespace MCirc
open Circ

@[simp] theorem scope_toCirc (c : MCirc α) : c.toCirc.scope = c.scope := by
  cases c <;> simp [toCirc, Circ.scope, scope]

theorem map_scope_toCirc (cs : List (MCirc α)) : (cs.map toCirc).map Circ.scope = cs.map scope := by
  rw [List.map_map]; apply List.map_congr_left; intro c _; simp

theorem powN_one (n : Nat) : powN (1 : α) n = 1 := by
  induction n with
  | zero => rfl
  | succ n ih => simp [powN, ih]

/-- a table leaf used as a moment leaf is still the evaluation leaf -/
theorem cat_toCirc (w : Nat) (tbl : List α) : (MCirc.cat w tbl).toCirc = Circ.catLeaf w tbl := by
  simp [MCirc.cat, MCirc.toCirc, Circ.catLeaf]

/-- a valid normalised circuit evaluates to one under any evidence that is missing on its scope -/
theorem eval_missing_one (dom : Nat → Nat) (c : Circ α) (hv : Valid dom c) (hn : NormW c) (hl : LeafNorm dom c)
    (e : Ev) (he : Missing c.scope e) : eval e c = 1 := by
  rw [eval_congr dom c hv e (fun _ => none) (fun v hvs => he v hvs)]
  exact all_missing_one dom c hv hn hl

/-- outside its scope a normalised circuit reports one (`leaf_moment` writes only `m[node.scope]`) -/
theorem moment_notin (dom : Nat → Nat) (k v : Nat) : (c : MCirc α) → Valid dom c.toCirc → NormW c.toCirc →
    v ∉ c.scope → moment k v c = 1
  | leaf s f mom, _, _, hnot => by
      simp only [scope] at hnot
      simp [moment, hnot]
  | sum s ws cs, hv, hn, hnot => by
      simp only [toCirc] at hv hn
      unfold Valid at hv; unfold NormW at hn
      obtain ⟨_, hlen, hsc, hval⟩ := hv
      simp only [moment]
      rw [wsum_ones ws _ _ (by simpa using hlen), hn.1]
      intro x hx
      simp only [List.mem_map] at hx
      obtain ⟨c, hc, rfl⟩ := hx
      have hc' : c.toCirc ∈ cs.map toCirc := List.mem_map_of_mem hc
      apply moment_notin dom k v c (hval _ hc') (hn.2 _ hc')
      intro hin; apply hnot; simp only [scope]
      have := (hsc _ hc' v).1 (by simpa using hin); exact this
  | prod s cs, hv, hn, hnot => by
      simp only [toCirc] at hv hn
      unfold Valid at hv; unfold NormW at hn
      obtain ⟨_, hsc, hval⟩ := hv
      simp only [moment]
      apply lprod_ones
      intro x hx
      simp only [List.mem_map] at hx
      obtain ⟨c, hc, rfl⟩ := hx
      have hc' : c.toCirc ∈ cs.map toCirc := List.mem_map_of_mem hc
      apply moment_notin dom k v c (hval _ hc') (hn _ hc')
      intro hin; apply hnot; simp only [scope]
      apply (hsc v).1
      rw [map_scope_toCirc]
      simp only [List.mem_flatten, List.mem_map]
      exact ⟨scope c, ⟨c, hc, rfl⟩, hin⟩

theorem prod_moment_list (dom : Nat → Nat) (k v : Nat) (cs : List (MCirc α))
    (hval : ∀ c ∈ cs, Valid dom c.toCirc) (hn : ∀ c ∈ cs, NormW c.toCirc) (hl : ∀ c ∈ cs, LeafNorm dom c.toCirc)
    (hnd : (cs.map scope).flatten.Nodup)
    (IH : ∀ c ∈ cs, ∀ e, Missing c.scope e → v ∈ c.scope →
        sumOver dom c.scope e (fun x => gPow k v x * eval x c.toCirc) = moment k v c) :
    ∀ e, Missing (cs.map scope).flatten e → v ∈ (cs.map scope).flatten →
      sumOver dom (cs.map scope).flatten e (fun x => gPow k v x * lprod ((cs.map toCirc).map (eval x)))
        = lprod (cs.map (moment k v)) := by
  induction cs with
  | nil => intro e _ hin; simp at hin
  | cons c cs ih =>
    intro e hmiss hin
    have hvalc := hval c List.mem_cons_self
    have hnc := hn c List.mem_cons_self
    have hlc := hl c List.mem_cons_self
    have hvalcs : ∀ d ∈ cs, Valid dom d.toCirc := fun d hd => hval d (List.mem_cons_of_mem _ hd)
    have hncs : ∀ d ∈ cs, NormW d.toCirc := fun d hd => hn d (List.mem_cons_of_mem _ hd)
    have hlcs : ∀ d ∈ cs, LeafNorm dom d.toCirc := fun d hd => hl d (List.mem_cons_of_mem _ hd)
    simp only [List.map_cons, List.flatten_cons] at hnd hmiss hin ⊢
    rw [List.nodup_append] at hnd
    obtain ⟨_, hnd2, hdisj⟩ := hnd
    have hmc : Missing c.scope e := fun u hu => hmiss u (List.mem_append_left _ hu)
    have hmF : Missing (cs.map scope).flatten e := fun u hu => hmiss u (List.mem_append_right _ hu)
    have hvalT : ∀ d ∈ cs.map toCirc, Valid dom d := by
      intro d hd; simp only [List.mem_map] at hd; obtain ⟨d', hd', rfl⟩ := hd; exact hvalcs d' hd'
    have memF : ∀ d ∈ cs, ∀ u ∈ d.scope, u ∈ (cs.map scope).flatten := by
      intro d hd u hu; simp only [List.mem_flatten, List.mem_map]; exact ⟨scope d, ⟨d, hd, rfl⟩, hu⟩
    have rest_one : ∀ e1, Missing (cs.map scope).flatten e1 →
        sumOver dom (cs.map scope).flatten e1 (fun x => lprod ((cs.map toCirc).map (eval x))) = 1 := by
      intro e1 h1
      have h := prod_list dom (cs.map toCirc) hvalT (by rw [map_scope_toCirc]; exact hnd2)
        (fun c hc e => marg dom c (hvalT c hc) e) e1
      rw [map_scope_toCirc] at h; rw [← h]
      apply lprod_ones; intro x hx
      simp only [List.mem_map] at hx
      obtain ⟨d, ⟨d', hd', rfl⟩, rfl⟩ := hx
      apply eval_missing_one dom d'.toCirc (hvalcs d' hd') (hncs d' hd') (hlcs d' hd') e1
      intro u hu; rw [scope_toCirc] at hu; exact h1 u (memF d' hd' u hu)
    have miss1 : ∀ e1 : Ev, (∀ u, u ∉ c.scope → e1 u = e u) → Missing (cs.map scope).flatten e1 := by
      intro e1 he1 u hu
      rw [he1 u (fun hc => hdisj u hc u hu rfl)]; exact hmF u hu
    rw [sumOver_append]
    simp only [lprod]
    by_cases hvc : v ∈ c.scope
    · have hvF : v ∉ (cs.map scope).flatten := fun hc => hdisj v hvc v hc rfl
      have step : sumOver dom c.scope e (fun e1 => sumOver dom (cs.map scope).flatten e1
            (fun x => gPow k v x * (eval x c.toCirc * lprod ((cs.map toCirc).map (eval x)))))
          = sumOver dom c.scope e (fun e1 => gPow k v e1 * eval e1 c.toCirc) := by
        apply sumOver_congr; intro e1 he1
        have inner : sumOver dom (cs.map scope).flatten e1
              (fun x => gPow k v x * (eval x c.toCirc * lprod ((cs.map toCirc).map (eval x))))
            = sumOver dom (cs.map scope).flatten e1
              (fun x => (gPow k v e1 * eval e1 c.toCirc) * lprod ((cs.map toCirc).map (eval x))) := by
          apply sumOver_congr; intro x hx
          rw [gPow_congr k v x e1 (hx v hvF),
            eval_congr dom c.toCirc hvalc x e1 (fun u hu => hx u (fun hc => hdisj u (by simpa using hu) u hc rfl))]
          ring
        rw [inner, sumOver_mul, rest_one e1 (miss1 e1 he1), mul_one]
      rw [step, IH c List.mem_cons_self e hmc hvc]
      have : lprod (cs.map (moment k v)) = 1 := by
        apply lprod_ones; intro x hx
        simp only [List.mem_map] at hx
        obtain ⟨d, hd, rfl⟩ := hx
        exact moment_notin dom k v d (hvalcs d hd) (hncs d hd) (fun hc => hvF (memF d hd v hc))
      rw [this, mul_one]
    · have hvF : v ∈ (cs.map scope).flatten := by
        rcases List.mem_append.1 hin with h | h
        · exact absurd h hvc
        · exact h
      have ih' := ih hvalcs hncs hlcs hnd2 (fun d hd => IH d (List.mem_cons_of_mem _ hd))
      have step : sumOver dom c.scope e (fun e1 => sumOver dom (cs.map scope).flatten e1
            (fun x => gPow k v x * (eval x c.toCirc * lprod ((cs.map toCirc).map (eval x)))))
          = sumOver dom c.scope e (fun e1 => lprod (cs.map (moment k v)) * eval e1 c.toCirc) := by
        apply sumOver_congr; intro e1 he1
        have inner : sumOver dom (cs.map scope).flatten e1
              (fun x => gPow k v x * (eval x c.toCirc * lprod ((cs.map toCirc).map (eval x))))
            = sumOver dom (cs.map scope).flatten e1
              (fun x => eval e1 c.toCirc * (gPow k v x * lprod ((cs.map toCirc).map (eval x)))) := by
          apply sumOver_congr; intro x hx
          rw [eval_congr dom c.toCirc hvalc x e1 (fun u hu => hx u (fun hc => hdisj u (by simpa using hu) u hc rfl))]
          ring
        rw [inner, sumOver_mul, ih' e1 (miss1 e1 he1) hvF, mul_comm]
      rw [step, sumOver_mul]
      have hm := marg dom c.toCirc hvalc e
      rw [scope_toCirc] at hm
      rw [← hm, eval_missing_one dom c.toCirc hvalc hnc hlc e (by rw [scope_toCirc]; exact hmc),
        moment_notin dom k v c hvalc hnc hvc]
      ring

/-- core of `moment_exact`, for any evidence that is missing on the scope -/
theorem moment_exact_aux (dom : Nat → Nat) (k v : Nat) : (c : MCirc α) → Valid dom c.toCirc → NormW c.toCirc →
    LeafNorm dom c.toCirc → MomOK dom k v c → ∀ e, Missing c.scope e → v ∈ c.scope →
    sumOver dom c.scope e (fun x => gPow k v x * eval x c.toCirc) = moment k v c
  | leaf s f mom, hv, _, _, hm, e, hmiss, hin => by
      simp only [toCirc] at hv; unfold Valid at hv
      simp only [scope] at hmiss hin ⊢
      simp only [moment, toCirc, eval]
      have hc : s.contains v = true := by simpa using hin
      rw [hc]; simp only [if_true]
      unfold MomOK at hm; rw [hm hin]
      apply sumOver_ev_congr dom s e (fun _ => none) _ s
      · intro a b h; rw [gPow_congr k v a b (h v hin), hv.local_ a b h]
      · exact fun _ h => h
      · exact fun u hu => hmiss u hu
  | sum s ws cs, hv, hn, hl, hm, e, hmiss, hin => by
      simp only [toCirc] at hv hn hl
      unfold Valid at hv; unfold NormW at hn; unfold LeafNorm at hl; unfold MomOK at hm
      obtain ⟨_, hlen, hsc, hval⟩ := hv
      simp only [scope] at hmiss hin ⊢
      simp only [moment, toCirc, eval]
      have hx : ∀ x, gPow k v x * wsum ws ((cs.map toCirc).map (eval x))
          = wsum ws (cs.map (fun c => gPow k v x * eval x c.toCirc)) := by
        intro x; rw [mul_wsum, List.map_map, List.map_map]; rfl
      simp only [hx]
      rw [wsum_sumOver_gen dom s e ws cs (fun c x => gPow k v x * eval x c.toCirc)]
      congr 1; apply List.map_congr_left; intro c hc
      have hc' : c.toCirc ∈ cs.map toCirc := List.mem_map_of_mem hc
      have hse : scopeEq c.scope s := by have := hsc _ hc'; simpa using this
      rw [← sumOver_set_eq dom hse e]
      exact moment_exact_aux dom k v c (hval _ hc') (hn.2 _ hc') (hl _ hc') (hm c hc) e
        (fun u hu => hmiss u ((hse u).1 hu)) ((hse v).2 hin)
  | prod s cs, hv, hn, hl, hm, e, hmiss, hin => by
      simp only [toCirc] at hv hn hl
      unfold Valid at hv; unfold NormW at hn; unfold LeafNorm at hl; unfold MomOK at hm
      obtain ⟨hnd, hsc, hval⟩ := hv
      simp only [scope] at hmiss hin ⊢
      simp only [moment, toCirc, eval]
      rw [map_scope_toCirc] at hnd hsc
      rw [← sumOver_set_eq dom hsc]
      exact prod_moment_list dom k v cs
        (fun c hc => hval _ (List.mem_map_of_mem hc)) (fun c hc => hn _ (List.mem_map_of_mem hc))
        (fun c hc => hl _ (List.mem_map_of_mem hc)) hnd
        (fun c hc e hm' hin' => moment_exact_aux dom k v c (hval _ (List.mem_map_of_mem hc))
          (hn _ (List.mem_map_of_mem hc)) (hl _ (List.mem_map_of_mem hc)) (hm c hc) e hm' hin')
        e (fun u hu => hmiss u ((hsc u).1 hu)) ((hsc v).2 hin)

end MCirc
end Deeprob
