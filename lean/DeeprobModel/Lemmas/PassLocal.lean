import DeeprobModel.Lemmas.TopDownLemmas
set_option linter.unusedSimpArgs false
set_option linter.unusedVariables false
set_option linter.unusedSectionVars false
/-
Locality of the top-down pass: on the scope of a valid circuit the result depends only on the
scope entries of the starting row (and not on the path, when `br`/`fill` ignore it); the passes of
the children of a product do not interfere.
-/
namespace Deeprob
namespace TCirc
variable {α : Type} [Zero α] [One α] [Add α] [Mul α]

/-- leaf completions look only at their own columns and ignore the path -/
def FillLocal (fill : List Nat → (Ev → Ev) → Ev → Ev) : TCirc α → Prop
  | leaf s _ m _ => ∀ (p q : List Nat) (a b : Ev), (∀ v ∈ s, a v = b v) → ∀ v ∈ s, fill p m a v = fill q m b v
  | sum _ _ cs => ∀ c ∈ cs, FillLocal fill c
  | prod _ cs => ∀ c ∈ cs, FillLocal fill c

variable (br : List Nat → List α → List (TCirc α) → Nat) (fill : List Nat → (Ev → Ev) → Ev → Ev)

theorem passAll_out (dom : Nat → Nat) (v : Nat) (p : List Nat) (cs : List (TCirc α))
    (hval : ∀ c ∈ cs, Circ.Valid dom c.toCirc) (hv : v ∉ (cs.map scope).flatten) (j : Nat) (x : Ev) :
    passAll br fill p j cs x v = x v :=
  passAll_outside br fill v p cs (fun c hc q y h => pass_outside br fill dom v c (hval c hc) q y h) hv j x

theorem passAll_local (dom : Nat → Nat) (cs : List (TCirc α))
    (hnd : (cs.map scope).flatten.Nodup) (hval : ∀ c ∈ cs, Circ.Valid dom c.toCirc)
    (IH : ∀ c ∈ cs, ∀ (p q : List Nat) (a b : Ev), (∀ v ∈ c.scope, a v = b v) →
      ∀ v ∈ c.scope, pass br fill p c a v = pass br fill q c b v) :
    ∀ (p q : List Nat) (j j' : Nat) (a b : Ev), (∀ v ∈ (cs.map scope).flatten, a v = b v) →
      ∀ v ∈ (cs.map scope).flatten, passAll br fill p j cs a v = passAll br fill q j' cs b v := by
  induction cs with
  | nil => intro p q j j' a b _ v hv; simp at hv
  | cons c cs ih =>
    intro p q j j' a b hab v hv
    simp only [List.map_cons, List.flatten_cons] at hnd hab hv
    rw [List.nodup_append] at hnd
    obtain ⟨_, hnd2, hdisj⟩ := hnd
    have hvalc := hval c List.mem_cons_self
    have hvalcs : ∀ d ∈ cs, Circ.Valid dom d.toCirc := fun d hd => hval d (List.mem_cons_of_mem _ hd)
    simp only [passAll]
    rcases List.mem_append.1 hv with hvc | hvcs
    · have hnot : v ∉ (cs.map scope).flatten := fun h => hdisj v hvc v h rfl
      rw [passAll_out br fill dom v p cs hvalcs hnot, passAll_out br fill dom v q cs hvalcs hnot]
      exact IH c List.mem_cons_self _ _ a b (fun w hw => hab w (List.mem_append_left _ hw)) v hvc
    · apply ih hnd2 hvalcs (fun d hd => IH d (List.mem_cons_of_mem _ hd)) p q (j+1) (j'+1) _ _ _ v hvcs
      intro w hw
      have hnot : w ∉ c.scope := fun h => hdisj w h w hw rfl
      rw [pass_outside br fill dom w c hvalc _ _ hnot, pass_outside br fill dom w c hvalc _ _ hnot]
      exact hab w (List.mem_append_right _ hw)

/-- **locality**: with path-independent branch and leaf functions, the pass restricted to the scope
of a valid circuit is a function of the scope entries of the starting row only -/
theorem pass_local (dom : Nat → Nat) (hbr : ∀ (p q : List Nat) (ws : List α) (cs : List (TCirc α)), br p ws cs = br q ws cs) :
    ∀ (c : TCirc α), Circ.Valid dom c.toCirc → FillLocal fill c →
    ∀ (p q : List Nat) (a b : Ev), (∀ v ∈ c.scope, a v = b v) →
      ∀ v ∈ c.scope, pass br fill p c a v = pass br fill q c b v := by
  intro c
  induction c using TCirc.ind with
  | hl s f m cd =>
    intro _ hf p q a b hab v hv
    unfold FillLocal at hf
    simp only [scope] at hab hv
    simp only [pass]
    rw [writeScope_mem _ _ _ hv, writeScope_mem _ _ _ hv]
    exact hf p q a b hab v hv
  | hs s ws cs ih =>
    intro hval hf p q a b hab v hv
    obtain ⟨_, _, hsc, hvc⟩ := valid_sum.1 hval
    unfold FillLocal at hf
    simp only [scope] at hab hv
    simp only [pass, passAt_eq]
    rw [hbr q p ws cs]
    cases hk : cs[br p ws cs]? with
    | none => exact hab v hv
    | some c =>
      have hc := List.mem_of_getElem? hk
      exact ih c hc (hvc c hc) (hf c hc) _ _ a b (fun w hw => hab w ((hsc c hc w).1 hw)) v ((hsc c hc v).2 hv)
  | hp s cs ih =>
    intro hval hf p q a b hab v hv
    obtain ⟨hnd, hsc, hvc⟩ := valid_prod.1 hval
    unfold FillLocal at hf
    simp only [scope] at hab hv
    simp only [pass]
    exact passAll_local br fill dom cs hnd hvc
      (fun c hc p q a b h w hw => ih c hc (hvc c hc) (hf c hc) p q a b h w hw) p q 0 0 a b
      (fun w hw => hab w ((hsc w).1 hw)) v ((hsc v).2 hv)

/-- on the scope of one child, the pass over all children of a product is that child's pass -/
theorem passAll_pointwise (dom : Nat → Nat) (hbr : ∀ (p q : List Nat) (ws : List α) (cs : List (TCirc α)), br p ws cs = br q ws cs)
    (cs : List (TCirc α)) (hnd : (cs.map scope).flatten.Nodup) (hval : ∀ c ∈ cs, Circ.Valid dom c.toCirc)
    (hf : ∀ c ∈ cs, FillLocal fill c) :
    ∀ (p q : List Nat) (j : Nat) (x : Ev), ∀ c ∈ cs, ∀ v ∈ c.scope,
      passAll br fill p j cs x v = pass br fill q c x v := by
  induction cs with
  | nil => intro p q j x c hc; simp at hc
  | cons c0 cs ih =>
    intro p q j x c hc v hv
    simp only [List.map_cons, List.flatten_cons] at hnd
    rw [List.nodup_append] at hnd
    obtain ⟨_, hnd2, hdisj⟩ := hnd
    have hvalc := hval c0 List.mem_cons_self
    have hvalcs : ∀ d ∈ cs, Circ.Valid dom d.toCirc := fun d hd => hval d (List.mem_cons_of_mem _ hd)
    simp only [passAll]
    rcases List.mem_cons.1 hc with rfl | hc'
    · have hnot : v ∉ (cs.map scope).flatten := fun h => hdisj v hv v h rfl
      rw [passAll_out br fill dom v p cs hvalcs hnot]
      exact pass_local br fill dom hbr c hvalc (hf c List.mem_cons_self) _ _ x x (fun _ _ => rfl) v hv
    · rw [ih hnd2 hvalcs (fun d hd => hf d (List.mem_cons_of_mem _ hd)) p q (j+1) _ c hc' v hv]
      apply pass_local br fill dom hbr c (hvalcs c hc') (hf c (List.mem_cons_of_mem _ hc')) q q _ _ _ v hv
      intro w hw
      have hwcs : w ∈ (cs.map scope).flatten := List.mem_flatten.2 ⟨c.scope, List.mem_map_of_mem hc', hw⟩
      exact pass_outside br fill dom w c0 hvalc _ _ (fun h => hdisj w h w hwcs rfl)

end TCirc
end Deeprob
