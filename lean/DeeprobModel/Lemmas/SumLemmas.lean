import DeeprobModel.Model.Sum
import DeeprobModel.Spec.Validity
import Mathlib.Algebra.Ring.Defs
import Mathlib.Tactic.Ring
import Mathlib.Data.List.Dedup
import Mathlib.Data.List.Perm.Basic
set_option linter.unusedSimpArgs false

namespace Deeprob
variable {α : Type} [CommSemiring α]

@[simp] theorem Ev.set_self (e : Ev) (v k : Nat) : (e.set v k) v = some k := by simp [Ev.set]
theorem Ev.set_ne (e : Ev) {v w : Nat} (k : Nat) (h : w ≠ v) : (e.set v k) w = e w := by simp [Ev.set, h]
theorem Ev.set_comm (e : Ev) {a b : Nat} (h : a ≠ b) (i j : Nat) :
    (e.set a i).set b j = (e.set b j).set a i := by
  funext w; simp only [Ev.set]; by_cases h1 : w = a <;> by_cases h2 : w = b <;> simp_all

theorem sumVar_congr (n : Nat) (f g : Nat → α) (h : ∀ k, f k = g k) : sumVar n f = sumVar n g := by
  have : f = g := funext h
  rw [this]

theorem foldr_mul (l : List Nat) (a : α) (f : Nat → α) :
    l.foldr (fun k acc => a * f k + acc) 0 = a * l.foldr (fun k acc => f k + acc) 0 := by
  induction l with
  | nil => simp
  | cons x xs ih => simp [List.foldr, ih]; ring

theorem sumVar_mul (n : Nat) (a : α) (f : Nat → α) : sumVar n (fun k => a * f k) = a * sumVar n f := by
  unfold sumVar; exact foldr_mul _ a f

theorem foldr_add (l : List Nat) (f g : Nat → α) :
    l.foldr (fun k acc => (f k + g k) + acc) 0 = l.foldr (fun k acc => f k + acc) 0 + l.foldr (fun k acc => g k + acc) 0 := by
  induction l with
  | nil => simp
  | cons x xs ih => simp [List.foldr, ih]; ring

theorem sumVar_add (n : Nat) (f g : Nat → α) : sumVar n (fun k => f k + g k) = sumVar n f + sumVar n g := by
  unfold sumVar; exact foldr_add _ f g

theorem sumVar_zero (n : Nat) : sumVar n (fun _ => (0:α)) = 0 := by
  unfold sumVar; generalize List.range n = l
  induction l with
  | nil => rfl
  | cons x xs ih => simp only [List.foldr, zero_add] at ih ⊢; exact ih

theorem sumOver_congr (dom : Nat → Nat) (S : List Nat) (e : Ev) (f g : Ev → α)
    (h : ∀ e', (∀ v, v ∉ S → e' v = e v) → f e' = g e') : sumOver dom S e f = sumOver dom S e g := by
  induction S generalizing e with
  | nil => simp [sumOver]; exact h e (fun _ _ => rfl)
  | cons v vs ih =>
    simp only [sumOver]
    split
    · apply ih; intro e' he'; apply h; intro w hw; apply he'; intro hc; exact hw (List.mem_cons_of_mem _ hc)
    · apply sumVar_congr; intro k; apply ih; intro e' he'; apply h; intro w hw
      have hw1 : w ≠ v := fun hc => hw (hc ▸ List.mem_cons_self)
      have hw2 : w ∉ vs := fun hc => hw (List.mem_cons_of_mem _ hc)
      rw [he' w hw2, Ev.set_ne _ _ hw1]

theorem sumOver_mul (dom : Nat → Nat) (S : List Nat) (e : Ev) (a : α) (f : Ev → α) :
    sumOver dom S e (fun e' => a * f e') = a * sumOver dom S e f := by
  induction S generalizing e with
  | nil => simp [sumOver]
  | cons v vs ih =>
    simp only [sumOver]
    split
    · exact ih e
    · rw [← sumVar_mul]; apply sumVar_congr; intro k; exact ih _

theorem sumOver_add (dom : Nat → Nat) (S : List Nat) (e : Ev) (f g : Ev → α) :
    sumOver dom S e (fun e' => f e' + g e') = sumOver dom S e f + sumOver dom S e g := by
  induction S generalizing e with
  | nil => simp [sumOver]
  | cons v vs ih =>
    simp only [sumOver]
    split
    · exact ih e
    · rw [← sumVar_add]; apply sumVar_congr; intro k; exact ih _

theorem sumOver_zero (dom : Nat → Nat) (S : List Nat) (e : Ev) : sumOver dom S e (fun _ => (0:α)) = 0 := by
  induction S generalizing e with
  | nil => simp [sumOver]
  | cons v vs ih =>
    simp only [sumOver]; split
    · exact ih e
    · simp only [ih]; exact sumVar_zero _

theorem sumOver_append (dom : Nat → Nat) (S T : List Nat) (e : Ev) (f : Ev → α) :
    sumOver dom (S ++ T) e f = sumOver dom S e (fun e1 => sumOver dom T e1 f) := by
  induction S generalizing e with
  | nil => simp [sumOver]
  | cons v vs ih =>
    simp only [List.cons_append, sumOver]
    split
    · exact ih e
    · apply sumVar_congr; intro k; exact ih _

/-- changing `e` outside of what `f` looks at and outside `S` does not matter -/
theorem sumOver_ev_congr (dom : Nat → Nat) (S : List Nat) (e e2 : Ev) (f : Ev → α) (D : List Nat)
    (hf : ∀ a b : Ev, (∀ v ∈ D, a v = b v) → f a = f b)
    (hS : ∀ v ∈ S, v ∈ D) (he : ∀ v ∈ D, e v = e2 v) :
    sumOver dom S e f = sumOver dom S e2 f := by
  induction S generalizing e e2 with
  | nil => simp [sumOver]; exact hf e e2 he
  | cons v vs ih =>
    have hv : v ∈ D := hS v List.mem_cons_self
    have hvs : ∀ w ∈ vs, w ∈ D := fun w hw => hS w (List.mem_cons_of_mem _ hw)
    simp only [sumOver]
    rw [← he v hv]
    split
    · exact ih e e2 hvs he
    · apply sumVar_congr; intro k; apply ih _ _ hvs
      intro w hw
      by_cases h : w = v
      · subst h; simp
      · rw [Ev.set_ne _ _ h, Ev.set_ne _ _ h]; exact he w hw

/-- summing over variables that are all observed does nothing -/
theorem sumOver_observed (dom : Nat → Nat) (S : List Nat) (e : Ev) (f : Ev → α)
    (h : ∀ v ∈ S, e v ≠ none) : sumOver dom S e f = f e := by
  induction S with
  | nil => rfl
  | cons v vs ih =>
    simp only [sumOver]
    have hv := h v List.mem_cons_self
    split
    · exact ih (fun w hw => h w (List.mem_cons_of_mem _ hw))
    · rename_i hn; exact absurd hn hv

theorem sumVar_comm (n m : Nat) (f : Nat → Nat → α) :
    sumVar n (fun i => sumVar m (fun j => f i j)) = sumVar m (fun j => sumVar n (fun i => f i j)) := by
  unfold sumVar
  generalize List.range n = l1
  generalize List.range m = l2
  induction l1 with
  | nil =>
    simp only [List.foldr]
    induction l2 with
    | nil => rfl
    | cons y ys ih => simp only [List.foldr, ← ih]; simp
  | cons x xs ih =>
    simp only [List.foldr, ih]
    rw [← foldr_add]

theorem sumOver_swap (dom : Nat → Nat) (a b : Nat) (S : List Nat) (e : Ev) (f : Ev → α) :
    sumOver dom (a :: b :: S) e f = sumOver dom (b :: a :: S) e f := by
  by_cases hab : a = b
  · subst hab; rfl
  have hba : b ≠ a := fun h => hab h.symm
  simp only [sumOver]
  cases ha : e a <;> cases hb : e b
  · simp only [Ev.set_ne _ _ hba, Ev.set_ne _ _ hab, ha, hb]
    rw [sumVar_comm]
    apply sumVar_congr; intro j; apply sumVar_congr; intro i
    rw [Ev.set_comm _ hab]
  · simp only [Ev.set_ne _ _ hba, Ev.set_ne _ _ hab, ha, hb]
  · simp only [Ev.set_ne _ _ hba, Ev.set_ne _ _ hab, ha, hb]
  · simp only [ha, hb]

theorem sumOver_cons_congr (dom : Nat → Nat) (a : Nat) (S T : List Nat)
    (h : ∀ (e : Ev) (f : Ev → α), sumOver dom S e f = sumOver dom T e f) (e : Ev) (f : Ev → α) :
    sumOver dom (a :: S) e f = sumOver dom (a :: T) e f := by
  simp only [sumOver]; split
  · exact h e f
  · apply sumVar_congr; intro k; exact h _ f

/-- completion sums do not depend on the order in which the scope is listed -/
theorem sumOver_perm (dom : Nat → Nat) {S T : List Nat} (hp : S.Perm T) :
    ∀ (e : Ev) (f : Ev → α), sumOver dom S e f = sumOver dom T e f := by
  induction hp with
  | nil => intro e f; rfl
  | cons a _ ih => intro e f; exact sumOver_cons_congr dom a _ _ ih e f
  | swap a b l => intro e f; exact sumOver_swap dom b a l e f
  | trans _ _ ih1 ih2 => intro e f; rw [ih1, ih2]

theorem sumOver_dup_head (dom : Nat → Nat) (v : Nat) (S : List Nat) (hv : v ∈ S) (e : Ev) (f : Ev → α) :
    sumOver dom (v :: S) e f = sumOver dom S e f := by
  have hp : S.Perm (v :: S.erase v) := List.perm_cons_erase hv
  rw [sumOver_cons_congr dom v _ _ (sumOver_perm dom hp) e f, sumOver_perm dom hp e f]
  simp only [sumOver]
  split
  · rfl
  · apply sumVar_congr; intro k; simp

theorem sumOver_dedup (dom : Nat → Nat) (S : List Nat) : ∀ (e : Ev) (f : Ev → α),
    sumOver dom S.dedup e f = sumOver dom S e f := by
  induction S with
  | nil => intro e f; rfl
  | cons a l ih =>
    intro e f
    by_cases h : a ∈ l
    · rw [List.dedup_cons_of_mem h, ih, sumOver_dup_head dom a l h]
    · rw [List.dedup_cons_of_notMem h]; exact sumOver_cons_congr dom a _ _ ih e f

/-- only the *set* of listed variables matters -/
theorem sumOver_set_eq (dom : Nat → Nat) {S T : List Nat} (h : scopeEq S T) (e : Ev) (f : Ev → α) :
    sumOver dom S e f = sumOver dom T e f := by
  rw [← sumOver_dedup dom S, ← sumOver_dedup dom T]
  apply sumOver_perm
  rw [List.perm_ext_iff_of_nodup (List.nodup_dedup S) (List.nodup_dedup T)]
  intro a; simp only [List.mem_dedup]; exact h a

end Deeprob
