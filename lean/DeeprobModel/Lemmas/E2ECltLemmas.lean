import DeeprobModel.Oblig.Struct4Clt
import DeeprobModel.Oblig.Struct4CltMsg
import DeeprobModel.Oblig.Struct4CltMpe
import DeeprobModel.Oblig.StructClt
import DeeprobModel.Props.CltOrder
import DeeprobModel.Props.Clt
/-
Linking lemmas for the end-to-end corollaries of `Props/E2EClt.lean` (Chow-Liu trees: C02, C06, C12).

The obligations of `Oblig/Struct4Clt*.lean` speak about the definitions extracted from the source (`Gen.S4bfsStep`,
`Gen.S4cltMessages`, `Gen.S4cltRootValue`, `Gen.S4cltMpe`, `Gen.S4cltLogLikelihood`); the property theorems of
`Props/Clt.lean`, `Props/CltOrder.lean` speak about the hand-written models (`Clt.up`, `Clt.value`, `GraphIo.arrayPass`,
`Clt.decode`).  This file holds what is needed to put the two together:

* A. the generated breadth-first loop (`Struct4.bfsRun`) is `GraphIo.computeBfsOrdering`, for every fuel `≥ n`;
* B. ONE iteration of the generated upward loop (`Struct4.msgStep`) is `GraphIo.passStep` — on the list-of-pairs view of the
  `messages` array, for any carrier with `0 1 + *` and NO laws (both reductions are instances); the generated loop is
  `GraphIo.arrayPass`, the generated root step is `GraphIo.rootValue`;
* C. `GraphIo.arrayPass` commutes with maps that respect the operations (max-times carrier ↦ the carrier with `+ := max`);
* D. the sub-trees of `Clt.build tree n r` are the `Clt.build tree n j`;
* E. the hypothesis bundle `Struct4.LoopOK` of `mpe_loop_is_decode`, discharged for the generated order and messages;
* F. rows as lists / as evidence functions.
-/
set_option linter.unusedSectionVars false
set_option linter.unusedSimpArgs false
set_option linter.unusedVariables false
namespace Deeprob.E2EClt
open Deeprob Deeprob.Clt

/-! ### A. the generated breadth-first loop -/

/-- `self.bfs` of the object built from the predecessor vector `tree` with root index `r`, as the GENERATED loop computes
it: `Gen.S4bfsStep` iterated from `([root], [])` (`Struct4.bfsRun`; tree nodes = positions, children = `childrenOf`), with
fuel `n` = number of variables -/
def genBfs (tree : List Int) (r : Nat) : List Nat := Struct4.bfsRun tree tree.length [r] []

/-- the list `message_passing` / `mpe` receive: `self.bfs` as NumPy integers -/
def genBfsI (tree : List Int) (r : Nat) : List Int := (genBfs tree r).map (fun (a : Nat) => (a : Int))

theorem genBfs_eq_bfsOrder (tree : List Int) (r f : Nat) :
    Struct4.bfsRun tree f [r] [] = Clt.bfsOrder tree f [r] := by
  rw [Struct4.bfs_as_coded]; rfl

/-- **link**: on a well-formed vector the generated loop returns what the model `GraphIo.computeBfsOrdering` returns,
for EVERY fuel `≥ n` (the `while` loop of the source has no bound: any bound `≥ n` gives the same list) -/
theorem genBfs_eq {tree : List Int} {r : Nat} (h : GraphIo.WF tree r) :
    GraphIo.computeBfsOrdering tree = some (genBfs tree r) ∧
    ∀ f, tree.length ≤ f → Struct4.bfsRun tree f [r] [] = genBfs tree r := by
  have key : ∀ f, tree.length ≤ f →
      Struct4.bfsRun tree f [r] [] = (List.range tree.length).flatMap (GraphIo.level tree r) := by
    intro f hf
    rw [genBfs_eq_bfsOrder, ← GraphIo.bfsLoop_eq_cltBfsOrder (tree := tree) _ h.getD_children]
    have hl : ((List.range tree.length).flatMap (fun j => GraphIo.level tree r (0 + j))).length = tree.length := by
      simp only [Nat.zero_add]
      rw [h.levels_perm.length_eq]; simp
    have := GraphIo.bfsLoop_levels (tree := tree) (r := r) _ h.getD_children tree.length 0 f
      (by rw [hl]; exact hf) (by simp only [Nat.zero_add]; exact h.level_big (Nat.le_refl _))
    simp only [Nat.zero_add] at this
    exact this
  refine ⟨?_, fun f hf => ?_⟩
  · rw [h.bfs_eq]; unfold genBfs; rw [key _ (Nat.le_refl _)]
  · unfold genBfs; rw [key f hf, key _ (Nat.le_refl _)]

/-! ### B. one iteration of the generated upward loop is `GraphIo.passStep` -/

section link
variable {α : Type} [Zero α] [One α] [Add α] [Mul α]

/-- the reduction along the value axis in the linear domain, for a carrier with `0` and `+`:
`Struct4.sumL` at a semiring ('mar': `logsumexp`), `Struct4.maxL` when `+ := max` ('mpe': `np.max`) -/
def redL (v : List α) : α := v.foldr (fun a b => a + b) 0

/-- `self.params` read in the linear domain (`Struct4.paramsOf` without the order instances) -/
def params (cpt : List (List (List α))) : Int → Int → Int → α := fun i l k => cptAt cpt i.toNat l.toNat k.toNat

/-- the `messages` array of one row (`messages[i, row, :]` = a two-element list) from the model's list of pairs -/
def ofPairs (M : List (α × α)) : List (List α) := M.map (fun p => [p.1, p.2])

theorem ofPairs_length (M : List (α × α)) : (ofPairs M).length = M.length := by simp [ofPairs]

theorem ofPairs_getD (M : List (α × α)) (j : Nat) (hj : j < M.length) :
    (ofPairs M).getD j [] = [(M.getD j (1, 1)).1, (M.getD j (1, 1)).2] := by
  simp [ofPairs, List.getD_eq_getElem?_getD, hj]

theorem ofPairs_modify (M : List (α × α)) (p : Nat) (f : α × α → α × α) (hp : p < M.length) :
    ofPairs (M.modify p f) = (ofPairs M).set p [(f (M.getD p (1, 1))).1, (f (M.getD p (1, 1))).2] := by
  apply List.ext_getElem?
  intro i
  simp only [ofPairs, List.getElem?_map, List.getElem?_modify, List.getElem?_set, List.length_map,
    List.getD_eq_getElem?_getD, List.getElem?_eq_getElem hp, Option.getD_some]
  by_cases hpi : p = i
  · subst hpi; simp [hp]
  · simp [hpi]

theorem ofPairs_replicate (n : Nat) : ofPairs (List.replicate n ((1 : α), (1 : α))) = List.replicate n [1, 1] := by
  simp [ofPairs]

theorem passStep_length (tree : List Int) (cpt : List (List (List α))) (row : Nat → Option Nat) (M : List (α × α)) (j : Nat) :
    (GraphIo.passStep tree cpt row M j).length = M.length := by
  unfold GraphIo.passStep
  split <;> simp

theorem sel_zero (m : α × α) : GraphIo.sel m 0 = m.1 := rfl
theorem sel_one (m : α × α) : GraphIo.sel m 1 = m.2 := rfl

/-- **one iteration as extracted = one step of the model's array pass**, for both reductions (no algebraic law is used:
the two sides are the same expression).  `j` is a non-root position of the row (its entry of `self.tree` is the index `p`),
`x` / `obs` are the row and its mask as lists, `row` the same row as a function, the data are binary. -/
theorem msgStep_link (cpt : List (List (List α))) (tree : List Int) (lse mx : List α → α) (raised : List (List α))
    (x : List (Option Nat)) (obs : List Bool) (row : Nat → Option Nat) (reduce : String)
    (hred : (reduce = "mar" ∧ lse = redL) ∨ (reduce = "mpe" ∧ mx = redL))
    (M : List (α × α)) (j p : Nat)
    (hx : x.getD j none = row j) (hobs : obs.getD j false = (x.getD j none).isSome)
    (hbin : ∀ o, row j = some o → o < 2)
    (hj : j < M.length) (hjt : j < tree.length) (hp : tree.getD j (-1) = (p : Int)) (hpl : p < M.length) :
    @Struct4.msgStep α ⟨1⟩ ⟨(· * ·)⟩ (params cpt) tree lse mx raised x obs reduce (ofPairs M) (j : Int) =
      ofPairs (GraphIo.passStep tree cpt row M j) := by
  have htj : Gen.Py4.getI tree (j : Int) 0 = (p : Int) := by
    rw [Struct4.getI_natCast', CltFit.getD_irrel tree hjt 0 (-1)]; exact hp
  have hne : ("mpe" == "mar") = false := by decide
  unfold GraphIo.passStep
  rw [hp, GraphIo.pyIndex_nat hpl]
  simp only
  rw [ofPairs_modify _ _ _ hpl]
  unfold Struct4.msgStep
  simp only [htj, Struct4.getI_natCast', Struct4.updI_natCast, ofPairs_getD _ _ hj, ofPairs_getD _ _ hpl, hobs, hx]
  unfold GraphIo.outMsg
  cases hv : row j with
  | some o =>
    have ho := hbin o hv
    have ho' : o = 0 ∨ o = 1 := by omega
    rcases hred with ⟨rfl, rfl⟩ | ⟨rfl, rfl⟩ <;> rcases ho' with rfl | rfl <;>
      simp only [Option.isSome_some, if_true, Bool.not_true, Bool.false_eq_true, if_false, Gen.Py3.val, Option.getD_some,
        Gen.Py4.vec2, List.map_cons, List.map_nil, List.zipWith_cons_cons, List.zipWith_nil_right, Nat.cast_zero, Nat.cast_one,
        Int.toNat_zero, Struct4.getI_pair_zero, Struct4.getI_pair_one, sel_zero, sel_one, params, beq_self_eq_true, hne,
        Int.toNat_natCast] <;> rfl
  | none =>
    rcases hred with ⟨rfl, rfl⟩ | ⟨rfl, rfl⟩ <;>
      simp only [Option.isSome_none, Bool.false_eq_true, if_false, Bool.not_false, if_true, Gen.Py4.vec2, List.map_cons,
        List.map_nil, List.zipWith_cons_cons, List.zipWith_nil_right, redL, List.foldr_cons, List.foldr_nil, sumVar,
        List.range_succ, List.range_zero, List.nil_append, List.cons_append, Int.toNat_zero, Int.toNat_one, sel_zero, sel_one,
        params, beq_self_eq_true, hne, Int.toNat_natCast, ofPairs_getD _ _ hpl] <;> rfl

/-- the facts about an order the generated loop can be run over: positions of the row, none of them the root -/
def OrderOK (tree : List Int) (n : Nat) (order : List Nat) : Prop :=
  ∀ j ∈ order, j < n ∧ ∃ p, p < n ∧ tree.getD j (-1) = (p : Int)

/-- **the whole upward loop as extracted = the model's array pass** over the same list of positions -/
theorem msgLoop_link (cpt : List (List (List α))) (tree : List Int) (lse mx : List α → α) (raised : List (List α))
    (x : List (Option Nat)) (obs : List Bool) (row : Nat → Option Nat) (reduce : String)
    (hred : (reduce = "mar" ∧ lse = redL) ∨ (reduce = "mpe" ∧ mx = redL))
    (hx : ∀ j, j < tree.length → x.getD j none = row j)
    (hobs : ∀ j, j < tree.length → obs.getD j false = (x.getD j none).isSome)
    (hbin : ∀ j, j < tree.length → ∀ o, row j = some o → o < 2) :
    ∀ (order : List Nat), OrderOK tree tree.length order → ∀ (M : List (α × α)), M.length = tree.length →
      (order.map (fun (a : Nat) => (a : Int))).foldl
          (@Struct4.msgStep α ⟨1⟩ ⟨(· * ·)⟩ (params cpt) tree lse mx raised x obs reduce) (ofPairs M) =
        ofPairs (order.foldl (GraphIo.passStep tree cpt row) M)
  | [], _, M, _ => rfl
  | j :: rest, hok, M, hM => by
    obtain ⟨hj, p, hp, hpe⟩ := hok j List.mem_cons_self
    simp only [List.map_cons, List.foldl_cons]
    rw [msgStep_link cpt tree lse mx raised x obs row reduce hred M j p (hx j hj) (hobs j hj) (hbin j hj)
      (by omega) hj hpe (by omega)]
    exact msgLoop_link cpt tree lse mx raised x obs row reduce hred hx hobs hbin rest
      (fun k hk => hok k (List.mem_cons_of_mem _ hk)) _ (by rw [passStep_length]; exact hM)

/-- **the root step as extracted = the model's `rootValue`** (`logsumexp` whatever `reduce` is) -/
theorem rootValue_link (cpt : List (List (List α))) (bfs tree : List Int) (mx : List α → α) (nRows : Nat)
    (x : List (Option Nat)) (obs : List Bool) (row : Nat → Option Nat) (M : List (α × α)) (r : Nat)
    (hx : x.getD r none = row r) (hobs : obs.getD r false = (x.getD r none).isSome)
    (hbin : ∀ o, row r = some o → o < 2) (hr : r < M.length) :
    @Gen.S4cltRootValue α ⟨1⟩ ⟨(· * ·)⟩ (params cpt) (r : Int) bfs tree redL mx nRows x obs (ofPairs M) =
      some (GraphIo.rootValue cpt row r M) := by
  unfold Gen.S4cltRootValue GraphIo.rootValue GraphIo.outMsg
  simp only [Struct4.getI_natCast', ofPairs_getD _ _ hr, hobs, hx]
  cases hv : row r with
  | some o =>
    have ho := hbin o hv
    have ho' : o = 0 ∨ o = 1 := by omega
    rcases ho' with rfl | rfl <;>
      simp only [Option.isSome_some, if_true, Bool.not_true, Bool.false_eq_true, if_false, Gen.Py3.val, Option.getD_some,
        Nat.cast_zero, Nat.cast_one, Int.toNat_zero, Struct4.getI_pair_zero, Struct4.getI_pair_one, sel_zero, sel_one, params,
        Int.toNat_natCast] <;> rfl
  | none =>
    simp only [Option.isSome_none, Bool.false_eq_true, if_false, Bool.not_false, if_true, Gen.Py4.vec2,
      List.zipWith_cons_cons, List.zipWith_nil_right, redL, List.foldr_cons, List.foldr_nil, sumVar,
      List.range_succ, List.range_zero, List.nil_append, List.cons_append, Int.toNat_zero, sel_zero, sel_one, params,
      Int.toNat_natCast]
    rfl

theorem arrayPass_length (tree : List Int) (cpt : List (List (List α))) (row : Nat → Option Nat) (order : List Nat) :
    (GraphIo.arrayPass tree cpt row order).length = tree.length := by
  unfold GraphIo.arrayPass
  have : ∀ (order : List Nat) (M : List (α × α)), (order.foldl (GraphIo.passStep tree cpt row) M).length = M.length := by
    intro order
    induction order with
    | nil => intro M; rfl
    | cons j rest ih => intro M; rw [List.foldl_cons, ih, passStep_length]
  rw [this]; simp

/-! #### rows -/

/-- the row of the evidence `e` as the code sees it: column `i` holds the entry of variable `scope[i]` (`none` = NaN) -/
def rowList (scope : List Nat) (n : Nat) (e : Ev) : List (Option Nat) := (List.range n).map (fun i => e (scope.getD i 0))

/-- … and back: the evidence a row stands for (variables outside the scope unobserved) -/
def evOfRow (scope : List Nat) (x : List (Option Nat)) : Ev := fun v => if v ∈ scope then x.getD (scope.idxOf v) none else none

theorem rowList_length (scope : List Nat) (n : Nat) (e : Ev) : (rowList scope n e).length = n := by simp [rowList]

theorem rowList_getD (scope : List Nat) (n : Nat) (e : Ev) (j : Nat) (hj : j < n) :
    (rowList scope n e).getD j none = GraphIo.rowOf scope e j := by
  simp [rowList, GraphIo.rowOf, List.getD_eq_getElem?_getD, hj]

theorem getD_idxOf_nodup (scope : List Nat) (hnd : scope.Nodup) (i : Nat) (hi : i < scope.length) :
    scope.idxOf (scope.getD i 0) = i := by
  have h1 : scope.getD i 0 = scope[i] := by simp [List.getD_eq_getElem?_getD, hi]
  rw [h1]; exact List.Nodup.idxOf_getElem hnd i hi

/-- every row of the right length is the row of an evidence: the theorems stated for `rowList scope n e` cover all rows -/
theorem rowList_evOfRow (scope : List Nat) (hnd : scope.Nodup) (x : List (Option Nat)) (hx : x.length = scope.length) :
    rowList scope scope.length (evOfRow scope x) = x := by
  apply List.ext_getElem
  · simp [rowList, hx]
  · intro i h1 h2
    have hi : i < scope.length := by simpa [rowList] using h1
    have hm : scope.getD i 0 ∈ scope := by
      rw [List.getD_eq_getElem?_getD, List.getElem?_eq_getElem hi]; exact List.getElem_mem hi
    simp only [rowList, List.getElem_map, List.getElem_range, evOfRow, hm, if_true, getD_idxOf_nodup scope hnd i hi]
    simp [List.getD_eq_getElem?_getD, h2]

theorem obs_getD (x : List (Option Nat)) (j : Nat) :
    (x.map (fun o => !o.isNone)).getD j false = (x.getD j none).isSome := by
  rw [List.getD_eq_getElem?_getD, List.getD_eq_getElem?_getD, List.getElem?_map]
  cases x[j]? with
  | none => rfl
  | some o => cases o <;> rfl

/-! #### the generated `message_passing` -/

/-- the final `messages` array of ONE row as the GENERATED upward loop computes it for the object built from `tree`
(root index `r`, `self.bfs` = the generated breadth-first order), linear-domain reading.  The two remaining arguments of
the extracted definition are fixed: `nRows` is not used by it, `raised` only by the branch that raises. -/
def genMessages (cpt : List (List (List α))) (tree : List Int) (r : Nat) (lse mx : List α → α)
    (x : List (Option Nat)) (obs : List Bool) (reduce : String) : List (List α) :=
  @Gen.S4cltMessages α ⟨1⟩ ⟨(· * ·)⟩ (params cpt) (r : Int) (genBfsI tree r) tree lse mx [] 1 x obs reduce

/-- `message_passing(x, obs, return_lls=True, reduce)` of that object on one row, as generated: upward loop, then root step -/
def genValue (cpt : List (List (List α))) (tree : List Int) (r : Nat) (lse mx : List α → α)
    (x : List (Option Nat)) (obs : List Bool) (reduce : String) : Option α :=
  @Gen.S4cltRootValue α ⟨1⟩ ⟨(· * ·)⟩ (params cpt) (r : Int) (genBfsI tree r) tree lse mx 1 x obs
    (genMessages cpt tree r lse mx x obs reduce)

theorem replicate_zero_one (n : Nat) :
    List.replicate n [@OfNat.ofNat α 0 (@Zero.toOfNat0 α ⟨1⟩), @OfNat.ofNat α 0 (@Zero.toOfNat0 α ⟨1⟩)] =
      List.replicate n [(1 : α), 1] := rfl

theorem genBfsI_order (tree : List Int) (r : Nat) :
    ((genBfsI tree r).drop 1).reverse = ((genBfs tree r).tail.reverse).map (fun (a : Nat) => (a : Int)) := by
  unfold genBfsI
  rw [List.drop_one, List.map_reverse, List.map_tail]

/-- **the generated upward loop is the model's array pass in the order `reversed(bfs[1:])`** (`bfs` = the generated
order), whenever that list consists of non-root positions -/
theorem genMessages_eq_arrayPass (cpt : List (List (List α))) (tree : List Int) (r : Nat) (lse mx : List α → α)
    (x : List (Option Nat)) (obs : List Bool) (row : Nat → Option Nat) (reduce : String)
    (hred : (reduce = "mar" ∧ lse = redL) ∨ (reduce = "mpe" ∧ mx = redL))
    (hxl : x.length = tree.length)
    (hx : ∀ j, j < tree.length → x.getD j none = row j)
    (hobs : ∀ j, j < tree.length → obs.getD j false = (x.getD j none).isSome)
    (hbin : ∀ j, j < tree.length → ∀ o, row j = some o → o < 2)
    (hok : OrderOK tree tree.length (genBfs tree r).tail.reverse) :
    genMessages cpt tree r lse mx x obs reduce =
      ofPairs (GraphIo.arrayPass tree cpt row (genBfs tree r).tail.reverse) := by
  unfold genMessages
  rw [@Struct4.messages_as_coded α ⟨1⟩ ⟨(· * ·)⟩, genBfsI_order, hxl, replicate_zero_one, ← ofPairs_replicate]
  exact msgLoop_link cpt tree lse mx [] x obs row reduce hred hx hobs hbin _ hok _ (by simp)

/-- **… and the generated `message_passing(…, return_lls=True)` is the model's `passValue` in that order** -/
theorem genValue_eq_passValue (cpt : List (List (List α))) (tree : List Int) (r : Nat) (mx : List α → α)
    (x : List (Option Nat)) (obs : List Bool) (row : Nat → Option Nat) (reduce : String)
    (hred : (reduce = "mar") ∨ (reduce = "mpe" ∧ mx = redL))
    (hr : r < tree.length)
    (hxl : x.length = tree.length)
    (hx : ∀ j, j < tree.length → x.getD j none = row j)
    (hobs : ∀ j, j < tree.length → obs.getD j false = (x.getD j none).isSome)
    (hbin : ∀ j, j < tree.length → ∀ o, row j = some o → o < 2)
    (hok : OrderOK tree tree.length (genBfs tree r).tail.reverse) :
    genValue cpt tree r redL mx x obs reduce =
      some (GraphIo.passValue tree cpt row r (genBfs tree r).tail.reverse) := by
  unfold genValue
  rw [genMessages_eq_arrayPass cpt tree r redL mx x obs row reduce
    (by rcases hred with h | h; exact Or.inl ⟨h, rfl⟩; exact Or.inr h) hxl hx hobs hbin hok]
  exact rootValue_link cpt _ tree mx 1 x obs row _ r (hx r hr) (hobs r hr) (hbin r hr) (by rw [arrayPass_length]; exact hr)

end link

/-! ### C. the array pass commutes with maps that respect the operations -/

section rel
variable {α β : Type} [Zero α] [One α] [Add α] [Mul α] [Zero β] [One β] [Add β] [Mul β]

theorem sel_rel (φ : β → α) (m : β × β) (k : Nat) : GraphIo.sel (φ m.1, φ m.2) k = φ (GraphIo.sel m k) := by
  unfold GraphIo.sel; split <;> rfl

theorem outMsg_rel (φ : β → α) (h0 : φ 0 = 0) (hadd : ∀ a b, φ (a + b) = φ a + φ b)
    (hmul : ∀ a b, φ (a * b) = φ a * φ b) (cptB : List (List (List β))) (cptA : List (List (List α)))
    (hc : ∀ i l k, φ (cptAt cptB i l k) = cptAt cptA i l k) (row : Nat → Option Nat) (j : Nat) (m : β × β) (l : Nat) :
    GraphIo.outMsg cptA row j (φ m.1, φ m.2) l = φ (GraphIo.outMsg cptB row j m l) := by
  unfold GraphIo.outMsg
  cases row j with
  | some v => simp only [hmul, hc, sel_rel]
  | none => simp only [sumVar, List.range, List.range.loop, List.foldr, hadd, hmul, hc, h0, sel_rel]

theorem passStep_rel (φ : β → α) (h0 : φ 0 = 0) (h1 : φ 1 = 1) (hadd : ∀ a b, φ (a + b) = φ a + φ b)
    (hmul : ∀ a b, φ (a * b) = φ a * φ b) (tree : List Int) (cptB : List (List (List β))) (cptA : List (List (List α)))
    (hc : ∀ i l k, φ (cptAt cptB i l k) = cptAt cptA i l k) (row : Nat → Option Nat) (M : List (β × β)) (j : Nat) :
    GraphIo.passStep tree cptA row (M.map (fun m => (φ m.1, φ m.2))) j =
      (GraphIo.passStep tree cptB row M j).map (fun m => (φ m.1, φ m.2)) := by
  unfold GraphIo.passStep
  simp only [List.length_map]
  cases GraphIo.pyIndex M.length (tree.getD j (-1)) with
  | none => rfl
  | some p =>
    simp only
    have hg : (M.map (fun m => (φ m.1, φ m.2))).getD j (1, 1) = (φ (M.getD j (1, 1)).1, φ (M.getD j (1, 1)).2) := by
      rw [List.getD_eq_getElem?_getD, List.getD_eq_getElem?_getD, List.getElem?_map]
      cases M[j]? with
      | none => simp [h1]
      | some m => rfl
    rw [hg]
    apply List.ext_getElem?
    intro i
    simp only [List.getElem?_modify, List.getElem?_map]
    by_cases hpi : p = i
    · subst hpi
      cases M[p]? with
      | none => rfl
      | some t =>
        simp only [if_true, Option.map_some, Option.map_eq_map,
          outMsg_rel φ h0 hadd hmul cptB cptA hc, hmul]
    · simp only [hpi, if_false, id]
      cases M[i]? <;> rfl

theorem arrayPass_rel (φ : β → α) (h0 : φ 0 = 0) (h1 : φ 1 = 1) (hadd : ∀ a b, φ (a + b) = φ a + φ b)
    (hmul : ∀ a b, φ (a * b) = φ a * φ b) (tree : List Int) (cptB : List (List (List β))) (cptA : List (List (List α)))
    (hc : ∀ i l k, φ (cptAt cptB i l k) = cptAt cptA i l k) (row : Nat → Option Nat) (order : List Nat) :
    GraphIo.arrayPass tree cptA row order = (GraphIo.arrayPass tree cptB row order).map (fun m => (φ m.1, φ m.2)) := by
  unfold GraphIo.arrayPass
  have : ∀ (order : List Nat) (M : List (β × β)),
      order.foldl (GraphIo.passStep tree cptA row) (M.map (fun m => (φ m.1, φ m.2))) =
        (order.foldl (GraphIo.passStep tree cptB row) M).map (fun m => (φ m.1, φ m.2)) := by
    intro order
    induction order with
    | nil => intro M; rfl
    | cons j rest ih =>
      intro M
      rw [List.foldl_cons, List.foldl_cons, passStep_rel φ h0 h1 hadd hmul tree cptB cptA hc, ih]
  rw [← this]
  simp [h1]

end rel

/-! ### D. the sub-trees of the unfolded predecessor vector -/

section tree
variable {tree : List Int} {r : Nat}

theorem build_idx (tree : List Int) (f c : Nat) : (build tree f c).idx = c := by
  obtain ⟨cs, hcs⟩ := build_node tree f c
  rw [hcs]; rfl

/-- every sub-tree of `build tree n c` is `build tree n j` for its own index `j < n` -/
theorem subtree_of_build (h : GraphIo.WF tree r) :
    ∀ (k c : Nat), c < tree.length → tree.length - GraphIo.depthOf tree c ≤ k →
      ∀ u ∈ (build tree tree.length c).subtrees, u = build tree tree.length u.idx ∧ u.idx < tree.length := by
  intro k
  induction k with
  | zero =>
    intro c hc hk u hu
    rw [h.build_unfold c] at hu
    rcases (subtrees_node _ _ _).1 hu with rfl | ⟨ch, hch, hu'⟩
    · exact ⟨by simp only [RTree.idx]; exact (h.build_unfold c).symm, hc⟩
    · obtain ⟨d, hd, rfl⟩ := List.mem_map.1 hch
      obtain ⟨hdl, hdp⟩ := h.mem_children.1 hd
      have h1 := h.depth_child hdl hdp
      have h2 := h.depth_le hdl
      omega
  | succ k ih =>
    intro c hc hk u hu
    rw [h.build_unfold c] at hu
    rcases (subtrees_node _ _ _).1 hu with rfl | ⟨ch, hch, hu'⟩
    · exact ⟨by simp only [RTree.idx]; exact (h.build_unfold c).symm, hc⟩
    · obtain ⟨d, hd, rfl⟩ := List.mem_map.1 hch
      obtain ⟨hdl, hdp⟩ := h.mem_children.1 hd
      have h1 := h.depth_child hdl hdp
      exact ih d hdl (by omega) u hu'

/-- a node of the unfolded tree carries the unfolded children of its index -/
theorem node_of_build (h : GraphIo.WF tree r) {j : Nat} {cs : List RTree}
    (hm : RTree.node j cs ∈ (build tree tree.length r).subtrees) :
    j < tree.length ∧ cs = (childrenOf tree j).map (build tree tree.length) := by
  obtain ⟨hu, hlt⟩ := subtree_of_build h _ r h.r_lt (Nat.le_refl _) _ hm
  simp only [RTree.idx] at hu hlt
  rw [h.build_unfold j] at hu
  injection hu with _ hcs
  exact ⟨hlt, hcs⟩

/-- the parent relation of the unfolded tree is the predecessor vector -/
theorem isChild_build (h : GraphIo.WF tree r) {p j : Nat}
    (hch : Struct4.IsChild (build tree tree.length r) p j) : j ∈ childrenOf tree p := by
  obtain ⟨cs, hm, c, hc, hidx⟩ := hch
  obtain ⟨_, hcs⟩ := node_of_build h hm
  subst hcs
  obtain ⟨d, hd, rfl⟩ := List.mem_map.1 hc
  rw [build_idx] at hidx
  subst hidx
  exact hd

theorem vars_build_perm_range (h : GraphIo.WF tree r) :
    (build tree tree.length r).vars.Perm (List.range tree.length) := by
  obtain ⟨r', hr', hperm⟩ := isTree_perm h.isTree
  have : r' = r := by
    have h1 := h.root
    rw [GraphIo.rootIdx_eq_rootOf, hr'] at h1
    exact Option.some.inj h1
  subst this
  exact hperm

theorem idxOf_append_self_le (j : Nat) (B : List Nat) : ∀ (P : List Nat), (P ++ j :: B).idxOf j ≤ P.length
  | [] => by simp
  | a :: P => by
    have := idxOf_append_self_le j B P
    simp only [List.cons_append, List.idxOf_cons, List.length_cons]
    cases (a == j) <;> simp only [cond_false, cond_true] <;> omega

theorem le_idxOf_append_of_notMem (p : Nat) (Q : List Nat) : ∀ (P : List Nat), p ∉ P → P.length ≤ (P ++ Q).idxOf p
  | [], _ => by simp
  | a :: P, hp => by
    have hpa : a ≠ p := fun h => hp (by simp [h])
    have := le_idxOf_append_of_notMem p Q P (fun h => hp (List.mem_cons_of_mem _ h))
    simp only [List.cons_append, List.idxOf_cons, List.length_cons]
    have hb : (a == p) = false := by simpa using hpa
    rw [hb]
    simp only [cond_false]
    omega

end tree

/-! ### E. the decoding loop: the bundle `LoopOK` for the generated order and messages -/

section maxprod
variable {α : Type} [CommSemiring α] [LinearOrder α] [IsStrictOrderedRing α]
variable {tree : List Int} {r : Nat}

theorem sumL_eq_redL {β : Type} [CommSemiring β] : (Struct4.sumL : List β → β) = redL := rfl
theorem maxL_eq_redL : (Struct4.maxL : List α → α) = @redL α _ ⟨max⟩ := rfl
theorem paramsOf_eq (cpt : List (List (List α))) : Struct4.paramsOf cpt = params cpt := rfl

/-- every local index of the tree receives a decision, and only those do -/
theorem dec_iff_vars (scope : List Nat) (cpt : List (List (List α))) (e : Ev) : (t : RTree) → (l j : Nat) →
    ((∃ o, Struct4.Dec scope cpt e t l j o) ↔ j ∈ t.vars)
  | .node i cs, l, j => by
    simp only [Struct4.dec_node, RTree.vars, List.mem_cons, List.mem_flatten, List.mem_map]
    constructor
    · rintro ⟨o, (⟨hj, _⟩ | ⟨c, hc, hd⟩)⟩
      · exact Or.inl hj
      · exact Or.inr ⟨c.vars, ⟨c, hc, rfl⟩, (dec_iff_vars scope cpt e c _ j).1 ⟨o, hd⟩⟩
    · rintro (hj | ⟨_, ⟨c, hc, rfl⟩, hm⟩)
      · exact ⟨_, Or.inl ⟨hj, rfl⟩⟩
      · obtain ⟨o, ho⟩ := (dec_iff_vars scope cpt e c (chosen scope cpt i cs l e) j).2 hm
        exact ⟨o, Or.inr ⟨c, hc, ho⟩⟩

/-- **the slots of the generated max-product pass** (`reduce='mpe'`, `np.max ↦ Struct4.maxL`): entry `j` of the array
the generated loop returns holds, for both values of `j`, the product of the max-product messages of the children of `j`.
Route: `genMessages_eq_arrayPass` at the carrier `α` with `+ := max`, `arrayPass_rel` (from the max-times carrier),
`GraphIo.arrayPass_max_slots`.  The order hypotheses are those `e2e_bfs` provides. -/
theorem genMessages_mpe_slots (hwf : GraphIo.WellFormedPred tree) (hr : GraphIo.rootIdx tree = some r)
    (scope : List Nat) (cpt : List (List (List α))) (hc : ∀ i l k, 0 ≤ cptAt cpt i l k) (e : Ev) (lse : List α → α)
    (hbin : ∀ j, j < tree.length → ∀ o, e (scope.getD j 0) = some o → o < 2)
    (hperm : (genBfs tree r).tail.reverse.Perm ((List.range tree.length).erase r))
    (hcf : GraphIo.childFirst tree (genBfs tree r).tail.reverse = true)
    (hok : OrderOK tree tree.length (genBfs tree r).tail.reverse)
    (j : Nat) (hj : j < tree.length) :
    (genMessages cpt tree r lse Struct4.maxL (rowList scope tree.length e)
        ((rowList scope tree.length e).map (fun o => !o.isNone)) "mpe").getD j [] =
      [lprod ((childrenOf tree j).map (fun d => upMax scope cpt (build tree tree.length d) 0 e)),
       lprod ((childrenOf tree j).map (fun d => upMax scope cpt (build tree tree.length d) 1 e))] := by
  have hlink : genMessages cpt tree r lse Struct4.maxL (rowList scope tree.length e)
        ((rowList scope tree.length e).map (fun o => !o.isNone)) "mpe" =
      ofPairs (@GraphIo.arrayPass α _ _ ⟨max⟩ _ tree cpt (GraphIo.rowOf scope e) (genBfs tree r).tail.reverse) :=
    @genMessages_eq_arrayPass α _ _ ⟨max⟩ _ cpt tree r lse Struct4.maxL _ _ (GraphIo.rowOf scope e) "mpe"
      (Or.inr ⟨rfl, rfl⟩) (rowList_length _ _ _) (fun j hj => rowList_getD scope _ e j hj) (fun j _ => obs_getD _ j)
      hbin hok
  have hrel := @arrayPass_rel α (MaxTimes α) _ _ ⟨max⟩ _ _ _ _ _ MaxTimes.val rfl rfl (fun a b => rfl) (fun a b => rfl)
    tree (liftCpt cpt) cpt (val_cptAt_lift cpt hc) (GraphIo.rowOf scope e) (genBfs tree r).tail.reverse
  rw [hlink, hrel]
  have hlen : j < (GraphIo.arrayPass tree (liftCpt cpt) (GraphIo.rowOf scope e) (genBfs tree r).tail.reverse).length := by
    rw [arrayPass_length]; exact hj
  have hval : ∀ k, k < 2 →
      (GraphIo.sel ((GraphIo.arrayPass tree (liftCpt cpt) (GraphIo.rowOf scope e) (genBfs tree r).tail.reverse).getD j (1, 1)) k).val =
        lprod ((childrenOf tree j).map (fun d => upMax scope cpt (build tree tree.length d) k e)) := by
    intro k hk
    rw [GraphIo.arrayPass_max_slots tree hwf scope cpt hc e _ r hr hperm hcf j hj k hk,
      lprod_rel MaxTimes.val rfl (fun a b => rfl), List.map_map]
    congr 1
    apply List.map_congr_left
    intro d _
    exact MaxTimes.val_ofVal (upMax_nonneg scope cpt hc _ k e)
  simp only [ofPairs, List.map_map, List.getD_eq_getElem?_getD, List.getElem?_map, List.getElem?_eq_getElem hlen,
    Option.map_some, Option.getD_some, Function.comp]
  have h0 := hval 0 (by omega)
  have h1 := hval 1 (by omega)
  simp only [List.getD_eq_getElem?_getD, List.getElem?_eq_getElem hlen, Option.getD_some, sel_zero, sel_one] at h0 h1
  rw [h0, h1]

/-- the messages function `mpe` receives from the generated `message_passing(…, return_lls=False, reduce)` -/
def genMp (cpt : List (List (List α))) (tree : List Int) (r : Nat) (lse mx : List α → α) :
    List (Option Nat) → List Bool → Bool → String → Int → List α :=
  fun x obs _ reduce i => Gen.Py4.getI (genMessages cpt tree r lse mx x obs reduce) i []

/-- **`LoopOK` discharged**: for a well-formed vector, the unfolded tree, the row of the evidence `e`, messages that hold the
max-product slots, and an order `r :: L` that is a permutation of the positions in which every position comes after its
parent (what `e2e_bfs` states about the generated order), the hypothesis bundle of `Struct4.mpe_loop_is_decode` holds -/
theorem loopOK_of_order (h : GraphIo.WF tree r) (scope : List Nat) (cpt : List (List (List α))) (e : Ev)
    (msgs : Int → List α) (L : List Nat)
    (hmsgs : ∀ j, j < tree.length → msgs (j : Int) =
      [lprod ((childrenOf tree j).map (fun d => upMax scope cpt (build tree tree.length d) 0 e)),
       lprod ((childrenOf tree j).map (fun d => upMax scope cpt (build tree tree.length d) 1 e))])
    (hperm : (r :: L).Perm (List.range tree.length))
    (hpf : ∀ i p, i < tree.length → CltFit.parent tree i = some p → (r :: L).idxOf p < (r :: L).idxOf i) :
    Struct4.LoopOK scope cpt e (build tree tree.length r) tree msgs (rowList scope tree.length e) L where
  ev := by
    intro j hj
    rw [rowList_length] at hj
    rw [rowList_getD scope _ e j hj]; rfl
  par := by
    intro p j hch
    have hm := isChild_build h hch
    obtain ⟨hjl, hje⟩ := GraphIo.mem_childrenOf_iff.1 hm
    rw [Struct4.getI_natCast, CltFit.getD_irrel tree hjl 0 (-1)]
    exact hje
  msgs := by
    intro j cs hm
    obtain ⟨hjl, hcs⟩ := node_of_build h hm
    rw [hmsgs j hjl, hcs]
    simp only [msgMax, List.map_map]
    rfl
  root := by
    intro p hch
    rw [build_idx] at hch
    have hm := isChild_build h hch
    have := (GraphIo.mem_childrenOf_iff.1 hm).2
    rw [h.root_entry] at this
    omega
  nodup := by
    have := hperm.nodup_iff.2 List.nodup_range
    exact (List.nodup_cons.1 this).2
  rootOut := by
    rw [build_idx]
    have := hperm.nodup_iff.2 List.nodup_range
    exact (List.nodup_cons.1 this).1
  parentFirst := by
    intro A j B hL p hch
    rw [build_idx]
    have hm := isChild_build h hch
    obtain ⟨hjl, hjp⟩ := h.mem_children.1 hm
    have hlt := hpf j p hjl hjp
    by_contra hcon
    have hnot : p ∉ r :: A := by
      intro hmem
      rcases List.mem_cons.1 hmem with hh | hh
      · exact hcon (Or.inl hh)
      · exact hcon (Or.inr hh)
    have e1 : r :: L = (r :: A) ++ j :: B := by rw [hL]; rfl
    rw [e1] at hlt
    have h1 := idxOf_append_self_le j B (r :: A)
    have h2 := le_idxOf_append_of_notMem p (j :: B) (r :: A) hnot
    omega
  bound := by
    intro j hj
    rw [build_idx] at hj
    rw [rowList_length]
    have : j ∈ r :: L := by
      rcases hj with hj | hj
      · rw [hj]; exact List.mem_cons_self
      · exact List.mem_cons_of_mem _ hj
    exact List.mem_range.1 (hperm.mem_iff.1 this)

/-- the index-injectivity hypothesis of `mpe_loop_is_decode`, from a scope without duplicates -/
theorem dec_inj (h : GraphIo.WF tree r) (scope : List Nat) (cpt : List (List (List α))) (e : Ev)
    (hlen : scope.length = tree.length) (hnd : scope.Nodup) :
    ∀ i j o o', Struct4.Dec scope cpt e (build tree tree.length r) 0 i o →
      Struct4.Dec scope cpt e (build tree tree.length r) 0 j o' → scope.getD i 0 = scope.getD j 0 → i = j := by
  intro i j o o' hi hj heq
  have hp := vars_build_perm_range h
  have hil : i < scope.length := by
    rw [hlen]; exact List.mem_range.1 (hp.mem_iff.1 ((dec_iff_vars scope cpt e _ 0 i).1 ⟨o, hi⟩))
  have hjl : j < scope.length := by
    rw [hlen]; exact List.mem_range.1 (hp.mem_iff.1 ((dec_iff_vars scope cpt e _ 0 j).1 ⟨o', hj⟩))
  have := getD_idxOf_nodup scope hnd i hil
  rw [heq, getD_idxOf_nodup scope hnd j hjl] at this
  exact this.symm

/-- `BinaryCLT.mpe` of the object built from `tree` on ONE row, as generated: the extracted decoding loop, fed with the
messages of the generated `message_passing` and the generated breadth-first order -/
def genMpe (cpt : List (List (List α))) (tree : List Int) (r : Nat) (lse mx : List α → α) (x : List (Option Nat)) :
    List (Option Nat) :=
  @Gen.S4cltMpe α ⟨(· * ·)⟩ _ _ (params cpt) (r : Int) (genBfsI tree r) tree (genMp cpt tree r lse mx) x

/-- **the generated `mpe` is the model's decoding pass**: `LoopOK` discharged from the order facts of `e2e_bfs` and the
slots of the generated max-product pass, then `Struct4.mpe_loop_is_dec` / `mpe_loop_is_decode` -/
theorem genMpe_is_decode (hwf : GraphIo.WellFormedPred tree) (h : GraphIo.WF tree r)
    (scope : List Nat) (cpt : List (List (List α))) (hc : ∀ i l k, 0 ≤ cptAt cpt i l k)
    (hlen : scope.length = tree.length) (hnd : scope.Nodup) (e : Ev) (lse : List α → α)
    (hbin : ∀ j, j < tree.length → ∀ o, e (scope.getD j 0) = some o → o < 2)
    (hperm : (genBfs tree r).Perm (List.range tree.length)) (hhead : (genBfs tree r).head? = some r)
    (hpf : ∀ i p, i < tree.length → CltFit.parent tree i = some p → (genBfs tree r).idxOf p < (genBfs tree r).idxOf i)
    (hperm2 : (genBfs tree r).tail.reverse.Perm ((List.range tree.length).erase r))
    (hcf : GraphIo.childFirst tree (genBfs tree r).tail.reverse = true)
    (hok : OrderOK tree tree.length (genBfs tree r).tail.reverse) :
    (genMpe cpt tree r lse Struct4.maxL (rowList scope tree.length e)).length = tree.length ∧
    ∀ j, j < tree.length →
      (genMpe cpt tree r lse Struct4.maxL (rowList scope tree.length e)).getD j none =
        decode scope cpt (build tree tree.length r) 0 e (scope.getD j 0) := by
  obtain ⟨L, hL⟩ : ∃ L, genBfs tree r = r :: L := by
    cases hg : genBfs tree r with
    | nil => rw [hg] at hhead; simp at hhead
    | cons a L => rw [hg] at hhead; simp at hhead; subst hhead; exact ⟨L, rfl⟩
  have hmsgs : ∀ j, j < tree.length →
      genMp cpt tree r lse Struct4.maxL (rowList scope tree.length e)
          ((rowList scope tree.length e).map (fun o => !o.isNone)) false "mpe" (j : Int) =
        [lprod ((childrenOf tree j).map (fun d => upMax scope cpt (build tree tree.length d) 0 e)),
         lprod ((childrenOf tree j).map (fun d => upMax scope cpt (build tree tree.length d) 1 e))] := by
    intro j hj
    unfold genMp
    rw [Struct4.getI_natCast]
    exact genMessages_mpe_slots hwf h.root scope cpt hc e lse hbin hperm2 hcf hok j hj
  have ok := loopOK_of_order h scope cpt e _ L hmsgs (hL ▸ hperm) (hL ▸ hpf)
  have heq : @Gen.S4cltMpe α ⟨(· * ·)⟩ _ _ (Struct4.paramsOf cpt) ((build tree tree.length r).idx : Int)
        (((build tree tree.length r).idx :: L).map (fun (a : Nat) => (a : Int))) tree
        (genMp cpt tree r lse Struct4.maxL) (rowList scope tree.length e) =
      genMpe cpt tree r lse Struct4.maxL (rowList scope tree.length e) := by
    unfold genMpe genBfsI
    rw [hL, build_idx]
    rfl
  have inv := Struct4.mpe_loop_is_dec scope cpt e _ tree (genMp cpt tree r lse Struct4.maxL) _ L ok
  rw [heq] at inv
  refine ⟨by rw [inv.len, rowList_length], fun j hj => ?_⟩
  have hjv : j ∈ (build tree tree.length r).vars :=
    (vars_build_perm_range h).mem_iff.2 (List.mem_range.2 hj)
  obtain ⟨o, ho⟩ := (dec_iff_vars scope cpt e _ 0 j).2 hjv
  have hjL : j = (build tree tree.length r).idx ∨ j ∈ L := by
    rw [build_idx]
    have : j ∈ r :: L := hL ▸ hperm.mem_iff.2 (List.mem_range.2 hj)
    exact List.mem_cons.1 this
  have := Struct4.mpe_loop_is_decode scope cpt e _ tree (genMp cpt tree r lse Struct4.maxL) _ L ok
    (dec_inj h scope cpt e hlen hnd) j o hjL ho
  rw [heq] at this
  exact this

end maxprod

/-! ### F. orders, values, the vectorised path, `to_pc` -/

section misc
variable {α : Type} [CommSemiring α]
variable {tree : List Int} {r : Nat}

/-- a permutation of the non-root positions consists of positions whose entry of `self.tree` is an index -/
theorem orderOK_of_perm (h : GraphIo.WF tree r) (order : List Nat)
    (hperm : order.Perm ((List.range tree.length).erase r)) : OrderOK tree tree.length order := by
  intro j hj
  have := hperm.mem_iff.1 hj
  rw [List.Nodup.mem_erase_iff List.nodup_range, List.mem_range] at this
  obtain ⟨p, _, _, hpl, hpe⟩ := h.parent_ne this.2 this.1
  exact ⟨this.2, p, hpl, hpe⟩

theorem lab_perm_scope (h : GraphIo.WF tree r) (scope : List Nat) (hlen : scope.length = tree.length) :
    (lab scope (build tree tree.length r)).Perm scope :=
  lab_build_perm scope hlen (vars_build_perm_range h)

/-- the value of the tree looks only at the variables of the scope -/
theorem value_congr (h : GraphIo.WF tree r) (scope : List Nat) (hlen : scope.length = tree.length)
    (cpt : List (List (List α))) (a b : Ev) (hab : ∀ v ∈ scope, a v = b v) :
    value scope tree cpt a = value scope tree cpt b := by
  have hr : rootOf tree = some r := by rw [← GraphIo.rootIdx_eq_rootOf]; exact h.root
  rw [value_eq_up scope tree cpt hr, value_eq_up scope tree cpt hr]
  exact up_congr scope cpt _ 0 a b (fun v hv => hab v ((lab_perm_scope h scope hlen).mem_iff.1 hv))

theorem getD_mem_scope (scope : List Nat) (j : Nat) (hj : j < scope.length) : scope.getD j 0 ∈ scope := by
  rw [List.getD_eq_getElem?_getD, List.getElem?_eq_getElem hj]; exact List.getElem_mem hj

theorem getD_idxOf_mem (scope : List Nat) (v : Nat) (hv : v ∈ scope) : scope.getD (scope.idxOf v) 0 = v := by
  have hlt := List.idxOf_lt_length_iff.2 hv
  rw [List.getD_eq_getElem?_getD, List.getElem?_eq_getElem hlt]
  simp

/-- `self.message_passing` as `BinaryCLT.log_likelihood` calls it (a value per row): the generated upward loop and root
step; `none` (an entry of `np.empty` never written) is read as `0` — the theorems show it does not occur -/
def genMessagePassing {α : Type} [Zero α] [One α] [Add α] [Mul α] (cpt : List (List (List α))) (tree : List Int) (r : Nat)
    (lse mx : List α → α) : List (Option Nat) → List Bool → Bool → String → α :=
  fun x obs _ reduce => (genValue cpt tree r lse mx x obs reduce).getD 0

/-- `BinaryCLT.log_likelihood` of the object built from `tree` on ONE row, as generated (linear-domain reading) -/
def genLogLikelihood {α : Type} [Zero α] [One α] [Add α] [Mul α] (cpt : List (List (List α))) (tree : List Int) (r : Nat)
    (lse mx : List α → α) (batchAny : Bool) (nRows : Nat) (x : List (Option Nat)) : Option α :=
  @Gen.S4cltLogLikelihood α ⟨1⟩ ⟨(· * ·)⟩ (params cpt) tree (genMessagePassing cpt tree r lse mx) batchAny nRows x

/-- a row without missing entries is the complete row of the assignment it holds -/
theorem rowList_complete (scope : List Nat) (n : Nat) (e : Ev)
    (hno : (rowList scope n e).any Option.isNone = false) :
    rowList scope n e = Struct4.rowOf scope n (fun v => (e v).getD 0) ∧ ∀ j, j < n → e (scope.getD j 0) ≠ none := by
  have hall : ∀ j, j < n → e (scope.getD j 0) ≠ none := by
    intro j hj hnone
    have : (rowList scope n e).any Option.isNone = true := by
      rw [List.any_eq_true]
      exact ⟨e (scope.getD j 0), List.mem_map.2 ⟨j, List.mem_range.2 hj, rfl⟩, by rw [hnone]; rfl⟩
    rw [hno] at this; cases this
  refine ⟨?_, hall⟩
  unfold rowList Struct4.rowOf
  apply List.map_congr_left
  intro j hj
  have := hall j (List.mem_range.1 hj)
  cases he : e (scope.getD j 0) with
  | none => exact absurd he this
  | some o => simp only [he, Option.getD_some]

/-- what `to_pc` returns, as far as the generated constants determine it: the hand-written unfolding `Clt.pc` of the
post-order stack, applied to the table row(s) of the buffer the extracted `return` statement reads
(`Gen.toPcReturnBuffer`, `Gen.toPcBufferRows`) -/
def genToPc {α : Type} [Zero α] [One α] [Add α] [Mul α] (scope : List Nat) (tree : List Int) (cpt : List (List (List α)))
    (r : Nat) : List (Circ α) :=
  ((Gen.toPcBufferRows.filter (fun b => b.1 == Gen.toPcReturnBuffer)).map (fun b => b.2.2.2.toNat)).map
    (fun row => pc scope cpt (build tree tree.length r) row)

end misc

end Deeprob.E2EClt
