import DeeprobModel.Lemmas.RatSampleCirc
import DeeprobModel.Lemmas.PmfLemmas
set_option linter.unusedSimpArgs false
set_option linter.unusedVariables false
set_option linter.unusedSectionVars false
/-
C16 (sampling clause), part 2: the layer-wise pmf transformer `pmfDown` (joint independent draws of a
whole row of `idx_offset` per sum layer) factorises over the selected nodes, hence equals the node-wise
recursion on the unrolled circuit (`topDownPmf` for the conditional law, `eval` for the weights-only law
of `RatSpn.sample`).
-/
namespace Deeprob
namespace RatSample
open RatSpn TCirc Tensor

/-! ### finite sums -/
section sums
variable {α : Type} [CommSemiring α]

theorem sumVar_succ (n : Nat) (g : Nat → α) : sumVar (n + 1) g = g 0 + sumVar n (fun i => g (i + 1)) := by
  unfold sumVar
  rw [List.range_succ_eq_map, List.foldr_cons, List.foldr_map]

theorem sumVar_congr_lt : ∀ (n : Nat) (f g : Nat → α), (∀ k, k < n → f k = g k) → sumVar n f = sumVar n g
  | 0, _, _, _ => rfl
  | n + 1, f, g, h => by
      rw [sumVar_succ, sumVar_succ, h 0 (by omega)]
      congr 1
      exact sumVar_congr_lt n _ _ (fun k hk => h (k + 1) (by omega))

theorem sumVar_mul_right (n : Nat) (a : α) (f : Nat → α) : sumVar n (fun k => f k * a) = sumVar n f * a := by
  rw [mul_comm, ← sumVar_mul]
  apply sumVar_congr; intro k; ring

/-- `Σᵢ pᵢ·xᵢ` over a list is the indexed sum (stops at the shorter list: `getD` pads with 0) -/
theorem wsum_getD : ∀ (xs p : List α), wsum p xs = sumVar xs.length (fun i => p.getD i 0 * xs.getD i 0)
  | [], p => by cases p <;> simp [wsum, sumVar]
  | x :: xs, [] => by
      simp only [wsum, List.getD_nil, zero_mul]
      exact (sumVar_zero _).symm
  | x :: xs, a :: p => by
      rw [List.length_cons, sumVar_succ]
      simp only [wsum, List.getD_cons_zero, List.getD_cons_succ]
      rw [wsum_getD xs p]

theorem wsum_range (p : List α) (m : Nat) (f : Nat → α) :
    wsum p ((List.range m).map f) = sumVar m (fun i => p.getD i 0 * f i) := by
  rw [wsum_getD]
  simp only [List.length_map, List.length_range]
  apply sumVar_congr_lt
  intro k hk
  simp [List.getD_eq_getElem?_getD, hk]

end sums

/-! ### the flattened view of a table -/
section flat

theorem grid_getElem? {β : Type} (f : Nat → Nat → β) (N : Nat) : ∀ (G idx : Nat), idx < G * N →
    ((List.range G).flatMap (fun g => (List.range N).map (fun t => f g t)))[idx]? = some (f (idx / N) (idx % N))
  | 0, idx, h => by simp at h
  | G + 1, idx, h => by
      rw [List.range_succ, List.flatMap_append]
      simp only [List.flatMap_cons, List.flatMap_nil, List.append_nil]
      have hl := flatMap_range_length (fun g => (List.range N).map (fun t => f g t)) N (by simp) G
      by_cases hlt : idx < G * N
      · rw [List.getElem?_append_left (by rw [hl]; exact hlt)]
        exact grid_getElem? f N G idx hlt
      · have hsm : (G + 1) * N = G * N + N := by rw [Nat.add_mul, Nat.one_mul]
        have hr : idx - G * N < N := by omega
        have hN : 0 < N := by omega
        rw [List.getElem?_append_right (by rw [hl]; omega), hl]
        have e : idx = N * G + (idx - G * N) := by rw [Nat.mul_comm]; omega
        have hd : idx / N = G := by
          rw [e, Nat.mul_add_div hN, Nat.div_eq_of_lt hr]; rfl
        have hm : idx % N = idx - G * N := by
          conv => lhs; rw [e]
          rw [Nat.mul_add_mod, Nat.mod_eq_of_lt hr]
        rw [hd, hm]
        simp [List.getElem?_map, hr]

theorem flat_length {β : Type} (V : Tab β) : (flat V).length = V.groups * V.nodes :=
  flatMap_range_length _ _ (fun g => by simp) _

theorem flat_getElem? {β : Type} (V : Tab β) (idx : Nat) (h : idx < V.groups * V.nodes) :
    (flat V)[idx]? = some (V.at_ (idx / V.nodes) (idx % V.nodes)) :=
  grid_getElem? V.at_ V.nodes V.groups idx h

theorem wsum_flat {α : Type} [CommSemiring α] (p : List α) (T : Tab (TCirc α)) (P : TCirc α → α) :
    wsum p ((flat T).map P) =
      sumVar (T.groups * T.nodes) (fun idx => p.getD idx 0 * P (T.at_ (idx / T.nodes) (idx % T.nodes))) := by
  rw [wsum_getD]
  simp only [List.length_map, flat_length]
  apply sumVar_congr_lt
  intro k hk
  simp [List.getD_eq_getElem?_getD, List.getElem?_map, flat_getElem? T k hk]

end flat

/-! ### independent draws factorise -/
section expect
variable {α : Type} [Field α]

theorem expect_mul (m : Nat) (a : α) : ∀ (ps : List (List α)) (f : List Nat → α),
    expect m ps (fun is => a * f is) = a * expect m ps f
  | [], f => rfl
  | p :: ps, f => by
      simp only [expect]
      rw [← sumVar_mul]
      apply sumVar_congr
      intro i
      rw [expect_mul m a ps]
      ring

/-- the expectation of a product of per-position factors under independent draws is the product of the
per-position expectations -/
theorem expect_factor (m : Nat) (law : Nat → Nat → List α) (q : Nat → Nat → α) : ∀ (gs os : List Nat),
    expect m (List.zipWith law gs os) (fun is => lprod ((gs.zip is).map (fun p => q p.1 p.2)))
      = lprod ((gs.zip os).map (fun p => sumVar m (fun i => (law p.1 p.2).getD i 0 * q p.1 i)))
  | [], os => by simp [expect, lprod]
  | g :: gs, [] => by simp [expect, lprod]
  | g :: gs, o :: os => by
      simp only [List.zipWith_cons_cons, expect, List.zip_cons_cons, List.map_cons, lprod]
      have h : ∀ i, (law g o).getD i 0 * expect m (List.zipWith law gs os)
            (fun is => q g i * lprod ((gs.zip is).map (fun p => q p.1 p.2)))
          = ((law g o).getD i 0 * q g i) *
            lprod ((gs.zip os).map (fun p => sumVar m (fun i => (law p.1 p.2).getD i 0 * q p.1 i))) := by
        intro i
        rw [expect_mul, expect_factor m law q gs os]
        ring
      rw [sumVar_congr _ _ _ h, sumVar_mul_right]

end expect

/-! ### the layer-wise pass factorises over the selected nodes -/
section down
variable {α : Type} [Field α] [LT α] [DecidableLT α]

/-- product of a node functional over the nodes selected by an index pair -/
def prodOver (P : TCirc α → α) (T : Tab (TCirc α)) (io : Idx) : α :=
  lprod ((io.1.zip io.2).map (fun go => P (T.at_ go.1 go.2)))

theorem prodOver_prodT (P : TCirc α → α) (T : Tab (TCirc α))
    (hP : ∀ j t, P ((prodT T).at_ j t) = P (T.at_ (2 * j) (t / T.nodes)) * P (T.at_ (2 * j + 1) (t % T.nodes))) :
    ∀ (gs os : List Nat), prodOver P (prodT T) (gs, os) = prodOver P T (prodDownI T.nodes (gs, os))
  | [], os => by simp [prodOver, prodDownI, prodDown]
  | g :: gs, [] => by simp [prodOver, prodDownI, prodDown]
  | g :: gs, o :: os => by
      have ih := prodOver_prodT P T hP gs os
      simp only [prodOver, prodDownI, prodDown, List.zip_cons_cons, List.map_cons, lprod, List.flatMap_cons,
        List.cons_append, List.nil_append] at ih ⊢
      rw [hP, ih, mul_assoc]

theorem sumStep_factor (P : TCirc α → α) (T : Tab (TCirc α)) (w : Nat → Nat → List α) (out m : Nat)
    (law : Nat → Nat → List α)
    (hP : ∀ g o, P ((sumT w out T).at_ g o) = sumVar m (fun i => (law g o).getD i 0 * P (T.at_ g i)))
    (κ : Idx → α) (hκ : ∀ io, κ io = prodOver P T io) (io : Idx) :
    sumStep law m κ io = prodOver P (sumT w out T) io := by
  unfold sumStep
  have h1 : (fun os' => κ (io.1, os')) = fun is => lprod ((io.1.zip is).map (fun p => P (T.at_ p.1 p.2))) := by
    funext os'; rw [hκ]; rfl
  rw [h1, expect_factor m law (fun g i => P (T.at_ g i)) io.1 io.2]
  unfold prodOver
  congr 1
  apply List.map_congr_left
  intro p _
  exact (hP p.1 p.2).symm

/-- **simulation of the top-down loop**: if the node functional `P` satisfies the product rule and, at
every sum layer, the mixture rule for the branch law `law`, the pmf transformer started with index pair
`io` at the top of the inner layers yields the product of `P` over the selected top nodes. -/
theorem pmfDown_factor (P : TCirc α → α) (e : Ev) (law : Nat → Tab α → Nat → Nat → List α)
    (w : Nat → Nat → Nat → List α) (rgSum : Nat)
    (hprod : ∀ (T : Tab (TCirc α)) j t,
      P ((prodT T).at_ j t) = P (T.at_ (2 * j) (t / T.nodes)) * P (T.at_ (2 * j + 1) (t % T.nodes)))
    (hsum : ∀ (l : Nat) (T : Tab (TCirc α)) (V : Tab α), Aligned e T V → ∀ g o,
      P ((sumT (w l) rgSum T).at_ g o) = sumVar V.nodes (fun i => (law l V g o).getD i 0 * P (T.at_ g i))) :
    ∀ (k l : Nat) (T : Tab (TCirc α)) (V : Tab α), Aligned e T V →
      ∀ (κ : Idx → α), (∀ io, κ io = prodOver P T io) →
      ∀ io, pmfDown law w rgSum k l V κ io = prodOver P (innerT w rgSum k l T) io
  | 0, _, T, V, _, κ, hκ, io => by simp only [pmfDown, innerT]; exact hκ io
  | 1, _, T, V, hA, κ, hκ, io => by
      simp only [pmfDown, innerT]
      rw [hκ, ← hA.2.1]
      exact (prodOver_prodT P T (hprod T) io.1 io.2).symm
  | k + 2, l, T, V, hA, κ, hκ, io => by
      simp only [pmfDown, innerT]
      have hA1 := aligned_prod hA
      have hA2 := aligned_sum (w l) rgSum hA1
      apply pmfDown_factor P e law w rgSum hprod hsum (k + 1) (l + 1) _ _ hA2
      intro io'
      apply sumStep_factor P (prodT T) (w l) rgSum (prodVal V).nodes (law l (prodVal V)) (hsum l _ _ hA1)
      intro io''
      rw [hκ, ← hA.2.1]
      exact (prodOver_prodT P T (hprod T) io''.1 io''.2).symm

end down

/-! ### the two laws -/
section laws
variable {α : Type} [Field α] [LinearOrder α] [IsStrictOrderedRing α]

theorem topDownPmf_dummyT (e x : Ev) : topDownPmf e x (dummyT : TCirc α) = 1 := by
  simp [dummyT, topDownPmf]

theorem topDownPmf_bernT (e x : Ev) (v : Nat) (tbl : List α) : topDownPmf e x (bernT v tbl) = catCond v tbl e x := by
  simp [bernT, topDownPmf]

theorem basePmf_eq_topDown (S : Spec α) (e x : Ev) (io : Idx) :
    basePmf S e x io = prodOver (topDownPmf e x) (baseT S) io := by
  unfold basePmf prodOver
  congr 1
  apply List.map_congr_left
  intro go _
  simp only [baseT, baseNodeT]
  rw [topDownPmf_prod, List.map_map]
  congr 1
  apply List.map_congr_left
  intro k _
  simp only [Function.comp]
  split
  · exact (topDownPmf_dummyT e x).symm
  · exact (topDownPmf_bernT e x _ _).symm

theorem catCond_allMissing (v : Nat) (tbl : List α) (x : Ev) :
    catCond v tbl (fun _ => none) x = Circ.catLeafFn v tbl x := by
  unfold catCond Circ.catLeafFn
  cases x v <;> rfl

theorem basePmf_eq_eval (S : Spec α) (x : Ev) (io : Idx) :
    basePmf S (fun _ => none) x io = prodOver (TCirc.eval x) (baseT S) io := by
  unfold basePmf prodOver
  congr 1
  apply List.map_congr_left
  intro go _
  simp only [baseT, baseNodeT]
  rw [TCirc.eval_prod, List.map_map]
  congr 1
  apply List.map_congr_left
  intro k _
  simp only [Function.comp]
  split
  · exact (eval_dummyT x).symm
  · rw [eval_bernT, catCond_allMissing]

theorem prodOver_single (P : TCirc α → α) (T : Tab (TCirc α)) (g o : Nat) :
    prodOver P T ([g], [o]) = P (T.at_ g o) := by
  simp [prodOver, lprod]

/-- **the evidence-conditioned layer-wise pass is the node-wise top-down sampler of the unrolled
circuit** (no hypothesis: a structural identity) -/
theorem condPmf_eq_topDownPmf (S : Spec α) (y : Nat) (e x : Ev) :
    condPmf S y e x = topDownPmf e x (unrollT S y) := by
  unfold condPmf unrollT rootT
  rw [topDownPmf_sum]
  have hA := aligned_top S e
  unfold topVal at hA
  rw [flat_map_eval hA, wsum_flat, hA.1, hA.2.1]
  unfold rootStep rootVal
  apply sumVar_congr
  intro idx
  congr 1
  rw [pmfDown_factor (topDownPmf e x) e (fun l => lawCond (S.w l)) S.w S.rgSum ?_ ?_ S.depth 0 (baseT S)
    (baseVal S e) (aligned_base S e) _ (basePmf_eq_topDown S e x), prodOver_single]
  · intro T j t
    simp only [prodT]
    rw [topDownPmf_prod]
    simp [lprod]
  · intro l T V hAl g o
    simp only [sumT]
    rw [topDownPmf_sum, List.map_map, List.map_map, ← wsum_range, hAl.2.1]
    have hv : (List.range V.nodes).map (TCirc.eval e ∘ fun t => T.at_ g t) = (List.range V.nodes).map (fun t => V.at_ g t) := by
      apply List.map_congr_left
      intro t _
      exact hAl.2.2 g t
    rw [hv]
    rfl

/-- **the law of `RatSpn.sample` is the polynomial of the unrolled circuit** (no hypothesis) -/
theorem samplePmf_eq_eval (S : Spec α) (y : Nat) (x : Ev) :
    samplePmf S y x = TCirc.eval x (unrollT S y) := by
  unfold samplePmf unrollT rootT
  rw [TCirc.eval_sum]
  have hA := aligned_top S (fun _ => none)
  unfold topVal at hA
  rw [wsum_flat, hA.1, hA.2.1]
  unfold rootStep
  apply sumVar_congr
  intro idx
  congr 1
  rw [pmfDown_factor (TCirc.eval x) (fun _ => none) (fun l => lawSample (S.w l)) S.w S.rgSum ?_ ?_ S.depth 0
    (baseT S) (baseVal S (fun _ => none)) (aligned_base S _) _ (basePmf_eq_eval S x), prodOver_single]
  · intro T j t
    simp only [prodT]
    rw [TCirc.eval_prod]
    simp [lprod]
  · intro l T V hAl g o
    simp only [sumT]
    rw [TCirc.eval_sum, List.map_map, ← wsum_range, hAl.2.1]
    rfl

end laws

end RatSample
end Deeprob
