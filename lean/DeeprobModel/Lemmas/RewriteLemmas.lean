import DeeprobModel.Spec.NormalForm
import DeeprobModel.Lemmas.CircLemmas
set_option linter.unusedSectionVars false
set_option linter.unusedSimpArgs false
/-
Lemmas about the tree-level `prune` (C09).
-/
namespace Deeprob

theorem scopeEq.rfl' {a : List Nat} : scopeEq a a := fun _ => Iff.rfl
theorem scopeEq.symm {a b : List Nat} (h : scopeEq a b) : scopeEq b a := fun v => (h v).symm
theorem scopeEq.trans {a b c : List Nat} (h : scopeEq a b) (h2 : scopeEq b c) : scopeEq a c :=
  fun v => (h v).trans (h2 v)

/-- replacing every block of a duplicate-free concatenation by a duplicate-free list with the same
elements keeps the concatenation duplicate-free and its element set -/
theorem flatten_nodup_of {β : Type} (cs : List β) (A B : β → List Nat)
    (h : ∀ c ∈ cs, (B c).Nodup ∧ scopeEq (B c) (A c)) (hnd : (cs.map A).flatten.Nodup) :
    (cs.map B).flatten.Nodup ∧ scopeEq (cs.map B).flatten (cs.map A).flatten := by
  induction cs with
  | nil => exact ⟨by simp, scopeEq.rfl'⟩
  | cons c cs ih =>
    simp only [List.map_cons, List.flatten_cons] at hnd ⊢
    rw [List.nodup_append] at hnd
    obtain ⟨_, h2, hd⟩ := hnd
    obtain ⟨hB, hBA⟩ := h c List.mem_cons_self
    obtain ⟨ih1, ih2⟩ := ih (fun d hd' => h d (List.mem_cons_of_mem _ hd')) h2
    refine ⟨?_, ?_⟩
    · rw [List.nodup_append]
      refine ⟨hB, ih1, ?_⟩
      intro a ha b hb hab
      exact hd a ((hBA a).1 ha) b ((ih2 b).1 hb) hab
    · intro v
      simp only [List.mem_append]
      rw [hBA v, ih2 v]

namespace Circ
variable {α : Type} [CommSemiring α]

@[simp] theorem scope_leaf (s : List Nat) (f : Ev → α) : scope (leaf s f) = s := rfl
@[simp] theorem scope_sum (s : List Nat) (ws : List α) (cs : List (Circ α)) : scope (sum s ws cs) = s := rfl
@[simp] theorem scope_prod (s : List Nat) (cs : List (Circ α)) : scope (prod s cs) = s := rfl

/-! ### value preservation -/

theorem lprod_append (a b : List α) : lprod (a ++ b) = lprod a * lprod b := by
  induction a with
  | nil => simp [lprod]
  | cons x xs ih => simp only [List.cons_append, lprod, ih]; ring

theorem lprod_prodKids (e : Ev) (c : Circ α) : lprod ((prodKids c).map (eval e)) = eval e c := by
  cases c <;> simp [prodKids, eval, lprod]

theorem lprod_absorbProd (e : Ev) (cs : List (Circ α)) :
    lprod ((absorbProd cs).map (eval e)) = lprod (cs.map (eval e)) := by
  induction cs with
  | nil => rfl
  | cons c cs ih =>
    unfold absorbProd at *
    simp only [List.map_cons, List.flatten_cons, List.map_append, lprod_append, lprod, ih, lprod_prodKids]

theorem wsum_append (a b x y : List α) (h : a.length = x.length) :
    wsum (a ++ b) (x ++ y) = wsum a x + wsum b y := by
  induction a generalizing x with
  | nil => cases x with
    | nil => simp [wsum]
    | cons _ _ => simp at h
  | cons w ws ih => cases x with
    | nil => simp at h
    | cons v vs => simp only [List.cons_append, wsum, ih vs (by simpa using h)]; ring

theorem wsum_zip_scale (e : Ev) (w : α) (ws : List α) (cs : List (Circ α)) :
    wsum (((ws.zip cs).map (fun p => (w * p.1, p.2))).map Prod.fst)
         ((((ws.zip cs).map (fun p => (w * p.1, p.2))).map Prod.snd).map (eval e))
      = w * wsum ws (cs.map (eval e)) := by
  induction ws generalizing cs with
  | nil => simp [wsum]
  | cons v vs ih => cases cs with
    | nil => simp [wsum]
    | cons c cs => simp only [List.zip_cons_cons, List.map_cons, wsum, ih cs]; ring

theorem wsum_sumKids (e : Ev) (w : α) (c : Circ α) :
    wsum ((sumKids w c).map Prod.fst) (((sumKids w c).map Prod.snd).map (eval e)) = w * eval e c := by
  cases c with
  | leaf s f => simp [sumKids, wsum, eval]
  | prod s cs => simp [sumKids, wsum]
  | sum s ws cs => simp only [sumKids, eval]; exact wsum_zip_scale e w ws cs

theorem wsum_absorbSum (e : Ev) (ws : List α) (cs : List (Circ α)) :
    wsum ((absorbSum ws cs).map Prod.fst) (((absorbSum ws cs).map Prod.snd).map (eval e))
      = wsum ws (cs.map (eval e)) := by
  induction ws generalizing cs with
  | nil => simp [absorbSum, wsum]
  | cons v vs ih => cases cs with
    | nil => simp [absorbSum, wsum]
    | cons c cs =>
      have := ih cs
      unfold absorbSum at *
      simp only [List.zip_cons_cons, List.map_cons, List.flatten_cons, List.map_append, wsum]
      rw [wsum_append _ _ _ _ (by simp), wsum_sumKids, this]

theorem eval_mkProd (e : Ev) (s : List Nat) (cs : List (Circ α)) :
    eval e (rwProd s cs) = lprod (cs.map (eval e)) := by
  unfold rwProd
  split
  · simp [lprod]
  · simp only [eval, lprod_absorbProd]

theorem eval_mkSum (e : Ev) (s : List Nat) (ws : List α) (cs : List (Circ α))
    (h : cs.length = 1 → ws = [1]) :
    eval e (rwSum s ws cs) = wsum ws (cs.map (eval e)) := by
  unfold rwSum
  split
  · rw [h (by simp)]; simp [wsum]
  · simp only [eval, wsum_absorbSum]

/-! ### validity and scopes -/

theorem scopesNodup_scope : (c : Circ α) → ScopesNodup c → (scope c).Nodup
  | leaf _ _, h => by unfold ScopesNodup at h; exact h
  | sum _ _ _, h => by unfold ScopesNodup at h; exact h.1
  | prod _ _, h => by unfold ScopesNodup at h; exact h.1

theorem mem_sumKids {w x : α} {c d : Circ α} (h : (x, d) ∈ sumKids w c) :
    (d = c ∧ isSum c = false) ∨ ∃ s ws cs, c = sum s ws cs ∧ d ∈ cs := by
  cases c with
  | leaf s f => left; simp [sumKids] at h; exact ⟨h.2, rfl⟩
  | prod s cs => left; simp [sumKids] at h; exact ⟨h.2, rfl⟩
  | sum s ws cs =>
    right
    simp only [sumKids, List.mem_map] at h
    obtain ⟨p, hp, hpe⟩ := h
    refine ⟨s, ws, cs, rfl, ?_⟩
    have := (List.of_mem_zip hp).2
    simp only [Prod.mk.injEq] at hpe
    rw [← hpe.2]; exact this

theorem mem_absorbSum {ws : List α} {cs : List (Circ α)} {d : Circ α}
    (h : d ∈ (absorbSum ws cs).map Prod.snd) :
    ∃ c ∈ cs, (d = c ∧ isSum c = false) ∨ ∃ s ws' cs', c = sum s ws' cs' ∧ d ∈ cs' := by
  simp only [absorbSum, List.mem_map, List.mem_flatten] at h
  obtain ⟨⟨x, d'⟩, ⟨l, ⟨p, hp, rfl⟩, hin⟩, rfl⟩ := h
  exact ⟨p.2, (List.of_mem_zip hp).2, mem_sumKids hin⟩

theorem mem_prodKids {c d : Circ α} (h : d ∈ prodKids c) :
    (d = c ∧ isProd c = false) ∨ ∃ s cs, c = prod s cs ∧ d ∈ cs := by
  cases c with
  | leaf s f => left; simp [prodKids] at h; exact ⟨h, rfl⟩
  | sum s ws cs => left; simp [prodKids] at h; exact ⟨h, rfl⟩
  | prod s cs => right; exact ⟨s, cs, rfl, by simpa [prodKids] using h⟩

theorem mem_absorbProd {cs : List (Circ α)} {d : Circ α} (h : d ∈ absorbProd cs) :
    ∃ c ∈ cs, (d = c ∧ isProd c = false) ∨ ∃ s cs', c = prod s cs' ∧ d ∈ cs' := by
  simp only [absorbProd, List.mem_flatten, List.mem_map] at h
  obtain ⟨l, ⟨c, hc, rfl⟩, hd⟩ := h
  exact ⟨c, hc, mem_prodKids hd⟩

theorem sumKids_ne_nil (dom : Nat → Nat) (w : α) (c : Circ α) (hv : Valid dom c) : sumKids w c ≠ [] := by
  cases c with
  | leaf s f => simp [sumKids]
  | prod s cs => simp [sumKids]
  | sum s ws cs =>
    unfold Valid at hv
    obtain ⟨hne, hlen, _, _⟩ := hv
    cases cs with
    | nil => exact absurd rfl hne
    | cons c cs => cases ws with
      | nil => simp at hlen
      | cons v vs => simp [sumKids]

theorem valid_mkSum (dom : Nat → Nat) (s : List Nat) (ws : List α) (cs : List (Circ α))
    (hs : s.Nodup) (hne : cs ≠ []) (hlen : ws.length = cs.length)
    (hsc : ∀ c ∈ cs, scopeEq (scope c) s) (hv : ∀ c ∈ cs, Valid dom c) (hn : ∀ c ∈ cs, ScopesNodup c) :
    Valid dom (rwSum s ws cs) ∧ ScopesNodup (rwSum s ws cs) ∧ scopeEq (scope (rwSum s ws cs)) s := by
  unfold rwSum
  split
  · rename_i c
    exact ⟨hv c (by simp), hn c (by simp), hsc c (by simp)⟩
  · have key : ∀ d ∈ (absorbSum ws cs).map Prod.snd, scopeEq (scope d) s ∧ Valid dom d ∧ ScopesNodup d := by
      intro d hd
      obtain ⟨c, hc, h | ⟨s', ws', cs', rfl, hd'⟩⟩ := mem_absorbSum hd
      · rw [h.1]; exact ⟨hsc c hc, hv c hc, hn c hc⟩
      · have h1 := hv _ hc
        have h2 := hsc _ hc
        have h3 := hn _ hc
        unfold Valid at h1
        unfold ScopesNodup at h3
        simp only [scope] at h2
        exact ⟨(h1.2.2.1 d hd').trans h2, h1.2.2.2 d hd', h3.2 d hd'⟩
    refine ⟨?_, ?_, scopeEq.rfl'⟩
    · unfold Valid
      refine ⟨?_, by simp, fun d hd => (key d hd).1, fun d hd => (key d hd).2.1⟩
      cases cs with
      | nil => exact absurd rfl hne
      | cons c cs => cases ws with
        | nil => simp at hlen
        | cons v vs =>
          have := sumKids_ne_nil dom v c (hv c (by simp))
          simp only [absorbSum, List.zip_cons_cons, List.map_cons, List.flatten_cons, List.map_append]
          intro h
          simp at h
          exact this h.1
    · unfold ScopesNodup
      exact ⟨hs, fun d hd => (key d hd).2.2⟩

theorem prodKids_scopes (dom : Nat → Nat) (c : Circ α) (hv : Valid dom c) (hn : ScopesNodup c) :
    ((prodKids c).map scope).flatten.Nodup ∧ scopeEq ((prodKids c).map scope).flatten (scope c) := by
  cases c with
  | leaf s f => simpa [prodKids, scopeEq] using scopesNodup_scope _ hn
  | sum s ws cs => simpa [prodKids, scopeEq] using scopesNodup_scope _ hn
  | prod s cs => unfold Valid at hv; exact ⟨hv.1, hv.2.1⟩

theorem absorbProd_scope_flatten (cs : List (Circ α)) :
    ((absorbProd cs).map scope).flatten = (cs.map (fun c => ((prodKids c).map scope).flatten)).flatten := by
  induction cs with
  | nil => rfl
  | cons c cs ih =>
    unfold absorbProd at *
    simp only [List.map_cons, List.flatten_cons, List.map_append, List.flatten_append, ih]

theorem valid_mkProd (dom : Nat → Nat) (s : List Nat) (cs : List (Circ α)) (hs : s.Nodup)
    (hnd : (cs.map scope).flatten.Nodup) (hsc : scopeEq (cs.map scope).flatten s)
    (hv : ∀ c ∈ cs, Valid dom c) (hn : ∀ c ∈ cs, ScopesNodup c) :
    Valid dom (rwProd s cs) ∧ ScopesNodup (rwProd s cs) ∧ scopeEq (scope (rwProd s cs)) s := by
  unfold rwProd
  split
  · rename_i c
    refine ⟨hv c (by simp), hn c (by simp), ?_⟩
    simpa using hsc
  · have key : ∀ d ∈ absorbProd cs, Valid dom d ∧ ScopesNodup d := by
      intro d hd
      obtain ⟨c, hc, h | ⟨s', cs', rfl, hd'⟩⟩ := mem_absorbProd hd
      · rw [h.1]; exact ⟨hv c hc, hn c hc⟩
      · have h1 := hv _ hc
        have h3 := hn _ hc
        unfold Valid at h1
        unfold ScopesNodup at h3
        exact ⟨h1.2.2 d hd', h3.2 d hd'⟩
    obtain ⟨k1, k2⟩ := flatten_nodup_of cs scope (fun c => ((prodKids c).map scope).flatten)
      (fun c hc => prodKids_scopes dom c (hv c hc) (hn c hc)) hnd
    refine ⟨?_, ?_, scopeEq.rfl'⟩
    · unfold Valid
      rw [absorbProd_scope_flatten]
      exact ⟨k1, k2.trans hsc, fun d hd => (key d hd).1⟩
    · unfold ScopesNodup
      exact ⟨hs, fun d hd => (key d hd).2⟩

/-- pruning keeps validity, duplicate-free scopes, and the scope (as a set) -/
theorem prune_ok (dom : Nat → Nat) : (c : Circ α) → Valid dom c → ScopesNodup c →
    Valid dom (prune c) ∧ ScopesNodup (prune c) ∧ scopeEq (scope (prune c)) (scope c)
  | leaf s f, hv, hn => by simp only [prune]; exact ⟨hv, hn, scopeEq.rfl'⟩
  | sum s ws cs, hv, hn => by
      unfold Valid at hv; unfold ScopesNodup at hn
      obtain ⟨hne, hlen, hsc, hval⟩ := hv
      rw [prune]
      have ih : ∀ c ∈ cs, Valid dom (prune c) ∧ ScopesNodup (prune c) ∧ scopeEq (scope (prune c)) (scope c) :=
        fun c hc => prune_ok dom c (hval c hc) (hn.2 c hc)
      apply valid_mkSum dom s ws _ hn.1 (by simpa using hne) (by simpa using hlen)
      · intro d hd; simp only [List.mem_map] at hd; obtain ⟨c, hc, rfl⟩ := hd
        exact (ih c hc).2.2.trans (hsc c hc)
      · intro d hd; simp only [List.mem_map] at hd; obtain ⟨c, hc, rfl⟩ := hd; exact (ih c hc).1
      · intro d hd; simp only [List.mem_map] at hd; obtain ⟨c, hc, rfl⟩ := hd; exact (ih c hc).2.1
  | prod s cs, hv, hn => by
      unfold Valid at hv; unfold ScopesNodup at hn
      obtain ⟨hnd, hsc, hval⟩ := hv
      rw [prune]
      have ih : ∀ c ∈ cs, Valid dom (prune c) ∧ ScopesNodup (prune c) ∧ scopeEq (scope (prune c)) (scope c) :=
        fun c hc => prune_ok dom c (hval c hc) (hn.2 c hc)
      obtain ⟨k1, k2⟩ := flatten_nodup_of cs scope (fun c => scope (prune c))
        (fun c hc => ⟨scopesNodup_scope _ (ih c hc).2.1, (ih c hc).2.2⟩) hnd
      have e1 : (cs.map prune).map scope = cs.map (fun c => scope (prune c)) := by
        rw [List.map_map]; rfl
      apply valid_mkProd dom s _ hn.1
      · rw [e1]; exact k1
      · rw [e1]; exact k2.trans hsc
      · intro d hd; simp only [List.mem_map] at hd; obtain ⟨c, hc, rfl⟩ := hd; exact (ih c hc).1
      · intro d hd; simp only [List.mem_map] at hd; obtain ⟨c, hc, rfl⟩ := hd; exact (ih c hc).2.1


/-! ### normal form -/

theorem length_sumKids (w : α) (c : Circ α) (hs : Shape c) (hn : NormalForm c) :
    1 ≤ (sumKids w c).length := by
  cases c with
  | leaf s f => simp [sumKids]
  | prod s cs => simp [sumKids]
  | sum s ws cs =>
    unfold Shape at hs; unfold NormalForm at hn
    simp only [sumKids, List.length_map, List.length_zip, hs.2.1]
    omega

theorem length_absorbSum (ws : List α) (cs : List (Circ α)) (hlen : ws.length = cs.length)
    (hs : ∀ c ∈ cs, Shape c) (hn : ∀ c ∈ cs, NormalForm c) :
    cs.length ≤ (absorbSum ws cs).length := by
  induction ws generalizing cs with
  | nil => cases cs with
    | nil => simp [absorbSum]
    | cons _ _ => simp at hlen
  | cons v vs ih => cases cs with
    | nil => simp at hlen
    | cons c cs =>
      have h1 := ih cs (by simpa using hlen) (fun d hd => hs d (List.mem_cons_of_mem _ hd))
        (fun d hd => hn d (List.mem_cons_of_mem _ hd))
      have h2 := length_sumKids v c (hs c List.mem_cons_self) (hn c List.mem_cons_self)
      unfold absorbSum at *
      simp only [List.zip_cons_cons, List.map_cons, List.flatten_cons, List.length_append, List.length_cons]
      omega

theorem length_prodKids (c : Circ α) (hn : NormalForm c) : 1 ≤ (prodKids c).length := by
  cases c with
  | leaf s f => simp [prodKids]
  | sum s ws cs => simp [prodKids]
  | prod s cs => unfold NormalForm at hn; simp only [prodKids]; omega

theorem length_absorbProd (cs : List (Circ α)) (hn : ∀ c ∈ cs, NormalForm c) :
    cs.length ≤ (absorbProd cs).length := by
  induction cs with
  | nil => simp [absorbProd]
  | cons c cs ih =>
    have h1 := ih (fun d hd => hn d (List.mem_cons_of_mem _ hd))
    have h2 := length_prodKids c (hn c List.mem_cons_self)
    unfold absorbProd at *
    simp only [List.map_cons, List.flatten_cons, List.length_append, List.length_cons]
    omega

theorem two_le_of_not_single {β : Type} (cs : List β) (hne : cs ≠ []) (hnot : ∀ c, cs = [c] → False) :
    2 ≤ cs.length := by
  match cs, hne, hnot with
  | [c], _, hnot => exact absurd rfl (hnot c)
  | _ :: _ :: _, _, _ => simp

theorem nf_mkSum (s : List Nat) (ws : List α) (cs : List (Circ α)) (hne : cs ≠ [])
    (hlen : ws.length = cs.length) (hs : ∀ c ∈ cs, Shape c) (hn : ∀ c ∈ cs, NormalForm c) :
    Shape (rwSum s ws cs) ∧ NormalForm (rwSum s ws cs) := by
  unfold rwSum
  split
  · rename_i c; exact ⟨hs c (by simp), hn c (by simp)⟩
  · rename_i hnot
    have hl := length_absorbSum ws cs hlen hs hn
    have h2 : 2 ≤ cs.length := two_le_of_not_single cs hne hnot
    have key : ∀ d ∈ (absorbSum ws cs).map Prod.snd, isSum d = false ∧ Shape d ∧ NormalForm d := by
      intro d hd
      obtain ⟨c, hc, h | ⟨s', ws', cs', rfl, hd'⟩⟩ := mem_absorbSum hd
      · rw [h.1]; exact ⟨h.2, hs c hc, hn c hc⟩
      · have h1 := hs _ hc
        have h3 := hn _ hc
        unfold Shape at h1
        unfold NormalForm at h3
        exact ⟨h3.2.1 d hd', h1.2.2 d hd', h3.2.2 d hd'⟩
    have hl2 : 2 ≤ ((absorbSum ws cs).map Prod.snd).length := by simp; omega
    constructor
    · unfold Shape
      refine ⟨?_, by simp, fun d hd => (key d hd).2.1⟩
      intro h; rw [h] at hl2; simp at hl2
    · unfold NormalForm
      exact ⟨hl2, fun d hd => (key d hd).1, fun d hd => (key d hd).2.2⟩

theorem nf_mkProd (s : List Nat) (cs : List (Circ α)) (hne : cs ≠ [])
    (hs : ∀ c ∈ cs, Shape c) (hn : ∀ c ∈ cs, NormalForm c) :
    Shape (rwProd s cs) ∧ NormalForm (rwProd s cs) := by
  unfold rwProd
  split
  · rename_i c; exact ⟨hs c (by simp), hn c (by simp)⟩
  · rename_i hnot
    have hl := length_absorbProd cs hn
    have h2 : 2 ≤ cs.length := two_le_of_not_single cs hne hnot
    have key : ∀ d ∈ absorbProd cs, isProd d = false ∧ Shape d ∧ NormalForm d := by
      intro d hd
      obtain ⟨c, hc, h | ⟨s', cs', rfl, hd'⟩⟩ := mem_absorbProd hd
      · rw [h.1]; exact ⟨h.2, hs c hc, hn c hc⟩
      · have h1 := hs _ hc
        have h3 := hn _ hc
        unfold Shape at h1
        unfold NormalForm at h3
        exact ⟨h3.2.1 d hd', h1.2 d hd', h3.2.2 d hd'⟩
    constructor
    · unfold Shape
      refine ⟨?_, fun d hd => (key d hd).2.1⟩
      intro h
      have : (absorbProd cs).length = 0 := by rw [h]; rfl
      omega
    · unfold NormalForm
      exact ⟨by omega, fun d hd => (key d hd).1, fun d hd => (key d hd).2.2⟩

theorem prune_shape_nf : (c : Circ α) → Shape c → Shape (prune c) ∧ NormalForm (prune c)
  | leaf s f, _ => by simp only [prune]; exact ⟨by unfold Shape; trivial, by unfold NormalForm; trivial⟩
  | sum s ws cs, h => by
      unfold Shape at h
      obtain ⟨hne, hlen, hs⟩ := h
      rw [prune]
      apply nf_mkSum s ws _ (by simpa using hne) (by simpa using hlen)
      · intro d hd; simp only [List.mem_map] at hd; obtain ⟨c, hc, rfl⟩ := hd
        exact (prune_shape_nf c (hs c hc)).1
      · intro d hd; simp only [List.mem_map] at hd; obtain ⟨c, hc, rfl⟩ := hd
        exact (prune_shape_nf c (hs c hc)).2
  | prod s cs, h => by
      unfold Shape at h
      obtain ⟨hne, hs⟩ := h
      rw [prune]
      apply nf_mkProd s _ (by simpa using hne)
      · intro d hd; simp only [List.mem_map] at hd; obtain ⟨c, hc, rfl⟩ := hd
        exact (prune_shape_nf c (hs c hc)).1
      · intro d hd; simp only [List.mem_map] at hd; obtain ⟨c, hc, rfl⟩ := hd
        exact (prune_shape_nf c (hs c hc)).2

theorem shape_of_valid (dom : Nat → Nat) : (c : Circ α) → Valid dom c → ProdNE c → Shape c
  | leaf _ _, _, _ => by unfold Shape; trivial
  | sum s ws cs, hv, hp => by
      unfold Valid at hv; unfold ProdNE at hp; unfold Shape
      exact ⟨hv.1, hv.2.1, fun c hc => shape_of_valid dom c (hv.2.2.2 c hc) (hp c hc)⟩
  | prod s cs, hv, hp => by
      unfold Valid at hv; unfold ProdNE at hp; unfold Shape
      exact ⟨hp.1, fun c hc => shape_of_valid dom c (hv.2.2 c hc) (hp.2 c hc)⟩

theorem lenOK_of_shape : (c : Circ α) → Shape c → LenOK c
  | leaf _ _, _ => by unfold LenOK; trivial
  | sum s ws cs, h => by
      unfold Shape at h; unfold LenOK
      exact ⟨h.2.1, fun c hc => lenOK_of_shape c (h.2.2 c hc)⟩
  | prod s cs, h => by
      unfold Shape at h; unfold LenOK
      exact fun c hc => lenOK_of_shape c (h.2 c hc)

theorem lenOK_of_valid (dom : Nat → Nat) : (c : Circ α) → Valid dom c → LenOK c
  | leaf _ _, _ => by unfold LenOK; trivial
  | sum s ws cs, h => by
      unfold Valid at h; unfold LenOK
      exact ⟨h.2.1, fun c hc => lenOK_of_valid dom c (h.2.2.2 c hc)⟩
  | prod s cs, h => by
      unfold Valid at h; unfold LenOK
      exact fun c hc => lenOK_of_valid dom c (h.2.2 c hc)

/-! ### fixed point -/

theorem prodKids_of_not_prod (c : Circ α) (h : isProd c = false) : prodKids c = [c] := by
  cases c <;> simp_all [prodKids, isProd]

theorem absorbProd_id (cs : List (Circ α)) (h : ∀ c ∈ cs, isProd c = false) : absorbProd cs = cs := by
  induction cs with
  | nil => rfl
  | cons c cs ih =>
    have := ih (fun d hd => h d (List.mem_cons_of_mem _ hd))
    unfold absorbProd at *
    simp only [List.map_cons, List.flatten_cons, this, prodKids_of_not_prod c (h c List.mem_cons_self)]
    rfl

theorem sumKids_of_not_sum (w : α) (c : Circ α) (h : isSum c = false) : sumKids w c = [(w, c)] := by
  cases c <;> simp_all [sumKids, isSum]

theorem absorbSum_id (ws : List α) (cs : List (Circ α)) (h : ∀ c ∈ cs, isSum c = false) :
    absorbSum ws cs = ws.zip cs := by
  induction ws generalizing cs with
  | nil => simp [absorbSum]
  | cons v vs ih => cases cs with
    | nil => simp [absorbSum]
    | cons c cs =>
      have := ih cs (fun d hd => h d (List.mem_cons_of_mem _ hd))
      unfold absorbSum at *
      simp only [List.zip_cons_cons, List.map_cons, List.flatten_cons, this,
        sumKids_of_not_sum v c (h c List.mem_cons_self)]
      rfl

theorem prune_fix : (c : Circ α) → NormalForm c → LenOK c → prune c = c
  | leaf s f, _, _ => by simp [prune]
  | sum s ws cs, hn, hl => by
      unfold NormalForm at hn; unfold LenOK at hl
      have hmap : cs.map prune = cs := by
        conv => rhs; rw [← List.map_id cs]
        apply List.map_congr_left; intro c hc
        exact prune_fix c (hn.2.2 c hc) (hl.2 c hc)
      rw [prune, hmap]
      unfold rwSum
      split
      · rename_i c; have := hn.1; simp at this
      · rw [absorbSum_id ws cs hn.2.1, List.map_fst_zip (by omega), List.map_snd_zip (by omega)]
  | prod s cs, hn, hl => by
      unfold NormalForm at hn; unfold LenOK at hl
      have hmap : cs.map prune = cs := by
        conv => rhs; rw [← List.map_id cs]
        apply List.map_congr_left; intro c hc
        exact prune_fix c (hn.2.2 c hc) (hl c hc)
      rw [prune, hmap]
      unfold rwProd
      split
      · rename_i c; have := hn.1; simp at this
      · rw [absorbProd_id cs hn.2.1]

/-! ### normalisation is kept -/

theorem tsum_append (a b : List α) : tsum (a ++ b) = tsum a + tsum b := by
  induction a with
  | nil => simp [tsum]
  | cons x xs ih => simp only [List.cons_append, tsum, ih]; ring

theorem tsum_zip_scale (w : α) (ws : List α) (cs : List (Circ α)) (h : ws.length = cs.length) :
    tsum (((ws.zip cs).map (fun p => (w * p.1, p.2))).map Prod.fst) = w * tsum ws := by
  induction ws generalizing cs with
  | nil => simp [tsum]
  | cons v vs ih => cases cs with
    | nil => simp at h
    | cons c cs => simp only [List.zip_cons_cons, List.map_cons, tsum, ih cs (by simpa using h)]; ring

theorem tsum_sumKids (w : α) (c : Circ α) (hl : LenOK c) (hn : NormW c) :
    tsum ((sumKids w c).map Prod.fst) = w := by
  cases c with
  | leaf s f => simp [sumKids, tsum]
  | prod s cs => simp [sumKids, tsum]
  | sum s ws cs =>
    unfold LenOK at hl; unfold NormW at hn
    simp only [sumKids]; rw [tsum_zip_scale w ws cs hl.1, hn.1]; ring

theorem tsum_absorbSum (ws : List α) (cs : List (Circ α)) (hlen : ws.length = cs.length)
    (hl : ∀ c ∈ cs, LenOK c) (hn : ∀ c ∈ cs, NormW c) :
    tsum ((absorbSum ws cs).map Prod.fst) = tsum ws := by
  induction ws generalizing cs with
  | nil => simp [absorbSum, tsum]
  | cons v vs ih => cases cs with
    | nil => simp at hlen
    | cons c cs =>
      have h1 := ih cs (by simpa using hlen) (fun d hd => hl d (List.mem_cons_of_mem _ hd))
        (fun d hd => hn d (List.mem_cons_of_mem _ hd))
      unfold absorbSum at *
      simp only [List.zip_cons_cons, List.map_cons, List.flatten_cons, List.map_append, tsum_append, tsum,
        h1, tsum_sumKids v c (hl c List.mem_cons_self) (hn c List.mem_cons_self)]

theorem norm_mkSum (dom : Nat → Nat) (s : List Nat) (ws : List α) (cs : List (Circ α))
    (hlen : ws.length = cs.length) (hw : tsum ws = 1)
    (ih : ∀ d ∈ cs, LenOK d ∧ NormW d ∧ LeafNorm dom d) :
    LenOK (rwSum s ws cs) ∧ NormW (rwSum s ws cs) ∧ LeafNorm dom (rwSum s ws cs) := by
  unfold rwSum
  split
  · rename_i c; exact ih c (by simp)
  · have key : ∀ d ∈ (absorbSum ws cs).map Prod.snd, LenOK d ∧ NormW d ∧ LeafNorm dom d := by
      intro d hd
      obtain ⟨c, hc, h | ⟨s', ws', cs', rfl, hd'⟩⟩ := mem_absorbSum hd
      · rw [h.1]; exact ih c hc
      · obtain ⟨h1, h2, h3⟩ := ih _ hc
        unfold LenOK at h1; unfold NormW at h2; unfold LeafNorm at h3
        exact ⟨h1.2 d hd', h2.2 d hd', h3 d hd'⟩
    refine ⟨?_, ?_, ?_⟩
    · unfold LenOK; exact ⟨by simp, fun d hd => (key d hd).1⟩
    · unfold NormW
      refine ⟨?_, fun d hd => (key d hd).2.1⟩
      rw [tsum_absorbSum ws cs hlen (fun c hc => (ih c hc).1) (fun c hc => (ih c hc).2.1), hw]
    · unfold LeafNorm; exact fun d hd => (key d hd).2.2

theorem norm_mkProd (dom : Nat → Nat) (s : List Nat) (cs : List (Circ α))
    (ih : ∀ d ∈ cs, LenOK d ∧ NormW d ∧ LeafNorm dom d) :
    LenOK (rwProd s cs) ∧ NormW (rwProd s cs) ∧ LeafNorm dom (rwProd s cs) := by
  unfold rwProd
  split
  · rename_i c; exact ih c (by simp)
  · have key : ∀ d ∈ absorbProd cs, LenOK d ∧ NormW d ∧ LeafNorm dom d := by
      intro d hd
      obtain ⟨c, hc, h | ⟨s', cs', rfl, hd'⟩⟩ := mem_absorbProd hd
      · rw [h.1]; exact ih c hc
      · obtain ⟨h1, h2, h3⟩ := ih _ hc
        unfold LenOK at h1; unfold NormW at h2; unfold LeafNorm at h3
        exact ⟨h1 d hd', h2 d hd', h3 d hd'⟩
    refine ⟨?_, ?_, ?_⟩
    · unfold LenOK; exact fun d hd => (key d hd).1
    · unfold NormW; exact fun d hd => (key d hd).2.1
    · unfold LeafNorm; exact fun d hd => (key d hd).2.2

/-- `prune` keeps: one weight per child, weights summing to one, leaves of total mass one -/
theorem prune_norm (dom : Nat → Nat) : (c : Circ α) → LenOK c → NormW c → LeafNorm dom c →
    LenOK (prune c) ∧ NormW (prune c) ∧ LeafNorm dom (prune c)
  | leaf s f, h1, h2, h3 => by simp only [prune]; exact ⟨h1, h2, h3⟩
  | sum s ws cs, h1, h2, h3 => by
      unfold LenOK at h1; unfold NormW at h2; unfold LeafNorm at h3
      have ih : ∀ d ∈ cs.map prune, LenOK d ∧ NormW d ∧ LeafNorm dom d := by
        intro d hd; simp only [List.mem_map] at hd; obtain ⟨c, hc, rfl⟩ := hd
        exact prune_norm dom c (h1.2 c hc) (h2.2 c hc) (h3 c hc)
      rw [prune]
      exact norm_mkSum dom s ws _ (by simpa using h1.1) h2.1 ih
  | prod s cs, h1, h2, h3 => by
      unfold LenOK at h1; unfold NormW at h2; unfold LeafNorm at h3
      have ih : ∀ d ∈ cs.map prune, LenOK d ∧ NormW d ∧ LeafNorm dom d := by
        intro d hd; simp only [List.mem_map] at hd; obtain ⟨c, hc, rfl⟩ := hd
        exact prune_norm dom c (h1 c hc) (h2 c hc) (h3 c hc)
      rw [prune]
      exact norm_mkProd dom s _ ih

/-- a sum whose weights sum to one and has one weight per child carries `[1]` if it has one child -/
theorem unitSingle_of_normW : (c : Circ α) → LenOK c → NormW c → UnitSingle c
  | leaf _ _, _, _ => by unfold UnitSingle; trivial
  | sum s ws cs, h1, h2 => by
      unfold LenOK at h1; unfold NormW at h2; unfold UnitSingle
      refine ⟨?_, fun c hc => unitSingle_of_normW c (h1.2 c hc) (h2.2 c hc)⟩
      intro h
      have hl : ws.length = 1 := by rw [h1.1, h]
      match ws, hl, h2.1 with
      | [w], _, hw => simp only [tsum, add_zero] at hw; rw [hw]
  | prod s cs, h1, h2 => by
      unfold LenOK at h1; unfold NormW at h2; unfold UnitSingle
      exact fun c hc => unitSingle_of_normW c (h1 c hc) (h2 c hc)

end Circ
end Deeprob
