import DeeprobModel.Lemmas.RewriteLemmas
import DeeprobModel.Props.CircMarg
set_option linter.unusedSectionVars false
set_option linter.unusedSimpArgs false
/-
Lemmas about the tree-level `marginalize` (C10).
-/
namespace Deeprob
namespace Circ
variable {α : Type} [CommSemiring α]

theorem wsum_filterMap (e : Ev) (f : Circ α → Option (Circ α)) (ws : List α) (cs : List (Circ α))
    (h : ∀ c ∈ cs, ∃ c', f c = some c' ∧ eval e c' = eval e c) :
    wsum ws ((cs.filterMap f).map (eval e)) = wsum ws (cs.map (eval e)) := by
  induction cs generalizing ws with
  | nil => rfl
  | cons c cs ih =>
    obtain ⟨c', h1, h2⟩ := h c List.mem_cons_self
    rw [List.filterMap_cons_some h1]
    cases ws with
    | nil => simp [wsum]
    | cons w ws =>
      simp only [List.map_cons, wsum, h2, ih ws (fun d hd => h d (List.mem_cons_of_mem _ hd))]

theorem length_filterMap_some {β γ : Type} (f : β → Option γ) (cs : List β) (h : ∀ c ∈ cs, ∃ c', f c = some c') :
    (cs.filterMap f).length = cs.length := by
  induction cs with
  | nil => rfl
  | cons c cs ih =>
    obtain ⟨c', h1⟩ := h c List.mem_cons_self
    rw [List.filterMap_cons_some h1]
    simp [ih (fun d hd => h d (List.mem_cons_of_mem _ hd))]

theorem lprod_filterMap (e : Ev) (f : Circ α → Option (Circ α)) (cs : List (Circ α))
    (h : ∀ c ∈ cs, (f c = none → eval e c = 1) ∧ (∀ c', f c = some c' → eval e c' = eval e c)) :
    lprod ((cs.filterMap f).map (eval e)) = lprod (cs.map (eval e)) := by
  induction cs with
  | nil => rfl
  | cons c cs ih =>
    have ih' := ih (fun d hd => h d (List.mem_cons_of_mem _ hd))
    obtain ⟨h1, h2⟩ := h c List.mem_cons_self
    cases hf : f c with
    | none => rw [List.filterMap_cons_none hf, ih']; simp [lprod, h1 hf]
    | some c' => rw [List.filterMap_cons_some hf]; simp only [List.map_cons, lprod, ih', h2 c' hf]

theorem nodup_filterMap_scopes (f : Circ α → Option (Circ α)) (cs : List (Circ α))
    (hnd : (cs.map scope).flatten.Nodup)
    (h : ∀ c ∈ cs, ∀ c', f c = some c' → (scope c').Nodup ∧ ∀ v ∈ scope c', v ∈ scope c) :
    ((cs.filterMap f).map scope).flatten.Nodup := by
  induction cs with
  | nil => simp
  | cons c cs ih =>
    simp only [List.map_cons, List.flatten_cons] at hnd
    rw [List.nodup_append] at hnd
    obtain ⟨_, h2, hd⟩ := hnd
    have ih' := ih h2 (fun d hd => h d (List.mem_cons_of_mem _ hd))
    cases hf : f c with
    | none => rw [List.filterMap_cons_none hf]; exact ih'
    | some c' =>
      rw [List.filterMap_cons_some hf]
      simp only [List.map_cons, List.flatten_cons]
      rw [List.nodup_append]
      obtain ⟨k1, k2⟩ := h c List.mem_cons_self c' hf
      refine ⟨k1, ih', ?_⟩
      intro a ha b hb hab
      apply hd a (k2 a ha) b _ hab
      simp only [List.mem_flatten, List.mem_map, List.mem_filterMap] at hb ⊢
      obtain ⟨l, ⟨d', ⟨d, hdm, hfd⟩, rfl⟩, hbl⟩ := hb
      exact ⟨scope d, ⟨d, hdm, rfl⟩, (h d (List.mem_cons_of_mem _ hdm) d' hfd).2 b hbl⟩

/-- the per-node statement proved by induction: `none` only when nothing is kept, otherwise an exact marginal -/
def StepOK (dom : Nat → Nat) (keep : List Nat) (margLeaf : List Nat → (Ev → α) → List Nat → Option (Circ α))
    (c : Circ α) : Prop :=
  (margStep margLeaf keep c = none → ∀ v ∈ scope c, v ∉ keep) ∧
  (∀ c', margStep margLeaf keep c = some c' → MargRes dom keep c c')

theorem eval_dropped (dom : Nat → Nat) (keep : List Nat) (c : Circ α) (hv : Valid dom c) (hn : NormW c)
    (hl : LeafNorm dom c) (hdis : ∀ v ∈ scope c, v ∉ keep) (e : Ev) (he : ∀ v, v ∉ keep → e v = none) :
    eval e c = 1 := by
  rw [eval_congr dom c hv e (fun _ => none) (fun v hvs => he v (hdis v hvs))]
  exact all_missing_one dom c hv hn hl

theorem stepOK_leaf (dom : Nat → Nat) (keep : List Nat) (margLeaf : List Nat → (Ev → α) → List Nat → Option (Circ α))
    (s : List Nat) (f : Ev → α) (hv : Valid dom (leaf s f)) (hl : LeafNorm dom (leaf s f))
    (hd : ScopesNodup (leaf s f)) (hm : MargLeafOK dom keep margLeaf (leaf s f)) :
    StepOK dom keep margLeaf (leaf s f) := by
  unfold MargLeafOK at hm
  have single : ∀ v, s = [v] → StepOK dom keep margLeaf (leaf s f) := by
    intro v hs; subst hs
    unfold StepOK
    simp only [margStep]
    by_cases hk : keep.contains v = true
    · simp only [hk, if_true]
      refine ⟨by simp, ?_⟩
      intro c' hc'
      simp only [Option.some.injEq] at hc'; subst hc'
      have hvk : v ∈ keep := by simpa using hk
      exact { valid := hv, normW := by unfold NormW; trivial, leafNorm := hl, nodup := hd,
              scope_iff := by
                intro w; simp only [scope, List.mem_singleton]
                exact ⟨fun h => ⟨h, h ▸ hvk⟩, fun h => h.1⟩
              hit := ⟨v, by simp [scope], hvk⟩, eval_eq := fun _ _ => rfl }
    · simp only [hk]
      refine ⟨?_, by simp⟩
      intro _ w hw
      simp only [scope, List.mem_singleton] at hw; subst hw
      simpa using hk
  match s, hm, single with
  | [], hm, _ =>
    have := hm (by simp)
    unfold StepOK; simp only [margStep]; exact this
  | [v], _, single => exact single v rfl
  | v :: w :: t, hm, _ =>
    have := hm (by simp)
    unfold StepOK; simp only [margStep]; exact this

theorem stepOK_sum (dom : Nat → Nat) (keep : List Nat) (margLeaf : List Nat → (Ev → α) → List Nat → Option (Circ α))
    (s : List Nat) (ws : List α) (cs : List (Circ α)) (hv : Valid dom (sum s ws cs)) (hn : NormW (sum s ws cs))
    (ih : ∀ c ∈ cs, StepOK dom keep margLeaf c) :
    StepOK dom keep margLeaf (sum s ws cs) := by
  have hlen0 := lenOK_of_valid dom _ hv
  have hunit := unitSingle_of_normW _ hlen0 hn
  unfold Valid at hv; unfold NormW at hn; unfold UnitSingle at hunit
  obtain ⟨hne, hlen, hsc, hval⟩ := hv
  unfold StepOK
  simp only [margStep, scope]
  generalize hcs' : cs.filterMap (margStep margLeaf keep) = cs'
  have hmem : ∀ d, d ∈ cs' ↔ ∃ c ∈ cs, margStep margLeaf keep c = some d := by
    intro d; rw [← hcs']; exact List.mem_filterMap
  constructor
  · intro hnone
    have hnil : cs' = [] := by
      match cs', hnone with
      | [], _ => rfl
      | [_], h => simp [margSum] at h
      | _ :: _ :: _, h => simp [margSum] at h
    rw [hnil, List.filterMap_eq_nil_iff] at hcs'
    obtain ⟨c0, hc0⟩ := List.exists_mem_of_ne_nil cs hne
    intro v hvs
    exact (ih c0 hc0).1 (hcs' c0 hc0) v ((hsc c0 hc0 v).2 hvs)
  · intro r hr
    have hne' : cs' ≠ [] := by intro h; rw [h] at hr; simp [margSum] at hr
    -- a kept variable exists, so every child survives
    obtain ⟨d0, hd0⟩ := List.exists_mem_of_ne_nil cs' hne'
    obtain ⟨c0, hc0, hf0⟩ := (hmem d0).1 hd0
    have R0 := (ih c0 hc0).2 d0 hf0
    obtain ⟨v0, hv0s, hv0k⟩ := R0.hit
    have hv0 : v0 ∈ s := (hsc c0 hc0 v0).1 hv0s
    have hall : ∀ c ∈ cs, ∃ c', margStep margLeaf keep c = some c' := by
      intro c hc
      cases hf : margStep margLeaf keep c with
      | some c' => exact ⟨c', rfl⟩
      | none => exact absurd hv0k ((ih c hc).1 hf v0 ((hsc c hc v0).2 hv0))
    have hlen' : cs'.length = cs.length := by rw [← hcs']; exact length_filterMap_some _ cs hall
    have hres : ∀ d ∈ cs', ∃ c ∈ cs, MargRes dom keep c d := by
      intro d hd; obtain ⟨c, hc, hf⟩ := (hmem d).1 hd; exact ⟨c, hc, (ih c hc).2 d hf⟩
    have hscope : ∀ d ∈ cs', ∀ v, v ∈ scope d ↔ v ∈ s ∧ v ∈ keep := by
      intro d hd v
      obtain ⟨c, hc, R⟩ := hres d hd
      rw [R.scope_iff v, hsc c hc v]
    have heval : ∀ e : Ev, (∀ v, v ∉ keep → e v = none) →
        wsum ws (cs'.map (eval e)) = wsum ws (cs.map (eval e)) := by
      intro e he
      rw [← hcs']
      apply wsum_filterMap
      intro c hc
      obtain ⟨c', hf⟩ := hall c hc
      exact ⟨c', hf, ((ih c hc).2 c' hf).eval_eq e he⟩
    match cs', hr, hne', hlen', hres, hscope, heval, hd0 with
    | [d], hr, _, hlen', hres, hscope, heval, _ =>
      simp only [margSum, Option.some.injEq] at hr; subst hr
      obtain ⟨c, hc, R⟩ := hres d (by simp)
      have hws : ws = [1] := hunit.1 (by rw [← hlen']; rfl)
      exact { valid := R.valid, normW := R.normW, leafNorm := R.leafNorm, nodup := R.nodup,
              scope_iff := hscope d (by simp), hit := ⟨v0, hv0, hv0k⟩,
              eval_eq := by
                intro e he
                have := heval e he
                rw [hws] at this
                simp only [List.map_cons, List.map_nil, wsum, one_mul, add_zero] at this
                simp only [eval]; rw [hws]; exact this }
    | d :: d2 :: r', hr, _, hlen', hres, hscope, heval, _ =>
      simp only [margSum, Option.some.injEq] at hr; subst hr
      have hd : d ∈ d :: d2 :: r' := by simp
      exact { valid := by
                unfold Valid
                refine ⟨by simp, by rw [hlen, ← hlen'], ?_, fun x hx => ?_⟩
                · intro x hx v; rw [hscope x hx v, hscope d hd v]
                · obtain ⟨c, _, R⟩ := hres x hx; exact R.valid
              normW := by
                unfold NormW
                exact ⟨hn.1, fun x hx => by obtain ⟨c, _, R⟩ := hres x hx; exact R.normW⟩
              leafNorm := by
                unfold LeafNorm
                exact fun x hx => by obtain ⟨c, _, R⟩ := hres x hx; exact R.leafNorm
              nodup := by
                unfold ScopesNodup
                refine ⟨?_, fun x hx => by obtain ⟨c, _, R⟩ := hres x hx; exact R.nodup⟩
                obtain ⟨c, _, R⟩ := hres d hd; exact scopesNodup_scope _ R.nodup
              scope_iff := by intro v; simp only [scope]; exact hscope d hd v
              hit := ⟨v0, hv0, hv0k⟩
              eval_eq := by intro e he; simp only [eval]; exact heval e he }

theorem stepOK_prod (dom : Nat → Nat) (keep : List Nat) (margLeaf : List Nat → (Ev → α) → List Nat → Option (Circ α))
    (s : List Nat) (cs : List (Circ α)) (hv : Valid dom (prod s cs)) (hn : NormW (prod s cs))
    (hl : LeafNorm dom (prod s cs))
    (ih : ∀ c ∈ cs, StepOK dom keep margLeaf c) :
    StepOK dom keep margLeaf (prod s cs) := by
  unfold Valid at hv; unfold NormW at hn; unfold LeafNorm at hl
  obtain ⟨hnd, hsc, hval⟩ := hv
  unfold StepOK
  simp only [margStep, scope]
  generalize hcs' : cs.filterMap (margStep margLeaf keep) = cs'
  have hmem : ∀ d, d ∈ cs' ↔ ∃ c ∈ cs, margStep margLeaf keep c = some d := by
    intro d; rw [← hcs']; exact List.mem_filterMap
  have hins : ∀ v, v ∈ s ↔ ∃ c ∈ cs, v ∈ scope c := by
    intro v; rw [← hsc v]; simp only [List.mem_flatten, List.mem_map]
    constructor
    · rintro ⟨l, ⟨c, hc, rfl⟩, hvl⟩; exact ⟨c, hc, hvl⟩
    · rintro ⟨c, hc, hvl⟩; exact ⟨scope c, ⟨c, hc, rfl⟩, hvl⟩
  constructor
  · intro hnone
    have hnil : cs' = [] := by
      match cs', hnone with
      | [], _ => rfl
      | [_], h => simp [margProd] at h
      | _ :: _ :: _, h => simp [margProd] at h
    rw [hnil, List.filterMap_eq_nil_iff] at hcs'
    intro v hvs
    obtain ⟨c, hc, hvc⟩ := (hins v).1 hvs
    exact (ih c hc).1 (hcs' c hc) v hvc
  · intro r hr
    have hne' : cs' ≠ [] := by intro h; rw [h] at hr; simp [margProd] at hr
    have hres : ∀ d ∈ cs', ∃ c ∈ cs, MargRes dom keep c d := by
      intro d hd; obtain ⟨c, hc, hf⟩ := (hmem d).1 hd; exact ⟨c, hc, (ih c hc).2 d hf⟩
    obtain ⟨d0, hd0⟩ := List.exists_mem_of_ne_nil cs' hne'
    have hhit : ∃ v, v ∈ s ∧ v ∈ keep := by
      obtain ⟨c0, hc0, R0⟩ := hres d0 hd0
      obtain ⟨v0, hv0s, hv0k⟩ := R0.hit
      exact ⟨v0, (hins v0).2 ⟨c0, hc0, hv0s⟩, hv0k⟩
    have hF : ∀ v, v ∈ (cs'.map scope).flatten ↔ v ∈ s ∧ v ∈ keep := by
      intro v
      simp only [List.mem_flatten, List.mem_map]
      constructor
      · rintro ⟨l, ⟨d, hd, rfl⟩, hvl⟩
        obtain ⟨c, hc, R⟩ := hres d hd
        have := (R.scope_iff v).1 hvl
        exact ⟨(hins v).2 ⟨c, hc, this.1⟩, this.2⟩
      · rintro ⟨hvs, hvk⟩
        obtain ⟨c, hc, hvc⟩ := (hins v).1 hvs
        cases hf : margStep margLeaf keep c with
        | none => exact absurd hvk ((ih c hc).1 hf v hvc)
        | some d =>
          exact ⟨scope d, ⟨d, (hmem d).2 ⟨c, hc, hf⟩, rfl⟩, (((ih c hc).2 d hf).scope_iff v).2 ⟨hvc, hvk⟩⟩
    have hFnd : (cs'.map scope).flatten.Nodup := by
      rw [← hcs']
      apply nodup_filterMap_scopes _ cs hnd
      intro c hc c' hf
      have R := (ih c hc).2 c' hf
      exact ⟨scopesNodup_scope _ R.nodup, fun v hv => ((R.scope_iff v).1 hv).1⟩
    have heval : ∀ e : Ev, (∀ v, v ∉ keep → e v = none) →
        lprod (cs'.map (eval e)) = lprod (cs.map (eval e)) := by
      intro e he
      rw [← hcs']
      apply lprod_filterMap
      intro c hc
      refine ⟨fun hf => ?_, fun c' hf => ((ih c hc).2 c' hf).eval_eq e he⟩
      exact eval_dropped dom keep c (hval c hc) (hn c hc) (hl c hc) ((ih c hc).1 hf) e he
    match cs', hr, hne', hres, hF, hFnd, heval, hd0 with
    | [d], hr, _, hres, hF, hFnd, heval, _ =>
      simp only [margProd, Option.some.injEq] at hr; subst hr
      obtain ⟨c, hc, R⟩ := hres d (by simp)
      exact { valid := R.valid, normW := R.normW, leafNorm := R.leafNorm, nodup := R.nodup,
              scope_iff := by intro v; have := hF v; simpa [scope] using this
              hit := hhit,
              eval_eq := by
                intro e he
                have := heval e he
                simp only [List.map_cons, List.map_nil, lprod, mul_one] at this
                simp only [eval]; exact this }
    | d :: d2 :: r', hr, _, hres, hF, hFnd, heval, _ =>
      simp only [margProd, Option.some.injEq] at hr; subst hr
      exact { valid := by
                unfold Valid
                exact ⟨hFnd, scopeEq.rfl', fun x hx => by obtain ⟨c, _, R⟩ := hres x hx; exact R.valid⟩
              normW := by
                unfold NormW
                exact fun x hx => by obtain ⟨c, _, R⟩ := hres x hx; exact R.normW
              leafNorm := by
                unfold LeafNorm
                exact fun x hx => by obtain ⟨c, _, R⟩ := hres x hx; exact R.leafNorm
              nodup := by
                unfold ScopesNodup
                exact ⟨hFnd, fun x hx => by obtain ⟨c, _, R⟩ := hres x hx; exact R.nodup⟩
              scope_iff := by intro v; simp only [scope]; exact hF v
              hit := hhit
              eval_eq := by intro e he; simp only [eval]; exact heval e he }

/-- the first pass of `marginalize` is exact at every node -/
theorem margStep_ok (dom : Nat → Nat) (keep : List Nat) (margLeaf : List Nat → (Ev → α) → List Nat → Option (Circ α)) :
    (c : Circ α) → Valid dom c → NormW c → LeafNorm dom c → ScopesNodup c → MargLeafOK dom keep margLeaf c →
    StepOK dom keep margLeaf c
  | leaf s f, hv, _, hl, hd, hm => stepOK_leaf dom keep margLeaf s f hv hl hd hm
  | sum s ws cs, hv, hn, hl, hd, hm => by
      apply stepOK_sum dom keep margLeaf s ws cs hv hn
      intro c hc
      unfold Valid at hv; unfold NormW at hn; unfold LeafNorm at hl; unfold ScopesNodup at hd
      unfold MargLeafOK at hm
      exact margStep_ok dom keep margLeaf c (hv.2.2.2 c hc) (hn.2 c hc) (hl c hc) (hd.2 c hc) (hm c hc)
  | prod s cs, hv, hn, hl, hd, hm => by
      apply stepOK_prod dom keep margLeaf s cs hv hn hl
      intro c hc
      unfold Valid at hv; unfold NormW at hn; unfold LeafNorm at hl; unfold ScopesNodup at hd
      unfold MargLeafOK at hm
      exact margStep_ok dom keep margLeaf c (hv.2.2 c hc) (hn c hc) (hl c hc) (hd.2 c hc) (hm c hc)

end Circ
end Deeprob
