import DeeprobModel.Model.Io
import Mathlib.Data.Rat.Floor
import Mathlib.Algebra.Order.Field.Basic
import Mathlib.Algebra.Order.Floor.Ring
import Mathlib.Tactic.Linarith
import Mathlib.Tactic.NormNum
import Mathlib.Tactic.FieldSimp
import Mathlib.Tactic.Ring
set_option linter.unusedSimpArgs false
set_option linter.unusedVariables false
/-
Facts about the exact round-half-even `roundHalfEven` / `roundN` / `round8` of `Model/Io.lean`.
-/
namespace Deeprob

theorem floor_le' (y : ℚ) : ((y.floor : ℤ) : ℚ) ≤ y := by
  have : ⌊y⌋ = y.floor := rfl
  rw [← this]; exact Int.floor_le y

theorem lt_floor_add_one' (y : ℚ) : y < ((y.floor : ℤ) : ℚ) + 1 := by
  have : ⌊y⌋ = y.floor := rfl
  rw [← this]; exact Int.lt_floor_add_one y

theorem floor_intCast' (n : ℤ) : ((n : ℚ)).floor = n := by
  have : ⌊(n : ℚ)⌋ = ((n : ℚ)).floor := rfl
  rw [← this]; exact Int.floor_intCast n

/-- the chosen integer is within ½ of the argument -/
theorem roundHalfEven_spec (y : ℚ) :
    (roundHalfEven y : ℚ) - y ≤ 1/2 ∧ y - (roundHalfEven y : ℚ) ≤ 1/2 := by
  have h1 := floor_le' y
  have h2 := lt_floor_add_one' y
  unfold roundHalfEven
  simp only
  split
  · rename_i h; constructor <;> linarith
  · rename_i h
    split
    · rename_i h'; push_cast; constructor <;> linarith
    · rename_i h'
      have he : y - (y.floor : ℚ) = 1/2 := le_antisymm (not_lt.1 h') (not_lt.1 h)
      split
      · constructor <;> linarith
      · push_cast; constructor <;> linarith

theorem roundHalfEven_intCast (n : ℤ) : roundHalfEven (n : ℚ) = n := by
  unfold roundHalfEven
  simp only [floor_intCast', sub_self]
  norm_num

/-- rounding is monotone (ties included: equal arguments give equal results) -/
theorem roundHalfEven_mono {a b : ℚ} (h : a ≤ b) : roundHalfEven a ≤ roundHalfEven b := by
  by_contra hn
  have hlt : roundHalfEven b + 1 ≤ roundHalfEven a := by omega
  have hq : ((roundHalfEven b : ℤ) : ℚ) + 1 ≤ (roundHalfEven a : ℚ) := by exact_mod_cast hlt
  have sa := roundHalfEven_spec a
  have sb := roundHalfEven_spec b
  have hab : a = b := by linarith [sa.1, sb.2]
  subst hab
  omega

theorem pow10_pos (d : Nat) : (0 : ℚ) < (10 : ℚ) ^ d := by positivity

/-- **round error**: `|roundN d q − q| ≤ ½·10⁻ᵈ` -/
theorem roundN_err (d : Nat) (q : ℚ) :
    roundN d q - q ≤ 1 / (2 * (10 : ℚ) ^ d) ∧ q - roundN d q ≤ 1 / (2 * (10 : ℚ) ^ d) := by
  have hp := pow10_pos d
  have s := roundHalfEven_spec (q * (10 : ℚ) ^ d)
  unfold roundN
  constructor
  · rw [div_sub' (ne_of_gt hp), div_le_div_iff₀ hp (by positivity)]
    nlinarith [s.1]
  · rw [sub_div' (ne_of_gt hp), div_le_div_iff₀ hp (by positivity)]
    nlinarith [s.2]

/-- values already on the grid are fixed -/
theorem roundN_grid (d : Nat) (n : ℤ) : roundN d ((n : ℚ) / (10 : ℚ) ^ d) = (n : ℚ) / (10 : ℚ) ^ d := by
  unfold roundN
  rw [div_mul_cancel₀ _ (ne_of_gt (pow10_pos d)), roundHalfEven_intCast]

theorem roundN_idem (d : Nat) (q : ℚ) : roundN d (roundN d q) = roundN d q := by
  have : roundN d q = ((roundHalfEven (q * (10 : ℚ) ^ d) : ℤ) : ℚ) / (10 : ℚ) ^ d := rfl
  rw [this, roundN_grid]

theorem roundN_mono (d : Nat) {a b : ℚ} (h : a ≤ b) : roundN d a ≤ roundN d b := by
  unfold roundN
  have hp := pow10_pos d
  apply div_le_div_of_nonneg_right _ (le_of_lt hp)
  exact_mod_cast roundHalfEven_mono (mul_le_mul_of_nonneg_right h (le_of_lt hp))

theorem round8_err (q : ℚ) : |round8 q - q| ≤ 1 / (2 * 10 ^ 8) := by
  have := roundN_err 8 q
  rw [abs_le]; unfold round8
  constructor <;> linarith [this.1, this.2]

theorem round8_idem (q : ℚ) : round8 (round8 q) = round8 q := roundN_idem 8 q

theorem round8_mono {a b : ℚ} (h : a ≤ b) : round8 a ≤ round8 b := roundN_mono 8 h

theorem round8_grid (n : ℤ) : round8 ((n : ℚ) / 10 ^ 8) = (n : ℚ) / 10 ^ 8 := roundN_grid 8 n

theorem round8_zero : round8 0 = 0 := by simpa using round8_grid 0
theorem round8_one : round8 1 = 1 := by
  have := round8_grid (10 ^ 8); norm_num at this; exact this
theorem round8_1em5 : round8 (1 / 100000) = 1 / 100000 := by
  have := round8_grid 1000; norm_num at this; exact this

end Deeprob
