import DeeprobModel.Lemmas.CltFitLemmas
import DeeprobModel.Lemmas.SumLemmas
/-
C11 part 4: a CLT whose table rows sum to one sends the all-missing evidence to 1
(`message_passing` with every entry NaN), for every rooted tree shape.
-/
set_option linter.unusedSimpArgs false
namespace Deeprob

/-- every variable index in the tree is `< n` -/
def RTree.Below (n : Nat) : RTree → Prop
  | .node i cs => i < n ∧ ∀ c ∈ cs, RTree.Below n c

namespace Clt
variable {α : Type} [CommSemiring α]

theorem lprod_map_one {β : Type} (l : List β) (f : β → α) (h : ∀ c ∈ l, f c = 1) :
    lprod (l.map f) = 1 := by
  induction l with
  | nil => rfl
  | cons x xs ih =>
    simp only [List.map, lprod]
    rw [h x List.mem_cons_self, ih (fun c hc => h c (List.mem_cons_of_mem _ hc)), one_mul]

theorem sumVar_two (f : Nat → α) : sumVar 2 f = f 0 + f 1 := by
  simp [sumVar, List.range_succ]

/-- all-missing upward message of any sub-tree is one when the rows of the tables it uses sum to one -/
theorem up_none_one (scope : List Nat) (cpt : List (List (List α))) (n : Nat)
    (hrow : ∀ i, i < n → ∀ l, l < 2 → cptAt cpt i l 0 + cptAt cpt i l 1 = 1) :
    (t : RTree) → t.Below n → ∀ l, l < 2 → up scope cpt t l (fun _ => none) = 1
  | .node i cs, hb, l, hl => by
      unfold RTree.Below at hb
      simp only [up]
      rw [sumVar_two]
      have hk : ∀ k, k < 2 → lprod (cs.map (fun c => up scope cpt c k (fun _ => none))) = 1 := by
        intro k hk
        apply lprod_map_one
        intro c hc
        exact up_none_one scope cpt n hrow c (hb.2 c hc) k hk
      rw [hk 0 (by omega), hk 1 (by omega), mul_one, mul_one]
      exact hrow i hb.1 l hl

theorem childrenOf_lt (pred : List Int) (j c : Nat) (h : c ∈ childrenOf pred j) : c < pred.length := by
  unfold childrenOf at h
  exact List.mem_range.mp (List.mem_filter.mp h).1

theorem build_below (pred : List Int) : ∀ (fuel i : Nat), i < pred.length →
    (build pred fuel i).Below pred.length
  | 0, i, hi => by simp [build, RTree.Below, hi]
  | fuel+1, i, hi => by
      simp only [build, RTree.Below]
      refine ⟨hi, ?_⟩
      intro c hc
      obtain ⟨j, hj, rfl⟩ := List.mem_map.mp hc
      exact build_below pred fuel j (childrenOf_lt pred i j hj)

theorem filter_range_singleton (p : Nat → Bool) (r : Nat) : ∀ n, r < n →
    (∀ c, c < n → (p c = true ↔ c = r)) → (List.range n).filter p = [r]
  | 0, h, _ => by omega
  | n+1, h, hp => by
      rw [List.range_succ, List.filter_append]
      by_cases hrn : r = n
      · subst hrn
        have h1 : (List.range r).filter p = [] := by
          rw [List.filter_eq_nil_iff]
          intro c hc
          have hc' := List.mem_range.mp hc
          intro hpc
          have := (hp c (by omega)).mp hpc
          omega
        have h2 : p r = true := (hp r (by omega)).mpr rfl
        simp [h1, h2]
      · have h1 := filter_range_singleton p r n (by omega) (fun c hc => hp c (by omega))
        have h2 : p n = false := by
          cases hpn : p n with
          | false => rfl
          | true => exact absurd ((hp n (by omega)).mp hpn).symm hrn
        simp [h1, h2]

theorem rootOf_eq (pred : List Int) (r : Nat) (hr : r < pred.length)
    (h : ∀ c, c < pred.length → (pred.getD c 0 = -1 ↔ c = r)) : rootOf pred = some r := by
  unfold rootOf
  rw [filter_range_singleton _ r pred.length hr]
  intro c hc
  simpa using h c hc

/-- with nothing observed the message-passing value of the CLT is one -/
theorem value_none_one (scope : List Nat) (pred : List Int) (cpt : List (List (List α))) (r : Nat)
    (hroot : rootOf pred = some r) (hr : r < pred.length)
    (hrow : ∀ i, i < pred.length → ∀ l, l < 2 → cptAt cpt i l 0 + cptAt cpt i l 1 = 1) :
    value scope pred cpt (fun _ => none) = 1 := by
  unfold value
  rw [hroot]
  exact up_none_one scope cpt pred.length hrow _ (build_below pred _ r hr) 0 (by omega)

end Clt

namespace CltFit

theorem isRST_iff (pred : List Int) (root : Nat) : isRootedSpanningTree pred root = true ↔
    root < pred.length ∧ pred.getD root 0 = -1 ∧
    (∀ i, i < pred.length → i = root ∨ (parent pred i).isSome = true) ∧
    (∀ i, i < pred.length → reaches pred root (pred.length - 1) i = true) := by
  simp [isRootedSpanningTree, List.all_eq_true, and_assoc]

theorem parent_some {pred : List Int} {i p : Nat} (h : parent pred i = some p) :
    pred.getD i (-1) = (p : Int) ∧ p < pred.length := by
  unfold parent at h
  simp only at h
  split at h
  · rename_i hc
    have : (pred.getD i (-1)).toNat = p := by simpa using h
    subst this
    exact ⟨(Int.toNat_of_nonneg hc.1).symm, hc.2⟩
  · cases h

theorem getD_irrel (pred : List Int) {i : Nat} (hi : i < pred.length) (a b : Int) :
    pred.getD i a = pred.getD i b := by
  simp [List.getD_eq_getElem?_getD, hi]

theorem rootOf_of_isRST {pred : List Int} {root : Nat} (h : isRootedSpanningTree pred root = true) :
    Clt.rootOf pred = some root := by
  obtain ⟨hr, hm, hp, _⟩ := (isRST_iff pred root).mp h
  apply Clt.rootOf_eq pred root hr
  intro c hc
  constructor
  · intro hcm
    rcases hp c hc with h1 | h1
    · exact h1
    · obtain ⟨p, hp'⟩ := Option.isSome_iff_exists.mp h1
      have := (parent_some hp').1
      rw [getD_irrel pred hc (-1) 0, hcm] at this
      omega
  · rintro rfl; exact hm

end CltFit
end Deeprob
