import DeeprobModel.Lemmas.RatSampleMpe
set_option linter.unusedSimpArgs false
set_option linter.unusedVariables false
set_option linter.unusedSectionVars false
/-
C16 (MPE clause), part 4: the root step and the base layer — the row assembled by
`RegionGraphLayer.mpe` (modes of the selected leaves, `unpad_samples`, `torch.where`) is the row the MPE
descent of the unrolled circuit writes.
-/
namespace Deeprob
namespace RatSample
open RatSpn TCirc Tensor

/-! ### list helpers -/
section lists

theorem range_map_getD {β : Type} (l : List β) (d : β) : (List.range l.length).map (fun k => l.getD k d) = l := by
  apply List.ext_getElem
  · simp
  · intro i h1 h2
    simp [List.getD_eq_getElem?_getD, h2]

theorem range_map_getD' {β γ : Type} (l : List β) (d : β) (f : β → γ) :
    (List.range l.length).map (fun k => f (l.getD k d)) = l.map f := by
  conv => rhs; rw [← range_map_getD l d]
  rw [List.map_map]; rfl

theorem foldl_flatMap' {β γ δ : Type} (f : δ → γ → δ) (g : β → List γ) : ∀ (l : List β) (x : δ),
    (l.flatMap g).foldl f x = l.foldl (fun x b => (g b).foldl f x) x
  | [], x => rfl
  | b :: l, x => by
      rw [List.flatMap_cons, List.foldl_append, List.foldl_cons]
      exact foldl_flatMap' f g l _

end lists

/-! ### leaf writes -/

/-- write `k` into entry `v` if it is missing (`Bernoulli` mode / `torch.where(isnan(x), samples, x)`) -/
def fillVar (v k : Nat) (x : Ev) : Ev := match x v with | none => x.set v k | some _ => x

/-- one column of a selected leaf: (variable, is-dummy, mode) -/
def stepFn (x : Ev) (z : Nat × Bool × Nat) : Ev := if z.2.1 then x else fillVar z.1 z.2.2 x

theorem fillVar_other (v k : Nat) (x : Ev) {i : Nat} (h : i ≠ v) : fillVar v k x i = x i := by
  unfold fillVar
  cases x v with
  | none => exact Ev.set_ne _ _ h
  | some _ => rfl

theorem fillVar_self (v k : Nat) (x : Ev) : fillVar v k x v = match x v with | some a => some a | none => some k := by
  unfold fillVar
  cases h : x v with
  | none => simp
  | some a => simp [h]

/-- columns whose (non-dummy) variable is not `i` leave entry `i` alone -/
theorem foldl_step_other (i : Nat) : ∀ (Z : List (Nat × Bool × Nat)) (x : Ev),
    (∀ z ∈ Z, z.2.1 = false → z.1 ≠ i) → (Z.foldl stepFn x) i = x i
  | [], x, _ => rfl
  | z :: Z, x, h => by
      rw [List.foldl_cons, foldl_step_other i Z _ (fun z' hz' => h z' (List.mem_cons_of_mem _ hz'))]
      unfold stepFn
      by_cases hb : z.2.1 = true
      · simp [hb]
      · have hb' : z.2.1 = false := by simpa using hb
        simp only [hb', Bool.false_eq_true, if_false]
        exact fillVar_other _ _ _ (fun hc => h z List.mem_cons_self hb' hc.symm)

/-- **the write that reaches a variable**: if the non-dummy columns carry pairwise different variables
and column `(i, false, k)` occurs, the fold leaves an observed entry `i` alone and writes `k` into a
missing one -/
theorem foldl_step_at (i k : Nat) : ∀ (Z : List (Nat × Bool × Nat)) (x : Ev),
    ((Z.filter (fun z => !z.2.1)).map (fun z => z.1)).Nodup → (i, false, k) ∈ Z →
    (Z.foldl stepFn x) i = match x i with | some a => some a | none => some k
  | [], x, _, h => by simp at h
  | z :: Z, x, hnd, hmem => by
      rw [List.foldl_cons]
      by_cases hb : z.2.1 = true
      · have hz : stepFn x z = x := by simp [stepFn, hb]
        rw [hz]
        apply foldl_step_at i k Z x
        · simpa [List.filter_cons, hb] using hnd
        · rcases List.mem_cons.1 hmem with h | h
          · rw [← h] at hb; simp at hb
          · exact h
      · have hb' : z.2.1 = false := by simpa using hb
        have hz : stepFn x z = fillVar z.1 z.2.2 x := by simp [stepFn, hb']
        rw [hz]
        simp only [List.filter_cons, hb', Bool.not_false, if_true, List.map_cons, List.nodup_cons] at hnd
        rcases List.mem_cons.1 hmem with h | h
        · -- this column is the one
          have h1 : z.1 = i := by rw [← h]
          have h2 : z.2.2 = k := by rw [← h]
          rw [foldl_step_other i Z _ ?_, h1, h2, fillVar_self]
          intro z' hz' hb2 hc
          apply hnd.1
          rw [h1, ← hc]
          exact List.mem_map.2 ⟨z', List.mem_filter.2 ⟨hz', by simp [hb2]⟩, rfl⟩
        · have hne : i ≠ z.1 := by
            intro hc
            apply hnd.1
            rw [← hc]
            exact List.mem_map.2 ⟨(i, false, k), List.mem_filter.2 ⟨h, by simp⟩, rfl⟩
          rw [foldl_step_at i k Z _ hnd.2 h, fillVar_other _ _ _ hne]

section base
variable {α : Type} [Field α] [LinearOrder α] [IsStrictOrderedRing α]

/-- the columns of the selected leaf `(g, o)`: (variable, is-dummy, mode) -/
def steps (S : Spec α) (go : Nat × Nat) : List (Nat × Bool × Nat) :=
  (List.range (S.mrow go.1).length).map (fun k =>
    ((S.mrow go.1).getD k 0, (S.prow go.1).getD k false, bernIdx (S.tbl go.1 go.2 k)))

/-- all columns of the selected leaves, in the order of the flattened padded row -/
def Zof (S : Spec α) (io : Idx) : List (Nat × Bool × Nat) := (io.1.zip io.2).flatMap (steps S)

theorem desc_dummyT (e x : Ev) : desc e (dummyT : TCirc α) x = x := by
  unfold desc dummyT
  simp only [pass, mpeFill]
  funext v
  simp [writeScope]

theorem desc_bernT (e x : Ev) (v : Nat) (tbl : List α) : desc e (bernT v tbl) x = fillVar v (bernIdx tbl) x := by
  unfold desc bernT
  simp only [pass, mpeFill]
  funext w
  unfold writeScope bernMode fillVar
  by_cases hw : w = v
  · subst hw
    cases hx : x w <;> simp [hx]
  · cases hx : x v with
    | none => simp [hw, Ev.set_ne _ _ hw]
    | some a => simp [hw]

theorem passAll_map (e : Ev) {β : Type} (F : β → TCirc α) : ∀ (l : List β) (p : List Nat) (j : Nat) (x : Ev),
    passAll (mpeBr e) mpeFill p j (l.map F) x = l.foldl (fun x k => desc e (F k) x) x
  | [], p, j, x => by simp [passAll]
  | k :: l, p, j, x => by
      simp only [List.map_cons, passAll, List.foldl_cons]
      rw [pass_path e (F k) (j :: p) []]
      exact passAll_map e F l p (j + 1) _

theorem desc_base (S : Spec α) (e : Ev) (g o : Nat) (x : Ev) :
    desc e ((baseT S).at_ g o) x = (steps S (g, o)).foldl stepFn x := by
  simp only [baseT, baseNodeT, steps]
  rw [List.foldl_map]
  conv => lhs; unfold desc
  simp only [pass]
  rw [passAll_map e]
  congr 1
  funext x k
  unfold stepFn
  by_cases hb : (S.prow g).getD k false = true
  · simp only [hb, if_true]; exact desc_dummyT e x
  · simp only [hb, Bool.false_eq_true, if_false]; exact desc_bernT e x _ _

theorem foldDesc_base (S : Spec α) (e : Ev) (io : Idx) (x : Ev) :
    foldDesc e (baseT S) io x = (Zof S io).foldl stepFn x := by
  unfold foldDesc Zof
  rw [foldl_flatMap']
  congr 1
  funext x go
  exact desc_base S e go.1 go.2 x

theorem Zof_modes (S : Spec α) (io : Idx) : (Zof S io).map (fun z => z.2.2) = modes S io := by
  unfold Zof modes steps
  rw [List.map_flatMap]
  apply List.flatMap_congr
  intro go _
  rw [List.map_map]; rfl

/-! ### the root step -/

theorem desc_rootT (e : Ev) (T : Tab (TCirc α)) (V : Tab α) (hA : Aligned e T V) (hpos : 0 < V.groups * V.nodes)
    (wroot : List α) (n : Nat) (x : Ev) :
    desc e (rootT wroot n T) x = foldDesc e T (rootMpe wroot V) x := by
  unfold rootT rootMpe
  rw [desc_sum, flat_map_eval hA]
  have hlt : argmax (List.zipWith (· * ·) wroot (flat V)) < V.groups * V.nodes := by
    apply argmax_lt_of_pos _ _ hpos
    simp only [List.length_zipWith, flat_length]
    exact Nat.min_le_right _ _
  have hlt' : argmax (List.zipWith (· * ·) wroot (flat V)) < T.groups * T.nodes := by rw [hA.1, hA.2.1]; exact hlt
  rw [flat_getElem? T _ hlt', hA.2.1]
  simp [foldDesc]

/-- **the MPE descent of the unrolled circuit is the fold over the columns of the leaves that the
layer-wise pass selects** -/
theorem mpeDescent_eq_fold (S : Spec α) (y : Nat) (e : Ev) (hb : 0 < S.batch) (hs : 0 < S.rgSum)
    (hg : 0 < (topVal S e).groups) :
    mpeDescent e (unrollT S y) = (Zof S (mpeIdx S y e)).foldl stepFn e := by
  have hA := aligned_top S e
  have hN : 0 < (topVal S e).nodes := innerVal_nodes_pos S.w S.rgSum hs S.depth 0 (baseVal S e) hb
  have h1 : mpeDescent e (unrollT S y) = desc e (unrollT S y) e := rfl
  rw [h1]
  unfold unrollT
  rw [desc_rootT e _ _ hA (Nat.mul_pos hg hN),
    foldDesc_inner e S.w S.rgSum hs S.depth 0 (baseT S) (baseVal S e) (aligned_base S e) hb,
    foldDesc_base]
  rfl

end base

end RatSample
end Deeprob
