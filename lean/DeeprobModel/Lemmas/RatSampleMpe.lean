import DeeprobModel.Lemmas.RatSamplePmf
import DeeprobModel.Lemmas.ArgmaxLemmas
set_option linter.unusedSimpArgs false
set_option linter.unusedVariables false
set_option linter.unusedSectionVars false
/-
C16 (MPE clause), part 3: the layer-wise index propagation of `RatSpn.mpe` selects exactly the nodes
that the MPE descent (`TCirc.mpeDescent`) of the unrolled circuit visits.
-/
namespace Deeprob
namespace RatSample
open RatSpn TCirc Tensor

section desc
variable {α : Type} [Field α] [LinearOrder α] [IsStrictOrderedRing α]

/-- the MPE pass through one node, started at the empty path -/
def desc (e : Ev) (c : TCirc α) (x : Ev) : Ev := pass (mpeBr e) mpeFill [] c x

theorem passAll_path (e : Ev) (cs : List (TCirc α))
    (IH : ∀ c ∈ cs, ∀ (p q : List Nat) (x : Ev), pass (mpeBr e) mpeFill p c x = pass (mpeBr e) mpeFill q c x) :
    ∀ (p q : List Nat) (j j' : Nat) (x : Ev),
      passAll (mpeBr e) mpeFill p j cs x = passAll (mpeBr e) mpeFill q j' cs x := by
  induction cs with
  | nil => intro p q j j' x; simp [passAll]
  | cons c cs ih =>
    intro p q j j' x
    simp only [passAll]
    rw [IH c List.mem_cons_self (j :: p) (j' :: q) x]
    exact ih (fun d hd => IH d (List.mem_cons_of_mem _ hd)) p q (j + 1) (j' + 1) _

/-- the MPE branch and leaf functions ignore the path -/
theorem pass_path (e : Ev) : ∀ (c : TCirc α) (p q : List Nat) (x : Ev),
    pass (mpeBr e) mpeFill p c x = pass (mpeBr e) mpeFill q c x := by
  intro c
  induction c using TCirc.ind with
  | hl s f m cd => intro p q x; simp [pass, mpeFill]
  | hs s ws cs ih =>
    intro p q x
    simp only [pass, passAt_eq]
    have hb : mpeBr e p ws cs = mpeBr e q ws cs := rfl
    rw [hb]
    cases hk : cs[mpeBr e q ws cs]? with
    | none => rfl
    | some c => exact ih c (List.mem_of_getElem? hk) _ _ x
  | hp s cs ih =>
    intro p q x
    simp only [pass]
    exact passAll_path e cs ih p q 0 0 x

theorem desc_prod2 (e : Ev) (s : List Nat) (a b : TCirc α) (x : Ev) :
    desc e (.prod s [a, b]) x = desc e b (desc e a x) := by
  unfold desc
  simp only [pass, passAll]
  rw [pass_path e a [0] [], pass_path e b [1] []]

theorem desc_sum (e : Ev) (s : List Nat) (ws : List α) (cs : List (TCirc α)) (x : Ev) :
    desc e (.sum s ws cs) x =
      match cs[argmax (List.zipWith (· * ·) ws (cs.map (TCirc.eval e)))]? with
      | some c => desc e c x
      | none => x := by
  unfold desc
  simp only [pass, passAt_eq, mpeBr]
  cases hk : cs[argmax (List.zipWith (· * ·) ws (cs.map (TCirc.eval e)))]? with
  | none => rfl
  | some c => exact pass_path e c _ _ x

/-- sequential MPE passes through the nodes selected by an index pair -/
def foldDesc (e : Ev) (T : Tab (TCirc α)) (io : Idx) (x : Ev) : Ev :=
  (io.1.zip io.2).foldl (fun x go => desc e (T.at_ go.1 go.2) x) x

theorem foldDesc_prodT (e : Ev) (T : Tab (TCirc α)) : ∀ (gs os : List Nat) (x : Ev),
    foldDesc e (prodT T) (gs, os) x = foldDesc e T (prodDownI T.nodes (gs, os)) x
  | [], os, x => by simp [foldDesc, prodDownI, prodDown]
  | g :: gs, [], x => by simp [foldDesc, prodDownI, prodDown]
  | g :: gs, o :: os, x => by
      have ih := foldDesc_prodT e T gs os
      simp only [foldDesc, prodDownI, prodDown, List.zip_cons_cons, List.foldl_cons, List.flatMap_cons,
        List.cons_append, List.nil_append] at ih ⊢
      rw [← ih]
      congr 1
      simp only [prodT]
      exact desc_prod2 e _ _ _ x

theorem argmax_lt_of_pos (l : List α) (m : Nat) (hm : 0 < m) (hl : l.length ≤ m) : argmax l < m := by
  by_cases h : l = []
  · subst h; simpa [argmax] using hm
  · exact Nat.lt_of_lt_of_le (argmax_lt_length l h) hl

theorem desc_sumT (e : Ev) (T : Tab (TCirc α)) (V : Tab α) (hA : Aligned e T V) (hpos : 0 < V.nodes)
    (w : Nat → Nat → List α) (out g o : Nat) (x : Ev) :
    desc e ((sumT w out T).at_ g o) x =
      desc e (T.at_ g (argmax (List.zipWith (· * ·) (w g o) ((List.range V.nodes).map (fun t => V.at_ g t))))) x := by
  simp only [sumT]
  rw [desc_sum, List.map_map, hA.2.1]
  have hv : (List.range V.nodes).map (TCirc.eval e ∘ fun t => T.at_ g t) = (List.range V.nodes).map (fun t => V.at_ g t) := by
    apply List.map_congr_left
    intro t _
    exact hA.2.2 g t
  rw [hv]
  have hlt : argmax (List.zipWith (· * ·) (w g o) ((List.range V.nodes).map (fun t => V.at_ g t))) < V.nodes := by
    apply argmax_lt_of_pos _ _ hpos
    simp only [List.length_zipWith, List.length_map, List.length_range]
    exact Nat.min_le_right _ _
  simp [List.getElem?_map, hlt]

theorem foldDesc_sumT (e : Ev) (T : Tab (TCirc α)) (V : Tab α) (hA : Aligned e T V) (hpos : 0 < V.nodes)
    (w : Nat → Nat → List α) (out : Nat) : ∀ (gs os : List Nat) (x : Ev),
    foldDesc e (sumT w out T) (gs, os) x = foldDesc e T (sumMpe w V (gs, os)) x
  | [], os, x => by simp [foldDesc, sumMpe]
  | g :: gs, [], x => by simp [foldDesc, sumMpe]
  | g :: gs, o :: os, x => by
      have ih := foldDesc_sumT e T V hA hpos w out gs os
      simp only [foldDesc, sumMpe, List.zip_cons_cons, List.foldl_cons, List.zipWith_cons_cons] at ih ⊢
      rw [← ih, desc_sumT e T V hA hpos]

/-- **simulation of the MPE loop**: the descent through the nodes selected at the top of the inner
layers is the descent through the nodes that `mpeDown` selects at the bottom -/
theorem foldDesc_inner (e : Ev) (w : Nat → Nat → Nat → List α) (rgSum : Nat) (hs : 0 < rgSum) :
    ∀ (k l : Nat) (T : Tab (TCirc α)) (V : Tab α), Aligned e T V → 0 < V.nodes →
      ∀ (io : Idx) (x : Ev),
        foldDesc e (innerT w rgSum k l T) io x = foldDesc e T (mpeDown w rgSum k l V io) x
  | 0, _, T, V, _, _, io, x => by simp only [innerT, mpeDown]
  | 1, _, T, V, hA, _, io, x => by
      simp only [innerT, mpeDown]
      rw [← hA.2.1]
      exact foldDesc_prodT e T io.1 io.2 x
  | k + 2, l, T, V, hA, hpos, io, x => by
      simp only [innerT, mpeDown]
      have hA1 := aligned_prod hA
      have hA2 := aligned_sum (w l) rgSum hA1
      have hpos1 : 0 < (prodVal V).nodes := Nat.mul_pos hpos hpos
      rw [foldDesc_inner e w rgSum hs (k + 1) (l + 1) _ _ hA2 hs io x]
      generalize mpeDown w rgSum (k + 1) (l + 1) (sumVal (w l) rgSum (prodVal V)) io = io2
      rw [show io2 = (io2.1, io2.2) from rfl, foldDesc_sumT e _ _ hA1 hpos1 (w l) rgSum io2.1 io2.2 x]
      generalize sumMpe (w l) (prodVal V) (io2.1, io2.2) = io3
      rw [← hA.2.1]
      exact foldDesc_prodT e T io3.1 io3.2 x

/-! ### shapes -/

theorem innerVal_groups (w : Nat → Nat → Nat → List α) (rgSum : Nat) :
    ∀ (k l : Nat) (V : Tab α), (innerVal w rgSum k l V).groups = V.groups / 2 ^ k
  | 0, _, V => by simp [innerVal]
  | 1, _, V => by simp [innerVal, prodVal]
  | k + 2, l, V => by
      simp only [innerVal]
      rw [innerVal_groups w rgSum (k + 1) (l + 1)]
      simp only [sumVal, prodVal]
      rw [Nat.div_div_eq_div_mul, Nat.pow_succ 2 (k + 1), Nat.mul_comm]

theorem innerVal_nodes_pos (w : Nat → Nat → Nat → List α) (rgSum : Nat) (hs : 0 < rgSum) :
    ∀ (k l : Nat) (V : Tab α), 0 < V.nodes → 0 < (innerVal w rgSum k l V).nodes
  | 0, _, V, h => by simpa [innerVal] using h
  | 1, _, V, h => by simpa [innerVal, prodVal] using Nat.mul_pos h h
  | k + 2, l, V, h => by
      simp only [innerVal]
      exact innerVal_nodes_pos w rgSum hs (k + 1) (l + 1) _ hs

theorem mpeDown_groups (w : Nat → Nat → Nat → List α) (rgSum : Nat) (g : Nat) :
    ∀ (k l : Nat) (V : Tab α) (os : List Nat), (mpeDown w rgSum k l V ([g], os)).1 = leafGroups g k
  | 0, _, V, os => by simp [mpeDown, leafGroups]
  | 1, _, V, os => by simp [mpeDown, prodDownI, prodDown, leafGroups]
  | k + 2, l, V, os => by
      simp only [mpeDown, prodDownI, prodDown, sumMpe]
      rw [mpeDown_groups w rgSum g (k + 1) (l + 1)]
      rfl

theorem prodDownI_len (m : Nat) (io : Idx) (h : io.2.length = io.1.length) :
    (prodDownI m io).2.length = (prodDownI m io).1.length := by
  simp [prodDownI, prodDown, List.length_flatMap, h]

theorem mpeDown_len (w : Nat → Nat → Nat → List α) (rgSum : Nat) :
    ∀ (k l : Nat) (V : Tab α) (io : Idx), io.2.length = io.1.length →
      (mpeDown w rgSum k l V io).2.length = (mpeDown w rgSum k l V io).1.length
  | 0, _, V, io, h => by simpa [mpeDown] using h
  | 1, _, V, io, h => by simp only [mpeDown]; exact prodDownI_len _ _ h
  | k + 2, l, V, io, h => by
      simp only [mpeDown]
      apply prodDownI_len
      have ih := mpeDown_len w rgSum (k + 1) (l + 1) (sumVal (w l) rgSum (prodVal V)) io h
      simp [sumMpe, ih]

end desc

end RatSample
end Deeprob
