import DeeprobModel.Model.GraphOrder
import DeeprobModel.Lemmas.PredTree
import DeeprobModel.Lemmas.XpcChain
import Mathlib.Data.List.Perm.Basic
import Mathlib.Data.List.Nodup
import Mathlib.Data.List.Pairwise
import Mathlib.Data.List.Range
import Mathlib.Data.List.Lattice
import Mathlib.Tactic.Ring
set_option linter.unusedSimpArgs false
set_option linter.unusedVariables false
/-
Lemmas for `Props/CltOrder.lean`: the breadth-first order `compute_bfs_ordering` returns and the
array-based bottom-up pass of `message_passing` (Model/GraphOrder.lean).
-/
namespace Deeprob.GraphIo
open Deeprob Deeprob.Clt Deeprob.CltFit

/-! ### 1. the root: `tree.count(-1) == 1`, `tree.index(-1)` -/

/-- `r` is the position of the only occurrence of `a` -/
def OnlyAt (l : List Int) (a : Int) (r : Nat) : Prop :=
  l[r]? = some a ∧ ∀ c, l[c]? = some a → c = r

theorem count_idxOf_of_onlyAt (a : Int) : ∀ (l : List Int) (r : Nat), OnlyAt l a r →
    l.count a = 1 ∧ l.idxOf a = r
  | [], r, h => by simp [OnlyAt] at h
  | x :: xs, 0, h => by
    obtain ⟨h0, hu⟩ := h
    have hx : x = a := by simpa using h0
    subst hx
    have hn : x ∉ xs := by
      intro hm
      obtain ⟨i, hi, hix⟩ := List.getElem_of_mem hm
      have := hu (i + 1) (by simp [hi, hix])
      omega
    refine ⟨?_, ?_⟩
    · rw [List.count_cons, List.count_eq_zero.2 hn]; simp
    · simp [List.idxOf_cons]
  | x :: xs, r + 1, h => by
    obtain ⟨h0, hu⟩ := h
    have hx : x ≠ a := by
      intro hxa
      have := hu 0 (by simp [hxa])
      omega
    have ih := count_idxOf_of_onlyAt a xs r ⟨by simpa using h0, fun c hc => by
      have := hu (c + 1) (by simpa using hc)
      omega⟩
    refine ⟨?_, ?_⟩
    · rw [List.count_cons, ih.1]; simp [hx]
    · have hb : (x == a) = false := by simpa using hx
      rw [List.idxOf_cons, hb, ih.2]; rfl

theorem onlyAt_of_count (a : Int) : ∀ (l : List Int), l.count a = 1 → OnlyAt l a (l.idxOf a)
  | [], h => by simp at h
  | x :: xs, h => by
    by_cases hx : x = a
    · subst hx
      have hc : xs.count x = 0 := by
        rw [List.count_cons] at h
        have hb : (x == x) = true := by simp
        rw [if_pos hb] at h; omega
      have hn : x ∉ xs := List.count_eq_zero.1 hc
      refine ⟨by simp [List.idxOf_cons], ?_⟩
      intro c hc'
      cases c with
      | zero => simp [List.idxOf_cons]
      | succ c =>
        exfalso; apply hn
        have : xs[c]? = some x := by simpa using hc'
        exact List.mem_of_getElem? this
    · have hc : xs.count a = 1 := by
        rw [List.count_cons] at h
        have hb : ¬ ((x == a) = true) := by simpa using hx
        rw [if_neg hb] at h; omega
      have ih := onlyAt_of_count a xs hc
      have hidx : (x :: xs).idxOf a = xs.idxOf a + 1 := by
        have hb : (x == a) = false := by simpa using hx
        rw [List.idxOf_cons, hb]; rfl
      rw [hidx]
      refine ⟨by simpa using ih.1, ?_⟩
      intro c hc'
      cases c with
      | zero => simp at hc'; exact absurd hc' hx
      | succ c =>
        have := ih.2 c (by simpa using hc')
        omega

theorem rootIdx_iff (tree : List Int) (r : Nat) : rootIdx tree = some r ↔ OnlyAt tree (-1) r := by
  unfold rootIdx
  constructor
  · intro h
    split at h
    · rename_i hc
      have := onlyAt_of_count (-1) tree hc
      simp only [Option.some.injEq] at h
      rw [h] at this; exact this
    · cases h
  · intro h
    obtain ⟨h1, h2⟩ := count_idxOf_of_onlyAt (-1) tree r h
    simp [h1, h2]

theorem onlyAt_iff_spec (tree : List Int) (r : Nat) : OnlyAt tree (-1) r ↔
    (r < tree.length ∧ tree.getD r 0 = -1 ∧ ∀ c, c < tree.length → tree.getD c 0 = -1 → c = r) := by
  unfold OnlyAt
  constructor
  · rintro ⟨h0, hu⟩
    have hr : r < tree.length := by
      by_contra hc
      rw [List.getElem?_eq_none (by omega)] at h0; cases h0
    refine ⟨hr, by simp [List.getD_eq_getElem?_getD, h0], ?_⟩
    intro c hc hcm
    apply hu
    rw [List.getD_eq_getElem?_getD, List.getElem?_eq_getElem hc] at hcm
    rw [List.getElem?_eq_getElem hc]
    simpa using hcm
  · rintro ⟨hr, h0, hu⟩
    refine ⟨?_, ?_⟩
    · rw [List.getD_eq_getElem?_getD, List.getElem?_eq_getElem hr] at h0
      rw [List.getElem?_eq_getElem hr]; simpa using h0
    · intro c hc
      have hcl : c < tree.length := by
        by_contra hh
        rw [List.getElem?_eq_none (by omega)] at hc; cases hc
      exact hu c hcl (by simp [List.getD_eq_getElem?_getD, hc])

/-- the code's `tree.count(-1) == 1` / `tree.index(-1)` and the model's `Clt.rootOf` agree -/
theorem rootIdx_eq_rootOf (tree : List Int) : rootIdx tree = Clt.rootOf tree := by
  cases h : Clt.rootOf tree with
  | some r =>
    obtain ⟨h1, h2, h3⟩ := Clt.rootOf_some h
    exact (rootIdx_iff tree r).2 ((onlyAt_iff_spec tree r).2 ⟨h1, h2, h3⟩)
  | none =>
    cases h' : rootIdx tree with
    | none => rfl
    | some r =>
      obtain ⟨h1, h2, h3⟩ := (onlyAt_iff_spec tree r).1 ((rootIdx_iff tree r).1 h')
      have := Clt.rootOf_eq tree r h1 (fun c hc => ⟨fun hcm => h3 c hc hcm, fun hcr => by rw [hcr]; exact h2⟩)
      rw [h] at this; cases this

theorem wf_iff (tree : List Int) : WellFormedPred tree ↔
    ∃ r, rootIdx tree = some r ∧ isRootedSpanningTree tree r = true := by
  unfold WellFormedPred wellFormedPred
  cases h : rootIdx tree with
  | none => simp
  | some r => simp

theorem rootIdx_of_isRST {tree : List Int} {r : Nat} (h : isRootedSpanningTree tree r = true) :
    rootIdx tree = some r := by
  rw [rootIdx_eq_rootOf]; exact rootOf_of_isRST h

/-! ### 2. entries and depths of a well-formed vector -/

/-- the facts about a well-formed vector used everywhere below -/
structure WF (tree : List Int) (r : Nat) : Prop where
  rst : isRootedSpanningTree tree r = true
  root : rootIdx tree = some r

theorem WF.of_wf {tree : List Int} (h : WellFormedPred tree) : ∃ r, WF tree r := by
  obtain ⟨r, h1, h2⟩ := (wf_iff tree).1 h
  exact ⟨r, h2, h1⟩

theorem WF.wf {tree : List Int} {r : Nat} (h : WF tree r) : WellFormedPred tree :=
  (wf_iff tree).2 ⟨r, h.root, h.rst⟩

section wf
variable {tree : List Int} {r : Nat} (h : WF tree r)
include h

theorem WF.r_lt : r < tree.length := ((isRST_iff tree r).1 h.rst).1

theorem WF.pos : 0 < tree.length := Nat.lt_of_le_of_lt (Nat.zero_le _) h.r_lt

theorem WF.root_entry (a : Int) : tree.getD r a = -1 := by
  rw [getD_irrel tree h.r_lt a 0]; exact ((isRST_iff tree r).1 h.rst).2.1

theorem WF.parent_root : parent tree r = none := parent_root_none h.rst

theorem WF.parent_ne {i : Nat} (hi : i < tree.length) (hir : i ≠ r) :
    ∃ p, parent tree i = some p ∧ p ≠ i ∧ p < tree.length ∧ tree.getD i (-1) = (p : Int) := by
  obtain ⟨p, h1, h2, h3, _⟩ := parent_of_isRST h.rst hi hir
  exact ⟨p, h1, h2, h3, (parent_some h1).1⟩

theorem WF.reaches {i : Nat} (hi : i < tree.length) : reaches tree r (tree.length - 1) i = true :=
  ((isRST_iff tree r).1 h.rst).2.2.2 i hi

end wf

theorem parent_of_entry {tree : List Int} {i p : Nat} (hp : p < tree.length)
    (he : tree.getD i (-1) = (p : Int)) : parent tree i = some p := by
  unfold parent
  simp only [he]
  have : (0 : Int) ≤ (p : Int) ∧ ((p : Int)).toNat < tree.length := ⟨by omega, by simpa using hp⟩
  rw [if_pos this]; simp

theorem depth_stable {tree : List Int} {r : Nat} (hr : parent tree r = none) :
    ∀ (f i : Nat), reaches tree r f i = true →
      depth tree f i ≤ f ∧ ∀ g, f ≤ g → depth tree g i = depth tree f i
  | 0, i, hre => by
    simp only [reaches, beq_iff_eq] at hre
    subst hre
    refine ⟨by simp [depth], ?_⟩
    intro g _
    cases g with
    | zero => rfl
    | succ g => simp [depth, hr]
  | f + 1, i, hre => by
    simp only [reaches, Bool.or_eq_true, beq_iff_eq] at hre
    by_cases hir : i = r
    · subst hir
      refine ⟨by simp [depth, hr], ?_⟩
      intro g _
      cases g with
      | zero => simp [depth, hr]
      | succ g => simp [depth, hr]
    · rcases hre with hre | hre
      · exact absurd hre hir
      · cases hp : parent tree i with
        | none => rw [hp] at hre; cases hre
        | some p =>
          rw [hp] at hre
          obtain ⟨ih1, ih2⟩ := depth_stable hr f p hre
          refine ⟨by simp only [depth, hp]; omega, ?_⟩
          intro g hg
          obtain ⟨g', rfl⟩ : ∃ g', g = g' + 1 := ⟨g - 1, by omega⟩
          simp only [depth, hp]
          rw [ih2 g' (by omega)]

section wf2
variable {tree : List Int} {r : Nat} (h : WF tree r)
include h

theorem WF.depth_root : depthOf tree r = 0 := by
  unfold depthOf
  obtain ⟨m, hm⟩ : ∃ m, tree.length = m + 1 := ⟨tree.length - 1, by have := h.pos; omega⟩
  rw [hm]; simp [depth, h.parent_root]

theorem WF.depth_le {i : Nat} (hi : i < tree.length) : depthOf tree i ≤ tree.length - 1 := by
  unfold depthOf
  obtain ⟨h1, h2⟩ := depth_stable h.parent_root _ i (h.reaches hi)
  rw [h2 tree.length (by omega)]; exact h1

theorem WF.depth_child {i p : Nat} (hi : i < tree.length) (hp : parent tree i = some p) :
    depthOf tree i = depthOf tree p + 1 := by
  unfold depthOf
  obtain ⟨m, hm⟩ : ∃ m, tree.length = m + 1 := ⟨tree.length - 1, by have := h.pos; omega⟩
  have hpl : p < tree.length := (parent_some hp).2
  obtain ⟨_, h2⟩ := depth_stable h.parent_root _ p (h.reaches hpl)
  rw [h2 tree.length (by omega)]
  conv_lhs => rw [hm]
  simp only [depth, hp]
  rw [hm]; simp

theorem WF.depth_zero {i : Nat} (hi : i < tree.length) (hd : depthOf tree i = 0) : i = r := by
  by_contra hir
  obtain ⟨p, hp, _⟩ := h.parent_ne hi hir
  have := h.depth_child hi hp
  omega

end wf2

/-! ### 3. children lists -/

theorem mem_childrenOf_iff {tree : List Int} {j c : Nat} :
    c ∈ childrenOf tree j ↔ c < tree.length ∧ tree.getD c (-1) = (j : Int) := by
  unfold childrenOf
  simp [List.mem_filter]

theorem childrenOf_nodup (tree : List Int) (j : Nat) : (childrenOf tree j).Nodup :=
  List.Nodup.filter _ List.nodup_range

theorem childrenOf_sorted (tree : List Int) (j : Nat) : (childrenOf tree j).Pairwise (· < ·) :=
  List.Pairwise.filter _ List.pairwise_lt_range

theorem WF.mem_children {tree : List Int} {r : Nat} (h : WF tree r) {j c : Nat} :
    c ∈ childrenOf tree j ↔ c < tree.length ∧ parent tree c = some j := by
  rw [mem_childrenOf_iff]
  constructor
  · rintro ⟨hc, he⟩
    refine ⟨hc, ?_⟩
    by_cases hcr : c = r
    · subst hcr; rw [h.root_entry] at he; omega
    · obtain ⟨p, hp, _, hpl, hpe⟩ := h.parent_ne hc hcr
      have : p = j := by rw [hpe] at he; omega
      subst this; exact hp
  · rintro ⟨hc, hp⟩
    exact ⟨hc, (parent_some hp).1⟩

theorem WF.children_of_big {tree : List Int} {r : Nat} (h : WF tree r) {j : Nat} (hj : tree.length ≤ j) :
    childrenOf tree j = [] := by
  apply List.eq_nil_iff_forall_not_mem.2
  intro c hc
  have := (parent_some (h.mem_children.1 hc).2).2
  omega

/-- all entries are `-1` or an index -/
def EntriesOK (n : Nat) (t : List Int) : Prop := ∀ x ∈ t, x = -1 ∨ (0 ≤ x ∧ x.toNat < n)

theorem WF.entriesOK {tree : List Int} {r : Nat} (h : WF tree r) : EntriesOK tree.length tree := by
  intro x hx
  obtain ⟨i, hi, rfl⟩ := List.getElem_of_mem hx
  by_cases hir : i = r
  · left
    have := h.root_entry 0
    rw [List.getD_eq_getElem?_getD, List.getElem?_eq_getElem h.r_lt] at this
    subst hir; simpa using this
  · right
    obtain ⟨p, _, _, hpl, hpe⟩ := h.parent_ne hi hir
    rw [List.getD_eq_getElem?_getD, List.getElem?_eq_getElem hi] at hpe
    have : tree[i] = (p : Int) := by simpa using hpe
    rw [this]; exact ⟨by omega, by simpa using hpl⟩

theorem pyIndex_nat {n p : Nat} (hp : p < n) : pyIndex n (p : Int) = some p := by
  unfold pyIndex
  have : (0 : Int) ≤ (p : Int) := by omega
  simp [this, hp]

/-- the loop of `build_tree_structure` over a prefix `t` of the vector -/
theorem childLists_prefix (n : Nat) : ∀ (t : List Int), EntriesOK n t →
    t.zipIdx.foldl addChild (some (List.replicate n [])) =
      some ((List.range n).map (fun (j : Nat) => (List.range t.length).filter (fun c => t.getD c (-1) == (j : Int)))) := by
  intro t
  induction t using List.reverseRecOn with
  | nil =>
    intro _
    simp only [List.zipIdx_nil, List.foldl_nil, List.length_nil, List.range_zero, List.filter_nil]
    congr 1
    apply List.ext_getElem?
    intro j
    by_cases hj : j < n
    · simp [hj]
    · simp [Nat.le_of_not_lt hj]
  | append_singleton t x ih =>
    intro hok
    have hok' : EntriesOK n t := fun y hy => hok y (List.mem_append_left _ hy)
    have hx := hok x (by simp)
    rw [List.zipIdx_append, List.foldl_append, ih hok']
    simp only [List.zipIdx_cons, List.zipIdx_nil, List.foldl_cons, List.foldl_nil, Nat.zero_add]
    unfold addChild
    simp only [Option.bind_some, List.length_map, List.length_range]
    have hfil : ∀ j : Nat, (List.range (t ++ [x]).length).filter (fun c => (t ++ [x]).getD c (-1) == (j : Int)) =
        (List.range t.length).filter (fun c => t.getD c (-1) == (j : Int)) ++ (if x = (j : Int) then [t.length] else []) := by
      intro j
      rw [List.length_append, List.length_singleton, List.range_succ, List.filter_append]
      congr 1
      · apply List.filter_congr
        intro c hc
        have hc' : c < t.length := List.mem_range.1 hc
        simp [List.getD_eq_getElem?_getD, List.getElem?_append_left hc']
      · have hl : (t ++ [x])[t.length]? = some x := by simp
        by_cases hxj : x = (j : Int)
        · simp [List.getD_eq_getElem?_getD, hl, hxj]
        · simp [List.getD_eq_getElem?_getD, hl, hxj]
    rcases hx with hx | ⟨hx0, hxn⟩
    · subst hx
      simp only [if_true]
      congr 1
      apply List.map_congr_left
      intro j _
      rw [hfil j]
      have : ¬ ((-1 : Int) = (j : Int)) := by omega
      simp [this]
    · have hne : x ≠ -1 := by omega
      obtain ⟨p, rfl⟩ : ∃ p : Nat, x = (p : Int) := ⟨x.toNat, (Int.toNat_of_nonneg hx0).symm⟩
      have hpn : p < n := by simpa using hxn
      rw [if_neg hne, pyIndex_nat hpn]
      simp only [Option.map_some]
      congr 1
      apply List.ext_getElem?
      intro j
      rw [List.getElem?_modify]
      by_cases hj : j < n
      · simp only [List.getElem?_map, List.getElem?_range hj, Option.map_some]
        rw [hfil j]
        by_cases hpj : p = j
        · subst hpj; simp
        · have : ¬ ((p : Int) = (j : Int)) := by omega
          simp [hpj, this]
      · simp [List.getElem?_eq_none, Nat.le_of_not_lt hj]

theorem WF.childLists_eq {tree : List Int} {r : Nat} (h : WF tree r) :
    childLists tree = some ((List.range tree.length).map (childrenOf tree)) := by
  unfold childLists
  rw [childLists_prefix tree.length tree h.entriesOK]
  rfl

theorem WF.getD_children {tree : List Int} {r : Nat} (h : WF tree r) :
    (fun q => ((List.range tree.length).map (childrenOf tree)).getD q []) = childrenOf tree := by
  funext q
  by_cases hq : q < tree.length
  · simp [List.getD_eq_getElem?_getD, hq]
  · rw [h.children_of_big (Nat.le_of_not_lt hq)]
    simp [List.getD_eq_getElem?_getD, Nat.le_of_not_lt hq]

end Deeprob.GraphIo
