import DeeprobModel.Lemmas.SumLemmas
set_option linter.unusedSimpArgs false

namespace Deeprob
namespace Circ
variable {α : Type} [CommSemiring α]

theorem sumVar_tbl (tbl : List α) : sumVar tbl.length (fun k => tbl.getD k 0) = tsum tbl := by
  induction tbl with
  | nil => simp [sumVar, tsum]
  | cons x xs ih =>
    unfold sumVar at *
    rw [List.length_cons, List.range_succ_eq_map]
    simp only [List.foldr_cons, List.foldr_map, tsum]
    simp only [Function.comp_def] at *
    simp at ih ⊢
    rw [← ih]

/-- a normalised table leaf is a distribution over its variable -/
theorem catLeaf_ok (dom : Nat → Nat) (v : Nat) (tbl : List α) (hl : tbl.length = dom v) (hs : tsum tbl = 1) :
    LeafOK dom [v] (catLeafFn v tbl) where
  local_ := by
    intro a b h
    have : a v = b v := h v (by simp)
    simp [catLeafFn, this]
  marg := by
    intro e
    simp only [sumOver]
    split
    · rfl
    · rename_i hnone
      simp only [catLeafFn, hnone, Ev.set_self]
      rw [← hl, sumVar_tbl, hs]

/-- a valid circuit looks only at the variables of its scope -/
theorem eval_congr (dom : Nat → Nat) : (c : Circ α) → Valid dom c → ∀ a b : Ev, (∀ v ∈ scope c, a v = b v) → eval a c = eval b c
  | leaf s f, hv, a, b, h => by
      unfold Valid at hv
      simp only [eval]; exact hv.local_ a b h
  | sum s ws cs, hv, a, b, h => by
      unfold Valid at hv
      obtain ⟨_, _, hsc, hval⟩ := hv
      have : cs.map (eval a) = cs.map (eval b) := by
        apply List.map_congr_left; intro c hc
        apply eval_congr dom c (hval c hc) a b
        intro v hvc; apply h; simp only [scope]; exact (hsc c hc v).1 hvc
      simp [eval, this]
  | prod s cs, hv, a, b, h => by
      unfold Valid at hv
      obtain ⟨_, hsc, hval⟩ := hv
      have : cs.map (eval a) = cs.map (eval b) := by
        apply List.map_congr_left; intro c hc
        apply eval_congr dom c (hval c hc) a b
        intro v hvc; apply h; simp only [scope]; apply (hsc v).1
        simp only [List.mem_flatten, List.mem_map]
        exact ⟨scope c, ⟨c, hc, rfl⟩, hvc⟩
      simp [eval, this]

theorem lprod_congr (dom : Nat → Nat) (cs : List (Circ α)) (hval : ∀ c ∈ cs, Valid dom c) (a b : Ev)
    (h : ∀ v ∈ (cs.map scope).flatten, a v = b v) : lprod (cs.map (eval a)) = lprod (cs.map (eval b)) := by
  have : cs.map (eval a) = cs.map (eval b) := by
    apply List.map_congr_left; intro c hc
    apply eval_congr dom c (hval c hc) a b
    intro v hvc; apply h
    simp only [List.mem_flatten, List.mem_map]
    exact ⟨scope c, ⟨c, hc, rfl⟩, hvc⟩
  rw [this]

theorem prod_list (dom : Nat → Nat) (cs : List (Circ α)) (hval : ∀ c ∈ cs, Valid dom c)
    (hnd : (cs.map scope).flatten.Nodup)
    (IH : ∀ c ∈ cs, ∀ e, eval e c = sumOver dom (scope c) e (fun e' => eval e' c)) :
    ∀ e, lprod (cs.map (eval e)) = sumOver dom (cs.map scope).flatten e (fun e' => lprod (cs.map (eval e'))) := by
  induction cs with
  | nil => intro e; simp [sumOver, lprod]
  | cons c cs ih =>
    intro e
    have hvalc : Valid dom c := hval c List.mem_cons_self
    have hvalcs : ∀ d ∈ cs, Valid dom d := fun d hd => hval d (List.mem_cons_of_mem _ hd)
    simp only [List.map_cons, List.flatten_cons] at hnd ⊢
    rw [List.nodup_append] at hnd
    obtain ⟨_, hnd2, hdisj⟩ := hnd
    have ih' := ih hvalcs hnd2 (fun d hd => IH d (List.mem_cons_of_mem _ hd))
    rw [sumOver_append]
    simp only [lprod]
    have step1 : sumOver dom (scope c) e (fun e1 => sumOver dom (cs.map scope).flatten e1
          (fun e2 => eval e2 c * lprod (cs.map (eval e2))))
        = sumOver dom (scope c) e (fun e1 => eval e1 c * lprod (cs.map (eval e))) := by
      apply sumOver_congr; intro e1 he1
      have : sumOver dom (cs.map scope).flatten e1 (fun e2 => eval e2 c * lprod (cs.map (eval e2)))
           = sumOver dom (cs.map scope).flatten e1 (fun e2 => eval e1 c * lprod (cs.map (eval e2))) := by
        apply sumOver_congr; intro e2 he2
        congr 1
        apply eval_congr dom c hvalc
        intro v hv; apply he2; intro hc; exact hdisj v hv v hc rfl
      rw [this, sumOver_mul, ← ih' e1]
      congr 1
      apply lprod_congr dom cs hvalcs
      intro v hv; apply he1; intro hc; exact hdisj v hc v hv rfl
    rw [step1]
    have step2 : sumOver dom (scope c) e (fun e1 => eval e1 c * lprod (cs.map (eval e)))
        = lprod (cs.map (eval e)) * sumOver dom (scope c) e (fun e1 => eval e1 c) := by
      rw [← sumOver_mul]; apply sumOver_congr; intro e1 _; ring
    rw [step2, ← IH c List.mem_cons_self e]; ring

theorem wsum_sumOver (dom : Nat → Nat) (S : List Nat) (e : Ev) (ws : List α) (cs : List (Circ α)) :
    sumOver dom S e (fun e' => wsum ws (cs.map (eval e'))) = wsum ws (cs.map (fun c => sumOver dom S e (fun e' => eval e' c))) := by
  induction ws generalizing cs with
  | nil =>
    simp only [wsum]; exact sumOver_zero dom S e
  | cons w ws ih =>
    cases cs with
    | nil =>
      simp only [List.map_nil, wsum]; exact sumOver_zero dom S e
    | cons c cs =>
      simp only [List.map_cons, wsum]
      rw [sumOver_add, sumOver_mul, ih]

theorem wsum_ones (ws : List α) (xs : List α) (h : ∀ x ∈ xs, x = 1) (hl : ws.length = xs.length) :
    wsum ws xs = tsum ws := by
  induction ws generalizing xs with
  | nil => simp [wsum, tsum]
  | cons w ws ih =>
    cases xs with
    | nil => simp at hl
    | cons x xs =>
      simp only [wsum, tsum]
      rw [h x List.mem_cons_self, ih xs (fun y hy => h y (List.mem_cons_of_mem _ hy)) (by simpa using hl)]
      ring

theorem lprod_ones (xs : List α) (h : ∀ x ∈ xs, x = 1) : lprod xs = 1 := by
  induction xs with
  | nil => rfl
  | cons x xs ih =>
    simp only [lprod]
    rw [h x List.mem_cons_self, ih (fun y hy => h y (List.mem_cons_of_mem _ hy))]; ring

end Circ
end Deeprob
