import DeeprobModel.Model.CltPc
import DeeprobModel.Spec.Structured
import DeeprobModel.Props.CircMarg
import Mathlib.Tactic.Ring
import Mathlib.Tactic.FieldSimp
import Mathlib.Algebra.Order.Field.Basic
import Mathlib.Data.List.Perm.Basic
set_option linter.unusedSimpArgs false
set_option linter.unusedVariables false

namespace Deeprob
section
variable {α : Type} [CommSemiring α]

theorem lprod_append (a b : List α) : lprod (a ++ b) = lprod a * lprod b := by
  induction a with
  | nil => simp [lprod]
  | cons x xs ih => simp only [List.cons_append, lprod, ih]; ring

theorem lprod_reverse (a : List α) : lprod a.reverse = lprod a := by
  induction a with
  | nil => rfl
  | cons x xs ih => rw [List.reverse_cons, lprod_append, ih]; simp only [lprod]; ring

theorem lprod_perm {a b : List α} (h : a.Perm b) : lprod a = lprod b := by
  induction h with
  | nil => rfl
  | cons x _ ih => simp only [lprod, ih]
  | swap x y l => simp only [lprod]; ring
  | trans _ _ ih1 ih2 => rw [ih1, ih2]

theorem lprod_map_mul {β : Type} (cs : List β) (f g : β → α) :
    lprod (cs.map fun c => f c * g c) = lprod (cs.map f) * lprod (cs.map g) := by
  induction cs with
  | nil => simp [lprod]
  | cons x xs ih => simp only [List.map_cons, lprod, ih]; ring

theorem lprod_flatten (L : List (List α)) : lprod L.flatten = lprod (L.map lprod) := by
  induction L with
  | nil => rfl
  | cons x xs ih => simp only [List.flatten_cons, List.map_cons, lprod, lprod_append, ih]

theorem lprod_zero_mem (a : List α) (h : (0:α) ∈ a) : lprod a = 0 := by
  induction a with
  | nil => simp at h
  | cons x xs ih =>
    simp only [lprod]
    rcases List.mem_cons.1 h with h | h
    · rw [← h]; ring
    · rw [ih h]; ring

end

namespace Clt
section
variable {α : Type} [CommSemiring α]

/-! ### `to_pc` evaluates to the upward message -/

theorem catLeafFn_indicator (v k : Nat) (e : Ev) :
    Circ.catLeafFn v (indicator (α := α) k) e =
      match e v with
      | none => 1
      | some o => if k = 0 then (if o = 0 then 1 else 0) else (if o = 1 then 1 else 0) := by
  unfold Circ.catLeafFn indicator
  cases h : e v with
  | none => rfl
  | some o =>
    simp only
    by_cases hk : k = 0
    · simp only [hk, if_true]
      rcases o with _ | _ | o <;> simp
    · simp only [hk, if_false]
      rcases o with _ | _ | o <;> simp

theorem cptAt_ge (cpt : List (List (List α))) (i l k : Nat) (h : 2 ≤ k) : cptAt cpt i l k = 0 := by
  unfold cptAt; rw [if_neg (by omega)]

/-- the value the sum node of `pc` and the message `up` share: one term per value of the variable -/
theorem up_node (scope : List Nat) (cpt : List (List (List α))) (i : Nat) (cs : List RTree) (l : Nat) (e : Ev) :
    up scope cpt (.node i cs) l e =
      cptAt cpt i l 0 * (Circ.catLeafFn (scope.getD i 0) (indicator 0) e * lprod (cs.map (fun c => up scope cpt c 0 e)))
      + (cptAt cpt i l 1 * (Circ.catLeafFn (scope.getD i 0) (indicator 1) e * lprod (cs.map (fun c => up scope cpt c 1 e))) + 0) := by
  rw [up, catLeafFn_indicator, catLeafFn_indicator]
  cases h : e (scope.getD i 0) with
  | none => simp [sumVar, List.range, List.range.loop]
  | some o =>
    rcases o with _ | _ | o
    · simp
    · simp
    · simp [cptAt_ge]

theorem pc_eval_lem (scope : List Nat) (cpt : List (List (List α))) : (t : RTree) → (l : Nat) → (e : Ev) →
    Circ.eval e (pc scope cpt t l) = up scope cpt t l e
  | .node i cs, l, e => by
    have ih : ∀ k, (cs.map (fun c => pc scope cpt c k)).map (Circ.eval e) = cs.map (fun c => up scope cpt c k e) := by
      intro k; rw [List.map_map]; apply List.map_congr_left; intro c hc
      exact pc_eval_lem scope cpt c k e
    rw [up_node, pc]
    by_cases hcs : cs.isEmpty = true
    · have : cs = [] := List.isEmpty_iff.1 hcs
      subst this
      simp [Circ.mkSum, Circ.eval, Circ.catLeaf, wsum, lprod]
    · simp only [hcs, Circ.mkSum, Circ.mkProd, Circ.eval, wsum, List.map_cons, List.map_nil, lprod,
        Circ.catLeaf, List.map_reverse, ih, lprod_reverse, if_false, Bool.false_eq_true]

/-! ### stored scopes and validity of `to_pc` -/

theorem lab_node (scope : List Nat) (i : Nat) (cs : List RTree) :
    lab scope (.node i cs) = scope.getD i 0 :: (cs.map (lab scope)).flatten := by
  simp only [lab, RTree.vars, List.map_cons, List.map_flatten, List.map_map]
  rfl

theorem lab_child_sub (scope : List Nat) (i : Nat) (cs : List RTree) (c : RTree) (hc : c ∈ cs) :
    ∀ v ∈ lab scope c, v ∈ lab scope (.node i cs) := by
  intro v hv
  rw [lab_node]
  apply List.mem_cons_of_mem
  simp only [List.mem_flatten, List.mem_map]
  exact ⟨lab scope c, ⟨c, hc, rfl⟩, hv⟩

theorem lab_child_nodup (scope : List Nat) (i : Nat) (cs : List RTree) (c : RTree) (hc : c ∈ cs)
    (h : (lab scope (.node i cs)).Nodup) : (lab scope c).Nodup := by
  rw [lab_node] at h
  exact (List.nodup_flatten.1 (List.nodup_cons.1 h).2).1 _ (List.mem_map_of_mem hc)

theorem reverse_flatten_perm {β : Type} (cs : List β) (f g : β → List Nat) (h : ∀ c ∈ cs, (f c).Perm (g c)) :
    ((cs.map f).reverse.flatten).Perm (cs.map g).flatten := by
  induction cs with
  | nil => simp
  | cons c cs ih =>
    simp only [List.map_cons, List.reverse_cons, List.flatten_append, List.flatten_cons, List.flatten_nil,
      List.append_nil]
    exact List.perm_append_comm.trans
      ((h c List.mem_cons_self).append (ih (fun d hd => h d (List.mem_cons_of_mem _ hd))))

/-- the scope stored by `to_pc` lists exactly the variables of the sub-tree (in another order) -/
theorem pcScope_perm (scope : List Nat) : (t : RTree) → (pcScope scope t).Perm (lab scope t)
  | .node i cs => by
    rw [pcScope, lab_node]
    apply List.Perm.cons
    exact reverse_flatten_perm cs _ _ (fun c hc => pcScope_perm scope c)

theorem pc_scope (scope : List Nat) (cpt : List (List (List α))) : (t : RTree) → (l : Nat) →
    Circ.scope (pc scope cpt t l) = pcScope scope t
  | .node i cs, l => by
    have ih : ∀ k, (cs.map (fun c => pc scope cpt c k)).map Circ.scope = cs.map (pcScope scope) := by
      intro k; rw [List.map_map]; apply List.map_congr_left; intro c hc
      exact pc_scope scope cpt c k
    rw [pc, pcScope]
    by_cases hcs : cs.isEmpty = true
    · have : cs = [] := List.isEmpty_iff.1 hcs
      subst this
      simp [Circ.mkSum, Circ.scope, Circ.catLeaf]
    · simp only [hcs, Circ.mkSum, Circ.mkProd, Circ.scope, List.map_cons, Circ.catLeaf, List.map_reverse, ih,
        if_false, Bool.false_eq_true, List.flatten_cons, List.singleton_append]

theorem tsum_indicator (k : Nat) : tsum (indicator (α := α) k) = 1 := by
  unfold indicator; split <;> simp [tsum]

theorem length_indicator (k : Nat) : (indicator (α := α) k).length = 2 := by
  unfold indicator; split <;> rfl

theorem pc_valid_lem (dom : Nat → Nat) (scope : List Nat) (cpt : List (List (List α))) : (t : RTree) → (l : Nat) →
    (lab scope t).Nodup → (∀ v ∈ lab scope t, dom v = 2) → Circ.Valid dom (pc scope cpt t l)
  | .node i cs, l, hnd, hdom => by
    have hv : dom (scope.getD i 0) = 2 := hdom _ (by rw [lab_node]; exact List.mem_cons_self)
    have hleaf : ∀ k, Circ.Valid dom (Circ.catLeaf (scope.getD i 0) (indicator (α := α) k)) := by
      intro k
      unfold Circ.catLeaf Circ.Valid
      exact Circ.catLeaf_ok dom _ _ (by rw [length_indicator, hv]) (tsum_indicator k)
    have ih : ∀ k, ∀ c ∈ cs, Circ.Valid dom (pc scope cpt c k) := by
      intro k c hc
      exact pc_valid_lem dom scope cpt c k (lab_child_nodup scope i cs c hc hnd)
        (fun v hv => hdom v (lab_child_sub scope i cs c hc v hv))
    have hsc : ∀ k, (cs.map (fun c => pc scope cpt c k)).map Circ.scope = cs.map (pcScope scope) := by
      intro k; rw [List.map_map]; apply List.map_congr_left; intro c hc
      exact pc_scope scope cpt c k
    have hnd' : (pcScope scope (.node i cs)).Nodup := (pcScope_perm scope _).nodup_iff.2 hnd
    rw [pcScope] at hnd'
    rw [pc]
    by_cases hcs : cs.isEmpty = true
    · simp only [hcs, if_true, Circ.mkSum]
      unfold Circ.Valid
      refine ⟨by simp, by simp, ?_, ?_⟩
      · intro c hc
        simp only [List.mem_cons, List.not_mem_nil, or_false] at hc
        rcases hc with rfl | rfl <;> simp [Circ.catLeaf, Circ.scope, scopeEq]
      · intro c hc
        simp only [List.mem_cons, List.not_mem_nil, or_false] at hc
        rcases hc with rfl | rfl <;> exact hleaf _
    · have hprod : ∀ k, Circ.Valid dom
          (Circ.mkProd (Circ.catLeaf (scope.getD i 0) (indicator (α := α) k) :: (cs.map (fun c => pc scope cpt c k)).reverse)) := by
        intro k
        unfold Circ.mkProd Circ.Valid
        refine ⟨?_, fun v => Iff.rfl, ?_⟩
        · simpa only [List.map_cons, Circ.catLeaf, Circ.scope, List.map_reverse, hsc, List.flatten_cons,
            List.singleton_append] using hnd'
        · intro c hc
          simp only [List.mem_cons, List.mem_reverse, List.mem_map] at hc
          rcases hc with rfl | ⟨d, hd, rfl⟩
          · exact hleaf k
          · exact ih k d hd
      simp only [hcs, if_false, Bool.false_eq_true, Circ.mkSum]
      unfold Circ.Valid
      refine ⟨by simp, by simp, ?_, ?_⟩
      · intro c hc
        simp only [List.mem_cons, List.not_mem_nil, or_false] at hc
        rcases hc with rfl | rfl
        · exact fun v => Iff.rfl
        · simp only [Circ.mkProd, Circ.scope, List.map_cons, Circ.catLeaf, List.map_reverse, hsc]
          exact fun v => Iff.rfl
      · intro c hc
        simp only [List.mem_cons, List.not_mem_nil, or_false] at hc
        rcases hc with rfl | rfl <;> exact hprod _

/-! ### locality, marginalisation, normalisation of the upward message -/

/-- the message of a sub-tree looks only at the variables of the sub-tree -/
theorem up_congr (scope : List Nat) (cpt : List (List (List α))) : (t : RTree) → (l : Nat) → (a b : Ev) →
    (∀ v ∈ lab scope t, a v = b v) → up scope cpt t l a = up scope cpt t l b
  | .node i cs, l, a, b, h => by
    have hv : a (scope.getD i 0) = b (scope.getD i 0) := h _ (by rw [lab_node]; exact List.mem_cons_self)
    have ih : ∀ k, cs.map (fun c => up scope cpt c k a) = cs.map (fun c => up scope cpt c k b) := by
      intro k; apply List.map_congr_left; intro c hc
      exact up_congr scope cpt c k a b (fun v hv => h v (lab_child_sub scope i cs c hc v hv))
    rw [up, up, hv]
    simp only [ih]

/-- **message passing = explicit sum over completions** (every evidence pattern), obtained from
`Circ.marg` applied to the circuit `to_pc` builds -/
theorem up_marg_lem (dom : Nat → Nat) (scope : List Nat) (cpt : List (List (List α))) (t : RTree) (l : Nat)
    (hnd : (lab scope t).Nodup) (hdom : ∀ v ∈ lab scope t, dom v = 2) (e : Ev) :
    up scope cpt t l e = sumOver dom (lab scope t) e (fun e' => up scope cpt t l e') := by
  have h := Circ.marg dom (pc scope cpt t l) (pc_valid_lem dom scope cpt t l hnd hdom) e
  rw [pc_eval_lem, pc_scope, sumOver_perm dom (pcScope_perm scope t)] at h
  simpa only [pc_eval_lem] using h

theorem clt_leafOK_lem (dom : Nat → Nat) (scope : List Nat) (cpt : List (List (List α))) (t : RTree) (l : Nat)
    (hnd : (lab scope t).Nodup) (hdom : ∀ v ∈ lab scope t, dom v = 2) :
    LeafOK dom (lab scope t) (up scope cpt t l) where
  local_ := fun a b h => up_congr scope cpt t l a b h
  marg := fun e => (up_marg_lem dom scope cpt t l hnd hdom e).symm

theorem vars_child_sub (i : Nat) (cs : List RTree) (c : RTree) (hc : c ∈ cs) :
    ∀ j ∈ c.vars, j ∈ (RTree.node i cs).vars := by
  intro j hj
  rw [RTree.vars]
  apply List.mem_cons_of_mem
  simp only [List.mem_flatten, List.mem_map]
  exact ⟨c.vars, ⟨c, hc, rfl⟩, hj⟩

/-- nothing observed ⇒ the message is one, when every CPT row of the sub-tree sums to one -/
theorem up_all_missing (scope : List Nat) (cpt : List (List (List α))) : (t : RTree) → (l : Nat) → l < 2 →
    (∀ i ∈ t.vars, ∀ l < 2, cptAt cpt i l 0 + cptAt cpt i l 1 = 1) → up scope cpt t l (fun _ => none) = 1
  | .node i cs, l, hl, h => by
    have ih : ∀ k < 2, lprod (cs.map (fun c => up scope cpt c k (fun _ => none))) = 1 := by
      intro k hk
      apply Circ.lprod_ones
      intro x hx
      obtain ⟨c, hc, rfl⟩ := List.mem_map.1 hx
      exact up_all_missing scope cpt c k hk (fun j hj => h j (vars_child_sub i cs c hc j hj))
    rw [up]
    simp only [sumVar, List.range, List.range.loop, List.foldr, ih 0 (by omega), ih 1 (by omega), mul_one, add_zero]
    exact h i (by simp [RTree.vars]) l hl

/-! ### complete evidence: the message is the product of the selected CPT entries -/

theorem up_complete (scope : List Nat) (cpt : List (List (List α))) (x : Nat → Nat) : (t : RTree) → (l : Nat) →
    up scope cpt t l (fun v => some (x v)) = treeJoint scope cpt x t l
  | .node i cs, l => by
    have ih : ∀ k, cs.map (fun c => up scope cpt c k (fun v => some (x v))) = cs.map (fun c => treeJoint scope cpt x c k) := by
      intro k; apply List.map_congr_left; intro c hc
      exact up_complete scope cpt x c k
    rw [up, treeJoint]
    simp only [ih]

/-- one factor of the vectorised full-evidence path `params[vs, x[:, tree], x[:, vs]]` -/
def jointFactor (scope : List Nat) (pred : List Int) (cpt : List (List (List α))) (x : Nat → Nat) (i : Nat) : α :=
  cptAt cpt i (x (scope.getD (if pred.getD i (-1) < 0 then pred.length - 1 else (pred.getD i (-1)).toNat) 0))
    (x (scope.getD i 0))

theorem joint_eq_lprod (scope : List Nat) (pred : List Int) (cpt : List (List (List α))) (x : Nat → Nat) :
    joint scope pred cpt x = lprod ((List.range pred.length).map (jointFactor scope pred cpt x)) := rfl

theorem mem_childrenOf {pred : List Int} {j d : Nat} (h : d ∈ childrenOf pred j) : pred.getD d (-1) = (j : Int) := by
  unfold childrenOf at h
  simpa using (List.mem_filter.1 h).2

theorem jointFactor_child (scope : List Nat) (pred : List Int) (cpt : List (List (List α))) (x : Nat → Nat)
    {j d : Nat} (h : pred.getD d (-1) = (j : Int)) :
    jointFactor scope pred cpt x d = cptAt cpt d (x (scope.getD j 0)) (x (scope.getD d 0)) := by
  unfold jointFactor
  rw [h]
  have hn : ¬ ((j : Int) < 0) := by omega
  simp [hn]

theorem vars_build (pred : List Int) (fuel c : Nat) :
    (build pred fuel c).vars = c :: (build pred fuel c).vars.tail := by
  cases fuel <;> simp [build, RTree.vars]

theorem treeJoint_build (scope : List Nat) (pred : List Int) (cpt : List (List (List α))) (x : Nat → Nat) :
    ∀ (fuel c l : Nat), treeJoint scope cpt x (build pred fuel c) l =
      cptAt cpt c l (x (scope.getD c 0)) * lprod ((build pred fuel c).vars.tail.map (jointFactor scope pred cpt x)) := by
  intro fuel
  induction fuel with
  | zero => intro c l; simp [build, treeJoint, RTree.vars]
  | succ n ih =>
    intro c l
    rw [build, treeJoint, RTree.vars, List.tail_cons, List.map_map, List.map_map, List.map_flatten, lprod_flatten,
      List.map_map, List.map_map]
    congr 1
    congr 1
    apply List.map_congr_left
    intro d hd
    simp only [Function.comp]
    rw [ih, vars_build pred n d, List.map_cons, lprod, jointFactor_child scope pred cpt x (mem_childrenOf hd), List.tail_cons]

theorem rootOf_spec {pred : List Int} {r : Nat} (h : rootOf pred = some r) : pred.getD r (-1) = -1 := by
  unfold rootOf at h
  split at h
  · rename_i r' hf
    have hr : r' = r := by simpa using h
    subst hr
    have hm : r' ∈ (List.range pred.length).filter (fun c => pred.getD c 0 == -1) := by rw [hf]; simp
    have := List.mem_filter.1 hm
    have hlt : r' < pred.length := List.mem_range.1 this.1
    have h2 : pred.getD r' 0 = -1 := by simpa using this.2
    simp only [List.getD_eq_getElem?_getD, List.getElem?_eq_getElem hlt, Option.getD_some] at h2 ⊢
    exact h2
  · simp at h

/-- `isTree` unpacked: there is a root and the unfolding from it lists every index exactly once -/
theorem isTree_perm {pred : List Int} (h : isTree pred = true) :
    ∃ r, rootOf pred = some r ∧ (build pred pred.length r).vars.Perm (List.range pred.length) := by
  unfold isTree at h
  cases hr : rootOf pred with
  | none => simp [hr] at h
  | some r =>
    refine ⟨r, rfl, ?_⟩
    simp only [hr, Bool.and_eq_true, beq_iff_eq, List.all_eq_true, List.mem_range, List.contains_iff_mem] at h
    obtain ⟨hlen, hall⟩ := h
    have hsub : List.range pred.length ⊆ (build pred pred.length r).vars := fun i hi => by
      simpa using hall i (List.mem_range.1 hi)
    have hsp := List.subperm_of_subset List.nodup_range hsub
    exact (hsp.perm_of_length_le (by simp [hlen])).symm

/-- **the two code paths of `log_likelihood` agree on complete rows** -/
theorem joint_eq_value (scope : List Nat) (pred : List Int) (cpt : List (List (List α))) (x : Nat → Nat)
    (htree : isTree pred = true)
    (hroot : ∀ r, rootOf pred = some r → ∀ k, cptAt cpt r 0 k = cptAt cpt r 1 k)
    (hx : ∀ i < pred.length, x (scope.getD i 0) < 2) :
    joint scope pred cpt x = value scope pred cpt (fun v => some (x v)) := by
  obtain ⟨r, hr, hperm⟩ := isTree_perm htree
  have hpos : 0 < pred.length := by
    rcases Nat.eq_zero_or_pos pred.length with h0 | h0
    · have : pred = [] := List.eq_nil_of_length_eq_zero h0
      subst this; simp [rootOf] at hr
    · exact h0
  rw [joint_eq_lprod, ← lprod_perm (hperm.map _), value, hr]
  simp only
  rw [up_complete, treeJoint_build, vars_build pred pred.length r, List.map_cons, lprod, List.tail_cons]
  congr 1
  unfold jointFactor
  rw [rootOf_spec hr]
  simp only [show ((-1 : Int) < 0) = True from by simp, if_true]
  have hlast := hx (pred.length - 1) (by omega)
  rcases Nat.lt_or_ge (x (scope.getD (pred.length - 1) 0)) 1 with h0 | h1
  · have : x (scope.getD (pred.length - 1) 0) = 0 := by omega
    rw [this]
  · have : x (scope.getD (pred.length - 1) 0) = 1 := by omega
    rw [this]; exact (hroot r hr _).symm

/-! ### the whole tree (`value`) -/

theorem value_eq_up (scope : List Nat) (pred : List Int) (cpt : List (List (List α))) {r : Nat}
    (hr : rootOf pred = some r) (e : Ev) :
    value scope pred cpt e = up scope cpt (build pred pred.length r) 0 e := by
  simp only [value, hr]

/-- the row used at the root of a sub-tree does not matter when its two rows are equal -/
theorem up_root_row (scope : List Nat) (cpt : List (List (List α))) (i : Nat) (cs : List RTree) (e : Ev)
    (h : ∀ k, cptAt cpt i 0 k = cptAt cpt i 1 k) :
    up scope cpt (.node i cs) 1 e = up scope cpt (.node i cs) 0 e := by
  rw [up, up]
  simp only [h]

theorem build_node (pred : List Int) (fuel r : Nat) : ∃ cs, build pred fuel r = .node r cs := by
  cases fuel
  · exact ⟨[], rfl⟩
  · exact ⟨_, rfl⟩

theorem map_getD_range (scope : List Nat) : (List.range scope.length).map (fun i => scope.getD i 0) = scope := by
  apply List.ext_getElem
  · simp
  · intro i h1 h2
    simp only [List.getElem_map, List.getElem_range, List.getD_eq_getElem?_getD, List.getElem?_eq_getElem h2,
      Option.getD_some]

/-- for a well-formed predecessor vector the variables of the unfolded tree are the scope -/
theorem lab_build_perm (scope : List Nat) {pred : List Int} {r : Nat} (hlen : scope.length = pred.length)
    (hperm : (build pred pred.length r).vars.Perm (List.range pred.length)) :
    (lab scope (build pred pred.length r)).Perm scope := by
  have h2 : (List.range pred.length).map (fun i => scope.getD i 0) = scope := by
    rw [← hlen]; exact map_getD_range scope
  have := hperm.map (fun i => scope.getD i 0)
  rw [h2] at this
  exact this

theorem leafOK_perm (dom : Nat → Nat) {S T : List Nat} (h : S.Perm T) (f : Ev → α) (hf : LeafOK dom S f) :
    LeafOK dom T f where
  local_ := fun a b hab => hf.local_ a b (fun v hv => hab v (h.mem_iff.1 hv))
  marg := fun e => by rw [← sumOver_perm dom h]; exact hf.marg e

/-- the CLT leaf is a distribution over its scope (what `Circ.Valid` asks of a leaf) -/
theorem value_leafOK_lem (dom : Nat → Nat) (scope : List Nat) (pred : List Int) (cpt : List (List (List α)))
    (htree : isTree pred = true) (hlen : scope.length = pred.length) (hnd : scope.Nodup)
    (hdom : ∀ v ∈ scope, dom v = 2) : LeafOK dom scope (value scope pred cpt) := by
  obtain ⟨r, hr, hperm⟩ := isTree_perm htree
  have hp := lab_build_perm scope hlen hperm
  have hfun : value scope pred cpt = up scope cpt (build pred pred.length r) 0 := by
    funext e; exact value_eq_up scope pred cpt hr e
  rw [hfun]
  exact leafOK_perm dom hp _ (clt_leafOK_lem dom scope cpt _ 0 (hp.nodup_iff.2 hnd) (fun v hv => hdom v (hp.mem_iff.1 hv)))

theorem value_marg_lem (dom : Nat → Nat) (scope : List Nat) (pred : List Int) (cpt : List (List (List α)))
    (htree : isTree pred = true) (hlen : scope.length = pred.length) (hnd : scope.Nodup)
    (hdom : ∀ v ∈ scope, dom v = 2) (e : Ev) :
    value scope pred cpt e = sumOver dom scope e (fun e' => value scope pred cpt e') :=
  ((value_leafOK_lem dom scope pred cpt htree hlen hnd hdom).marg e).symm

/-! ### determinism of `to_pc` on complete evidence -/

theorem indicator_contra (v o : Nat) (e : Ev) (h : e v = some o) :
    Circ.catLeafFn v (indicator (α := α) 0) e = 0 ∨ Circ.catLeafFn v (indicator (α := α) 1) e = 0 := by
  rw [catLeafFn_indicator, catLeafFn_indicator, h]
  rcases o with _ | o
  · right; simp
  · left; simp

theorem pc_detAt (scope : List Nat) (cpt : List (List (List α))) (e : Ev) : (t : RTree) → (l : Nat) →
    (∀ v ∈ lab scope t, e v ≠ none) → Circ.DetAt e (pc scope cpt t l)
  | .node i cs, l, h => by
    have ih : ∀ k, ∀ c ∈ cs, Circ.DetAt e (pc scope cpt c k) := fun k c hc =>
      pc_detAt scope cpt e c k (fun v hv => h v (lab_child_sub scope i cs c hc v hv))
    obtain ⟨o, ho⟩ := Option.ne_none_iff_exists'.1 (h (scope.getD i 0) (by rw [lab_node]; exact List.mem_cons_self))
    have hcon := indicator_contra (α := α) _ o e ho
    rw [pc]
    by_cases hcs : cs.isEmpty = true
    · simp only [hcs, if_true, Circ.mkSum]
      unfold Circ.DetAt
      refine ⟨?_, ?_⟩
      · simp only [List.pairwise_cons, List.mem_cons, List.not_mem_nil, or_false, forall_eq, Circ.catLeaf, Circ.eval,
          List.Pairwise.nil, and_true, false_imp_iff, implies_true]
        exact hcon
      · intro c hc
        simp only [List.mem_cons, List.not_mem_nil, or_false] at hc
        rcases hc with rfl | rfl <;> (unfold Circ.catLeaf Circ.DetAt; trivial)
    · have hprod : ∀ k, Circ.DetAt e
          (Circ.mkProd (Circ.catLeaf (scope.getD i 0) (indicator (α := α) k) :: (cs.map (fun c => pc scope cpt c k)).reverse)) := by
        intro k
        unfold Circ.mkProd Circ.DetAt
        intro c hc
        simp only [List.mem_cons, List.mem_reverse, List.mem_map] at hc
        rcases hc with rfl | ⟨d, hd, rfl⟩
        · unfold Circ.catLeaf Circ.DetAt; trivial
        · exact ih k d hd
      simp only [hcs, if_false, Bool.false_eq_true, Circ.mkSum]
      unfold Circ.DetAt
      refine ⟨?_, ?_⟩
      · simp only [List.pairwise_cons, List.mem_cons, List.not_mem_nil, or_false, forall_eq, Circ.mkProd, Circ.catLeaf,
          Circ.eval, List.map_cons, lprod, List.Pairwise.nil, and_true, false_imp_iff, implies_true]
        rcases hcon with h0 | h1
        · left; rw [h0]; ring
        · right; rw [h1]; ring
      · intro c hc
        simp only [List.mem_cons, List.not_mem_nil, or_false] at hc
        rcases hc with rfl | rfl <;> exact hprod _

/-! ### the product scopes of `to_pc` are the variable sets of the (inner) sub-trees: a laminar family -/

theorem subtrees_node (i : Nat) (cs : List RTree) (u : RTree) :
    u ∈ (RTree.node i cs).subtrees ↔ u = .node i cs ∨ ∃ c ∈ cs, u ∈ c.subtrees := by
  rw [RTree.subtrees]
  simp only [List.mem_cons, List.mem_flatten, List.mem_map]
  constructor
  · rintro (h | ⟨_, ⟨c, hc, rfl⟩, hu⟩)
    · exact Or.inl h
    · exact Or.inr ⟨c, hc, hu⟩
  · rintro (h | ⟨c, hc, hu⟩)
    · exact Or.inl h
    · exact Or.inr ⟨_, ⟨c, hc, rfl⟩, hu⟩

theorem subtrees_self : (t : RTree) → t ∈ t.subtrees
  | .node i cs => by rw [RTree.subtrees]; exact List.mem_cons_self

theorem mem_prodScopes_pc (scope : List Nat) (cpt : List (List (List α))) (s : List Nat) : (t : RTree) → (l : Nat) →
    (s ∈ Circ.prodScopes (pc scope cpt t l) ↔ ∃ u ∈ t.subtrees, u.kids ≠ [] ∧ s = pcScope scope u)
  | .node i cs, l => by
    have ih : ∀ k, ∀ c ∈ cs, (s ∈ Circ.prodScopes (pc scope cpt c k) ↔ ∃ u ∈ c.subtrees, u.kids ≠ [] ∧ s = pcScope scope u) :=
      fun k c hc => mem_prodScopes_pc scope cpt s c k
    have hsc : ∀ k, (cs.map (fun c => pc scope cpt c k)).map Circ.scope = cs.map (pcScope scope) := by
      intro k; rw [List.map_map]; apply List.map_congr_left; intro c hc
      exact pc_scope scope cpt c k
    rw [pc]
    by_cases hcs : cs.isEmpty = true
    · have : cs = [] := List.isEmpty_iff.1 hcs
      subst this
      simp [Circ.mkSum, Circ.prodScopes, Circ.catLeaf, RTree.subtrees, RTree.kids]
    · have hne : cs ≠ [] := fun h => hcs (by simp [h])
      simp only [hcs, if_false, Bool.false_eq_true, Circ.mkSum, Circ.mkProd, Circ.prodScopes, List.map_cons,
        List.map_nil, Circ.catLeaf, Circ.scope, List.map_reverse, hsc, List.flatten_cons, List.flatten_nil,
        List.append_nil, List.nil_append, List.singleton_append, List.mem_append, List.mem_cons, List.mem_flatten,
        List.mem_reverse, List.mem_map]
      rw [← pcScope]
      constructor
      · rintro ((h | ⟨_, ⟨_, ⟨c, hc, rfl⟩, rfl⟩, hs⟩) | (h | ⟨_, ⟨_, ⟨c, hc, rfl⟩, rfl⟩, hs⟩))
        · exact ⟨_, subtrees_self _, by simpa [RTree.kids] using hne, h⟩
        · obtain ⟨u, hu, hk, rfl⟩ := (ih 0 c hc).1 hs
          exact ⟨u, (subtrees_node i cs u).2 (Or.inr ⟨c, hc, hu⟩), hk, rfl⟩
        · exact ⟨_, subtrees_self _, by simpa [RTree.kids] using hne, h⟩
        · obtain ⟨u, hu, hk, rfl⟩ := (ih 1 c hc).1 hs
          exact ⟨u, (subtrees_node i cs u).2 (Or.inr ⟨c, hc, hu⟩), hk, rfl⟩
      · rintro ⟨u, hu, hk, rfl⟩
        rcases (subtrees_node i cs u).1 hu with rfl | ⟨c, hc, huc⟩
        · exact Or.inl (Or.inl rfl)
        · exact Or.inl (Or.inr ⟨_, ⟨_, ⟨c, hc, rfl⟩, rfl⟩, (ih 0 c hc).2 ⟨u, huc, hk, rfl⟩⟩)

theorem subtree_lab_sub (scope : List Nat) : (t : RTree) → ∀ u ∈ t.subtrees, ∀ v ∈ lab scope u, v ∈ lab scope t
  | .node i cs, u, hu, v, hv => by
    rcases (subtrees_node i cs u).1 hu with rfl | ⟨c, hc, huc⟩
    · exact hv
    · exact lab_child_sub scope i cs c hc v (subtree_lab_sub scope c u huc v hv)

theorem flatten_disjoint {β : Type} (f : β → List Nat) (cs : List β) (h : (cs.map f).flatten.Nodup)
    (c1 c2 : β) (h1 : c1 ∈ cs) (h2 : c2 ∈ cs) (hne : c1 ≠ c2) (v : Nat) (hv1 : v ∈ f c1) (hv2 : v ∈ f c2) : False := by
  induction cs with
  | nil => simp at h1
  | cons c cs ih =>
    simp only [List.map_cons, List.flatten_cons] at h
    rw [List.nodup_append] at h
    obtain ⟨_, hnd, hdisj⟩ := h
    have hfl : ∀ d ∈ cs, ∀ w ∈ f d, w ∈ (cs.map f).flatten := fun d hd w hw => by
      simp only [List.mem_flatten, List.mem_map]; exact ⟨f d, ⟨d, hd, rfl⟩, hw⟩
    rcases List.mem_cons.1 h1 with rfl | h1' <;> rcases List.mem_cons.1 h2 with rfl | h2'
    · exact hne rfl
    · exact hdisj v hv1 v (hfl c2 h2' v hv2) rfl
    · exact hdisj v hv2 v (hfl c1 h1' v hv1) rfl
    · exact ih hnd h1' h2'

/-- variable sets of two sub-trees of a tree with pairwise distinct variables are nested or disjoint -/
theorem subtrees_laminar (scope : List Nat) : (t : RTree) → (lab scope t).Nodup →
    ∀ u1 ∈ t.subtrees, ∀ u2 ∈ t.subtrees,
      (∀ v ∈ lab scope u1, v ∈ lab scope u2) ∨ (∀ v ∈ lab scope u2, v ∈ lab scope u1) ∨
        (∀ v, ¬ (v ∈ lab scope u1 ∧ v ∈ lab scope u2))
  | .node i cs, hnd, u1, h1, u2, h2 => by
    rcases (subtrees_node i cs u1).1 h1 with rfl | ⟨c1, hc1, hu1⟩
    · exact Or.inr (Or.inl (subtree_lab_sub scope _ u2 h2))
    rcases (subtrees_node i cs u2).1 h2 with rfl | ⟨c2, hc2, hu2⟩
    · exact Or.inl (subtree_lab_sub scope _ u1 h1)
    by_cases hcc : c1 = c2
    · subst hcc
      exact subtrees_laminar scope c1 (lab_child_nodup scope i cs c1 hc1 hnd) u1 hu1 u2 hu2
    · refine Or.inr (Or.inr ?_)
      rintro v ⟨hv1, hv2⟩
      rw [lab_node] at hnd
      exact flatten_disjoint (lab scope) cs (List.nodup_cons.1 hnd).2 c1 c2 hc1 hc2 hcc v
        (subtree_lab_sub scope c1 u1 hu1 v hv1) (subtree_lab_sub scope c2 u2 hu2 v hv2)

theorem pc_laminar (scope : List Nat) (cpt : List (List (List α))) (t : RTree) (l : Nat)
    (hnd : (lab scope t).Nodup) : Laminar (Circ.prodScopes (pc scope cpt t l)) := by
  unfold Laminar
  apply List.pairwise_of_forall_mem_list
  intro a ha b hb
  obtain ⟨u1, hu1, _, rfl⟩ := (mem_prodScopes_pc scope cpt a t l).1 ha
  obtain ⟨u2, hu2, _, rfl⟩ := (mem_prodScopes_pc scope cpt b t l).1 hb
  have p1 := fun v => (pcScope_perm scope u1).mem_iff (a := v)
  have p2 := fun v => (pcScope_perm scope u2).mem_iff (a := v)
  simp only [p1, p2]
  exact subtrees_laminar scope t hnd u1 hu1 u2 hu2

/-! ### `get_scopes` lists the same family -/

theorem getScopeTop_perm (scope : List Nat) : (t : RTree) → (getScopeTop scope t).Perm (lab scope t)
  | .node i cs => by
    rw [getScopeTop, lab_node]
    refine List.perm_append_comm.trans ?_
    apply List.Perm.cons
    exact reverse_flatten_perm cs _ _ (fun c hc => getScopeTop_perm scope c)

theorem mem_getScopes (scope : List Nat) (s : List Nat) : (t : RTree) →
    (s ∈ getScopes scope t ↔ ∃ u ∈ t.subtrees, u.kids ≠ [] ∧ s = getScopeTop scope u)
  | .node i cs => by
    have ih : ∀ c ∈ cs, (s ∈ getScopes scope c ↔ ∃ u ∈ c.subtrees, u.kids ≠ [] ∧ s = getScopeTop scope u) :=
      fun c hc => mem_getScopes scope s c
    rw [getScopes]
    simp only [List.mem_append, List.mem_flatten, List.mem_reverse, List.mem_map]
    constructor
    · rintro (⟨_, ⟨c, hc, rfl⟩, hs⟩ | hs)
      · obtain ⟨u, hu, hk, rfl⟩ := (ih c hc).1 hs
        exact ⟨u, (subtrees_node i cs u).2 (Or.inr ⟨c, hc, hu⟩), hk, rfl⟩
      · by_cases hcs : cs.isEmpty = true
        · simp [hcs] at hs
        · simp only [hcs, if_false, Bool.false_eq_true, List.mem_singleton] at hs
          exact ⟨_, subtrees_self _, by simpa [RTree.kids] using hcs, hs⟩
    · rintro ⟨u, hu, hk, rfl⟩
      rcases (subtrees_node i cs u).1 hu with rfl | ⟨c, hc, huc⟩
      · right
        have : cs.isEmpty = false := by simpa [RTree.kids] using hk
        simp [this]
      · exact Or.inl ⟨_, ⟨c, hc, rfl⟩, (ih c hc).2 ⟨u, huc, hk, rfl⟩⟩

end
/-! ### conditional sampling: the product of the local conditionals is joint / marginal -/
section sampling
variable {α : Type} [Field α]

/-- every division performed by `samplePmf` along the path selected by `x` is by a non-zero marginal -/
def SampleDefined (scope : List Nat) (cpt : List (List (List α))) : RTree → Nat → Ev → (Nat → Nat) → Prop
  | .node i cs, l, e, x =>
    match e (scope.getD i 0) with
    | some o => ∀ c ∈ cs, SampleDefined scope cpt c o e x
    | none => up scope cpt (.node i cs) l e ≠ 0 ∧ ∀ c ∈ cs, SampleDefined scope cpt c (x (scope.getD i 0)) e x

theorem samplePmf_exact_fill (scope : List Nat) (cpt : List (List (List α))) (e : Ev) (x : Nat → Nat) :
    (t : RTree) → (l : Nat) → SampleDefined scope cpt t l e x →
    samplePmf scope cpt t l e x * up scope cpt t l e = up scope cpt t l (e.fill x)
  | .node i cs, l, hd => by
    have ih : ∀ k, (∀ c ∈ cs, SampleDefined scope cpt c k e x) →
        lprod (cs.map (fun c => samplePmf scope cpt c k e x)) * lprod (cs.map (fun c => up scope cpt c k e))
          = lprod (cs.map (fun c => up scope cpt c k (e.fill x))) := by
      intro k hk
      rw [← lprod_map_mul]
      congr 1
      apply List.map_congr_left; intro c hc
      exact samplePmf_exact_fill scope cpt e x c k (hk c hc)
    cases hv : e (scope.getD i 0) with
    | some o =>
      have hf : (e.fill x) (scope.getD i 0) = some o := by simp only [Ev.fill, hv]
      unfold SampleDefined at hd
      simp only [hv] at hd
      rw [samplePmf, up, up]
      simp only [hv, hf]
      rw [← ih o hd]; ring
    | none =>
      have hf : (e.fill x) (scope.getD i 0) = some (x (scope.getD i 0)) := by simp only [Ev.fill, hv]
      unfold SampleDefined at hd
      simp only [hv] at hd
      obtain ⟨hz, hd⟩ := hd
      have hz' : sumVar 2 (fun k' => cptAt cpt i l k' * msgAt scope cpt cs k' e) ≠ 0 := by
        rw [up] at hz; simpa only [hv, msgAt] using hz
      rw [samplePmf, up, up]
      simp only [hv, hf, localCond]
      rw [← ih _ hd]
      simp only [msgAt] at hz' ⊢
      field_simp

/-- **exactness of the repaired sampler** (division-free): for every completion `X` of `e` on the
sub-tree, `pmf(X) · P(e) = P(X)` -/
theorem samplePmf_exact_up (scope : List Nat) (cpt : List (List (List α))) (t : RTree) (l : Nat) (e X : Ev)
    (hagree : ∀ v, e v ≠ none → X v = e v) (hfill : ∀ v ∈ lab scope t, X v ≠ none)
    (hd : SampleDefined scope cpt t l e (fun v => (X v).getD 0)) :
    samplePmf scope cpt t l e (fun v => (X v).getD 0) * up scope cpt t l e = up scope cpt t l X := by
  rw [samplePmf_exact_fill scope cpt e _ t l hd]
  apply up_congr
  intro v hv
  unfold Ev.fill
  cases h : e v with
  | some o => simp only; rw [← h, hagree v (by simp [h])]
  | none =>
    obtain ⟨k, hk⟩ := Option.ne_none_iff_exists'.1 (hfill v hv)
    simp [hk]

end sampling

/-! ### positivity (ordered fields): strictly positive tables give strictly positive messages -/
section positivity
variable {α : Type} [Field α] [LinearOrder α] [IsStrictOrderedRing α]

theorem lprod_pos (xs : List α) (h : ∀ x ∈ xs, 0 < x) : 0 < lprod xs := by
  induction xs with
  | nil => simp [lprod]
  | cons x xs ih =>
    simp only [lprod]
    exact mul_pos (h x List.mem_cons_self) (ih (fun y hy => h y (List.mem_cons_of_mem _ hy)))

theorem lprod_nonneg (xs : List α) (h : ∀ x ∈ xs, 0 ≤ x) : 0 ≤ lprod xs := by
  induction xs with
  | nil => simp [lprod]
  | cons x xs ih =>
    simp only [lprod]
    exact mul_nonneg (h x List.mem_cons_self) (ih (fun y hy => h y (List.mem_cons_of_mem _ hy)))

theorem up_pos (scope : List Nat) (cpt : List (List (List α))) (e : Ev) : (t : RTree) → (l : Nat) → l < 2 →
    (∀ i ∈ t.vars, ∀ l < 2, ∀ k < 2, 0 < cptAt cpt i l k) →
    (∀ v ∈ lab scope t, ∀ o, e v = some o → o < 2) → 0 < up scope cpt t l e
  | .node i cs, l, hl, hc, ho => by
    have ih : ∀ k < 2, 0 < lprod (cs.map (fun c => up scope cpt c k e)) := by
      intro k hk
      apply lprod_pos
      intro y hy
      obtain ⟨c, hcm, rfl⟩ := List.mem_map.1 hy
      exact up_pos scope cpt e c k hk (fun j hj => hc j (vars_child_sub i cs c hcm j hj))
        (fun v hv => ho v (lab_child_sub scope i cs c hcm v hv))
    have hi : i ∈ (RTree.node i cs).vars := by simp [RTree.vars]
    rw [up]
    cases hv : e (scope.getD i 0) with
    | some o =>
      have ho2 : o < 2 := ho _ (by rw [lab_node]; exact List.mem_cons_self) o hv
      exact mul_pos (hc i hi l hl o ho2) (ih o ho2)
    | none =>
      simp only [sumVar, List.range, List.range.loop, List.foldr, add_zero]
      exact add_pos (mul_pos (hc i hi l hl 0 (by omega)) (ih 0 (by omega)))
        (mul_pos (hc i hi l hl 1 (by omega)) (ih 1 (by omega)))

theorem sampleDefined_of_pos (scope : List Nat) (cpt : List (List (List α))) (e : Ev) (x : Nat → Nat) :
    (t : RTree) → (l : Nat) → l < 2 →
    (∀ i ∈ t.vars, ∀ l < 2, ∀ k < 2, 0 < cptAt cpt i l k) →
    (∀ v ∈ lab scope t, ∀ o, e v = some o → o < 2) → (∀ v ∈ lab scope t, x v < 2) →
    SampleDefined scope cpt t l e x
  | .node i cs, l, hl, hc, ho, hx => by
    have hmem : scope.getD i 0 ∈ lab scope (.node i cs) := by rw [lab_node]; exact List.mem_cons_self
    have ih : ∀ k < 2, ∀ c ∈ cs, SampleDefined scope cpt c k e x := fun k hk c hcm =>
      sampleDefined_of_pos scope cpt e x c k hk (fun j hj => hc j (vars_child_sub i cs c hcm j hj))
        (fun v hv => ho v (lab_child_sub scope i cs c hcm v hv))
        (fun v hv => hx v (lab_child_sub scope i cs c hcm v hv))
    unfold SampleDefined
    cases hv : e (scope.getD i 0) with
    | some o => simp only; exact ih o (ho _ hmem o hv)
    | none =>
      simp only
      exact ⟨ne_of_gt (up_pos scope cpt e _ l hl hc ho), ih _ (hx _ hmem)⟩

end positivity

end Clt
end Deeprob
