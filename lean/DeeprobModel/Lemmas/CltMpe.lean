import DeeprobModel.Lemmas.CltLemmas
import DeeprobModel.Lemmas.MaxTimes
set_option linter.unusedSimpArgs false
set_option linter.unusedVariables false
/-
MPE on Chow-Liu trees: max-product messages are maxima over completions (the marginalisation theorem at
the max-times carrier) and the decoding pass of `BinaryCLT.mpe` attains them.
-/
namespace Deeprob

/-- `X` completes `e` on the variables `S`: observed entries and entries outside `S` are kept, every
missing entry of `S` receives a value of its domain -/
def CompletesIn (dom : Nat → Nat) (S : List Nat) (e X : Ev) : Prop :=
  (∀ w, (w ∉ S ∨ e w ≠ none) → X w = e w) ∧ (∀ v ∈ S, e v = none → ∃ k, k < dom v ∧ X v = some k)

section maxOver
variable {α : Type} [CommSemiring α] [LinearOrder α] [IsStrictOrderedRing α]

theorem foldr_maxTimes_ge (L : List Nat) (g : Nat → MaxTimes α) (k : Nat) (hk : k ∈ L) :
    (g k).val ≤ (L.foldr (fun k acc => g k + acc) 0).val := by
  induction L with
  | nil => simp at hk
  | cons x xs ih =>
    simp only [List.foldr, MaxTimes.val_add]
    rcases List.mem_cons.1 hk with rfl | h
    · exact le_max_left _ _
    · exact le_trans (ih h) (le_max_right _ _)

theorem sumVar_maxTimes_ge (n : Nat) (g : Nat → MaxTimes α) (k : Nat) (hk : k < n) :
    (g k).val ≤ (sumVar n g).val := foldr_maxTimes_ge _ g k (List.mem_range.2 hk)

/-- at the max-times carrier the completion "sum" dominates the value at every completion -/
theorem maxOver_ge (dom : Nat → Nat) (S : List Nat) (f : Ev → MaxTimes α) :
    ∀ (e X : Ev), CompletesIn dom S e X → (f X).val ≤ (sumOver dom S e f).val := by
  induction S with
  | nil =>
    intro e X h
    have : X = e := funext (fun w => h.1 w (Or.inl (by simp)))
    rw [this]; exact le_refl _
  | cons v vs ih =>
    intro e X h
    simp only [sumOver]
    cases hv : e v with
    | some o =>
      simp only
      apply ih e X
      refine ⟨?_, ?_⟩
      · intro w hw
        apply h.1 w
        rcases hw with hw | hw
        · by_cases hwv : w = v
          · right; rw [hwv, hv]; simp
          · left; simp [hwv, hw]
        · exact Or.inr hw
      · intro u hu hue
        exact h.2 u (List.mem_cons_of_mem _ hu) hue
    | none =>
      simp only
      obtain ⟨k, hk, hXv⟩ := h.2 v List.mem_cons_self hv
      refine le_trans ?_ (sumVar_maxTimes_ge (dom v) _ k hk)
      apply ih (e.set v k) X
      refine ⟨?_, ?_⟩
      · intro w hw
        by_cases hwv : w = v
        · rw [hwv, hXv]; simp
        · rw [Ev.set_ne _ _ hwv]
          apply h.1 w
          rcases hw with hw | hw
          · left; simp [hwv, hw]
          · right; rwa [Ev.set_ne _ _ hwv] at hw
      · intro u hu hue
        have huv : u ≠ v := by
          intro huv; rw [huv] at hue; simp at hue
        rw [Ev.set_ne _ _ huv] at hue
        exact h.2 u (List.mem_cons_of_mem _ hu) hue

end maxOver

namespace Clt

/-! ### transfer along a map that respects the operations -/
section rel
set_option linter.unusedSectionVars false
variable {α β : Type} [Zero α] [One α] [Add α] [Mul α] [Zero β] [One β] [Add β] [Mul β]

theorem lprod_rel (φ : β → α) (h1 : φ 1 = 1) (hmul : ∀ a b, φ (a * b) = φ a * φ b) (xs : List β) :
    φ (lprod xs) = lprod (xs.map φ) := by
  induction xs with
  | nil => simpa [lprod] using h1
  | cons x xs ih => simp only [lprod, List.map_cons, hmul, ih]

/-- a map that respects `0, 1, +, *` and the table entries commutes with message passing -/
theorem up_rel (φ : β → α) (h0 : φ 0 = 0) (h1 : φ 1 = 1) (hadd : ∀ a b, φ (a + b) = φ a + φ b)
    (hmul : ∀ a b, φ (a * b) = φ a * φ b) (scope : List Nat)
    (cptB : List (List (List β))) (cptA : List (List (List α)))
    (hc : ∀ i l k, φ (cptAt cptB i l k) = cptAt cptA i l k) :
    (t : RTree) → (l : Nat) → (e : Ev) → φ (up scope cptB t l e) = up scope cptA t l e
  | .node i cs, l, e => by
    have ih : ∀ k, (cs.map (fun c => up scope cptB c k e)).map φ = cs.map (fun c => up scope cptA c k e) := by
      intro k; rw [List.map_map]; apply List.map_congr_left; intro c hc'
      exact up_rel φ h0 h1 hadd hmul scope cptB cptA hc c k e
    rw [up, up]
    cases hv : e (scope.getD i 0) with
    | some o => simp only [hmul, hc, lprod_rel φ h1 hmul, ih]
    | none =>
      simp only [sumVar, List.range, List.range.loop, List.foldr, hadd, hmul, hc, h0, lprod_rel φ h1 hmul, ih]

end rel

/-- on evidence that is complete on the sub-tree no addition is performed: the message does not
depend on what `+` is -/
theorem up_add_irrel {α : Type} [Zero α] [One α] [Mul α] (A1 A2 : Add α) (scope : List Nat)
    (cpt : List (List (List α))) (X : Ev) : (t : RTree) → (l : Nat) → (∀ v ∈ lab scope t, X v ≠ none) →
    @up α _ _ A1 _ scope cpt t l X = @up α _ _ A2 _ scope cpt t l X
  | .node i cs, l, h => by
    have ih : ∀ k, cs.map (fun c => @up α _ _ A1 _ scope cpt c k X) = cs.map (fun c => @up α _ _ A2 _ scope cpt c k X) := by
      intro k; apply List.map_congr_left; intro c hc
      exact up_add_irrel A1 A2 scope cpt X c k (fun v hv => h v (lab_child_sub scope i cs c hc v hv))
    obtain ⟨o, ho⟩ := Option.ne_none_iff_exists'.1 (h (scope.getD i 0) (by rw [lab_node]; exact List.mem_cons_self))
    rw [@up.eq_1 α _ _ A1 _, @up.eq_1 α _ _ A2 _]
    simp only [ho, ih]

section mpe
variable {α : Type} [CommSemiring α] [LinearOrder α] [IsStrictOrderedRing α]

/-- the tables, entry-wise in the max-times carrier -/
def liftCpt (cpt : List (List (List α))) : List (List (List (MaxTimes α))) :=
  cpt.map (fun t => t.map (fun r => r.map MaxTimes.ofVal))

theorem cptAt_lift (cpt : List (List (List α))) (i l k : Nat) :
    cptAt (liftCpt cpt) i l k = MaxTimes.ofVal (cptAt cpt i l k) := by
  unfold cptAt liftCpt
  by_cases hk : k < 2
  · simp only [hk, if_true, List.getD_eq_getElem?_getD, List.getElem?_map]
    cases cpt[i]? with
    | none => simp
    | some t =>
      simp only [Option.map_some, Option.getD_some, List.getElem?_map]
      cases t[l]? with
      | none => simp
      | some r =>
        simp only [Option.map_some, Option.getD_some, List.getElem?_map]
        cases r[k]? <;> simp
  · simp [hk]

theorem val_cptAt_lift (cpt : List (List (List α))) (hc : ∀ i l k, 0 ≤ cptAt cpt i l k) (i l k : Nat) :
    (cptAt (liftCpt cpt) i l k).val = cptAt cpt i l k := by
  rw [cptAt_lift, MaxTimes.val_ofVal (hc i l k)]

/-- **max-product message passing is message passing at the max-times carrier** -/
theorem upMax_eq_val (scope : List Nat) (cpt : List (List (List α))) (hc : ∀ i l k, 0 ≤ cptAt cpt i l k)
    (t : RTree) (l : Nat) (e : Ev) :
    upMax scope cpt t l e = (up scope (liftCpt cpt) t l e).val := by
  unfold upMax
  exact (@up_rel α (MaxTimes α) _ _ ⟨max⟩ _ _ _ _ _ MaxTimes.val rfl rfl (fun a b => rfl) (fun a b => rfl) scope
    (liftCpt cpt) cpt (val_cptAt_lift cpt hc) t l e).symm

end mpe
/-! ### overwriting evidence with a list of assignments -/
section over

theorem over_cases (as : List (Nat × Nat)) (e : Ev) (w : Nat) :
    (∃ k, (w, k) ∈ as ∧ Ev.over as e w = some k) ∨ (w ∉ as.map Prod.fst ∧ Ev.over as e w = e w) := by
  unfold Ev.over
  cases hf : as.find? (fun p => p.1 == w) with
  | none =>
    right
    refine ⟨?_, rfl⟩
    intro hmem
    obtain ⟨q, hq, hqw⟩ := List.mem_map.1 hmem
    have := List.find?_eq_none.1 hf q hq
    simp [hqw] at this
  | some q =>
    left
    have hq : q ∈ as := List.mem_of_find?_eq_some hf
    have hp : q.1 = w := by simpa using List.find?_some hf
    refine ⟨q.2, ?_, rfl⟩
    rw [← hp]; exact hq

theorem over_not_key (as : List (Nat × Nat)) (e : Ev) (w : Nat) (h : w ∉ as.map Prod.fst) :
    Ev.over as e w = e w := by
  rcases over_cases as e w with ⟨k, hk, _⟩ | ⟨_, h2⟩
  · exact absurd (List.mem_map.2 ⟨(w, k), hk, rfl⟩) h
  · exact h2

theorem over_cons_self (as : List (Nat × Nat)) (e : Ev) (v o : Nat) : Ev.over ((v, o) :: as) e v = some o := by
  simp [Ev.over, List.find?_cons]

theorem over_cons_ne (as : List (Nat × Nat)) (e : Ev) (v o w : Nat) (h : w ≠ v) :
    Ev.over ((v, o) :: as) e w = Ev.over as e w := by
  have : (v == w) = false := by simpa using fun hc => h hc.symm
  simp [Ev.over, List.find?_cons, this]

theorem over_append_left (as bs : List (Nat × Nat)) (e : Ev) (w : Nat) (h : w ∈ as.map Prod.fst) :
    Ev.over (as ++ bs) e w = Ev.over as e w := by
  unfold Ev.over
  rw [List.find?_append]
  cases hf : as.find? (fun p => p.1 == w) with
  | none =>
    obtain ⟨q, hq, hqw⟩ := List.mem_map.1 h
    have := List.find?_eq_none.1 hf q hq
    simp [hqw] at this
  | some q => simp

theorem over_append_right (as bs : List (Nat × Nat)) (e : Ev) (w : Nat) (h : w ∉ as.map Prod.fst) :
    Ev.over (as ++ bs) e w = Ev.over bs e w := by
  unfold Ev.over
  rw [List.find?_append]
  have : as.find? (fun p => p.1 == w) = none := by
    rw [List.find?_eq_none]
    intro q hq hqw
    exact h (List.mem_map.2 ⟨q, hq, by simpa using hqw⟩)
  rw [this]; simp

end over

/-! ### the decoding pass of `mpe` -/
section decode
set_option linter.unusedSectionVars false
variable {α : Type} [CommSemiring α] [LinearOrder α] [IsStrictOrderedRing α]

theorem argmax2_lt (a b : α) : argmax2 a b < 2 := by unfold argmax2; split <;> omega

/-- the value the decoding pass gives to the root variable of the sub-tree -/
def chosen (scope : List Nat) (cpt : List (List (List α))) (i : Nat) (cs : List RTree) (l : Nat) (e : Ev) : Nat :=
  match e (scope.getD i 0) with
  | some o => o
  | none => argmax2 (cptAt cpt i l 0 * msgMax scope cpt cs 0 e) (cptAt cpt i l 1 * msgMax scope cpt cs 1 e)

theorem decodeList_node (scope : List Nat) (cpt : List (List (List α))) (i : Nat) (cs : List RTree) (l : Nat) (e : Ev) :
    decodeList scope cpt (.node i cs) l e =
      (scope.getD i 0, chosen scope cpt i cs l e) ::
        (cs.map (fun c => decodeList scope cpt c (chosen scope cpt i cs l e) e)).flatten := by
  rw [decodeList]; rfl

theorem decodeList_keys (scope : List Nat) (cpt : List (List (List α))) (e : Ev) : (t : RTree) → (l : Nat) →
    (decodeList scope cpt t l e).map Prod.fst = lab scope t
  | .node i cs, l => by
    rw [decodeList_node, lab_node, List.map_cons, List.map_flatten, List.map_map]
    congr 2
    apply List.map_congr_left; intro c hc
    exact decodeList_keys scope cpt e c _

theorem decodeList_obs (scope : List Nat) (cpt : List (List (List α))) (e : Ev) : (t : RTree) → (l : Nat) →
    ∀ p ∈ decodeList scope cpt t l e, ∀ o, e p.1 = some o → p.2 = o
  | .node i cs, l, p, hp, o, ho => by
    rw [decodeList_node] at hp
    rcases List.mem_cons.1 hp with rfl | hp
    · simp only at ho ⊢
      unfold chosen; rw [ho]
    · simp only [List.mem_flatten, List.mem_map] at hp
      obtain ⟨_, ⟨c, hc, rfl⟩, hpc⟩ := hp
      exact decodeList_obs scope cpt e c _ p hpc o ho

theorem decodeList_lt2 (scope : List Nat) (cpt : List (List (List α))) (e : Ev) : (t : RTree) → (l : Nat) →
    (∀ v ∈ lab scope t, ∀ o, e v = some o → o < 2) → ∀ p ∈ decodeList scope cpt t l e, p.2 < 2
  | .node i cs, l, h, p, hp => by
    rw [decodeList_node] at hp
    rcases List.mem_cons.1 hp with rfl | hp
    · simp only
      unfold chosen
      cases hv : e (scope.getD i 0) with
      | some o => exact h _ (by rw [lab_node]; exact List.mem_cons_self) o hv
      | none => exact argmax2_lt _ _
    · simp only [List.mem_flatten, List.mem_map] at hp
      obtain ⟨_, ⟨c, hc, rfl⟩, hpc⟩ := hp
      exact decodeList_lt2 scope cpt e c _ (fun v hv => h v (lab_child_sub scope i cs c hc v hv)) p hpc

/-- observed entries are not touched (no structural hypothesis at all) -/
theorem decode_keeps_observed' (scope : List Nat) (cpt : List (List (List α))) (e : Ev) (t : RTree) (l : Nat)
    (w o : Nat) (h : e w = some o) : decode scope cpt t l e w = some o := by
  unfold decode
  rcases over_cases (decodeList scope cpt t l e) e w with ⟨k, hk, hov⟩ | ⟨_, hov⟩
  · have : k = o := decodeList_obs scope cpt e t l (w, k) hk o h
    rw [hov, this]
  · rw [hov, h]

theorem decode_outside' (scope : List Nat) (cpt : List (List (List α))) (e : Ev) (t : RTree) (l : Nat)
    (w : Nat) (h : w ∉ lab scope t) : decode scope cpt t l e w = e w := by
  unfold decode
  exact over_not_key _ e w (by rwa [decodeList_keys])

theorem decode_fills' (scope : List Nat) (cpt : List (List (List α))) (e : Ev) (t : RTree) (l : Nat)
    (w : Nat) (h : w ∈ lab scope t) :
    ∃ k, decode scope cpt t l e w = some k ∧ ((∀ v ∈ lab scope t, ∀ o, e v = some o → o < 2) → k < 2) := by
  unfold decode
  rcases over_cases (decodeList scope cpt t l e) e w with ⟨k, hk, hov⟩ | ⟨hnk, _⟩
  · exact ⟨k, hov, fun hb => decodeList_lt2 scope cpt e t l hb (w, k) hk⟩
  · rw [decodeList_keys] at hnk; exact absurd h hnk

theorem over_flatten_child (scope : List Nat) (e : Ev) (g : RTree → List (Nat × Nat)) (cs : List RTree)
    (hk : ∀ c ∈ cs, (g c).map Prod.fst = lab scope c) (hnd : (cs.map (lab scope)).flatten.Nodup)
    (c : RTree) (hc : c ∈ cs) (w : Nat) (hw : w ∈ lab scope c) :
    Ev.over ((cs.map g).flatten) e w = Ev.over (g c) e w := by
  induction cs with
  | nil => simp at hc
  | cons d ds ih =>
    simp only [List.map_cons, List.flatten_cons] at hnd ⊢
    rw [List.nodup_append] at hnd
    obtain ⟨_, hnd2, hdisj⟩ := hnd
    rcases List.mem_cons.1 hc with rfl | hc'
    · exact over_append_left _ _ e w (by rw [hk c List.mem_cons_self]; exact hw)
    · have hwd : w ∉ (g d).map Prod.fst := by
        rw [hk d List.mem_cons_self]
        intro hwd
        refine hdisj w hwd w ?_ rfl
        simp only [List.mem_flatten, List.mem_map]
        exact ⟨lab scope c, ⟨c, hc', rfl⟩, hw⟩
      rw [over_append_right _ _ e w hwd]
      exact ih (fun c' hc'' => hk c' (List.mem_cons_of_mem _ hc'')) hnd2 hc'

theorem upMax_nonneg (scope : List Nat) (cpt : List (List (List α))) (hc : ∀ i l k, 0 ≤ cptAt cpt i l k)
    (t : RTree) (l : Nat) (e : Ev) : 0 ≤ upMax scope cpt t l e := by
  rw [upMax_eq_val scope cpt hc]; exact MaxTimes.nonneg _

theorem msgMax_nonneg (scope : List Nat) (cpt : List (List (List α))) (hc : ∀ i l k, 0 ≤ cptAt cpt i l k)
    (cs : List RTree) (k : Nat) (e : Ev) : 0 ≤ msgMax scope cpt cs k e := by
  unfold msgMax
  induction cs with
  | nil => simp [lprod]
  | cons c cs ih => simp only [List.map_cons, lprod]; exact mul_nonneg (upMax_nonneg scope cpt hc c k e) ih

theorem upMax_node (scope : List Nat) (cpt : List (List (List α))) (hc : ∀ i l k, 0 ≤ cptAt cpt i l k)
    (i : Nat) (cs : List RTree) (l : Nat) (e : Ev) :
    upMax scope cpt (.node i cs) l e =
      match e (scope.getD i 0) with
      | some o => cptAt cpt i l o * msgMax scope cpt cs o e
      | none => max (cptAt cpt i l 0 * msgMax scope cpt cs 0 e) (cptAt cpt i l 1 * msgMax scope cpt cs 1 e) := by
  have h1 : 0 ≤ cptAt cpt i l 1 * msgMax scope cpt cs 1 e := mul_nonneg (hc i l 1) (msgMax_nonneg scope cpt hc cs 1 e)
  unfold upMax
  rw [@up.eq_1 α _ _ ⟨max⟩ _]
  cases hv : e (scope.getD i 0) with
  | some o => rfl
  | none =>
    simp only [sumVar, List.range, List.range.loop, List.foldr]
    show max _ (max (cptAt cpt i l 1 * msgMax scope cpt cs 1 e) 0) = _
    rw [max_eq_left h1]
    rfl

/-- **the decoded completion attains the max-product value** -/
theorem decode_attains (scope : List Nat) (cpt : List (List (List α))) (hc : ∀ i l k, 0 ≤ cptAt cpt i l k) (e : Ev) :
    (t : RTree) → (l : Nat) → (lab scope t).Nodup →
    up scope cpt t l (decode scope cpt t l e) = upMax scope cpt t l e
  | .node i cs, l, hnd => by
    have hD : decode scope cpt (.node i cs) l e =
        Ev.over ((scope.getD i 0, chosen scope cpt i cs l e) ::
          (cs.map (fun c => decodeList scope cpt c (chosen scope cpt i cs l e) e)).flatten) e := by
      unfold decode; rw [decodeList_node]
    have hv : decode scope cpt (.node i cs) l e (scope.getD i 0) = some (chosen scope cpt i cs l e) := by
      rw [hD]; exact over_cons_self _ _ _ _
    have hnd' := hnd
    rw [lab_node, List.nodup_cons] at hnd'
    have hchild : ∀ c ∈ cs, up scope cpt c (chosen scope cpt i cs l e) (decode scope cpt (.node i cs) l e)
        = upMax scope cpt c (chosen scope cpt i cs l e) e := by
      intro c hcm
      rw [← decode_attains scope cpt hc e c _ (lab_child_nodup scope i cs c hcm hnd)]
      apply up_congr; intro w hw
      have hwf : w ∈ (cs.map (lab scope)).flatten := by
        simp only [List.mem_flatten, List.mem_map]; exact ⟨lab scope c, ⟨c, hcm, rfl⟩, hw⟩
      have hwv : w ≠ scope.getD i 0 := fun h => hnd'.1 (h ▸ hwf)
      rw [hD, over_cons_ne _ _ _ _ _ hwv]
      unfold decode
      exact over_flatten_child scope e _ cs (fun c' _ => decodeList_keys scope cpt e c' _) hnd'.2 c hcm w hw
    rw [up, hv]
    simp only
    rw [List.map_congr_left hchild, upMax_node scope cpt hc]
    have h0 : 0 ≤ cptAt cpt i l 0 * msgMax scope cpt cs 0 e := mul_nonneg (hc i l 0) (msgMax_nonneg scope cpt hc cs 0 e)
    unfold chosen
    cases hev : e (scope.getD i 0) with
    | some o => simp only [msgMax]
    | none =>
      simp only [argmax2]
      split
      · rename_i hlt; rw [max_eq_right (le_of_lt hlt)]; simp only [msgMax]
      · rename_i hlt; rw [max_eq_left (not_lt.1 hlt)]; simp only [msgMax]

end decode

/-! ### max-product = max over completions; optimality of the decoded row -/
section optimal
variable {α : Type} [CommSemiring α] [LinearOrder α] [IsStrictOrderedRing α]

/-- `up_marg_lem` at the max-times carrier: the max-product message is the maximum over all completions
(no second induction) -/
theorem up_maxTimes_marg (scope : List Nat) (cpt : List (List (List (MaxTimes α)))) (t : RTree) (l : Nat)
    (hnd : (lab scope t).Nodup) (e : Ev) :
    up scope cpt t l e = sumOver (fun _ => 2) (lab scope t) e (fun e' => up scope cpt t l e') :=
  up_marg_lem (fun _ => 2) scope cpt t l hnd (fun _ _ => rfl) e

/-- complete evidence: the value in `α` is the value at the max-times carrier -/
theorem up_complete_val (scope : List Nat) (cpt : List (List (List α))) (hc : ∀ i l k, 0 ≤ cptAt cpt i l k)
    (t : RTree) (l : Nat) (X : Ev) (hX : ∀ v ∈ lab scope t, X v ≠ none) :
    up scope cpt t l X = (up scope (liftCpt cpt) t l X).val := by
  rw [← upMax_eq_val scope cpt hc]
  unfold upMax
  exact up_add_irrel _ ⟨max⟩ scope cpt X t l hX

/-- every completion of the evidence is at most the max-product value -/
theorem up_le_upMax (scope : List Nat) (cpt : List (List (List α))) (hc : ∀ i l k, 0 ≤ cptAt cpt i l k)
    (t : RTree) (l : Nat) (hnd : (lab scope t).Nodup) (e X : Ev)
    (hobs : ∀ v ∈ lab scope t, e v ≠ none → X v = e v)
    (hmis : ∀ v ∈ lab scope t, e v = none → ∃ k, k < 2 ∧ X v = some k) :
    up scope cpt t l X ≤ upMax scope cpt t l e := by
  classical
  let X' : Ev := fun w => if w ∈ lab scope t then X w else e w
  have hXX' : up scope cpt t l X = up scope cpt t l X' :=
    up_congr scope cpt t l X X' (fun v hv => by simp [X', hv])
  have hcomp : CompletesIn (fun _ => 2) (lab scope t) e X' := by
    refine ⟨?_, ?_⟩
    · intro w hw
      by_cases hwl : w ∈ lab scope t
      · simp only [X', hwl, if_true]
        rcases hw with hw | hw
        · exact absurd hwl hw
        · exact hobs w hwl hw
      · simp [X', hwl]
    · intro v hv hev
      simp only [X', hv, if_true]
      exact hmis v hv hev
  have hfull : ∀ v ∈ lab scope t, X' v ≠ none := by
    intro v hv
    simp only [X', hv, if_true]
    cases hev : e v with
    | none => obtain ⟨k, _, hk⟩ := hmis v hv hev; simp [hk]
    | some o => rw [hobs v hv (by simp [hev]), hev]; simp
  rw [hXX', up_complete_val scope cpt hc t l X' hfull, upMax_eq_val scope cpt hc,
    up_maxTimes_marg scope (liftCpt cpt) t l hnd e]
  exact maxOver_ge (fun _ => 2) (lab scope t) _ e X' hcomp

end optimal

end Clt
end Deeprob
