import DeeprobModel.Spec.Cnet
import DeeprobModel.Lemmas.SumLemmas
import Mathlib.Data.List.Nodup
import Mathlib.Tactic.Ring
set_option linter.unusedSimpArgs false
set_option linter.unusedVariables false
set_option linter.unusedSectionVars false
/-
Helper lemmas for C18: the invariant of the queue loop of `BinaryCNet.log_likelihood`.
-/
namespace Deeprob.C18
open Deeprob
variable {α : Type} [CommSemiring α]

theorem lprod_append (xs ys : List α) : lprod (xs ++ ys) = lprod xs * lprod ys := by
  induction xs with
  | nil => simp [lprod]
  | cons x xs ih => simp only [List.cons_append, lprod, ih]; ring

theorem mulAt_getElem? (acc : List α) (idxs : List Nat) (g : Nat → α) (r : Nat) :
    (mulAt acc idxs g)[r]? = acc[r]?.map (fun a => if idxs.contains r then a * g r else a) := by
  unfold mulAt
  rw [List.getElem?_map, List.getElem?_zipIdx]
  cases acc[r]? <;> simp

/-- factor a queue entry contributes to row `r` -/
def contrib (rows : Nat → Ev) (r : Nat) (p : CNet α × List Nat) : α :=
  if p.2.contains r then cnetEval (rows r) p.1 else 1

def qsize (q : List (CNet α × List Nat)) : Nat := (q.map (fun p => p.1.size)).sum

theorem size_pos (c : CNet α) : 0 < c.size := by cases c <;> simp [CNet.size]

theorem cnetRun_spec (rows : Nat → Ev) : ∀ (fuel : Nat) (q : List (CNet α × List Nat)) (acc : List α),
    qsize q ≤ fuel → ∀ r, (cnetRun rows fuel q acc)[r]? = acc[r]?.map (fun a => a * lprod (q.map (contrib rows r))) := by
  intro fuel
  induction fuel with
  | zero =>
    intro q acc hq r
    have : q = [] := by
      cases q with
      | nil => rfl
      | cons p q => simp only [qsize, List.map_cons, List.sum_cons] at hq; have := size_pos p.1; omega
    subst this
    simp only [cnetRun, List.map_nil, lprod, mul_one]
    cases acc[r]? <;> rfl
  | succ fuel ih =>
    intro q acc hq r
    cases q with
    | nil =>
      simp only [cnetRun, List.map_nil, lprod, mul_one]
      cases acc[r]? <;> rfl
    | cons p q =>
      obtain ⟨node, idxs⟩ := p
      simp only [qsize, List.map_cons, List.sum_cons] at hq
      cases node with
      | leaf s f =>
        simp only [cnetRun]
        rw [ih q _ (by simp only [CNet.size] at hq; unfold qsize; omega) r, mulAt_getElem?]
        cases acc[r]? with
        | none => rfl
        | some a =>
          simp only [Option.map_some, List.map_cons, lprod, contrib, cnetEval]
          congr 1
          split <;> ring
      | or s v w0 w1 c0 c1 =>
        simp only [cnetRun]
        rw [ih _ _ (by
          simp only [CNet.size] at hq
          simp only [qsize, List.map_append, List.sum_append, List.map_cons, List.map_nil, List.sum_cons, List.sum_nil] at *
          omega) r, mulAt_getElem?, mulAt_getElem?]
        cases acc[r]? with
        | none => rfl
        | some a =>
          simp only [Option.map_some, List.map_append, List.map_cons, List.map_nil, lprod_append, lprod, contrib,
            cnetEval, mul_one]
          congr 1
          by_cases hr : r ∈ idxs
          · rcases hx : rows r v with _ | (_ | (_ | k)) <;>
              simp [List.contains_iff_mem, List.mem_filter, hr, hx] <;> ring
          · simp [List.contains_iff_mem, List.mem_filter, hr]

theorem sumVar_two (f : Nat → α) : sumVar 2 f = f 0 + f 1 := by
  simp [sumVar, List.range_succ]

theorem nodupB_sound : ∀ l : List Nat, Net.nodupB l = true → l.Nodup
  | [], _ => List.nodup_nil
  | x :: xs, h => by
      simp only [Net.nodupB, Bool.and_eq_true, Bool.not_eq_true', List.contains_eq_mem, decide_eq_false_iff_not] at h
      exact List.nodup_cons.2 ⟨h.1, nodupB_sound xs h.2⟩

end Deeprob.C18
