import DeeprobModel.Model.LeafQ
import DeeprobModel.Lemmas.MomentLemmas
import Mathlib.Algebra.Order.Field.Basic
import Mathlib.Data.List.Nodup
import Mathlib.Tactic.Ring
import Mathlib.Tactic.Linarith
import Mathlib.Tactic.SplitIfs
set_option linter.unusedSimpArgs false
set_option linter.unusedVariables false
set_option linter.unusedSectionVars false
/-
Discrete leaf families (`Bernoulli`, `Categorical`) of `Model/LeafQ.lean`: the pmf is indexed by CATEGORY VALUE,
sums over the support, raw moments, the mode (`np.argmax` = first maximal entry), and the bridge to the dense
value-indexed tables `Circ.catLeaf` / `MCirc.cat` of the circuit theory.
-/
namespace Deeprob.LeafTheory
open Deeprob

section Semiring
variable {α : Type} [CommSemiring α]

theorem foldr_acc (f : Nat → α) : ∀ (l : List Nat) (a : α),
    l.foldr (fun k acc => f k + acc) a = l.foldr (fun k acc => f k + acc) 0 + a
  | [], a => by simp
  | x :: l, a => by simp only [List.foldr_cons]; rw [foldr_acc f l a]; ring

theorem sumVar_snoc (n : Nat) (f : Nat → α) : sumVar (n + 1) f = sumVar n f + f n := by
  unfold sumVar
  rw [List.range_succ, List.foldr_append]
  simp only [List.foldr_cons, List.foldr_nil, add_zero]
  exact foldr_acc f _ _

theorem sumVar_congr_lt' : ∀ (n : Nat) (f g : Nat → α), (∀ j, j < n → f j = g j) → sumVar n f = sumVar n g
  | 0, _, _, _ => rfl
  | n + 1, f, g, h => by
      rw [sumVar_snoc, sumVar_snoc, h n (by omega), sumVar_congr_lt' n f g (fun j hj => h j (by omega))]

theorem sumVar_indicator : ∀ (n m : Nat) (a : α), m < n → sumVar n (fun j => if j = m then a else 0) = a
  | 0, _, _, h => by omega
  | n + 1, m, a, h => by
      rw [sumVar_snoc]
      by_cases hm : m = n
      · subst hm
        rw [sumVar_congr_lt' m _ (fun _ => 0) (fun j hj => by simp [Nat.ne_of_lt hj]), sumVar_zero]
        simp
      · rw [sumVar_indicator n m a (by omega)]
        simp [Ne.symm hm]

theorem catPmf_not_mem : ∀ (cats : List Int) (ps : List α) (x : Int), x ∉ cats → catPmf cats ps x = 0
  | [], _, _, _ => by simp [catPmf]
  | _ :: _, [], _, _ => by simp [catPmf]
  | c :: cs, p :: ps, x, h => by
      simp only [List.mem_cons, not_or] at h
      simp only [catPmf, if_neg h.1]
      exact catPmf_not_mem cs ps x h.2

/-- the probability stored at position `j` is the pmf of the category stored at position `j` -/
theorem catPmf_getElem : ∀ (cats : List Int) (ps : List α) (j : Nat) (c : Int) (p : α), cats.Nodup →
    cats[j]? = some c → ps[j]? = some p → catPmf cats ps c = p
  | [], _, _, _, _, _, h, _ => by simp at h
  | _ :: _, [], _, _, _, _, _, h => by simp at h
  | c0 :: cs, p0 :: ps, 0, c, p, _, h1, h2 => by
      simp only [List.getElem?_cons_zero, Option.some.injEq] at h1 h2
      subst h1; subst h2
      simp [catPmf]
  | c0 :: cs, p0 :: ps, j + 1, c, p, hn, h1, h2 => by
      simp only [List.getElem?_cons_succ] at h1 h2
      have hmem : c ∈ cs := List.mem_of_getElem? h1
      have hne : c ≠ c0 := fun hc => (List.nodup_cons.1 hn).1 (hc ▸ hmem)
      simp only [catPmf, if_neg hne]
      exact catPmf_getElem cs ps j c p (List.nodup_cons.1 hn).2 h1 h2

/-- Σ over the listed categories of a function of the category times its probability -/
def catSum (F : Int → α) : List Int → List α → α
  | c :: cs, p :: ps => F c * p + catSum F cs ps
  | _, _ => 0

/-- **sum over the support = sum over the stored pairs**: with pairwise different categories,
`Σ_{c ∈ cats} F c · pmf c = Σᵢ F cᵢ · pᵢ` -/
theorem tsum_support (F : Int → α) : ∀ (cats : List Int) (ps : List α), cats.Nodup → cats.length = ps.length →
    tsum (cats.map (fun c => F c * catPmf cats ps c)) = catSum F cats ps
  | [], _, _, _ => by simp [tsum, catSum]
  | _ :: _, [], _, h => by simp at h
  | c :: cs, p :: ps, hn, hl => by
      have hn' := List.nodup_cons.1 hn
      simp only [List.map_cons, tsum, catSum, catPmf, if_true]
      congr 1
      rw [← tsum_support F cs ps hn'.2 (by simpa using hl)]
      congr 1
      apply List.map_congr_left
      intro x hx
      have : x ≠ c := fun hc => hn'.1 (hc ▸ hx)
      simp [this]

theorem catSum_one : ∀ (cats : List Int) (ps : List α), cats.length = ps.length →
    catSum (fun _ => 1) cats ps = tsum ps
  | [], [], _ => by simp [catSum, tsum]
  | [], _ :: _, h => by simp at h
  | _ :: _, [], h => by simp at h
  | c :: cs, p :: ps, hl => by
      simp only [catSum, tsum, one_mul]
      rw [catSum_one cs ps (by simpa using hl)]

/-- value-indexed rearrangement: `Σ_{j<n} F j · pmf j = Σᵢ F cᵢ · pᵢ` when the categories are pairwise different
naturals below `n` -/
theorem sumVar_catPmf (F : Nat → α) (n : Nat) : ∀ (cats : List Int) (ps : List α), cats.Nodup →
    (∀ c ∈ cats, 0 ≤ c ∧ c < n) →
    sumVar n (fun j => F j * catPmf cats ps (Int.ofNat j)) = catSum (fun c => F c.toNat) cats ps
  | [], _, _, _ => by
      simp only [catPmf, mul_zero, catSum]; exact sumVar_zero n
  | _ :: _, [], _, _ => by
      simp only [catPmf, mul_zero, catSum]; exact sumVar_zero n
  | c :: cs, p :: ps, hn, hr => by
      have hn' := List.nodup_cons.1 hn
      obtain ⟨hc0, hcn⟩ := hr c (List.mem_cons_self ..)
      have hm : (Int.ofNat c.toNat) = c := by simpa using Int.toNat_of_nonneg hc0
      have hz : catPmf cs ps c = 0 := catPmf_not_mem cs ps c hn'.1
      have key : ∀ j, F j * catPmf (c :: cs) (p :: ps) (Int.ofNat j)
          = (if j = c.toNat then F c.toNat * p else 0) + F j * catPmf cs ps (Int.ofNat j) := by
        intro j
        by_cases hj : j = c.toNat
        · subst hj
          rw [if_pos rfl]
          show F c.toNat * (if Int.ofNat c.toNat = c then p else catPmf cs ps (Int.ofNat c.toNat)) = _
          rw [hm, if_pos rfl, hz, mul_zero, add_zero]
        · have : Int.ofNat j ≠ c := by
            intro hc; apply hj; rw [← hc]; simp
          rw [if_neg hj, zero_add]
          show F j * (if Int.ofNat j = c then p else catPmf cs ps (Int.ofNat j)) = _
          rw [if_neg this]
      rw [sumVar_congr n _ _ key, sumVar_add, sumVar_indicator n c.toNat _ (by omega),
        sumVar_catPmf F n cs ps hn'.2 (fun x hx => hr x (List.mem_cons_of_mem _ hx))]
      simp [catSum]

theorem denseTbl_length (cats : List Int) (ps : List α) (n : Nat) : (denseTbl cats ps n).length = n := by
  simp [denseTbl]

theorem denseTbl_getD (cats : List Int) (ps : List α) (n j : Nat) (hj : j < n) :
    (denseTbl cats ps n).getD j 0 = catPmf cats ps (Int.ofNat j) := by
  simp [denseTbl, List.getD_eq_getElem?_getD, List.getElem?_map, List.getElem?_range hj]

/-- the dense table carries the same total mass as the probability list -/
theorem denseTbl_tsum (cats : List Int) (ps : List α) (n : Nat) (hn : cats.Nodup)
    (hr : ∀ c ∈ cats, 0 ≤ c ∧ c < n) (hl : cats.length = ps.length) :
    tsum (denseTbl cats ps n) = tsum ps := by
  rw [← Circ.sumVar_tbl, denseTbl_length,
    sumVar_congr_lt' n _ (fun j => 1 * catPmf cats ps (Int.ofNat j))
      (fun j hj => by rw [denseTbl_getD cats ps n j hj, one_mul]),
    sumVar_catPmf (fun _ => 1) n cats ps hn hr, catSum_one cats ps hl]

end Semiring

section Ring
variable {α : Type} [CommRing α]

theorem natC_eq_cast : ∀ n : Nat, (natC n : α) = (n : α)
  | 0 => by simp [natC]
  | n + 1 => by simp [natC, natC_eq_cast n]

theorem powN_eq_pow (x : α) : ∀ k : Nat, powN x k = x ^ k
  | 0 => by simp [powN]
  | k + 1 => by simp [powN, powN_eq_pow x k, pow_succ']

theorem catMoment_eq_catSum (k : Nat) : ∀ (cats : List Int) (ps : List α),
    catMoment k cats ps = catSum (fun c => ((c : Int) : α) ^ k) cats ps
  | [], _ => by simp [catMoment, catSum]
  | _ :: _, [] => by simp [catMoment, catSum]
  | c :: cs, p :: ps => by simp only [catMoment, catSum]; rw [catMoment_eq_catSum k cs ps]

theorem catSum_congr (F G : Int → α) : ∀ (cats : List Int) (ps : List α), (∀ c ∈ cats, F c = G c) →
    catSum F cats ps = catSum G cats ps
  | [], _, _ => by simp [catSum]
  | _ :: _, [], _ => by simp [catSum]
  | c :: cs, p :: ps, h => by
      simp only [catSum]
      rw [h c (List.mem_cons_self ..), catSum_congr F G cs ps (fun x hx => h x (List.mem_cons_of_mem _ hx))]

/-- **the leaf-moment hypothesis of C19, discharged**: the closed form `tblMoment` that the circuit theory uses
for a table leaf (`Σ_j jᵏ·tbl[j]`) on the dense table of a Categorical leaf is the leaf's own
`rv_discrete.moment(k) = Σ_c cᵏ·p_c` over category values -/
theorem tblMoment_denseTbl (k n : Nat) (cats : List Int) (ps : List α) (hn : cats.Nodup)
    (hr : ∀ c ∈ cats, 0 ≤ c ∧ c < n) :
    tblMoment k (denseTbl cats ps n) = catMoment k cats ps := by
  unfold tblMoment
  rw [denseTbl_length,
    sumVar_congr_lt' n _ (fun j => powN (natC j) k * catPmf cats ps (Int.ofNat j))
      (fun j hj => by rw [denseTbl_getD cats ps n j hj]),
    sumVar_catPmf (fun j => powN (natC j) k) n cats ps hn hr, catMoment_eq_catSum]
  apply catSum_congr
  intro c hc
  have h0 := (hr c hc).1
  have e : ((c.toNat : ℕ) : α) = ((c : ℤ) : α) := by
    rw [← Int.cast_natCast, Int.toNat_of_nonneg h0]
  rw [powN_eq_pow, natC_eq_cast, e]

end Ring

section Order
variable {α : Type} [LinearOrder α]

/-- `np.argmax` scan: started at position `pre.length` with the best so far at `bi`, the scan returns a position
holding a maximal entry such that every earlier entry is strictly smaller -/
theorem argmaxAux_spec : ∀ (xs pre l : List α) (bi : Nat) (bv : α), l = pre ++ xs →
    l[bi]? = some bv → bi < pre.length →
    (∀ (j : Nat) (x : α), j < pre.length → l[j]? = some x → x ≤ bv) →
    (∀ (j : Nat) (x : α), j < bi → l[j]? = some x → x < bv) →
    ∃ rv, l[argmaxAux bi bv pre.length xs]? = some rv ∧ (∀ (j : Nat) (x : α), l[j]? = some x → x ≤ rv) ∧
      (∀ (j : Nat) (x : α), j < argmaxAux bi bv pre.length xs → l[j]? = some x → x < rv)
  | [], pre, l, bi, bv, hl, hb, hbi, hle, hlt => by
      refine ⟨bv, by simpa [argmaxAux] using hb, ?_, by simpa [argmaxAux] using hlt⟩
      intro j x hx
      have hj : j < l.length := by
        by_contra hc
        rw [List.getElem?_eq_none (not_lt.1 hc)] at hx
        cases hx
      exact hle j x (by simpa [hl] using hj) hx
  | y :: xs, pre, l, bi, bv, hl, hb, hbi, hle, hlt => by
      have hl' : l = (pre ++ [y]) ++ xs := by simp [hl]
      have hlen : (pre ++ [y]).length = pre.length + 1 := by simp
      have hy : l[pre.length]? = some y := by simp [hl]
      simp only [argmaxAux]
      by_cases hc : bv < y
      · rw [if_pos hc]
        have := argmaxAux_spec xs (pre ++ [y]) l pre.length y hl' hy (by simp)
          (fun j x hj hx => by
            rw [hlen] at hj
            rcases Nat.lt_succ_iff_lt_or_eq.1 hj with h | h
            · exact le_trans (hle j x h hx) hc.le
            · subst h; rw [hy] at hx; cases hx; exact le_refl _)
          (fun j x hj hx => lt_of_le_of_lt (hle j x hj hx) hc)
        simpa [hlen] using this
      · rw [if_neg hc]
        have := argmaxAux_spec xs (pre ++ [y]) l bi bv hl' hb (by simp; omega)
          (fun j x hj hx => by
            rw [hlen] at hj
            rcases Nat.lt_succ_iff_lt_or_eq.1 hj with h | h
            · exact hle j x h hx
            · subst h; rw [hy] at hx; cases hx; exact not_lt.1 hc)
          hlt
        simpa [hlen] using this

/-- `np.argmax` returns the FIRST position of a maximal entry -/
theorem argmaxFirst_spec (l : List α) (hne : l ≠ []) :
    ∃ rv, l[argmaxFirst l]? = some rv ∧ (∀ (j : Nat) (x : α), l[j]? = some x → x ≤ rv) ∧
      (∀ (j : Nat) (x : α), j < argmaxFirst l → l[j]? = some x → x < rv) := by
  cases l with
  | nil => exact absurd rfl hne
  | cons x0 xs =>
    have := argmaxAux_spec xs [x0] (x0 :: xs) 0 x0 rfl (by simp) (by simp)
      (fun j x hj hx => by
        have : j = 0 := by simpa using hj
        subst this; simp at hx; subst hx; exact le_refl _)
      (fun j x hj _ => by omega)
    simpa [argmaxFirst] using this

end Order

end Deeprob.LeafTheory
