import DeeprobModel.Lemmas.PredTree
/-
`mstBrute` (exhaustive maximum used by the driver as an instance-level cross-check) dominates the weight
of every predecessor vector rooted at vertex 0 that encodes a spanning tree.
-/
set_option linter.unusedSimpArgs false
set_option linter.unusedVariables false
namespace Deeprob
namespace CltFit

theorem mem_allVecs (n : Nat) : ∀ (t : List Int), (∀ x ∈ t, 0 ≤ x ∧ x < (n : Int)) → t ∈ allVecs n t.length
  | [], _ => by simp [allVecs]
  | x :: t, h => by
      simp only [List.length_cons, allVecs, List.mem_flatMap, List.mem_map, List.mem_range]
      refine ⟨t, mem_allVecs n t (fun y hy => h y (List.mem_cons_of_mem _ hy)), x.toNat, ?_, ?_⟩
      · have := h x List.mem_cons_self; omega
      · have := h x List.mem_cons_self
        simp only [Int.ofNat_eq_natCast, List.cons.injEq, and_true]
        omega

theorem mem_allTrees {pred : List Int} (hT : isRootedSpanningTree pred 0 = true) :
    pred ∈ allTrees pred.length := by
  obtain ⟨hr, hm, hp, _⟩ := (isRST_iff pred 0).mp hT
  match pred, hT, hr, hm, hp with
  | x :: t, hT, hr, hm, hp =>
    have hx : x = -1 := by simpa using hm
    subst hx
    simp only [List.length_cons, allTrees, List.mem_filter, List.mem_map]
    refine ⟨⟨t, ?_, rfl⟩, hT⟩
    apply mem_allVecs
    intro y hy
    obtain ⟨k, hk, rfl⟩ := List.getElem_of_mem hy
    have h1 := hp (k+1) (by simp; omega)
    rcases h1 with h1 | h1
    · omega
    · obtain ⟨p, hp'⟩ := Option.isSome_iff_exists.mp h1
      obtain ⟨h2, h3⟩ := parent_some hp'
      have h4 : ((-1 : Int) :: t).getD (k+1) (-1) = t[k] := by
        simp [List.getD_eq_getElem?_getD, hk]
      rw [h4] at h2
      simp only [List.length_cons] at h3
      omega

section order
variable {α : Type} [LinearOrder α]

theorem foldl_maxOpt_some (l : List α) : ∀ init : α,
    ∃ b, l.foldl maxOpt (some init) = some b ∧ init ≤ b ∧ ∀ x ∈ l, x ≤ b := by
  induction l with
  | nil => exact fun init => ⟨init, rfl, le_refl _, by simp⟩
  | cons y ys ih =>
    intro init
    simp only [List.foldl_cons, maxOpt]
    by_cases h : init < y
    · simp only [h, if_true]
      obtain ⟨b, hb, h1, h2⟩ := ih y
      refine ⟨b, hb, le_trans (le_of_lt h) h1, ?_⟩
      intro x hx
      rcases List.mem_cons.mp hx with rfl | hx
      · exact h1
      · exact h2 x hx
    · simp only [h, if_false]
      obtain ⟨b, hb, h1, h2⟩ := ih init
      refine ⟨b, hb, h1, ?_⟩
      intro x hx
      rcases List.mem_cons.mp hx with rfl | hx
      · exact le_trans (not_lt.mp h) h1
      · exact h2 x hx

theorem foldl_maxOpt_none (l : List α) {x : α} (hx : x ∈ l) :
    ∃ b, l.foldl maxOpt none = some b ∧ x ≤ b := by
  cases l with
  | nil => cases hx
  | cons y ys =>
    simp only [List.foldl_cons, maxOpt]
    obtain ⟨b, hb, h1, h2⟩ := foldl_maxOpt_some ys y
    refine ⟨b, hb, ?_⟩
    rcases List.mem_cons.mp hx with rfl | hx
    · exact h1
    · exact h2 x hx

variable [Zero α] [Add α]

/-- the exhaustive maximum dominates every spanning tree rooted at vertex 0 -/
theorem mstBrute_ge (w : Nat → Nat → α) {pred : List Int} (hT : isRootedSpanningTree pred 0 = true) :
    ∃ b, mstBrute w pred.length = some b ∧ treeWeight w pred ≤ b := by
  unfold mstBrute
  rw [← List.foldl_map (f := treeWeight w) (g := maxOpt)]
  exact foldl_maxOpt_none _ (List.mem_map.mpr ⟨pred, mem_allTrees hT, rfl⟩)

end order
end CltFit
end Deeprob
