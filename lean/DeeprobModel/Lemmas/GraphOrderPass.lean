import DeeprobModel.Lemmas.GraphOrderBfs
import DeeprobModel.Lemmas.CltLemmas
set_option linter.unusedSimpArgs false
set_option linter.unusedVariables false
set_option linter.unusedSectionVars false
/-
The array-based bottom-up pass of `message_passing` run in any order that visits children before parents
computes, in every slot, the product of the upward messages of the existing inductive model (`Clt.up`).
-/
namespace Deeprob.GraphIo
open Deeprob Deeprob.Clt Deeprob.CltFit

/-! ### 6a. unfolding the predecessor vector with the constant fuel `n` -/

section build
variable {tree : List Int} {r : Nat} (h : WF tree r)
include h

theorem WF.no_children_of_deep {c : Nat} (hd : tree.length - 1 ≤ depthOf tree c) : childrenOf tree c = [] := by
  apply List.eq_nil_iff_forall_not_mem.2
  intro d hdm
  obtain ⟨hdl, hdp⟩ := h.mem_children.1 hdm
  have h1 := h.depth_child hdl hdp
  have h2 := h.depth_le hdl
  have := h.pos
  omega

theorem WF.build_stable_dep : ∀ (f c : Nat), tree.length - 1 - depthOf tree c ≤ f →
    build tree (f + 1) c = build tree f c
  | 0, c, hf => by
    rw [build_succ, build, h.no_children_of_deep (by omega)]; rfl
  | f + 1, c, hf => by
    rw [build_succ tree (f + 1), build_succ tree f]
    congr 1
    apply List.map_congr_left
    intro d hdm
    obtain ⟨hdl, hdp⟩ := h.mem_children.1 hdm
    have h1 := h.depth_child hdl hdp
    exact WF.build_stable_dep f d (by omega)

theorem WF.build_unfold (c : Nat) :
    build tree tree.length c = .node c ((childrenOf tree c).map (build tree tree.length)) := by
  obtain ⟨m, hm⟩ : ∃ m, tree.length = m + 1 := ⟨tree.length - 1, by have := h.pos; omega⟩
  conv_lhs => rw [hm, build_succ]
  congr 1
  apply List.map_congr_left
  intro d _
  rw [hm, h.build_stable_dep m d (by omega)]

end build

/-! ### 6b. the invariant of the array pass -/

section pass
variable {α : Type} [CommSemiring α]

theorem lprod_filter_insert {β : Type} [DecidableEq β] (f : β → α) (x : β) (done : List β) (hx : x ∉ done) :
    ∀ (L : List β), L.Nodup → x ∈ L →
      lprod ((L.filter (fun d => decide (d ∈ x :: done))).map f) =
        lprod ((L.filter (fun d => decide (d ∈ done))).map f) * f x
  | [], _, hm => by simp at hm
  | y :: L, hnd, hm => by
    rw [List.nodup_cons] at hnd
    by_cases hyx : y = x
    · subst hyx
      have hrest : L.filter (fun d => decide (d ∈ y :: done)) = L.filter (fun d => decide (d ∈ done)) := by
        apply List.filter_congr
        intro d hd
        have : d ≠ y := fun hdy => hnd.1 (hdy ▸ hd)
        simp [this]
      rw [List.filter_cons_of_pos (by simp), List.filter_cons_of_neg (by simpa using hx), hrest]
      simp only [List.map_cons, lprod]
      rw [mul_comm]
    · have hm' : x ∈ L := by
        rcases List.mem_cons.1 hm with hh | hh
        · exact absurd hh.symm hyx
        · exact hh
      have ih := lprod_filter_insert f x done hx L hnd.2 hm'
      by_cases hyd : y ∈ done
      · rw [List.filter_cons_of_pos (by simp [hyd]), List.filter_cons_of_pos (by simpa using hyd)]
        simp only [List.map_cons, lprod]
        rw [ih, mul_assoc]
      · rw [List.filter_cons_of_neg (by simp [hyd, hyx]), List.filter_cons_of_neg (by simpa using hyd)]
        exact ih

variable {tree : List Int} {r : Nat} (h : WF tree r)
variable (scope : List Nat) (cpt : List (List (List α))) (e : Ev)

/-- the upward message of the existing model for the sub-tree hanging at `c` -/
def upAt (tree : List Int) (scope : List Nat) (cpt : List (List (List α))) (e : Ev) (c l : Nat) : α :=
  up scope cpt (build tree tree.length c) l e

/-- the row as the code sees it: column `i` holds the value of variable `scope[i]` -/
def rowOf (scope : List Nat) (e : Ev) : Nat → Option Nat := fun i => e (scope.getD i 0)

/-- product of the messages of the children of `j` that have already been visited -/
def partialSlot (tree : List Int) (scope : List Nat) (cpt : List (List (List α))) (e : Ev)
    (done : List Nat) (j k : Nat) : α :=
  lprod (((childrenOf tree j).filter (fun d => decide (d ∈ done))).map (fun d => upAt tree scope cpt e d k))

/-- complete slot: all children -/
def fullSlot (tree : List Int) (scope : List Nat) (cpt : List (List (List α))) (e : Ev) (j k : Nat) : α :=
  lprod ((childrenOf tree j).map (fun d => upAt tree scope cpt e d k))

theorem sel_pair (a b : α) (k : Nat) : sel (a, b) k = if k = 0 then a else b := rfl

include h in
/-- what a node with a complete slot sends is the upward message of its sub-tree -/
theorem WF.outMsg_full (c l : Nat) :
    outMsg cpt (rowOf scope e) c (fullSlot tree scope cpt e c 0, fullSlot tree scope cpt e c 1) l =
      upAt tree scope cpt e c l := by
  unfold upAt
  rw [h.build_unfold c, up]
  unfold outMsg rowOf
  cases hrow : e (scope.getD c 0) with
  | some o =>
    simp only [List.map_map]
    by_cases ho : o < 2
    · have : o = 0 ∨ o = 1 := by omega
      rcases this with rfl | rfl
      · simp [sel_pair, fullSlot, upAt, Function.comp_def]
      · simp [sel_pair, fullSlot, upAt, Function.comp_def]
    · rw [cptAt_ge cpt c l o (by omega)]; simp
  | none =>
    simp only [List.map_map]
    simp [sumVar, List.range_succ, sel_pair, fullSlot, upAt, Function.comp_def]

/-- invariant: slot `j` holds the product of the messages of the already visited children of `j` -/
def Inv (tree : List Int) (scope : List Nat) (cpt : List (List (List α))) (e : Ev)
    (done : List Nat) (M : List (α × α)) : Prop :=
  M.length = tree.length ∧ ∀ j, j < tree.length →
    M.getD j (1, 1) = (partialSlot tree scope cpt e done j 0, partialSlot tree scope cpt e done j 1)

theorem inv_init : Inv tree scope cpt e [] (List.replicate tree.length ((1 : α), (1 : α))) := by
  refine ⟨by simp, fun j hj => ?_⟩
  simp [List.getD_eq_getElem?_getD, hj, partialSlot, lprod]

include h in
theorem WF.inv_step {done : List Nat} {M : List (α × α)} (hI : Inv tree scope cpt e done M) {x : Nat}
    (hx : x < tree.length) (hxr : x ≠ r) (hxd : x ∉ done) (hch : ∀ d ∈ childrenOf tree x, d ∈ done) :
    Inv tree scope cpt e (x :: done) (passStep tree cpt (rowOf scope e) M x) := by
  obtain ⟨hlen, hslots⟩ := hI
  obtain ⟨p, hp, hpx, hpl, hpe⟩ := h.parent_ne hx hxr
  have hfull : ∀ k, partialSlot tree scope cpt e done x k = fullSlot tree scope cpt e x k := by
    intro k
    unfold partialSlot fullSlot
    rw [List.filter_eq_self.2 (fun d hd => by simpa using hch d hd)]
  have hstep : passStep tree cpt (rowOf scope e) M x =
      M.modify p (fun t => (t.1 * upAt tree scope cpt e x 0, t.2 * upAt tree scope cpt e x 1)) := by
    unfold passStep
    rw [hpe, hlen, pyIndex_nat hpl]
    simp only
    rw [hslots x hx, hfull 0, hfull 1, h.outMsg_full scope cpt e x 0, h.outMsg_full scope cpt e x 1]
  rw [hstep]
  refine ⟨by rw [List.length_modify]; exact hlen, fun j hj => ?_⟩
  have hjM : j < M.length := by omega
  rw [List.getD_eq_getElem?_getD, List.getElem?_modify, List.getElem?_eq_getElem hjM]
  have hMj : M[j] = (partialSlot tree scope cpt e done j 0, partialSlot tree scope cpt e done j 1) := by
    have := hslots j hj
    rw [List.getD_eq_getElem?_getD, List.getElem?_eq_getElem hjM] at this
    exact this
  show (if p = j then _ else _) = _
  by_cases hpj : p = j
  · subst hpj
    rw [if_pos rfl, hMj]
    have hxm : x ∈ childrenOf tree p := h.mem_children.2 ⟨hx, hp⟩
    simp only [partialSlot]
    rw [lprod_filter_insert _ x done hxd _ (childrenOf_nodup tree p) hxm,
      lprod_filter_insert _ x done hxd _ (childrenOf_nodup tree p) hxm]
  · rw [if_neg hpj, hMj]
    have hfil : (childrenOf tree j).filter (fun d => decide (d ∈ x :: done)) =
        (childrenOf tree j).filter (fun d => decide (d ∈ done)) := by
      apply List.filter_congr
      intro d hd
      have hdx : d ≠ x := by
        rintro rfl
        have := (h.mem_children.1 hd).2
        rw [hp] at this
        exact hpj (by simpa using this)
      simp [hdx]
    simp only [partialSlot, hfil]

/-- a schedule: each node is visited once, after all of its children -/
def Sched (tree : List Int) (r : Nat) : List Nat → List Nat → Prop
  | _, [] => True
  | done, x :: rest => (x < tree.length ∧ x ≠ r ∧ x ∉ done ∧ ∀ d ∈ childrenOf tree x, d ∈ done) ∧
      Sched tree r (x :: done) rest

include h in
theorem WF.inv_fold : ∀ (order done : List Nat) (M : List (α × α)), Inv tree scope cpt e done M →
    Sched tree r done order →
    Inv tree scope cpt e (order.reverse ++ done) (order.foldl (passStep tree cpt (rowOf scope e)) M)
  | [], done, M, hI, _ => by simpa using hI
  | x :: rest, done, M, hI, hS => by
    obtain ⟨⟨hx, hxr, hxd, hch⟩, hS'⟩ := hS
    have := WF.inv_fold rest (x :: done) _ (h.inv_step scope cpt e hI hx hxr hxd hch) hS'
    simpa [List.foldl_cons, List.reverse_cons, List.append_assoc] using this

include h in
theorem WF.sched_of_childFirst : ∀ (order done : List Nat),
    (∀ d, d < tree.length → d ≠ r → d ∈ done ∨ d ∈ order) → order.Nodup →
    (∀ x ∈ order, x < tree.length ∧ x ≠ r ∧ x ∉ done) →
    order.Pairwise (fun a b => parent tree b ≠ some a) → Sched tree r done order
  | [], _, _, _, _, _ => trivial
  | x :: rest, done, hcov, hnd, hin, hpw => by
    rw [List.nodup_cons] at hnd
    rw [List.pairwise_cons] at hpw
    obtain ⟨hx, hxr, hxd⟩ := hin x (by simp)
    refine ⟨⟨hx, hxr, hxd, ?_⟩, ?_⟩
    · intro d hdm
      obtain ⟨hdl, hdp⟩ := h.mem_children.1 hdm
      have hdr : d ≠ r := by
        rintro rfl; rw [h.parent_root] at hdp; cases hdp
      rcases hcov d hdl hdr with hd | hd
      · exact hd
      · rcases List.mem_cons.1 hd with hd | hd
        · subst hd
          obtain ⟨p, hp, hpx, _⟩ := h.parent_ne hx hxr
          rw [hp] at hdp
          exact absurd (by simpa using hdp) hpx
        · exact absurd hdp (hpw.1 d hd)
    · apply WF.sched_of_childFirst rest (x :: done)
      · intro d hdl hdr
        rcases hcov d hdl hdr with hd | hd
        · exact Or.inl (List.mem_cons_of_mem _ hd)
        · rcases List.mem_cons.1 hd with hd | hd
          · exact Or.inl (by rw [hd]; exact List.mem_cons_self)
          · exact Or.inr hd
      · exact hnd.2
      · intro y hy
        obtain ⟨h1, h2, h3⟩ := hin y (List.mem_cons_of_mem _ hy)
        refine ⟨h1, h2, ?_⟩
        intro hm
        rcases List.mem_cons.1 hm with hm | hm
        · exact hnd.1 (hm ▸ hy)
        · exact h3 hm
      · exact hpw.2

include h in
/-- **all slots are complete after a pass in any order that visits every non-root variable once, children
before parents** -/
theorem WF.arrayPass_slots (order : List Nat) (hperm : order.Perm ((List.range tree.length).erase r))
    (hcf : childFirst tree order = true) :
    (arrayPass tree cpt (rowOf scope e) order).length = tree.length ∧
    ∀ j, j < tree.length → (arrayPass tree cpt (rowOf scope e) order).getD j (1, 1) =
      (fullSlot tree scope cpt e j 0, fullSlot tree scope cpt e j 1) := by
  have hnd : order.Nodup := hperm.nodup_iff.2 (List.nodup_range.erase r)
  have hmem : ∀ x, x ∈ order ↔ x < tree.length ∧ x ≠ r := by
    intro x
    rw [hperm.mem_iff, List.Nodup.mem_erase_iff List.nodup_range, List.mem_range]
    tauto
  have hS : Sched tree r [] order := by
    apply h.sched_of_childFirst order []
    · intro d hdl hdr; exact Or.inr ((hmem d).2 ⟨hdl, hdr⟩)
    · exact hnd
    · intro x hx; obtain ⟨h1, h2⟩ := (hmem x).1 hx; exact ⟨h1, h2, by simp⟩
    · exact (childFirst_iff tree order).1 hcf
  obtain ⟨hlen, hslots⟩ := h.inv_fold scope cpt e order [] _ (inv_init scope cpt e) hS
  refine ⟨hlen, fun j hj => ?_⟩
  have := hslots j hj
  unfold arrayPass
  rw [this]
  have hfull : ∀ k, partialSlot tree scope cpt e (order.reverse ++ []) j k = fullSlot tree scope cpt e j k := by
    intro k
    unfold partialSlot fullSlot
    rw [List.filter_eq_self.2]
    intro d hdm
    obtain ⟨hdl, hdp⟩ := h.mem_children.1 hdm
    have hdr : d ≠ r := by
      rintro rfl; rw [h.parent_root] at hdp; cases hdp
    simpa using (hmem d).2 ⟨hdl, hdr⟩
  rw [hfull 0, hfull 1]

include h in
/-- … hence the value returned for the row is the value of the existing model -/
theorem WF.passValue_eq (order : List Nat) (hperm : order.Perm ((List.range tree.length).erase r))
    (hcf : childFirst tree order = true) :
    passValue tree cpt (rowOf scope e) r order = Clt.value scope tree cpt e := by
  unfold passValue rootValue
  rw [(h.arrayPass_slots scope cpt e order hperm hcf).2 r h.r_lt, h.outMsg_full scope cpt e r 0]
  have hr : Clt.rootOf tree = some r := by rw [← rootIdx_eq_rootOf]; exact h.root
  rw [value_eq_up scope tree cpt hr]
  rfl

end pass

end Deeprob.GraphIo
