import DeeprobModel.Model.Net
import DeeprobModel.Lemmas.CircLemmas
set_option linter.unusedSimpArgs false
set_option linter.unusedVariables false

namespace Deeprob
variable {α : Type} [CommSemiring α]

def WellOrdered (net : Net α) : Prop :=
  ∀ i (x : NNode α), net[i]? = some x → ∀ c ∈ x.ch, c < i

/-- more fuel than the index never changes the unfolding -/
theorem toTree_fuel (net : Net α) (dens : List α) (hw : WellOrdered net) :
    ∀ i fuel, i < fuel → toTree net dens fuel i = toTree net dens (i+1) i := by
  intro i
  induction i using Nat.strong_induction_on with
  | _ i ih =>
    intro fuel hlt
    obtain ⟨f, rfl⟩ : ∃ f, fuel = f + 1 := ⟨fuel - 1, by omega⟩
    simp only [toTree]
    cases hn : net[i]? with
    | none => rfl
    | some x =>
      simp only
      have hc := hw i x hn
      have key : x.ch.map (toTree net dens f) = x.ch.map (toTree net dens i) := by
        apply List.map_congr_left; intro c hcm
        have hci := hc c hcm
        rw [ih c hci f (by omega), ih c hci i hci]
      split <;> simp [key]

theorem evalNet_prefix (e : Ev) (dens : List α) (net : Net α) (hw : WellOrdered net) :
    ∀ k, k ≤ net.length →
      (net.take k).foldl (fun vals x => vals ++ [evalNode e dens vals x]) []
        = (List.range k).map (fun i => Circ.eval e (toTree net dens (i+1) i)) := by
  intro k
  induction k with
  | zero => intro _; simp
  | succ k ih =>
    intro hk
    have hk' : k < net.length := by omega
    rw [List.take_add_one, List.foldl_append, ih (by omega)]
    have hn : net[k]? = some net[k] := by simp [hk']
    simp only [hn, Option.toList_some, List.foldl_cons, List.foldl_nil, List.range_succ, List.map_append,
      List.map_cons, List.map_nil]
    congr 1
    have hc := hw k net[k] hn
    have lookup : ∀ c ∈ (net[k]).ch,
        ((List.range k).map (fun i => Circ.eval e (toTree net dens (i+1) i))).getD c 0 = Circ.eval e (toTree net dens k c) := by
      intro c hcm
      have hck := hc c hcm
      rw [List.getD_eq_getElem?_getD, List.getElem?_map, List.getElem?_range hck]
      simp only [Option.map_some, Option.getD_some]
      rw [toTree_fuel net dens hw c k hck]
    have maps : (net[k]).ch.map (fun c => ((List.range k).map (fun i => Circ.eval e (toTree net dens (i+1) i))).getD c 0)
        = ((net[k]).ch.map (toTree net dens k)).map (Circ.eval e) := by
      rw [List.map_map]; apply List.map_congr_left; intro c hcm; simp only [Function.comp]; exact lookup c hcm
    have hlen : ((List.range k).map (fun i => Circ.eval e (toTree net dens (i+1) i))).length = k := by simp
    rw [toTree]; simp only [hn]
    unfold evalNode
    cases hkd : (net[k]).kind
    · simp only [Circ.eval, maps]
    · simp only [Circ.eval, maps]
    · simp only [Circ.eval, hlen]

/-- **DAG ⇒ tree refinement**: the value table filled children-first holds, for every node,
the tree semantics of its unfolding — shared sub-circuits included. -/
theorem evalNet_refines (e : Ev) (dens : List α) (net : Net α) (hw : WellOrdered net) (i : Nat) (hi : i < net.length) :
    (evalNet e dens net).getD i 0 = Circ.eval e (toTree net dens (i+1) i) := by
  have := evalNet_prefix e dens net hw net.length (le_refl _)
  rw [List.take_length] at this
  unfold evalNet; rw [this]
  rw [List.getD_eq_getElem?_getD, List.getElem?_map, List.getElem?_range hi]; rfl

theorem wellOrderedB_iff (net : Net α) : Net.wellOrderedB net = true ↔ WellOrdered net := by
  unfold Net.wellOrderedB WellOrdered Net.chOf
  simp only [List.all_eq_true, List.mem_range, decide_eq_true_eq]
  constructor
  · intro h i x hx c hc
    have hi : i < net.length := by
      rcases Nat.lt_or_ge i net.length with h1 | h1
      · exact h1
      · rw [List.getElem?_eq_none h1] at hx; cases hx
    have := h i hi
    rw [hx] at this
    exact this c hc
  · intro h i hi c hc
    have hn : net[i]? = some net[i] := by simp [hi]
    rw [hn] at hc
    exact h i net[i] hn c hc

end Deeprob
