import DeeprobModel.Lemmas.RatSampleValid
set_option linter.unusedSimpArgs false
set_option linter.unusedVariables false
set_option linter.unusedSectionVars false
/-
C16 (sampling clause), part 7: the base layer at the level of the padded row.  `RegionGraphLayer.sample`
draws every column of every selected leaf — dummy columns included — flattens the draws and lets
`unpad_samples` gather the features; the law of the returned row is the per-variable product used by
`basePmf` (the dummy draws marginalise to one, each feature is read from exactly one non-dummy column).
-/
namespace Deeprob
namespace RatSample
open RatSpn TCirc Tensor

/-! ### generic facts about `expect`, `lprod`, `pmfDown` -/
section generic
variable {α : Type} [Field α]

theorem expect_congr_len (m : Nat) : ∀ (ps : List (List α)) (f f' : List Nat → α),
    (∀ is, is.length = ps.length → f is = f' is) → expect m ps f = expect m ps f'
  | [], f, f', h => h [] rfl
  | p :: ps, f, f', h => by
      simp only [expect]
      apply sumVar_congr
      intro i
      congr 1
      apply expect_congr_len m ps
      intro is his
      apply h
      simp [his]

theorem expect_factorG {γ : Type} (m : Nat) (tb : γ → List α) (q : γ → Nat → α) : ∀ (zs : List γ),
    expect m (zs.map tb) (fun is => lprod ((zs.zip is).map (fun p => q p.1 p.2)))
      = lprod (zs.map (fun z => sumVar m (fun i => (tb z).getD i 0 * q z i)))
  | [] => by simp [expect, lprod]
  | z :: zs => by
      simp only [List.map_cons, expect, List.zip_cons_cons, lprod]
      have h : ∀ i, (tb z).getD i 0 * expect m (zs.map tb)
            (fun is => q z i * lprod ((zs.zip is).map (fun p => q p.1 p.2)))
          = ((tb z).getD i 0 * q z i) * lprod (zs.map (fun z => sumVar m (fun i => (tb z).getD i 0 * q z i))) := by
        intro i
        rw [expect_mul, expect_factorG m tb q zs]
        ring
      rw [sumVar_congr _ _ _ h, sumVar_mul_right]

theorem lprod_indicator {β : Type} (P : β → Prop) [DecidablePred P] : ∀ (l : List β),
    lprod (l.map (fun a => if P a then (1 : α) else 0)) = if (∀ a ∈ l, P a) then 1 else 0
  | [] => by simp [lprod]
  | a :: l => by
      simp only [List.map_cons, lprod, lprod_indicator P l, List.forall_mem_cons]
      by_cases h1 : P a <;> by_cases h2 : ∀ b ∈ l, P b <;> simp [h1, h2]

theorem lprod_flatMap {β γ : Type} (f : β → List γ) (g : γ → α) : ∀ (l : List β),
    lprod ((l.flatMap f).map g) = lprod (l.map (fun b => lprod ((f b).map g)))
  | [] => by simp [lprod]
  | b :: l => by
      rw [List.flatMap_cons, List.map_append, lprod_append, List.map_cons, lprod, lprod_flatMap f g l]

theorem sumVar_two (f : Nat → α) : sumVar 2 f = f 0 + f 1 := by
  rw [sumVar_succ, sumVar_succ]
  simp [sumVar]

/-- groups reached after `k` product layers -/
def expandG : Nat → List Nat → List Nat
  | 0, gs => gs
  | k + 1, gs => (expandG k gs).flatMap (fun i => [2 * i, 2 * i + 1])

theorem leafGroups_eq_expandG (g : Nat) : ∀ k, leafGroups g k = expandG k [g]
  | 0 => rfl
  | k + 1 => by rw [leafGroups, expandG, leafGroups_eq_expandG g k]

/-- the pmf transformer looks at its continuation only on index pairs of equal lengths whose groups are
the `k`-fold expansion of the starting groups -/
theorem pmfDown_congr (law : Nat → Tab α → Nat → Nat → List α) (w : Nat → Nat → Nat → List α) (rgSum : Nat) :
    ∀ (k l : Nat) (V : Tab α) (κ κ' : Idx → α) (io : Idx), io.2.length = io.1.length →
      (∀ io' : Idx, io'.1 = expandG k io.1 → io'.2.length = io'.1.length → κ io' = κ' io') →
      pmfDown law w rgSum k l V κ io = pmfDown law w rgSum k l V κ' io
  | 0, _, V, κ, κ', io, hl, h => by simp only [pmfDown]; exact h io rfl hl
  | 1, _, V, κ, κ', io, hl, h => by
      simp only [pmfDown]
      exact h _ (by simp [prodDownI, prodDown, expandG]) (prodDownI_len _ _ hl)
  | k + 2, l, V, κ, κ', io, hl, h => by
      simp only [pmfDown]
      apply pmfDown_congr law w rgSum (k + 1) (l + 1) _ _ _ io hl
      intro io' h1 h2
      unfold sumStep
      apply expect_congr_len
      intro is his
      have hlen : is.length = io'.1.length := by
        rw [his, List.length_zipWith, h2, Nat.min_self]
      apply h
      · simp only [prodDownI, prodDown, h1]
        rfl
      · exact prodDownI_len _ (io'.1, is) hlen

end generic

/-! ### columns with an arbitrary payload -/
section cols
variable {α : Type} [Field α] [LinearOrder α] [IsStrictOrderedRing α]

/-- the columns of the selected leaves with payload `f g o k` (variable, is-dummy, payload) -/
def ZofG {γ : Type} (S : Spec α) (f : Nat → Nat → Nat → γ) (io : Idx) : List (Nat × Bool × γ) :=
  (io.1.zip io.2).flatMap (fun go => (List.range (S.mrow go.1).length).map (fun k =>
    ((S.mrow go.1).getD k 0, (S.prow go.1).getD k false, f go.1 go.2 k)))

theorem ZofG_keys {γ : Type} (S : Spec α) (f : Nat → Nat → Nat → γ) (io : Idx) :
    (ZofG S f io).map (fun z => (z.1, z.2.1)) = (Zof S io).map (fun z => (z.1, z.2.1)) := by
  unfold ZofG Zof steps
  rw [List.map_flatMap, List.map_flatMap]
  apply List.flatMap_congr
  intro go _
  rw [List.map_map, List.map_map]
  rfl

theorem ZofG_mask {γ : Type} (S : Spec α) (f : Nat → Nat → Nat → γ) (hρ : ∀ t r, (S.ρ t r).Perm r)
    (hd : 0 < S.depth) (t : Nat) (ht : t < S.reps) (os : List Nat) (hos : os.length = (leafGroups t S.depth).length) :
    (ZofG S f (leafGroups t S.depth, os)).map (fun z => z.1) = maskFlat S.n S.depth S.regs t ∧
    (ZofG S f (leafGroups t S.depth, os)).map (fun z => z.2.1) = padFlat S.n S.depth S.regs t := by
  obtain ⟨h1, h2⟩ := Zof_mask S hρ hd t ht os hos
  have hk := ZofG_keys S f (leafGroups t S.depth, os)
  constructor
  · rw [← h1]
    have := congrArg (List.map Prod.fst) hk
    simpa [List.map_map, Function.comp_def] using this
  · rw [← h2]
    have := congrArg (List.map Prod.snd) hk
    simpa [List.map_map, Function.comp_def] using this

/-- **what the gather reads**: if the variables / dummy flags of a column list are row `t` of the mask
buffers, then for every feature `i` the repaired `unpad_samples` reads the payload of a non-dummy column
carrying variable `i` -/
theorem gather_reads (S : Spec α) (hρ : ∀ t r, (S.ρ t r).Perm r) (hd : 0 < S.depth) (t : Nat) (ht : t < S.reps)
    (Z : List (Nat × Bool × Nat))
    (hA : Z.map (fun z => z.1) = maskFlat S.n S.depth S.regs t)
    (hB : Z.map (fun z => z.2.1) = padFlat S.n S.depth S.regs t) :
    (gatherRow (Z.map (fun z => z.2.2)) (unpadIdx S.n S.depth S.regs t)).length = S.n ∧
    ∀ i, i < S.n → ∃ k, (i, false, k) ∈ Z ∧
      (gatherRow (Z.map (fun z => z.2.2)) (unpadIdx S.n S.depth S.regs t))[i]? = some k := by
  have hZlen : Z.length = S.n + padOf S.n S.depth := by
    have := congrArg List.length hA
    rw [List.length_map] at this
    rw [this]
    exact maskFlat_len S.ρ hρ S.n S.depth S.reps t hd ht
  have hslen : (Z.map (fun z => z.2.2)).length = S.n + padOf S.n S.depth := by rw [List.length_map, hZlen]
  unfold Spec.regs at hA hB ⊢
  have hkeys := unpadIdx_keys S.ρ hρ S.n S.depth S.reps t hd ht
  have hfil := unpadIdx_eq_filter S.ρ hρ S.n S.depth S.reps t hd ht
  have hul : (unpadIdx S.n S.depth (leafRegions S.ρ S.n S.depth S.reps) t).length = S.n := by
    have := congrArg List.length hkeys
    simpa using this
  have hmemU : ∀ p ∈ unpadIdx S.n S.depth (leafRegions S.ρ S.n S.depth S.reps) t,
      p < (Z.map (fun z => z.2.2)).length := by
    intro p hp
    rw [hfil, List.mem_filter] at hp
    rw [hslen]
    exact mem_invMask_lt S.ρ hρ S.n S.depth S.reps t hd ht p hp.1
  have hgl := gatherRow_length (Z.map (fun z => z.2.2)) _ hmemU
  refine ⟨by rw [hgl, hul], ?_⟩
  intro i h2
  have hiU : i < (unpadIdx S.n S.depth (leafRegions S.ρ S.n S.depth S.reps) t).length := by rw [hul]; exact h2
  generalize hpdef : (unpadIdx S.n S.depth (leafRegions S.ρ S.n S.depth S.reps) t)[i] = p
  have hpmem : p ∈ unpadIdx S.n S.depth (leafRegions S.ρ S.n S.depth S.reps) t := by
    rw [← hpdef]; exact List.getElem_mem hiU
  have hpZ : p < Z.length := by have := hmemU p hpmem; simpa using this
  have hpnp : (padFlat S.n S.depth (leafRegions S.ρ S.n S.depth S.reps) t).getD p false = false := by
    rw [hfil, List.mem_filter] at hpmem
    simpa using hpmem.2
  have hpkey : (maskFlat S.n S.depth (leafRegions S.ρ S.n S.depth S.reps) t).getD p 0 = i := by
    have := congrArg (fun l => l[i]?) hkeys
    simp only [List.getElem?_map, List.getElem?_eq_getElem hiU, hpdef, Option.map_some,
      List.getElem?_range h2] at this
    exact Option.some.inj this
  rw [← hA] at hpkey
  rw [← hB] at hpnp
  simp only [List.getD_eq_getElem?_getD, List.getElem?_map, List.getElem?_eq_getElem hpZ, Option.map_some,
    Option.getD_some] at hpkey hpnp
  refine ⟨Z[p].2.2, ?_, ?_⟩
  · have : Z[p] = (i, false, Z[p].2.2) := by rw [← hpkey, ← hpnp]
    rw [← this]
    exact List.getElem_mem hpZ
  · rw [gatherRow_getElem? _ _ hmemU i, List.getElem?_eq_getElem hiU, hpdef]
    simp [List.getElem?_map, List.getElem?_eq_getElem hpZ]

/-- two non-dummy columns with the same variable carry the same payload (there is only one) -/
theorem payload_unique (Z : List (Nat × Bool × Nat)) (hnd : ((Z.filter (fun z => !z.2.1)).map (fun z => z.1)).Nodup)
    (i k k' : Nat) (h1 : (i, false, k) ∈ Z) (h2 : (i, false, k') ∈ Z) : k = k' := by
  have e1 := foldl_step_at i k Z (fun _ => none) hnd h1
  have e2 := foldl_step_at i k' Z (fun _ => none) hnd h2
  rw [e1] at e2
  simpa using e2

end cols

/-! ### the law of the returned row -/
section rowlaw
variable {α : Type} [Field α] [LinearOrder α] [IsStrictOrderedRing α]

theorem colTables_eq (S : Spec α) (io : Idx) :
    colTables S io = (ZofG S (fun g o k => S.tbl g o k) io).map (fun z => z.2.2) := by
  unfold colTables ZofG
  rw [List.map_flatMap]
  apply List.flatMap_congr
  intro go _
  rw [List.map_map]; rfl

theorem basePmf_cols (S : Spec α) (e x : Ev) (io : Idx) :
    basePmf S e x io = lprod ((ZofG S (fun g o k => S.tbl g o k) io).map (fun z =>
      if z.2.1 then 1 else catCond z.1 z.2.2 e x)) := by
  unfold basePmf ZofG
  rw [lprod_flatMap]
  congr 1
  apply List.map_congr_left
  intro go _
  rw [List.map_map]
  rfl

theorem mem_ZofG_tbl (S : Spec α) (io : Idx) {z : Nat × Bool × List α}
    (hz : z ∈ ZofG S (fun g o k => S.tbl g o k) io) : ∃ g o k, z.2.2 = S.tbl g o k := by
  unfold ZofG at hz
  obtain ⟨go, _, hz⟩ := List.mem_flatMap.1 hz
  obtain ⟨k, _, rfl⟩ := List.mem_map.1 hz
  exact ⟨go.1, go.2, k, rfl⟩

/-- **the base layer as coded has the per-variable law**: drawing all columns (dummies included) of the
leaves selected for repetition `t`, flattening and un-padding returns the row `xrow` with probability
`∏_v tbl_v[xrow[v]]` (the column that owns variable `v`), i.e. `basePmf` from the all-missing row. -/
theorem baseRowPmf_eq (S : Spec α) (h : S.WF) (t : Nat) (ht : t < S.reps) (os : List Nat)
    (hos : os.length = (leafGroups t S.depth).length) (xrow : List Nat) (hx : xrow.length = S.n)
    (hx2 : ∀ v ∈ xrow, v < 2) :
    baseRowPmf S xrow (leafGroups t S.depth, os)
      = basePmf S (fun _ => none) (Ev.ofList (xrow.map some)) (leafGroups t S.depth, os) := by
  obtain ⟨_, hd, h2n⟩ := (accepted_iff S.n S.depth).1 h.acc
  obtain ⟨hA, hB⟩ := ZofG_mask S (fun g o k => S.tbl g o k) h.perm hd t ht os hos
  have hmemtbl := fun z => @mem_ZofG_tbl α _ _ _ S (leafGroups t S.depth, os) z
  unfold baseRowPmf
  rw [basePmf_cols, colTables_eq]
  simp only [leafGroups_head]
  generalize ZofG S (fun g o k => S.tbl g o k) (leafGroups t S.depth, os) = Zt at hA hB hmemtbl
  have hZlen : Zt.length = S.n + padOf S.n S.depth := by
    have := congrArg List.length hA
    rw [List.length_map] at this
    rw [this]
    exact maskFlat_len S.ρ h.perm S.n S.depth S.reps t hd ht
  have hvar : ∀ z ∈ Zt, z.1 < S.n := by
    intro z hz
    apply mem_maskFlat_lt S.ρ h.perm S.n S.depth S.reps t hd h2n ht
    unfold Spec.regs at hA
    rw [← hA]
    exact List.mem_map.2 ⟨z, hz, rfl⟩
  -- the indicator factorises over the columns
  have hind : ∀ s : List Nat, s.length = (Zt.map (fun z => z.2.2)).length →
      (if unpad S.n S.depth S.regs t s = xrow then (1 : α) else 0)
        = lprod ((Zt.zip s).map (fun p => if (p.1.2.1 = true ∨ p.2 = xrow.getD p.1.1 0) then (1 : α) else 0)) := by
    intro s hs
    rw [List.length_map] at hs
    rw [lprod_indicator (fun p : (Nat × Bool × List α) × Nat => p.1.2.1 = true ∨ p.2 = xrow.getD p.1.1 0)]
    -- the columns with the drawn values as payload
    have hfst : (Zt.zip s).map Prod.fst = Zt := List.map_fst_zip (by omega)
    have hsnd : (Zt.zip s).map Prod.snd = s := List.map_snd_zip (by omega)
    have hZs : ∀ (Zs : List (Nat × Bool × Nat)), Zs = (Zt.zip s).map (fun p => (p.1.1, p.1.2.1, p.2)) →
        (unpad S.n S.depth S.regs t s = xrow ↔
          ∀ p ∈ Zt.zip s, p.1.2.1 = true ∨ p.2 = xrow.getD p.1.1 0) := by
      intro Zs hZsdef
      have hA' : Zs.map (fun z => z.1) = maskFlat S.n S.depth S.regs t := by
        rw [← hA, hZsdef, List.map_map]
        conv => rhs; rw [← hfst, List.map_map]
        rfl
      have hB' : Zs.map (fun z => z.2.1) = padFlat S.n S.depth S.regs t := by
        rw [← hB, hZsdef, List.map_map]
        conv => rhs; rw [← hfst, List.map_map]
        rfl
      have hS' : Zs.map (fun z => z.2.2) = s := by
        rw [hZsdef, List.map_map]
        conv => rhs; rw [← hsnd]
        rfl
      have hnd : ((Zs.filter (fun z => !z.2.1)).map (fun z => z.1)).Nodup := by
        have hperm := nonpad_perm S.ρ h.perm S.n S.depth S.reps t hd ht
        have hz : (maskFlat S.n S.depth S.regs t).zip (padFlat S.n S.depth S.regs t) = Zs.map (fun z => (z.1, z.2.1)) := by
          rw [← hA', ← hB', List.zip_map']
        unfold Spec.regs at hz
        rw [hz, List.filter_map, List.map_map] at hperm
        exact hperm.nodup_iff.2 List.nodup_range
      obtain ⟨hgl, hreads⟩ := gather_reads S h.perm hd t ht Zs hA' hB'
      rw [hS'] at hgl hreads
      have hun : unpad S.n S.depth S.regs t s = gatherRow s (unpadIdx S.n S.depth S.regs t) := by
        unfold Spec.regs
        exact unpad_eq_gather S.ρ h.perm S.n S.depth S.reps t hd ht s (by rw [hs, hZlen])
      rw [hun]
      constructor
      · intro heq p hp
        by_cases hb : p.1.2.1 = true
        · exact Or.inl hb
        · right
          have hb' : p.1.2.1 = false := by simpa using hb
          have hv : p.1.1 < S.n := hvar p.1 (List.of_mem_zip (a := p.1) (b := p.2) hp).1
          obtain ⟨k, hk1, hk2⟩ := hreads p.1.1 hv
          have hpm : (p.1.1, false, p.2) ∈ Zs := by
            rw [hZsdef]
            exact List.mem_map.2 ⟨p, hp, by rw [hb']⟩
          have hkk := payload_unique Zs hnd p.1.1 p.2 k hpm hk1
          rw [heq] at hk2
          rw [hkk]
          simp [List.getD_eq_getElem?_getD, hk2]
      · intro hall
        apply List.ext_getElem?
        intro i
        by_cases hi : i < S.n
        · obtain ⟨k, hk1, hk2⟩ := hreads i hi
          rw [hZsdef] at hk1
          obtain ⟨p, hp, hpe⟩ := List.mem_map.1 hk1
          have hp1 : p.1.1 = i := by have := congrArg (fun z => z.1) hpe; simpa using this
          have hp2 : p.1.2.1 = false := by have := congrArg (fun z => z.2.1) hpe; simpa using this
          have hp3 : p.2 = k := by have := congrArg (fun z => z.2.2) hpe; simpa using this
          rcases hall p hp with hc | hc
          · rw [hp2] at hc; cases hc
          · rw [hk2, ← hp3, hc, hp1, List.getD_eq_getElem?_getD, List.getElem?_eq_getElem (by rw [hx]; exact hi)]
            rfl
        · rw [List.getElem?_eq_none (by rw [hgl]; omega), List.getElem?_eq_none (by rw [hx]; omega)]
    exact if_congr (hZs _ rfl) rfl rfl
  rw [expect_congr_len 2 _ _ _ hind]
  have hfact := expect_factorG 2 (fun z : Nat × Bool × List α => z.2.2)
    (fun z i => if (z.2.1 = true ∨ i = xrow.getD z.1 0) then (1 : α) else 0) Zt
  rw [hfact]
  congr 1
  apply List.map_congr_left
  intro z hz
  obtain ⟨g, o, k, htb⟩ := hmemtbl z hz
  have hlen2 := h.tbl_len g o k
  have hsum1 := h.tbl_sum g o k
  rw [← htb] at hlen2 hsum1
  obtain ⟨a, b, hab⟩ : ∃ a b, z.2.2 = [a, b] := by
    match hT : z.2.2, hlen2 with
    | [a, b], _ => exact ⟨a, b, rfl⟩
  rw [sumVar_two]
  by_cases hb : z.2.1 = true
  · simp only [hb, true_or, if_true, mul_one]
    rw [hab] at hsum1 ⊢
    simp only [tsum, add_zero] at hsum1
    simpa using hsum1
  · have hb' : z.2.1 = false := by simpa using hb
    have hv := hvar z hz
    have hxv : (Ev.ofList (xrow.map some)) z.1 = some (xrow.getD z.1 0) := by
      simp [Ev.ofList, List.getD_eq_getElem?_getD, List.getElem?_map, List.getElem?_eq_getElem (by rw [hx]; exact hv : z.1 < xrow.length)]
    have hk2 : xrow.getD z.1 0 < 2 := by
      apply hx2
      rw [List.getD_eq_getElem?_getD, List.getElem?_eq_getElem (by rw [hx]; exact hv : z.1 < xrow.length)]
      exact List.getElem_mem _
    simp only [hb', Bool.false_eq_true, false_or, if_false, catCond, hxv]
    rw [hab]
    generalize xrow.getD z.1 0 = kk at hk2
    match kk, hk2 with
    | 0, _ => simp
    | 1, _ => simp

/-- **the row-level law of `RatSpn.sample` is the per-variable law**: with dummy columns drawn and dropped
by `unpad_samples` as coded, the probability of returning the complete in-domain row `xrow` is
`samplePmf` at that row. -/
theorem sampleRowPmf_eq (S : Spec α) (h : S.WF) (y : Nat) (xrow : List Nat) (hx : xrow.length = S.n)
    (hx2 : ∀ v ∈ xrow, v < 2) :
    sampleRowPmf S y xrow = samplePmf S y (Ev.ofList (xrow.map some)) := by
  obtain ⟨_, hd, _⟩ := (accepted_iff S.n S.depth).1 h.acc
  have hp2 := two_pow_pos S.depth
  unfold sampleRowPmf samplePmf rootStep
  simp only
  have hG : (innerVal S.w S.rgSum S.depth 0 (baseVal S (fun _ => none))).groups = S.reps := by
    rw [innerVal_groups]
    simp only [baseVal, Spec.regs]
    rw [leafRegions_length S.ρ S.n S.depth S.reps hd]
    exact Nat.mul_div_cancel _ hp2
  apply sumVar_congr_lt
  intro idx hidx
  rw [hG] at hidx
  congr 1
  have ht : idx / (innerVal S.w S.rgSum S.depth 0 (baseVal S (fun _ => none))).nodes < S.reps :=
    Nat.div_lt_of_lt_mul (by rw [Nat.mul_comm]; exact hidx)
  generalize idx / (innerVal S.w S.rgSum S.depth 0 (baseVal S (fun _ => none))).nodes = t at ht
  apply pmfDown_congr _ _ _ _ _ _ _ _ _ (by simp)
  intro io' h1 h2
  rw [← leafGroups_eq_expandG] at h1
  have hio : io' = (leafGroups t S.depth, io'.2) := by rw [← h1]
  rw [hio]
  exact baseRowPmf_eq S h t ht io'.2 (by rw [h2, h1]) xrow hx hx2

end rowlaw

end RatSample
end Deeprob
