import DeeprobModel.Lemmas.LeafTopDown
import DeeprobModel.Lemmas.ReachedLemmas
import Mathlib.Algebra.Order.Ring.Rat
import Mathlib.Algebra.Field.Rat
import Mathlib.Tactic.NormNum
set_option linter.unusedSimpArgs false
set_option linter.unusedVariables false
set_option linter.unusedSectionVars false
set_option linter.unnecessarySeqFocus false
/-
Bundle of all hypotheses of the top-down theorems + the shared non-vacuity witness:
a 3-variable circuit over domains (2,3,2) whose root is a 3-child sum.
-/
namespace Deeprob
open TD
namespace TCirc

section bundle
variable {α : Type} [CommSemiring α] [LinearOrder α] [IsStrictOrderedRing α]

/-- valid, leaves complete correctly, non-negative, leaf modes positive, leaf samplers exact -/
def TDOK (dom : Nat → Nat) (c : TCirc α) : Prop :=
  Circ.Valid dom c.toCirc ∧ ModeOK dom c ∧ NonNeg c ∧ LeafPos c ∧ LeafExact c

theorem TDOK.sum (dom : Nat → Nat) (s : List Nat) (ws : List α) (cs : List (TCirc α))
    (hne : cs ≠ []) (hlen : ws.length = cs.length) (hw : ∀ w ∈ ws, 0 ≤ w)
    (hsc : ∀ c ∈ cs, scopeEq c.scope s) (h : ∀ c ∈ cs, TDOK dom c) : TDOK dom (.sum s ws cs) := by
  refine ⟨valid_sum.2 ⟨hne, hlen, hsc, fun c hc => (h c hc).1⟩, ?_, ?_, ?_, ?_⟩
  · unfold ModeOK FillOK; exact fun c hc => (h c hc).2.1
  · unfold NonNeg; exact ⟨hw, fun c hc => (h c hc).2.2.1⟩
  · unfold LeafPos; exact fun c hc => (h c hc).2.2.2.1
  · unfold LeafExact; exact fun c hc => (h c hc).2.2.2.2

theorem TDOK.prod (dom : Nat → Nat) (s : List Nat) (cs : List (TCirc α))
    (hnd : (cs.map scope).flatten.Nodup) (hsc : scopeEq (cs.map scope).flatten s)
    (h : ∀ c ∈ cs, TDOK dom c) : TDOK dom (.prod s cs) := by
  refine ⟨valid_prod.2 ⟨hnd, hsc, fun c hc => (h c hc).1⟩, ?_, ?_, ?_, ?_⟩
  · unfold ModeOK FillOK; exact fun c hc => (h c hc).2.1
  · unfold NonNeg; exact fun c hc => (h c hc).2.2.1
  · unfold LeafPos; exact fun c hc => (h c hc).2.2.2.1
  · unfold LeafExact; exact fun c hc => (h c hc).2.2.2.2

end bundle

/-! ### the witness -/
def exDom : Nat → Nat := fun v => [2, 3, 2].getD v 0

/-- root = 3-child sum over variables 0,1,2; third child contains a nested 2-child sum; the leaf of
variable 0 in the first child is a tied Bernoulli (`p = 1/2`, mode 1), the Categorical leaf of the
second child is a three-way tie (mode 0). -/
def exT : TCirc Rat :=
  .sum [0, 1, 2] [1/5, 1/2, 3/10]
    [ .prod [0, 1, 2] [bernT 0 [1/2, 1/2], catT 1 [1/10, 6/10, 3/10], bernT 2 [9/10, 1/10]],
      .prod [0, 1, 2] [bernT 0 [1/5, 4/5], .prod [1, 2] [catT 1 [1/3, 1/3, 1/3], bernT 2 [1/4, 3/4]]],
      .prod [2, 1, 0] [.sum [2, 0] [1/2, 1/2]
                          [.prod [2, 0] [bernT 2 [1/2, 1/2], bernT 0 [3/10, 7/10]],
                           .prod [0, 2] [bernT 0 [1/10, 9/10], bernT 2 [1/5, 4/5]]],
                       catT 1 [0, 1/4, 3/4]] ]

theorem exT_ok : TDOK exDom exT := by
  have hb : ∀ (v : Nat) (tbl : List Rat), exDom v = 2 → tbl.length = 2 → tsum tbl = 1 → (∀ x ∈ tbl, 0 ≤ x) →
      TDOK exDom (bernT v tbl) := fun v tbl hd hl hs h0 => bernT_ok exDom v tbl hl hd hs h0
  have hc : ∀ (v : Nat) (tbl : List Rat), tbl.length = exDom v → tsum tbl = 1 → (∀ x ∈ tbl, 0 ≤ x) →
      TDOK exDom (catT v tbl) := fun v tbl hl hs h0 => catT_ok exDom v tbl hl hs h0
  unfold exT
  apply TDOK.sum
  · simp
  · simp
  · intro w hw; simp at hw; rcases hw with rfl | rfl | rfl <;> norm_num
  · intro c hc'; simp at hc'; rcases hc' with rfl | rfl | rfl <;> simp [scope, scopeEq] <;> omega
  · intro c hc'; simp only [List.mem_cons, List.not_mem_nil, or_false] at hc'
    rcases hc' with rfl | rfl | rfl
    · apply TDOK.prod
      · simp [scope, catT, bernT]
      · simp [scope, catT, bernT, scopeEq]
      · intro d hd; simp only [List.mem_cons, List.not_mem_nil, or_false] at hd
        rcases hd with rfl | rfl | rfl
        · apply hb <;> simp [exDom, tsum] <;> norm_num
        · apply hc <;> simp [exDom, tsum] <;> norm_num
        · apply hb <;> simp [exDom, tsum] <;> norm_num
    · apply TDOK.prod
      · simp [scope, catT, bernT]
      · simp [scope, catT, bernT, scopeEq]
      · intro d hd; simp only [List.mem_cons, List.not_mem_nil, or_false] at hd
        rcases hd with rfl | rfl
        · apply hb <;> simp [exDom, tsum] <;> norm_num
        · apply TDOK.prod
          · simp [scope, catT, bernT]
          · simp [scope, catT, bernT, scopeEq]
          · intro d hd; simp only [List.mem_cons, List.not_mem_nil, or_false] at hd
            rcases hd with rfl | rfl
            · apply hc <;> simp [exDom, tsum] <;> norm_num
            · apply hb <;> simp [exDom, tsum] <;> norm_num
    · apply TDOK.prod
      · simp [scope, catT, bernT]
      · simp [scope, catT, bernT, scopeEq]; intro v; omega
      · intro d hd; simp only [List.mem_cons, List.not_mem_nil, or_false] at hd
        rcases hd with rfl | rfl
        · apply TDOK.sum
          · simp
          · simp
          · intro w hw; simp at hw; rcases hw with rfl | rfl <;> norm_num
          · intro c hc'; simp at hc'; rcases hc' with rfl | rfl <;> simp [scope, scopeEq] <;> omega
          · intro c hc'; simp only [List.mem_cons, List.not_mem_nil, or_false] at hc'
            rcases hc' with rfl | rfl
            · apply TDOK.prod
              · simp [scope, catT, bernT]
              · simp [scope, catT, bernT, scopeEq]
              · intro d hd; simp only [List.mem_cons, List.not_mem_nil, or_false] at hd
                rcases hd with rfl | rfl
                · apply hb <;> simp [exDom, tsum] <;> norm_num
                · apply hb <;> simp [exDom, tsum] <;> norm_num
            · apply TDOK.prod
              · simp [scope, catT, bernT]
              · simp [scope, catT, bernT, scopeEq]
              · intro d hd; simp only [List.mem_cons, List.not_mem_nil, or_false] at hd
                rcases hd with rfl | rfl
                · apply hb <;> simp [exDom, tsum] <;> norm_num
                · apply hb <;> simp [exDom, tsum] <;> norm_num
        · apply hc <;> simp [exDom, tsum] <;> norm_num

end TCirc
end Deeprob

namespace Deeprob
namespace TCirc

/-- evidence of the witness: variable 1 observed (= 0), variables 0 and 2 missing -/
def exE : Ev := Ev.ofList [none, some 0, none]
/-- the completion the descent reaches -/
def exX : Ev := Ev.ofList [some 1, some 0, some 1]

theorem exT_eval_e : eval exE exT = 14/75 := by
  simp [exT, eval, toCirc, Circ.eval, wsum, lprod, catT, bernT, Circ.catLeafFn, exE, Ev.ofList]
  norm_num

theorem exT_eval_x : eval exX exT = 101/1000 := by
  simp [exT, eval, toCirc, Circ.eval, wsum, lprod, catT, bernT, Circ.catLeafFn, exX, Ev.ofList]
  norm_num

/-- the descent follows the second child (`1/2 · 1/3` beats `1/5 · 1/10` and `3/10 · 0`) and fills
variable 0 with the Bernoulli mode 1 and variable 2 with 1 -/
theorem exT_mpe : (List.range 4).map (mpeDescent exE exT) = [some 1, some 0, some 1, none] := by
  simp [List.range, List.range.loop, mpeDescent, exT, pass, passAt, passAll, mpeBr, eval, toCirc, Circ.eval, wsum, lprod,
    catT, bernT, Circ.catLeafFn, exE, Ev.ofList, argmax, argmaxAux]
  norm_num [argmaxAux, pass, passAt, passAll]
  unfold mpeFill
  simp [writeScope, bernMode, catMode, bernIdx, Ev.set, Ev.ofList, argmax, argmaxAux]
  norm_num

theorem exX_completes : Completes exT.scope exE exX := by
  constructor
  · intro v hv
    match v with
    | 0 => simp [exE, Ev.ofList] at hv
    | 1 => simp [exE, exX, Ev.ofList]
    | 2 => simp [exE, Ev.ofList] at hv
    | n+3 => simp [exE, Ev.ofList] at hv
  · intro v hv
    simp [exT, scope] at hv
    rcases hv with rfl | rfl | rfl <;> simp [exX, Ev.ofList]

end TCirc
end Deeprob
