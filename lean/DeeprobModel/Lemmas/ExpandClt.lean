import DeeprobModel.Lemmas.CltNetLemmas
set_option linter.unusedSectionVars false
set_option linter.unusedSimpArgs false
set_option linter.unusedVariables false
/-
`expandWith` (Model/RewriteNetClt.lean): replacing every Chow-Liu leaf of a table by the table of its `to_pc()` keeps
the value of every node under every evidence (`xinv_final.val`) and produces a table that satisfies what
`marginalizeNetWith_eval` asks for (`TableOK`).
-/
namespace Deeprob
open Net Clt
variable {α : Type} [CommSemiring α]

/-- what is assumed of a Chow-Liu leaf: a rooted spanning tree over as many variables as the scope lists, the two rows
of the root's table equal (see `Clt.root_rows_needed`), every row of every conditional table sums to one -/
structure CltOK (scope : List Nat) (pred : List Int) (cpt : List (List (List α))) : Prop where
  tree : isTree pred = true
  len : scope.length = pred.length
  rootRows : ∀ r, rootOf pred = some r → ∀ k, cptAt cpt r 0 k = cptAt cpt r 1 k
  rows : ∀ r, rootOf pred = some r → ∀ j ∈ (build pred pred.length r).vars, ∀ l, l < 2 →
    cptAt cpt j l 0 + cptAt cpt j l 1 = 1

/-- `MargNodeOK` with Chow-Liu leaves allowed -/
def XNodeOK (net : Net α) (x : NNode α) : Prop :=
  match x.kind with
  | .sum => x.ch ≠ [] ∧ ∀ c ∈ x.ch, scopeEq (scopeOf net c) x.scope
  | .prod => scopeEq (x.ch.map (scopeOf net)).flatten x.scope
  | .leaf => (∃ v, x.scope = [v] ∧ ((∃ tbl, x.leaf = .cat v tbl) ∨ x.leaf = .ext v)) ∨
      (∃ pred cpt, x.leaf = .clt pred cpt ∧ CltOK x.scope pred cpt)

/-- the table of `to_pc()` of a well-formed Chow-Liu leaf -/
theorem toPcNet_spec (scope : List Nat) (pred : List Int) (cpt : List (List (List α))) (h : CltOK scope pred cpt) :
    2 ≤ (toPcNet scope pred cpt).length ∧ NoDens (toPcNet scope pred cpt) ∧ TableOK (toPcNet scope pred cpt) ∧
    (∀ (e : Ev) (dens : List α),
      nval e dens (toPcNet scope pred cpt) ((toPcNet scope pred cpt).length - 1) = Clt.value scope pred cpt e) ∧
    scopeEq (scopeOf (toPcNet scope pred cpt) ((toPcNet scope pred cpt).length - 1)) scope := by
  obtain ⟨r, hr, hperm⟩ := isTree_perm h.tree
  have hT : toPcNet scope pred cpt = pcNet scope cpt (build pred pred.length r) := by
    unfold toPcNet; rw [hr]
  rw [hT]
  have S := pcNet_spec scope cpt (build pred pred.length r)
  refine ⟨S.len, S.noDens, S.ok (h.rows r hr), ?_, ?_⟩
  · intro e dens
    have := S.val e dens 1 (by omega)
    rw [show (pcNet scope cpt (build pred pred.length r)).length - 2 + 1
        = (pcNet scope cpt (build pred pred.length r)).length - 1 by have := S.len; omega] at this
    rw [this]
    unfold Clt.value
    rw [hr]
    obtain ⟨cs, hcs⟩ := build_node pred pred.length r
    simp only [hcs]
    exact up_root_row scope cpt r cs e (h.rootRows r hr)
  · have := S.sc 1 (by omega)
    rw [show (pcNet scope cpt (build pred pred.length r)).length - 2 + 1
        = (pcNet scope cpt (build pred pred.length r)).length - 1 by have := S.len; omega] at this
    rw [this]
    have p := (pcScope_perm scope (build pred pred.length r)).trans (lab_build_perm scope h.len hperm)
    intro v; exact p.mem_iff

/-! ### the expansion pass -/

theorem expandWith_snoc (dens : List α) (a : Net α) (x : NNode α) :
    expandWith dens (a ++ [x]) = expandStep dens (expandWith dens a) x := by
  simp [expandWith, List.foldl_append]

theorem expandStep_clt (dens : List α) (st : Net α × List Nat × List α) (x : NNode α) (pred : List Int)
    (cpt : List (List (List α))) (hk : x.kind = .leaf) (hl : x.leaf = .clt pred cpt) :
    expandStep dens st x =
      (st.1 ++ shiftNet st.1.length (toPcNet x.scope pred cpt),
       st.2.1 ++ [st.1.length + ((toPcNet x.scope pred cpt).length - 1)],
       st.2.2 ++ List.replicate (toPcNet x.scope pred cpt).length 0) := by
  unfold expandStep; rw [hk, hl]

theorem expandStep_copy (dens : List α) (st : Net α × List Nat × List α) (x : NNode α)
    (h : x.kind ≠ .leaf ∨ ∀ pred cpt, x.leaf ≠ .clt pred cpt) :
    expandStep dens st x =
      (st.1 ++ [{ x with ch := x.ch.map (fun c => st.2.1.getD c 0) }], st.2.1 ++ [st.1.length],
       st.2.2 ++ [dens.getD st.2.1.length 0]) := by
  unfold expandStep
  rcases h with h | h
  · cases hk : x.kind with
    | leaf => exact absurd hk h
    | sum => rfl
    | prod => rfl
  · cases hk : x.kind with
    | leaf =>
      cases hl : x.leaf with
      | clt pred cpt => exact absurd hl (h pred cpt)
      | cat v tbl => rfl
      | ext v => rfl
      | absent => rfl
    | sum => rfl
    | prod => rfl

/-- invariant of the expansion after `k` nodes, for one evidence -/
structure XInv (net : Net α) (dens : List α) (e : Ev) (k : Nat) (t : Net α) (map : List Nat) (dens' : List α) :
    Prop where
  lm : map.length = k
  ld : dens'.length = t.length
  map_lt : ∀ i, i < k → map.getD i 0 < t.length
  ok : TableOK t
  val : ∀ i, i < k → nval e dens' t (map.getD i 0) = nval e dens (net.take k) i
  sc : ∀ i, i < k → scopeEq (scopeOf t (map.getD i 0)) (scopeOf net i)

/-- values of old entries survive appending to the table and to the densities -/
theorem nval_extend (e : Ev) (d1 d2 : List α) (a b : Net α) (hl : d1.length = a.length) (j : Nat) (hj : j < a.length) :
    nval e (d1 ++ d2) (a ++ b) j = nval e d1 a j := by
  rw [nval_append_lt e _ a b j hj]
  unfold nval
  rw [evalNet_dens_congr e (d1 ++ d2) d1 a (by
    intro i hi
    rw [List.getD_eq_getElem?_getD, List.getD_eq_getElem?_getD, List.getElem?_append_left (by omega)])]

theorem scopeEq_flatten_map (l : List Nat) (f g : Nat → List Nat) (h : ∀ c ∈ l, scopeEq (f c) (g c)) :
    scopeEq (l.map f).flatten (l.map g).flatten := by
  intro v
  simp only [List.mem_flatten, List.mem_map]
  constructor
  · rintro ⟨s, ⟨c, hc, rfl⟩, hv⟩; exact ⟨_, ⟨c, hc, rfl⟩, (h c hc v).1 hv⟩
  · rintro ⟨s, ⟨c, hc, rfl⟩, hv⟩; exact ⟨_, ⟨c, hc, rfl⟩, (h c hc v).2 hv⟩

theorem xinv_step (net : Net α) (dens : List α) (e : Ev) (hw : WellOrdered net) (hs : NetSumOK net)
    (hn : ∀ (i : Nat) (x : NNode α), net[i]? = some x → XNodeOK net x)
    (k : Nat) (st : Net α × List Nat × List α) (x : NNode α) (hx : net[k]? = some x)
    (I : XInv net dens e k st.1 st.2.1 st.2.2) :
    XInv net dens e (k+1) (expandStep dens st x).1 (expandStep dens st x).2.1 (expandStep dens st x).2.2 := by
  obtain ⟨t, map, dens'⟩ := st
  simp only at I
  have hk : k < net.length := (List.getElem?_eq_some_iff.1 hx).1
  have hchk : ∀ c ∈ x.ch, c < k := hw k x hx
  have hxn := hn k x hx
  have htk : (net.take k).length = k := by simp; omega
  have M_lt : ∀ (m : Nat) i, i < k → (map ++ [m]).getD i 0 = map.getD i 0 :=
    fun m i hi => getD_snoc_lt map m 0 i (by rw [I.lm]; exact hi)
  have M_k : ∀ (m : Nat), (map ++ [m]).getD k 0 = m := by
    intro m; have := getD_snoc_eq map m 0; rw [I.lm] at this; exact this
  have hsk : scopeOf net k = x.scope := scopeOf_some net k x hx
  have hold : ∀ i, i < k → nval e dens (net.take (k+1)) i = nval e dens (net.take k) i := by
    intro i hi
    rw [take_succ_snoc net k x hx]
    exact nval_append_lt e dens _ _ i (by rw [htk]; exact hi)
  have hnew : nval e dens (net.take (k+1)) k = evalNode e dens (evalNet e dens (net.take k)) x := by
    rw [take_succ_snoc net k x hx]
    have := nval_append_last e dens (net.take k) x
    rw [htk] at this; exact this
  by_cases hclt : x.kind = .leaf ∧ ∃ pred cpt, x.leaf = .clt pred cpt
  · -- a Chow-Liu leaf
    obtain ⟨hkl, pred, cpt, hl⟩ := hclt
    have hcok : CltOK x.scope pred cpt := by
      unfold XNodeOK at hxn
      rw [hkl] at hxn
      rcases hxn with ⟨v, _, h | h⟩ | ⟨p', c', h1, h2⟩
      · obtain ⟨tbl, h⟩ := h; rw [hl] at h; cases h
      · rw [hl] at h; cases h
      · rw [hl] at h1; cases h1; exact h2
    obtain ⟨T2, Tnd, Tok, Tval, Tsc⟩ := toPcNet_spec x.scope pred cpt hcok
    rw [expandStep_clt dens _ x pred cpt hkl hl]
    simp only
    generalize toPcNet x.scope pred cpt = T at T2 Tnd Tok Tval Tsc
    refine { lm := by simp [I.lm], ld := by simp [I.ld, shiftNet], map_lt := ?_,
             ok := tableOK_append_shift t T I.ok Tok, val := ?_, sc := ?_ }
    · intro i hi
      simp only [List.length_append, shiftNet, List.length_map]
      rcases Nat.lt_or_ge i k with h | h
      · rw [M_lt _ i h]; have := I.map_lt i h; omega
      · have : i = k := by omega
        subst this; rw [M_k]; omega
    · intro i hi
      rcases Nat.lt_or_ge i k with h | h
      · rw [M_lt _ i h, nval_extend e dens' _ t _ I.ld _ (I.map_lt i h), hold i h]
        exact I.val i h
      · have : i = k := by omega
        subst this
        rw [M_k, hnew]
        rw [nval_append_shift e _ (List.replicate T.length 0) t T (by
          intro j
          rw [List.getD_eq_getElem?_getD, List.getD_eq_getElem?_getD, List.getElem?_append_right (by rw [I.ld]; omega)]
          congr 2; rw [I.ld]; omega) _ (by omega), Tval]
        unfold evalNode
        rw [hkl, hl]
        rfl
    · intro i hi
      rcases Nat.lt_or_ge i k with h | h
      · rw [M_lt _ i h, scopeOf_append_left t _ _ (I.map_lt i h)]
        exact I.sc i h
      · have : i = k := by omega
        subst this
        rw [M_k, Nat.add_comm, scopeOf_append_shift, hsk]
        exact Tsc
  · -- any other node is copied
    have hcopy : x.kind ≠ .leaf ∨ ∀ pred cpt, x.leaf ≠ .clt pred cpt := by
      by_cases hkl : x.kind = .leaf
      · right; intro pred cpt hl; exact hclt ⟨hkl, pred, cpt, hl⟩
      · exact Or.inl hkl
    rw [expandStep_copy dens _ x hcopy]
    simp only
    have hchlt : ∀ c ∈ x.ch.map (fun c => map.getD c 0), c < t.length := by
      intro c hc
      simp only [List.mem_map] at hc
      obtain ⟨c0, hc0, rfl⟩ := hc
      exact I.map_lt c0 (hchk c0 hc0)
    have hyOK : MargNodeOK t ({ x with ch := x.ch.map (fun c => map.getD c 0) } : NNode α) := by
      unfold MargNodeOK
      unfold XNodeOK at hxn
      cases hkd : x.kind with
      | sum =>
        rw [hkd] at hxn
        show _ ∧ _
        refine ⟨by simpa using hxn.1, ?_⟩
        intro c hc
        simp only [List.mem_map] at hc
        obtain ⟨c0, hc0, rfl⟩ := hc
        exact (I.sc c0 (hchk c0 hc0)).trans (hxn.2 c0 hc0)
      | prod =>
        rw [hkd] at hxn
        show scopeEq ((x.ch.map (fun c => map.getD c 0)).map (scopeOf t)).flatten x.scope
        rw [List.map_map]
        exact (scopeEq_flatten_map x.ch _ _ (fun c hc => I.sc c (hchk c hc))).trans hxn
      | leaf =>
        rw [hkd] at hxn
        rcases hxn with h | ⟨pred, cpt, hl, _⟩
        · exact h
        · exact absurd ⟨hkd, pred, cpt, hl⟩ hclt
    refine { lm := by simp [I.lm], ld := by simp [I.ld], map_lt := ?_, ok := ?_, val := ?_, sc := ?_ }
    · intro i hi
      simp only [List.length_append, List.length_singleton]
      rcases Nat.lt_or_ge i k with h | h
      · rw [M_lt _ i h]; have := I.map_lt i h; omega
      · have : i = k := by omega
        subst this; rw [M_k]; omega
    · apply tableOK_snoc t _ I.ok hchlt _ hyOK
      intro hks
      have := hs k x hx hks
      simpa using this
    · intro i hi
      rcases Nat.lt_or_ge i k with h | h
      · rw [M_lt _ i h, nval_extend e dens' _ t _ I.ld _ (I.map_lt i h), hold i h]
        exact I.val i h
      · have : i = k := by omega
        subst this
        rw [M_k, hnew, nval_append_last]
        have hev : evalNet e (dens' ++ [dens.getD map.length 0]) t = evalNet e dens' t :=
          evalNet_dens_congr e _ dens' t (by
            intro j hj
            rw [List.getD_eq_getElem?_getD, List.getElem?_append_left (by rw [I.ld]; exact hj),
              ← List.getD_eq_getElem?_getD])
        rw [hev]
        unfold evalNode
        simp only
        have hd : (dens' ++ [dens.getD map.length 0]).getD (evalNet e dens' t).length 0
            = dens.getD (evalNet e dens (net.take i)).length 0 := by
          rw [evalNet_length, evalNet_length, htk, ← I.ld, getD_snoc_eq, I.lm]
        have hvals : (x.ch.map (fun c => map.getD c 0)).map (fun c => (evalNet e dens' t).getD c 0)
            = x.ch.map (fun c => (evalNet e dens (net.take i)).getD c 0) := by
          rw [List.map_map]; apply List.map_congr_left; intro c hc
          exact I.val c (hchk c hc)
        rw [hd, hvals]
    · intro i hi
      rcases Nat.lt_or_ge i k with h | h
      · rw [M_lt _ i h, scopeOf_append_left t _ _ (I.map_lt i h)]
        exact I.sc i h
      · have : i = k := by omega
        subst this
        rw [M_k, scopeOf_snoc_self, hsk]
        exact scopeEq.rfl'

theorem xinv_pass (net : Net α) (dens : List α) (e : Ev) (hw : WellOrdered net) (hs : NetSumOK net)
    (hn : ∀ (i : Nat) (x : NNode α), net[i]? = some x → XNodeOK net x) :
    ∀ k, k ≤ net.length → XInv net dens e k (expandWith dens (net.take k)).1 (expandWith dens (net.take k)).2.1
      (expandWith dens (net.take k)).2.2 := by
  intro k
  induction k with
  | zero =>
    intro _
    simp only [List.take_zero, expandWith, List.foldl_nil]
    exact { lm := rfl, ld := rfl, map_lt := by intro i hi; omega, ok := tableOK_nil,
            val := by intro i hi; omega, sc := by intro i hi; omega }
  | succ k ih =>
    intro hk
    have hk' : k < net.length := by omega
    have hx : net[k]? = some net[k] := List.getElem?_eq_getElem hk'
    rw [take_succ_snoc net k _ hx, expandWith_snoc]
    exact xinv_step net dens e hw hs hn k _ _ hx (ih (by omega))

/-- **the expansion keeps every value** and produces a table fit for `marginalizeNetWith_eval` -/
theorem xinv_final (net : Net α) (dens : List α) (e : Ev) (hw : WellOrdered net) (hs : NetSumOK net)
    (hn : ∀ (i : Nat) (x : NNode α), net[i]? = some x → XNodeOK net x) :
    XInv net dens e net.length (expandWith dens net).1 (expandWith dens net).2.1 (expandWith dens net).2.2 := by
  have := xinv_pass net dens e hw hs hn net.length (Nat.le_refl _)
  rwa [List.take_length] at this

/-- the expanded table and the index map do not depend on the supplied densities -/
theorem expandWith_indep (d1 d2 : List α) (net : Net α) :
    (expandWith d1 net).1 = (expandWith d2 net).1 ∧ (expandWith d1 net).2.1 = (expandWith d2 net).2.1 := by
  induction net using List.reverseRecOn with
  | nil => exact ⟨rfl, rfl⟩
  | append_singleton a x ih =>
    rw [expandWith_snoc, expandWith_snoc]
    obtain ⟨h1, h2⟩ := ih
    generalize expandWith d1 a = s1 at h1 h2
    generalize expandWith d2 a = s2 at h1 h2
    unfold expandStep
    split <;> simp [h1, h2]

end Deeprob
