import DeeprobModel.Model.Learn
import Mathlib.Data.List.Basic
import Mathlib.Data.List.Perm.Basic
import Mathlib.Data.List.Nodup
import Mathlib.Tactic.Common
/-
`np.unique` / cluster slicing lemmas: the slices of `split_rows_clusters` / `split_cols_clusters` are
non-empty and partition the sliced list (whenever there is one label per item).
-/
namespace Deeprob.Learn
open List

theorem mem_insertSorted (x y : Int) (l : List Int) : y ∈ insertSorted x l ↔ y = x ∨ y ∈ l := by
  induction l with
  | nil => simp [insertSorted]
  | cons z zs ih =>
    unfold insertSorted
    by_cases h1 : x < z
    · simp [h1]
    · by_cases h2 : x = z
      · subst h2; simp
      · simp only [h1, h2, if_false, mem_cons, ih]; tauto

theorem sorted_insertSorted (x : Int) (l : List Int) (h : l.Pairwise (· < ·)) :
    (insertSorted x l).Pairwise (· < ·) := by
  induction l with
  | nil => simp [insertSorted]
  | cons z zs ih =>
    unfold insertSorted
    rw [pairwise_cons] at h
    by_cases h1 : x < z
    · simp only [h1, if_true]
      refine pairwise_cons.2 ⟨?_, pairwise_cons.2 h⟩
      intro a ha
      rcases mem_cons.1 ha with rfl | ha
      · exact h1
      · exact Int.lt_trans h1 (h.1 a ha)
    · by_cases h2 : x = z
      · subst h2; rw [if_neg h1, if_pos rfl]; exact pairwise_cons.2 h
      · rw [if_neg h1, if_neg h2]
        refine pairwise_cons.2 ⟨?_, ih h.2⟩
        intro a ha
        rcases (mem_insertSorted x a zs).1 ha with rfl | ha
        · omega
        · exact h.1 a ha

theorem mem_uniqSorted (y : Int) (l : List Int) : y ∈ uniqSorted l ↔ y ∈ l := by
  induction l with
  | nil => simp [uniqSorted]
  | cons x xs ih =>
    unfold uniqSorted at ih ⊢
    rw [foldr_cons, mem_insertSorted, ih, mem_cons]

theorem sorted_uniqSorted (l : List Int) : (uniqSorted l).Pairwise (· < ·) := by
  induction l with
  | nil => simp [uniqSorted]
  | cons x xs ih =>
    unfold uniqSorted at ih ⊢
    rw [foldr_cons]; exact sorted_insertSorted x _ ih

theorem nodup_uniqSorted (l : List Int) : (uniqSorted l).Nodup :=
  (sorted_uniqSorted l).imp (fun h => Int.ne_of_lt h)

/-- grouping a keyed list by a duplicate-free key list that covers all keys is a permutation -/
theorem flatMap_filter_perm {β : Type} (l : List (Int × β)) (u : List Int) (hu : u.Nodup)
    (hc : ∀ p ∈ l, p.1 ∈ u) : (u.flatMap (fun c => l.filter (fun p => p.1 == c))).Perm l := by
  induction l with
  | nil =>
    have : (u.flatMap (fun c => ([] : List (Int × β)).filter (fun p => p.1 == c))) = [] := by
      simp
    rw [this]
  | cons p l ih =>
    have ih' := ih (fun q hq => hc q (mem_cons_of_mem _ hq))
    have hp : p.1 ∈ u := hc p (mem_cons_self ..)
    -- move `p` out of the group of its key
    have key : ∀ (u : List Int), u.Nodup → p.1 ∈ u →
        (u.flatMap (fun c => (p :: l).filter (fun q => q.1 == c))).Perm
          (p :: u.flatMap (fun c => l.filter (fun q => q.1 == c))) := by
      intro u hu hp
      induction u with
      | nil => simp at hp
      | cons c u ihu =>
        rw [nodup_cons] at hu
        simp only [flatMap_cons]
        by_cases hpc : p.1 = c
        · have hnot : p.1 ∉ u := hpc ▸ hu.1
          have hrest : u.flatMap (fun c => (p :: l).filter (fun q => q.1 == c))
              = u.flatMap (fun c => l.filter (fun q => q.1 == c)) := by
            apply flatMap_congr
            intro d hd
            have : (p.1 == d) = false := by
              simp only [beq_eq_false_iff_ne]; intro e; exact hnot (e ▸ hd)
            simp [this]
          rw [hrest, filter_cons_of_pos (by simp [hpc])]
          rfl
        · have hpu : p.1 ∈ u := by
            rcases mem_cons.1 hp with h | h
            · exact absurd h hpc
            · exact h
          rw [filter_cons_of_neg (by simp [hpc])]
          refine (Perm.append_left _ (ihu hu.2 hpu)).trans ?_
          exact perm_middle
    exact (key u hu hp).trans (Perm.cons p ih')

theorem zip_fst_mem {β : Type} (labels : List Int) (items : List β) :
    ∀ p ∈ labels.zip items, p.1 ∈ labels := by
  intro p hp
  exact (of_mem_zip hp).1

theorem slicesOf_flatten {β : Type} (labels : List Int) (items : List β) :
    (slicesOf labels items).flatten
      = ((uniqSorted labels).flatMap (fun c => (labels.zip items).filter (fun p => p.1 == c))).map (·.2) := by
  unfold slicesOf pick
  rw [flatMap_def, map_flatten, map_map]
  rfl

/-- the slices partition the sliced list -/
theorem slicesOf_perm {β : Type} (labels : List Int) (items : List β) (h : labels.length = items.length) :
    (slicesOf labels items).flatten.Perm items := by
  rw [slicesOf_flatten]
  have hperm := flatMap_filter_perm (labels.zip items) (uniqSorted labels) (nodup_uniqSorted labels)
    (fun p hp => (mem_uniqSorted _ _).2 (zip_fst_mem labels items p hp))
  have e : (labels.zip items).map (·.2) = items := map_snd_zip (by omega)
  have := hperm.map (·.2)
  rw [e] at this
  exact this

/-- every slice is non-empty -/
theorem slicesOf_ne_nil {β : Type} (labels : List Int) (items : List β) (h : labels.length = items.length) :
    ∀ sl ∈ slicesOf labels items, sl ≠ [] := by
  intro sl hsl
  unfold slicesOf at hsl
  obtain ⟨c, hc, rfl⟩ := mem_map.1 hsl
  have hcl : c ∈ labels := (mem_uniqSorted _ _).1 hc
  obtain ⟨i, hi, rfl⟩ := getElem_of_mem hcl
  have hi' : i < items.length := h ▸ hi
  have hz : (labels[i], items[i]) ∈ labels.zip items := by
    have : i < (labels.zip items).length := by simp [length_zip]; omega
    have e : (labels.zip items)[i] = (labels[i], items[i]) := by simp
    rw [← e]; exact getElem_mem this
  unfold pick
  intro he
  have : (labels[i], items[i]) ∈ (labels.zip items).filter (fun p => p.1 == labels[i]) :=
    mem_filter.2 ⟨hz, by simp⟩
  have := mem_map_of_mem (f := (·.2)) this
  rw [he] at this
  simp at this

theorem slicesOf_length_pos {β : Type} (labels : List Int) (items : List β) (h : labels.length = items.length)
    (hne : items ≠ []) : slicesOf labels items ≠ [] := by
  intro he
  have := slicesOf_perm labels items h
  rw [he] at this
  simp at this
  exact hne this

/-! ### the zero-variance split of a scope -/

theorem selectBy_perm (mask : List Bool) (scope : List Nat) (h : mask.length = scope.length) :
    (selectBy mask scope true ++ selectBy mask scope false).Perm scope := by
  unfold selectBy
  rw [← map_append]
  have hp : ((mask.zip scope).filter (fun p => p.1 == true) ++ (mask.zip scope).filter (fun p => p.1 == false)).Perm
      (mask.zip scope) := by
    have := filter_append_perm (fun p : Bool × Nat => p.1 == true) (mask.zip scope)
    refine Perm.trans ?_ this
    refine Perm.append_left _ ?_
    have e : (mask.zip scope).filter (fun p => p.1 == false)
        = (mask.zip scope).filter (fun p => !(p.1 == true)) := by
      apply filter_congr; intro p _; cases p.1 <;> rfl
    rw [e]
  have e : (mask.zip scope).map (·.2) = scope := map_snd_zip (by omega)
  have := hp.map (·.2)
  rw [e] at this
  exact this

theorem selectBy_ne_nil (mask : List Bool) (scope : List Nat) (h : mask.length = scope.length) (b : Bool)
    (hb : b ∈ mask) : selectBy mask scope b ≠ [] := by
  obtain ⟨i, hi, rfl⟩ := getElem_of_mem hb
  have hi' : i < scope.length := h ▸ hi
  have hz : (mask[i], scope[i]) ∈ mask.zip scope := by
    have : i < (mask.zip scope).length := by simp [length_zip]; omega
    have e : (mask.zip scope)[i] = (mask[i], scope[i]) := by simp
    rw [← e]; exact getElem_mem this
  unfold selectBy
  intro he
  have : (mask[i], scope[i]) ∈ (mask.zip scope).filter (fun p => p.1 == mask[i]) :=
    mem_filter.2 ⟨hz, by simp⟩
  have := mem_map_of_mem (f := (·.2)) this
  rw [he] at this
  simp at this

theorem length_zvMask (pos : List Nat) (n : Nat) : (zvMask pos n).length = n := by simp [zvMask]

end Deeprob.Learn
