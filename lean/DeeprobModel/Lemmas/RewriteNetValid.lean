import DeeprobModel.Lemmas.RewriteNetExport
set_option linter.unusedSectionVars false
set_option linter.unusedSimpArgs false
set_option linter.unusedVariables false
/-
Structural theory of the net-level `prune`, part 3: scopes. `prune` never writes a `scope`, so every statement is
about the scopes `scopeOf net` of the input table.

* `sol_valid` — invariant of the pass: the replacement of a node of `P` has the node's scope (as a set) and is
  smooth / decomposable with respect to its rewritten children.
-/
namespace Deeprob
open Net
variable {α : Type} [CommSemiring α]

/-- what `check_spn` guarantees about the scopes of the nodes in `P` -/
def LocalOK (net : Net α) (P : Nat → Prop) : Prop :=
  ∀ (i : Nat) (x : NNode α), P i → net[i]? = some x →
    (x.kind = .sum → ∀ c ∈ x.ch, scopeEq (scopeOf net c) x.scope) ∧
    (x.kind = .prod → (x.ch.map (scopeOf net)).Pairwise List.Disjoint ∧
      scopeEq (x.ch.map (scopeOf net)).flatten x.scope)

/-- node `r` of the rewritten table is smooth / decomposable (scopes read in the input table) -/
def VAt (net t : Net α) (r : Nat) : Prop :=
  (kindOf t r = .sum → ∀ c ∈ chOf t r, scopeEq (scopeOf net c) (scopeOf net r)) ∧
  (kindOf t r = .prod → ((chOf t r).map (scopeOf net)).Pairwise List.Disjoint ∧
    scopeEq ((chOf t r).map (scopeOf net)).flatten (scopeOf net r))

theorem scopeOf_get (t : Net α) (k : Nat) (y : NNode α) (h : t[k]? = some y) : scopeOf t k = y.scope := by
  simp [scopeOf, h]

theorem mem_flatten_map_sc (sc : Nat → List Nat) (l : List Nat) (v : Nat) :
    v ∈ (l.map sc).flatten ↔ ∃ c ∈ l, v ∈ sc c := by
  simp only [List.mem_flatten, List.mem_map]
  constructor
  · rintro ⟨s, ⟨c, hc, rfl⟩, hv⟩; exact ⟨c, hc, hv⟩
  · rintro ⟨c, hc, hv⟩; exact ⟨_, ⟨c, hc, rfl⟩, hv⟩

theorem sol_valid (net t : Net α) (rep : List Nat) (hw : WellOrdered net) (S : Sol true net t rep)
    (P : Nat → Prop) (hP : ∀ i, P i → ∀ c ∈ chOf net i, P c) (hsh : ShapeOK net P) (hlo : LocalOK net P) :
    ∀ k, k < net.length → P k →
      scopeEq (scopeOf net (rep.getD k k)) (scopeOf net k) ∧ VAt net t (rep.getD k k) := by
  intro k
  induction k using Nat.strong_induction_on with
  | _ k ih =>
    intro hk hPk
    have hx : net[k]? = some net[k] := List.getElem?_eq_getElem hk
    generalize net[k] = x at hx
    have hch := hw k x hx
    have hsk : scopeOf net k = x.scope := scopeOf_get net k x hx
    have hPc : ∀ c ∈ x.ch, P c := by
      intro c hc; exact hP k hPk c (by rw [chOf_some net k x hx]; exact hc)
    obtain ⟨hloS, hloP⟩ := hlo k x hPk hx
    have hgoodAll := sol_good net t rep hw S P hP hsh
    -- replaced children
    have hcn : ∀ c ∈ repCh rep x, ∃ c0 ∈ x.ch, rep.getD c0 c0 = c ∧ c < k ∧
        scopeEq (scopeOf net c) (scopeOf net c0) ∧ VAt net t c ∧ GoodAt t rep P c := by
      intro c hc
      obtain ⟨c0, hc0, rfl⟩ := (mem_repCh rep x c).1 hc
      have h0 := hch c0 hc0
      have h2 := (S.basic c0 (by omega)).rep_le
      obtain ⟨h3, h4⟩ := ih c0 h0 (by omega) (hPc c0 hc0)
      exact ⟨c0, hc0, rfl, by omega, h3, h4, hgoodAll c0 (by omega) (hPc c0 hc0)⟩
    -- children of an inner replaced child are valid themselves
    have hgc : ∀ c ∈ repCh rep x, kindOf t c ≠ .leaf → ∀ g ∈ chOf t c, VAt net t g := by
      intro c hc hnl g hg
      obtain ⟨_, _, _, hck, _, _, ⟨y, hy, hgood⟩⟩ := hcn c hc
      rw [kindOf_some t c y hy] at hnl
      rw [chOf_some t c y hy] at hg
      rcases hgood with h | ⟨_, _, h3⟩
      · exact absurd h.1 hnl
      · obtain ⟨_, j, hj, hPj, hjg⟩ := h3 g hg
        rw [← hjg]; exact (ih j (by omega) (by omega) hPj).2
    -- a sum with scope `x.scope`: scope of every key
    have hkeySc : x.kind = .sum → ∀ g ∈ (sumItems' t (repCh rep x) x.ws).map Prod.fst,
        scopeEq (scopeOf net g) x.scope ∧ VAt net t g := by
      intro hks g hg
      obtain ⟨c, hc, h | h⟩ := keys_sumItems' t _ _ g hg
      · obtain ⟨c0, hc0, _, _, h3, h4, _⟩ := hcn c hc
        rw [h.1]; exact ⟨h3.trans (hloS hks c0 hc0), h4⟩
      · obtain ⟨c0, hc0, _, _, h3, h4, _⟩ := hcn c hc
        exact ⟨((h4.1 h.1 g h.2).trans h3).trans (hloS hks c0 hc0), hgc c hc (by rw [h.1]; simp) g h.2⟩
    rcases sol_outcome true net t rep hw S k x hx with ⟨hkd, e, r⟩ | ⟨hkd, c, hc, e, r⟩ | ⟨hkd, hlen, e, r⟩ |
        ⟨hkd, hlen, _, p, hp, e, r⟩ | ⟨hkd, hlen, hb, e, r⟩
    · rw [r]
      refine ⟨scopeEq.rfl', ?_, ?_⟩
      · rw [kindOf_some t k x e, hkd]; intro h; cases h
      · rw [kindOf_some t k x e, hkd]; intro h; cases h
    · rw [r]
      obtain ⟨c0, hc0, hrc, _, h3, h4, _⟩ := hcn c (by rw [hc]; simp)
      refine ⟨?_, h4⟩
      have hxc : x.ch = [c0] := by
        have hl : x.ch.length = 1 := by
          have := congrArg List.length hc; unfold repCh at this; simpa using this
        match hxch : x.ch, hl with
        | [d], _ => rw [hxch] at hc0; simp at hc0; rw [hc0]
      rw [hsk]
      apply h3.trans
      have h3k : x.kind = .leaf ∨ x.kind = .prod ∨ x.kind = .sum := by cases x.kind <;> simp
      rcases h3k with h | h | h
      · exact absurd h hkd
      · have := (hloP h).2
        rw [hxc] at this
        simpa using this
      · exact hloS h c0 hc0
    · rw [r]
      refine ⟨scopeEq.rfl', ?_, ?_⟩
      · rw [kindOf_some t k _ e]; simp only [hkd]; intro h; cases h
      · intro _
        rw [chOf_some t k _ e, hsk]
        show ((prodItems' t (repCh rep x)).map (scopeOf net)).Pairwise List.Disjoint ∧
          scopeEq ((prodItems' t (repCh rep x)).map (scopeOf net)).flatten x.scope
        obtain ⟨hpw, hun⟩ := hloP hkd
        -- what one replaced child contributes
        have hpiece : ∀ c ∈ repCh rep x,
            ((if kindOf t c = .prod then chOf t c else [c]).map (scopeOf net)).Pairwise List.Disjoint ∧
            ∀ v, (∃ a ∈ (if kindOf t c = .prod then chOf t c else [c]), v ∈ scopeOf net a) ↔ v ∈ scopeOf net c := by
          intro c hc
          by_cases hkp : kindOf t c = .prod
          · simp only [hkp, if_true]
            obtain ⟨_, _, _, _, _, h4, _⟩ := hcn c hc
            obtain ⟨q1, q2⟩ := h4.2 hkp
            exact ⟨q1, fun v => by rw [← mem_flatten_map_sc]; exact q2 v⟩
          · simp only [hkp, if_false]
            exact ⟨by simp, fun v => by simp⟩
        constructor
        · unfold prodItems'
          rw [List.pairwise_map, List.pairwise_flatten]
          constructor
          · intro l hl
            simp only [List.mem_map] at hl
            obtain ⟨c, hc, rfl⟩ := hl
            have := (hpiece c hc).1
            rwa [List.pairwise_map] at this
          · rw [List.pairwise_map]
            unfold repCh
            rw [List.pairwise_map]
            rw [List.pairwise_map] at hpw
            apply List.Pairwise.imp_of_mem _ hpw
            intro c0 c0' hm hm' hdis a ha b hb v hva hvb
            have hc : rep.getD c0 c0 ∈ repCh rep x := (mem_repCh rep x _).2 ⟨c0, hm, rfl⟩
            have hc' : rep.getD c0' c0' ∈ repCh rep x := (mem_repCh rep x _).2 ⟨c0', hm', rfl⟩
            have s1 := ((hpiece _ hc).2 v).1 ⟨a, ha, hva⟩
            have s2 := ((hpiece _ hc').2 v).1 ⟨b, hb, hvb⟩
            have t1 := (ih c0 (hch c0 hm) (by have := hch c0 hm; omega) (hPc c0 hm)).1
            have t2 := (ih c0' (hch c0' hm') (by have := hch c0' hm'; omega) (hPc c0' hm')).1
            exact hdis ((t1 v).1 s1) ((t2 v).1 s2)
        · intro v
          rw [← hun v, mem_flatten_map_sc, mem_flatten_map_sc]
          constructor
          · rintro ⟨g, hg, hv⟩
            obtain ⟨c, hc, hor⟩ := (mem_prodItems' t _ g).1 hg
            have hin : g ∈ (if kindOf t c = .prod then chOf t c else [c]) := by
              rcases hor with h | h
              · simp [h.2, h.1]
              · simp [h.1, h.2]
            have s1 := ((hpiece c hc).2 v).1 ⟨g, hin, hv⟩
            obtain ⟨c0, hc0, _, _, h3, _, _⟩ := hcn c hc
            exact ⟨c0, hc0, (h3 v).1 s1⟩
          · rintro ⟨c0, hc0, hv⟩
            have hc : rep.getD c0 c0 ∈ repCh rep x := (mem_repCh rep x _).2 ⟨c0, hc0, rfl⟩
            have t1 := (ih c0 (hch c0 hc0) (by have := hch c0 hc0; omega) (hPc c0 hc0)).1
            obtain ⟨a, ha, hva⟩ := ((hpiece _ hc).2 v).2 ((t1 v).2 hv)
            refine ⟨a, (mem_prodItems' t _ a).2 ⟨_, hc, ?_⟩, hva⟩
            by_cases hkp : kindOf t (rep.getD c0 c0) = .prod
            · right; simp only [hkp, if_true] at ha; exact ⟨hkp, ha⟩
            · left; simp only [hkp, if_false, List.mem_singleton] at ha; exact ⟨ha, hkp⟩
    · rw [r]
      have : p.1 ∈ (sumAcc' t (repCh rep x) x.ws).map Prod.fst := by rw [hp]; simp
      rw [mem_sumAcc'_keys] at this
      rw [hsk]
      exact hkeySc hkd p.1 this
    · rw [r]
      refine ⟨scopeEq.rfl', ?_, ?_⟩
      · intro _
        rw [chOf_some t k _ e, hsk]
        intro g hg
        exact (hkeySc hkd g ((mem_sumAcc'_keys t _ _ g).1 hg)).1
      · rw [kindOf_some t k _ e]; simp only [hkd]; intro h; cases h

end Deeprob
