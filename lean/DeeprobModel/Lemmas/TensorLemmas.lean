import DeeprobModel.Model.RatSpn
import DeeprobModel.Model.DgcSpn
import Mathlib.Tactic.Linarith
import Mathlib.Tactic.Ring
/-
Helper lemmas for C16 (region graphs, padding buffers, un-padding gather) and
C17 (1-D scopes of the dilated convolution schedule).
-/
set_option linter.unusedSimpArgs false
set_option linter.unusedVariables false

namespace Deeprob
namespace RatSpn

/-! ### sorting -/

theorem insSorted_perm (a : Nat) : ∀ l : List Nat, (insSorted a l).Perm (a :: l)
  | [] => List.Perm.refl _
  | b :: l => by
      simp only [insSorted]
      split
      · exact List.Perm.refl _
      · exact ((insSorted_perm a l).cons b).trans (List.Perm.swap a b l)

theorem isort_perm : ∀ l : List Nat, (isort l).Perm l
  | [] => List.Perm.refl _
  | a :: l => (insSorted_perm a (isort l)).trans ((isort_perm l).cons a)

theorem insSorted_sorted (a : Nat) : ∀ l : List Nat, l.Pairwise (· ≤ ·) → (insSorted a l).Pairwise (· ≤ ·)
  | [], _ => by simp [insSorted]
  | b :: l, h => by
      simp only [insSorted]
      split
      · rename_i hab
        refine List.Pairwise.cons ?_ h
        intro c hc
        rcases List.mem_cons.1 hc with rfl | hc
        · exact hab
        · exact Nat.le_trans hab ((List.pairwise_cons.1 h).1 c hc)
      · rename_i hab
        refine List.Pairwise.cons ?_ (insSorted_sorted a l (List.pairwise_cons.1 h).2)
        intro c hc
        rcases List.mem_cons.1 ((insSorted_perm a l).subset hc) with rfl | hc
        · omega
        · exact (List.pairwise_cons.1 h).1 c hc

theorem isort_sorted : ∀ l : List Nat, (isort l).Pairwise (· ≤ ·)
  | [] => List.Pairwise.nil
  | a :: l => insSorted_sorted a _ (isort_sorted l)

theorem isort_length (l : List Nat) : (isort l).length = l.length := (isort_perm l).length_eq

theorem mem_isort {l : List Nat} {v : Nat} : v ∈ isort l ↔ v ∈ l := (isort_perm l).mem_iff

/-- a sorted duplicate-free list is strictly increasing -/
theorem isort_strict {l : List Nat} (h : l.Nodup) : (isort l).Pairwise (· < ·) := by
  have hs := isort_sorted l
  have hn : (isort l).Nodup := (isort_perm l).nodup_iff.2 h
  have := hs.and hn
  exact this.imp (fun ⟨h1, h2⟩ => Nat.lt_of_le_of_ne h1 h2)

/-! ### one split -/

section split
variable (ρ : List Nat → List Nat) (r : List Nat)

theorem split_perm (h : (ρ r).Perm r) : ((splitRegion ρ r).1 ++ (splitRegion ρ r).2).Perm r := by
  simp only [splitRegion]
  refine ((isort_perm _).append (isort_perm _)).trans ?_
  rw [List.take_append_drop]; exact h

theorem split_len1 (h : (ρ r).Perm r) : (splitRegion ρ r).1.length = r.length / 2 := by
  simp only [splitRegion, isort_length, List.length_take, h.length_eq]; omega

theorem split_len2 (h : (ρ r).Perm r) : (splitRegion ρ r).2.length = r.length - r.length / 2 := by
  simp only [splitRegion, isort_length, List.length_drop, h.length_eq]

theorem split_nodup (h : (ρ r).Perm r) (hn : r.Nodup) :
    ((splitRegion ρ r).1 ++ (splitRegion ρ r).2).Nodup := (split_perm ρ r h).nodup_iff.2 hn

theorem split_sorted1 : (splitRegion ρ r).1.Pairwise (· ≤ ·) := isort_sorted _
theorem split_sorted2 : (splitRegion ρ r).2.Pairwise (· ≤ ·) := isort_sorted _

end split

/-! ### arithmetic of sizes -/

theorem two_pow_pos (d : Nat) : 0 < 2 ^ d := Nat.pos_of_ne_zero (by simp)

/-- `n + pad` is `2^d * dimension` -/
theorem pad_total (n d : Nat) : 2 ^ d * dimOf n d = n + padOf n d := by
  have hm := two_pow_pos d
  simp only [dimOf, padOf]
  generalize 2 ^ d = m at *
  apply Nat.mul_div_cancel'
  apply Nat.dvd_of_mod_eq_zero
  by_cases hr : n % m = 0
  · simp [hr, Nat.add_mod]
  · have hlt := Nat.mod_lt n hm
    have h1 : (m - n % m) % m = m - n % m := Nat.mod_eq_of_lt (by omega)
    rw [h1]
    have hdm := Nat.div_add_mod n m
    have : n + (m - n % m) = m * (n / m + 1) := by rw [Nat.mul_add]; omega
    rw [this]; exact Nat.mul_mod_right _ _

/-- `dimension = ⌈n / 2^d⌉` -/
theorem dimOf_eq_ceil (n d : Nat) : dimOf n d = (n + 2 ^ d - 1) / 2 ^ d := by
  have hm := two_pow_pos d
  have ht := pad_total n d
  simp only [dimOf, padOf] at *
  generalize 2 ^ d = m at *
  have hdm := Nat.div_add_mod n m
  have hlt := Nat.mod_lt n hm
  by_cases hr : n % m = 0
  · have h0 : (m - n % m) % m = 0 := by simp [hr]
    rw [h0, Nat.add_zero]
    symm
    apply Nat.div_eq_of_lt_le
    · rw [Nat.mul_comm]; omega
    · rw [Nat.add_mul, Nat.mul_comm]; omega
  · have h1 : (m - n % m) % m = m - n % m := Nat.mod_eq_of_lt (by omega)
    rw [h1]
    have e1 : n + (m - n % m) = m * (n / m + 1) := by rw [Nat.mul_add]; omega
    rw [e1, Nat.mul_div_cancel_left _ hm]
    symm
    apply Nat.div_eq_of_lt_le
    · rw [Nat.add_mul, Nat.mul_comm]; omega
    · rw [Nat.add_mul, Nat.add_mul, Nat.mul_comm]; omega

theorem pad_lt (n d : Nat) : padOf n d < 2 ^ d := Nat.mod_lt _ (two_pow_pos d)

theorem accepted_iff (n d : Nat) : accepted n d = true ↔ 0 < n ∧ 0 < d ∧ 2 ^ d ≤ n := by
  simp only [accepted, Bool.and_eq_true, decide_eq_true_eq]
  constructor
  · rintro ⟨⟨h1, h2⟩, h3⟩
    exact ⟨h1, h2, (Nat.le_log2 (by omega)).1 h3⟩
  · rintro ⟨h1, h2, h3⟩
    exact ⟨⟨h1, h2⟩, (Nat.le_log2 (by omega)).2 h3⟩

/-! ### levels of one repetition -/

section levels
variable (ρ : List Nat → List Nat) (hρ : ∀ r, (ρ r).Perm r)
include hρ

theorem nextRegions_flatten_perm : ∀ rs : List (List Nat), (nextRegions ρ rs).flatten.Perm rs.flatten
  | [] => by simp [nextRegions]
  | r :: rs => by
      have ih := nextRegions_flatten_perm rs
      simp only [nextRegions, List.flatMap_cons, List.flatten_append, List.flatten_cons, List.flatten_nil,
        List.append_nil] at *
      exact (split_perm ρ r (hρ r)).append ih

theorem level_flatten_perm (n : Nat) : ∀ k, (regionLevel ρ n k).flatten.Perm (List.range n)
  | 0 => by simp [regionLevel]
  | k + 1 => (nextRegions_flatten_perm ρ hρ _).trans (level_flatten_perm n k)

omit hρ in
theorem nextRegions_length (rs : List (List Nat)) : (nextRegions ρ rs).length = 2 * rs.length := by
  induction rs with
  | nil => simp [nextRegions]
  | cons r rs ih => simp only [nextRegions, List.flatMap_cons, List.length_append, List.length_cons, List.length_nil] at *; omega

omit hρ in
theorem level_length (n : Nat) : ∀ k, (regionLevel ρ n k).length = 2 ^ k
  | 0 => by simp [regionLevel]
  | k + 1 => by rw [regionLevel, nextRegions_length, level_length n k, Nat.pow_succ]; omega

omit hρ in
theorem mem_nextRegions {rs : List (List Nat)} {s : List Nat} :
    s ∈ nextRegions ρ rs ↔ ∃ r ∈ rs, s = (splitRegion ρ r).1 ∨ s = (splitRegion ρ r).2 := by
  simp [nextRegions, List.mem_flatMap]

/-- sizes at level `k` are `⌊n/2^k⌋` or `⌈n/2^k⌉` -/
theorem level_sizes (n : Nat) : ∀ k, ∀ r ∈ regionLevel ρ n k,
    n / 2 ^ k ≤ r.length ∧ r.length ≤ (n + 2 ^ k - 1) / 2 ^ k
  | 0, r, hr => by
      simp only [regionLevel, List.mem_singleton] at hr
      subst hr; simp
  | k + 1, s, hs => by
      rw [regionLevel, mem_nextRegions] at hs
      obtain ⟨r, hr, hs⟩ := hs
      obtain ⟨ih1, ih2⟩ := level_sizes n k r hr
      have hm := two_pow_pos k
      have e1 : n / 2 ^ (k + 1) = n / 2 ^ k / 2 := by rw [Nat.pow_succ, Nat.div_div_eq_div_mul]
      have e2 : (n + 2 ^ (k + 1) - 1) / 2 ^ (k + 1) = ((n + 2 ^ k - 1) / 2 ^ k + 1) / 2 := by
        rw [Nat.pow_succ, ← Nat.div_div_eq_div_mul]
        have : n + 2 ^ k * 2 - 1 = (n + 2 ^ k - 1) + 2 ^ k := by omega
        rw [this, Nat.add_div_right _ hm]
      rw [e1, e2]
      have l1 := split_len1 ρ r (hρ r)
      have l2 := split_len2 ρ r (hρ r)
      rcases hs with rfl | rfl <;> omega

theorem level_nodup (n : Nat) (k : Nat) : (regionLevel ρ n k).flatten.Nodup :=
  (level_flatten_perm ρ hρ n k).nodup_iff.2 List.nodup_range

theorem level_region_nodup (n k : Nat) : ∀ r ∈ regionLevel ρ n k, r.Nodup := by
  intro r hr
  have h := level_nodup ρ hρ n k
  exact (List.pairwise_flatten.1 h).1 r hr

/-- every region that gets split (level `k < depth`) has at least two elements -/
theorem level_two_le (n d k : Nat) (hd : 2 ^ d ≤ n) (hk : k < d) : ∀ r ∈ regionLevel ρ n k, 2 ≤ r.length := by
  intro r hr
  have h1 := (level_sizes ρ hρ n k r hr).1
  have hp : 2 ^ (k + 1) ≤ 2 ^ d := Nat.pow_le_pow_right (by omega) hk
  have : 2 ≤ n / 2 ^ k := by
    rw [Nat.le_div_iff_mul_le (two_pow_pos k)]
    rw [Nat.pow_succ] at hp; omega
  omega

/-- every region of every level `k ≤ depth` is non-empty -/
theorem level_nonempty (n d k : Nat) (hd : 2 ^ d ≤ n) (hk : k ≤ d) : ∀ r ∈ regionLevel ρ n k, 1 ≤ r.length := by
  intro r hr
  have h1 := (level_sizes ρ hρ n k r hr).1
  have hp : 2 ^ k ≤ 2 ^ d := Nat.pow_le_pow_right (by omega) hk
  have : 1 ≤ n / 2 ^ k := by
    rw [Nat.le_div_iff_mul_le (two_pow_pos k)]; omega
  omega

theorem leaf_le_dim (n d : Nat) : ∀ r ∈ regionLevel ρ n d, r.length ≤ dimOf n d := by
  intro r hr
  rw [dimOf_eq_ceil]
  exact (level_sizes ρ hρ n d r hr).2

end levels


/-! ### reshaping row-major buffers -/

theorem flatten_drop_uniform {β : Type} (w : Nat) : ∀ (buf : List (List β)) (k : Nat),
    (∀ row ∈ buf, row.length = w) → buf.flatten.drop (k * w) = (buf.drop k).flatten
  | buf, 0, _ => by simp
  | [], k + 1, _ => by simp
  | row :: buf, k + 1, h => by
      have hr : row.length = w := h row (List.mem_cons_self)
      have e : (k + 1) * w = row.length + k * w := by rw [hr, Nat.add_mul]; omega
      rw [List.flatten_cons, e, List.drop_length_add_append, List.drop_succ_cons]
      exact flatten_drop_uniform w buf k (fun r hr' => h r (List.mem_cons_of_mem _ hr'))

theorem flatten_take_uniform {β : Type} (w : Nat) : ∀ (buf : List (List β)) (k : Nat),
    (∀ row ∈ buf, row.length = w) → buf.flatten.take (k * w) = (buf.take k).flatten
  | buf, 0, _ => by simp
  | [], k + 1, _ => by simp
  | row :: buf, k + 1, h => by
      have hr : row.length = w := h row (List.mem_cons_self)
      have e : (k + 1) * w = row.length + k * w := by rw [hr, Nat.add_mul]; omega
      rw [List.flatten_cons, e, List.take_length_add_append, List.take_succ_cons, List.flatten_cons]
      congr 1
      exact flatten_take_uniform w buf k (fun r hr' => h r (List.mem_cons_of_mem _ hr'))

theorem reshapeRow_uniform {β : Type} (w m : Nat) (buf : List (List β)) (h : ∀ row ∈ buf, row.length = w)
    (t : Nat) : reshapeRow (m * w) buf t = ((buf.drop (t * m)).take m).flatten := by
  unfold reshapeRow
  have e : t * (m * w) = (t * m) * w := by rw [Nat.mul_assoc]
  rw [e, flatten_drop_uniform w buf _ h]
  exact flatten_take_uniform w _ m (fun r hr => h r (List.mem_of_mem_drop hr))

theorem flatMap_range_length {β : Type} (f : Nat → List β) (m : Nat) (hf : ∀ t, (f t).length = m) :
    ∀ reps, ((List.range reps).flatMap f).length = reps * m
  | 0 => by simp
  | reps + 1 => by
      rw [List.range_succ, List.flatMap_append, List.length_append, flatMap_range_length f m hf reps]
      simp [hf, Nat.add_mul]

/-- block `t` of a concatenation of `reps` blocks of equal length -/
theorem flatMap_block {β : Type} (f : Nat → List β) (m : Nat) (hf : ∀ t, (f t).length = m) :
    ∀ reps t, t < reps → (((List.range reps).flatMap f).drop (t * m)).take m = f t
  | 0, t, h => by omega
  | reps + 1, t, h => by
      rw [List.range_succ, List.flatMap_append]
      have hl := flatMap_range_length f m hf reps
      by_cases ht : t < reps
      · have h1 : t * m ≤ ((List.range reps).flatMap f).length := by
          rw [hl]; exact Nat.mul_le_mul_right m (by omega)
        rw [List.drop_append_of_le_length h1]
        have h2 : m ≤ (((List.range reps).flatMap f).drop (t * m)).length := by
          rw [List.length_drop, hl]
          have : (t + 1) * m ≤ reps * m := Nat.mul_le_mul_right m (by omega)
          rw [Nat.add_mul] at this; omega
        rw [List.take_append_of_le_length h2]
        exact flatMap_block f m hf reps t ht
      · have : t = reps := by omega
        subst this
        have : t * m = ((List.range t).flatMap f).length := hl.symm
        rw [this, List.drop_left]
        simp only [List.flatMap_cons, List.flatMap_nil, List.append_nil]
        rw [← hf t, List.take_length]

/-! ### the rows of the mask buffers -/

theorem maskRow_length (dim : Nat) (r : List Nat) (h : r.length ≤ dim) : (maskRow dim r).length = dim := by
  simp [maskRow]; omega

theorem padMaskRow_length (dim : Nat) (r : List Nat) : (padMaskRow dim r).length = dim := by
  simp [padMaskRow]

theorem zip_false_select (r : List Nat) :
    (((r.zip (List.replicate r.length false)).filter (fun p => !p.2)).map (fun p => p.1)) = r := by
  induction r with
  | nil => simp
  | cons a r ih => simp [List.replicate_succ, ih]

theorem zip_true_select (a x : Nat) :
    (((List.replicate a x).zip (List.replicate a true)).filter (fun p => !p.2)) = [] := by
  rw [List.filter_eq_nil_iff]
  intro p hp
  have := (List.of_mem_zip (a := p.1) (b := p.2) hp).2
  simp at this
  simp [this.2]

/-- keeping the non-dummy positions of the flattened mask gives back the regions, in order -/
theorem select_nonpad (dim : Nat) : ∀ (regs : List (List Nat)), (∀ r ∈ regs, r.length ≤ dim) →
    ((((regs.map (maskRow dim)).flatten.zip (regs.map (padMaskRow dim)).flatten).filter (fun p => !p.2)).map
      (fun p => p.1)) = regs.flatten
  | [], _ => by simp
  | r :: regs, h => by
      have hr : r.length ≤ dim := h r List.mem_cons_self
      have ih := select_nonpad dim regs (fun r hr' => h r (List.mem_cons_of_mem _ hr'))
      simp only [List.map_cons, List.flatten_cons]
      rw [List.zip_append (by rw [maskRow_length dim r hr, padMaskRow_length]), List.filter_append,
        List.map_append, ih]
      congr 1
      have e : dim - (dim - r.length) = r.length := by omega
      simp only [maskRow, padMaskRow]
      rw [e, List.zip_append (by simp), List.filter_append, List.map_append, zip_false_select, zip_true_select]
      simp

theorem maskFlat_length (dim : Nat) (regs : List (List Nat)) (h : ∀ r ∈ regs, r.length ≤ dim) :
    (regs.map (maskRow dim)).flatten.length = regs.length * dim := by
  induction regs with
  | nil => simp
  | cons r regs ih =>
    simp only [List.map_cons, List.flatten_cons, List.length_append, List.length_cons]
    rw [ih (fun r hr' => h r (List.mem_cons_of_mem _ hr')), maskRow_length dim r (h r List.mem_cons_self),
      Nat.add_mul]; omega

theorem padFlat_length (dim : Nat) (regs : List (List Nat)) :
    (regs.map (padMaskRow dim)).flatten.length = regs.length * dim := by
  induction regs with
  | nil => simp
  | cons r regs ih =>
    simp only [List.map_cons, List.flatten_cons, List.length_append, List.length_cons]
    rw [ih, padMaskRow_length, Nat.add_mul]; omega

/-- indexing a pair of equally long lists by position is the same as zipping them -/
theorem range_filter_zip (A : List Nat) (B : List Bool) (hlen : A.length = B.length) :
    ((List.range A.length).filter (fun p => !B.getD p false)).map (fun p => A.getD p 0)
      = ((A.zip B).filter (fun p => !p.2)).map (fun p => p.1) := by
  have hz : (List.range A.length).map (fun p => (A.getD p 0, B.getD p false)) = A.zip B := by
    apply List.ext_getElem
    · simp [hlen]
    · intro i h1 h2
      simp only [List.length_map, List.length_range] at h1
      have hb : i < B.length := by omega
      simp [List.getD_eq_getElem?_getD, List.getElem?_eq_getElem h1, List.getElem?_eq_getElem hb]
  rw [← hz, List.filter_map, List.map_map]
  rfl

theorem count_false_zip : ∀ (A : List Nat) (B : List Bool), A.length = B.length →
    B.count false = ((A.zip B).filter (fun p => !p.2)).length
  | [], [], _ => rfl
  | [], _ :: _, h => by simp at h
  | _ :: _, [], h => by simp at h
  | a :: A, b :: B, h => by
      have ih := count_false_zip A B (by simpa using h)
      cases b <;> simp [List.count_cons, ih]

theorem count_true_false (l : List Bool) : l.count true + l.count false = l.length := by
  induction l with
  | nil => rfl
  | cons b l ih => cases b <;> simp <;> omega

/-! ### argsort -/

theorem insIdx_perm (key : Nat → Nat) (i : Nat) : ∀ l : List Nat, (insIdx key i l).Perm (i :: l)
  | [] => List.Perm.refl _
  | j :: l => by
      simp only [insIdx]
      split
      · exact List.Perm.refl _
      · exact ((insIdx_perm key i l).cons j).trans (List.Perm.swap i j l)

theorem argsortAux_perm (key : Nat → Nat) : ∀ l : List Nat, (argsortAux key l).Perm l
  | [] => List.Perm.refl _
  | i :: l => (insIdx_perm key i _).trans ((argsortAux_perm key l).cons i)

theorem insIdx_sorted (key : Nat → Nat) (i : Nat) : ∀ l : List Nat,
    l.Pairwise (fun a b => key a ≤ key b) → (insIdx key i l).Pairwise (fun a b => key a ≤ key b)
  | [], _ => by simp [insIdx]
  | j :: l, h => by
      simp only [insIdx]
      split
      · rename_i hij
        refine List.Pairwise.cons ?_ h
        intro c hc
        rcases List.mem_cons.1 hc with rfl | hc
        · exact hij
        · exact Nat.le_trans hij ((List.pairwise_cons.1 h).1 c hc)
      · rename_i hij
        refine List.Pairwise.cons ?_ (insIdx_sorted key i l (List.pairwise_cons.1 h).2)
        intro c hc
        rcases List.mem_cons.1 ((insIdx_perm key i l).subset hc) with rfl | hc
        · omega
        · exact (List.pairwise_cons.1 h).1 c hc

theorem argsortAux_sorted (key : Nat → Nat) : ∀ l : List Nat,
    (argsortAux key l).Pairwise (fun a b => key a ≤ key b)
  | [] => List.Pairwise.nil
  | i :: l => insIdx_sorted key i _ (argsortAux_sorted key l)

theorem argsort_perm (row : List Nat) : (argsort row).Perm (List.range row.length) := argsortAux_perm _ _

theorem argsort_sorted (row : List Nat) :
    (argsort row).Pairwise (fun a b => row.getD a 0 ≤ row.getD b 0) := argsortAux_sorted _ _

/-- **core of the un-padding theorem**, for *any* index list `σ` that is a permutation of the positions
and lists the keys in non-decreasing order (any tie-breaking of `argsort`): selecting the non-dummy
positions along `σ` reads the keys `0, 1, …, n-1` in this order. -/
theorem unpad_core (A : List Nat) (B : List Bool) (hlen : A.length = B.length) (n : Nat)
    (hsel : (((A.zip B).filter (fun p => !p.2)).map (fun p => p.1)).Perm (List.range n))
    (σ : List Nat) (hσ : σ.Perm (List.range A.length))
    (hs : σ.Pairwise (fun a b => A.getD a 0 ≤ A.getD b 0)) :
    (σ.filter (fun p => !B.getD p false)).map (fun p => A.getD p 0) = List.range n := by
  apply List.Perm.eq_of_pairwise (le := (· ≤ ·))
  · intro a b _ _ h1 h2; omega
  · rw [List.pairwise_map]
    exact List.Pairwise.sublist List.filter_sublist hs
  · exact List.pairwise_le_range
  · refine ((hσ.filter _).map _).trans ?_
    rw [range_filter_zip A B hlen]
    exact hsel

/-! ### boolean selection and gathers -/

theorem selectRow_map {β : Type} (l : List β) (f : β → Bool) : selectRow l (l.map f) = l.filter f := by
  unfold selectRow
  induction l with
  | nil => simp
  | cons a l ih =>
    simp only [List.map_cons, List.zip_cons_cons, List.filter_cons]
    by_cases h : f a = true <;> simp [h, ih]

theorem selectRow_gather {β : Type} (x : List β) (f : Nat → Bool) : ∀ (σ : List Nat), (∀ p ∈ σ, p < x.length) →
    selectRow (gatherRow x σ) (σ.map f) = gatherRow x (σ.filter f)
  | [], _ => by simp [selectRow, gatherRow]
  | p :: σ, h => by
      have hp : p < x.length := h p List.mem_cons_self
      have ih := selectRow_gather x f σ (fun q hq => h q (List.mem_cons_of_mem _ hq))
      unfold selectRow gatherRow at *
      simp only [List.filterMap_cons, List.getElem?_eq_getElem hp, List.map_cons, List.zip_cons_cons,
        List.filter_cons]
      by_cases hf : f p = true
      · simp [hf, List.getElem?_eq_getElem hp, ih]
      · simp [hf, ih]

theorem gather_range_take {β : Type} (x : List β) : ∀ k, k ≤ x.length →
    gatherRow x (List.range k) = x.take k
  | 0, _ => by simp [gatherRow]
  | k + 1, h => by
      have ih := gather_range_take x k (by omega)
      unfold gatherRow at *
      have hk : k < x.length := by omega
      rw [List.range_succ, List.filterMap_append, ih, List.take_add_one]
      simp [List.getElem?_eq_getElem hk]

theorem gather_range {β : Type} (x : List β) : gatherRow x (List.range x.length) = x := by
  rw [gather_range_take x x.length (Nat.le_refl _), List.take_length]


/-! ### all repetitions: the buffers of `RegionGraphLayer` row by row -/

section reps
variable (ρ : Nat → List Nat → List Nat) (hρ : ∀ t r, (ρ t r).Perm r)

theorem leafRegions_eq (n d reps : Nat) (hd : 0 < d) :
    leafRegions ρ n d reps = (List.range reps).flatMap (fun t => regionLevel (ρ t) n d) := by
  simp [leafRegions, regionLayer, Nat.ne_of_gt hd]

theorem leafRegions_length (n d reps : Nat) (hd : 0 < d) : (leafRegions ρ n d reps).length = reps * 2 ^ d := by
  rw [leafRegions_eq ρ n d reps hd]
  exact flatMap_range_length _ _ (fun t => level_length (ρ t) n d) reps

/-- the leaf regions of repetition `t` are block `t` of `rg_layers[0]` -/
theorem leaf_block (n d reps t : Nat) (hd : 0 < d) (ht : t < reps) :
    ((leafRegions ρ n d reps).drop (t * 2 ^ d)).take (2 ^ d) = regionLevel (ρ t) n d := by
  rw [leafRegions_eq ρ n d reps hd]
  exact flatMap_block _ _ (fun t => level_length (ρ t) n d) reps t ht

theorem mem_leafRegions {n d reps : Nat} (hd : 0 < d) {r : List Nat} :
    r ∈ leafRegions ρ n d reps ↔ ∃ t, t < reps ∧ r ∈ regionLevel (ρ t) n d := by
  rw [leafRegions_eq ρ n d reps hd]; simp [List.mem_flatMap]

include hρ

theorem all_leaf_le_dim (n d reps : Nat) (hd : 0 < d) : ∀ r ∈ leafRegions ρ n d reps, r.length ≤ dimOf n d := by
  intro r hr
  obtain ⟨t, _, hr⟩ := (mem_leafRegions ρ hd).1 hr
  exact leaf_le_dim (ρ t) (hρ t) n d r hr

theorem all_leaf_eq_dim (n d reps : Nat) (hd : 0 < d) (hp : padOf n d = 0) :
    ∀ r ∈ leafRegions ρ n d reps, r.length = dimOf n d := by
  intro r hr
  obtain ⟨t, _, hr⟩ := (mem_leafRegions ρ hd).1 hr
  have h1 := (level_sizes (ρ t) (hρ t) n d r hr).1
  have h2 := leaf_le_dim (ρ t) (hρ t) n d r hr
  have ht := pad_total n d
  rw [hp, Nat.add_zero] at ht
  have : n / 2 ^ d = dimOf n d := by
    have h3 := Nat.mul_div_cancel_left (dimOf n d) (two_pow_pos d)
    rw [ht] at h3; exact h3
  omega

theorem maskBuf_eq (n d reps : Nat) (hd : 0 < d) :
    maskBuf n d (leafRegions ρ n d reps) = (leafRegions ρ n d reps).map (maskRow (dimOf n d)) := by
  unfold maskBuf
  split
  · rfl
  · rename_i hp
    have hp : padOf n d = 0 := by omega
    symm
    conv => rhs; rw [← List.map_id (leafRegions ρ n d reps)]
    apply List.map_congr_left
    intro r hr
    have := all_leaf_eq_dim ρ hρ n d reps hd hp r hr
    simp [maskRow, this]

theorem padMaskBuf_eq (n d reps : Nat) (hd : 0 < d) :
    padMaskBuf n d (leafRegions ρ n d reps) = (leafRegions ρ n d reps).map (padMaskRow (dimOf n d)) := by
  unfold padMaskBuf
  split
  · rfl
  · rename_i hp
    have hp : padOf n d = 0 := by omega
    apply List.map_congr_left
    intro r hr
    have := all_leaf_eq_dim ρ hρ n d reps hd hp r hr
    simp [padMaskRow, this]

/-- row `t` of the reshaped `mask` = the padded leaf regions of repetition `t`, concatenated -/
theorem maskFlat_rep (n d reps t : Nat) (hd : 0 < d) (ht : t < reps) :
    maskFlat n d (leafRegions ρ n d reps) t
      = ((regionLevel (ρ t) n d).map (maskRow (dimOf n d))).flatten := by
  unfold maskFlat
  rw [maskBuf_eq ρ hρ n d reps hd, ← pad_total n d]
  rw [reshapeRow_uniform (dimOf n d) (2 ^ d)]
  · rw [← List.map_drop, ← List.map_take, leaf_block ρ n d reps t hd ht]
  · intro row hrow
    obtain ⟨r, hr, rfl⟩ := List.mem_map.1 hrow
    exact maskRow_length _ _ (all_leaf_le_dim ρ hρ n d reps hd r hr)

theorem padFlat_rep (n d reps t : Nat) (hd : 0 < d) (ht : t < reps) :
    padFlat n d (leafRegions ρ n d reps) t
      = ((regionLevel (ρ t) n d).map (padMaskRow (dimOf n d))).flatten := by
  unfold padFlat
  rw [padMaskBuf_eq ρ hρ n d reps hd, ← pad_total n d]
  rw [reshapeRow_uniform (dimOf n d) (2 ^ d)]
  · rw [← List.map_drop, ← List.map_take, leaf_block ρ n d reps t hd ht]
  · intro row hrow
    obtain ⟨r, hr, rfl⟩ := List.mem_map.1 hrow
    exact padMaskRow_length _ _

theorem maskFlat_len (n d reps t : Nat) (hd : 0 < d) (ht : t < reps) :
    (maskFlat n d (leafRegions ρ n d reps) t).length = n + padOf n d := by
  rw [maskFlat_rep ρ hρ n d reps t hd ht, maskFlat_length _ _ (leaf_le_dim (ρ t) (hρ t) n d),
    level_length, pad_total]

theorem padFlat_len (n d reps t : Nat) (hd : 0 < d) (ht : t < reps) :
    (padFlat n d (leafRegions ρ n d reps) t).length = n + padOf n d := by
  rw [padFlat_rep ρ hρ n d reps t hd ht, padFlat_length, level_length, pad_total]

/-- the non-dummy entries of row `t` of the mask are the variables `0..n-1`, each once -/
theorem nonpad_perm (n d reps t : Nat) (hd : 0 < d) (ht : t < reps) :
    ((((maskFlat n d (leafRegions ρ n d reps) t).zip (padFlat n d (leafRegions ρ n d reps) t)).filter
      (fun p => !p.2)).map (fun p => p.1)).Perm (List.range n) := by
  rw [maskFlat_rep ρ hρ n d reps t hd ht, padFlat_rep ρ hρ n d reps t hd ht,
    select_nonpad _ _ (leaf_le_dim (ρ t) (hρ t) n d)]
  exact level_flatten_perm (ρ t) (hρ t) n d

/-- when there is no padding every `pad_mask` entry is false -/
theorem padFlat_false (n d reps t : Nat) (hd : 0 < d) (ht : t < reps) (hp : padOf n d = 0) :
    ∀ b ∈ padFlat n d (leafRegions ρ n d reps) t, b = false := by
  intro b hb
  rw [padFlat_rep ρ hρ n d reps t hd ht] at hb
  obtain ⟨row, hrow, hin⟩ := List.mem_flatten.1 hb
  obtain ⟨r, hr, rfl⟩ := List.mem_map.1 hrow
  have hrr : r ∈ leafRegions ρ n d reps := (mem_leafRegions ρ hd).2 ⟨t, ht, hr⟩
  have hdim := all_leaf_eq_dim ρ hρ n d reps hd hp r hrr
  simp only [padMaskRow, hdim, Nat.sub_self, List.replicate_zero, List.append_nil, Nat.sub_zero,
    List.mem_replicate] at hin
  exact hin.2

theorem mem_invMask_lt (n d reps t : Nat) (hd : 0 < d) (ht : t < reps) :
    ∀ p ∈ invMask n d (leafRegions ρ n d reps) t, p < n + padOf n d := by
  intro p hp
  have := (argsort_perm (maskFlat n d (leafRegions ρ n d reps) t)).mem_iff.1 hp
  rw [List.mem_range, maskFlat_len ρ hρ n d reps t hd ht] at this
  exact this

/-- in both branches (`pad > 0` or not) the repaired selection keeps exactly the non-dummy positions
of `inv_mask[t]` -/
theorem unpadIdx_eq_filter (n d reps t : Nat) (hd : 0 < d) (ht : t < reps) :
    unpadIdx n d (leafRegions ρ n d reps) t
      = (invMask n d (leafRegions ρ n d reps) t).filter
          (fun p => !(padFlat n d (leafRegions ρ n d reps) t).getD p false) := by
  unfold unpadIdx
  split
  · unfold invPadMask
    rw [List.map_map, selectRow_map]; rfl
  · rename_i hp
    have hp : padOf n d = 0 := by omega
    symm
    rw [List.filter_eq_self]
    intro p hpm
    have hpl : p < (padFlat n d (leafRegions ρ n d reps) t).length := by
      rw [padFlat_len ρ hρ n d reps t hd ht]; exact mem_invMask_lt ρ hρ n d reps t hd ht p hpm
    have := padFlat_false ρ hρ n d reps t hd ht hp _ (List.getElem_mem hpl)
    simp [List.getD_eq_getElem?_getD, List.getElem?_eq_getElem hpl, this]

/-- index form of the un-padding theorem -/
theorem unpadIdx_keys (n d reps t : Nat) (hd : 0 < d) (ht : t < reps) :
    (unpadIdx n d (leafRegions ρ n d reps) t).map
      (fun p => (maskFlat n d (leafRegions ρ n d reps) t).getD p 0) = List.range n := by
  rw [unpadIdx_eq_filter ρ hρ n d reps t hd ht]
  have hlen : (maskFlat n d (leafRegions ρ n d reps) t).length = (padFlat n d (leafRegions ρ n d reps) t).length := by
    rw [maskFlat_len ρ hρ n d reps t hd ht, padFlat_len ρ hρ n d reps t hd ht]
  exact unpad_core _ _ hlen n (nonpad_perm ρ hρ n d reps t hd ht) _ (argsort_perm _) (argsort_sorted _)

/-- the repaired `unpad` is the gather along `unpadIdx` -/
theorem unpad_eq_gather {β : Type} (n d reps t : Nat) (hd : 0 < d) (ht : t < reps) (s : List β)
    (hs : s.length = n + padOf n d) :
    unpad n d (leafRegions ρ n d reps) t s = gatherRow s (unpadIdx n d (leafRegions ρ n d reps) t) := by
  have hlt : ∀ p ∈ invMask n d (leafRegions ρ n d reps) t, p < s.length := by
    rw [hs]; exact mem_invMask_lt ρ hρ n d reps t hd ht
  unfold unpad unpadIdx
  split
  · unfold invPadMask
    simp only [List.map_map]
    rw [selectRow_map, selectRow_gather s _ _ hlt]
  · rfl

end reps

end RatSpn
end Deeprob

namespace Deeprob
namespace DgcSpn

/-! ### C17: one product layer on 1-D scopes -/

theorem getD_replicate_nil (a i : Nat) : (List.replicate a ([] : List Nat)).getD i [] = [] := by
  rw [List.getD_eq_getElem?_getD]
  by_cases h : i < a
  · simp [List.getElem?_replicate, h]
  · simp [List.getElem?_replicate, h]

theorem padded_getD (padL : Nat) (padR : Int) (h : 0 ≤ padR) (xs : List (List Nat)) (i : Nat) :
    (padded padL padR xs).getD i [] = if padL ≤ i then xs.getD (i - padL) [] else [] := by
  unfold padded
  rw [if_pos h]
  simp only [List.getD_eq_getElem?_getD]
  by_cases hi : padL ≤ i
  · rw [if_pos hi, List.getElem?_append_right (by simpa using hi)]
    simp only [List.length_replicate]
    by_cases h2 : i - padL < xs.length
    · rw [List.getElem?_append_left h2]
    · have h3 : xs.length ≤ i - padL := by omega
      rw [List.getElem?_append_right h3, List.getElem?_eq_none (l := xs) h3]
      have := getD_replicate_nil padR.toNat (i - padL - xs.length)
      rw [List.getD_eq_getElem?_getD] at this
      rw [this]; rfl
  · rw [if_neg hi, List.getElem?_append_left (by simpa using (by omega : i < padL))]
    simp [List.getElem?_replicate, (by omega : i < padL)]

theorem prodScopes_length (cfg : ProdCfg) (xs : List (List Nat)) :
    (prodScopes cfg xs).length = outSize cfg xs.length := by
  simp [prodScopes]

theorem prodScopes_getD (cfg : ProdCfg) (xs : List (List Nat)) (j : Nat) :
    (prodScopes cfg xs).getD j [] =
      if j < outSize cfg xs.length then tap0 cfg xs j ++ tap1 cfg xs j else [] := by
  unfold prodScopes
  simp only [List.getD_eq_getElem?_getD, List.getElem?_map]
  by_cases hj : j < outSize cfg xs.length
  · rw [if_pos hj, List.getElem?_range hj]; rfl
  · rw [if_neg hj, List.getElem?_eq_none (by simpa using hj)]; rfl

/-- the three kinds of layers of the schedule -/
def poolCfg (dw : Bool) : ProdCfg := { padding := .valid, stride := 2, dilation := 1, depthwise := dw }
def fullCfg (δ : Nat) (dw : Bool) : ProdCfg := { padding := .full, stride := 1, dilation := δ, depthwise := dw }
def finalCfg (δ : Nat) (dw : Bool) : ProdCfg := { padding := .final, stride := 1, dilation := δ, depthwise := dw }

theorem pool_outSize (dw : Bool) (m : Nat) : outSize (poolCfg dw) m = m / 2 := by
  simp only [outSize, pads, poolCfg, keff]
  omega

theorem full_outSize (δ : Nat) (dw : Bool) (m : Nat) : outSize (fullCfg δ dw) m = m + δ := by
  simp only [outSize, pads, fullCfg, keff]
  omega

theorem final_outSize (δ : Nat) (dw : Bool) (m : Nat) (h : m ≤ 2 * δ) : outSize (finalCfg δ dw) m = δ := by
  simp only [outSize, pads, finalCfg, keff]
  omega

theorem pool_tap0 (dw : Bool) (xs : List (List Nat)) (j : Nat) : tap0 (poolCfg dw) xs j = xs.getD (2 * j) [] := by
  simp only [tap0, pads, poolCfg]
  rw [padded_getD _ _ (by omega)]
  simp [Nat.mul_comm]

theorem pool_tap1 (dw : Bool) (xs : List (List Nat)) (j : Nat) : tap1 (poolCfg dw) xs j = xs.getD (2 * j + 1) [] := by
  simp only [tap1, pads, poolCfg]
  rw [padded_getD _ _ (by omega)]
  simp [Nat.mul_comm]

theorem full_tap0 (δ : Nat) (dw : Bool) (xs : List (List Nat)) (j : Nat) :
    tap0 (fullCfg δ dw) xs j = if δ ≤ j then xs.getD (j - δ) [] else [] := by
  simp only [tap0, pads, fullCfg, keff]
  rw [padded_getD _ _ (by omega)]
  simp

theorem full_tap1 (δ : Nat) (dw : Bool) (xs : List (List Nat)) (j : Nat) :
    tap1 (fullCfg δ dw) xs j = xs.getD j [] := by
  simp only [tap1, pads, fullCfg, keff]
  rw [padded_getD _ _ (by omega)]
  simp

theorem final_tap0 (δ : Nat) (dw : Bool) (xs : List (List Nat)) (h : xs.length ≤ 2 * δ) (j : Nat) :
    tap0 (finalCfg δ dw) xs j = xs.getD j [] := by
  simp only [tap0, pads, finalCfg, keff]
  rw [padded_getD _ _ (by omega)]
  simp

theorem final_tap1 (δ : Nat) (dw : Bool) (xs : List (List Nat)) (h : xs.length ≤ 2 * δ) (j : Nat) :
    tap1 (finalCfg δ dw) xs j = xs.getD (j + δ) [] := by
  simp only [tap1, pads, finalCfg, keff]
  rw [padded_getD _ _ (by omega)]
  simp

/-! ### the schedule stage by stage -/

theorem cfgAt_pool (D p : Nat) (dw : Nat → Bool) (i : Nat) (h : i < p) : cfgAt D p dw i = poolCfg (dw i) := by
  simp [cfgAt, h, poolCfg]

theorem cfgAt_full (D p : Nat) (dw : Nat → Bool) (i : Nat) (h : p ≤ i) (h2 : i ≠ clog2 D) :
    cfgAt D p dw i = fullCfg (2 ^ (i - p)) (dw i) := by
  simp [cfgAt, Nat.not_lt.2 h, h2, fullCfg]

theorem cfgAt_final (D p : Nat) (dw : Nat → Bool) (h : p ≤ clog2 D) :
    cfgAt D p dw (clog2 D) = finalCfg (2 ^ (clog2 D - p)) (dw (clog2 D)) := by
  simp [cfgAt, Nat.not_lt.2 h, finalCfg]

theorem runScopes_range (D p : Nat) (dw : Nat → Bool) : ∀ i,
    runScopes ((List.range i).map (cfgAt D p dw)) (baseScopes D) = stage D p dw i
  | 0 => rfl
  | i + 1 => by
      have ih := runScopes_range D p dw i
      unfold runScopes at *
      rw [List.range_succ, List.map_append, List.foldl_append, ih]
      rfl

theorem finalScopes_eq (D p : Nat) : finalScopes D p = stage D p (fun _ => true) (clog2 D + 1) :=
  runScopes_range D p _ _

theorem scopeTrace_getElem (D p : Nat) (dw : Nat → Bool) : ∀ (i k : Nat) (xs : List (List Nat)),
    xs = stage D p dw k →
    ∀ l, l < i → (scopeTrace ((List.range' k i).map (cfgAt D p dw)) xs)[l]? = some (stage D p dw (k + l + 1))
  | 0, _, _, _, l, h => by omega
  | i + 1, k, xs, hx, l, h => by
      simp only [List.range'_succ, List.map_cons, scopeTrace]
      cases l with
      | zero => simp [hx, stage]
      | succ l =>
        have := scopeTrace_getElem D p dw i (k + 1) (prodScopes (cfgAt D p dw k) xs) (by simp [hx, stage]) l (by omega)
        simp only [List.getElem?_cons_succ]
        rw [this]; congr 2; omega

theorem stage_length (D p : Nat) (dw : Nat → Bool) : ∀ i, (stage D p dw i).length = sizeAfter D p dw i
  | 0 => by simp [stage, sizeAfter, baseScopes]
  | i + 1 => by rw [stage, prodScopes_length, stage_length D p dw i, sizeAfter]

theorem clog2_spec (D : Nat) : D ≤ 2 ^ clog2 D ∧ (1 < D → 2 ^ (clog2 D - 1) < D) := by
  unfold clog2
  split
  · rename_i h; constructor
    · simp; omega
    · intro h'; omega
  · rename_i h
    have h1 : D - 1 ≠ 0 := by omega
    constructor
    · have := Nat.lt_log2_self (n := D - 1)
      omega
    · intro _
      have := Nat.log2_self_le h1
      simp only [Nat.add_sub_cancel]
      omega

theorem baseScopes_getD (D j : Nat) : (baseScopes D).getD j [] = if j < D then [j] else [] := by
  unfold baseScopes
  simp only [List.getD_eq_getElem?_getD, List.getElem?_map]
  by_cases hj : j < D
  · rw [if_pos hj, List.getElem?_range hj]; rfl
  · rw [if_neg hj, List.getElem?_eq_none (by simpa using hj)]; rfl

/-- invariant of the pooling stages: after `i ≤ p` pooling layers there are `⌊D/2^i⌋` cells and cell
`j` covers exactly the pixels `x` with `⌊x/2^i⌋ = j`, each once. -/
theorem stage_pool (D p : Nat) (dw : Nat → Bool) : ∀ i, i ≤ p →
    (stage D p dw i).length = D / 2 ^ i ∧
    (∀ j x, x ∈ (stage D p dw i).getD j [] ↔ (j < D / 2 ^ i ∧ x / 2 ^ i = j)) ∧
    (∀ j, ((stage D p dw i).getD j []).Nodup)
  | 0, _ => by
      refine ⟨by simp [stage, baseScopes], ?_, ?_⟩
      · intro j x
        rw [stage, baseScopes_getD]
        by_cases hj : j < D <;> simp [hj]
      · intro j
        rw [stage, baseScopes_getD]
        by_cases hj : j < D <;> simp [hj]
  | i + 1, hi => by
      obtain ⟨hl, hm, hn⟩ := stage_pool D p dw i (by omega)
      have hc := cfgAt_pool D p dw i (by omega)
      have e1 : D / 2 ^ (i + 1) = D / 2 ^ i / 2 := by rw [Nat.pow_succ, Nat.div_div_eq_div_mul]
      have e2 : ∀ x, x / 2 ^ (i + 1) = x / 2 ^ i / 2 := by
        intro x; rw [Nat.pow_succ, Nat.div_div_eq_div_mul]
      refine ⟨?_, ?_, ?_⟩
      · rw [stage, prodScopes_length, hc, pool_outSize, hl, e1]
      · intro j x
        rw [stage, prodScopes_getD, hc, pool_outSize, pool_tap0, pool_tap1, hl, e1, e2]
        by_cases hj : j < D / 2 ^ i / 2
        · rw [if_pos hj, List.mem_append, hm, hm]; omega
        · rw [if_neg hj]; simp; omega
      · intro j
        rw [stage, prodScopes_getD, hc, pool_outSize, pool_tap0, pool_tap1]
        split
        · rw [List.nodup_append]
          refine ⟨hn _, hn _, ?_⟩
          intro a ha b hb hab
          subst hab
          rw [hm] at ha hb; omega
        · exact List.nodup_nil

/-- invariant of the dilated stages: after `p` pooling layers and `k` full layers (dilations
`1, 2, …, 2^(k-1)`) there are `m + 2^k - 1` cells (`m = ⌊D/2^p⌋`) and cell `j` covers the pooled cells
`c` with `j - 2^k + 1 ≤ c ≤ j`, `0 ≤ c < m`, i.e. the pixels `x` with `c = ⌊x/2^p⌋` in that window. -/
theorem stage_full (D p : Nat) (dw : Nat → Bool) (hp : p ≤ clog2 D) : ∀ k, p + k ≤ clog2 D →
    (stage D p dw (p + k)).length = D / 2 ^ p + 2 ^ k - 1 ∧
    (∀ j x, x ∈ (stage D p dw (p + k)).getD j [] ↔
      (x / 2 ^ p < D / 2 ^ p ∧ x / 2 ^ p ≤ j ∧ j < x / 2 ^ p + 2 ^ k)) ∧
    (∀ j, ((stage D p dw (p + k)).getD j []).Nodup)
  | 0, _ => by
      obtain ⟨hl, hm, hn⟩ := stage_pool D p dw p (Nat.le_refl _)
      refine ⟨by simpa using hl, ?_, hn⟩
      intro j x
      rw [Nat.add_zero, hm]; simp only [Nat.pow_zero]; omega
  | k + 1, hk => by
      obtain ⟨hl, hm, hn⟩ := stage_full D p dw hp k (by omega)
      have hc := cfgAt_full D p dw (p + k) (by omega) (by omega)
      rw [Nat.add_sub_cancel_left] at hc
      have hδ := RatSpn.two_pow_pos k
      generalize hmdef : D / 2 ^ p = m at hl hm ⊢
      have e : 2 ^ (k + 1) = 2 ^ k + 2 ^ k := by rw [Nat.pow_succ]; omega
      have hs : stage D p dw (p + (k + 1)) = prodScopes (fullCfg (2 ^ k) (dw (p + k))) (stage D p dw (p + k)) := by
        rw [← Nat.add_assoc, stage, hc]
      refine ⟨?_, ?_, ?_⟩
      · rw [hs, prodScopes_length, full_outSize, hl, e]; omega
      · intro j x
        rw [hs, prodScopes_getD, full_outSize, full_tap0, full_tap1, hl, e]
        by_cases hj : j < m + 2 ^ k - 1 + 2 ^ k
        · rw [if_pos hj, List.mem_append]
          by_cases hδj : 2 ^ k ≤ j
          · rw [if_pos hδj, hm, hm]; generalize x / 2 ^ p = c; omega
          · rw [if_neg hδj, hm]; simp only [List.not_mem_nil, false_or]; generalize x / 2 ^ p = c; omega
        · rw [if_neg hj]; simp only [List.not_mem_nil, false_iff]; generalize x / 2 ^ p = c; omega
      · intro j
        rw [hs, prodScopes_getD, full_outSize, full_tap0, full_tap1]
        split
        · rw [List.nodup_append]
          refine ⟨?_, hn _, ?_⟩
          · split
            · exact hn _
            · exact List.nodup_nil
          · intro a ha b hb hab
            subst hab
            split at ha
            · rw [hm] at ha hb; generalize a / 2 ^ p = c at ha hb; omega
            · simp at ha
        · exact List.nodup_nil

/-- the final layer: `2^(depth-p)` cells, each covering every pooled cell -/
theorem stage_final (D p : Nat) (dw : Nat → Bool) (hp : p ≤ clog2 D) :
    (stage D p dw (clog2 D + 1)).length = 2 ^ (clog2 D - p) ∧
    (∀ j x, j < 2 ^ (clog2 D - p) → (x ∈ (stage D p dw (clog2 D + 1)).getD j [] ↔ x / 2 ^ p < D / 2 ^ p)) ∧
    (∀ j, ((stage D p dw (clog2 D + 1)).getD j []).Nodup) := by
  obtain ⟨hl, hm, hn⟩ := stage_full D p dw hp (clog2 D - p) (by omega)
  have hpk : p + (clog2 D - p) = clog2 D := by omega
  rw [hpk] at hl hm hn
  have hc := cfgAt_final D p dw hp
  have hδ := RatSpn.two_pow_pos (clog2 D - p)
  have hmle : D / 2 ^ p ≤ 2 ^ (clog2 D - p) := by
    apply Nat.div_le_of_le_mul
    rw [← Nat.pow_add, hpk]
    exact (clog2_spec D).1
  have hlen2 : (stage D p dw (clog2 D)).length ≤ 2 * 2 ^ (clog2 D - p) := by rw [hl]; omega
  generalize hmdef : D / 2 ^ p = m at hl hm hmle ⊢
  refine ⟨?_, ?_, ?_⟩
  · rw [stage, prodScopes_length, hc, final_outSize _ _ _ hlen2]
  · intro j x hj
    rw [stage, prodScopes_getD, hc, final_outSize _ _ _ hlen2, final_tap0 _ _ _ hlen2, final_tap1 _ _ _ hlen2,
      if_pos hj, List.mem_append, hm, hm]
    generalize x / 2 ^ p = c
    omega
  · intro j
    rw [stage, prodScopes_getD, hc, final_outSize _ _ _ hlen2, final_tap0 _ _ _ hlen2, final_tap1 _ _ _ hlen2]
    split
    · rw [List.nodup_append]
      refine ⟨hn _, hn _, ?_⟩
      intro a ha b hb hab
      subst hab
      rw [hm] at ha hb; generalize a / 2 ^ p = c at ha hb; omega
    · exact List.nodup_nil

end DgcSpn
end Deeprob

namespace Deeprob
namespace RatSpn

/-! ### more on gathers: element-wise reads, scatter, top-down index propagation -/

theorem gatherRow_getElem? {β : Type} (x : List β) : ∀ (idx : List Nat), (∀ p ∈ idx, p < x.length) →
    ∀ i : Nat, (gatherRow x idx)[i]? = (idx[i]?).bind (fun p : Nat => x[p]?)
  | [], _, i => by simp [gatherRow]
  | p :: idx, h, 0 => by
      have hp : p < x.length := h p List.mem_cons_self
      simp [gatherRow, List.getElem?_eq_getElem hp]
  | p :: idx, h, i + 1 => by
      have hp : p < x.length := h p List.mem_cons_self
      have ih := gatherRow_getElem? x idx (fun q hq => h q (List.mem_cons_of_mem _ hq)) i
      unfold gatherRow at *
      simp only [List.filterMap_cons, List.getElem?_eq_getElem hp, List.getElem?_cons_succ]
      exact ih

theorem gatherRow_length {β : Type} (x : List β) : ∀ (idx : List Nat), (∀ p ∈ idx, p < x.length) →
    (gatherRow x idx).length = idx.length
  | [], _ => by simp [gatherRow]
  | p :: idx, h => by
      have hp : p < x.length := h p List.mem_cons_self
      have ih := gatherRow_length x idx (fun q hq => h q (List.mem_cons_of_mem _ hq))
      unfold gatherRow at *
      simp only [List.filterMap_cons, List.getElem?_eq_getElem hp, List.length_cons, ih]

theorem mem_maskRow {dim : Nat} {r : List Nat} {v : Nat} (h : v ∈ maskRow dim r) (hr : r ≠ []) : v ∈ r := by
  unfold maskRow at h
  rcases List.mem_append.1 h with h | h
  · exact h
  · rw [List.mem_replicate] at h
    rw [h.2, List.getLastD_eq_getLast?, List.getLast?_eq_some_getLast hr]
    exact List.getLast_mem hr

section reps2
variable (ρ : Nat → List Nat → List Nat) (hρ : ∀ t r, (ρ t r).Perm r)
include hρ

/-- every entry of the mask (also at the dummy positions) is a feature index -/
theorem mem_maskFlat_lt (n d reps t : Nat) (hd : 0 < d) (h2 : 2 ^ d ≤ n) (ht : t < reps) :
    ∀ v ∈ maskFlat n d (leafRegions ρ n d reps) t, v < n := by
  intro v hv
  rw [maskFlat_rep ρ hρ n d reps t hd ht] at hv
  obtain ⟨row, hrow, hin⟩ := List.mem_flatten.1 hv
  obtain ⟨r, hr, rfl⟩ := List.mem_map.1 hrow
  have hne : r ≠ [] := by
    intro h
    have := level_nonempty (ρ t) (hρ t) n d d h2 (Nat.le_refl _) r hr
    rw [h] at this; simp at this
  have hvr := mem_maskRow hin hne
  have : v ∈ (regionLevel (ρ t) n d).flatten := List.mem_flatten.2 ⟨r, hr, hvr⟩
  have := (level_flatten_perm (ρ t) (hρ t) n d).mem_iff.1 this
  exact List.mem_range.1 this

end reps2

/-- `ProductLayer.sample` applied `k` times to the top-level partition `g` reaches the leaf regions
`g*2^k, …, g*2^k + 2^k - 1`, in this order (the block of repetition `g` of the mask buffers) -/
theorem pair_range (a : Nat) : ∀ m, (List.range m).flatMap (fun j => [2 * (a + j), 2 * (a + j) + 1])
    = (List.range (2 * m)).map (fun i => 2 * a + i)
  | 0 => rfl
  | m + 1 => by
      have e : 2 * (m + 1) = (2 * m + 1) + 1 := by omega
      rw [List.range_succ, List.flatMap_append, pair_range a m, e, List.range_succ, List.range_succ,
        List.map_append, List.map_append]
      simp [Nat.mul_add, Nat.add_assoc]

theorem leafGroups_eq (g : Nat) : ∀ k, leafGroups g k = (List.range (2 ^ k)).map (fun i => g * 2 ^ k + i)
  | 0 => by simp [leafGroups]
  | k + 1 => by
      rw [leafGroups, leafGroups_eq g k, List.flatMap_map]
      have := pair_range (g * 2 ^ k) (2 ^ k)
      rw [this, Nat.pow_succ, Nat.mul_comm (2 ^ k) 2]
      apply List.map_congr_left
      intro i _
      rw [← Nat.mul_assoc, Nat.mul_comm 2 g, Nat.mul_assoc]

end RatSpn
end Deeprob
