import DeeprobModel.Model.CltFit
import Mathlib.Algebra.Field.Defs
import Mathlib.Algebra.Order.Field.Basic
import Mathlib.Tactic.Ring
import Mathlib.Tactic.Linarith
import Mathlib.Tactic.FieldSimp
import Mathlib.Tactic.Positivity
import Mathlib.Data.Nat.Cast.Order.Field
/-
Counting and smoothing lemmas for C11 (estimate_priors_joints / compute_clt_parameters).
-/
set_option linter.unusedSimpArgs false
set_option linter.unnecessarySeqFocus false
namespace Deeprob
namespace CltFit

/-- Prop meaning of `isBinary` -/
def Binary (X : List (List Nat)) : Prop := ∀ x ∈ X, ∀ i, x.getD i 0 ≤ 1

theorem getD_le_one_of_all (x : List Nat) (h : ∀ v ∈ x, v ≤ 1) (i : Nat) : x.getD i 0 ≤ 1 := by
  rw [List.getD_eq_getElem?_getD]
  cases hx : x[i]? with
  | none => simp
  | some v => simpa using h v (List.mem_of_getElem? hx)

theorem isBinary_sound {X : List (List Nat)} (h : isBinary X = true) : Binary X := by
  intro x hx i
  simp only [isBinary, List.all_eq_true, decide_eq_true_eq] at h
  exact getD_le_one_of_all x (h x hx) i

theorem Binary.tail {x : List Nat} {X : List (List Nat)} (h : Binary (x :: X)) : Binary X :=
  fun y hy i => h y (List.mem_cons_of_mem _ hy) i

/-! ### Nat-level counting identities for 0/1 data -/

theorem dot_eq_cnt2 {X : List (List Nat)} (h : Binary X) (i j : Nat) : dot X i j = cnt2 X i j 1 1 := by
  induction X with
  | nil => rfl
  | cons x xs ih =>
    have hi := h x List.mem_cons_self i
    have hj := h x List.mem_cons_self j
    simp only [dot, cnt2, List.countP_cons] at ih ⊢
    rw [ih h.tail]
    generalize x.getD i 0 = vi at hi ⊢
    generalize x.getD j 0 = vj at hj ⊢
    have h1 : vi = 0 ∨ vi = 1 := by omega
    have h2 : vj = 0 ∨ vj = 1 := by omega
    rcases h1 with a | a <;> rcases h2 with b | b <;> subst a <;> subst b <;> simp <;> omega

theorem length_eq_cnt2 {X : List (List Nat)} (h : Binary X) (i j : Nat) :
    X.length = cnt2 X i j 0 0 + cnt2 X i j 0 1 + cnt2 X i j 1 0 + cnt2 X i j 1 1 := by
  induction X with
  | nil => rfl
  | cons x xs ih =>
    have hi := h x List.mem_cons_self i
    have hj := h x List.mem_cons_self j
    simp only [cnt2, List.countP_cons, List.length_cons] at ih ⊢
    rw [ih h.tail]
    generalize x.getD i 0 = vi at hi ⊢
    generalize x.getD j 0 = vj at hj ⊢
    have h1 : vi = 0 ∨ vi = 1 := by omega
    have h2 : vj = 0 ∨ vj = 1 := by omega
    rcases h1 with a | a <;> rcases h2 with b | b <;> subst a <;> subst b <;> simp <;> omega

theorem cnt1_eq_cnt2_left {X : List (List Nat)} (h : Binary X) (i j a : Nat) :
    cnt1 X i a = cnt2 X i j a 0 + cnt2 X i j a 1 := by
  induction X with
  | nil => rfl
  | cons x xs ih =>
    have hj := h x List.mem_cons_self j
    simp only [cnt1, cnt2, List.countP_cons] at ih ⊢
    rw [ih h.tail]
    generalize x.getD i 0 = vi
    generalize x.getD j 0 = vj at hj ⊢
    have h2 : vj = 0 ∨ vj = 1 := by omega
    rcases h2 with b | b <;> by_cases c : vi = a <;> subst b <;> simp [c] <;> omega

theorem cnt2_swap (X : List (List Nat)) (i j a b : Nat) : cnt2 X i j a b = cnt2 X j i b a := by
  simp only [cnt2]; congr 1; funext x; exact Bool.and_comm _ _

theorem cnt1_eq_cnt2_right {X : List (List Nat)} (h : Binary X) (i j b : Nat) :
    cnt1 X j b = cnt2 X i j 0 b + cnt2 X i j 1 b := by
  rw [cnt1_eq_cnt2_left h j i b, cnt2_swap X j i b 0, cnt2_swap X j i b 1]

theorem ones_eq_cnt1 {X : List (List Nat)} (h : Binary X) (i : Nat) : ones X i = cnt1 X i 1 := by
  unfold ones
  rw [dot_eq_cnt2 h, cnt1_eq_cnt2_left h i i 1]
  have : cnt2 X i i 1 0 = 0 := by
    simp only [cnt2, List.countP_eq_zero]
    intro x _; generalize x.getD i 0 = v; by_cases c : v = 1 <;> simp [c]
  omega

theorem length_eq_cnt1 {X : List (List Nat)} (h : Binary X) (i : Nat) :
    X.length = cnt1 X i 0 + cnt1 X i 1 := by
  rw [length_eq_cnt2 h i i, cnt1_eq_cnt2_left h i i 0, cnt1_eq_cnt2_left h i i 1]; omega

theorem ones_le_length {X : List (List Nat)} (h : Binary X) (i : Nat) : ones X i ≤ X.length := by
  rw [ones_eq_cnt1 h, length_eq_cnt1 h i]; omega

end CltFit
end Deeprob

namespace Deeprob
namespace CltFit

theorem dot_comm (X : List (List Nat)) (i j : Nat) : dot X i j = dot X j i := by
  induction X with
  | nil => rfl
  | cons x xs ih => simp only [dot, ih, Nat.mul_comm]

section field
variable {α : Type} [Field α]

/-- the vectorised inclusion–exclusion cells are the true co-occurrence counts (0/1 data) -/
theorem cell_eq_cnt2 {X : List (List Nat)} (h : Binary X) (i j a b : Nat) (ha : a < 2) (hb : b < 2) :
    (cell X i j a b : α) = (cnt2 X i j a b : α) := by
  have h1 := dot_eq_cnt2 h i j
  have h2 : ones X i = cnt2 X i j 1 0 + cnt2 X i j 1 1 := by
    rw [ones_eq_cnt1 h, cnt1_eq_cnt2_left h i j 1]
  have h3 : ones X j = cnt2 X i j 0 1 + cnt2 X i j 1 1 := by
    rw [ones_eq_cnt1 h, cnt1_eq_cnt2_right h i j 1]
  have h4 := length_eq_cnt2 h i j
  obtain rfl | rfl : a = 0 ∨ a = 1 := by omega
  all_goals obtain rfl | rfl : b = 0 ∨ b = 1 := by omega
  all_goals (simp only [cell, h1, h2, h3, h4]; try (push_cast; ring))

theorem cell_symm (X : List (List Nat)) (i j a b : Nat) :
    (cell X i j a b : α) = cell X j i b a := by
  rcases a with _ | a <;> rcases b with _ | b <;> simp only [cell, dot_comm X j i] <;> ring

theorem prior_sum (X : List (List Nat)) (al : α) (i : Nat) :
    prior X al i 0 + prior X al i 1 = 1 := by
  simp only [prior]; ring

theorem joint_symm (X : List (List Nat)) (al : α) (i j a b : Nat) :
    joint X al i j a b = joint X al j i b a := by
  unfold joint
  by_cases hij : i = j
  · subst hij; rcases a with _ | a <;> rcases b with _ | b <;> simp
  · have : ¬ j = i := fun h => hij h.symm
    simp only [hij, this, if_false, cell_symm X i j a b]

/-- row marginal of the smoothed joint: `Σ_b joints[i,j,a,b] = priors[i,a]` -/
theorem joint_row_sum (X : List (List Nat)) (al : α) (hD : denom X al ≠ 0) (i j a : Nat) :
    joint X al i j a 0 + joint X al i j a 1 = prior X al i a := by
  unfold joint
  by_cases hij : i = j
  · subst hij; rcases a with _ | a <;> simp [prior]
  · simp only [hij, if_false]
    rcases a with _ | a
    · simp only [cell, prior]
      rw [← add_div, eq_sub_iff_add_eq, ← add_div, div_eq_one_iff_eq hD]
      unfold denom
      push_cast
      ring
    · simp only [cell, prior]
      rw [← add_div]
      congr 1
      push_cast
      ring

/-- column marginal: `Σ_a joints[i,j,a,b] = priors[j,b]` -/
theorem joint_col_sum (X : List (List Nat)) (al : α) (hD : denom X al ≠ 0) (i j b : Nat) :
    joint X al i j 0 b + joint X al i j 1 b = prior X al j b := by
  rw [joint_symm X al i j 0 b, joint_symm X al i j 1 b]
  exact joint_row_sum X al hD j i b

end field

section ordered
variable {α : Type} [Field α] [LinearOrder α] [IsStrictOrderedRing α]

theorem denom_pos (X : List (List Nat)) {al : α} (hal : 0 < al) : 0 < denom X al := by
  unfold denom
  have : (0:α) ≤ (X.length : α) := Nat.cast_nonneg _
  push_cast
  linarith

/-- `priors[i,k] = (#{x_i = k} + 2α) / (n + 4α)` for 0/1 data -/
theorem prior_eq {X : List (List Nat)} (h : Binary X) {al : α} (hal : 0 < al) (i k : Nat) (hk : k < 2) :
    prior X al i k = ((cnt1 X i k : α) + 2 * al) / ((X.length : α) + 4 * al) := by
  have hD := (denom_pos X hal).ne'
  have h1 := ones_eq_cnt1 h i
  have h2 := length_eq_cnt1 h i
  unfold denom at hD
  push_cast at hD
  obtain rfl | rfl : k = 0 ∨ k = 1 := by omega
  · simp only [prior, denom]
    push_cast
    rw [h1]
    have : ((X.length : ℕ) : α) = (cnt1 X i 0 : α) + (cnt1 X i 1 : α) := by
      rw [h2]; push_cast; ring
    field_simp
    rw [this]; ring
  · simp only [prior, denom]
    push_cast
    rw [h1]

theorem prior_pos {X : List (List Nat)} (h : Binary X) {al : α} (hal : 0 < al) (i k : Nat) (hk : k < 2) :
    0 < prior X al i k := by
  rw [prior_eq h hal i k hk]
  have : (0:α) ≤ (cnt1 X i k : α) := Nat.cast_nonneg _
  have : (0:α) ≤ (X.length : α) := Nat.cast_nonneg _
  apply div_pos <;> linarith

omit [LinearOrder α] [IsStrictOrderedRing α] in
/-- off-diagonal smoothed joint: `(#{x_i = a ∧ x_j = b} + α) / (n + 4α)` -/
theorem joint_eq {X : List (List Nat)} (h : Binary X) (al : α) {i j : Nat} (hij : i ≠ j)
    (a b : Nat) (ha : a < 2) (hb : b < 2) :
    joint X al i j a b = ((cnt2 X i j a b : α) + al) / ((X.length : α) + 4 * al) := by
  unfold joint
  simp only [hij, if_false, cell_eq_cnt2 h i j a b ha hb, denom]
  push_cast
  rfl


/-- the un-normalised rows of `compute_clt_parameters` already sum to one -/
theorem rawParam_row_sum {X : List (List Nat)} (h : Binary X) {al : α} (hal : 0 < al)
    (pred : List Int) (root i l : Nat) (hl : l < 2) :
    rawParam X al pred root i l 0 + rawParam X al pred root i l 1 = 1 := by
  unfold rawParam
  by_cases hr : i = root
  · simp only [hr, if_true]; exact prior_sum X al root
  · simp only [hr, if_false]
    rw [← add_mul, joint_col_sum X al (denom_pos X hal).ne', one_div,
      mul_inv_cancel₀ (prior_pos h hal _ l hl).ne']

/-- so the re-normalisation `params /= params.sum(axis=2)` divides by exactly one -/
theorem cpt_eq_rawParam {X : List (List Nat)} (h : Binary X) {al : α} (hal : 0 < al)
    (pred : List Int) (root i l k : Nat) (hl : l < 2) :
    cpt X al pred root i l k = rawParam X al pred root i l k := by
  unfold cpt; rw [rawParam_row_sum h hal pred root i l hl, div_one]

end ordered

/-! ### table access -/
section table
variable {α : Type} [Zero α] [One α] [Add α] [Sub α] [Mul α] [Div α] [NatCast α]

theorem cptAt_cptTable (X : List (List Nat)) (al : α) (pred : List Int) (root : Nat)
    {i l k : Nat} (hi : i < pred.length) (hl : l < 2) (hk : k < 2) :
    Clt.cptAt (cptTable X al pred root) i l k = cpt X al pred root i l k := by
  unfold Clt.cptAt cptTable
  simp only [hk, if_true]
  obtain rfl | rfl : l = 0 ∨ l = 1 := by omega
  all_goals obtain rfl | rfl : k = 0 ∨ k = 1 := by omega
  all_goals simp [List.getD_eq_getElem?_getD, hi]

end table
end CltFit
end Deeprob
