import DeeprobModel.Model.RewriteNet
import DeeprobModel.Lemmas.NetValid
import DeeprobModel.Lemmas.RewriteLemmas
set_option linter.unusedSectionVars false
set_option linter.unusedSimpArgs false
set_option linter.unusedVariables false
namespace Deeprob
variable {α : Type} [CommSemiring α]

/-- value of node `j` of a stored table under evidence `e` -/
def nval (e : Ev) (dens : List α) (t : Net α) (j : Nat) : α := (evalNet e dens t).getD j 0

theorem evalNet_append (e : Ev) (dens : List α) (a b : Net α) :
    evalNet e dens (a ++ b) = b.foldl (fun vals x => vals ++ [evalNode e dens vals x]) (evalNet e dens a) := by
  simp [evalNet, List.foldl_append]

theorem evalNet_append_one (e : Ev) (dens : List α) (t : Net α) (y : NNode α) :
    evalNet e dens (t ++ [y]) = evalNet e dens t ++ [evalNode e dens (evalNet e dens t) y] := by
  simp [evalNet, List.foldl_append]

theorem foldl_eval_prefix (e : Ev) (dens : List α) (b : Net α) (v : List α) :
    ∃ s, b.foldl (fun vals x => vals ++ [evalNode e dens vals x]) v = v ++ s ∧ s.length = b.length := by
  induction b generalizing v with
  | nil => exact ⟨[], by simp⟩
  | cons x xs ih =>
    obtain ⟨s, hs, hl⟩ := ih (v ++ [evalNode e dens v x])
    exact ⟨evalNode e dens v x :: s, by simp [List.foldl_cons, hs], by simp [hl]⟩

theorem evalNet_length (e : Ev) (dens : List α) (t : Net α) : (evalNet e dens t).length = t.length := by
  obtain ⟨s, hs, hl⟩ := foldl_eval_prefix e dens t []
  unfold evalNet; rw [hs]; simpa using hl

theorem nval_append_lt (e : Ev) (dens : List α) (a b : Net α) (j : Nat) (hj : j < a.length) :
    nval e dens (a ++ b) j = nval e dens a j := by
  unfold nval
  rw [evalNet_append]
  obtain ⟨s, hs, _⟩ := foldl_eval_prefix e dens b (evalNet e dens a)
  rw [hs, List.getD_eq_getElem?_getD, List.getD_eq_getElem?_getD, List.getElem?_append_left]
  rw [evalNet_length]; exact hj

theorem nval_append_last (e : Ev) (dens : List α) (t : Net α) (y : NNode α) :
    nval e dens (t ++ [y]) t.length = evalNode e dens (evalNet e dens t) y := by
  unfold nval
  rw [evalNet_append_one, List.getD_eq_getElem?_getD, List.getElem?_append_right (by simp [evalNet_length])]
  simp [evalNet_length]

theorem evalNode_congr (e : Ev) (dens : List α) (v1 v2 : List α) (x : NNode α) (hl : v1.length = v2.length)
    (h : ∀ c ∈ x.ch, v1.getD c 0 = v2.getD c 0) : evalNode e dens v1 x = evalNode e dens v2 x := by
  unfold evalNode
  have : x.ch.map (fun c => v1.getD c 0) = x.ch.map (fun c => v2.getD c 0) :=
    List.map_congr_left h
  rw [hl, this]

/-- unfolding of the value of a stored node through the values of its children -/
theorem nval_unfold (e : Ev) (dens : List α) (t : Net α) (j : Nat) (y : NNode α) (hy : t[j]? = some y)
    (hc : ∀ c ∈ y.ch, c < j) :
    nval e dens t j = match y.kind with
      | .leaf => y.leaf.fn y.scope (dens.getD j 0) e
      | .sum => wsum y.ws (y.ch.map (nval e dens t))
      | .prod => lprod (y.ch.map (nval e dens t)) := by
  have hj : j < t.length := by
    rcases Nat.lt_or_ge j t.length with h | h
    · exact h
    · rw [List.getElem?_eq_none h] at hy; cases hy
  have hsplit : t = (t.take j ++ [y]) ++ t.drop (j+1) := by
    have : t[j] = y := by rw [List.getElem?_eq_getElem hj] at hy; exact Option.some.inj hy
    rw [← this]; simp
  have hlen : (t.take j).length = j := by simp; omega
  have h1 : nval e dens t j = evalNode e dens (evalNet e dens (t.take j)) y := by
    conv => lhs; rw [hsplit]
    rw [nval_append_lt e dens _ _ j (by simp; omega)]
    have := nval_append_last e dens (t.take j) y
    rw [hlen] at this; exact this
  have hch : ∀ c ∈ y.ch, (evalNet e dens (t.take j)).getD c 0 = nval e dens t c := by
    intro c hcm
    have hcj := hc c hcm
    have : nval e dens t c = nval e dens (t.take j) c := by
      conv => lhs; rw [← List.take_append_drop j t]
      exact nval_append_lt e dens _ _ c (by rw [hlen]; exact hcj)
    rw [this]; rfl
  rw [h1]
  unfold evalNode
  have hm : y.ch.map (fun c => (evalNet e dens (t.take j)).getD c 0) = y.ch.map (nval e dens t) :=
    List.map_congr_left hch
  rw [hm, evalNet_length, hlen]
  cases y.kind <;> rfl

open Net Circ

/-- Σ w·V(k) over an association list -/
def dot (V : Nat → α) : List (Nat × α) → α
  | [] => 0
  | p :: r => p.2 * V p.1 + dot V r

theorem dot_append (V : Nat → α) (a b : List (Nat × α)) : dot V (a ++ b) = dot V a + dot V b := by
  induction a with
  | nil => simp [dot]
  | cons p r ih => simp only [List.cons_append, dot, ih]; ring

theorem dot_accAdd (V : Nat → α) (a : List (Nat × α)) (k : Nat) (w : α) :
    dot V (accAdd a k w) = dot V a + w * V k := by
  induction a with
  | nil => simp [accAdd, dot]
  | cons p r ih =>
    obtain ⟨k', w'⟩ := p
    unfold accAdd
    by_cases h : k' = k
    · subst h; simp only [if_true, dot]; ring
    · simp only [h, if_false, dot, ih]; ring

theorem dot_foldl (V : Nat → α) (items a0 : List (Nat × α)) :
    dot V (items.foldl (fun a (p : Nat × α) => accAdd a p.1 p.2) a0) = dot V a0 + dot V items := by
  induction items generalizing a0 with
  | nil => simp [dot]
  | cons p r ih => simp only [List.foldl_cons, ih, dot_accAdd, dot]; ring

theorem wsum_eq_dot (V : Nat → α) (l : List (Nat × α)) :
    wsum (l.map Prod.snd) ((l.map Prod.fst).map V) = dot V l := by
  induction l with
  | nil => simp [wsum, dot]
  | cons p r ih => simp only [List.map_cons, wsum, dot, ih]

theorem tsum_eq_dot (l : List (Nat × α)) : tsum (l.map Prod.snd) = dot (fun _ => (1:α)) l := by
  induction l with
  | nil => simp [tsum, dot]
  | cons p r ih => simp only [List.map_cons, tsum, dot, ih]; ring

theorem keys_accAdd (a : List (Nat × α)) (k k' : Nat) (w : α) (h : k ∈ (accAdd a k' w).map Prod.fst) :
    k ∈ a.map Prod.fst ∨ k = k' := by
  induction a with
  | nil => simp [accAdd] at h; exact Or.inr h
  | cons p r ih =>
    obtain ⟨k2, w2⟩ := p
    unfold accAdd at h
    by_cases hk : k2 = k'
    · simp only [hk, if_true, List.map_cons, List.mem_cons] at h
      rcases h with h | h
      · exact Or.inr h
      · left; simp only [List.map_cons, List.mem_cons]; exact Or.inr h
    · simp only [hk, if_false, List.map_cons, List.mem_cons] at h
      rcases h with h | h
      · left; simp only [List.map_cons, List.mem_cons]; exact Or.inl h
      · rcases ih h with h | h
        · left; simp only [List.map_cons, List.mem_cons]; exact Or.inr h
        · exact Or.inr h

theorem keys_foldl (items a0 : List (Nat × α)) (k : Nat)
    (h : k ∈ (items.foldl (fun a (p : Nat × α) => accAdd a p.1 p.2) a0).map Prod.fst) :
    k ∈ a0.map Prod.fst ∨ k ∈ items.map Prod.fst := by
  induction items generalizing a0 with
  | nil => exact Or.inl h
  | cons p r ih =>
    simp only [List.foldl_cons] at h
    rcases ih _ h with h | h
    · rcases keys_accAdd a0 k p.1 p.2 h with h | h
      · exact Or.inl h
      · right; simp [h]
    · right; simp only [List.map_cons, List.mem_cons]; exact Or.inr h

theorem wsum_zip_dot (V : Nat → α) (w : α) (gs : List Nat) (ws' : List α) :
    dot V ((gs.zip ws').map (fun (q : Nat × α) => (q.1, w * q.2))) = w * wsum ws' (gs.map V) := by
  induction gs generalizing ws' with
  | nil => cases ws' <;> simp [dot, wsum]
  | cons g gs ih => cases ws' with
    | nil => simp [dot, wsum]
    | cons v vs => simp only [List.zip_cons_cons, List.map_cons, dot, wsum, ih]; ring

/-- the contributions collected by the Sum branch carry the same weighted value as the original children -/
theorem dot_sumItems (V F : Nat → α) (t : Net α) (rep : List Nat) (cn : List Nat) (ws : List α)
    (h : ∀ c ∈ cn, (kindOf t c = .sum → wsum (wsOf t c) (((chOf t c).map (fun g => rep.getD g g)).map V) = F c) ∧
                   (kindOf t c ≠ .sum → V c = F c)) :
    dot V (sumItems t rep cn ws) = wsum ws (cn.map F) := by
  induction cn generalizing ws with
  | nil => simp [sumItems, dot, wsum]
  | cons c cs ih => cases ws with
    | nil => simp [sumItems, dot, wsum]
    | cons w ws =>
      have ih' := ih ws (fun d hd => h d (List.mem_cons_of_mem _ hd))
      obtain ⟨h1, h2⟩ := h c List.mem_cons_self
      unfold sumItems at *
      simp only [List.zip_cons_cons, List.map_cons, List.flatten_cons, dot_append, ih', wsum]
      congr 1
      by_cases hk : kindOf t c = .sum
      · simp only [hk, if_true]; rw [wsum_zip_dot, h1 hk]
      · simp only [hk, if_false, dot, h2 hk]; ring

theorem keys_sumItems (t : Net α) (rep : List Nat) (cn : List Nat) (ws : List α) (k : Nat)
    (h : k ∈ (sumItems t rep cn ws).map Prod.fst) :
    ∃ c ∈ cn, (k = c ∧ kindOf t c ≠ .sum) ∨ (kindOf t c = .sum ∧ k ∈ (chOf t c).map (fun g => rep.getD g g)) := by
  simp only [sumItems, List.mem_map, List.mem_flatten] at h
  obtain ⟨⟨k', w'⟩, ⟨l, ⟨p, hp, rfl⟩, hin⟩, rfl⟩ := h
  refine ⟨p.1, (List.of_mem_zip hp).1, ?_⟩
  by_cases hk : kindOf t p.1 = .sum
  · right
    simp only [hk, if_true, List.mem_map] at hin
    obtain ⟨q, hq, hqe⟩ := hin
    refine ⟨hk, ?_⟩
    have := (List.of_mem_zip hq).1
    simp only [Prod.mk.injEq] at hqe
    rw [← hqe.1]; exact this
  · left
    simp only [hk, if_false, List.mem_singleton, Prod.mk.injEq] at hin
    exact ⟨hin.1, hk⟩

theorem lprod_prodItems (V F : Nat → α) (t : Net α) (rep : List Nat) (cn : List Nat)
    (h : ∀ c ∈ cn, (kindOf t c = .prod → lprod (((chOf t c).map (fun g => rep.getD g g)).map V) = F c) ∧
                   (kindOf t c ≠ .prod → V c = F c)) :
    lprod ((prodItems t rep cn).map V) = lprod (cn.map F) := by
  induction cn with
  | nil => simp [prodItems, lprod]
  | cons c cs ih =>
    have ih' := ih (fun d hd => h d (List.mem_cons_of_mem _ hd))
    obtain ⟨h1, h2⟩ := h c List.mem_cons_self
    unfold prodItems at *
    simp only [List.map_cons, List.flatten_cons, List.map_append, lprod_append, ih', lprod]
    congr 1
    by_cases hk : kindOf t c = .prod
    · simp only [hk, if_true]; exact h1 hk
    · simp only [hk, if_false, List.map_cons, List.map_nil, lprod, h2 hk]; ring

theorem mem_prodItems (t : Net α) (rep : List Nat) (cn : List Nat) (k : Nat) (h : k ∈ prodItems t rep cn) :
    ∃ c ∈ cn, (k = c ∧ kindOf t c ≠ .prod) ∨ (kindOf t c = .prod ∧ k ∈ (chOf t c).map (fun g => rep.getD g g)) := by
  simp only [prodItems, List.mem_flatten, List.mem_map] at h
  obtain ⟨l, ⟨c, hc, rfl⟩, hin⟩ := h
  refine ⟨c, hc, ?_⟩
  by_cases hk : kindOf t c = .prod
  · right; simp only [hk, if_true] at hin; exact ⟨hk, hin⟩
  · left; simp only [hk, if_false, List.mem_singleton] at hin; exact ⟨hin, hk⟩


theorem getD_snoc_lt {β : Type} (l : List β) (a d : β) (i : Nat) (h : i < l.length) :
    (l ++ [a]).getD i d = l.getD i d := by
  rw [List.getD_eq_getElem?_getD, List.getD_eq_getElem?_getD, List.getElem?_append_left h]

theorem getD_snoc_eq {β : Type} (l : List β) (a d : β) : (l ++ [a]).getD l.length d = a := by
  rw [List.getD_eq_getElem?_getD, List.getElem?_append_right (Nat.le_refl _)]; simp

theorem getElem?_snoc_cases {β : Type} (l : List β) (a z : β) (i : Nat) (h : (l ++ [a])[i]? = some z) :
    (i < l.length ∧ l[i]? = some z) ∨ (i = l.length ∧ z = a) := by
  rcases Nat.lt_trichotomy i l.length with hi | hi | hi
  · left; rw [List.getElem?_append_left hi] at h; exact ⟨hi, h⟩
  · right; subst hi; rw [List.getElem?_append_right (Nat.le_refl _)] at h; simp at h; exact ⟨rfl, h.symm⟩
  · rw [List.getElem?_eq_none (by simp; omega)] at h; cases h

/-- every stored sum has one weight per child and weights summing to one -/
def NetSumOK (net : Net α) : Prop :=
  ∀ (i : Nat) (x : NNode α), net[i]? = some x → x.kind = .sum → x.ws.length = x.ch.length ∧ tsum x.ws = 1

/-- invariant of the `prune` pass after `k` nodes (for one evidence `e`) -/
structure PInv (net : Net α) (e : Ev) (dens : List α) (k : Nat) (t : Net α) (rep : List Nat) : Prop where
  lt : t.length = k
  lr : rep.length = k
  rep_le : ∀ i, i < k → rep.getD i i ≤ i
  rep_fix : ∀ i, i < k → rep.getD (rep.getD i i) (rep.getD i i) = rep.getD i i
  ch_lt : ∀ (i : Nat) (y : NNode α), t[i]? = some y → ∀ c ∈ y.ch, c < i
  ch_fix : ∀ (i : Nat) (y : NNode α), t[i]? = some y → y.kind ≠ .leaf → rep.getD i i = i → ∀ c ∈ y.ch, rep.getD c c = c
  sum_ok : ∀ (i : Nat) (y : NNode α), t[i]? = some y → y.kind = .sum → y.ws.length = y.ch.length ∧ tsum y.ws = 1
  val : ∀ i, i < k → nval e dens t (rep.getD i i) = nval e dens (net.take k) i

theorem take_succ_snoc (net : Net α) (k : Nat) (x : NNode α) (hx : net[k]? = some x) :
    net.take (k+1) = net.take k ++ [x] := by
  rw [List.take_add_one, hx]; rfl

theorem pinv_extend (net : Net α) (e : Ev) (dens : List α) (k : Nat) (t : Net α) (rep : List Nat)
    (x y : NNode α) (r : Nat) (hx : net[k]? = some x) (I : PInv net e dens k t rep)
    (P1 : r ≤ k ∧ (r < k → rep.getD r r = r))
    (P2 : ∀ c ∈ y.ch, c < k)
    (P3 : r = k → y.kind ≠ .leaf → ∀ c ∈ y.ch, rep.getD c c = c)
    (P4 : y.kind = .sum → y.ws.length = y.ch.length ∧ tsum y.ws = 1)
    (P5 : (if r = k then evalNode e dens (evalNet e dens t) y else nval e dens t r)
            = evalNode e dens (evalNet e dens (net.take k)) x) :
    PInv net e dens (k+1) (t ++ [y]) (rep ++ [r]) := by
  have hk : k < net.length := by
    rcases Nat.lt_or_ge k net.length with h | h
    · exact h
    · rw [List.getElem?_eq_none h] at hx; cases hx
  have htk : (net.take k).length = k := by simp; omega
  have R_lt : ∀ i, i < k → (rep ++ [r]).getD i i = rep.getD i i :=
    fun i hi => getD_snoc_lt rep r i i (by rw [I.lr]; exact hi)
  have R_k : (rep ++ [r]).getD k k = r := by
    have := getD_snoc_eq rep r k; rw [I.lr] at this; exact this
  refine { lt := by simp [I.lt], lr := by simp [I.lr], rep_le := ?_, rep_fix := ?_, ch_lt := ?_, ch_fix := ?_,
           sum_ok := ?_, val := ?_ }
  · intro i hi
    rcases Nat.lt_or_ge i k with h | h
    · rw [R_lt i h]; exact I.rep_le i h
    · have : i = k := by omega
      subst this; rw [R_k]; exact P1.1
  · intro i hi
    rcases Nat.lt_or_ge i k with h | h
    · have hc := I.rep_le i h
      rw [R_lt i h, R_lt _ (by omega)]; exact I.rep_fix i h
    · have : i = k := by omega
      subst this; rw [R_k]
      rcases Nat.lt_or_ge r i with h2 | h2
      · rw [R_lt r h2]; exact P1.2 h2
      · have : r = i := by omega
        subst this; exact R_k
  · intro i z hz c hc
    rcases getElem?_snoc_cases t y z i hz with ⟨_, h⟩ | ⟨h1, h2⟩
    · exact I.ch_lt i z h c hc
    · subst h2; rw [h1, I.lt]; exact P2 c hc
  · intro i z hz hnl hfix c hc
    rcases getElem?_snoc_cases t y z i hz with ⟨h0, h⟩ | ⟨h1, h2⟩
    · rw [I.lt] at h0
      have hci := I.ch_lt i z h c hc
      rw [R_lt i h0] at hfix
      rw [R_lt c (by omega)]; exact I.ch_fix i z h hnl hfix c hc
    · subst h2; rw [I.lt] at h1; subst h1
      rw [R_k] at hfix
      rw [R_lt c (P2 c hc)]; exact P3 hfix hnl c hc
  · intro i z hz hs
    rcases getElem?_snoc_cases t y z i hz with ⟨_, h⟩ | ⟨_, h2⟩
    · exact I.sum_ok i z h hs
    · subst h2; exact P4 hs
  · intro i hi
    rw [take_succ_snoc net k x hx]
    rcases Nat.lt_or_ge i k with h | h
    · have hc := I.rep_le i h
      rw [R_lt i h, nval_append_lt e dens t [y] _ (by rw [I.lt]; omega),
        nval_append_lt e dens (net.take k) [x] i (by rw [htk]; exact h)]
      exact I.val i h
    · have : i = k := by omega
      subst this
      rw [R_k]
      have hlast := nval_append_last e dens (net.take i) x
      rw [htk] at hlast
      rw [hlast, ← P5]
      by_cases hr : r = i
      · subst hr; simp only [if_true]
        have := nval_append_last e dens t y
        rw [I.lt] at this; exact this
      · simp only [hr, if_false]
        exact nval_append_lt e dens t [y] r (by rw [I.lt]; have := P1.1; omega)


/-! ### the branches of `pruneStep` -/

theorem single?_some {l : List Nat} {c : Nat} (h : single? l = some c) : l = [c] := by
  match l, h with
  | [d], h => simp [single?] at h; rw [h]

theorem singleKey?_some {l : List (Nat × α)} {g : Nat} (h : singleKey? l = some g) : ∃ p, l = [p] ∧ p.1 = g := by
  match l, h with
  | [p], h => simp [singleKey?] at h; exact ⟨p, rfl, h⟩

theorem pruneStep_leaf (b : Bool) (t : Net α) (rep : List Nat) (i : Nat) (x : NNode α) (h : x.kind = .leaf) :
    pruneStep b t rep i x = (x, i) := by
  unfold pruneStep; simp [h]

theorem pruneStep_prod_single (b : Bool) (t : Net α) (rep : List Nat) (i : Nat) (x : NNode α) (h : x.kind = .prod)
    (c : Nat) (hc : single? (x.ch.map (fun c => rep.getD c c)) = some c) : pruneStep b t rep i x = (x, c) := by
  unfold pruneStep; simp only [h, hc]

theorem pruneStep_prod_multi (b : Bool) (t : Net α) (rep : List Nat) (i : Nat) (x : NNode α) (h : x.kind = .prod)
    (hc : single? (x.ch.map (fun c => rep.getD c c)) = none) :
    pruneStep b t rep i x = ({ x with ch := prodItems t rep (x.ch.map (fun c => rep.getD c c)) }, i) := by
  unfold pruneStep; simp only [h, hc]

theorem pruneStep_sum_single (b : Bool) (t : Net α) (rep : List Nat) (i : Nat) (x : NNode α) (h : x.kind = .sum)
    (c : Nat) (hc : single? (x.ch.map (fun c => rep.getD c c)) = some c) : pruneStep b t rep i x = (x, c) := by
  unfold pruneStep; simp only [h, hc]

theorem pruneStep_sum_collapse (b : Bool) (t : Net α) (rep : List Nat) (i : Nat) (x : NNode α) (h : x.kind = .sum)
    (hc : single? (x.ch.map (fun c => rep.getD c c)) = none) (g : Nat)
    (hp : (if b then singleKey? (sumAcc t rep x) else none) = some g) :
    pruneStep b t rep i x = (x, g) := by
  unfold pruneStep; simp only [h, hc, hp]

theorem pruneStep_sum_multi (b : Bool) (t : Net α) (rep : List Nat) (i : Nat) (x : NNode α) (h : x.kind = .sum)
    (hc : single? (x.ch.map (fun c => rep.getD c c)) = none)
    (hp : (if b then singleKey? (sumAcc t rep x) else none) = none) :
    pruneStep b t rep i x
      = ({ x with ch := (sumAcc t rep x).map Prod.fst, ws := (sumAcc t rep x).map Prod.snd }, i) := by
  unfold pruneStep; simp only [h, hc, hp]

theorem kindOf_some (t : Net α) (c : Nat) (y : NNode α) (h : t[c]? = some y) : kindOf t c = y.kind := by
  simp [kindOf, h]
theorem chOf_some (t : Net α) (c : Nat) (y : NNode α) (h : t[c]? = some y) : chOf t c = y.ch := by
  simp [chOf, h]
theorem wsOf_some (t : Net α) (c : Nat) (y : NNode α) (h : t[c]? = some y) : wsOf t c = y.ws := by
  simp [wsOf, h]

theorem pinv_step (b : Bool) (net : Net α) (hw : WellOrdered net) (hs : NetSumOK net) (e : Ev) (dens : List α)
    (k : Nat) (t : Net α) (rep : List Nat) (x : NNode α) (hx : net[k]? = some x)
    (I : PInv net e dens k t rep) :
    PInv net e dens (k+1) (t ++ [(pruneStep b t rep k x).1]) (rep ++ [(pruneStep b t rep k x).2]) := by
  have hk : k < net.length := by
    rcases Nat.lt_or_ge k net.length with h | h
    · exact h
    · rw [List.getElem?_eq_none h] at hx; cases hx
  have htk : (net.take k).length = k := by simp; omega
  have hchk : ∀ c ∈ x.ch, c < k := hw k x hx
  generalize hcn_def : x.ch.map (fun c => rep.getD c c) = cn
  have hcn : ∀ c ∈ cn, c < k ∧ rep.getD c c = c := by
    intro c hc; rw [← hcn_def] at hc; simp only [List.mem_map] at hc; obtain ⟨c0, hc0, rfl⟩ := hc
    have h1 := hchk c0 hc0
    have h2 := I.rep_le c0 h1
    exact ⟨by omega, I.rep_fix c0 h1⟩
  have hvals : x.ch.map (fun c => (evalNet e dens (net.take k)).getD c 0) = cn.map (nval e dens t) := by
    rw [← hcn_def, List.map_map]; apply List.map_congr_left; intro c0 hc0
    simp only [Function.comp]; exact (I.val c0 (hchk c0 hc0)).symm
  have hget : ∀ c, c < k → ∃ yc, t[c]? = some yc := by
    intro c hc; exact ⟨t[c]'(by rw [I.lt]; exact hc), List.getElem?_eq_getElem _⟩
  have hfixch : ∀ c yc, t[c]? = some yc → yc.kind ≠ .leaf → rep.getD c c = c →
      yc.ch.map (fun g => rep.getD g g) = yc.ch := by
    intro c yc h hnl hfix
    conv => rhs; rw [← List.map_id yc.ch]
    apply List.map_congr_left; intro g hg; exact I.ch_fix c yc h hnl hfix g hg
  -- descendants picked up through a fixed-point child are fixed points below k
  have hgrand : ∀ c ∈ cn, ∀ yc, t[c]? = some yc → yc.kind ≠ .leaf →
      ∀ g ∈ (chOf t c).map (fun g => rep.getD g g), g < k ∧ rep.getD g g = g := by
    intro c hc yc hyc hnl g hg
    rw [chOf_some t c yc hyc, hfixch c yc hyc hnl (hcn c hc).2] at hg
    have := I.ch_lt c yc hyc g hg
    exact ⟨by have := (hcn c hc).1; omega, I.ch_fix c yc hyc hnl (hcn c hc).2 g hg⟩
  cases hkind : x.kind with
  | leaf =>
    rw [pruneStep_leaf b t rep k x hkind]
    apply pinv_extend net e dens k t rep x x k hx I ⟨Nat.le_refl _, fun h => absurd h (Nat.lt_irrefl _)⟩ hchk
    · intro _ hnl; exact absurd hkind hnl
    · intro h; rw [hkind] at h; cases h
    · simp only [if_true]
      unfold evalNode; simp only [hkind, evalNet_length, I.lt, htk]
  | prod =>
    have htarget : evalNode e dens (evalNet e dens (net.take k)) x = lprod (cn.map (nval e dens t)) := by
      unfold evalNode; simp only [hkind, hvals]
    cases hsing : single? (x.ch.map (fun c => rep.getD c c)) with
    | some c =>
      rw [pruneStep_prod_single b t rep k x hkind c hsing]
      have hl := single?_some hsing
      rw [hcn_def] at hl
      have hc := hcn c (by rw [hl]; simp)
      apply pinv_extend net e dens k t rep x x c hx I ⟨by omega, fun _ => hc.2⟩ hchk
      · intro h; omega
      · intro h; rw [hkind] at h; cases h
      · have : c ≠ k := by omega
        simp only [this, if_false, htarget, hl, List.map_cons, List.map_nil, lprod, mul_one]
    | none =>
      rw [pruneStep_prod_multi b t rep k x hkind hsing, hcn_def]
      have hmem : ∀ g ∈ prodItems t rep cn, g < k ∧ rep.getD g g = g := by
        intro g hg
        obtain ⟨c, hc, h | ⟨hkp, hin⟩⟩ := mem_prodItems t rep cn g hg
        · rw [h.1]; exact hcn c hc
        · obtain ⟨yc, hyc⟩ := hget c (hcn c hc).1
          exact hgrand c hc yc hyc (by rw [← kindOf_some t c yc hyc, hkp]; simp) g hin
      apply pinv_extend net e dens k t rep x _ k hx I ⟨Nat.le_refl _, fun h => absurd h (Nat.lt_irrefl _)⟩
      · intro g hg; exact (hmem g hg).1
      · intro _ _ g hg; exact (hmem g hg).2
      · intro h; simp only [hkind] at h; cases h
      · simp only [if_true, htarget]
        unfold evalNode; simp only [hkind]
        have : (prodItems t rep cn).map (fun c => (evalNet e dens t).getD c 0) = (prodItems t rep cn).map (nval e dens t) := rfl
        rw [this]
        apply lprod_prodItems
        intro c hc
        obtain ⟨yc, hyc⟩ := hget c (hcn c hc).1
        refine ⟨fun hkp => ?_, fun _ => rfl⟩
        have hyk : yc.kind = .prod := by rw [← kindOf_some t c yc hyc]; exact hkp
        rw [chOf_some t c yc hyc, hfixch c yc hyc (by rw [hyk]; simp) (hcn c hc).2,
          nval_unfold e dens t c yc hyc (I.ch_lt c yc hyc)]
        simp only [hyk]
  | sum =>
    obtain ⟨hxlen, hxsum⟩ := hs k x hx hkind
    have htarget : evalNode e dens (evalNet e dens (net.take k)) x = wsum x.ws (cn.map (nval e dens t)) := by
      unfold evalNode; simp only [hkind, hvals]
    have hcnlen : cn.length = x.ch.length := by rw [← hcn_def]; simp
    cases hsing : single? (x.ch.map (fun c => rep.getD c c)) with
    | some c =>
      rw [pruneStep_sum_single b t rep k x hkind c hsing]
      have hl := single?_some hsing
      rw [hcn_def] at hl
      have hc := hcn c (by rw [hl]; simp)
      have hws : x.ws = [1] := by
        have h1 : x.ws.length = 1 := by rw [hxlen, ← hcnlen, hl]; rfl
        match hw' : x.ws, h1 with
        | [w], _ =>
          rw [hw'] at hxsum
          simp only [tsum, add_zero] at hxsum; rw [hxsum]
      apply pinv_extend net e dens k t rep x x c hx I ⟨by omega, fun _ => hc.2⟩ hchk
      · intro h; omega
      · intro _; exact hs k x hx hkind
      · have : c ≠ k := by omega
        simp only [this, if_false, htarget, hl, hws, List.map_cons, List.map_nil, wsum, one_mul, add_zero]
    | none =>
      have hV : ∀ (V : Nat → α),
          (∀ c ∈ cn, kindOf t c = .sum → wsum (wsOf t c) (((chOf t c).map (fun g => rep.getD g g)).map V) = V c) →
          dot V (sumAcc t rep x) = wsum x.ws (cn.map V) := by
        intro V hVc
        unfold sumAcc
        rw [hcn_def, dot_foldl, dot_sumItems V V t rep cn x.ws (fun c hc => ⟨hVc c hc, fun _ => rfl⟩)]
        simp [dot]
      have hval : dot (nval e dens t) (sumAcc t rep x) = wsum x.ws (cn.map (nval e dens t)) := by
        apply hV
        intro c hc hks
        obtain ⟨yc, hyc⟩ := hget c (hcn c hc).1
        have hyk : yc.kind = .sum := by rw [← kindOf_some t c yc hyc]; exact hks
        rw [chOf_some t c yc hyc, wsOf_some t c yc hyc, hfixch c yc hyc (by rw [hyk]; simp) (hcn c hc).2,
          nval_unfold e dens t c yc hyc (I.ch_lt c yc hyc)]
        simp only [hyk]
      have hone : dot (fun _ => (1:α)) (sumAcc t rep x) = 1 := by
        rw [hV (fun _ => (1:α))]
        · rw [wsum_ones x.ws _ (by intro v hv; simp only [List.mem_map] at hv; obtain ⟨_, _, rfl⟩ := hv; rfl)
            (by simp [hxlen, hcnlen]), hxsum]
        · intro c hc hks
          obtain ⟨yc, hyc⟩ := hget c (hcn c hc).1
          have hyk : yc.kind = .sum := by rw [← kindOf_some t c yc hyc]; exact hks
          obtain ⟨h1, h2⟩ := I.sum_ok c yc hyc hyk
          rw [chOf_some t c yc hyc, wsOf_some t c yc hyc,
            wsum_ones yc.ws _ (by intro v hv; simp only [List.mem_map] at hv; obtain ⟨_, _, rfl⟩ := hv; rfl)
              (by simp [h1]), h2]
      have hkeys : ∀ g ∈ (sumAcc t rep x).map Prod.fst, g < k ∧ rep.getD g g = g := by
        intro g hg
        unfold sumAcc at hg
        rw [hcn_def] at hg
        rcases keys_foldl _ _ g hg with h | h
        · simp at h
        · obtain ⟨c, hc, h | ⟨hks, hin⟩⟩ := keys_sumItems t rep cn x.ws g h
          · rw [h.1]; exact hcn c hc
          · obtain ⟨yc, hyc⟩ := hget c (hcn c hc).1
            exact hgrand c hc yc hyc (by rw [← kindOf_some t c yc hyc, hks]; simp) g hin
      cases hcol : (if b then singleKey? (sumAcc t rep x) else none) with
      | some g =>
        rw [pruneStep_sum_collapse b t rep k x hkind hsing g hcol]
        have hb : singleKey? (sumAcc t rep x) = some g := by
          cases b with
          | true => simpa using hcol
          | false => simp at hcol
        obtain ⟨p, hp, hpg⟩ := singleKey?_some hb
        have hgk := hkeys g (by rw [hp]; simp [hpg])
        rw [hp] at hval hone
        simp only [dot, mul_one, add_zero] at hone
        simp only [dot, add_zero, hone, one_mul, hpg] at hval
        apply pinv_extend net e dens k t rep x x g hx I ⟨by omega, fun _ => hgk.2⟩ hchk
        · intro h; omega
        · intro _; exact hs k x hx hkind
        · have : g ≠ k := by omega
          simp only [this, if_false, htarget, hval]
      | none =>
        rw [pruneStep_sum_multi b t rep k x hkind hsing hcol]
        apply pinv_extend net e dens k t rep x _ k hx I ⟨Nat.le_refl _, fun h => absurd h (Nat.lt_irrefl _)⟩
        · intro g hg; exact (hkeys g hg).1
        · intro _ _ g hg; exact (hkeys g hg).2
        · intro _
          refine ⟨by simp, ?_⟩
          show tsum ((sumAcc t rep x).map Prod.snd) = 1
          rw [tsum_eq_dot, hone]
        · simp only [if_true, htarget]
          unfold evalNode; simp only [hkind]
          have : ((sumAcc t rep x).map Prod.fst).map (fun c => (evalNet e dens t).getD c 0)
              = ((sumAcc t rep x).map Prod.fst).map (nval e dens t) := rfl
          rw [this, wsum_eq_dot, hval]

theorem prunePass_snoc (b : Bool) (a : Net α) (x : NNode α) :
    prunePass b (a ++ [x]) =
      ((prunePass b a).1 ++ [(pruneStep b (prunePass b a).1 (prunePass b a).2 (prunePass b a).1.length x).1],
       (prunePass b a).2 ++ [(pruneStep b (prunePass b a).1 (prunePass b a).2 (prunePass b a).1.length x).2]) := by
  simp [prunePass, List.foldl_append]

theorem pinv_pass (b : Bool) (net : Net α) (hw : WellOrdered net) (hs : NetSumOK net) (e : Ev) (dens : List α) :
    ∀ k, k ≤ net.length → PInv net e dens k (prunePass b (net.take k)).1 (prunePass b (net.take k)).2 := by
  intro k
  induction k with
  | zero =>
    intro _
    simp only [List.take_zero, prunePass, List.foldl_nil]
    exact { lt := rfl, lr := rfl, rep_le := by intro i hi; omega, rep_fix := by intro i hi; omega,
            ch_lt := by intro i y h; simp at h, ch_fix := by intro i y h; simp at h,
            sum_ok := by intro i y h; simp at h, val := by intro i hi; omega }
  | succ k ih =>
    intro hk
    have hk' : k < net.length := by omega
    have hx : net[k]? = some net[k] := List.getElem?_eq_getElem hk'
    have I := ih (by omega)
    rw [take_succ_snoc net k _ hx, prunePass_snoc, I.lt]
    exact pinv_step b net hw hs e dens k _ _ _ hx I

theorem pinv_final (b : Bool) (net : Net α) (hw : WellOrdered net) (hs : NetSumOK net) (e : Ev) (dens : List α) :
    PInv net e dens net.length (prunePass b net).1 (prunePass b net).2 := by
  have := pinv_pass b net hw hs e dens net.length (Nat.le_refl _)
  rwa [List.take_length] at this

/-! ### the canonical export -/

/-- children of every stored node precede it -/
def ChLt (t : Net α) : Prop := ∀ (i : Nat) (y : NNode α), t[i]? = some y → ∀ c ∈ y.ch, c < i

theorem chOf_lt (t : Net α) (h : ChLt t) (i : Nat) : ∀ c ∈ chOf t i, c < i := by
  intro c hc
  unfold chOf at hc
  cases hy : t[i]? with
  | none => rw [hy] at hc; simp at hc
  | some y => rw [hy] at hc; exact h i y hy c hc

/-- `out` lists children before parents and is closed under taking children -/
def Closed (t : Net α) (out : List Nat) : Prop :=
  ∀ p (hp : p < out.length), ∀ c ∈ chOf t out[p], c ∈ out.take p

theorem closed_snoc (t : Net α) (out : List Nat) (i : Nat) (h : Closed t out) (hi : ∀ c ∈ chOf t i, c ∈ out) :
    Closed t (out ++ [i]) := by
  intro p hp c hc
  simp only [List.length_append, List.length_singleton] at hp
  rcases Nat.lt_or_ge p out.length with h1 | h1
  · rw [List.getElem_append_left h1] at hc
    rw [List.take_append_of_le_length (by omega)]
    exact h p h1 c hc
  · have : p = out.length := by omega
    subst this
    rw [List.getElem_append_right (Nat.le_refl _)] at hc
    simp only [Nat.sub_self, List.getElem_cons_zero] at hc
    rw [List.take_append_of_le_length (Nat.le_refl _), List.take_length]
    exact hi c hc

theorem dfsPost_spec (t : Net α) (ht : ChLt t) : ∀ fuel out i, i < fuel → Closed t out →
    Closed t (dfsPost t fuel out i) ∧ i ∈ dfsPost t fuel out i ∧
    (∃ s, dfsPost t fuel out i = out ++ s) ∧ (i ∉ out → ∃ s, dfsPost t fuel out i = s ++ [i]) := by
  intro fuel
  induction fuel with
  | zero => intro out i hi; omega
  | succ fuel ih =>
    intro out i hi hcl
    unfold dfsPost
    by_cases hin : out.contains i = true
    · simp only [hin, if_true]
      have : i ∈ out := by simpa using hin
      exact ⟨hcl, this, ⟨[], by simp⟩, fun h => absurd this h⟩
    · simp only [hin]
      have hch := chOf_lt t ht i
      -- fold over the children
      have fold : ∀ (cs : List Nat) (o : List Nat), (∀ c ∈ cs, c < fuel) → Closed t o →
          Closed t (cs.foldl (dfsPost t fuel) o) ∧ (∀ c ∈ cs, c ∈ cs.foldl (dfsPost t fuel) o) ∧
          (∃ s, cs.foldl (dfsPost t fuel) o = o ++ s) := by
        intro cs
        induction cs with
        | nil => intro o _ ho; exact ⟨ho, by simp, ⟨[], by simp⟩⟩
        | cons c cs ihc =>
          intro o hlt ho
          obtain ⟨h1, h2, ⟨s1, h3⟩, _⟩ := ih o c (hlt c List.mem_cons_self) ho
          obtain ⟨k1, k2, ⟨s2, k3⟩⟩ := ihc (dfsPost t fuel o c) (fun d hd => hlt d (List.mem_cons_of_mem _ hd)) h1
          simp only [List.foldl_cons]
          refine ⟨k1, ?_, ⟨s1 ++ s2, by rw [k3, h3]; simp⟩⟩
          intro d hd
          rcases List.mem_cons.1 hd with rfl | hd
          · rw [k3]; exact List.mem_append_left _ h2
          · exact k2 d hd
      obtain ⟨f1, f2, ⟨s, f3⟩⟩ := fold (chOf t i) out (fun c hc => by have := hch c hc; omega) hcl
      refine ⟨closed_snoc t _ i f1 f2, by simp, ⟨s ++ [i], by rw [f3]; simp⟩, fun _ => ⟨_, rfl⟩⟩


theorem idxOf_lt_of_mem_take (l : List Nat) (p c : Nat) (h : c ∈ l.take p) : l.idxOf c < p := by
  have h1 : (l.take p).idxOf c < (l.take p).length := List.idxOf_lt_length_iff.2 h
  have h2 : l.idxOf c = (l.take p).idxOf c := by
    conv => lhs; rw [← List.take_append_drop p l]
    exact List.idxOf_append_of_mem h
  rw [h2]
  have : (l.take p).length ≤ p := by simp
  omega

/-- relabelled copy of the nodes listed in `order` (what `exportFrom` builds) -/
def exportTable (t : Net α) (order : List Nat) (f : Nat → Nat) : Net α :=
  order.map (fun i => match t[i]? with
    | some x => { x with id := f i, ch := x.ch.map (posIn order) }
    | none => default)

theorem export_eval (t : Net α) (ht : ChLt t) (order : List Nat) (f : Nat → Nat) (hcl : Closed t order)
    (hlt : ∀ i ∈ order, i < t.length) (e : Ev) (dens : List α) :
    ∀ p (hp : p < order.length),
      nval e (order.map (fun i => dens.getD i 0)) (exportTable t order f) p = nval e dens t order[p] := by
  intro p
  induction p using Nat.strong_induction_on with
  | _ p ih =>
    intro hp
    have hi : order[p] < t.length := hlt _ (List.getElem_mem hp)
    have hy : t[order[p]]? = some t[order[p]] := List.getElem?_eq_getElem hi
    generalize hyd : t[order[p]] = y at hy
    have hout : (exportTable t order f)[p]? = some { y with id := f order[p], ch := y.ch.map (posIn order) } := by
      unfold exportTable
      rw [List.getElem?_map, List.getElem?_eq_getElem hp]
      simp only [Option.map_some, hy]
    have hchy : chOf t order[p] = y.ch := chOf_some t _ y hy
    have hpos : ∀ c ∈ y.ch, posIn order c < p ∧ ∃ (h : posIn order c < order.length), order[posIn order c] = c := by
      intro c hc
      have hmem := hcl p hp c (by rw [hchy]; exact hc)
      have h1 := idxOf_lt_of_mem_take order p c hmem
      have h2 : posIn order c < order.length := by unfold posIn; omega
      exact ⟨h1, h2, List.getElem_idxOf h2⟩
    rw [nval_unfold e _ _ p _ hout (by
          intro c hc; simp only [List.mem_map] at hc; obtain ⟨c0, hc0, rfl⟩ := hc; exact (hpos c0 hc0).1),
        nval_unfold e dens t order[p] y hy (ht _ y hy)]
    have hmap : (y.ch.map (posIn order)).map (nval e (order.map (fun i => dens.getD i 0)) (exportTable t order f))
        = y.ch.map (nval e dens t) := by
      rw [List.map_map]; apply List.map_congr_left; intro c hc
      obtain ⟨h1, h2, h3⟩ := hpos c hc
      simp only [Function.comp]
      rw [ih _ h1 h2, h3]
    have hd : (order.map (fun i => dens.getD i 0)).getD p 0 = dens.getD order[p] 0 := by
      rw [List.getD_eq_getElem?_getD, List.getElem?_map, List.getElem?_eq_getElem hp]; rfl
    simp only [hmap, hd]


theorem dfsPost_le (t : Net α) (ht : ChLt t) : ∀ fuel out i, ∀ j ∈ dfsPost t fuel out i, j ∈ out ∨ j ≤ i := by
  intro fuel
  induction fuel with
  | zero => intro out i j hj; left; simpa [dfsPost] using hj
  | succ fuel ih =>
    intro out i j hj
    unfold dfsPost at hj
    by_cases hin : out.contains i = true
    · simp only [hin, if_true] at hj; exact Or.inl hj
    · simp only [hin] at hj
      have hch := chOf_lt t ht i
      have fold : ∀ (cs : List Nat) (o : List Nat), (∀ c ∈ cs, c < i) →
          ∀ j ∈ cs.foldl (dfsPost t fuel) o, j ∈ o ∨ j < i := by
        intro cs
        induction cs with
        | nil => intro o _ j hj; exact Or.inl hj
        | cons c cs ihc =>
          intro o hlt j hj
          simp only [List.foldl_cons] at hj
          rcases ihc _ (fun d hd => hlt d (List.mem_cons_of_mem _ hd)) j hj with h | h
          · rcases ih o c j h with h | h
            · exact Or.inl h
            · right; have := hlt c List.mem_cons_self; omega
          · exact Or.inr h
      rcases List.mem_append.1 hj with h | h
      · rcases fold (chOf t i) out hch j h with h | h
        · exact Or.inl h
        · right; omega
      · right; simp at h; omega

theorem accAdd_keys_nodup (a : List (Nat × α)) (k : Nat) (w : α) (h : (a.map Prod.fst).Nodup) :
    ((accAdd a k w).map Prod.fst).Nodup := by
  induction a with
  | nil => simp [accAdd]
  | cons p r ih =>
    obtain ⟨k', w'⟩ := p
    simp only [List.map_cons, List.nodup_cons] at h
    unfold accAdd
    by_cases hk : k' = k
    · simp only [hk, if_true, List.map_cons, List.nodup_cons]; rw [← hk]; exact h
    · simp only [hk, if_false, List.map_cons, List.nodup_cons]
      refine ⟨?_, ih h.2⟩
      intro hmem
      rcases keys_accAdd r k' k w hmem with h1 | h1
      · exact h.1 h1
      · exact hk h1


end Deeprob
