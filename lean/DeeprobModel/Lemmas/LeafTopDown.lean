import DeeprobModel.Lemmas.PmfLemmas
set_option linter.unusedSimpArgs false
set_option linter.unusedVariables false
set_option linter.unusedSectionVars false
/-
Table leaves (Bernoulli / Categorical) satisfy the leaf hypotheses of the top-down theorems.
-/
namespace Deeprob
open TD
namespace TCirc

/-- completion that writes the constant `k` into a missing entry `v` -/
theorem setMode_leafFill (dom : Nat → Nat) (v k : Nat) (hk : k < dom v) :
    LeafFill dom [v] (fun x => match x v with | none => x.set v k | some _ => x) where
  step := by
    intro x w _
    cases hx : x v with
    | some _ => exact Or.inl rfl
    | none =>
      simp only
      by_cases hw : w = v
      · subst hw; exact Or.inr ⟨hx, k, hk, by simp⟩
      · exact Or.inl (Ev.set_ne _ _ hw)
  fills := by
    intro x w hw
    simp only [List.mem_singleton] at hw; subst hw
    cases hx : x w with
    | some _ => simp [hx]
    | none => simp

section order
variable {α : Type} [CommSemiring α] [LinearOrder α] [IsStrictOrderedRing α]

theorem catMode_leafFill (dom : Nat → Nat) (v : Nat) (tbl : List α) (hl : tbl.length = dom v) (hne : tbl ≠ []) :
    LeafFill dom [v] (catMode v tbl) :=
  setMode_leafFill dom v (argmax tbl) (hl ▸ argmax_lt_length tbl hne)

theorem bernIdx_le (tbl : List α) : bernIdx tbl ≤ 1 := by unfold bernIdx; split <;> omega

theorem bernMode_leafFill (dom : Nat → Nat) (v : Nat) (tbl : List α) (hd : dom v = 2) :
    LeafFill dom [v] (bernMode v tbl) :=
  setMode_leafFill dom v (bernIdx tbl) (by have := bernIdx_le tbl; omega)

theorem catLeafFn_nonneg (v : Nat) (tbl : List α) (h : ∀ x ∈ tbl, 0 ≤ x) (e : Ev) : 0 ≤ Circ.catLeafFn v tbl e := by
  unfold Circ.catLeafFn
  cases e v with
  | none => exact zero_le_one
  | some k =>
    simp only [List.getD_eq_getElem?_getD]
    cases hk : tbl[k]? with
    | none => simp
    | some y => exact h y (List.mem_of_getElem? hk)

/-- the arg-max entry of a table with a positive entry is positive -/
theorem catMode_pos (v : Nat) (tbl : List α) (h : ∃ x ∈ tbl, 0 < x) (e : Ev) (he : 0 < Circ.catLeafFn v tbl e) :
    0 < Circ.catLeafFn v tbl (catMode v tbl e) := by
  unfold catMode
  cases hv : e v with
  | some k => simpa [hv] using he
  | none =>
    obtain ⟨y, hy, hy0⟩ := h
    obtain ⟨m, hm, hle, _⟩ := argmax_spec tbl (List.ne_nil_of_mem hy)
    simp only [Circ.catLeafFn, Ev.set_self, List.getD_eq_getElem?_getD, hm, Option.getD_some]
    exact lt_of_lt_of_le hy0 (hle y hy)

theorem bernMode_pos (v : Nat) (tbl : List α) (hl : tbl.length = 2) (h : ∃ x ∈ tbl, 0 < x) (e : Ev)
    (he : 0 < Circ.catLeafFn v tbl e) : 0 < Circ.catLeafFn v tbl (bernMode v tbl e) := by
  unfold bernMode
  cases hv : e v with
  | some k => simpa [hv] using he
  | none =>
    match tbl, hl with
    | [a, b], _ =>
      obtain ⟨y, hy, hy0⟩ := h
      simp only [Circ.catLeafFn, Ev.set_self, bernIdx]
      simp only [List.mem_cons, List.not_mem_nil, or_false] at hy
      by_cases hba : b < a
      · simp [hba]
        rcases hy with rfl | rfl
        · exact hy0
        · exact lt_trans hy0 hba
      · simp [hba]
        rcases hy with rfl | rfl
        · exact lt_of_lt_of_le hy0 (not_lt.1 hba)
        · exact hy0

end order

section exact
variable {α : Type} [CommSemiring α]

theorem catCond_exact (v : Nat) (tbl : List α) (e x : Ev) (h : Completes [v] e x) :
    catCond v tbl e x * Circ.catLeafFn v tbl e = Circ.catLeafFn v tbl x := by
  unfold catCond Circ.catLeafFn
  cases he : e v with
  | none =>
    cases hx : x v with
    | none => exact absurd hx (h.2 v (by simp))
    | some k => simp
  | some k =>
    have : x v = some k := by rw [h.1 v (by simp [he]), he]
    simp [this]

end exact

section bundle
variable {α : Type} [CommSemiring α] [LinearOrder α] [IsStrictOrderedRing α]

theorem tbl_has_pos (tbl : List α) (hs : tsum tbl = 1) : ∃ x ∈ tbl, 0 < x :=
  tsum_pos_exists tbl (hs ▸ zero_lt_one)

/-- a normalised non-negative Categorical table leaf satisfies every leaf hypothesis -/
theorem catT_ok (dom : Nat → Nat) (v : Nat) (tbl : List α) (hl : tbl.length = dom v) (hs : tsum tbl = 1)
    (h0 : ∀ x ∈ tbl, 0 ≤ x) :
    Circ.Valid dom (catT v tbl).toCirc ∧ ModeOK dom (catT v tbl) ∧ NonNeg (catT v tbl) ∧
      LeafPos (catT v tbl) ∧ LeafExact (catT v tbl) := by
  obtain ⟨y, hy, hy0⟩ := tbl_has_pos tbl hs
  refine ⟨valid_leaf.2 (Circ.catLeaf_ok dom v tbl hl hs), ?_, ?_, ?_, ?_⟩
  · unfold ModeOK catT FillOK; intro p; exact catMode_leafFill dom v tbl hl (List.ne_nil_of_mem hy)
  · unfold catT NonNeg; exact catLeafFn_nonneg v tbl h0
  · unfold catT LeafPos; exact catMode_pos v tbl ⟨y, hy, hy0⟩
  · unfold catT LeafExact; exact catCond_exact v tbl

/-- a normalised non-negative Bernoulli table leaf (`[1-p, p]`) satisfies every leaf hypothesis -/
theorem bernT_ok (dom : Nat → Nat) (v : Nat) (tbl : List α) (hl : tbl.length = 2) (hd : dom v = 2) (hs : tsum tbl = 1)
    (h0 : ∀ x ∈ tbl, 0 ≤ x) :
    Circ.Valid dom (bernT v tbl).toCirc ∧ ModeOK dom (bernT v tbl) ∧ NonNeg (bernT v tbl) ∧
      LeafPos (bernT v tbl) ∧ LeafExact (bernT v tbl) := by
  refine ⟨valid_leaf.2 (Circ.catLeaf_ok dom v tbl (hl.trans hd.symm) hs), ?_, ?_, ?_, ?_⟩
  · unfold ModeOK bernT FillOK; intro p; exact bernMode_leafFill dom v tbl hd
  · unfold bernT NonNeg; exact catLeafFn_nonneg v tbl h0
  · unfold bernT LeafPos; exact bernMode_pos v tbl hl (tbl_has_pos tbl hs)
  · unfold bernT LeafExact; exact catCond_exact v tbl

end bundle

section bernspec
variable {α : Type} [Field α] [LinearOrder α] [IsStrictOrderedRing α]

/-- `bernIdx` on the exported table `[1-p, p]` is the coded test `0 if p < 0.5 else 1` -/
theorem bernIdx_spec (p : α) : bernIdx [1 - p, p] = if p < 1/2 then 0 else 1 := by
  unfold bernIdx
  simp only [List.getD_cons_succ, List.getD_cons_zero]
  have : p < 1 - p ↔ p < 1/2 := by
    constructor
    · intro h; linarith
    · intro h; linarith
  simp [this]

end bernspec
end TCirc
end Deeprob
