import DeeprobModel.Model.Em
import DeeprobModel.Lemmas.NetValid
import Mathlib.Algebra.BigOperators.Group.Finset.Basic
import Mathlib.Algebra.BigOperators.Ring.Finset
import Mathlib.Data.List.Flatten
import Mathlib.Data.List.Nodup
import Mathlib.Tactic.Ring
set_option linter.unusedSimpArgs false
set_option linter.unusedVariables false
set_option linter.unusedSectionVars false
/-
Helper theory for C14 on node tables (DAGs with sharing): the backward pass `backward` of Model/Em.lean
(`eval_backward`, deeprob/spn/algorithms/gradient.py) computes, for every node `i`, the derivative of the root
value with respect to the value of node `i`.

Route: for a fixed node `i`
 * `evalNetWith … i x`   — the value table with node `i` forced to `x` (every parent recomputed from it);
 * `fwdDeriv … i`        — the forward-mode derivative table `d_j = ∂ node_j / ∂ node_i` (linearised nodes);
 * `override_affine`     — bottom-up: `T^x[j] = T^0[j] + d_j·x` for every `j` reachable from the root, when no node
                           reaches `i` through two different children of a product (`DecompAt`);
 * `backward_eq_fwd`     — the reverse sweep equals the forward derivative at the root: `grads[i] = d_root`
                           (pure linear algebra, no decomposability, any value table);
 * `fwd_eq_gradAlong`    — when `i` has one path from the root, `d_root` is `Circ.gradAlong` along that path in the
                           unfolding `toTree`.
-/
namespace Deeprob.Bwd

/-! ### definitions (computable, no law needed) -/

section defs
variable {α : Type} [Zero α] [One α] [Add α] [Mul α]

/-- the value table of `evalNet` with node `i` forced to the value `x`; every later node (parents of `i`
included) is recomputed from the forced value. `i ≥ net.length` forces nothing. -/
def evalNetWith (e : Ev) (dens : List α) (net : Net α) (i : Nat) (x : α) : List α :=
  net.foldl (fun vals nd => vals ++ [if vals.length = i then x else evalNode e dens vals nd]) []

/-- `Σ_k (Π_{l≠k} v c_l) · d c_k` over a child list: the linearisation of a product -/
def prodLin (v d : Nat → α) : List Nat → α
  | [] => 0
  | c :: cs => lprod (cs.map v) * d c + v c * prodLin v d cs

/-- a node as a function of a lookup of its children's values (`evalNode` with the table abstracted) -/
def nodeFn (e : Ev) (dens : List α) (k : Nat) (look : Nat → α) (x : NNode α) : α :=
  match x.kind with
  | .leaf => x.leaf.fn x.scope (dens.getD k 0) e
  | .sum => wsum x.ws (x.ch.map look)
  | .prod => lprod (x.ch.map look)

/-- the linearised node: what a perturbation `d` of the children's values does to the node, at the point `v` -/
def linFn (v d : Nat → α) (x : NNode α) : α :=
  match x.kind with
  | .leaf => 0
  | .sum => wsum x.ws (x.ch.map d)
  | .prod => prodLin v d x.ch

/-- forward-mode derivative table: entry `j` is `∂ node_j / ∂ node_i` at the point `vals` -/
def fwdDeriv (net : Net α) (vals : List α) (i : Nat) : List α :=
  net.foldl (fun ds nd => ds ++ [if ds.length = i then 1
    else linFn (fun c => vals.getD c 0) (fun c => ds.getD c 0) nd]) []

/-- one step of the reverse sweep of `backward` -/
def bstep (net : Net α) (vals : List α) (grads : List α) (i : Nat) : List α :=
  match net[i]? with
  | some x => sendDown vals x (grads.getD i 0) grads
  | none => grads

theorem backward_eq_foldl (net : Net α) (vals : List α) (root : Nat) :
    backward net vals root
      = (List.range net.length).reverse.foldl (bstep net vals) ((List.replicate net.length 0).set root 1) := rfl

end defs

section graph
variable {α : Type}

/-- `Reach net j i`: node `i` is `j` or a descendant of `j` (children lists of leaf entries are ignored, as
`evalNet` and `backward` ignore them) -/
inductive Reach (net : Net α) : Nat → Nat → Prop
  | refl (j : Nat) : Reach net j j
  | step {j c i : Nat} (x : NNode α) : net[j]? = some x → x.kind ≠ .leaf → c ∈ x.ch → Reach net c i → Reach net j i

/-- the node reached from `r` by a path of child positions -/
def nodeAt (net : Net α) : Nat → List Nat → Option Nat
  | r, [] => some r
  | r, j :: p => match net[r]? with
    | some x => if x.kind = .leaf then none else match x.ch[j]? with
      | some c => nodeAt net c p
      | none => none
    | none => none

/-- decomposability as the derivative needs it: below the root, no product reaches node `i` through two different
child positions (a child listed twice counts as two positions). Sharing under sum nodes is unconstrained. -/
def DecompAt (net : Net α) (root i : Nat) : Prop :=
  ∀ (p : Nat) (x : NNode α), Reach net root p → net[p]? = some x → x.kind = .prod →
    x.ch.Pairwise (fun c c' => ¬ (Reach net c i ∧ Reach net c' i))

theorem Reach.trans {net : Net α} {a b c : Nat} (h1 : Reach net a b) (h2 : Reach net b c) : Reach net a c := by
  induction h1 with
  | refl j => exact h2
  | step x hx hk hc _ ih => exact Reach.step x hx hk hc (ih h2)

theorem Reach.child {net : Net α} {a j c : Nat} (x : NNode α) (h : Reach net a j) (hx : net[j]? = some x)
    (hk : x.kind ≠ .leaf) (hc : c ∈ x.ch) : Reach net a c :=
  h.trans (Reach.step x hx hk hc (Reach.refl c))

/-- nothing but itself is reached from a leaf entry -/
theorem reach_of_leaf {net : Net α} {j i : Nat} (x : NNode α) (hx : net[j]? = some x) (hk : x.kind = .leaf)
    (h : Reach net j i) : i = j := by
  cases h with
  | refl => rfl
  | step x' hx' hk' _ _ => rw [hx] at hx'; cases hx'; exact absurd hk hk'

theorem nodeAt_reach (net : Net α) : ∀ (p : List Nat) (r i : Nat), nodeAt net r p = some i → Reach net r i := by
  intro p
  induction p with
  | nil => intro r i h; simp only [nodeAt, Option.some.injEq] at h; subst h; exact Reach.refl r
  | cons j p ih =>
    intro r i h
    simp only [nodeAt] at h
    cases hx : net[r]? with
    | none => simp [hx] at h
    | some x =>
      simp only [hx] at h
      by_cases hk : x.kind = .leaf
      · simp [hk] at h
      · simp only [if_neg hk] at h
        cases hc : x.ch[j]? with
        | none => simp [hc] at h
        | some c =>
          simp only [hc] at h
          exact Reach.step x hx hk (List.mem_of_getElem? hc) (ih c i h)

theorem reach_nodeAt (net : Net α) {r i : Nat} (h : Reach net r i) : ∃ p, nodeAt net r p = some i := by
  induction h with
  | refl j => exact ⟨[], rfl⟩
  | @step j c i x hx hkind hc _ ih =>
    obtain ⟨p, hp⟩ := ih
    obtain ⟨k, hk, hkc⟩ := List.mem_iff_getElem.mp hc
    refine ⟨k :: p, ?_⟩
    have : x.ch[k]? = some c := by rw [List.getElem?_eq_getElem hk, hkc]
    simp only [nodeAt, hx, if_neg hkind, this, hp]

theorem nodeAt_append (net : Net α) : ∀ (p q : List Nat) (r m : Nat), nodeAt net r p = some m →
    nodeAt net r (p ++ q) = nodeAt net m q := by
  intro p
  induction p with
  | nil => intro q r m h; simp only [nodeAt, Option.some.injEq] at h; subst h; rfl
  | cons j p ih =>
    intro q r m h
    simp only [nodeAt, List.cons_append] at h ⊢
    cases hx : net[r]? with
    | none => simp [hx] at h
    | some x =>
      simp only [hx] at h ⊢
      by_cases hk : x.kind = .leaf
      · simp [hk] at h
      · simp only [if_neg hk] at h ⊢
        cases hc : x.ch[j]? with
        | none => simp [hc] at h
        | some c =>
          simp only [hc] at h ⊢
          exact ih q c m h

theorem reach_le_raw (net : Net α) (hw : ∀ i (x : NNode α), net[i]? = some x → ∀ c ∈ x.ch, c < i) {j i : Nat}
    (h : Reach net j i) : i ≤ j := by
  induction h with
  | refl j => exact Nat.le_refl j
  | step x hx _ hc _ ih => have := hw _ x hx _ hc; omega

/-- every node below the root has one path to it: the table is a tree -/
def TreeShaped (net : Net α) (root : Nat) : Prop :=
  ∀ (i : Nat) (q q' : List Nat), nodeAt net root q = some i → nodeAt net root q' = some i → q = q'

/-- all paths of child positions from `r` to `i` (computable; `fuel ≥ r` is enough on children-first tables) -/
def pathsTo (net : Net α) : Nat → Nat → Nat → List (List Nat)
  | 0, r, i => if r = i then [[]] else []
  | fuel+1, r, i => (if r = i then [[]] else []) ++ (match net[r]? with
      | some x => if x.kind = .leaf then [] else
          x.ch.zipIdx.flatMap (fun cj => (pathsTo net fuel cj.1 i).map (fun p => cj.2 :: p))
      | none => [])

theorem pathsTo_complete (net : Net α) (hw : ∀ i (x : NNode α), net[i]? = some x → ∀ c ∈ x.ch, c < i) (i : Nat) :
    ∀ (q : List Nat) (fuel r : Nat), r ≤ fuel → nodeAt net r q = some i → q ∈ pathsTo net fuel r i := by
  intro q
  induction q with
  | nil =>
    intro fuel r _ h
    simp only [nodeAt, Option.some.injEq] at h
    cases fuel <;> simp [pathsTo, h]
  | cons j p ih =>
    intro fuel r hrf h
    simp only [nodeAt] at h
    cases hx : net[r]? with
    | none => simp [hx] at h
    | some x =>
      simp only [hx] at h
      by_cases hk : x.kind = .leaf
      · simp [hk] at h
      · simp only [if_neg hk] at h
        cases hc : x.ch[j]? with
        | none => simp [hc] at h
        | some c =>
          simp only [hc] at h
          have hcr : c < r := hw r x hx c (List.mem_of_getElem? hc)
          cases fuel with
          | zero => omega
          | succ f =>
            simp only [pathsTo, hx, if_neg hk]
            apply List.mem_append_right
            rw [List.mem_flatMap]
            refine ⟨(c, j), ?_, ?_⟩
            · rw [List.mem_zipIdx_iff_getElem?]; exact hc
            · exact List.mem_map.2 ⟨p, ih f c (by omega) h, rfl⟩

/-- a decidable certificate for "node `i` has the single path `p` from the root" -/
theorem unique_path_of_pathsTo (net : Net α) (hw : ∀ i (x : NNode α), net[i]? = some x → ∀ c ∈ x.ch, c < i)
    (root i : Nat) (p : List Nat) (h : pathsTo net root root i = [p]) :
    ∀ q, nodeAt net root q = some i → q = p := by
  intro q hq
  have := pathsTo_complete net hw i q root root (Nat.le_refl _) hq
  rw [h] at this
  simpa using this

/-- a decidable certificate for tree shape: at most one path to every entry -/
theorem treeShaped_of_pathsTo (net : Net α) (hw : ∀ i (x : NNode α), net[i]? = some x → ∀ c ∈ x.ch, c < i)
    (root : Nat) (h : ∀ i, i ≤ root → (pathsTo net root root i).length ≤ 1) : TreeShaped net root := by
  intro i q q' hq hq'
  have hle : i ≤ root := reach_le_raw net hw (nodeAt_reach net q root i hq)
  have m1 := pathsTo_complete net hw i q root root (Nat.le_refl _) hq
  have m2 := pathsTo_complete net hw i q' root root (Nat.le_refl _) hq'
  have hl := h i hle
  match hp : pathsTo net root root i, hl with
  | [], _ => rw [hp] at m1; cases m1
  | [a], _ =>
    rw [hp] at m1 m2
    simp only [List.mem_singleton] at m1 m2
    rw [m1, m2]

end graph

/-! ### tables built by appending one entry per node -/

theorem snocFold_spec {β γ : Type} (g : List γ → β → γ) (l : List β) :
    (l.foldl (fun acc b => acc ++ [g acc b]) []).length = l.length ∧
    ∀ k (h : k < l.length), (l.foldl (fun acc b => acc ++ [g acc b]) [])[k]?
      = some (g ((l.foldl (fun acc b => acc ++ [g acc b]) []).take k) l[k]) := by
  induction l using List.reverseRecOn with
  | nil => simp
  | append_singleton l a ih =>
    obtain ⟨hlen, hget⟩ := ih
    rw [List.foldl_append]
    simp only [List.foldl_cons, List.foldl_nil]
    refine ⟨by simp [hlen], ?_⟩
    intro k hk
    simp only [List.length_append, List.length_singleton] at hk
    rcases Nat.lt_or_ge k l.length with h1 | h1
    · rw [List.getElem?_append_left (by omega), hget k h1, List.take_append_of_le_length (by omega)]
      simp [List.getElem_append_left h1]
    · have hk' : k = l.length := by omega
      subst hk'
      rw [List.getElem?_append_right (by omega)]
      simp [hlen]

section semiring
variable {α : Type} [CommSemiring α]

/-! ### list algebra -/

theorem wsum_affine (a b d : Nat → α) (x : α) : ∀ (ws : List α) (ch : List Nat),
    (∀ c ∈ ch, a c = b c + d c * x) → wsum ws (ch.map a) = wsum ws (ch.map b) + wsum ws (ch.map d) * x := by
  intro ws ch
  induction ch generalizing ws with
  | nil => intro _; cases ws <;> simp [wsum]
  | cons c cs ih =>
    intro h
    cases ws with
    | nil => simp [wsum]
    | cons w ws =>
      simp only [List.map_cons, wsum]
      rw [ih ws (fun c' hc' => h c' (List.mem_cons_of_mem _ hc')), h c List.mem_cons_self]
      ring

theorem wsum_zero_right (d : Nat → α) : ∀ (ws : List α) (ch : List Nat), (∀ c ∈ ch, d c = 0) →
    wsum ws (ch.map d) = 0 := by
  intro ws ch
  induction ch generalizing ws with
  | nil => intro _; cases ws <;> simp [wsum]
  | cons c cs ih =>
    intro h
    cases ws with
    | nil => simp [wsum]
    | cons w ws =>
      simp only [List.map_cons, wsum]
      rw [ih ws (fun c' hc' => h c' (List.mem_cons_of_mem _ hc')), h c List.mem_cons_self]
      simp

theorem prodLin_zero (v d : Nat → α) : ∀ ch : List Nat, (∀ c ∈ ch, d c = 0) → prodLin v d ch = 0 := by
  intro ch
  induction ch with
  | nil => intro _; rfl
  | cons c cs ih =>
    intro h
    simp only [prodLin]
    rw [ih (fun c' hc' => h c' (List.mem_cons_of_mem _ hc')), h c List.mem_cons_self]
    simp

theorem prodLin_congr (v d d' : Nat → α) : ∀ ch : List Nat, (∀ c ∈ ch, d c = d' c) →
    prodLin v d ch = prodLin v d' ch := by
  intro ch
  induction ch with
  | nil => intro _; rfl
  | cons c cs ih =>
    intro h
    simp only [prodLin]
    rw [ih (fun c' hc' => h c' (List.mem_cons_of_mem _ hc')), h c List.mem_cons_self]

theorem lprod_map_congr (a b : Nat → α) (ch : List Nat) (h : ∀ c ∈ ch, a c = b c) :
    lprod (ch.map a) = lprod (ch.map b) := by
  rw [List.map_congr_left h]

/-- a product is affine in `x` when at most one factor moves, with slope `prodLin` -/
theorem lprod_affine (a b v d : Nat → α) (x : α) : ∀ ch : List Nat,
    (∀ c ∈ ch, a c = b c + d c * x) →
    ch.Pairwise (fun c c' => (d c = 0 ∧ b c = v c) ∨ (d c' = 0 ∧ b c' = v c')) →
    lprod (ch.map a) = lprod (ch.map b) + prodLin v d ch * x := by
  intro ch
  induction ch with
  | nil => intro _ _; simp [lprod, prodLin]
  | cons c cs ih =>
    intro h hp
    rw [List.pairwise_cons] at hp
    obtain ⟨hc, hcs⟩ := hp
    have ihc := ih (fun c' hc' => h c' (List.mem_cons_of_mem _ hc')) hcs
    simp only [List.map_cons, lprod, prodLin]
    rw [ihc, h c List.mem_cons_self]
    by_cases hq : d c = 0 ∧ b c = v c
    · rw [hq.1, hq.2]; ring
    · have hall : ∀ c' ∈ cs, d c' = 0 ∧ b c' = v c' := by
        intro c' hc'
        rcases hc c' hc' with h1 | h1
        · exact absurd h1 hq
        · exact h1
      rw [prodLin_zero v d cs (fun c' hc' => (hall c' hc').1),
        lprod_map_congr b v cs (fun c' hc' => (hall c' hc').2)]
      ring

theorem wsum_single (d : Nat → α) : ∀ (ch : List Nat) (ws : List α) (j c : Nat), ch[j]? = some c →
    (∀ k c', k ≠ j → ch[k]? = some c' → d c' = 0) → wsum ws (ch.map d) = ws.getD j 0 * d c := by
  intro ch
  induction ch with
  | nil => intro ws j c h; simp at h
  | cons a cs ih =>
    intro ws j c hj hz
    cases ws with
    | nil => simp [wsum]
    | cons w ws =>
      simp only [List.map_cons, wsum]
      cases j with
      | zero =>
        simp only [List.getElem?_cons_zero, Option.some.injEq] at hj
        subst hj
        rw [wsum_zero_right d ws cs]
        · simp
        · intro c' hc'
          obtain ⟨k, hk, hkc⟩ := List.mem_iff_getElem.mp hc'
          exact hz (k+1) c' (by omega) (by simp [List.getElem?_eq_getElem hk, hkc])
      | succ j =>
        simp only [List.getElem?_cons_succ] at hj
        rw [hz 0 a (by omega) (by simp), ih ws j c hj (fun k c' hk hc' => hz (k+1) c' (by omega) (by simpa using hc'))]
        simp

theorem prodLin_single (v d : Nat → α) : ∀ (ch : List Nat) (j c : Nat), ch[j]? = some c →
    (∀ k c', k ≠ j → ch[k]? = some c' → d c' = 0) →
    prodLin v d ch = lprod ((ch.eraseIdx j).map v) * d c := by
  intro ch
  induction ch with
  | nil => intro j c h; simp at h
  | cons a cs ih =>
    intro j c hj hz
    simp only [prodLin]
    cases j with
    | zero =>
      simp only [List.getElem?_cons_zero, Option.some.injEq] at hj
      subst hj
      rw [prodLin_zero v d cs]
      · simp
      · intro c' hc'
        obtain ⟨k, hk, hkc⟩ := List.mem_iff_getElem.mp hc'
        exact hz (k+1) c' (by omega) (by simp [List.getElem?_eq_getElem hk, hkc])
    | succ j =>
      simp only [List.getElem?_cons_succ] at hj
      rw [hz 0 a (by omega) (by simp), ih j c hj (fun k c' hk hc' => hz (k+1) c' (by omega) (by simpa using hc'))]
      simp only [List.eraseIdx_cons_succ, List.map_cons, lprod]
      ring

theorem zip_sum_eq_wsum (d : Nat → α) : ∀ (ch : List Nat) (ws : List α),
    ((ch.zip ws).map (fun p => p.2 * d p.1)).sum = wsum ws (ch.map d) := by
  intro ch
  induction ch with
  | nil => intro ws; cases ws <;> simp [wsum]
  | cons c cs ih =>
    intro ws
    cases ws with
    | nil => simp [wsum]
    | cons w ws => simp [wsum, ih ws]

/-- the sum a product node scatters, position by position, is `prodLin` -/
theorem zipIdx_sum_eq_prodLin (v d : Nat → α) : ∀ (cs pre : List Nat),
    ((cs.zipIdx pre.length).map (fun cj => lprod (((pre ++ cs).eraseIdx cj.2).map v) * d cj.1)).sum
      = lprod (pre.map v) * prodLin v d cs := by
  intro cs
  induction cs with
  | nil => intro pre; simp [prodLin]
  | cons c cs ih =>
    intro pre
    have h := ih (pre ++ [c])
    simp only [List.length_append, List.length_singleton, List.append_assoc, List.singleton_append] at h
    simp only [List.zipIdx_cons, List.map_cons, List.sum_cons, prodLin]
    rw [h, List.eraseIdx_append_of_length_le (Nat.le_refl _)]
    simp only [Nat.sub_self, List.eraseIdx_cons_zero, List.map_append, List.map_cons, List.map_nil]
    have hl : ∀ (l1 l2 : List α), lprod (l1 ++ l2) = lprod l1 * lprod l2 := by
      intro l1 l2; induction l1 with
      | nil => simp [lprod]
      | cons a l1 ih1 => simp [lprod, ih1, mul_assoc]
    rw [hl, hl]
    simp only [lprod]
    ring

/-! ### pointwise recurrences of the three tables -/

theorem getD_take_lt (T : List α) {c k : Nat} (h : c < k) : (T.take k).getD c 0 = T.getD c 0 := by
  simp [List.getD_eq_getElem?_getD, List.getElem?_take, h]

theorem evalNode_take (e : Ev) (dens : List α) (T : List α) (k : Nat) (hk : k ≤ T.length) (nd : NNode α)
    (hc : ∀ c ∈ nd.ch, c < k) :
    evalNode e dens (T.take k) nd = nodeFn e dens k (fun c => T.getD c 0) nd := by
  have hm : nd.ch.map (fun c => (T.take k).getD c 0) = nd.ch.map (fun c => T.getD c 0) :=
    List.map_congr_left (fun c hcm => getD_take_lt T (hc c hcm))
  unfold evalNode nodeFn
  cases nd.kind
  · simp only [hm]
  · simp only [hm]
  · simp [List.length_take, Nat.min_eq_left hk]

theorem linFn_congr (v d d' : Nat → α) (nd : NNode α) (h : ∀ c ∈ nd.ch, d c = d' c) :
    linFn v d nd = linFn v d' nd := by
  unfold linFn
  cases nd.kind
  · simp only [List.map_congr_left h]
  · simp only [prodLin_congr v d d' nd.ch h]
  · rfl

theorem linFn_zero (v d : Nat → α) (nd : NNode α) (h : nd.kind ≠ .leaf → ∀ c ∈ nd.ch, d c = 0) :
    linFn v d nd = 0 := by
  unfold linFn
  cases hk : nd.kind
  · exact wsum_zero_right d nd.ws nd.ch (h (by simp [hk]))
  · exact prodLin_zero v d nd.ch (h (by simp [hk]))
  · rfl

theorem nodeFn_congr (e : Ev) (dens : List α) (k : Nat) (a b : Nat → α) (nd : NNode α)
    (h : nd.kind ≠ .leaf → ∀ c ∈ nd.ch, a c = b c) : nodeFn e dens k a nd = nodeFn e dens k b nd := by
  unfold nodeFn
  cases hk : nd.kind
  · simp only [List.map_congr_left (h (by simp [hk]))]
  · simp only [List.map_congr_left (h (by simp [hk]))]
  · rfl

theorem evalNet_length (e : Ev) (dens : List α) (net : Net α) : (evalNet e dens net).length = net.length :=
  (snocFold_spec (evalNode e dens) net).1

theorem evalNetWith_length (e : Ev) (dens : List α) (net : Net α) (i : Nat) (x : α) :
    (evalNetWith e dens net i x).length = net.length :=
  (snocFold_spec (fun vals nd => if vals.length = i then x else evalNode e dens vals nd) net).1

theorem fwdDeriv_length (net : Net α) (vals : List α) (i : Nat) : (fwdDeriv net vals i).length = net.length :=
  (snocFold_spec (fun ds nd => if ds.length = i then 1
    else linFn (fun c => vals.getD c 0) (fun c => ds.getD c 0) nd) net).1

/-- (R1) every entry of the value table is its node applied to the table -/
theorem evalNet_rec (e : Ev) (dens : List α) (net : Net α) (hw : WellOrdered net) (k : Nat) (hk : k < net.length) :
    (evalNet e dens net).getD k 0 = nodeFn e dens k (fun c => (evalNet e dens net).getD c 0) net[k] := by
  have h := (snocFold_spec (evalNode e dens) net).2 k hk
  have hn : net[k]? = some net[k] := by simp [hk]
  rw [List.getD_eq_getElem?_getD]
  unfold evalNet
  rw [h]
  simp only [Option.getD_some]
  exact evalNode_take e dens _ k (by rw [(snocFold_spec (evalNode e dens) net).1]; omega) net[k] (hw k net[k] hn)

/-- (R2) the same for the table with node `i` forced -/
theorem evalNetWith_rec (e : Ev) (dens : List α) (net : Net α) (hw : WellOrdered net) (i : Nat) (x : α) (k : Nat)
    (hk : k < net.length) :
    (evalNetWith e dens net i x).getD k 0
      = if k = i then x else nodeFn e dens k (fun c => (evalNetWith e dens net i x).getD c 0) net[k] := by
  have hs := snocFold_spec (fun vals nd => if vals.length = i then x else evalNode e dens vals nd) net
  have h := hs.2 k hk
  have hn : net[k]? = some net[k] := by simp [hk]
  rw [List.getD_eq_getElem?_getD]
  unfold evalNetWith
  rw [h]
  simp only [Option.getD_some]
  have hl : (List.take k (net.foldl (fun vals nd => vals ++ [if vals.length = i then x else evalNode e dens vals nd]) [])).length = k := by
    rw [List.length_take, hs.1]; omega
  rw [hl]
  split
  · rfl
  · exact evalNode_take e dens _ k (by rw [hs.1]; omega) net[k] (hw k net[k] hn)

/-- (R3) the forward derivative table -/
theorem fwdDeriv_rec (net : Net α) (vals : List α) (hw : WellOrdered net) (i : Nat) (k : Nat) (hk : k < net.length) :
    (fwdDeriv net vals i).getD k 0
      = if k = i then 1 else linFn (fun c => vals.getD c 0) (fun c => (fwdDeriv net vals i).getD c 0) net[k] := by
  have hs := snocFold_spec (fun ds nd => if ds.length = i then (1:α)
    else linFn (fun c => vals.getD c 0) (fun c => ds.getD c 0) nd) net
  have h := hs.2 k hk
  have hn : net[k]? = some net[k] := by simp [hk]
  rw [List.getD_eq_getElem?_getD]
  unfold fwdDeriv
  rw [h]
  simp only [Option.getD_some]
  have hl : (List.take k (net.foldl (fun ds nd => ds ++ [if ds.length = i then (1:α)
      else linFn (fun c => vals.getD c 0) (fun c => ds.getD c 0) nd]) [])).length = k := by
    rw [List.length_take, hs.1]; omega
  rw [hl]
  split
  · rfl
  · exact linFn_congr _ _ _ net[k] (fun c hc => getD_take_lt _ (hw k net[k] hn c hc))

/-! ### nodes that do not reach `i` neither move nor have a derivative -/

theorem reach_le (net : Net α) (hw : WellOrdered net) {j i : Nat} (h : Reach net j i) : i ≤ j := by
  induction h with
  | refl j => exact Nat.le_refl j
  | step x hx _ hc _ ih => have := hw _ x hx _ hc; omega

theorem not_reach_indep (e : Ev) (dens : List α) (net : Net α) (hw : WellOrdered net) (i : Nat) :
    ∀ j, j < net.length → ¬ Reach net j i →
      (∀ x, (evalNetWith e dens net i x).getD j 0 = (evalNet e dens net).getD j 0) ∧
      (fwdDeriv net (evalNet e dens net) i).getD j 0 = 0 := by
  intro j
  induction j using Nat.strong_induction_on with
  | _ j ih =>
    intro hj hnr
    have hn : net[j]? = some net[j] := by simp [hj]
    have hji : j ≠ i := fun h => hnr (h ▸ Reach.refl j)
    have hch : ∀ c ∈ (net[j]).ch, c < j := hw j net[j] hn
    have hsub : (net[j]).kind ≠ .leaf → ∀ c ∈ (net[j]).ch,
        (∀ x, (evalNetWith e dens net i x).getD c 0 = (evalNet e dens net).getD c 0) ∧
        (fwdDeriv net (evalNet e dens net) i).getD c 0 = 0 := by
      intro hk c hc
      exact ih c (hch c hc) (by have := hch c hc; omega) (fun hr => hnr (Reach.step net[j] hn hk hc hr))
    refine ⟨?_, ?_⟩
    · intro x
      rw [evalNetWith_rec e dens net hw i x j hj, if_neg hji, evalNet_rec e dens net hw j hj]
      exact nodeFn_congr e dens j _ _ net[j] (fun hk c hc => (hsub hk c hc).1 x)
    · rw [fwdDeriv_rec net _ hw i j hj, if_neg hji]
      exact linFn_zero _ _ net[j] (fun hk c hc => (hsub hk c hc).2)

/-- forcing a node to its own value changes nothing -/
theorem evalNetWith_self (e : Ev) (dens : List α) (net : Net α) (hw : WellOrdered net) (i : Nat) :
    ∀ k, k < net.length →
      (evalNetWith e dens net i ((evalNet e dens net).getD i 0)).getD k 0 = (evalNet e dens net).getD k 0 := by
  intro k
  induction k using Nat.strong_induction_on with
  | _ k ih =>
    intro hk
    have hn : net[k]? = some net[k] := by simp [hk]
    rw [evalNetWith_rec e dens net hw i _ k hk]
    split
    · next h => rw [h]
    · rw [evalNet_rec e dens net hw k hk]
      exact nodeFn_congr e dens k _ _ net[k]
        (fun _ c hc => ih c (hw k net[k] hn c hc) (by have := hw k net[k] hn c hc; omega))

/-! ### bottom-up: every node below the root is affine in the forced value -/

theorem override_affine (e : Ev) (dens : List α) (net : Net α) (hw : WellOrdered net) (root i : Nat)
    (hd : DecompAt net root i) (x : α) :
    ∀ j, j < net.length → Reach net root j →
      (evalNetWith e dens net i x).getD j 0
        = (evalNetWith e dens net i 0).getD j 0 + (fwdDeriv net (evalNet e dens net) i).getD j 0 * x := by
  intro j
  induction j using Nat.strong_induction_on with
  | _ j ih =>
    intro hj hr
    have hn : net[j]? = some net[j] := by simp [hj]
    have hch : ∀ c ∈ (net[j]).ch, c < j := hw j net[j] hn
    rw [evalNetWith_rec e dens net hw i x j hj, evalNetWith_rec e dens net hw i 0 j hj,
      fwdDeriv_rec net _ hw i j hj]
    by_cases hji : j = i
    · simp [hji]
    · simp only [if_neg hji]
      have hsub : (net[j]).kind ≠ .leaf → ∀ c ∈ (net[j]).ch, (evalNetWith e dens net i x).getD c 0
          = (evalNetWith e dens net i 0).getD c 0 + (fwdDeriv net (evalNet e dens net) i).getD c 0 * x := by
        intro hk c hc
        exact ih c (hch c hc) (by have := hch c hc; omega) (hr.child net[j] hn hk hc)
      unfold nodeFn linFn
      cases hk : (net[j]).kind
      · exact wsum_affine _ _ _ x (net[j]).ws (net[j]).ch (hsub (by simp [hk]))
      · simp only
        apply lprod_affine _ _ (fun c => (evalNet e dens net).getD c 0) _ x (net[j]).ch (hsub (by simp [hk]))
        refine List.Pairwise.imp_of_mem ?_ (hd j net[j] hr hn hk)
        intro c c' hc hc' hnot
        have hlt : ∀ c ∈ (net[j]).ch, c < net.length := fun c hc => by have := hch c hc; omega
        by_cases h1 : Reach net c i
        · have h2 : ¬ Reach net c' i := fun h2 => hnot ⟨h1, h2⟩
          have := not_reach_indep e dens net hw i c' (hlt c' hc') h2
          exact Or.inr ⟨this.2, this.1 0⟩
        · have := not_reach_indep e dens net hw i c (hlt c hc) h1
          exact Or.inl ⟨this.2, this.1 0⟩
      · simp

/-! ### the reverse sweep -/

open Finset in
theorem sum_range_bump (f d : Nat → α) (m c : Nat) (hc : c < m) (b : α) :
    ∑ j ∈ range m, (if j = c then f c + b else f j) * d j = ∑ j ∈ range m, f j * d j + b * d c := by
  have h : ∀ j, (if j = c then f c + b else f j) * d j = f j * d j + (if j = c then b * d j else 0) := by
    intro j
    split
    · next h => subst h; ring
    · simp
  simp only [h, sum_add_distrib]
  rw [sum_ite_eq' (range m) c (fun j => b * d j)]
  simp [hc]

theorem getD_set_bump (G : List α) (c : Nat) (hc : c < G.length) (v : α) (j : Nat) :
    (G.set c v).getD j 0 = if j = c then v else G.getD j 0 := by
  simp only [List.getD_eq_getElem?_getD, List.getElem?_set]
  by_cases h : c = j
  · subst h; simp [hc]
  · simp [h, Ne.symm h, eq_comm]

open Finset in
/-- scattering `g·a` onto the entries listed in `L` (all below `m`) -/
theorem scatter_spec (d : Nat → α) (m : Nat) (g : α) : ∀ (L : List (Nat × α)) (G : List α), m ≤ G.length →
    (∀ p ∈ L, p.1 < m) →
    (L.foldl (fun gr p => gr.set p.1 (gr.getD p.1 0 + g * p.2)) G).length = G.length ∧
    (∀ j, m ≤ j → (L.foldl (fun gr p => gr.set p.1 (gr.getD p.1 0 + g * p.2)) G).getD j 0 = G.getD j 0) ∧
    ∑ j ∈ range m, (L.foldl (fun gr p => gr.set p.1 (gr.getD p.1 0 + g * p.2)) G).getD j 0 * d j
      = ∑ j ∈ range m, G.getD j 0 * d j + g * (L.map (fun p => p.2 * d p.1)).sum := by
  intro L
  induction L with
  | nil => intro G _ _; simp
  | cons p L ih =>
    intro G hm hL
    have hp : p.1 < m := hL p List.mem_cons_self
    have hL' : ∀ q ∈ L, q.1 < m := fun q hq => hL q (List.mem_cons_of_mem _ hq)
    simp only [List.foldl_cons]
    obtain ⟨h1, h2, h3⟩ := ih (G.set p.1 (G.getD p.1 0 + g * p.2)) (by simpa using hm) hL'
    refine ⟨by rw [h1]; simp, ?_, ?_⟩
    · intro j hj
      rw [h2 j hj, getD_set_bump G p.1 (by omega), if_neg (by omega)]
    · rw [h3]
      have : ∀ j, (G.set p.1 (G.getD p.1 0 + g * p.2)).getD j 0
          = if j = p.1 then G.getD p.1 0 + g * p.2 else G.getD j 0 := fun j => getD_set_bump G p.1 (by omega) _ j
      simp only [this]
      rw [sum_range_bump (fun j => G.getD j 0) d m p.1 hp]
      simp only [List.map_cons, List.sum_cons]
      ring

open Finset in
/-- one step of the sweep at node `m`: entries `≥ m` are untouched, and the functional `Σ_{j<m} G[j]·d_j` grows by
`G[m]` times the linearised node `m` applied to `d` -/
theorem bstep_spec (net : Net α) (vals : List α) (hw : WellOrdered net) (d : Nat → α) (m : Nat) (G : List α)
    (hm : m < net.length) (hG : G.length = net.length) :
    (bstep net vals G m).length = net.length ∧
    (∀ j, m ≤ j → (bstep net vals G m).getD j 0 = G.getD j 0) ∧
    ∑ j ∈ range m, (bstep net vals G m).getD j 0 * d j
      = ∑ j ∈ range m, G.getD j 0 * d j + G.getD m 0 * linFn (fun c => vals.getD c 0) d net[m] := by
  have hn : net[m]? = some net[m] := by simp [hm]
  have hch : ∀ c ∈ (net[m]).ch, c < m := hw m net[m] hn
  unfold bstep
  simp only [hn]
  unfold sendDown linFn
  cases hk : (net[m]).kind
  · -- sum
    simp only
    have hL : ∀ p ∈ (net[m]).ch.zip (net[m]).ws, p.1 < m := fun p hp => hch p.1 (List.of_mem_zip hp).1
    obtain ⟨h1, h2, h3⟩ := scatter_spec d m (G.getD m 0) ((net[m]).ch.zip (net[m]).ws) G (by omega) hL
    refine ⟨by rw [h1, hG], h2, ?_⟩
    rw [h3, zip_sum_eq_wsum]
  · -- product
    simp only
    have hfold : ∀ (L : List (Nat × Nat)) (G0 : List α),
        L.foldl (fun gr cj => gr.set cj.1 (gr.getD cj.1 0 + G.getD m 0 *
          lprod (((net[m]).ch.eraseIdx cj.2).map (fun c => vals.getD c 0)))) G0
        = (L.map (fun cj => (cj.1, lprod (((net[m]).ch.eraseIdx cj.2).map (fun c => vals.getD c 0))))).foldl
            (fun gr p => gr.set p.1 (gr.getD p.1 0 + G.getD m 0 * p.2)) G0 := by
      intro L G0; rw [List.foldl_map]
    rw [hfold]
    have hL : ∀ p ∈ ((net[m]).ch.zipIdx.map
        (fun cj => (cj.1, lprod (((net[m]).ch.eraseIdx cj.2).map (fun c => vals.getD c 0))))), p.1 < m := by
      intro p hp
      simp only [List.mem_map] at hp
      obtain ⟨cj, hcj, rfl⟩ := hp
      have h3 := (List.mem_zipIdx hcj).2.2
      exact hch cj.1 (h3 ▸ List.getElem_mem _)
    obtain ⟨h1, h2, h3⟩ := scatter_spec d m (G.getD m 0) _ G (by omega) hL
    refine ⟨by rw [h1, hG], h2, ?_⟩
    rw [h3, List.map_map]
    have := zipIdx_sum_eq_prodLin (fun c => vals.getD c 0) d (net[m]).ch []
    simp only [List.length_nil, List.nil_append, List.map_nil, lprod, one_mul] at this
    rw [← this]
    rfl
  · -- leaf
    simp [hG]

open Finset in
/-- the sweep from node `k-1` down to node `0` -/
theorem sweep_spec (net : Net α) (vals : List α) (hw : WellOrdered net) (i : Nat) (hi : i < net.length)
    (d : Nat → α) (hd0 : ∀ j, j < i → d j = 0) (hd1 : d i = 1)
    (hdr : ∀ m (hm : m < net.length), i < m → d m = linFn (fun c => vals.getD c 0) d net[m]) :
    ∀ (k : Nat) (G : List α), k ≤ net.length → G.length = net.length →
      ((List.range k).reverse.foldl (bstep net vals) G).length = net.length ∧
      (∀ j, k ≤ j → ((List.range k).reverse.foldl (bstep net vals) G).getD j 0 = G.getD j 0) ∧
      (i < k → ((List.range k).reverse.foldl (bstep net vals) G).getD i 0 = ∑ j ∈ range k, G.getD j 0 * d j) := by
  intro k
  induction k with
  | zero => intro G _ hG; simp [hG]
  | succ k ih =>
    intro G hk hG
    rw [List.range_succ, List.reverse_append, List.reverse_singleton, List.singleton_append, List.foldl_cons]
    obtain ⟨s1, s2, s3⟩ := bstep_spec net vals hw d k G (by omega) hG
    obtain ⟨r1, r2, r3⟩ := ih (bstep net vals G k) (by omega) s1
    refine ⟨r1, ?_, ?_⟩
    · intro j hj; rw [r2 j (by omega), s2 j (by omega)]
    · intro hik
      rw [sum_range_succ]
      rcases Nat.lt_or_ge i k with h | h
      · rw [r3 h, s3, hdr k (by omega) h]
      · have hik' : i = k := by omega
        subst hik'
        rw [r2 i (Nat.le_refl _), s2 i (Nat.le_refl _), hd1, mul_one]
        have : ∑ j ∈ range i, G.getD j 0 * d j = 0 := by
          apply sum_eq_zero
          intro j hj
          rw [hd0 j (by simpa using hj), mul_zero]
        rw [this, zero_add]

open Finset in
/-- **reverse = forward**: the number the backward pass leaves at node `i` is the forward-mode derivative of the
root with respect to node `i`. Any value table, no decomposability: both sides are the same sum over paths. -/
theorem backward_eq_fwd (net : Net α) (vals : List α) (hw : WellOrdered net) (root i : Nat)
    (hr : root < net.length) (hi : i < net.length) :
    (backward net vals root).getD i 0 = (fwdDeriv net vals i).getD root 0 := by
  have hd0 : ∀ j, j < i → (fwdDeriv net vals i).getD j 0 = 0 := by
    intro j
    induction j using Nat.strong_induction_on with
    | _ j ih =>
      intro hj
      have hjn : j < net.length := by omega
      have hn : net[j]? = some net[j] := by simp [hjn]
      rw [fwdDeriv_rec net vals hw i j hjn, if_neg (by omega)]
      exact linFn_zero _ _ net[j] (fun _ c hc => ih c (hw j net[j] hn c hc) (by have := hw j net[j] hn c hc; omega))
  have hd1 : (fwdDeriv net vals i).getD i 0 = 1 := by rw [fwdDeriv_rec net vals hw i i hi, if_pos rfl]
  have hdr : ∀ m (hm : m < net.length), i < m → (fwdDeriv net vals i).getD m 0
      = linFn (fun c => vals.getD c 0) (fun c => (fwdDeriv net vals i).getD c 0) net[m] := by
    intro m hm him
    rw [fwdDeriv_rec net vals hw i m hm, if_neg (by omega)]
  have hG : ((List.replicate net.length (0:α)).set root 1).length = net.length := by simp
  have := (sweep_spec net vals hw i hi (fun c => (fwdDeriv net vals i).getD c 0) hd0 hd1 hdr net.length _
    (Nat.le_refl _) hG).2.2 hi
  rw [backward_eq_foldl, this]
  have hg : ∀ j, ((List.replicate net.length (0:α)).set root 1).getD j 0 = if j = root then 1 else 0 := by
    intro j
    rw [getD_set_bump _ root (by simpa using hr)]
    split
    · rfl
    · simp only [List.getD_eq_getElem?_getD, List.getElem?_replicate]
      split <;> rfl
  simp only [hg, ite_mul, one_mul, zero_mul]
  rw [sum_ite_eq' (range net.length) root]
  simp [hr]

/-! ### one path from the root: the derivative is `gradAlong` in the unfolding -/

theorem fwd_eq_gradAlong (e : Ev) (dens : List α) (net : Net α) (hw : WellOrdered net) (i : Nat) (hi : i < net.length) :
    ∀ (p : List Nat) (r : Nat), r < net.length → nodeAt net r p = some i →
      (∀ q, nodeAt net r q = some i → q = p) →
      (fwdDeriv net (evalNet e dens net) i).getD r 0 = Circ.gradAlong e p (toTree net dens (r+1) r) := by
  intro p
  induction p with
  | nil =>
    intro r hr h _
    simp only [nodeAt, Option.some.injEq] at h
    subst h
    rw [fwdDeriv_rec net _ hw r r hr, if_pos rfl]
    simp [Circ.gradAlong]
  | cons j p ih =>
    intro r hr h huniq
    have hn : net[r]? = some net[r] := by simp [hr]
    have h' := h
    simp only [nodeAt, hn] at h'
    by_cases hkl : (net[r]).kind = .leaf
    · simp [hkl] at h'
    simp only [if_neg hkl] at h'
    cases hc : (net[r]).ch[j]? with
    | none => simp [hc] at h'
    | some c =>
      simp only [hc] at h'
      have hcm : c ∈ (net[r]).ch := List.mem_of_getElem? hc
      have hch : ∀ c ∈ (net[r]).ch, c < r := hw r net[r] hn
      have hcr : c < r := hch c hcm
      have hic : i ≤ c := reach_le net hw (nodeAt_reach net p c i h')
      have hri : r ≠ i := by omega
      have huniq' : ∀ q, nodeAt net c q = some i → q = p := by
        intro q hq
        have : nodeAt net r (j :: q) = some i := by simp only [nodeAt, hn, if_neg hkl, hc, hq]
        exact (List.cons.inj (huniq _ this)).2
      have ihc := ih c (by omega) h' huniq'
      have hz : ∀ k c', k ≠ j → (net[r]).ch[k]? = some c' → (fwdDeriv net (evalNet e dens net) i).getD c' 0 = 0 := by
        intro k c' hkj hk
        have hc'm : c' ∈ (net[r]).ch := List.mem_of_getElem? hk
        refine (not_reach_indep e dens net hw i c' (by have := hch c' hc'm; omega) ?_).2
        intro hreach
        obtain ⟨q, hq⟩ := reach_nodeAt net hreach
        have : nodeAt net r (k :: q) = some i := by simp only [nodeAt, hn, if_neg hkl, hk, hq]
        exact hkj (List.cons.inj (huniq _ this)).1
      rw [fwdDeriv_rec net _ hw i r hr, if_neg hri]
      rw [toTree]
      simp only [hn]
      have hget : ((net[r]).ch.map (toTree net dens r))[j]? = some (toTree net dens r c) := by
        rw [List.getElem?_map, hc]; rfl
      have hfuel : toTree net dens r c = toTree net dens (c+1) c := toTree_fuel net dens hw c r hcr
      unfold linFn
      cases hk : (net[r]).kind
      · simp only [Circ.gradAlong, hget]
        rw [wsum_single _ (net[r]).ch (net[r]).ws j c hc hz, ihc, hfuel]
      · simp only [Circ.gradAlong, hget]
        rw [prodLin_single _ _ (net[r]).ch j c hc hz, ihc, hfuel]
        congr 1
        rw [List.eraseIdx_map, List.map_map]
        congr 1
        apply List.map_congr_left
        intro c' hc'
        have hc'm : c' ∈ (net[r]).ch := List.mem_of_mem_eraseIdx hc'
        have hc'r : c' < r := hch c' hc'm
        simp only [Function.comp]
        rw [evalNet_refines e dens net hw c' (by omega), toTree_fuel net dens hw c' r hc'r]
      · exact absurd hk hkl

/-- on a node with one path from the root, forcing its value in the table is plugging a constant into the unfolding:
`evalNetWith` is the table form of `Circ.plug` -/
theorem plug_toTree_eq_override (e : Ev) (dens : List α) (net : Net α) (hw : WellOrdered net) (i : Nat)
    (hi : i < net.length) (x : α) :
    ∀ (p : List Nat) (r : Nat), r < net.length → nodeAt net r p = some i →
      (∀ q, nodeAt net r q = some i → q = p) →
      Circ.eval e (Circ.plug x p (toTree net dens (r+1) r)) = (evalNetWith e dens net i x).getD r 0 := by
  intro p
  induction p with
  | nil =>
    intro r hr h _
    simp only [nodeAt, Option.some.injEq] at h
    subst h
    rw [evalNetWith_rec e dens net hw r x r hr, if_pos rfl]
    simp [Circ.plug, Circ.eval]
  | cons j p ih =>
    intro r hr h huniq
    have hn : net[r]? = some net[r] := by simp [hr]
    have h' := h
    simp only [nodeAt, hn] at h'
    by_cases hkl : (net[r]).kind = .leaf
    · simp [hkl] at h'
    simp only [if_neg hkl] at h'
    cases hc : (net[r]).ch[j]? with
    | none => simp [hc] at h'
    | some c =>
      simp only [hc] at h'
      have hcm : c ∈ (net[r]).ch := List.mem_of_getElem? hc
      have hch : ∀ c ∈ (net[r]).ch, c < r := hw r net[r] hn
      have hcr : c < r := hch c hcm
      have hic : i ≤ c := reach_le net hw (nodeAt_reach net p c i h')
      have hri : r ≠ i := by omega
      have huniq' : ∀ q, nodeAt net c q = some i → q = p := by
        intro q hq
        have : nodeAt net r (j :: q) = some i := by simp only [nodeAt, hn, if_neg hkl, hc, hq]
        exact (List.cons.inj (huniq _ this)).2
      have ihc := ih c (by omega) h' huniq'
      have hmaps : (((net[r]).ch.map (toTree net dens r)).modify j (Circ.plug x p)).map (Circ.eval e)
          = (net[r]).ch.map (fun c => (evalNetWith e dens net i x).getD c 0) := by
        apply List.ext_getElem?
        intro k
        rw [List.getElem?_map, List.getElem?_modify, List.getElem?_map, List.getElem?_map]
        cases hk : (net[r]).ch[k]? with
        | none => rfl
        | some c' =>
          have hc'm : c' ∈ (net[r]).ch := List.mem_of_getElem? hk
          have hc'r : c' < r := hch c' hc'm
          by_cases hjk : j = k
          · subst hjk
            rw [hc] at hk
            simp only [Option.some.injEq] at hk
            subst hk
            simp only [if_true, Option.map_some, Option.map_eq_map, Option.some.injEq]
            rw [toTree_fuel net dens hw c r hcr, ihc]
          · simp only [if_neg hjk, Option.map_some, Option.map_eq_map, Option.some.injEq]
            have hnr : ¬ Reach net c' i := by
              intro hreach
              obtain ⟨q, hq⟩ := reach_nodeAt net hreach
              have : nodeAt net r (k :: q) = some i := by simp only [nodeAt, hn, if_neg hkl, hk, hq]
              exact hjk (List.cons.inj (huniq _ this)).1.symm
            rw [(not_reach_indep e dens net hw i c' (by omega) hnr).1 x,
              evalNet_refines e dens net hw c' (by omega), toTree_fuel net dens hw c' r hc'r]
      rw [evalNetWith_rec e dens net hw i x r hr, if_neg hri]
      rw [toTree]
      simp only [hn]
      unfold nodeFn
      cases hk : (net[r]).kind
      · simp only [Circ.plug, Circ.eval, hmaps]
      · simp only [Circ.plug, Circ.eval, hmaps]
      · exact absurd hk hkl

/-! ### where `DecompAt` comes from -/

omit [CommSemiring α] in
/-- a node with one path from the root is never reached twice below a product -/
theorem decompAt_of_unique_path (net : Net α) (root i : Nat)
    (huniq : ∀ q q', nodeAt net root q = some i → nodeAt net root q' = some i → q = q') : DecompAt net root i := by
  intro m x hreach hx hk
  rw [List.pairwise_iff_getElem]
  intro a b ha hb hab hboth
  obtain ⟨q0, hq0⟩ := reach_nodeAt net hreach
  obtain ⟨q1, hq1⟩ := reach_nodeAt net hboth.1
  obtain ⟨q2, hq2⟩ := reach_nodeAt net hboth.2
  have hkl : x.kind ≠ .leaf := by simp [hk]
  have h1 : nodeAt net root (q0 ++ a :: q1) = some i := by
    rw [nodeAt_append net q0 _ root m hq0]
    simp only [nodeAt, hx, if_neg hkl, List.getElem?_eq_getElem ha, hq1]
  have h2 : nodeAt net root (q0 ++ b :: q2) = some i := by
    rw [nodeAt_append net q0 _ root m hq0]
    simp only [nodeAt, hx, if_neg hkl, List.getElem?_eq_getElem hb, hq2]
  have := List.append_cancel_left (huniq _ _ h1 h2)
  have := (List.cons.inj this).1
  omega

/-- scopes shrink along edges of a table whose stored nodes satisfy the local validity conditions -/
theorem scope_mono (dom : Nat → Nat) (net : Net α) (dens : List α)
    (hok : ∀ i (x : NNode α), net[i]? = some x → NodeOK dom net dens i x) {j i : Nat} (h : Reach net j i) :
    ∀ v ∈ scopeOf net i, v ∈ scopeOf net j := by
  induction h with
  | refl j => exact fun v hv => hv
  | @step j c i x hx hk hc _ ih =>
    intro v hv
    have hvc := ih v hv
    have hx' := hok j x hx
    unfold NodeOK at hx'
    have hsj : scopeOf net j = x.scope := by simp [scopeOf, hx]
    rw [hsj]
    cases hkd : x.kind
    · rw [hkd] at hx'
      exact (hx'.2.2 c hc v).1 hvc
    · rw [hkd] at hx'
      refine (hx'.2 v).1 ?_
      rw [List.mem_flatten]
      exact ⟨scopeOf net c, List.mem_map.2 ⟨c, hc, rfl⟩, hvc⟩
    · exact absurd hkd hk

/-- **decomposable tables**: the validity conditions `check_spn` enforces (`NodeOK`) give `DecompAt` for every node
with a non-empty scope -/
theorem decompAt_of_nodeOK (dom : Nat → Nat) (net : Net α) (dens : List α)
    (hok : ∀ i (x : NNode α), net[i]? = some x → NodeOK dom net dens i x) (root i : Nat)
    (hne : scopeOf net i ≠ []) : DecompAt net root i := by
  intro m x _ hx hk
  have hx' := hok m x hx
  unfold NodeOK at hx'
  rw [hk] at hx'
  have hpw := (List.nodup_flatten.1 hx'.1).2
  rw [List.pairwise_map] at hpw
  refine hpw.imp ?_
  intro c c' hdis hboth
  obtain ⟨v, hv⟩ := List.exists_mem_of_ne_nil _ hne
  exact hdis (scope_mono dom net dens hok hboth.1 v hv) (scope_mono dom net dens hok hboth.2 v hv)

end semiring
end Deeprob.Bwd
