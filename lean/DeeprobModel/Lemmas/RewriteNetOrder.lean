import DeeprobModel.Lemmas.RewriteNetFix
set_option linter.unusedSectionVars false
set_option linter.unusedSimpArgs false
set_option linter.unusedVariables false
/-
Structural theory of the net-level `prune`, part 6: independence of the iteration order.

The code walks `reversed(topological_order(root))`; the proofs of `Lemmas/RewriteNetLemmas.lean` walk the table in
storage order. Both are children-first orders and one step reads `nodes_map` / node objects only at descendants
(`pruneStep_congr`), so the two passes agree on every node the given order lists (`prunePassOrd_agree`); the export
reads the table only at nodes reachable from the new root (`exportFrom_congr`), hence `pruneNetKahn = pruneNetWith`
(`pruneNetKahn_eq`) whenever Kahn's order lists the reachable nodes once, parents before children.
-/
namespace Deeprob
open Net
variable {α : Type} [CommSemiring α]

/-- a duplicate-free list of table indices in which every node comes after all its children -/
structure ChildrenFirst (net : Net α) (ord : List Nat) : Prop where
  nodup : ord.Nodup
  lt : ∀ i ∈ ord, i < net.length
  closed : Closed net ord

theorem childrenFirst_snoc (net : Net α) (pre : List Nat) (i : Nat) (h : ChildrenFirst net (pre ++ [i])) :
    ChildrenFirst net pre ∧ i ∉ pre ∧ i < net.length ∧ ∀ c ∈ chOf net i, c ∈ pre := by
  obtain ⟨h1, h2, h3⟩ := h
  rw [List.nodup_append] at h1
  refine ⟨⟨h1.1, fun j hj => h2 j (List.mem_append_left _ hj), ?_⟩, ?_, h2 i (by simp), ?_⟩
  · intro p hp c hc
    have := h3 p (by simp; omega) c (by rw [List.getElem_append_left hp]; exact hc)
    rwa [List.take_append_of_le_length (by omega)] at this
  · intro hi; exact h1.2.2 i hi i (by simp) rfl
  · intro c hc
    have := h3 pre.length (by simp) c (by simpa using hc)
    rwa [List.take_append_of_le_length (Nat.le_refl _), List.take_length] at this

theorem prunePassOrd_snoc (b : Bool) (net : Net α) (pre : List Nat) (i : Nat) :
    prunePassOrd b net (pre ++ [i]) =
      (match (prunePassOrd b net pre).1[i]? with
       | none => prunePassOrd b net pre
       | some x =>
         ((prunePassOrd b net pre).1.set i (pruneStep b (prunePassOrd b net pre).1 (prunePassOrd b net pre).2 i x).1,
          (prunePassOrd b net pre).2.set i (pruneStep b (prunePassOrd b net pre).1 (prunePassOrd b net pre).2 i x).2)) := by
  unfold prunePassOrd
  rw [List.foldl_append]
  rfl

theorem getD_set_ne (l : List Nat) (i j v : Nat) (h : i ≠ j) : (l.set i v).getD j j = l.getD j j := by
  rw [List.getD_eq_getElem?_getD, List.getD_eq_getElem?_getD, List.getElem?_set_ne h]

theorem getD_set_self (l : List Nat) (i v : Nat) (h : i < l.length) : (l.set i v).getD i i = v := by
  rw [List.getD_eq_getElem?_getD, List.getElem?_set_self h]; rfl

/-- **the pass in any children-first order agrees with the pass in storage order** on the nodes the order lists,
and leaves every other node untouched -/
theorem prunePassOrd_agree (b : Bool) (net : Net α) (hw : WellOrdered net) (ord : List Nat)
    (hcf : ChildrenFirst net ord) :
    (prunePassOrd b net ord).1.length = net.length ∧ (prunePassOrd b net ord).2.length = net.length ∧
    (∀ i ∈ ord, (prunePassOrd b net ord).1[i]? = (prunePass b net).1[i]? ∧
        (prunePassOrd b net ord).2.getD i i = (prunePass b net).2.getD i i) ∧
    (∀ i, i ∉ ord → (prunePassOrd b net ord).1[i]? = net[i]? ∧ (prunePassOrd b net ord).2.getD i i = i) := by
  have S := prunePass_sol b net hw
  generalize (prunePass b net).1 = t at S
  generalize (prunePass b net).2 = rep at S
  induction ord using List.reverseRecOn with
  | nil =>
    refine ⟨rfl, by simp [prunePassOrd], by simp, ?_⟩
    intro i _
    refine ⟨rfl, ?_⟩
    simp only [prunePassOrd, List.foldl_nil]
    rw [List.getD_eq_getElem?_getD]
    rcases Nat.lt_or_ge i net.length with h | h
    · rw [List.getElem?_range h]; rfl
    · rw [List.getElem?_eq_none (by simpa using h)]; rfl
  | append_singleton pre i ih =>
    obtain ⟨hpre, hni, hi, hchi⟩ := childrenFirst_snoc net pre i hcf
    obtain ⟨l1, l2, ag, un⟩ := ih hpre
    rw [prunePassOrd_snoc]
    generalize prunePassOrd b net pre = st at l1 l2 ag un
    have hx : net[i]? = some net[i] := List.getElem?_eq_getElem hi
    generalize net[i] = x at hx
    have hsx : st.1[i]? = some x := by rw [(un i hni).1, hx]
    rw [hsx]
    simp only
    -- the step reads what the storage-order pass reads
    have hclP : ∀ a, a ∈ pre → ∀ c ∈ chOf net a, c ∈ pre := closed_mem net pre hpre.closed
    have hcl := sol_closed b net t rep hw S (fun a => a ∈ pre) hclP
    have hxc : ∀ c ∈ x.ch, c ∈ pre := by intro c hc; exact hchi c (by rw [chOf_some net i x hx]; exact hc)
    have g1 : ∀ c ∈ x.ch, st.2.getD c c = rep.getD c c := fun c hc => (ag c (hxc c hc)).2
    have hstep : pruneStep b st.1 st.2 i x = pruneStep b t rep i x := by
      apply pruneStep_congr b _ _ _ _ i x g1
      intro c' hc'
      simp only [List.mem_map] at hc'
      obtain ⟨c, hc, rfl⟩ := hc'
      rw [g1 c hc]
      have hcp := hxc c hc
      have h1 := (hcl c (hpre.lt c hcp) hcp).1
      have e : st.1[rep.getD c c]? = t[rep.getD c c]? := (ag _ h1).1
      refine ⟨e, ?_⟩
      intro g hg
      have : chOf st.1 (rep.getD c c) = chOf t (rep.getD c c) := by unfold chOf; rw [e]
      rw [this] at hg
      exact (ag g ((hcl _ (hpre.lt _ h1) h1).2 g hg)).2
    obtain ⟨e1, e2⟩ := S.eq i x hx
    rw [hstep]
    refine ⟨by simp [l1], by simp [l2], ?_, ?_⟩
    · intro j hj
      rcases List.mem_append.1 hj with hj | hj
      · have hne : i ≠ j := fun e => hni (e ▸ hj)
        rw [List.getElem?_set_ne hne, getD_set_ne _ _ _ _ hne]
        exact ag j hj
      · simp at hj; subst hj
        rw [List.getElem?_set_self (by rw [l1]; exact hi), getD_set_self _ _ _ (by rw [l2]; exact hi)]
        exact ⟨e1.symm, e2.symm⟩
    · intro j hj
      have hne : i ≠ j := fun e => hj (by rw [e]; simp)
      rw [List.getElem?_set_ne hne, getD_set_ne _ _ _ _ hne]
      exact un j (fun h => hj (List.mem_append_left _ h))

/-! ### the export reads the table only at nodes reachable from its root -/

theorem chOf_congr (t t' : Net α) (i : Nat) (h : t[i]? = t'[i]?) : chOf t i = chOf t' i := by unfold chOf; rw [h]

theorem dfsPost_congr (t t' : Net α) (Q : Nat → Prop) (hQ : ∀ i, Q i → ∀ c ∈ chOf t i, Q c)
    (hag : ∀ i, Q i → t[i]? = t'[i]?) :
    ∀ fuel out i, Q i → dfsPost t fuel out i = dfsPost t' fuel out i := by
  intro fuel
  induction fuel with
  | zero => intro out i _; rfl
  | succ fl ih =>
    intro out i hi
    unfold dfsPost
    rw [← chOf_congr t t' i (hag i hi)]
    have fold : ∀ (cs : List Nat) (o : List Nat), (∀ c ∈ cs, Q c) →
        cs.foldl (dfsPost t fl) o = cs.foldl (dfsPost t' fl) o := by
      intro cs
      induction cs with
      | nil => intro o _; rfl
      | cons c cs ihc =>
        intro o hq
        simp only [List.foldl_cons]
        rw [ih o c (hq c List.mem_cons_self)]
        exact ihc _ (fun d hd => hq d (List.mem_cons_of_mem _ hd))
    rw [fold _ _ (hQ i hi)]

theorem bfsAux_congr_on (t t' : Net α) (Q : Nat → Prop) (hQ : ∀ i, Q i → ∀ c ∈ chOf t i, Q c)
    (hag : ∀ i, Q i → t[i]? = t'[i]?) :
    ∀ fuel q seen, (∀ a ∈ q, Q a) → (∀ a ∈ seen, Q a) →
      bfsAux t fuel q seen = bfsAux t' fuel q seen ∧ ∀ a ∈ bfsAux t fuel q seen, Q a := by
  intro fuel
  induction fuel with
  | zero => intro q seen _ hs; exact ⟨by simp [bfsAux], by simpa [bfsAux] using hs⟩
  | succ fl ih =>
    intro q seen hq hs
    match q with
    | [] => exact ⟨by simp [bfsAux], by simpa [bfsAux] using hs⟩
    | a :: qs =>
      have ha := hq a List.mem_cons_self
      simp only [bfsAux]
      rw [← chOf_congr t t' a (hag a ha)]
      have hnew : ∀ (cs acc : List Nat), (∀ c ∈ cs, Q c) → (∀ c ∈ acc, Q c) →
          ∀ c ∈ cs.foldl (fun acc c => if (seen ++ acc).contains c then acc else acc ++ [c]) acc, Q c := by
        intro cs
        induction cs with
        | nil => intro acc _ h; exact h
        | cons d cs ihc =>
          intro acc hcs hacc
          simp only [List.foldl_cons]
          apply ihc _ (fun e he => hcs e (List.mem_cons_of_mem _ he))
          intro c hc
          split at hc
          · exact hacc c hc
          · rcases List.mem_append.1 hc with h | h
            · exact hacc c h
            · simp at h; rw [h]; exact hcs d List.mem_cons_self
      have hn := hnew (chOf t a) [] (hQ a ha) (by simp)
      apply ih
      · intro b hb
        rcases List.mem_append.1 hb with h | h
        · exact hq b (List.mem_cons_of_mem _ h)
        · exact hn b h
      · intro b hb
        rcases List.mem_append.1 hb with h | h
        · exact hs b h
        · exact hn b h

theorem kahnVisit_snd_sub (ch : List Nat) : ∀ (st : List Nat × List Nat),
    ∀ v ∈ (ch.foldl (fun (st : List Nat × List Nat) c =>
      let k := st.1.getD c 0
      (st.1.set c (k - 1), if k == 1 then st.2 ++ [c] else st.2)) st).2, v ∈ st.2 ∨ v ∈ ch := by
  induction ch with
  | nil => intro st v hv; exact Or.inl hv
  | cons c cs ih =>
    intro st v hv
    simp only [List.foldl_cons] at hv
    rcases ih _ v hv with h | h
    · simp only at h
      split at h
      · rcases List.mem_append.1 h with h | h
        · exact Or.inl h
        · simp at h; right; rw [h]; simp
      · exact Or.inl h
    · right; exact List.mem_cons_of_mem _ h

theorem kahnLoop_congr (t t' : Net α) (Q : Nat → Prop) (hQ : ∀ i, Q i → ∀ c ∈ chOf t i, Q c)
    (hag : ∀ i, Q i → t[i]? = t'[i]?) :
    ∀ fuel q cnt ord, (∀ a ∈ q, Q a) → kahnLoop t fuel q cnt ord = kahnLoop t' fuel q cnt ord := by
  intro fuel
  induction fuel with
  | zero => intro q cnt ord _; rfl
  | succ fl ih =>
    intro q cnt ord hq
    match q with
    | [] => rfl
    | a :: qs =>
      have ha := hq a List.mem_cons_self
      simp only [kahnLoop]
      rw [← chOf_congr t t' a (hag a ha)]
      apply ih
      intro b hb
      rcases List.mem_append.1 hb with h | h
      · exact hq b (List.mem_cons_of_mem _ h)
      · rcases kahnVisit_snd_sub (chOf t a) (cnt, []) b h with h | h
        · simp at h
        · exact hQ a ha b h

theorem kahn_congr (t t' : Net α) (Q : Nat → Prop) (hQ : ∀ i, Q i → ∀ c ∈ chOf t i, Q c)
    (hag : ∀ i, Q i → t[i]? = t'[i]?) (hlen : t.length = t'.length) (r : Nat) (hr : Q r) :
    kahn t r = kahn t' r := by
  have hc : collect t r = collect t' r ∧ ∀ a ∈ collect t r, Q a := by
    unfold collect
    rw [← hlen]
    exact bfsAux_congr_on t t' Q hQ hag _ _ _ (by simpa using hr) (by simpa using hr)
  have hcnt : kahnCounts t r = kahnCounts t' r := by
    unfold kahnCounts
    rw [← hc.1, ← hlen]
    generalize List.replicate t.length 0 = c0
    have : ∀ (l : List Nat) (c0 : List Nat), (∀ a ∈ l, Q a) →
        l.foldl (fun cnt i => (chOf t i).foldl incr cnt) c0 = l.foldl (fun cnt i => (chOf t' i).foldl incr cnt) c0 := by
      intro l
      induction l with
      | nil => intro _ _; rfl
      | cons a l ihl =>
        intro c0 hl
        simp only [List.foldl_cons]
        rw [← chOf_congr t t' a (hag a (hl a List.mem_cons_self))]
        exact ihl _ (fun b hb => hl b (List.mem_cons_of_mem _ hb))
    exact this _ c0 hc.2
  unfold kahn
  simp only [hcnt, ← hlen]
  rw [kahnLoop_congr t t' Q hQ hag _ _ _ _ (by simpa using hr)]

/-- **locality of the export**: two tables of the same length that agree on a set of nodes closed under children
have the same export from every root in the set -/
theorem exportFrom_congr (t t' : Net α) (Q : Nat → Prop) (hQ : ∀ i, Q i → ∀ c ∈ chOf t i, Q c)
    (hag : ∀ i, Q i → t[i]? = t'[i]?) (hlen : t.length = t'.length) (r : Nat) (hr : Q r) :
    exportFrom t r = exportFrom t' r := by
  unfold exportFrom
  rw [kahn_congr t t' Q hQ hag hlen r hr, ← hlen, ← dfsPost_congr t t' Q hQ hag _ _ r hr]
  cases kahn t' r with
  | none => rfl
  | some ko =>
    simp only [Option.some.injEq, Prod.mk.injEq, and_true]
    apply List.map_congr_left
    intro i hi
    rcases dfsPost_sub t Q hQ _ _ r hr i hi with h | h
    · simp at h
    · rw [hag i h]

/-! ### the code's own order -/

/-- what the pass needs from `topological_order(root)`: the reachable nodes, each once, no node before one of its
parents (the three facts are `Net.kahn_spec` of `Lemmas/KahnLemmas.lean`) -/
def KahnOrdOK (t : Net α) (r : Nat) (ko : List Nat) : Prop :=
  ko.Nodup ∧ (∀ v, v ∈ ko ↔ v ∈ collect t r) ∧ ko.Pairwise (fun a b => a ∉ chOf t b)

theorem childrenFirst_of_kahn (net : Net α) (hw : WellOrdered net) (root : Nat) (hr : root < net.length)
    (ko : List Nat) (h : KahnOrdOK net root ko) : ChildrenFirst net ko.reverse := by
  obtain ⟨h1, h2, h3⟩ := h
  have hin := inRange_of_wellOrdered net hw
  refine ⟨List.nodup_reverse.2 h1, ?_, ?_⟩
  · intro i hi
    have := collect_lt_of_chLt net hw root hr i ((h2 i).1 (List.mem_reverse.1 hi))
    omega
  · intro p hp c hc
    have hpm : (ko.reverse)[p] ∈ collect net root := (h2 _).1 (List.mem_reverse.1 (List.getElem_mem hp))
    have hcm : c ∈ ko.reverse := List.mem_reverse.2 ((h2 c).2 (collect_closed net root hin _ c hpm hc))
    obtain ⟨q, hq, hqc⟩ := List.getElem_of_mem hcm
    have hpw : ko.reverse.Pairwise (fun a b => b ∉ chOf net a) := List.pairwise_reverse.2 h3
    rw [List.pairwise_iff_getElem] at hpw
    have hqp : q < p := by
      rcases Nat.lt_trichotomy q p with h | h | h
      · exact h
      · subst h
        have := chOf_lt net hw _ c hc
        omega
      · exact absurd (hqc ▸ hc) (hpw p q hp hq h)
    rw [List.mem_take_iff_getElem]
    exact ⟨q, by omega, hqc⟩

/-- **`prune` with the code's iteration order = `prune` in storage order** -/
theorem pruneNetKahn_eq (b : Bool) (net : Net α) (hw : WellOrdered net) (root : Nat) (hr : root < net.length)
    (ko : List Nat) (hk : kahn net root = some ko) (h : KahnOrdOK net root ko) :
    pruneNetKahn b net root = pruneNetWith b net root := by
  have hcf := childrenFirst_of_kahn net hw root hr ko h
  obtain ⟨l1, l2, ag, _⟩ := prunePassOrd_agree b net hw ko.reverse hcf
  have S := prunePass_sol b net hw
  have hcl := sol_closed b net _ _ hw S (fun a => a ∈ ko.reverse) (closed_mem net _ hcf.closed)
  have hroot : root ∈ ko.reverse := List.mem_reverse.2 ((h.2.1 root).2 (root_mem_collect net root))
  unfold pruneNetKahn pruneNetWith
  rw [hk]
  simp only
  rw [(ag root hroot).2]
  symm
  apply exportFrom_congr _ _ (fun a => a ∈ ko.reverse)
  · intro i hi c hc; exact (hcl i (hcf.lt i hi) hi).2 c hc
  · intro i hi; exact (ag i hi).1.symm
  · rw [l1, S.lt]
  · exact (hcl root hr hroot).1

end Deeprob
