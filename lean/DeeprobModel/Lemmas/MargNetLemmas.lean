import DeeprobModel.Lemmas.RewriteNetLemmas
set_option linter.unusedSectionVars false
set_option linter.unusedSimpArgs false
set_option linter.unusedVariables false
/-
Lemmas about the net-level first pass of `marginalize` (C10 with sharing).
-/
namespace Deeprob
variable {α : Type} [CommSemiring α]
open Net Circ
/-- what `marginalizeNet` needs of every stored node: sums are non-empty and smooth, product scopes are the
union of their children's scopes, leaves are single-variable table / density leaves over their scope -/
def MargNodeOK (net : Net α) (x : NNode α) : Prop :=
  match x.kind with
  | .sum => x.ch ≠ [] ∧ ∀ c ∈ x.ch, scopeEq (scopeOf net c) x.scope
  | .prod => scopeEq (x.ch.map (scopeOf net)).flatten x.scope
  | .leaf => ∃ v, x.scope = [v] ∧ ((∃ tbl, x.leaf = .cat v tbl) ∨ x.leaf = .ext v)

/-- invariant of the first pass of `marginalize` after `k` nodes, for one evidence `e` -/
structure MInv (net : Net α) (keep : List Nat) (e : Ev) (dens : List α) (k : Nat) (t : Net α)
    (rep : List (Option Nat)) : Prop where
  lt : t.length = k
  lr : rep.length = k
  ch_lt : ∀ (i : Nat) (y : NNode α), t[i]? = some y → ∀ c ∈ y.ch, c < i
  sum_ok : ∀ (i : Nat) (y : NNode α), t[i]? = some y → y.kind = .sum → y.ws.length = y.ch.length ∧ tsum y.ws = 1
  some_le : ∀ i r, i < k → rep.getD i none = some r → r ≤ i
  none_iff : ∀ i, i < k → (rep.getD i none = none ↔ ∀ v ∈ scopeOf net i, v ∉ keep)
  val_some : ∀ i r, i < k → rep.getD i none = some r → nval e dens t r = nval e dens (net.take k) i
  val_none : ∀ i, i < k → rep.getD i none = none → nval e dens (net.take k) i = 1

theorem scopeOf_some (net : Net α) (i : Nat) (x : NNode α) (h : net[i]? = some x) : scopeOf net i = x.scope := by
  simp [scopeOf, h]

theorem minv_extend (net : Net α) (keep : List Nat) (e : Ev) (dens : List α) (k : Nat) (t : Net α)
    (rep : List (Option Nat)) (x y : NNode α) (ro : Option Nat) (hx : net[k]? = some x)
    (I : MInv net keep e dens k t rep)
    (Q1 : ∀ r, ro = some r → r ≤ k)
    (Q2 : ∀ c ∈ y.ch, c < k)
    (Q4 : y.kind = .sum → y.ws.length = y.ch.length ∧ tsum y.ws = 1)
    (Q5 : ro = none ↔ ∀ v ∈ x.scope, v ∉ keep)
    (Q6 : ∀ r, ro = some r → (if r = k then evalNode e dens (evalNet e dens t) y else nval e dens t r)
            = evalNode e dens (evalNet e dens (net.take k)) x)
    (Q7 : ro = none → evalNode e dens (evalNet e dens (net.take k)) x = 1) :
    MInv net keep e dens (k+1) (t ++ [y]) (rep ++ [ro]) := by
  have hk : k < net.length := by
    rcases Nat.lt_or_ge k net.length with h | h
    · exact h
    · rw [List.getElem?_eq_none h] at hx; cases hx
  have htk : (net.take k).length = k := by simp; omega
  have R_lt : ∀ i, i < k → (rep ++ [ro]).getD i none = rep.getD i none :=
    fun i hi => getD_snoc_lt rep ro none i (by rw [I.lr]; exact hi)
  have R_k : (rep ++ [ro]).getD k none = ro := by
    have := getD_snoc_eq rep ro none; rw [I.lr] at this; exact this
  have hlast := nval_append_last e dens (net.take k) x
  rw [htk] at hlast
  refine { lt := by simp [I.lt], lr := by simp [I.lr], ch_lt := ?_, sum_ok := ?_, some_le := ?_, none_iff := ?_,
           val_some := ?_, val_none := ?_ }
  · intro i z hz c hc
    rcases getElem?_snoc_cases t y z i hz with ⟨_, h⟩ | ⟨h1, h2⟩
    · exact I.ch_lt i z h c hc
    · subst h2; rw [h1, I.lt]; exact Q2 c hc
  · intro i z hz hs
    rcases getElem?_snoc_cases t y z i hz with ⟨_, h⟩ | ⟨_, h2⟩
    · exact I.sum_ok i z h hs
    · subst h2; exact Q4 hs
  · intro i r hi hr
    rcases Nat.lt_or_ge i k with h | h
    · rw [R_lt i h] at hr; exact I.some_le i r h hr
    · have : i = k := by omega
      subst this; rw [R_k] at hr; exact Q1 r hr
  · intro i hi
    rcases Nat.lt_or_ge i k with h | h
    · rw [R_lt i h]; exact I.none_iff i h
    · have : i = k := by omega
      subst this; rw [R_k, scopeOf_some net i x hx]; exact Q5
  · intro i r hi hr
    rw [take_succ_snoc net k x hx]
    rcases Nat.lt_or_ge i k with h | h
    · rw [R_lt i h] at hr
      have hle := I.some_le i r h hr
      rw [nval_append_lt e dens t [y] _ (by rw [I.lt]; omega),
        nval_append_lt e dens (net.take k) [x] i (by rw [htk]; exact h)]
      exact I.val_some i r h hr
    · have : i = k := by omega
      subst this
      rw [R_k] at hr
      rw [hlast, ← Q6 r hr]
      by_cases hri : r = i
      · subst hri; simp only [if_true]
        have := nval_append_last e dens t y
        rw [I.lt] at this; exact this
      · simp only [hri, if_false]
        exact nval_append_lt e dens t [y] r (by rw [I.lt]; have := Q1 r hr; omega)
  · intro i hi hr
    rw [take_succ_snoc net k x hx]
    rcases Nat.lt_or_ge i k with h | h
    · rw [R_lt i h] at hr
      rw [nval_append_lt e dens (net.take k) [x] i (by rw [htk]; exact h)]
      exact I.val_none i h hr
    · have : i = k := by omega
      subst this
      rw [R_k] at hr
      rw [hlast]; exact Q7 hr


theorem lprod_filterMap_rep (net : Net α) (keep : List Nat) (e : Ev) (dens : List α) (k : Nat) (t : Net α)
    (rep : List (Option Nat)) (I : MInv net keep e dens k t rep) (ch : List Nat) (h : ∀ c ∈ ch, c < k) :
    lprod ((ch.filterMap (fun c => rep.getD c none)).map (nval e dens t)) = lprod (ch.map (nval e dens (net.take k))) := by
  induction ch with
  | nil => rfl
  | cons c cs ih =>
    have ih' := ih (fun d hd => h d (List.mem_cons_of_mem _ hd))
    have hc := h c List.mem_cons_self
    cases hr : rep.getD c none with
    | none =>
      rw [List.filterMap_cons_none (f := fun c => rep.getD c none) (a := c) hr, ih']
      simp only [List.map_cons, lprod, I.val_none c hc hr, one_mul]
    | some r =>
      rw [List.filterMap_cons_some (f := fun c => rep.getD c none) (a := c) hr]
      simp only [List.map_cons, lprod, ih', I.val_some c r hc hr]

theorem wsum_filterMap_rep (net : Net α) (keep : List Nat) (e : Ev) (dens : List α) (k : Nat) (t : Net α)
    (rep : List (Option Nat)) (I : MInv net keep e dens k t rep) (ch : List Nat) (h : ∀ c ∈ ch, c < k)
    (hall : ∀ c ∈ ch, rep.getD c none ≠ none) (ws : List α) :
    (ch.filterMap (fun c => rep.getD c none)).length = ch.length ∧
    wsum ws ((ch.filterMap (fun c => rep.getD c none)).map (nval e dens t)) = wsum ws (ch.map (nval e dens (net.take k))) := by
  induction ch generalizing ws with
  | nil => exact ⟨rfl, rfl⟩
  | cons c cs ih =>
    have hc := h c List.mem_cons_self
    cases hr : rep.getD c none with
    | none => exact absurd hr (hall c List.mem_cons_self)
    | some r =>
      rw [List.filterMap_cons_some (f := fun c => rep.getD c none) (a := c) hr]
      cases ws with
      | nil =>
        have := (ih (fun d hd => h d (List.mem_cons_of_mem _ hd)) (fun d hd => hall d (List.mem_cons_of_mem _ hd)) []).1
        exact ⟨by simp only [List.length_cons, this], by simp [wsum]⟩
      | cons w ws =>
        obtain ⟨i1, i2⟩ := ih (fun d hd => h d (List.mem_cons_of_mem _ hd)) (fun d hd => hall d (List.mem_cons_of_mem _ hd)) ws
        exact ⟨by simp only [List.length_cons, i1], by simp only [List.map_cons, wsum, i2, I.val_some c r hc hr]⟩

theorem margStepNet_leaf (keep : List Nat) (t : Net α) (rep : List (Option Nat)) (i : Nat) (x : NNode α)
    (h : x.kind = .leaf) :
    margStepNet keep t rep i x = (x, if keep.contains (x.scope.headD 0) then some i else none) := by
  unfold margStepNet; simp [h]

theorem margStepNet_inner (keep : List Nat) (t : Net α) (rep : List (Option Nat)) (i : Nat) (x : NNode α)
    (h : x.kind ≠ .leaf) :
    margStepNet keep t rep i x = margNode t i x (x.ch.filterMap (fun c => rep.getD c none)) := by
  unfold margStepNet; simp [h]

theorem minv_step (net : Net α) (keep : List Nat) (hw : WellOrdered net) (hs : NetSumOK net)
    (hn : ∀ (i : Nat) (x : NNode α), net[i]? = some x → MargNodeOK net x)
    (e : Ev) (he : ∀ v, v ∉ keep → e v = none) (dens : List α)
    (k : Nat) (t : Net α) (rep : List (Option Nat)) (x : NNode α) (hx : net[k]? = some x)
    (I : MInv net keep e dens k t rep) :
    MInv net keep e dens (k+1) (t ++ [(margStepNet keep t rep k x).1]) (rep ++ [(margStepNet keep t rep k x).2]) := by
  have hk : k < net.length := by
    rcases Nat.lt_or_ge k net.length with h | h
    · exact h
    · rw [List.getElem?_eq_none h] at hx; cases hx
  have htk : (net.take k).length = k := by simp; omega
  have hchk : ∀ c ∈ x.ch, c < k := hw k x hx
  have hok := hn k x hx
  unfold MargNodeOK at hok
  have hvals : x.ch.map (fun c => (evalNet e dens (net.take k)).getD c 0) = x.ch.map (nval e dens (net.take k)) := rfl
  generalize hcn_def : x.ch.filterMap (fun c => rep.getD c none) = cn
  have hcn : ∀ r ∈ cn, r < k := by
    intro r hr; rw [← hcn_def, List.mem_filterMap] at hr
    obtain ⟨c, hc, hrc⟩ := hr
    have := I.some_le c r (hchk c hc) hrc
    have := hchk c hc; omega
  cases hkind : x.kind with
  | leaf =>
    rw [hkind] at hok
    obtain ⟨v, hsc, hleaf⟩ := hok
    rw [margStepNet_leaf keep t rep k x hkind, hsc]
    simp only [List.headD_cons]
    have hev : evalNode e dens (evalNet e dens t) x = evalNode e dens (evalNet e dens (net.take k)) x := by
      unfold evalNode; simp only [hkind, evalNet_length, I.lt, htk]
    by_cases hv : v ∈ keep
    · have hc : keep.contains v = true := by simpa using hv
      simp only [hc, if_true]
      apply minv_extend net keep e dens k t rep x x (some k) hx I (by intro r hr; simp at hr; omega) hchk
        (by intro h; rw [hkind] at h; cases h)
      · rw [hsc]
        constructor
        · intro h; cases h
        · intro h; exact absurd hv (h v (by simp))
      · intro r hr; simp at hr; subst hr; simp only [if_true]; exact hev
      · intro h; cases h
    · have hc : keep.contains v = false := by simpa using hv
      simp only [hc]
      apply minv_extend net keep e dens k t rep x x none hx I (by simp) hchk
        (by intro h; rw [hkind] at h; cases h)
      · rw [hsc]; simp [hv]
      · simp
      · intro _
        have hnone := he v hv
        unfold evalNode; simp only [hkind]
        rcases hleaf with ⟨tbl, hl⟩ | hl
        · rw [hl]; simp [LeafP.fn, catLeafFn, hnone]
        · rw [hl]; simp [LeafP.fn, hnone]
  | prod =>
    rw [hkind] at hok
    have htarget : evalNode e dens (evalNet e dens (net.take k)) x = lprod (cn.map (nval e dens t)) := by
      unfold evalNode; simp only [hkind, hvals]
      rw [← hcn_def]; exact (lprod_filterMap_rep net keep e dens k t rep I x.ch hchk).symm
    have hnil : cn = [] ↔ ∀ v ∈ x.scope, v ∉ keep := by
      rw [← hcn_def, List.filterMap_eq_nil_iff]
      constructor
      · intro h v hv
        have := (hok v).2 hv
        simp only [List.mem_flatten, List.mem_map] at this
        obtain ⟨l, ⟨c, hc, rfl⟩, hvl⟩ := this
        exact (I.none_iff c (hchk c hc)).1 (h c hc) v hvl
      · intro h c hc
        apply (I.none_iff c (hchk c hc)).2
        intro v hv
        apply h v
        apply (hok v).1
        simp only [List.mem_flatten, List.mem_map]
        exact ⟨scopeOf net c, ⟨c, hc, rfl⟩, hv⟩
    rw [margStepNet_inner keep t rep k x (by rw [hkind]; simp), hcn_def]
    match hm : cn, hcn, htarget, hnil with
    | [], _, htarget, hnil =>
      apply minv_extend net keep e dens k t rep x x none hx I (by simp) hchk (by intro h; rw [hkind] at h; cases h)
      · simp only [true_iff]; exact hnil.1 rfl
      · simp
      · intro _; rw [htarget]; rfl
    | [c], hcn, htarget, hnil =>
      have hck := hcn c (by simp)
      apply minv_extend net keep e dens k t rep x x (some c) hx I (by intro r hr; simp at hr; omega) hchk
        (by intro h; rw [hkind] at h; cases h)
      · constructor
        · intro h; cases h
        · intro h; have := hnil.2 h; simp at this
      · intro r hr; simp at hr; subst hr
        have : c ≠ k := by omega
        simp only [this, if_false, htarget, List.map_cons, List.map_nil, lprod, mul_one]
      · intro h; cases h
    | c0 :: c1 :: rest, hcn, htarget, hnil =>
      simp only [margNode, hkind, if_true]
      apply minv_extend net keep e dens k t rep x _ (some k) hx I (by intro r hr; simp at hr; omega)
      · intro c hc; exact hcn c hc
      · intro h; simp at h
      · constructor
        · intro h; cases h
        · intro h; have := hnil.2 h; simp at this
      · intro r hr; simp at hr; subst hr
        simp only [if_true, htarget]
        unfold evalNode; simp only [hkind]; rfl
      · intro h; cases h
  | sum =>
    rw [hkind] at hok
    obtain ⟨hne, hsm⟩ := hok
    obtain ⟨hxlen, hxsum⟩ := hs k x hx hkind
    have hdis : ∀ c ∈ x.ch, (rep.getD c none = none ↔ ∀ v ∈ x.scope, v ∉ keep) := by
      intro c hc
      rw [I.none_iff c (hchk c hc)]
      constructor
      · intro h v hv; exact h v ((hsm c hc v).2 hv)
      · intro h v hv; exact h v ((hsm c hc v).1 hv)
    rw [margStepNet_inner keep t rep k x (by rw [hkind]; simp), hcn_def]
    have hev : evalNode e dens (evalNet e dens (net.take k)) x = wsum x.ws (x.ch.map (nval e dens (net.take k))) := by
      unfold evalNode; simp only [hkind, hvals]
    by_cases hD : ∀ v ∈ x.scope, v ∉ keep
    · -- nothing kept: every child is dropped
      have hall : ∀ c ∈ x.ch, rep.getD c none = none := fun c hc => (hdis c hc).2 hD
      have hnil : cn = [] := by rw [← hcn_def, List.filterMap_eq_nil_iff]; exact hall
      rw [hnil]
      apply minv_extend net keep e dens k t rep x x none hx I (by simp) hchk (fun _ => hs k x hx hkind)
      · simp only [true_iff]; exact hD
      · simp
      · intro _
        rw [hev, wsum_ones x.ws _ (by
            intro v hv; simp only [List.mem_map] at hv; obtain ⟨c, hc, rfl⟩ := hv
            exact I.val_none c (hchk c hc) (hall c hc)) (by simp [hxlen]), hxsum]
    · -- something kept: every child survives
      have hall : ∀ c ∈ x.ch, rep.getD c none ≠ none := fun c hc h => hD ((hdis c hc).1 h)
      obtain ⟨hlen, hw2⟩ := wsum_filterMap_rep net keep e dens k t rep I x.ch hchk hall x.ws
      rw [hcn_def] at hlen hw2
      have htarget : evalNode e dens (evalNet e dens (net.take k)) x = wsum x.ws (cn.map (nval e dens t)) := by
        rw [hev, hw2]
      have hQ5 : ∀ r : Nat, ((some r : Option Nat) = none ↔ ∀ v ∈ x.scope, v ∉ keep) :=
        fun r => Iff.intro (fun h => by simp at h) (fun h => absurd h hD)
      match hm : cn, hcn, htarget, hlen with
      | [], _, _, hlen =>
        have : x.ch = [] := by simpa using hlen.symm
        exact absurd this hne
      | [c], hcn, htarget, hlen =>
        have hck := hcn c (by simp)
        have hws : x.ws = [1] := by
          have h1 : x.ws.length = 1 := by rw [hxlen, ← hlen]; rfl
          match hw' : x.ws, h1 with
          | [w], _ =>
            rw [hw'] at hxsum
            simp only [tsum, add_zero] at hxsum; rw [hxsum]
        apply minv_extend net keep e dens k t rep x x (some c) hx I (by intro r hr; simp at hr; omega) hchk
          (fun _ => hs k x hx hkind) (hQ5 c)
        · intro r hr; simp at hr; subst hr
          have : c ≠ k := by omega
          simp only [this, if_false, htarget, hws, List.map_cons, List.map_nil, wsum, one_mul, add_zero]
        · intro h; cases h
      | c0 :: c1 :: rest, hcn, htarget, hlen =>
        simp only [margNode, hkind]
        apply minv_extend net keep e dens k t rep x _ (some k) hx I (by intro r hr; simp at hr; omega)
        · intro c hc; exact hcn c hc
        · intro _; exact ⟨by simp only [reduceCtorEq, if_false]; rw [hxlen, ← hlen], hxsum⟩
        · exact hQ5 k
        · intro r hr; simp at hr; subst hr
          simp only [if_true, htarget]
          unfold evalNode; simp only [hkind, reduceCtorEq, if_false]; rfl
        · intro h; cases h

theorem margPass_snoc (keep : List Nat) (a : Net α) (x : NNode α) :
    margPass keep (a ++ [x]) =
      ((margPass keep a).1 ++ [(margStepNet keep (margPass keep a).1 (margPass keep a).2 (margPass keep a).1.length x).1],
       (margPass keep a).2 ++ [(margStepNet keep (margPass keep a).1 (margPass keep a).2 (margPass keep a).1.length x).2]) := by
  simp [margPass, List.foldl_append]

theorem minv_pass (net : Net α) (keep : List Nat) (hw : WellOrdered net) (hs : NetSumOK net)
    (hn : ∀ (i : Nat) (x : NNode α), net[i]? = some x → MargNodeOK net x)
    (e : Ev) (he : ∀ v, v ∉ keep → e v = none) (dens : List α) :
    ∀ k, k ≤ net.length → MInv net keep e dens k (margPass keep (net.take k)).1 (margPass keep (net.take k)).2 := by
  intro k
  induction k with
  | zero =>
    intro _
    simp only [List.take_zero, margPass, List.foldl_nil]
    exact { lt := rfl, lr := rfl, ch_lt := by intro i y h; simp at h, sum_ok := by intro i y h; simp at h,
            some_le := by intro i r hi; omega, none_iff := by intro i hi; omega,
            val_some := by intro i r hi; omega, val_none := by intro i hi; omega }
  | succ k ih =>
    intro hk
    have hk' : k < net.length := by omega
    have hx : net[k]? = some net[k] := List.getElem?_eq_getElem hk'
    have I := ih (by omega)
    rw [take_succ_snoc net k _ hx, margPass_snoc, I.lt]
    exact minv_step net keep hw hs hn e he dens k _ _ _ hx I

theorem minv_final (net : Net α) (keep : List Nat) (hw : WellOrdered net) (hs : NetSumOK net)
    (hn : ∀ (i : Nat) (x : NNode α), net[i]? = some x → MargNodeOK net x)
    (e : Ev) (he : ∀ v, v ∉ keep → e v = none) (dens : List α) :
    MInv net keep e dens net.length (margPass keep net).1 (margPass keep net).2 := by
  have := minv_pass net keep hw hs hn e he dens net.length (Nat.le_refl _)
  rwa [List.take_length] at this

end Deeprob
