import DeeprobModel.Model.TopDownNet
import DeeprobModel.Lemmas.NetValid
import DeeprobModel.Lemmas.PassLocal
import DeeprobModel.Lemmas.LeafTopDown
set_option linter.unusedSimpArgs false
set_option linter.unusedVariables false
set_option linter.unusedSectionVars false
/-
Net level (stored table, sharing) vs tree level for the top-down MPE pass.
-/
namespace Deeprob

section basics
variable {α : Type} [Zero α] [One α] [Add α] [Mul α] [LT α] [DecidableLT α]

/-- forgetting the top-down leaf data of the unfolding gives the unfolding of Model/Net.lean -/
theorem toCirc_toTTree (net : Net α) (dens : List α) (isBern : Nat → Bool) :
    ∀ fuel i, (toTTree net dens isBern fuel i).toCirc = toTree net dens fuel i := by
  intro fuel
  induction fuel with
  | zero => intro i; simp [toTTree, toTree, TCirc.toCirc]
  | succ f ih =>
    intro i
    simp only [toTTree, toTree]
    cases hn : net[i]? with
    | none => simp [TCirc.toCirc]
    | some x =>
      simp only
      cases x.kind <;> simp [TCirc.toCirc, List.map_map, Function.comp_def, ih]

theorem setMode_keeps (v k : Nat) (x : Ev) (w : Nat) (h : x w ≠ none) :
    (match x v with | none => x.set v k | some _ => x) w = x w := by
  cases hx : x v with
  | some _ => rfl
  | none =>
    simp only
    by_cases hw : w = v
    · subst hw; exact absurd hx h
    · exact Ev.set_ne _ _ hw

theorem LeafP.mode_keeps (bern : Bool) (lf : LeafP α) (x : Ev) (w : Nat) (h : x w ≠ none) :
    lf.mode bern x w = x w := by
  cases lf with
  | cat v tbl =>
    simp only [LeafP.mode]
    split
    · exact setMode_keeps v _ x w h
    · exact setMode_keeps v _ x w h
  | ext v => rfl
  | clt p c => rfl
  | absent => rfl

theorem setMode_local (v k : Nat) (s : List Nat) (a b : Ev) (hab : ∀ w ∈ s, a w = b w) :
    ∀ w ∈ s, (match a v with | none => a.set v k | some _ => a) w = (match b v with | none => b.set v k | some _ => b) w := by
  intro w hw
  by_cases hwv : w = v
  · subst hwv
    have := hab w hw
    cases ha : a w with
    | none => rw [← this, ha]; simp
    | some t => rw [← this, ha]; simp [ha, ← this]
  · have h1 : (match a v with | none => a.set v k | some _ => a) w = a w := by
      cases a v with
      | none => exact Ev.set_ne _ _ hwv
      | some _ => rfl
    have h2 : (match b v with | none => b.set v k | some _ => b) w = b w := by
      cases b v with
      | none => exact Ev.set_ne _ _ hwv
      | some _ => rfl
    rw [h1, h2]; exact hab w hw

theorem LeafP.mode_local (bern : Bool) (lf : LeafP α) (s : List Nat) (a b : Ev) (hab : ∀ w ∈ s, a w = b w) :
    ∀ w ∈ s, lf.mode bern a w = lf.mode bern b w := by
  cases lf with
  | cat v tbl =>
    simp only [LeafP.mode]
    split
    · exact setMode_local v _ s a b hab
    · exact setMode_local v _ s a b hab
  | ext v => exact hab
  | clt p c => exact hab
  | absent => exact hab

/-! ### observed entries are never overwritten (any table, any visiting order) -/
theorem tdStep_keeps (net : Net α) (vals : List α) (isBern : Nat → Bool) (st : TDState) (i v : Nat)
    (h : st.row v ≠ none) : (tdStep net vals isBern st i).row v = st.row v := by
  unfold tdStep
  cases hn : net[i]? with
  | none => rfl
  | some x =>
    simp only
    split
    · cases x.kind with
      | leaf =>
        simp only [writeScope]
        split
        · exact LeafP.mode_keeps _ _ _ _ h
        · rfl
      | prod => rfl
      | sum => rfl
    · rfl

theorem foldl_tdStep_keeps (net : Net α) (vals : List α) (isBern : Nat → Bool) (ord : List Nat) :
    ∀ (st : TDState) (v : Nat), st.row v ≠ none → (ord.foldl (tdStep net vals isBern) st).row v = st.row v := by
  induction ord with
  | nil => intro st v _; rfl
  | cons i ord ih =>
    intro st v h
    simp only [List.foldl_cons]
    have h1 := tdStep_keeps net vals isBern st i v h
    rw [ih _ v (by rw [h1]; exact h), h1]

end basics
end Deeprob
