import DeeprobModel.Spec.ExpLog
import DeeprobModel.Model.Sum
/-
Log-domain side of C20: `scipy.special.log_softmax` as a function, and the one extra law about `exp`
that the arg-max statement needs (monotonicity). ℝ with the usual `exp` is an instance.
-/
namespace Deeprob

/-- `ExpLog` plus strict monotonicity of `exp` -/
structure ExpLogMono (F : Type) [Field F] [LinearOrder F] extends ExpLog F where
  exp_lt : ∀ a b, a < b → exp a < exp b

variable {F : Type} [Field F] [LinearOrder F]

/-- `log_softmax(z)_k = z_k − log Σ_j exp z_j` -/
def logSoftmax (E : ExpLog F) (zs : List F) : List F :=
  zs.map (fun z => z - E.log (tsum (zs.map E.exp)))

/-- `class_ll[:, r] = log w + lls[class_ids][:, r]` -/
def classLL (E : ExpLog F) (w lls : List F) : List F := List.zipWith (fun wk ll => E.log wk + ll) w lls

end Deeprob
