import DeeprobModel.Spec.Softmax
import Mathlib.Analysis.SpecialFunctions.Log.Basic
import Mathlib.Analysis.SpecialFunctions.Sqrt
/-
Non-vacuity of the `ExpLog` / `ExpLogMono` interfaces: ℝ with the usual functions satisfies every law
(so theorems quantified over `ExpLog F` are not about an empty class). `tanh`/`sigmoid` carry no laws.
-/
namespace Deeprob

noncomputable def realExpLogMono : ExpLogMono ℝ where
  exp := Real.exp
  log := Real.log
  sqrt := Real.sqrt
  tanh := Real.tanh
  sigmoid := fun x => 1 / (1 + Real.exp (-x))
  rpow := fun a _ _ => a * Real.sqrt a
  exp_add := Real.exp_add
  exp_zero := Real.exp_zero
  exp_pos := Real.exp_pos
  log_exp := Real.log_exp
  exp_log := fun _ h => Real.exp_log h
  sqrt_sq := fun _ h => Real.mul_self_sqrt h
  sqrt_nonneg := Real.sqrt_nonneg
  rpow_three_halves := fun _ _ => rfl
  exp_lt := fun _ _ h => Real.exp_lt_exp.2 h

noncomputable def realExpLog : ExpLog ℝ := realExpLogMono.toExpLog

end Deeprob
