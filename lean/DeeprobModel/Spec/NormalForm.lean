import DeeprobModel.Model.Rewrite
import DeeprobModel.Spec.Validity
/-
S layer for C09 / C10: the normal form `prune` promises, the structural side conditions the
theorems need, and what "exact marginalisation of one node" means.
-/
namespace Deeprob
namespace Circ
variable {α : Type}

def isSum : Circ α → Bool
  | sum _ _ _ => true
  | _ => false

def isProd : Circ α → Bool
  | prod _ _ => true
  | _ => false

/-- **normal form**: no inner node has fewer than two children, no sum node is a direct child of a
sum node, no product node a direct child of a product node -/
def NormalForm : Circ α → Prop
  | leaf _ _ => True
  | sum _ _ cs => 2 ≤ cs.length ∧ (∀ c ∈ cs, isSum c = false) ∧ ∀ c ∈ cs, NormalForm c
  | prod _ cs => 2 ≤ cs.length ∧ (∀ c ∈ cs, isProd c = false) ∧ ∀ c ∈ cs, NormalForm c

/-- the purely structural part of `check_spn`: every inner node has a child (`"... has no children"`)
and every sum has one weight per child (`"Weights and children length mismatch"`) -/
def Shape : Circ α → Prop
  | leaf _ _ => True
  | sum _ ws cs => cs ≠ [] ∧ ws.length = cs.length ∧ ∀ c ∈ cs, Shape c
  | prod _ cs => cs ≠ [] ∧ ∀ c ∈ cs, Shape c

/-- every sum has one weight per child -/
def LenOK : Circ α → Prop
  | leaf _ _ => True
  | sum _ ws cs => ws.length = cs.length ∧ ∀ c ∈ cs, LenOK c
  | prod _ cs => ∀ c ∈ cs, LenOK c

/-- every product node has at least one child (not implied by `Valid`, which accepts the empty product
over the empty scope; `is_decomposable` rejects it) -/
def ProdNE : Circ α → Prop
  | leaf _ _ => True
  | sum _ _ cs => ∀ c ∈ cs, ProdNE c
  | prod _ cs => cs ≠ [] ∧ ∀ c ∈ cs, ProdNE c

/-- every stored scope list is duplicate-free (enforced by `Node.__init__`) -/
def ScopesNodup : Circ α → Prop
  | leaf s _ => s.Nodup
  | sum s _ cs => s.Nodup ∧ ∀ c ∈ cs, ScopesNodup c
  | prod s cs => s.Nodup ∧ ∀ c ∈ cs, ScopesNodup c

variable [Zero α] [One α] [Add α] [Mul α]

/-- the only thing value preservation of `prune` needs: a sum node with a single child carries the
weight list `[1]` (true for every sum whose weights sum to one, see `unitSingle_of_normW`) -/
def UnitSingle : Circ α → Prop
  | leaf _ _ => True
  | sum _ ws cs => (cs.length = 1 → ws = [1]) ∧ ∀ c ∈ cs, UnitSingle c
  | prod _ cs => ∀ c ∈ cs, UnitSingle c

/-- `c'` is an exact structural marginal of `c` onto `keep`: a valid normalised circuit whose scope is
`scope c ∩ keep` (non-empty) and whose value, whenever everything outside `keep` is missing,
is the value of `c` -/
structure MargRes (dom : Nat → Nat) (keep : List Nat) (c c' : Circ α) : Prop where
  valid : Valid dom c'
  normW : NormW c'
  leafNorm : LeafNorm dom c'
  nodup : ScopesNodup c'
  scope_iff : ∀ v, v ∈ scope c' ↔ v ∈ scope c ∧ v ∈ keep
  hit : ∃ v, v ∈ scope c ∧ v ∈ keep
  eval_eq : ∀ e : Ev, (∀ v, v ∉ keep → e v = none) → eval e c' = eval e c

/-- hypothesis on the leaf-marginalisation parameter: at every leaf of `c` whose scope is not a single
variable (Chow-Liu-tree leaves in the code) `margLeaf` answers `none` only if no kept variable is in
scope and otherwise returns an exact marginal -/
def MargLeafOK (dom : Nat → Nat) (keep : List Nat)
    (margLeaf : List Nat → (Ev → α) → List Nat → Option (Circ α)) : Circ α → Prop
  | leaf s f => s.length ≠ 1 →
      (margLeaf s f keep = none → ∀ v ∈ s, v ∉ keep) ∧
      (∀ c', margLeaf s f keep = some c' → MargRes dom keep (leaf s f) c')
  | sum _ _ cs => ∀ c ∈ cs, MargLeafOK dom keep margLeaf c
  | prod _ cs => ∀ c ∈ cs, MargLeafOK dom keep margLeaf c

end Circ
end Deeprob
