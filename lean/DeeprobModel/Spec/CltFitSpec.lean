import DeeprobModel.Lemmas.CltFitLemmas
import DeeprobModel.Spec.ExpLog
import Mathlib.Tactic.Ring
/-
S layer for C11: the mutual-information weights of `compute_mutual_information`
(deeprob/utils/statistics.py), over any field with a `log` (`ExpLog F`).
-/
namespace Deeprob
namespace CltFit
variable {F : Type} [Field F] [LinearOrder F] (E : ExpLog F)

/-- one summand `joints * (log joints − log outers)`, `outers[i,j,k,l] = priors[i,k] * priors[j,l]` -/
def miTerm (X : List (List Nat)) (al : F) (i j a b : Nat) : F :=
  joint X al i j a b * (E.log (joint X al i j a b) - E.log (prior X al i a * prior X al j b))

/-- `mutual_info[i, j] = Σ_{k,l} joints[i,j,k,l] * (log joints[i,j,k,l] − log (priors[i,k] priors[j,l]))`,
diagonal filled with `0.0` -/
def mutualInfo (X : List (List Nat)) (al : F) (i j : Nat) : F :=
  if i = j then 0
  else miTerm E X al i j 0 0 + miTerm E X al i j 0 1 + miTerm E X al i j 1 0 + miTerm E X al i j 1 1

theorem miTerm_symm (X : List (List Nat)) (al : F) (i j a b : Nat) :
    miTerm E X al i j a b = miTerm E X al j i b a := by
  unfold miTerm
  rw [joint_symm X al i j a b, mul_comm (prior X al i a)]

/-- the MI matrix is symmetric (this is the hypothesis `w a b = w b a` of `cycleOK_max`) -/
theorem mutualInfo_symm (X : List (List Nat)) (al : F) (i j : Nat) :
    mutualInfo E X al i j = mutualInfo E X al j i := by
  unfold mutualInfo
  by_cases h : i = j
  · subst h; rfl
  · have h' : ¬ j = i := fun e => h e.symm
    simp only [h, h', if_false]
    rw [miTerm_symm E X al i j 0 0, miTerm_symm E X al i j 0 1, miTerm_symm E X al i j 1 0,
      miTerm_symm E X al i j 1 1]
    ring

end CltFit
end Deeprob
