import DeeprobModel.Model.Moments
import DeeprobModel.Spec.Validity
/-
S layer for C19: the exact raw moment `E[X_v^k]` of a discrete circuit, and what it means for a leaf's
`moment(k)` method to be right.
-/
namespace Deeprob
variable {α : Type} [Zero α] [One α] [Add α] [Mul α]

/-- `x ↦ (x_v)^k` on complete rows -/
def gPow (k v : Nat) (x : Ev) : α := powN (valC x v) k

/-- `E[X_v^k] = Σ_x x_v^k · c(x)` over all complete rows of the scope -/
def momentSpec (dom : Nat → Nat) (k v : Nat) (c : Circ α) : α :=
  sumOver dom c.scope (fun _ => none) (fun x => gPow k v x * Circ.eval x c)

/-- every variable of `S` is missing in `e` -/
def Missing (S : List Nat) (e : Ev) : Prop := ∀ u ∈ S, e u = none

namespace MCirc

/-- each leaf's `moment(k)` is the exact raw moment of the leaf's own distribution -/
def MomOK (dom : Nat → Nat) (k v : Nat) : MCirc α → Prop
  | leaf s f mom => v ∈ s → mom k v = sumOver dom s (fun _ => none) (fun x => gPow k v x * f x)
  | sum _ _ cs => ∀ c ∈ cs, MomOK dom k v c
  | prod _ cs => ∀ c ∈ cs, MomOK dom k v c

end MCirc
end Deeprob
