import DeeprobModel.Lemmas.NetValid
/-
S-layer for C03: what `check_spn(root, labeled=True, smooth=True, decomposable=True)` is
supposed to accept — stated on the stored table (`Net`), over the nodes reachable from the root
(`Net.collect`), scopes compared as sets.
-/
namespace Deeprob
variable {α : Type}

/-- Python `node.id` of table entry `i` (0 for an index outside the table) -/
def idOf (n : Net α) (i : Nat) : Nat := match n[i]? with | some x => x.id | none => 0

/-- ids of the collected nodes are unique and consecutive from 0 -/
def LabeledSpec (n : Net α) (root : Nat) : Prop :=
  ((Net.collect n root).map (idOf n)).Perm (List.range (Net.collect n root).length)

/-- local condition of a sum node: non-empty, one weight per child, every child has the node's scope -/
def SumOK (n : Net α) (x : NNode α) : Prop :=
  x.ch ≠ [] ∧ x.ws.length = x.ch.length ∧ ∀ c ∈ x.ch, scopeEq (scopeOf n c) x.scope

/-- local condition of a product node: non-empty, child scopes duplicate-free and pairwise disjoint,
their union is the node's scope -/
def ProdOK (n : Net α) (x : NNode α) : Prop :=
  x.ch ≠ [] ∧ (∀ c ∈ x.ch, (scopeOf n c).Nodup) ∧ (x.ch.map (scopeOf n)).Pairwise List.Disjoint ∧
    scopeEq (x.ch.map (scopeOf n)).flatten x.scope

/-- every collected sum node is smooth -/
def SmoothSpec (n : Net α) (root : Nat) : Prop :=
  ∀ i ∈ Net.collect n root, ∀ x, n[i]? = some x → x.kind = .sum → SumOK n x

/-- every collected product node is decomposable -/
def DecompSpec (n : Net α) (root : Nat) : Prop :=
  ∀ i ∈ Net.collect n root, ∀ x, n[i]? = some x → x.kind = .prod → ProdOK n x

/-- **S-layer predicate of C03** (spelled out; `validSpec_iff` splits it into the three parts) -/
def ValidSpec (n : Net α) (root : Nat) : Prop :=
  let R := Net.collect n root
  (R.map (idOf n)).Perm (List.range R.length) ∧
  ∀ i ∈ R, ∀ x, n[i]? = some x →
    (x.kind = .sum → x.ch ≠ [] ∧ x.ws.length = x.ch.length ∧ ∀ c ∈ x.ch, scopeEq (scopeOf n c) x.scope) ∧
    (x.kind = .prod → x.ch ≠ [] ∧ (∀ c ∈ x.ch, (scopeOf n c).Nodup) ∧
      (x.ch.map (scopeOf n)).Pairwise List.Disjoint ∧ scopeEq (x.ch.map (scopeOf n)).flatten x.scope)

/-- the product clause stated with a duplicate-free concatenation (the form `Circ.Valid` / `NodeOK` use) -/
def ProdOK' (n : Net α) (x : NNode α) : Prop :=
  x.ch ≠ [] ∧ (x.ch.map (scopeOf n)).flatten.Nodup ∧ scopeEq (x.ch.map (scopeOf n)).flatten x.scope

end Deeprob
