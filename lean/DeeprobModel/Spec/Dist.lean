import DeeprobModel.Model.TopDown
import DeeprobModel.Spec.Validity
/-
S layer for the top-down queries (C06 MPE, C07 sampling, also C08/C16): what "completion",
"a leaf completes correctly", "exact conditional distribution" mean.
-/
namespace Deeprob

/-- `x` is a completion of `e` on the variables `S`: observed entries are kept and every
variable of `S` has a value. -/
def Completes (S : List Nat) (e x : Ev) : Prop :=
  (∀ v, e v ≠ none → x v = e v) ∧ (∀ v ∈ S, x v ≠ none)

/-- entry `v` of the output row `y` is either the input entry, or the input entry was missing and
has been replaced by a value of the variable's domain -/
def FillsVar (dom : Nat → Nat) (x y : Ev) (v : Nat) : Prop :=
  y v = x v ∨ (x v = none ∧ ∃ k, k < dom v ∧ y v = some k)

/-- contract of a leaf completion function (`Leaf.mpe`, or one outcome of `Leaf.sample`):
on the leaf's own columns (the only ones `eval_top_down` writes back) observed entries are kept,
missing ones are replaced by domain values, and the whole scope is filled -/
structure LeafFill (dom : Nat → Nat) (s : List Nat) (g : Ev → Ev) : Prop where
  step : ∀ x, ∀ v ∈ s, FillsVar dom x (g x) v
  fills : ∀ x, ∀ v ∈ s, g x v ≠ none

namespace TCirc
variable {α : Type}

/-- every leaf visited under any path completes correctly (`fill` = `leaf_func`) -/
def FillOK (dom : Nat → Nat) (fill : List Nat → (Ev → Ev) → Ev → Ev) : TCirc α → Prop
  | leaf s _ m _ => ∀ p, LeafFill dom s (fill p m)
  | sum _ _ cs => ∀ c ∈ cs, FillOK dom fill c
  | prod _ cs => ∀ c ∈ cs, FillOK dom fill c

/-- every leaf's own `mode` completes correctly -/
def ModeOK (dom : Nat → Nat) (c : TCirc α) : Prop := FillOK dom mpeFill c

/-- the branch function (`sum_func`) always answers with the position of a child -/
def BrOK (br : List Nat → List α → List (TCirc α) → Nat) : TCirc α → Prop
  | leaf _ _ _ _ => True
  | sum _ ws cs => (∀ p, br p ws cs < cs.length) ∧ ∀ c ∈ cs, BrOK br c
  | prod _ cs => ∀ c ∈ cs, BrOK br c

/-- weights and leaf values are non-negative -/
def NonNeg [Zero α] [LE α] : TCirc α → Prop
  | leaf _ f _ _ => ∀ e, 0 ≤ f e
  | sum _ ws cs => (∀ w ∈ ws, 0 ≤ w) ∧ ∀ c ∈ cs, NonNeg c
  | prod _ cs => ∀ c ∈ cs, NonNeg c

/-- the mode of a leaf has positive value whenever the evidence has -/
def LeafPos [Zero α] [LT α] : TCirc α → Prop
  | leaf _ f m _ => ∀ e, 0 < f e → 0 < f (m e)
  | sum _ _ cs => ∀ c ∈ cs, LeafPos c
  | prod _ cs => ∀ c ∈ cs, LeafPos c

/-- every leaf samples from its exact conditional: `cond e x · f e = f x` for completions `x` of `e` -/
def LeafExact [Mul α] : TCirc α → Prop
  | leaf s f _ cd => ∀ e x, Completes s e x → cd e x * f e = f x
  | sum _ _ cs => ∀ c ∈ cs, LeafExact c
  | prod _ cs => ∀ c ∈ cs, LeafExact c

/-- the exact conditional distribution `P(x | observed part of e)` of the circuit -/
def condSpec [Zero α] [One α] [Add α] [Mul α] [Div α] (c : TCirc α) (e x : Ev) : α := eval x c / eval e c

end TCirc
end Deeprob
