import DeeprobModel.Model.Circ
/-
S-layer: what "valid" means for a tree circuit.
-/
namespace Deeprob

/-- two scope lists denote the same set of variables -/
def scopeEq (a b : List Nat) : Prop := ∀ v, v ∈ a ↔ v ∈ b

variable {α : Type} [Zero α] [One α] [Add α] [Mul α]

/-- A leaf function is a distribution over `S`: it looks only at `S` and marginalising
any missing entries of `S` by explicit summation gives the value it reports itself. -/
structure LeafOK (dom : Nat → Nat) (S : List Nat) (f : Ev → α) : Prop where
  local_ : ∀ a b : Ev, (∀ v ∈ S, a v = b v) → f a = f b
  marg  : ∀ e : Ev, sumOver dom S e f = f e

namespace Circ

/-- smooth, decomposable, leaves are distributions (scopes compared as sets) -/
def Valid (dom : Nat → Nat) : Circ α → Prop
  | leaf s f => LeafOK dom s f
  | sum s ws cs => cs ≠ [] ∧ ws.length = cs.length ∧ (∀ c ∈ cs, scopeEq (scope c) s) ∧ ∀ c ∈ cs, Valid dom c
  | prod s cs => (cs.map scope).flatten.Nodup ∧ scopeEq (cs.map scope).flatten s ∧ ∀ c ∈ cs, Valid dom c

/-- every sum node's weights sum to one -/
def NormW : Circ α → Prop
  | leaf _ _ => True
  | sum _ ws cs => tsum ws = 1 ∧ ∀ c ∈ cs, NormW c
  | prod _ cs => ∀ c ∈ cs, NormW c

/-- every leaf reports one when nothing is observed (total mass one) -/
def LeafNorm (dom : Nat → Nat) : Circ α → Prop
  | leaf _ f => f (fun _ => none) = 1
  | sum _ _ cs => ∀ c ∈ cs, LeafNorm dom c
  | prod _ cs => ∀ c ∈ cs, LeafNorm dom c

end Circ
end Deeprob
