import DeeprobModel.Model.Circ
/-
S-layer: structured decomposability (laminar product scopes) and determinism.
-/
namespace Deeprob

/-- DESIGN Appendix A: the family "follows one variable tree": any two members are nested or disjoint -/
def Laminar (F : List (List Nat)) : Prop :=
  F.Pairwise fun a b => (∀ v ∈ a, v ∈ b) ∨ (∀ v ∈ b, v ∈ a) ∨ (∀ v, ¬ (v ∈ a ∧ v ∈ b))

namespace Circ
variable {α : Type} [Zero α] [One α] [Add α] [Mul α]

/-- under the evidence `e`, at most one child of every sum node evaluates to a non-zero value -/
def DetAt (e : Ev) : Circ α → Prop
  | leaf _ _ => True
  | sum _ _ cs => cs.Pairwise (fun a b => eval e a = 0 ∨ eval e b = 0) ∧ ∀ c ∈ cs, DetAt e c
  | prod _ cs => ∀ c ∈ cs, DetAt e c

end Circ
end Deeprob
