import DeeprobModel.Model.Learn
import Mathlib.Data.List.Perm.Basic
/-
S layer for C04 / C05: what "the learned structure is valid, its weights are the training-row proportions
and every leaf was fitted on its routed rows" means for the trees returned by the LearnSPN machine.
-/
namespace Deeprob.Learn
open List

/-- all clauses at once (this is what the machine's invariant yields for the finished structure):
* every node has a non-empty row set and a non-empty scope;
* a product's children have the product's rows and non-empty scopes that partition the product's scope;
* a sum's children have the sum's scope, their row sets are the label classes (`slicesOf labels rows`, in
  `np.unique` order) of one labelling of the sum's rows, and weight `i` is `(|rows of child i|, |rows|)`. -/
def Tree.Good : Tree → Prop
  | .leaf r sc => r ≠ [] ∧ sc ≠ []
  | .prod r sc ch => r ≠ [] ∧ sc ≠ [] ∧ ch ≠ [] ∧ (ch.map Tree.scope).flatten.Perm sc ∧
      ∀ c ∈ ch, c.rows = r ∧ c.scope ≠ [] ∧ c.Good
  | .sum r sc ws ch => r ≠ [] ∧ sc ≠ [] ∧
      (∃ labels : List Int, labels.length = r.length ∧ ch.map Tree.rows = slicesOf labels r) ∧
      ws = weightsOf (ch.map Tree.rows) r.length ∧ ∀ c ∈ ch, c.scope = sc ∧ c.Good

/-- C04: structural validity (smooth and decomposable): sum children have the sum's scope, one weight per
child, at least one child; product children have pairwise disjoint scopes whose union is the product's -/
def Tree.Valid : Tree → Prop
  | .leaf _ sc => sc ≠ []
  | .prod _ sc ch => ch ≠ [] ∧ (ch.map Tree.scope).Pairwise List.Disjoint ∧
      (∀ v, v ∈ sc ↔ ∃ c ∈ ch, v ∈ c.scope) ∧ ∀ c ∈ ch, c.Valid
  | .sum _ sc ws ch => ch ≠ [] ∧ ws.length = ch.length ∧ ∀ c ∈ ch, c.scope = sc ∧ c.Valid

/-- C05: in every sum, weight `i` is the pair `(|rows routed to child i|, |rows of the sum|)`, every child
received at least one row, and the children's row counts add up to the sum's -/
def Tree.Proportions : Tree → Prop
  | .leaf _ _ => True
  | .prod _ _ ch => ∀ c ∈ ch, c.Proportions
  | .sum r _ ws ch => ws = ch.map (fun c => (c.rows.length, r.length)) ∧ (∀ c ∈ ch, 0 < c.rows.length) ∧
      (ch.map (fun c => c.rows.length)).sum = r.length ∧ 0 < r.length ∧ ∀ c ∈ ch, c.Proportions

/-- C05: rows are routed down the structure — a product hands all its rows to every child, a sum hands
each child one label class of a labelling of its rows (classes in `np.unique` order); a leaf's recorded
training rows are therefore exactly the rows routed to it -/
def Tree.Routed : Tree → Prop
  | .leaf _ _ => True
  | .prod r _ ch => ∀ c ∈ ch, c.rows = r ∧ c.Routed
  | .sum r _ _ ch => (∃ labels : List Int, labels.length = r.length ∧ ch.map Tree.rows = slicesOf labels r) ∧
      (ch.map Tree.rows).flatten.Perm r ∧ ∀ c ∈ ch, c.Routed

end Deeprob.Learn

namespace Deeprob.Learn
open List
/-! unfolding equations -/
theorem Tree.good_leaf (r sc : List Nat) : (Tree.leaf r sc).Good ↔ r ≠ [] ∧ sc ≠ [] := by
  rw [Tree.Good]
theorem Tree.good_prod (r sc : List Nat) (ch : List Tree) : (Tree.prod r sc ch).Good ↔
    r ≠ [] ∧ sc ≠ [] ∧ ch ≠ [] ∧ (ch.map Tree.scope).flatten.Perm sc ∧
      ∀ c ∈ ch, c.rows = r ∧ c.scope ≠ [] ∧ c.Good := by
  rw [Tree.Good]
theorem Tree.good_sum (r sc : List Nat) (ws : List (Nat × Nat)) (ch : List Tree) : (Tree.sum r sc ws ch).Good ↔
    r ≠ [] ∧ sc ≠ [] ∧
      (∃ labels : List Int, labels.length = r.length ∧ ch.map Tree.rows = slicesOf labels r) ∧
      ws = weightsOf (ch.map Tree.rows) r.length ∧ ∀ c ∈ ch, c.scope = sc ∧ c.Good := by
  rw [Tree.Good]
theorem Tree.valid_leaf (r sc : List Nat) : (Tree.leaf r sc).Valid ↔ sc ≠ [] := by
  rw [Tree.Valid]
theorem Tree.valid_prod (r sc : List Nat) (ch : List Tree) : (Tree.prod r sc ch).Valid ↔
    ch ≠ [] ∧ (ch.map Tree.scope).Pairwise List.Disjoint ∧
      (∀ v, v ∈ sc ↔ ∃ c ∈ ch, v ∈ c.scope) ∧ ∀ c ∈ ch, c.Valid := by
  rw [Tree.Valid]
theorem Tree.valid_sum (r sc : List Nat) (ws : List (Nat × Nat)) (ch : List Tree) : (Tree.sum r sc ws ch).Valid ↔
    ch ≠ [] ∧ ws.length = ch.length ∧ ∀ c ∈ ch, c.scope = sc ∧ c.Valid := by
  rw [Tree.Valid]
theorem Tree.proportions_leaf (r sc : List Nat) : (Tree.leaf r sc).Proportions ↔ True := by
  rw [Tree.Proportions]
theorem Tree.proportions_prod (r sc : List Nat) (ch : List Tree) : (Tree.prod r sc ch).Proportions ↔
    ∀ c ∈ ch, c.Proportions := by
  rw [Tree.Proportions]
theorem Tree.proportions_sum (r sc : List Nat) (ws : List (Nat × Nat)) (ch : List Tree) :
    (Tree.sum r sc ws ch).Proportions ↔
    ws = ch.map (fun c => (c.rows.length, r.length)) ∧ (∀ c ∈ ch, 0 < c.rows.length) ∧
      (ch.map (fun c => c.rows.length)).sum = r.length ∧ 0 < r.length ∧ ∀ c ∈ ch, c.Proportions := by
  rw [Tree.Proportions]
theorem Tree.routed_leaf (r sc : List Nat) : (Tree.leaf r sc).Routed ↔ True := by
  rw [Tree.Routed]
theorem Tree.routed_prod (r sc : List Nat) (ch : List Tree) : (Tree.prod r sc ch).Routed ↔
    ∀ c ∈ ch, c.rows = r ∧ c.Routed := by
  rw [Tree.Routed]
theorem Tree.routed_sum (r sc : List Nat) (ws : List (Nat × Nat)) (ch : List Tree) :
    (Tree.sum r sc ws ch).Routed ↔
    (∃ labels : List Int, labels.length = r.length ∧ ch.map Tree.rows = slicesOf labels r) ∧
      (ch.map Tree.rows).flatten.Perm r ∧ ∀ c ∈ ch, c.Routed := by
  rw [Tree.Routed]
end Deeprob.Learn

namespace Deeprob.Learn
open List
/-- all nodes of a tree (the tree itself first) -/
def Tree.subtrees : Tree → List Tree
  | .leaf r sc => [.leaf r sc]
  | .prod r sc ch => .prod r sc ch :: (ch.map Tree.subtrees).flatten
  | .sum r sc ws ch => .sum r sc ws ch :: (ch.map Tree.subtrees).flatten

theorem Tree.subtrees_leaf (r sc : List Nat) : (Tree.leaf r sc).subtrees = [.leaf r sc] := by
  rw [Tree.subtrees]
theorem Tree.subtrees_prod (r sc : List Nat) (ch : List Tree) :
    (Tree.prod r sc ch).subtrees = .prod r sc ch :: (ch.map Tree.subtrees).flatten := by
  rw [Tree.subtrees]
theorem Tree.subtrees_sum (r sc : List Nat) (ws : List (Nat × Nat)) (ch : List Tree) :
    (Tree.sum r sc ws ch).subtrees = .sum r sc ws ch :: (ch.map Tree.subtrees).flatten := by
  rw [Tree.subtrees]
end Deeprob.Learn
