import DeeprobModel.Lemmas.IoLemmas
import DeeprobModel.Lemmas.RoundLemmas
import Mathlib.Algebra.Order.Field.Rat
/-
S layer for C13: what "same structure" and "parameters within ½·10⁻⁸" mean.
-/
namespace Deeprob.C13
open Deeprob

/-- shape of a node: everything but the float parameters -/
def shape (n : MNode) : Nat × String × List Nat × List Nat := (n.id, n.cls, n.scope, n.ch)

/-- entry-wise within ½·10⁻⁸, same length -/
def Close8L (a b : List ℚ) : Prop := List.Forall₂ (fun x y => |y - x| ≤ 1 / (2 * 10 ^ 8)) a b

/-- same number of nodes, weights and parameters entry-wise within ½·10⁻⁸ -/
def Close8 (m m' : Model) : Prop :=
  List.Forall₂ (fun n n' => Close8L n.weights n'.weights ∧ Close8L n.params n'.params) m m'

theorem close8L_round (l : List ℚ) : Close8L l (l.map round8) := by
  induction l with
  | nil => exact List.Forall₂.nil
  | cons x xs ih => exact List.Forall₂.cons (Deeprob.round8_err x) ih

theorem close8_round (m : Model) : Close8 m (m.map roundNode) := by
  unfold Close8
  induction m with
  | nil => exact List.Forall₂.nil
  | cons n m ih => exact List.Forall₂.cons ⟨close8L_round _, close8L_round _⟩ ih

end Deeprob.C13
