import DeeprobModel.Spec.FlowSpec
import Mathlib.Analysis.SpecialFunctions.Log.Basic
import Mathlib.Analysis.SpecialFunctions.Pow.Real
import Mathlib.Analysis.SpecialFunctions.Sqrt
import Mathlib.Analysis.SpecialFunctions.Trigonometric.DerivHyp
/-
ℝ with the usual `exp`, `log`, `sqrt`, `tanh`, `sigmoid` is an `ExpLog` / `ExpLogSig`.
Used only for the non-vacuity examples of `Props/C15.lean` (noncomputable).
-/
namespace Deeprob.Flows

noncomputable def realExpLog : ExpLog ℝ where
  exp := Real.exp
  log := Real.log
  sqrt := Real.sqrt
  tanh := Real.tanh
  sigmoid := fun a => 1 / (1 + Real.exp (-a))
  rpow := fun a p q => a ^ ((p : ℝ) / (q : ℝ))
  exp_add := Real.exp_add
  exp_zero := Real.exp_zero
  exp_pos := Real.exp_pos
  log_exp := Real.log_exp
  exp_log := fun _ h => Real.exp_log h
  sqrt_sq := fun _ h => Real.mul_self_sqrt h
  sqrt_nonneg := Real.sqrt_nonneg
  rpow_three_halves := by
    intro a ha
    have h : ((3 : ℤ) : ℝ) / ((2 : ℕ) : ℝ) = 1 + 1 / 2 := by norm_num
    rw [h, Real.rpow_add' ha (by norm_num), Real.rpow_one, Real.sqrt_eq_rpow]

noncomputable def realExpLogSig : ExpLogSig ℝ where
  toExpLog := realExpLog
  sigmoid_def := fun _ => rfl

end Deeprob.Flows
