import DeeprobModel.Oblig.C14
/-
S layer for C14: the parameter domains EM has to stay in, the shape it must not change, and what a batch that
fits the model is. (Imports `Oblig/C14` for `RowOK`, `Binary` and the bundle of generated formulas.)
-/
namespace Deeprob.C14
open Deeprob Deeprob.Oblig.C14
variable {F : Type} [Field F] [LinearOrder F] [IsStrictOrderedRing F]

/-- the generated formulas, bundled for `emStep` -/
def genEmFns : EmFns F where
  sumUnnorm := Gen.sumEmUnnorm
  sumNew := Gen.sumEmNew
  bernNew := Gen.bernEmNew
  catNew := Gen.catEmNew
  gaussMeanReest := Gen.gaussEmMeanReest
  gaussMeanNew := Gen.gaussEmMeanNew
  gaussStdArg := Gen.gaussEmStdArg
  gaussStdOf := Gen.gaussEmStdOf
  clt := genCltFns

/-- non-empty, entries ≥ 0, sum one -/
def Simplex (ws : List F) : Prop := ws ≠ [] ∧ (∀ w ∈ ws, 0 ≤ w) ∧ tsum ws = 1

/-- S layer: the parameters are in their domains -/
structure EmInv (p : EmParams F) : Prop where
  sums : ∀ ws ∈ p.sums, Simplex ws
  berns : ∀ q ∈ p.berns, 0 ≤ q ∧ q ≤ 1
  cats : ∀ ps ∈ p.cats, Simplex ps
  gauss : ∀ ms ∈ p.gauss, 1 / 100000 ≤ ms.2
  clts : ∀ tbl ∈ p.clts, ∀ blk ∈ tbl, blk.length = 2 ∧ ∀ row ∈ blk, RowOK row

/-- what does not change: how many nodes of each kind, how many weights / categories / CLT variables each has -/
def EmShape (p : EmParams F) : List Nat × Nat × List Nat × Nat × List Nat :=
  (p.sums.map List.length, p.berns.length, p.cats.map List.length, p.gauss.length, p.clts.map List.length)

/-- the batch of one iteration fits the current parameters: one statistics block per node with the right number of
entries, responsibilities ≥ 0, binary data for Bernoulli / CLT leaves, category indices in range -/
structure BatchOK (cltPreds : List (List Int)) (p : EmParams F) (b : EmBatch F) : Prop where
  sums : List.Forall₂ (fun ws ss => ws.length = ss.length ∧ ∀ s ∈ ss, 0 ≤ s) p.sums b.sumStats
  bern : List.Forall₂ (fun (_ : F) sd => (∀ s ∈ sd.1, 0 ≤ s) ∧ ∀ x ∈ sd.2, x = 0 ∨ x = 1) p.berns b.bern
  cat : List.Forall₂ (fun ps sd => sd.1.length = sd.2.length ∧ (∀ s ∈ sd.1, 0 ≤ s) ∧ ∀ x ∈ sd.2, x < ps.length) p.cats b.cat
  gauss : List.Forall₂ (fun _ _ => True) p.gauss b.gauss
  cltLen : cltPreds.length = p.clts.length
  clt : List.Forall₂ (fun (po : List Int × List (List (List F))) sd =>
      po.1.length = po.2.length ∧ (∀ s ∈ sd.1, 0 ≤ s) ∧ Binary sd.2) (cltPreds.zip p.clts) b.clt

end Deeprob.C14
