import DeeprobModel.Model.Flows
import DeeprobModel.Spec.ExpLog
import Mathlib.Algebra.Group.Defs
/-
S layer for property C15: what "autoregressive", "bijector" and "exact log-determinant" mean.
-/
namespace Deeprob.Flows

/-- A path through a stack of masks from input `j` (of the first mask) to output `i` (of the last):
one unit per intermediate layer, every traversed mask entry equal to 1. -/
def Reach : List (List (List Bool)) → Nat → Nat → Prop
  | [], j, i => j = i
  | M :: Ms, j, i => ∃ k, entry M k j = true ∧ Reach Ms k i

/-- A layer `f` (a function on activation vectors) *respects* mask `M` when output unit `o` reads
only those inputs `i` with `M[o][i] = 1`. `MaskedLinear` followed by any pointwise activation does. -/
def RespectsMask {α : Type} (f : (Nat → α) → (Nat → α)) (M : List (List Bool)) : Prop :=
  ∀ x x' o, (∀ i, entry M o i = true → x i = x' i) → f x o = f x' o

/-- A conditioner head `t` is autoregressive w.r.t. the degree assignment `deg` on `n` inputs:
output `i` reads only inputs `j < n` of strictly smaller degree. -/
def Autoregressive {α : Type} (n : Nat) (deg : Nat → Nat) (t : (Nat → α) → Nat → α) : Prop :=
  ∀ i, i < n → ∀ x x', (∀ j, j < n → deg j < deg i → x j = x' j) → t x i = t x' i

/-- Admissible outputs of `build_degrees_random` as a proposition (see `degreesRandomOK`). -/
def DegreesRandomAdmissible (n depth units : Nat) (degs : List (List Nat)) : Prop :=
  degreesRandomOK n depth units degs = true

/-- Abstract bijector interface (`deeprob.flows.utils.Bijector`): `fwd = apply_forward`,
`bwd = apply_backward`, each returning the transformed point and the reported log-det-Jacobian.
Laws: mutual inverses, and the log-det reported by `bwd` at the image of `fwd` is the negative of
the one reported by `fwd`. -/
structure Bij (X F : Type) [AddCommGroup F] where
  fwd : X → X × F
  bwd : X → X × F
  fwd_bwd : ∀ x, (fwd (bwd x).1).1 = x
  bwd_fwd : ∀ u, (bwd (fwd u).1).1 = u
  ldj_antisymm : ∀ u, (bwd (fwd u).1).2 = -(fwd u).2

/-- `ExpLog` together with the defining equation of `torch.sigmoid`. -/
structure ExpLogSig (F : Type) [Field F] [LinearOrder F] extends ExpLog F where
  sigmoid_def : ∀ a, sigmoid a = 1 / (1 + exp (-a))

end Deeprob.Flows
