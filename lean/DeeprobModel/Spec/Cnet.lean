import DeeprobModel.Model.Cnet
import DeeprobModel.Spec.Moments
/-
S layer for C18: what a well-formed cutset network is.
-/
namespace Deeprob.C18
open Deeprob
variable {α : Type} [Zero α] [One α] [Add α] [Mul α]

namespace CNet

/-- leaves are distributions over their scope (what C11/C12 prove about Chow-Liu trees) -/
def LeavesOK (dom : Nat → Nat) : CNet α → Prop
  | .leaf s f => (∀ a b : Ev, (∀ u ∈ s, a u = b u) → f a = f b) ∧ sumOver dom s (fun _ => none) f = 1
  | .or _ _ _ _ c0 c1 => LeavesOK dom c0 ∧ LeavesOK dom c1

/-- S layer: a well-formed cutset network -/
def WF (dom : Nat → Nat) : CNet α → Prop
  | .leaf s f => (∀ a b : Ev, (∀ u ∈ s, a u = b u) → f a = f b) ∧ sumOver dom s (fun _ => none) f = 1
  | .or s v w0 w1 c0 c1 => v ∈ s ∧ dom v = 2 ∧ w0 + w1 = 1 ∧
      (∀ u, u ∈ c0.scope ↔ (u ∈ s ∧ u ≠ v)) ∧ (∀ u, u ∈ c1.scope ↔ (u ∈ s ∧ u ≠ v)) ∧ WF dom c0 ∧ WF dom c1

end CNet
end Deeprob.C18
