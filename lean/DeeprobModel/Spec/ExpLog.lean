import Mathlib.Algebra.Field.Defs
import Mathlib.Algebra.Order.Ring.Defs
/-
Transcendental functions never enter a theorem as real functions: theorems quantify over a
field equipped with functions satisfying exactly the laws they use (structure fields, not axioms).
ℝ with the usual exp/log/sqrt is an instance (textbook; listed in DESIGN.md §4 item 6).
-/
namespace Deeprob

structure ExpLog (F : Type) [Field F] [LinearOrder F] where
  exp : F → F
  log : F → F
  sqrt : F → F
  tanh : F → F
  sigmoid : F → F
  /-- `rpow a p q` = a^(p/q) -/
  rpow : F → Int → Nat → F
  exp_add : ∀ a b, exp (a + b) = exp a * exp b
  exp_zero : exp 0 = 1
  exp_pos : ∀ a, 0 < exp a
  log_exp : ∀ a, log (exp a) = a
  exp_log : ∀ a, 0 < a → exp (log a) = a
  sqrt_sq : ∀ a, 0 ≤ a → sqrt a * sqrt a = a
  sqrt_nonneg : ∀ a, 0 ≤ sqrt a
  rpow_three_halves : ∀ a, 0 ≤ a → rpow a 3 2 = a * sqrt a

end Deeprob
