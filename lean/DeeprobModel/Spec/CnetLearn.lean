import DeeprobModel.Model.CnetLearn
import DeeprobModel.Spec.Cnet
/-
S layer for the learned cutset networks (C18, learners): what the theorems of Props/C18Learn.lean talk about.
-/
namespace Deeprob.CnetLearn
open Deeprob

section
variable {α : Type} [Zero α] [One α] [Add α] [Sub α] [Mul α] [Div α] [NatCast α]

/-- the smoothing parameter the code uses at depth `d` of the OR tree: `ess / 2^d` for `learn_cnet_bd`
(`node_ess` is halved whenever children are queued), `alpha` at every depth for `fit` / `learn_cnet_bic` -/
def parAt (k : Kind) (p : α) : Nat → α
  | 0 => p
  | d+1 => childPar k (parAt k p d)

/-- `P depth rows scope v w0 w1 left right` holds at every OR node (the root has depth `d`) -/
def LTree.AllOr (P : Nat → List Nat → List Nat → Nat → α → α → LTree α → LTree α → Prop) : Nat → LTree α → Prop
  | _, .leaf _ _ => True
  | d, .or r s v w0 w1 c0 c1 => P d r s v w0 w1 c0 c1 ∧ LTree.AllOr P (d+1) c0 ∧ LTree.AllOr P (d+1) c1

/-- `f` is a distribution over the variables `S` (what C11 / C12 prove about a fitted Chow-Liu tree):
it reads only the variables of `S` and its values over all completions of `S` sum to one -/
def LeafDist (dom : Nat → Nat) (S : List Nat) (f : Ev → α) : Prop :=
  (∀ a b : Ev, (∀ u ∈ S, a u = b u) → f a = f b) ∧ sumOver dom S (fun _ => none) f = 1

/-- the leaf oracle is a distribution at every leaf of the learned tree -/
def LeavesDist (dom : Nat → Nat) (lf : List Nat → List Nat → Ev → α) (t : LTree α) : Prop :=
  ∀ x ∈ t.leaves, LeafDist dom x.2.2 (lf x.2.1 x.2.2)

/-- every cell of the data matrix is 0 or 1 -/
def BinaryData (data : List (List Nat)) : Prop := ∀ r v, cellOf data r v ≤ 1

/-- executable version (sufficient: `binaryData_of_isBinaryB`) -/
def isBinaryB (data : List (List Nat)) : Bool := data.all (fun x => x.all (fun v => decide (v ≤ 1)))

/-- the descent of one complete binary row: the branch weights it selects (root first), and the rows and
scope of the leaf it reaches. A row that is not 0/1 at a cut variable selects nothing further (as in
`cnetEval`). -/
def LTree.descend (x : Ev) : LTree α → List α × List (Nat × Nat) × List Nat × List Nat
  | .leaf r s => ([], [], r, s)
  | .or _ _ v w0 w1 c0 c1 =>
    match x v with
    | some 0 => let d := LTree.descend x c0; (w0 :: d.1, (v, 0) :: d.2.1, d.2.2)
    | some 1 => let d := LTree.descend x c1; (w1 :: d.1, (v, 1) :: d.2.1, d.2.2)
    | _ => ([], [], [], [])

/-- the cut variables of all OR nodes -/
def LTree.cutVars : LTree α → List Nat
  | .leaf _ _ => []
  | .or _ _ v _ _ c0 c1 => v :: (LTree.cutVars c0 ++ LTree.cutVars c1)

/-- `x` is a complete binary row over the variables `S` -/
def BinaryRow (S : List Nat) (x : Ev) : Prop := ∀ v ∈ S, x v = some 0 ∨ x v = some 1

end
end Deeprob.CnetLearn
