def hello := "world"
